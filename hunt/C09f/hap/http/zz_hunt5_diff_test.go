package http

import (
	"bytes"
	"encoding/base64"
	"encoding/json"
	"fmt"
	"math"
	"math/rand"
	"net"
	"os"
	"strconv"
	"strings"
	"testing"

	"github.com/brutella/hc/accessory"
	"github.com/brutella/hc/characteristic"
	"github.com/brutella/hc/service"
)

type h5key struct{ aid, iid uint64 }

type h5char struct {
	key  h5key
	name string
	c    *characteristic.Characteristic
	// model
	has bool
	val interface{} // bool, int, float64, string
	// callbacks seen
	remote []interface{}
}

func h5bounds(c *characteristic.Characteristic) (lo, hi int) {
	switch c.Format {
	case characteristic.FormatUInt8:
		lo, hi = 0, 255
	case characteristic.FormatUInt16:
		lo, hi = 0, 65535
	case characteristic.FormatUInt32:
		lo, hi = 0, 4294967295
	case characteristic.FormatInt32:
		lo, hi = -2147483648, 2147483647
	case characteristic.FormatUInt64:
		lo, hi = 0, 1<<53
	}
	if v, ok := c.MinValue.(int); ok {
		lo = v
	}
	if v, ok := c.MaxValue.(int); ok {
		hi = v
	}
	return
}

var h5pieces = []string{"a", "Z", " ", "\"", "\\", "/", "<", ">", "&", "'", "\n", "\t", "\r", "\x00", "\x7f", " ", " ", "é", "ß", "日本", "😀", "𝄞", "\U0010FFFF", "�", "\\u0041", "%41", "+", "null", "true", "1", "1e3", "{}", "[", ","}

func h5randString(r *rand.Rand) string {
	n := r.Intn(12)
	if r.Intn(10) == 0 {
		n = r.Intn(1500)
	}
	var b strings.Builder
	for i := 0; i < n; i++ {
		b.WriteString(h5pieces[r.Intn(len(h5pieces))])
	}
	return b.String()
}

func h5randValue(r *rand.Rand, c *characteristic.Characteristic) interface{} {
	switch c.Format {
	case characteristic.FormatBool:
		return r.Intn(2) == 0
	case characteristic.FormatFloat:
		lo, hi := -1e9, 1e9
		if v, ok := c.MinValue.(float64); ok {
			lo = v
		}
		if v, ok := c.MaxValue.(float64); ok {
			hi = v
		}
		switch r.Intn(6) {
		case 0:
			return lo
		case 1:
			return hi
		case 2:
			return math.Floor(lo + r.Float64()*(hi-lo))
		case 3:
			f := lo + r.Float64()*(hi-lo)
			return math.Float64frombits(math.Float64bits(f))
		case 4:
			if lo <= 0 && hi >= 0 {
				return []float64{0, 1e-7, 5e-324, 1e-300, 0.1, 0.30000000000000004}[r.Intn(6)] * 1
			}
			return lo
		default:
			s := 1.0
			if v, ok := c.StepValue.(float64); ok && v > 0 {
				s = v
			}
			k := math.Floor(r.Float64() * (hi - lo) / s)
			f := lo + k*s
			if f > hi {
				f = hi
			}
			return f
		}
	case characteristic.FormatString:
		return h5randString(r)
	case characteristic.FormatTLV8, characteristic.FormatData:
		n := r.Intn(40)
		if r.Intn(8) == 0 {
			n = r.Intn(3000)
		}
		if n == 0 {
			n = 1
		}
		b := make([]byte, n)
		r.Read(b)
		return base64.StdEncoding.EncodeToString(b)
	default:
		lo, hi := h5bounds(c)
		switch r.Intn(4) {
		case 0:
			return lo
		case 1:
			return hi
		default:
			return lo + int(r.Int63n(int64(hi-lo)+1))
		}
	}
}

func h5same(model interface{}, raw json.RawMessage) bool {
	switch m := model.(type) {
	case bool:
		return string(raw) == strconv.FormatBool(m) || (m && string(raw) == "1") || (!m && string(raw) == "0")
	case int:
		f, err := strconv.ParseFloat(string(raw), 64)
		return err == nil && f == float64(m)
	case float64:
		f, err := strconv.ParseFloat(string(raw), 64)
		return err == nil && f == m
	case string:
		var s string
		if err := json.Unmarshal(raw, &s); err != nil {
			return false
		}
		return s == m
	}
	return false
}

func h5buildBridge(t testing.TB, nAcc int) (*h5env, []*h5char) {
	var accs []*accessory.Accessory
	bridge := accessory.NewBridge(accessory.Info{Name: "Bridge"})
	accs = append(accs, bridge.Accessory)
	// one accessory with every characteristic constructor, 12 per service
	all := accessory.New(accessory.Info{Name: "All"}, accessory.TypeOther)
	var svc *service.Service
	names := map[*characteristic.Characteristic]string{}
	for i, ct := range h5ctors {
		if i%12 == 0 {
			if svc != nil {
				all.AddService(svc)
			}
			svc = service.New(fmt.Sprintf("%X", 0x1000+i))
		}
		c := ct.mk()
		names[c] = ct.name
		svc.AddCharacteristic(c)
	}
	all.AddService(svc)
	accs = append(accs, all)
	// accessories made of the library's services
	k := 0
	for i := 0; i < nAcc; i++ {
		a := accessory.New(accessory.Info{Name: fmt.Sprintf("Acc %d", i)}, accessory.TypeOther)
		for j := 0; j < 4; j++ {
			sv := h5svcs[k%len(h5svcs)]
			k++
			s := sv.mk()
			for _, c := range s.Characteristics {
				names[c] = sv.name
			}
			a.AddService(s)
		}
		accs = append(accs, a)
	}
	e := h5newEnv(t, accs...)
	var chars []*h5char
	for _, a := range e.cont.Accessories {
		for _, s := range a.Services {
			for _, c := range s.Characteristics {
				hc := &h5char{key: h5key{a.ID, c.ID}, c: c, name: names[c]}
				if c.Value != nil {
					hc.has = true
					hc.val = c.Value
				}
				c.OnValueUpdateFromConn(func(conn net.Conn, cc *characteristic.Characteristic, nv, ov interface{}) {
					hc.remote = append(hc.remote, nv)
				})
				chars = append(chars, hc)
			}
		}
	}
	return e, chars
}

func h5seed() int64 {
	if s := os.Getenv("H5SEED"); s != "" {
		n, _ := strconv.ParseInt(s, 10, 64)
		return n
	}
	return 1
}

func h5steps() int {
	if s := os.Getenv("H5STEPS"); s != "" {
		n, _ := strconv.Atoi(s)
		return n
	}
	return 1500
}

func TestHunt5Differential(t *testing.T) {
	seed := h5seed()
	r := rand.New(rand.NewSource(seed))
	nAcc := 1 + r.Intn(30)
	if s := os.Getenv("H5NACC"); s != "" {
		nAcc, _ = strconv.Atoi(s)
	}
	e, chars := h5buildBridge(t, nAcc)
	defer e.close()
	ctl := e.controller()
	byKey := map[h5key]*h5char{}
	for _, c := range chars {
		if _, dup := byKey[c.key]; dup {
			t.Fatalf("duplicate id %v", c.key)
		}
		byKey[c.key] = c
	}
	t.Logf("seed %d: %d accessories, %d characteristics", seed, len(e.cont.Accessories), len(chars))
	fails := 0
	fail := func(format string, a ...interface{}) {
		fails++
		if fails < 25 {
			t.Errorf(format, a...)
		}
	}
	maxAid := uint64(len(e.cont.Accessories))

	checkEntry := func(step int, what string, want h5key, en h5entry, multi bool) {
		if en.Aid != want.aid || en.Iid != want.iid {
			fail("step %d %s: asked %v answered %d.%d", step, what, want, en.Aid, en.Iid)
			return
		}
		hc := byKey[want]
		switch {
		case hc == nil:
			if en.Status == nil || *en.Status == 0 || en.Value != nil {
				fail("step %d %s: non-existing %v answered %+v", step, what, want, en)
			}
		case !hc.c.IsReadable():
			if en.Status == nil || *en.Status == 0 || en.Value != nil {
				fail("step %d %s: write-only %v (%s) answered without error status", step, what, want, hc.name)
			}
		default:
			if en.Value == nil {
				fail("step %d %s: readable %v (%s) answered without value (model has=%v %v)", step, what, want, hc.name, hc.has, hc.val)
			} else if !h5same(hc.val, *en.Value) {
				fail("step %d %s: %v (%s, %s): model %#v, controller read %s", step, what, want, hc.name, hc.c.Format, hc.val, string(*en.Value))
			}
			if multi && (en.Status == nil || *en.Status != 0) {
				fail("step %d %s: %v no status 0 in multi-status", step, what, want)
			}
			if !multi && en.Status != nil && *en.Status != 0 {
				fail("step %d %s: %v status %d", step, what, want, *en.Status)
			}
		}
	}

	for step := 0; step < h5steps() && fails < 25; step++ {
		switch op := r.Intn(10); {
		case op < 3: // application sets
			hc := chars[r.Intn(len(chars))]
			v := h5randValue(r, hc.c)
			hc.c.UpdateValue(v)
			if hc.c.IsReadable() {
				hc.has, hc.val = true, v
			}
			if g := hc.c.GetValue(); hc.c.IsReadable() && g != v {
				fail("step %d: app set %#v on %s, getter %#v", step, v, hc.name, g)
			}
		case op < 6: // controller reads a list
			n := 1 + r.Intn(8)
			if r.Intn(10) == 0 {
				n = 1 + r.Intn(300)
			}
			var want []h5key
			var ids []string
			anyErr := false
			for i := 0; i < n; i++ {
				var k h5key
				switch r.Intn(8) {
				case 0:
					k = h5key{maxAid + 1 + uint64(r.Intn(3)), uint64(1 + r.Intn(20))}
				case 1:
					k = h5key{uint64(1 + r.Intn(int(maxAid))), uint64(5000 + r.Intn(100))}
				case 2:
					k = h5key{uint64(1 + r.Intn(int(maxAid))), 1} // a service id
				default:
					k = chars[r.Intn(len(chars))].key
				}
				hc := byKey[k]
				if hc == nil || !hc.c.IsReadable() {
					anyErr = true
				}
				want = append(want, k)
				ids = append(ids, fmt.Sprintf("%d.%d", k.aid, k.iid))
			}
			code, body, _ := ctl.do("GET", "/characteristics?id="+strings.Join(ids, ","), nil)
			wantCode := 200
			if anyErr {
				wantCode = 207
			}
			if code != wantCode {
				fail("step %d GET %v: status %d want %d", step, ids, code, wantCode)
			}
			ents := h5parseEntries(t, body)
			if len(ents) != len(want) {
				fail("step %d GET: %d entries for %d ids", step, len(ents), len(want))
				break
			}
			for i := range ents {
				checkEntry(step, "GET", want[i], ents[i], anyErr)
			}
		case op < 9: // controller writes
			n := 1 + r.Intn(4)
			type wr struct {
				hc *h5char
				v  interface{}
			}
			var ws []wr
			var items []string
			seen := map[h5key]bool{}
			for i := 0; i < n; i++ {
				hc := chars[r.Intn(len(chars))]
				if !hc.c.IsWritable() || seen[hc.key] {
					continue
				}
				seen[hc.key] = true
				v := h5randValue(r, hc.c)
				var enc []byte
				if b, ok := v.(bool); ok && r.Intn(2) == 0 {
					enc = []byte("0")
					if b {
						enc = []byte("1")
					}
				} else {
					var buf bytes.Buffer
					je := json.NewEncoder(&buf)
					je.SetEscapeHTML(r.Intn(2) == 0)
					je.Encode(v)
					enc = bytes.TrimSpace(buf.Bytes())
				}
				ws = append(ws, wr{hc, v})
				items = append(items, fmt.Sprintf(`{"aid":%d,"iid":%d,"value":%s}`, hc.key.aid, hc.key.iid, enc))
			}
			if len(ws) == 0 {
				break
			}
			for _, w := range ws {
				w.hc.remote = nil
			}
			body := []byte(`{"characteristics":[` + strings.Join(items, ",") + `]}`)
			code, rb, _ := ctl.do("PUT", "/characteristics", body)
			if code != 204 {
				fail("step %d PUT %s: status %d body %s", step, body, code, rb)
			}
			for _, w := range ws {
				hc := w.hc
				changes := !hc.c.IsReadable() || !hc.has || hc.val != w.v
				if hc.c.IsReadable() {
					hc.has, hc.val = true, w.v
					if g := hc.c.GetValue(); g != w.v {
						fail("step %d PUT: controller wrote %#v to %s (%s), getter returns %#v", step, w.v, hc.name, hc.c.Format, g)
					}
				}
				if changes {
					if len(hc.remote) != 1 || hc.remote[0] != w.v {
						fail("step %d PUT: controller wrote %#v to %s (%s), callback got %#v", step, w.v, hc.name, hc.c.Format, hc.remote)
					}
				}
			}
		default: // /accessories
			code, body, _ := ctl.do("GET", "/accessories", nil)
			if code != 200 {
				fail("step %d /accessories: status %d", step, code)
			}
			var db struct {
				Accessories []struct {
					Aid      uint64 `json:"aid"`
					Services []struct {
						Iid             uint64 `json:"iid"`
						Characteristics []struct {
							Iid   uint64           `json:"iid"`
							Value *json.RawMessage `json:"value"`
						} `json:"characteristics"`
					} `json:"services"`
				} `json:"accessories"`
			}
			if err := json.Unmarshal(body, &db); err != nil {
				t.Fatalf("step %d /accessories: %v", step, err)
			}
			cnt := 0
			for _, a := range db.Accessories {
				for _, s := range a.Services {
					for _, c := range s.Characteristics {
						cnt++
						hc := byKey[h5key{a.Aid, c.Iid}]
						if hc == nil {
							fail("step %d /accessories: unknown %d.%d", step, a.Aid, c.Iid)
							continue
						}
						if !hc.c.IsReadable() {
							if c.Value != nil {
								fail("step %d /accessories: write-only %s has value %s", step, hc.name, *c.Value)
							}
							continue
						}
						if c.Value == nil {
							fail("step %d /accessories: readable %s (%v) without value", step, hc.name, hc.key)
						} else if !h5same(hc.val, *c.Value) {
							fail("step %d /accessories: %s (%v): model %#v read %s", step, hc.name, hc.key, hc.val, *c.Value)
						}
					}
				}
			}
			if cnt != len(chars) {
				fail("step %d /accessories: %d characteristics, want %d", step, cnt, len(chars))
			}
		}
	}
}

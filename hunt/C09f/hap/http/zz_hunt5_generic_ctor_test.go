package http

import (
	"encoding/json"
	"fmt"
	"testing"

	"github.com/brutella/hc/accessory"
	"github.com/brutella/hc/characteristic"
	"github.com/brutella/hc/service"
)

// Clause: "Each requested id is answered exactly once and in order with a value or an
// error status, and a multi-status answer carries a status for every entry" and "the
// value ... is exactly the value a verified controller reads (through /characteristics ...
// and in /accessories)".
//
// Input: the library's generic constructors NewInt / NewFloat / NewBool / NewString /
// NewBytes (quantifier: "every characteristic constructor in the library"), used the
// way an application does for a custom characteristic, before the application has set a
// value. They are readable ("pr"), their typed getters return 0 / 0.0 / false / ""
// (repair "typed characteristic getters read 'no value stored' as the zero value"),
// but the controller is answered with an entry that has neither "value" nor "status",
// and /accessories lists a readable characteristic without "value".
func TestHunt5GenericConstructorReadableWithoutValue(t *testing.T) {
	a := accessory.New(accessory.Info{Name: "Custom"}, accessory.TypeOther)
	svc := service.New("F0000001-0000-1000-8000-0026BB765291")
	i := characteristic.NewInt("F0000002-0000-1000-8000-0026BB765291")
	f := characteristic.NewFloat("F0000003-0000-1000-8000-0026BB765291")
	b := characteristic.NewBool("F0000004-0000-1000-8000-0026BB765291")
	s := characteristic.NewString("F0000005-0000-1000-8000-0026BB765291")
	y := characteristic.NewBytes("F0000006-0000-1000-8000-0026BB765291")
	svc.AddCharacteristic(i.Characteristic)
	svc.AddCharacteristic(f.Characteristic)
	svc.AddCharacteristic(b.Characteristic)
	svc.AddCharacteristic(s.Characteristic)
	svc.AddCharacteristic(y.Characteristic)
	a.AddService(svc)
	e := h5newEnv(t, a)
	defer e.close()
	ctl := e.controller()

	// what the application's getters say
	t.Logf("application getters: %v %v %v %q %v", i.GetValue(), f.GetValue(), b.GetValue(), s.GetValue(), y.GetValue())

	chars := []*characteristic.Characteristic{i.Characteristic, f.Characteristic, b.Characteristic, s.Characteristic, y.Characteristic}
	ids := ""
	for n, c := range chars {
		if !c.IsReadable() {
			t.Fatalf("%s not readable", c.Type)
		}
		if n > 0 {
			ids += ","
		}
		ids += fmt.Sprintf("1.%d", c.ID)
	}
	code, body, _ := ctl.do("GET", "/characteristics?id="+ids, nil)
	t.Logf("GET -> %d %s", code, body)
	ents := h5parseEntries(t, body)
	if len(ents) != len(chars) {
		t.Fatalf("%d entries", len(ents))
	}
	for n, en := range ents {
		if en.Value == nil && (en.Status == nil || *en.Status == 0) {
			t.Errorf("GET 1.%d (format %s, perms %v): answered with neither a value nor an error status", chars[n].ID, chars[n].Format, chars[n].Perms)
		}
	}

	// together with an unknown id: 207, status 0 (= success) but no value
	code, body, _ = ctl.do("GET", fmt.Sprintf("/characteristics?id=1.%d,1.999", i.ID), nil)
	t.Logf("GET -> %d %s", code, body)
	ents = h5parseEntries(t, body)
	if en := ents[0]; en.Value == nil && en.Status != nil && *en.Status == 0 {
		t.Errorf("207: 1.%d has status 0 (success) and no value", i.ID)
	}

	// /accessories: readable characteristic without "value"
	_, body, _ = ctl.do("GET", "/accessories", nil)
	var db struct {
		Accessories []struct {
			Services []struct {
				Characteristics []struct {
					Iid   uint64           `json:"iid"`
					Perms []string         `json:"perms"`
					Value *json.RawMessage `json:"value"`
				} `json:"characteristics"`
			} `json:"services"`
		} `json:"accessories"`
	}
	if err := json.Unmarshal(body, &db); err != nil {
		t.Fatal(err)
	}
	for _, sv := range db.Accessories[0].Services {
		for _, c := range sv.Characteristics {
			readable := false
			for _, p := range c.Perms {
				readable = readable || p == "pr"
			}
			if readable && c.Value == nil {
				t.Errorf("/accessories: characteristic %d has perms %v and no value", c.Iid, c.Perms)
			}
		}
	}
}

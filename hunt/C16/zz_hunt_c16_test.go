package util

import (
	"bytes"
	"errors"
	"io"
	"math/rand"
	"testing"
	"testing/iotest"
)

// reference encoder: value split in fragments of 255, the last one shorter
// than 255 unless the length is an exact non-zero multiple of 255; a zero
// length value is one item with length 0.
func refEncode(tag uint8, v []byte) []byte {
	var out []byte
	if len(v) == 0 {
		return []byte{tag, 0}
	}
	for len(v) > 0 {
		n := len(v)
		if n > 255 {
			n = 255
		}
		out = append(out, tag, byte(n))
		out = append(out, v[:n]...)
		v = v[n:]
	}
	return out
}

type refItem struct {
	tag uint8
	val []byte
}

// reference (standard) parser: consecutive items of the same tag are merged.
func refParse(b []byte) ([]refItem, error) {
	var items []refItem
	for len(b) > 0 {
		if len(b) < 2 {
			return nil, errors.New("truncated header")
		}
		tag, l := b[0], int(b[1])
		b = b[2:]
		if len(b) < l {
			return nil, errors.New("truncated value")
		}
		if n := len(items); n > 0 && items[n-1].tag == tag {
			items[n-1].val = append(items[n-1].val, b[:l]...)
		} else {
			items = append(items, refItem{tag, append([]byte{}, b[:l]...)})
		}
		b = b[l:]
	}
	return items, nil
}

func pattern(n int, seed byte) []byte {
	v := make([]byte, n)
	for i := range v {
		v[i] = byte(i*7) ^ seed
	}
	return v
}

// P1: exhaustive lengths 1..1024, several tags: bytes equal to reference, fragments <=255, round trip.
func TestHuntExhaustiveLengthsNonEmpty(t *testing.T) {
	for _, tag := range []uint8{0, 1, 6, 127, 128, 254, 255} {
		for n := 1; n <= 1024; n++ {
			v := pattern(n, tag)
			c := NewTLV8Container()
			c.SetBytes(tag, v)
			got := c.BytesBuffer().Bytes()
			if want := refEncode(tag, v); !bytes.Equal(got, want) {
				t.Fatalf("tag=%d len=%d: encoding differs from reference (got %d bytes want %d)", tag, n, len(got), len(want))
			}
			items, err := refParse(got)
			if err != nil || len(items) != 1 || !bytes.Equal(items[0].val, v) {
				t.Fatalf("tag=%d len=%d: standard parser did not reassemble: %v", tag, n, err)
			}
			p, err := NewTLV8ContainerFromReader(bytes.NewReader(got))
			if err != nil {
				t.Fatalf("tag=%d len=%d: reparse: %v", tag, n, err)
			}
			if !bytes.Equal(p.GetBytes(tag), v) {
				t.Fatalf("tag=%d len=%d: round trip value differs", tag, n)
			}
			if !bytes.Equal(p.BytesBuffer().Bytes(), got) {
				t.Fatalf("tag=%d len=%d: reserialisation differs", tag, n)
			}
		}
	}
}

// P2: all tags 0..255 with boundary lengths.
func TestHuntAllTagsBoundaries(t *testing.T) {
	for tag := 0; tag < 256; tag++ {
		for _, n := range []int{1, 2, 254, 255, 256, 509, 510, 511, 765, 1020, 1021, 4096, 65535, 65536, 70000} {
			v := pattern(n, byte(tag))
			c := NewTLV8Container()
			c.SetBytes(uint8(tag), v)
			got := c.BytesBuffer().Bytes()
			if !bytes.Equal(got, refEncode(uint8(tag), v)) {
				t.Fatalf("tag=%d len=%d encoding differs", tag, n)
			}
			p, err := NewTLV8ContainerFromReader(bytes.NewReader(got))
			if err != nil || !bytes.Equal(p.GetBytes(uint8(tag)), v) {
				t.Fatalf("tag=%d len=%d round trip failed %v", tag, n, err)
			}
			for other := 0; other < 256; other++ {
				if other != tag && len(p.GetBytes(uint8(other))) != 0 {
					t.Fatalf("tag=%d leaked into %d", tag, other)
				}
			}
		}
	}
}

// P4: random sequences of sets (repeated and interleaved): Get before == Get after reparse, for every tag.
func TestHuntRandomSequences(t *testing.T) {
	rnd := rand.New(rand.NewSource(16))
	for it := 0; it < 3000; it++ {
		c := NewTLV8Container()
		model := map[uint8][]byte{}
		var ref []byte
		k := 1 + rnd.Intn(8)
		for i := 0; i < k; i++ {
			tag := uint8(rnd.Intn(4))
			if rnd.Intn(4) == 0 {
				tag = uint8(rnd.Intn(256))
			}
			var n int
			switch rnd.Intn(6) {
			case 0:
				n = 255 * (1 + rnd.Intn(3))
			case 1:
				n = 255*(1+rnd.Intn(3)) + 1
			case 2:
				n = 1 + rnd.Intn(10)
			default:
				n = 1 + rnd.Intn(1100)
			}
			v := make([]byte, n)
			rnd.Read(v)
			orig := append([]byte{}, v...)
			switch rnd.Intn(3) {
			case 0:
				c.SetBytes(tag, v)
			case 1:
				c.SetString(tag, string(v))
			default:
				v = v[:1]
				orig = orig[:1]
				c.SetByte(tag, v[0])
			}
			// mutate the caller's slice afterwards: container must hold a copy
			for j := range v {
				v[j] ^= 0xFF
			}
			model[tag] = append(model[tag], orig...)
			ref = append(ref, refEncode(tag, orig)...)
		}
		ser := c.BytesBuffer().Bytes()
		if !bytes.Equal(ser, ref) {
			t.Fatalf("it=%d: serialisation differs from reference", it)
		}
		p, err := NewTLV8ContainerFromReader(iotest.OneByteReader(bytes.NewReader(ser)))
		if err != nil {
			t.Fatalf("it=%d: %v", it, err)
		}
		for tag := 0; tag < 256; tag++ {
			a, b := c.GetBytes(uint8(tag)), p.GetBytes(uint8(tag))
			if !bytes.Equal(a, b) || !bytes.Equal(a, model[uint8(tag)]) {
				t.Fatalf("it=%d tag=%d: before=%d bytes after=%d bytes model=%d bytes", it, tag, len(a), len(b), len(model[uint8(tag)]))
			}
			if c.GetString(uint8(tag)) != p.GetString(uint8(tag)) || c.GetByte(uint8(tag)) != p.GetByte(uint8(tag)) {
				t.Fatalf("it=%d tag=%d: GetString/GetByte differ", it, tag)
			}
		}
		// BytesBuffer must be repeatable and must not be affected by Get*
		if !bytes.Equal(c.BytesBuffer().Bytes(), ser) || !bytes.Equal(p.BytesBuffer().Bytes(), ser) {
			t.Fatalf("it=%d: second serialisation differs", it)
		}
	}
}

// P5: arbitrary bytes: never panic; result agrees with reference parser; data only from input.
func checkParse(t *testing.T, in []byte, r io.Reader) {
	t.Helper()
	var c Container
	var err error
	func() {
		defer func() {
			if x := recover(); x != nil {
				t.Fatalf("panic on %x: %v", in, x)
			}
		}()
		c, err = NewTLV8ContainerFromReader(r)
	}()
	items, rerr := refParse(in)
	if (err != nil) != (rerr != nil) {
		t.Fatalf("input %x: err=%v reference err=%v", in, err, rerr)
	}
	if err != nil {
		if c != nil {
			t.Fatalf("input %x: error %v and non-nil container", in, err)
		}
		return
	}
	want := map[uint8][]byte{}
	for _, it := range items {
		want[it.tag] = append(want[it.tag], it.val...)
	}
	for tag := 0; tag < 256; tag++ {
		if got := c.GetBytes(uint8(tag)); !bytes.Equal(got, want[uint8(tag)]) {
			t.Fatalf("input %x tag %d: got %x want %x", in, tag, got, want[uint8(tag)])
		}
	}
	if !bytes.Equal(c.BytesBuffer().Bytes(), in) {
		t.Fatalf("input %x: reserialised as %x", in, c.BytesBuffer().Bytes())
	}
}

func TestHuntParseArbitrary(t *testing.T) {
	// all byte strings of length 0..2 exhaustively, length 3 over a subset
	checkParse(t, nil, bytes.NewReader(nil))
	for a := 0; a < 256; a++ {
		checkParse(t, []byte{byte(a)}, bytes.NewReader([]byte{byte(a)}))
		for b := 0; b < 256; b++ {
			in := []byte{byte(a), byte(b)}
			checkParse(t, in, bytes.NewReader(in))
		}
	}
	for _, a := range []int{0, 1, 255} {
		for b := 0; b < 4; b++ {
			for c := 0; c < 256; c++ {
				in := []byte{byte(a), byte(b), byte(c)}
				checkParse(t, in, bytes.NewReader(in))
			}
		}
	}
	rnd := rand.New(rand.NewSource(1616))
	for it := 0; it < 50000; it++ {
		n := rnd.Intn(700)
		in := make([]byte, n)
		rnd.Read(in)
		if rnd.Intn(2) == 0 {
			// bias towards small lengths so that many items parse
			for i := 1; i < n; i += 2 + rnd.Intn(3) {
				in[i] = byte(rnd.Intn(4))
			}
		}
		var r io.Reader = bytes.NewReader(in)
		switch rnd.Intn(4) {
		case 0:
			r = iotest.OneByteReader(r)
		case 1:
			r = iotest.HalfReader(r)
		case 2:
			r = iotest.DataErrReader(r)
		}
		checkParse(t, in, r)
	}
}

// P6: every truncation of a valid multi-item message.
func TestHuntTruncations(t *testing.T) {
	c := NewTLV8Container()
	c.SetBytes(6, []byte{1})
	c.SetBytes(3, pattern(600, 3))
	c.SetBytes(255, pattern(255, 9))
	c.SetBytes(0, pattern(5, 1))
	full := c.BytesBuffer().Bytes()
	for n := 0; n <= len(full); n++ {
		in := full[:n]
		checkParse(t, in, bytes.NewReader(in))
		checkParse(t, in, iotest.DataErrReader(bytes.NewReader(in)))
		checkParse(t, in, iotest.OneByteReader(bytes.NewReader(in)))
	}
}

// P7: reader errors other than EOF are propagated, nil reader, parsed container can be extended.
type failReader struct {
	data []byte
	err  error
}

func (f *failReader) Read(p []byte) (int, error) {
	if len(f.data) == 0 {
		return 0, f.err
	}
	n := copy(p, f.data)
	f.data = f.data[n:]
	return n, nil
}

func TestHuntReaderErrors(t *testing.T) {
	boom := errors.New("boom")
	for _, in := range [][]byte{{}, {1}, {1, 2}, {1, 2, 3}, {1, 2, 3, 4}, {1, 0}} {
		c, err := NewTLV8ContainerFromReader(&failReader{data: append([]byte{}, in...), err: boom})
		if err == nil || c != nil {
			t.Errorf("input %x followed by read error: err=%v c=%v", in, err, c)
		}
	}
	c, err := NewTLV8ContainerFromReader(nil)
	if err != nil || c == nil || c.BytesBuffer().Len() != 0 {
		t.Errorf("nil reader: %v %v", c, err)
	}
	// timeout-like reader delivering an item with unexpected EOF in the middle of a header
	c, err = NewTLV8ContainerFromReader(&failReader{data: []byte{1, 1, 7, 2}, err: io.ErrUnexpectedEOF})
	if err == nil {
		t.Errorf("truncated header accepted: %x", c.BytesBuffer().Bytes())
	}
}

func TestHuntExtendParsed(t *testing.T) {
	p, err := NewTLV8ContainerFromReader(bytes.NewReader([]byte{1, 1, 0xAA, 2, 0}))
	if err != nil {
		t.Fatal(err)
	}
	p.SetBytes(1, pattern(300, 0))
	p.SetByte(2, 9)
	ser := p.BytesBuffer().Bytes()
	q, err := NewTLV8ContainerFromReader(bytes.NewReader(ser))
	if err != nil {
		t.Fatal(err)
	}
	for tag := 0; tag < 256; tag++ {
		if !bytes.Equal(p.GetBytes(uint8(tag)), q.GetBytes(uint8(tag))) {
			t.Fatalf("tag %d differs", tag)
		}
	}
	if want := append([]byte{0xAA}, pattern(300, 0)...); !bytes.Equal(q.GetBytes(1), want) {
		t.Fatalf("tag 1 value wrong")
	}
}

// P8: returned values are not aliases of container state / of each other.
func TestHuntAliasing(t *testing.T) {
	c := NewTLV8Container()
	c.SetBytes(1, pattern(300, 0))
	a := c.GetBytes(1)
	for i := range a {
		a[i] = 0
	}
	if !bytes.Equal(c.GetBytes(1), pattern(300, 0)) {
		t.Fatalf("GetBytes result aliases container state")
	}
	b := c.BytesBuffer()
	b.Reset()
	b.WriteString("garbage")
	if !bytes.Equal(c.BytesBuffer().Bytes(), refEncode(1, pattern(300, 0))) {
		t.Fatalf("BytesBuffer aliases container state")
	}
	// parse input mutated after parse
	in := []byte{1, 2, 3, 4}
	p, _ := NewTLV8ContainerFromReader(bytes.NewReader(in))
	in[2] = 9
	if !bytes.Equal(p.GetBytes(1), []byte{3, 4}) {
		t.Fatalf("parsed value aliases input")
	}
}

// P9: two independent containers do not share state.
func TestHuntIndependentContainers(t *testing.T) {
	a, b := NewTLV8Container(), NewTLV8Container()
	a.SetByte(1, 1)
	b.SetByte(1, 2)
	a.SetBytes(2, pattern(256, 0))
	if b.GetByte(1) != 2 || len(b.GetBytes(2)) != 0 || a.GetByte(1) != 1 {
		t.Fatalf("containers share state")
	}
}

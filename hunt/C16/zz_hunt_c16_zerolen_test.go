package util

import (
	"bytes"
	"testing"
)

// uses refEncode/refParse from zz_hunt_c16_test.go
// P3: zero-length value: is the item serialised at all?
func TestHuntZeroLengthValue(t *testing.T) {
	for _, tag := range []uint8{0, 1, 255} {
		c := NewTLV8Container()
		c.SetBytes(tag, []byte{})
		got := c.BytesBuffer().Bytes()
		if want := refEncode(tag, nil); !bytes.Equal(got, want) {
			t.Errorf("tag=%d: zero-length value serialised as %x, reference %x", tag, got, want)
		}
	}
	// separator between two records of the same tag (HAP list pairings layout)
	c := NewTLV8Container()
	c.SetBytes(1, []byte("A"))
	c.SetBytes(0xFF, []byte{})
	c.SetBytes(1, []byte("B"))
	items, _ := refParse(c.BytesBuffer().Bytes())
	if len(items) != 3 {
		t.Errorf("standard parser sees %d items (%v), want 3: A, separator, B", len(items), items)
	}
}

package http

import (
	"context"
	"encoding/json"
	"fmt"
	"net"
	"net/http"
	"net/http/httptest"
	"strings"
	"sync"
	"testing"

	"github.com/brutella/hc/accessory"
	"github.com/brutella/hc/characteristic"
	"github.com/brutella/hc/crypto"
	"github.com/brutella/hc/hap"
	"github.com/brutella/hc/service"
)

type zzAddr string

func (a zzAddr) Network() string { return "tcp" }
func (a zzAddr) String() string  { return string(a) }

type zzConn struct{ net.Conn }

func (zzConn) RemoteAddr() net.Addr { return zzAddr("10.0.0.2:5000") }
func (zzConn) LocalAddr() net.Addr  { return zzAddr("10.0.0.1:80") }

func zzServer(t *testing.T) (*Server, *accessory.Container, func(method, url, body string) *httptest.ResponseRecorder) {
	ctx := hap.NewContextForSecuredDevice(nil)
	conn := zzConn{}
	sess := hap.NewSession(conn)
	cr, err := crypto.NewSecureSessionFromSharedKey([32]byte{1})
	if err != nil {
		t.Fatal(err)
	}
	sess.SetCryptographer(cr)
	sess.Decrypter()
	ctx.SetSessionForConnection(sess, conn)

	a := accessory.NewColoredLightbulb(accessory.Info{Name: "l"})
	th := accessory.NewThermostat(accessory.Info{Name: "t"}, 20, 10, 30, 0.5)
	// one service carrying a writable characteristic of every remaining format
	svc := service.New("F0")
	for _, c := range []*characteristic.Characteristic{
		characteristic.NewWifiConfigurationControl().Characteristic,
		characteristic.NewLockControlPoint().Characteristic,
		characteristic.NewName().Characteristic,
		characteristic.NewIdentifier().Characteristic,
		characteristic.NewColorTemperature().Characteristic,
		characteristic.NewActiveIdentifier().Characteristic,
		characteristic.NewProgrammableSwitchEvent().Characteristic,
	} {
		if c.IsReadable() {
			c.Perms = characteristic.PermsAll()
		}
		svc.AddCharacteristic(c)
	}
	a.AddService(svc)
	cont := accessory.NewContainer()
	cont.AddAccessory(a.Accessory)
	cont.AddAccessory(th.Accessory)

	s := testable(Config{Context: ctx, Container: cont, Mutex: &sync.Mutex{}})
	do := func(method, url, body string) *httptest.ResponseRecorder {
		r := httptest.NewRequest(method, url, strings.NewReader(body))
		r.RemoteAddr = "10.0.0.2:5000"
		r = r.WithContext(context.WithValue(r.Context(), http.LocalAddrContextKey, net.Addr(zzAddr("10.0.0.1:80"))))
		w := httptest.NewRecorder()
		func() {
			defer func() {
				if p := recover(); p != nil {
					t.Errorf("%s %s %s panicked: %v", method, url, body, p)
				}
			}()
			s.Mux.ServeHTTP(w, r)
		}()
		return w
	}
	return s, cont, do
}

func zzVerify(t *testing.T, cont *accessory.Container, do func(method, url, body string) *httptest.ResponseRecorder, after string) {
	w := do("GET", "/accessories", "")
	if w.Code != 200 {
		t.Errorf("after %s: GET /accessories: %d %s", after, w.Code, w.Body.String())
		return
	}
	var tree struct {
		Accessories []struct {
			Aid      uint64
			Services []struct {
				Characteristics []struct {
					Iid      uint64
					Format   string
					Perms    []string
					Value    interface{}
					MinValue *float64
					MaxValue *float64
				}
			}
		}
	}
	if err := json.Unmarshal(w.Body.Bytes(), &tree); err != nil {
		t.Errorf("after %s: /accessories does not decode: %v", after, err)
		return
	}
	for _, a := range tree.Accessories {
		for _, s := range a.Services {
			for _, c := range s.Characteristics {
				readable := false
				for _, p := range c.Perms {
					readable = readable || p == "pr"
				}
				if !readable {
					continue
				}
				ok := false
				switch c.Format {
				case "bool":
					_, ok = c.Value.(bool)
				case "string", "tlv8", "data":
					_, ok = c.Value.(string)
				default:
					var f float64
					f, ok = c.Value.(float64)
					if ok && c.Format != "float" && f != float64(int64(f)) {
						ok = false
					}
					if ok && c.MinValue != nil && f < *c.MinValue {
						ok = false
					}
					if ok && c.MaxValue != nil && f > *c.MaxValue {
						ok = false
					}
				}
				if !ok {
					t.Errorf("after %s: %d.%d format %s min %v max %v serves value %T(%v)", after, a.Aid, c.Iid, c.Format, c.MinValue, c.MaxValue, c.Value, c.Value)
				}
			}
		}
	}
}

func TestZZHuntHTTPWrites(t *testing.T) {
	_, cont, do := zzServer(t)
	zzVerify(t, cont, do, "start")
	values := []string{
		`0`, `1`, `-1`, `0.5`, `-0.5`, `1e30`, `-1e30`, `1.7976931348623157e308`, `-1.7976931348623157e308`, `5e-324`, `255`, `256`, `4294967296`, `18446744073709551615`, `9223372036854775807`, `9223372036854775808`, `-9223372036854775809`,
		`""`, `"abc"`, `"-5"`, `"5.5"`, `"1e400"`, `"NaN"`, `"Inf"`, `"-Inf"`, `"true"`, `"1"`, `"\u0000"`, `"\ud800"`,
		`true`, `false`, `null`, `[]`, `[1,"a"]`, `{}`, `{"a":1}`, `[[{"a":[null]}]]`, `1e999`,
	}
	var ids [][2]uint64
	for _, a := range cont.Accessories {
		for _, s := range a.GetServices() {
			for _, c := range s.GetCharacteristics() {
				ids = append(ids, [2]uint64{a.ID, c.ID})
			}
		}
	}
	for _, v := range values {
		for rep := 0; rep < 2; rep++ {
			var items []string
			for _, id := range ids {
				items = append(items, fmt.Sprintf(`{"aid":%d,"iid":%d,"value":%s}`, id[0], id[1], v))
			}
			body := `{"characteristics":[` + strings.Join(items, ",") + `]}`
			do("PUT", "/characteristics", body)
			zzVerify(t, cont, do, "PUT "+v)
			// and read every one back
			var q []string
			for _, id := range ids {
				q = append(q, fmt.Sprintf("%d.%d", id[0], id[1]))
			}
			w := do("GET", "/characteristics?id="+strings.Join(q, ","), "")
			var any interface{}
			if err := json.Unmarshal(w.Body.Bytes(), &any); err != nil {
				t.Errorf("after PUT %s: GET /characteristics (%d) does not decode: %v: %s", v, w.Code, err, w.Body.String())
			}
		}
	}
}

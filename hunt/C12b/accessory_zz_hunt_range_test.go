package accessory

import (
	"encoding/json"
	"testing"
)

type zzRanged interface {
	GetValue() float64
	GetMinValue() float64
	GetMaxValue() float64
}

func zzInRange(t *testing.T, what string, c zzRanged, raw interface{}) {
	t.Helper()
	if v, min, max := c.GetValue(), c.GetMinValue(), c.GetMaxValue(); v < min || v > max {
		b, _ := json.Marshal(raw)
		t.Errorf("%s: stored value %v outside declared [%v,%v]; served as %s", what, v, min, max, b)
	}
}

// The application supplies a value INSIDE the range it declares (an oven probe
// at 150 degrees, range 120..200). The value is clamped against the default
// range 0..100 first, the range is replaced afterwards.
func TestZZHuntThermometerInRangeValueEndsOutsideDeclaredRange(t *testing.T) {
	a := NewTemperatureSensor(Info{Name: "t"}, 150, 120, 200, 1)
	zzInRange(t, "NewTemperatureSensor(150, 120, 200)", a.TempSensor.CurrentTemperature, a.TempSensor.CurrentTemperature.Characteristic)
}

// The application supplies a value below the range it declares
// ("not measured yet": 0, range 10..40); nothing clamps it.
func TestZZHuntThermometerInitialValueBelowDeclaredMin(t *testing.T) {
	a := NewTemperatureSensor(Info{Name: "t"}, 0, 10, 40, 1)
	zzInRange(t, "NewTemperatureSensor(0, 10, 40)", a.TempSensor.CurrentTemperature, a.TempSensor.CurrentTemperature.Characteristic)
}

// A water heater: 45 degrees, range 40..60. Both the current and the target
// temperature end below the declared minimum (45 is clamped to the default
// maximum 38 of the target temperature, then the minimum becomes 40).
func TestZZHuntThermostatInRangeValueEndsOutsideDeclaredRange(t *testing.T) {
	a := NewThermostat(Info{Name: "t"}, 45, 40, 60, 1)
	zzInRange(t, "NewThermostat(45, 40, 60) target", a.Thermostat.TargetTemperature, a.Thermostat.TargetTemperature.Characteristic)
	a = NewThermostat(Info{Name: "t"}, 5, 10, 30, 0.5)
	zzInRange(t, "NewThermostat(5, 10, 30) current", a.Thermostat.CurrentTemperature, a.Thermostat.CurrentTemperature.Characteristic)
}

package characteristic

import (
	"net"
	"fmt"
	"testing"
)

func zzTry(f func()) (res string) {
	defer func() {
		if r := recover(); r != nil {
			res = fmt.Sprint(r)
		}
	}()
	f()
	return ""
}

// probe: values handed in through OnValueGet
func TestZZHuntMiscValueGetFunc(t *testing.T) {
	for _, k := range zzCtors {
		for _, v := range zzValues() {
			c, get := k.mk()
			v := v
			c.OnValueGet(func() interface{} { return v })
			if s := zzTry(func() { c.GetValueFromConnection(TestConn); c.GetValue(); c.GetValue() }); s != "" {
				t.Errorf("%s OnValueGet -> %T(%v): panic %s", k.name, v, v, s)
				continue
			}
			c.OnValueGet(nil)
			if !c.IsReadable() {
				continue
			}
			if s := zzCheck(c, get); s != "" {
				t.Errorf("%s OnValueGet -> %T(%v): %s", k.name, v, v, s)
			}
		}
	}
}

// probe: an update made from inside a callback, and callbacks of write-only characteristics
func TestZZHuntMiscReentrant(t *testing.T) {
	for _, k := range zzCtors {
		c, get := k.mk()
		n := 0
		c.OnValueUpdateFromConn(func(_ net.Conn, cc *Characteristic, nv, ov interface{}) {
			n++
			if n < 3 {
				cc.UpdateValue([]interface{}{nv, ov})
				cc.UpdateValue("7")
			}
		})
		for _, v := range zzValues() {
			if s := zzTry(func() { c.UpdateValueFromConnection(v, TestConn) }); s != "" {
				t.Errorf("%s: %s", k.name, s)
			}
			if s := zzCheck(c, get); s != "" {
				t.Errorf("%s after %v: %s", k.name, v, s)
				break
			}
		}
	}
}

// borderline: typed getter of a write-only characteristic
func TestZZHuntMiscWriteOnlyGetter(t *testing.T) {
	for _, k := range zzCtors {
		c, get := k.mk()
		if c.IsReadable() {
			continue
		}
		if s := zzTry(get); s != "" {
			t.Logf("%s (perms %v): typed getter panics: %s", k.name, c.Perms, s)
		}
	}
}

// borderline: the exported raw constructors leave Format empty
func TestZZHuntMiscRawConstructors(t *testing.T) {
	i := NewInt("X")
	i.Perms = PermsAll()
	i.SetValue(1)
	i.UpdateValueFromConnection(float64(3), TestConn)
	t.Logf("NewInt without format: %s", zzTry(func() { i.GetValue() }))
	i.UpdateValueFromConnection([]interface{}{1.0}, TestConn)
	t.Logf("NewInt without format, same array twice: %s", zzTry(func() { i.UpdateValueFromConnection([]interface{}{1.0}, TestConn) }))
}

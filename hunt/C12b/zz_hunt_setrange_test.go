package characteristic

import "testing"

// Narrowing the declared range of a characteristic leaves the stored value
// outside of it (the setters only assign the bound).
func TestZZHuntSetMaxValueLeavesValueOutside(t *testing.T) {
	b := NewBrightness() // uint8/int, 0..100
	b.SetValue(100)
	b.SetMaxValue(50)
	if b.GetValue() > b.GetMaxValue() {
		t.Errorf("brightness: stored value %d above declared max %d", b.GetValue(), b.GetMaxValue())
	}

	c := NewCurrentTemperature() // float, 0..100, value 0
	c.SetMinValue(10)
	if c.GetValue() < c.GetMinValue() {
		t.Errorf("current temperature: stored value %v below declared min %v", c.GetValue(), c.GetMinValue())
	}
}

package characteristic

import (
	"encoding/json"
	"fmt"
	"math"
	"testing"
)

type zzCtor struct {
	name string
	mk   func() (base *Characteristic, typedGet func())
}

var zzCtors = []zzCtor{
	{"NewAccessoryFlags", func() (*Characteristic, func()) { c := NewAccessoryFlags(); return c.Characteristic, func() { _ = c.GetValue() } }},
	{"NewAccessoryIdentifier", func() (*Characteristic, func()) { c := NewAccessoryIdentifier(); return c.Characteristic, func() { _ = c.GetValue() } }},
	{"NewActive", func() (*Characteristic, func()) { c := NewActive(); return c.Characteristic, func() { _ = c.GetValue() } }},
	{"NewActiveIdentifier", func() (*Characteristic, func()) { c := NewActiveIdentifier(); return c.Characteristic, func() { _ = c.GetValue() } }},
	{"NewAdministratorOnlyAccess", func() (*Characteristic, func()) { c := NewAdministratorOnlyAccess(); return c.Characteristic, func() { _ = c.GetValue() } }},
	{"NewAirParticulateDensity", func() (*Characteristic, func()) { c := NewAirParticulateDensity(); return c.Characteristic, func() { _ = c.GetValue() } }},
	{"NewAirParticulateSize", func() (*Characteristic, func()) { c := NewAirParticulateSize(); return c.Characteristic, func() { _ = c.GetValue() } }},
	{"NewAirQuality", func() (*Characteristic, func()) { c := NewAirQuality(); return c.Characteristic, func() { _ = c.GetValue() } }},
	{"NewAppMatchingIdentifier", func() (*Characteristic, func()) { c := NewAppMatchingIdentifier(); return c.Characteristic, func() { _ = c.GetValue() } }},
	{"NewAudioFeedback", func() (*Characteristic, func()) { c := NewAudioFeedback(); return c.Characteristic, func() { _ = c.GetValue() } }},
	{"NewBatteryLevel", func() (*Characteristic, func()) { c := NewBatteryLevel(); return c.Characteristic, func() { _ = c.GetValue() } }},
	{"NewBrightness", func() (*Characteristic, func()) { c := NewBrightness(); return c.Characteristic, func() { _ = c.GetValue() } }},
	{"NewCarbonDioxideDetected", func() (*Characteristic, func()) { c := NewCarbonDioxideDetected(); return c.Characteristic, func() { _ = c.GetValue() } }},
	{"NewCarbonDioxideLevel", func() (*Characteristic, func()) { c := NewCarbonDioxideLevel(); return c.Characteristic, func() { _ = c.GetValue() } }},
	{"NewCarbonDioxidePeakLevel", func() (*Characteristic, func()) { c := NewCarbonDioxidePeakLevel(); return c.Characteristic, func() { _ = c.GetValue() } }},
	{"NewCarbonMonoxideDetected", func() (*Characteristic, func()) { c := NewCarbonMonoxideDetected(); return c.Characteristic, func() { _ = c.GetValue() } }},
	{"NewCarbonMonoxideLevel", func() (*Characteristic, func()) { c := NewCarbonMonoxideLevel(); return c.Characteristic, func() { _ = c.GetValue() } }},
	{"NewCarbonMonoxidePeakLevel", func() (*Characteristic, func()) { c := NewCarbonMonoxidePeakLevel(); return c.Characteristic, func() { _ = c.GetValue() } }},
	{"NewCategory", func() (*Characteristic, func()) { c := NewCategory(); return c.Characteristic, func() { _ = c.GetValue() } }},
	{"NewChargingState", func() (*Characteristic, func()) { c := NewChargingState(); return c.Characteristic, func() { _ = c.GetValue() } }},
	{"NewClosedCaptions", func() (*Characteristic, func()) { c := NewClosedCaptions(); return c.Characteristic, func() { _ = c.GetValue() } }},
	{"NewColorTemperature", func() (*Characteristic, func()) { c := NewColorTemperature(); return c.Characteristic, func() { _ = c.GetValue() } }},
	{"NewConfigureBridgedAccessory", func() (*Characteristic, func()) { c := NewConfigureBridgedAccessory(); return c.Characteristic, func() { _ = c.GetValue() } }},
	{"NewConfigureBridgedAccessoryStatus", func() (*Characteristic, func()) { c := NewConfigureBridgedAccessoryStatus(); return c.Characteristic, func() { _ = c.GetValue() } }},
	{"NewConfiguredName", func() (*Characteristic, func()) { c := NewConfiguredName(); return c.Characteristic, func() { _ = c.GetValue() } }},
	{"NewContactSensorState", func() (*Characteristic, func()) { c := NewContactSensorState(); return c.Characteristic, func() { _ = c.GetValue() } }},
	{"NewCoolingThresholdTemperature", func() (*Characteristic, func()) { c := NewCoolingThresholdTemperature(); return c.Characteristic, func() { _ = c.GetValue() } }},
	{"NewCurrentAirPurifierState", func() (*Characteristic, func()) { c := NewCurrentAirPurifierState(); return c.Characteristic, func() { _ = c.GetValue() } }},
	{"NewCurrentAmbientLightLevel", func() (*Characteristic, func()) { c := NewCurrentAmbientLightLevel(); return c.Characteristic, func() { _ = c.GetValue() } }},
	{"NewCurrentDoorState", func() (*Characteristic, func()) { c := NewCurrentDoorState(); return c.Characteristic, func() { _ = c.GetValue() } }},
	{"NewCurrentFanState", func() (*Characteristic, func()) { c := NewCurrentFanState(); return c.Characteristic, func() { _ = c.GetValue() } }},
	{"NewCurrentHeaterCoolerState", func() (*Characteristic, func()) { c := NewCurrentHeaterCoolerState(); return c.Characteristic, func() { _ = c.GetValue() } }},
	{"NewCurrentHeatingCoolingState", func() (*Characteristic, func()) { c := NewCurrentHeatingCoolingState(); return c.Characteristic, func() { _ = c.GetValue() } }},
	{"NewCurrentHorizontalTiltAngle", func() (*Characteristic, func()) { c := NewCurrentHorizontalTiltAngle(); return c.Characteristic, func() { _ = c.GetValue() } }},
	{"NewCurrentHumidifierDehumidifierState", func() (*Characteristic, func()) { c := NewCurrentHumidifierDehumidifierState(); return c.Characteristic, func() { _ = c.GetValue() } }},
	{"NewCurrentMediaState", func() (*Characteristic, func()) { c := NewCurrentMediaState(); return c.Characteristic, func() { _ = c.GetValue() } }},
	{"NewCurrentPosition", func() (*Characteristic, func()) { c := NewCurrentPosition(); return c.Characteristic, func() { _ = c.GetValue() } }},
	{"NewCurrentRelativeHumidity", func() (*Characteristic, func()) { c := NewCurrentRelativeHumidity(); return c.Characteristic, func() { _ = c.GetValue() } }},
	{"NewCurrentSlatState", func() (*Characteristic, func()) { c := NewCurrentSlatState(); return c.Characteristic, func() { _ = c.GetValue() } }},
	{"NewCurrentTemperature", func() (*Characteristic, func()) { c := NewCurrentTemperature(); return c.Characteristic, func() { _ = c.GetValue() } }},
	{"NewCurrentTiltAngle", func() (*Characteristic, func()) { c := NewCurrentTiltAngle(); return c.Characteristic, func() { _ = c.GetValue() } }},
	{"NewCurrentTime", func() (*Characteristic, func()) { c := NewCurrentTime(); return c.Characteristic, func() { _ = c.GetValue() } }},
	{"NewCurrentTransport", func() (*Characteristic, func()) { c := NewCurrentTransport(); return c.Characteristic, func() { _ = c.GetValue() } }},
	{"NewCurrentVerticalTiltAngle", func() (*Characteristic, func()) { c := NewCurrentVerticalTiltAngle(); return c.Characteristic, func() { _ = c.GetValue() } }},
	{"NewCurrentVisibilityState", func() (*Characteristic, func()) { c := NewCurrentVisibilityState(); return c.Characteristic, func() { _ = c.GetValue() } }},
	{"NewDayOfTheWeek", func() (*Characteristic, func()) { c := NewDayOfTheWeek(); return c.Characteristic, func() { _ = c.GetValue() } }},
	{"NewDigitalZoom", func() (*Characteristic, func()) { c := NewDigitalZoom(); return c.Characteristic, func() { _ = c.GetValue() } }},
	{"NewDiscoverBridgedAccessories", func() (*Characteristic, func()) { c := NewDiscoverBridgedAccessories(); return c.Characteristic, func() { _ = c.GetValue() } }},
	{"NewDiscoveredBridgedAccessories", func() (*Characteristic, func()) { c := NewDiscoveredBridgedAccessories(); return c.Characteristic, func() { _ = c.GetValue() } }},
	{"NewDisplayOrder", func() (*Characteristic, func()) { c := NewDisplayOrder(); return c.Characteristic, func() { _ = c.GetValue() } }},
	{"NewFilterChangeIndication", func() (*Characteristic, func()) { c := NewFilterChangeIndication(); return c.Characteristic, func() { _ = c.GetValue() } }},
	{"NewFilterLifeLevel", func() (*Characteristic, func()) { c := NewFilterLifeLevel(); return c.Characteristic, func() { _ = c.GetValue() } }},
	{"NewFirmwareRevision", func() (*Characteristic, func()) { c := NewFirmwareRevision(); return c.Characteristic, func() { _ = c.GetValue() } }},
	{"NewHardwareRevision", func() (*Characteristic, func()) { c := NewHardwareRevision(); return c.Characteristic, func() { _ = c.GetValue() } }},
	{"NewHeatingThresholdTemperature", func() (*Characteristic, func()) { c := NewHeatingThresholdTemperature(); return c.Characteristic, func() { _ = c.GetValue() } }},
	{"NewHoldPosition", func() (*Characteristic, func()) { c := NewHoldPosition(); return c.Characteristic, func() { _ = c.GetValue() } }},
	{"NewHue", func() (*Characteristic, func()) { c := NewHue(); return c.Characteristic, func() { _ = c.GetValue() } }},
	{"NewIdentifier", func() (*Characteristic, func()) { c := NewIdentifier(); return c.Characteristic, func() { _ = c.GetValue() } }},
	{"NewIdentify", func() (*Characteristic, func()) { c := NewIdentify(); return c.Characteristic, func() { _ = c.GetValue() } }},
	{"NewImageMirroring", func() (*Characteristic, func()) { c := NewImageMirroring(); return c.Characteristic, func() { _ = c.GetValue() } }},
	{"NewImageRotation", func() (*Characteristic, func()) { c := NewImageRotation(); return c.Characteristic, func() { _ = c.GetValue() } }},
	{"NewInUse", func() (*Characteristic, func()) { c := NewInUse(); return c.Characteristic, func() { _ = c.GetValue() } }},
	{"NewInputDeviceType", func() (*Characteristic, func()) { c := NewInputDeviceType(); return c.Characteristic, func() { _ = c.GetValue() } }},
	{"NewInputSourceType", func() (*Characteristic, func()) { c := NewInputSourceType(); return c.Characteristic, func() { _ = c.GetValue() } }},
	{"NewIsConfigured", func() (*Characteristic, func()) { c := NewIsConfigured(); return c.Characteristic, func() { _ = c.GetValue() } }},
	{"NewLeakDetected", func() (*Characteristic, func()) { c := NewLeakDetected(); return c.Characteristic, func() { _ = c.GetValue() } }},
	{"NewLinkQuality", func() (*Characteristic, func()) { c := NewLinkQuality(); return c.Characteristic, func() { _ = c.GetValue() } }},
	{"NewLockControlPoint", func() (*Characteristic, func()) { c := NewLockControlPoint(); return c.Characteristic, func() { _ = c.GetValue() } }},
	{"NewLockCurrentState", func() (*Characteristic, func()) { c := NewLockCurrentState(); return c.Characteristic, func() { _ = c.GetValue() } }},
	{"NewLockLastKnownAction", func() (*Characteristic, func()) { c := NewLockLastKnownAction(); return c.Characteristic, func() { _ = c.GetValue() } }},
	{"NewLockManagementAutoSecurityTimeout", func() (*Characteristic, func()) { c := NewLockManagementAutoSecurityTimeout(); return c.Characteristic, func() { _ = c.GetValue() } }},
	{"NewLockPhysicalControls", func() (*Characteristic, func()) { c := NewLockPhysicalControls(); return c.Characteristic, func() { _ = c.GetValue() } }},
	{"NewLockTargetState", func() (*Characteristic, func()) { c := NewLockTargetState(); return c.Characteristic, func() { _ = c.GetValue() } }},
	{"NewLogs", func() (*Characteristic, func()) { c := NewLogs(); return c.Characteristic, func() { _ = c.GetValue() } }},
	{"NewManufacturer", func() (*Characteristic, func()) { c := NewManufacturer(); return c.Characteristic, func() { _ = c.GetValue() } }},
	{"NewModel", func() (*Characteristic, func()) { c := NewModel(); return c.Characteristic, func() { _ = c.GetValue() } }},
	{"NewMotionDetected", func() (*Characteristic, func()) { c := NewMotionDetected(); return c.Characteristic, func() { _ = c.GetValue() } }},
	{"NewMute", func() (*Characteristic, func()) { c := NewMute(); return c.Characteristic, func() { _ = c.GetValue() } }},
	{"NewName", func() (*Characteristic, func()) { c := NewName(); return c.Characteristic, func() { _ = c.GetValue() } }},
	{"NewNightVision", func() (*Characteristic, func()) { c := NewNightVision(); return c.Characteristic, func() { _ = c.GetValue() } }},
	{"NewNitrogenDioxideDensity", func() (*Characteristic, func()) { c := NewNitrogenDioxideDensity(); return c.Characteristic, func() { _ = c.GetValue() } }},
	{"NewObstructionDetected", func() (*Characteristic, func()) { c := NewObstructionDetected(); return c.Characteristic, func() { _ = c.GetValue() } }},
	{"NewOccupancyDetected", func() (*Characteristic, func()) { c := NewOccupancyDetected(); return c.Characteristic, func() { _ = c.GetValue() } }},
	{"NewOn", func() (*Characteristic, func()) { c := NewOn(); return c.Characteristic, func() { _ = c.GetValue() } }},
	{"NewOpticalZoom", func() (*Characteristic, func()) { c := NewOpticalZoom(); return c.Characteristic, func() { _ = c.GetValue() } }},
	{"NewOutletInUse", func() (*Characteristic, func()) { c := NewOutletInUse(); return c.Characteristic, func() { _ = c.GetValue() } }},
	{"NewOzoneDensity", func() (*Characteristic, func()) { c := NewOzoneDensity(); return c.Characteristic, func() { _ = c.GetValue() } }},
	{"NewPM10Density", func() (*Characteristic, func()) { c := NewPM10Density(); return c.Characteristic, func() { _ = c.GetValue() } }},
	{"NewPM2_5Density", func() (*Characteristic, func()) { c := NewPM2_5Density(); return c.Characteristic, func() { _ = c.GetValue() } }},
	{"NewPairSetup", func() (*Characteristic, func()) { c := NewPairSetup(); return c.Characteristic, func() { _ = c.GetValue() } }},
	{"NewPairVerify", func() (*Characteristic, func()) { c := NewPairVerify(); return c.Characteristic, func() { _ = c.GetValue() } }},
	{"NewPairingFeatures", func() (*Characteristic, func()) { c := NewPairingFeatures(); return c.Characteristic, func() { _ = c.GetValue() } }},
	{"NewPairingPairings", func() (*Characteristic, func()) { c := NewPairingPairings(); return c.Characteristic, func() { _ = c.GetValue() } }},
	{"NewPictureMode", func() (*Characteristic, func()) { c := NewPictureMode(); return c.Characteristic, func() { _ = c.GetValue() } }},
	{"NewPositionState", func() (*Characteristic, func()) { c := NewPositionState(); return c.Characteristic, func() { _ = c.GetValue() } }},
	{"NewPowerModeSelection", func() (*Characteristic, func()) { c := NewPowerModeSelection(); return c.Characteristic, func() { _ = c.GetValue() } }},
	{"NewProgramMode", func() (*Characteristic, func()) { c := NewProgramMode(); return c.Characteristic, func() { _ = c.GetValue() } }},
	{"NewProgrammableSwitchEvent", func() (*Characteristic, func()) { c := NewProgrammableSwitchEvent(); return c.Characteristic, func() { _ = c.GetValue() } }},
	{"NewProgrammableSwitchOutputState", func() (*Characteristic, func()) { c := NewProgrammableSwitchOutputState(); return c.Characteristic, func() { _ = c.GetValue() } }},
	{"NewReachable", func() (*Characteristic, func()) { c := NewReachable(); return c.Characteristic, func() { _ = c.GetValue() } }},
	{"NewRelativeHumidityDehumidifierThreshold", func() (*Characteristic, func()) { c := NewRelativeHumidityDehumidifierThreshold(); return c.Characteristic, func() { _ = c.GetValue() } }},
	{"NewRelativeHumidityHumidifierThreshold", func() (*Characteristic, func()) { c := NewRelativeHumidityHumidifierThreshold(); return c.Characteristic, func() { _ = c.GetValue() } }},
	{"NewRemainingDuration", func() (*Characteristic, func()) { c := NewRemainingDuration(); return c.Characteristic, func() { _ = c.GetValue() } }},
	{"NewRemoteKey", func() (*Characteristic, func()) { c := NewRemoteKey(); return c.Characteristic, func() { _ = c.GetValue() } }},
	{"NewResetFilterIndication", func() (*Characteristic, func()) { c := NewResetFilterIndication(); return c.Characteristic, func() { _ = c.GetValue() } }},
	{"NewRotationDirection", func() (*Characteristic, func()) { c := NewRotationDirection(); return c.Characteristic, func() { _ = c.GetValue() } }},
	{"NewRotationSpeed", func() (*Characteristic, func()) { c := NewRotationSpeed(); return c.Characteristic, func() { _ = c.GetValue() } }},
	{"NewSaturation", func() (*Characteristic, func()) { c := NewSaturation(); return c.Characteristic, func() { _ = c.GetValue() } }},
	{"NewSecuritySystemAlarmType", func() (*Characteristic, func()) { c := NewSecuritySystemAlarmType(); return c.Characteristic, func() { _ = c.GetValue() } }},
	{"NewSecuritySystemCurrentState", func() (*Characteristic, func()) { c := NewSecuritySystemCurrentState(); return c.Characteristic, func() { _ = c.GetValue() } }},
	{"NewSecuritySystemTargetState", func() (*Characteristic, func()) { c := NewSecuritySystemTargetState(); return c.Characteristic, func() { _ = c.GetValue() } }},
	{"NewSelectedCameraRecordingConfiguration", func() (*Characteristic, func()) { c := NewSelectedCameraRecordingConfiguration(); return c.Characteristic, func() { _ = c.GetValue() } }},
	{"NewSelectedRTPStreamConfiguration", func() (*Characteristic, func()) { c := NewSelectedRTPStreamConfiguration(); return c.Characteristic, func() { _ = c.GetValue() } }},
	{"NewSelectedStreamConfiguration", func() (*Characteristic, func()) { c := NewSelectedStreamConfiguration(); return c.Characteristic, func() { _ = c.GetValue() } }},
	{"NewSerialNumber", func() (*Characteristic, func()) { c := NewSerialNumber(); return c.Characteristic, func() { _ = c.GetValue() } }},
	{"NewServiceLabelIndex", func() (*Characteristic, func()) { c := NewServiceLabelIndex(); return c.Characteristic, func() { _ = c.GetValue() } }},
	{"NewServiceLabelNamespace", func() (*Characteristic, func()) { c := NewServiceLabelNamespace(); return c.Characteristic, func() { _ = c.GetValue() } }},
	{"NewSetDuration", func() (*Characteristic, func()) { c := NewSetDuration(); return c.Characteristic, func() { _ = c.GetValue() } }},
	{"NewSetupEndpoints", func() (*Characteristic, func()) { c := NewSetupEndpoints(); return c.Characteristic, func() { _ = c.GetValue() } }},
	{"NewSlatType", func() (*Characteristic, func()) { c := NewSlatType(); return c.Characteristic, func() { _ = c.GetValue() } }},
	{"NewSleepDiscoveryMode", func() (*Characteristic, func()) { c := NewSleepDiscoveryMode(); return c.Characteristic, func() { _ = c.GetValue() } }},
	{"NewSmokeDetected", func() (*Characteristic, func()) { c := NewSmokeDetected(); return c.Characteristic, func() { _ = c.GetValue() } }},
	{"NewSoftwareRevision", func() (*Characteristic, func()) { c := NewSoftwareRevision(); return c.Characteristic, func() { _ = c.GetValue() } }},
	{"NewStatusActive", func() (*Characteristic, func()) { c := NewStatusActive(); return c.Characteristic, func() { _ = c.GetValue() } }},
	{"NewStatusFault", func() (*Characteristic, func()) { c := NewStatusFault(); return c.Characteristic, func() { _ = c.GetValue() } }},
	{"NewStatusJammed", func() (*Characteristic, func()) { c := NewStatusJammed(); return c.Characteristic, func() { _ = c.GetValue() } }},
	{"NewStatusLowBattery", func() (*Characteristic, func()) { c := NewStatusLowBattery(); return c.Characteristic, func() { _ = c.GetValue() } }},
	{"NewStatusTampered", func() (*Characteristic, func()) { c := NewStatusTampered(); return c.Characteristic, func() { _ = c.GetValue() } }},
	{"NewStreamingStatus", func() (*Characteristic, func()) { c := NewStreamingStatus(); return c.Characteristic, func() { _ = c.GetValue() } }},
	{"NewSulphurDioxideDensity", func() (*Characteristic, func()) { c := NewSulphurDioxideDensity(); return c.Characteristic, func() { _ = c.GetValue() } }},
	{"NewSupportedAudioRecordingConfiguration", func() (*Characteristic, func()) { c := NewSupportedAudioRecordingConfiguration(); return c.Characteristic, func() { _ = c.GetValue() } }},
	{"NewSupportedAudioStreamConfiguration", func() (*Characteristic, func()) { c := NewSupportedAudioStreamConfiguration(); return c.Characteristic, func() { _ = c.GetValue() } }},
	{"NewSupportedCameraRecordingConfiguration", func() (*Characteristic, func()) { c := NewSupportedCameraRecordingConfiguration(); return c.Characteristic, func() { _ = c.GetValue() } }},
	{"NewSupportedRTPConfiguration", func() (*Characteristic, func()) { c := NewSupportedRTPConfiguration(); return c.Characteristic, func() { _ = c.GetValue() } }},
	{"NewSupportedVideoRecordingConfiguration", func() (*Characteristic, func()) { c := NewSupportedVideoRecordingConfiguration(); return c.Characteristic, func() { _ = c.GetValue() } }},
	{"NewSupportedVideoStreamConfiguration", func() (*Characteristic, func()) { c := NewSupportedVideoStreamConfiguration(); return c.Characteristic, func() { _ = c.GetValue() } }},
	{"NewSwingMode", func() (*Characteristic, func()) { c := NewSwingMode(); return c.Characteristic, func() { _ = c.GetValue() } }},
	{"NewTargetAirPurifierState", func() (*Characteristic, func()) { c := NewTargetAirPurifierState(); return c.Characteristic, func() { _ = c.GetValue() } }},
	{"NewTargetAirQuality", func() (*Characteristic, func()) { c := NewTargetAirQuality(); return c.Characteristic, func() { _ = c.GetValue() } }},
	{"NewTargetDoorState", func() (*Characteristic, func()) { c := NewTargetDoorState(); return c.Characteristic, func() { _ = c.GetValue() } }},
	{"NewTargetFanState", func() (*Characteristic, func()) { c := NewTargetFanState(); return c.Characteristic, func() { _ = c.GetValue() } }},
	{"NewTargetHeaterCoolerState", func() (*Characteristic, func()) { c := NewTargetHeaterCoolerState(); return c.Characteristic, func() { _ = c.GetValue() } }},
	{"NewTargetHeatingCoolingState", func() (*Characteristic, func()) { c := NewTargetHeatingCoolingState(); return c.Characteristic, func() { _ = c.GetValue() } }},
	{"NewTargetHorizontalTiltAngle", func() (*Characteristic, func()) { c := NewTargetHorizontalTiltAngle(); return c.Characteristic, func() { _ = c.GetValue() } }},
	{"NewTargetHumidifierDehumidifierState", func() (*Characteristic, func()) { c := NewTargetHumidifierDehumidifierState(); return c.Characteristic, func() { _ = c.GetValue() } }},
	{"NewTargetMediaState", func() (*Characteristic, func()) { c := NewTargetMediaState(); return c.Characteristic, func() { _ = c.GetValue() } }},
	{"NewTargetPosition", func() (*Characteristic, func()) { c := NewTargetPosition(); return c.Characteristic, func() { _ = c.GetValue() } }},
	{"NewTargetRelativeHumidity", func() (*Characteristic, func()) { c := NewTargetRelativeHumidity(); return c.Characteristic, func() { _ = c.GetValue() } }},
	{"NewTargetSlatState", func() (*Characteristic, func()) { c := NewTargetSlatState(); return c.Characteristic, func() { _ = c.GetValue() } }},
	{"NewTargetTemperature", func() (*Characteristic, func()) { c := NewTargetTemperature(); return c.Characteristic, func() { _ = c.GetValue() } }},
	{"NewTargetTiltAngle", func() (*Characteristic, func()) { c := NewTargetTiltAngle(); return c.Characteristic, func() { _ = c.GetValue() } }},
	{"NewTargetVerticalTiltAngle", func() (*Characteristic, func()) { c := NewTargetVerticalTiltAngle(); return c.Characteristic, func() { _ = c.GetValue() } }},
	{"NewTargetVisibilityState", func() (*Characteristic, func()) { c := NewTargetVisibilityState(); return c.Characteristic, func() { _ = c.GetValue() } }},
	{"NewTemperatureDisplayUnits", func() (*Characteristic, func()) { c := NewTemperatureDisplayUnits(); return c.Characteristic, func() { _ = c.GetValue() } }},
	{"NewTimeUpdate", func() (*Characteristic, func()) { c := NewTimeUpdate(); return c.Characteristic, func() { _ = c.GetValue() } }},
	{"NewTunnelConnectionTimeout", func() (*Characteristic, func()) { c := NewTunnelConnectionTimeout(); return c.Characteristic, func() { _ = c.GetValue() } }},
	{"NewTunneledAccessoryAdvertising", func() (*Characteristic, func()) { c := NewTunneledAccessoryAdvertising(); return c.Characteristic, func() { _ = c.GetValue() } }},
	{"NewTunneledAccessoryConnected", func() (*Characteristic, func()) { c := NewTunneledAccessoryConnected(); return c.Characteristic, func() { _ = c.GetValue() } }},
	{"NewTunneledAccessoryStateNumber", func() (*Characteristic, func()) { c := NewTunneledAccessoryStateNumber(); return c.Characteristic, func() { _ = c.GetValue() } }},
	{"NewVOCDensity", func() (*Characteristic, func()) { c := NewVOCDensity(); return c.Characteristic, func() { _ = c.GetValue() } }},
	{"NewValveType", func() (*Characteristic, func()) { c := NewValveType(); return c.Characteristic, func() { _ = c.GetValue() } }},
	{"NewVersion", func() (*Characteristic, func()) { c := NewVersion(); return c.Characteristic, func() { _ = c.GetValue() } }},
	{"NewVolume", func() (*Characteristic, func()) { c := NewVolume(); return c.Characteristic, func() { _ = c.GetValue() } }},
	{"NewVolumeControlType", func() (*Characteristic, func()) { c := NewVolumeControlType(); return c.Characteristic, func() { _ = c.GetValue() } }},
	{"NewVolumeSelector", func() (*Characteristic, func()) { c := NewVolumeSelector(); return c.Characteristic, func() { _ = c.GetValue() } }},
	{"NewWaterLevel", func() (*Characteristic, func()) { c := NewWaterLevel(); return c.Characteristic, func() { _ = c.GetValue() } }},
	{"NewWifiCapabilities", func() (*Characteristic, func()) { c := NewWifiCapabilities(); return c.Characteristic, func() { _ = c.GetValue() } }},
	{"NewWifiConfigurationControl", func() (*Characteristic, func()) { c := NewWifiConfigurationControl(); return c.Characteristic, func() { _ = c.GetValue() } }},
}

func zzNum(v interface{}) (float64, bool) {
	switch t := v.(type) {
	case int:
		return float64(t), true
	case float64:
		return t, true
	case int64:
		return float64(t), true
	case uint8:
		return float64(t), true
	case float32:
		return float64(t), true
	}
	return 0, false
}

// zzCheck returns a description of the violation or "".
func zzCheck(c *Characteristic, typedGet func()) (res string) {
	defer func() {
		if r := recover(); r != nil {
			res = fmt.Sprintf("panic: %v", r)
		}
	}()
	if !c.IsReadable() {
		if c.Value != nil {
			return fmt.Sprintf("write-only characteristic holds %T(%v)", c.Value, c.Value)
		}
		if _, err := json.Marshal(c); err != nil {
			return "json: " + err.Error()
		}
		return ""
	}
	switch c.Format {
	case FormatFloat:
		f, ok := c.Value.(float64)
		if !ok {
			return fmt.Sprintf("format %s holds %T(%v)", c.Format, c.Value, c.Value)
		}
		if math.IsNaN(f) || math.IsInf(f, 0) {
			return fmt.Sprintf("non finite %v", f)
		}
		if c.MinValue != nil {
			m, ok := zzNum(c.MinValue)
			if !ok {
				return fmt.Sprintf("min of type %T", c.MinValue)
			}
			if f < m {
				return fmt.Sprintf("value %v below min %v (%T)", f, c.MinValue, c.MinValue)
			}
		}
		if c.MaxValue != nil {
			m, ok := zzNum(c.MaxValue)
			if !ok {
				return fmt.Sprintf("max of type %T", c.MaxValue)
			}
			if f > m {
				return fmt.Sprintf("value %v above max %v (%T)", f, c.MaxValue, c.MaxValue)
			}
		}
	case FormatUInt8, FormatUInt16, FormatUInt32, FormatUInt64, FormatInt32:
		i, ok := c.Value.(int)
		if !ok {
			return fmt.Sprintf("format %s holds %T(%v)", c.Format, c.Value, c.Value)
		}
		if c.MinValue != nil {
			m, ok := zzNum(c.MinValue)
			if !ok {
				return fmt.Sprintf("min of type %T", c.MinValue)
			}
			if float64(i) < m {
				return fmt.Sprintf("value %v below min %v (%T)", i, c.MinValue, c.MinValue)
			}
		}
		if c.MaxValue != nil {
			m, ok := zzNum(c.MaxValue)
			if !ok {
				return fmt.Sprintf("max of type %T", c.MaxValue)
			}
			if float64(i) > m {
				return fmt.Sprintf("value %v above max %v (%T)", i, c.MaxValue, c.MaxValue)
			}
		}
	case FormatBool:
		if _, ok := c.Value.(bool); !ok {
			return fmt.Sprintf("format %s holds %T(%v)", c.Format, c.Value, c.Value)
		}
	case FormatString, FormatTLV8, FormatData:
		if _, ok := c.Value.(string); !ok {
			return fmt.Sprintf("format %s holds %T(%v)", c.Format, c.Value, c.Value)
		}
	default:
		return fmt.Sprintf("unknown format %q", c.Format)
	}
	typedGet()
	if _, err := json.Marshal(c); err != nil {
		return "json: " + err.Error()
	}
	return ""
}

func zzValues() []interface{} {
	return []interface{}{
		float64(0), float64(1), float64(-1), 0.5, -0.5, 1e30, -1e30, math.MaxFloat64, -math.MaxFloat64, math.SmallestNonzeroFloat64,
		float64(255), float64(256), float64(65536), float64(4294967296), 9.3e18, 1.9e19, -9.3e18,
		0, 1, -1, math.MaxInt64, math.MinInt64, uint64(math.MaxUint64), int64(-7), uint8(200), float32(2.5),
		"", "abc", "-5", "5", "5.5", "1e400", "-1e400", "NaN", "Inf", "-Inf", "+Inf", "infinity", "true", "false", "T", "0x10", "1e3", " 7", "18446744073709551615", "18446744073709551616",
		true, false, nil,
		[]interface{}{}, []interface{}{float64(1), "a"}, map[string]interface{}{}, map[string]interface{}{"a": float64(1)},
		[]interface{}{map[string]interface{}{"a": []interface{}{nil}}},
		[]byte{1, 2, 3}, []byte{0xff, 0xfe},
		"\xff\xfe", "\x00",
	}
}

func TestZZHuntCtorInitial(t *testing.T) {
	for _, k := range zzCtors {
		c, get := k.mk()
		if s := zzCheck(c, get); s != "" {
			t.Errorf("%s (format %s perms %v) initial: %s", k.name, c.Format, c.Perms, s)
		}
	}
}

func zzApply(c *Characteristic, v interface{}, remote bool) (res string) {
	defer func() {
		if r := recover(); r != nil {
			res = fmt.Sprintf("panic in update: %v", r)
		}
	}()
	if remote {
		c.UpdateValueFromConnection(v, TestConn)
	} else {
		c.UpdateValue(v)
	}
	return ""
}

func TestZZHuntCtorUpdates(t *testing.T) {
	for _, k := range zzCtors {
		for _, remote := range []bool{false, true} {
			c, get := k.mk()
			if zzCheck(c, get) != "" {
				continue
			}
			bad := 0
			for _, v := range zzValues() {
				if remote && v == nil {
					continue
				}
				for rep := 0; rep < 2; rep++ {
					s := zzApply(c, v, remote)
					if s == "" {
						s = zzCheck(c, get)
					}
					if s != "" {
						bad++
						if bad < 4 {
							t.Errorf("%s (format %s min %v max %v) remote=%v after %T(%v) #%d: %s", k.name, c.Format, c.MinValue, c.MaxValue, remote, v, v, rep, s)
						}
						c, get = k.mk()
					}
				}
			}
		}
	}
}

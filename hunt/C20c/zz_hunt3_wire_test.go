package hc

import (
	"context"
	"io/ioutil"
	"os"
	"testing"
	"time"

	"github.com/brutella/dnssd"
)

// what a browser on the network sees
func h3browse(t *testing.T, host string) map[string]string {
	ctx, cancel := context.WithTimeout(context.Background(), 3*time.Second)
	defer cancel()
	var txt map[string]string
	add := func(e dnssd.BrowseEntry) {
		if e.Text["id"] == host {
			txt = e.Text
			cancel()
		}
	}
	dnssd.LookupType(ctx, "_hap._tcp.local.", add, func(dnssd.BrowseEntry) {})
	return txt
}

func TestHunt3PairDuringProbeWindowOnTheWire(t *testing.T) {
	dir, _ := ioutil.TempDir("", "h3e")
	defer os.RemoveAll(dir)
	w := &h3world{t: t, dir: dir, stored: map[string]*h3ctrl{}}
	w.start(0)
	defer w.stop()
	k := h3newCtrl("early")
	if err := k.pairSetup(w.port, "111-22-333"); err != nil {
		t.Fatal(err)
	}
	time.Sleep(3 * time.Second)
	txt := h3browse(t, w.id)
	if txt == nil {
		t.Skip("no mDNS answer in this environment")
	}
	t.Logf("browsed TXT: %v", txt)
	if txt["sf"] != "0" {
		t.Fatalf("a pairing is stored, a browser is told sf=%s", txt["sf"])
	}
}

// control: the same history with the pairing after the probe window is advertised correctly
func TestHunt3PairAfterProbeWindowOnTheWire(t *testing.T) {
	dir, _ := ioutil.TempDir("", "h3e")
	defer os.RemoveAll(dir)
	w := &h3world{t: t, dir: dir, stored: map[string]*h3ctrl{}}
	w.start(1500 * time.Millisecond)
	defer w.stop()
	k := h3newCtrl("late")
	if err := k.pairSetup(w.port, "111-22-333"); err != nil {
		t.Fatal(err)
	}
	time.Sleep(3 * time.Second)
	txt := h3browse(t, w.id)
	if txt == nil {
		t.Skip("no mDNS answer in this environment")
	}
	if txt["sf"] != "0" {
		t.Fatalf("a pairing is stored, a browser is told sf=%s", txt["sf"])
	}
}

package hc

import (
	"fmt"
	"io/ioutil"
	"math/rand"
	"os"
	"sort"
	"testing"
	"time"

	"github.com/brutella/hc/accessory"
	"github.com/brutella/hc/db"
)

type h3world struct {
	t      *testing.T
	dir    string
	tr     *ipTransport
	port   string
	id     string
	ltpk   string
	stored map[string]*h3ctrl
}

func (w *h3world) start(settle time.Duration) {
	a := accessory.NewSwitch(accessory.Info{Name: "Sw"})
	tr, err := NewIPTransport(Config{StoragePath: w.dir, Pin: "11122333"}, a.Accessory)
	if err != nil {
		w.t.Fatal(err)
	}
	w.tr = tr
	go tr.Start()
	for tr.server == nil || tr.handle == nil {
		time.Sleep(5 * time.Millisecond)
	}
	w.port = tr.server.Port()
	time.Sleep(settle)
	if w.id == "" {
		w.id = tr.config.id
		w.ltpk = string(tr.device.PublicKey())
	}
	if tr.config.id != w.id || string(tr.device.PublicKey()) != w.ltpk {
		w.t.Fatalf("identity changed")
	}
	if tr.config.version != 1 {
		w.t.Fatalf("version %d", tr.config.version)
	}
}

func (w *h3world) stop() {
	<-w.tr.Stop()
	w.tr = nil
}

func (w *h3world) check(what string) {
	want := "1"
	if len(w.stored) > 0 {
		want = "0"
	}
	if got := w.tr.config.txtRecords()["sf"]; got != want {
		w.t.Fatalf("%s: config sf=%s want %s (stored %d)", what, got, want, len(w.stored))
	}
	if got := w.tr.handle.Service().Text["sf"]; got != want {
		w.t.Fatalf("%s: advertised sf=%s want %s (stored %d)", what, got, want, len(w.stored))
	}
	es, err := w.tr.database.Entities()
	if err != nil {
		w.t.Fatal(err)
	}
	var names []string
	for _, e := range es {
		if len(e.PrivateKey) == 0 {
			names = append(names, e.Name)
		}
	}
	var wantNames []string
	for n := range w.stored {
		wantNames = append(wantNames, n)
	}
	sort.Strings(names)
	sort.Strings(wantNames)
	if fmt.Sprint(names) != fmt.Sprint(wantNames) {
		w.t.Fatalf("%s: stored %v want %v", what, names, wantNames)
	}
}

func TestHunt3PairHistories(t *testing.T) {
	seed := time.Now().UnixNano()
	if s := os.Getenv("H3SEED"); s != "" {
		fmt.Sscan(s, &seed)
	}
	t.Logf("seed %d", seed)
	r := rand.New(rand.NewSource(seed))
	dir, _ := ioutil.TempDir("", "h3h")
	defer os.RemoveAll(dir)
	w := &h3world{t: t, dir: dir, stored: map[string]*h3ctrl{}}
	w.start(1500 * time.Millisecond)
	w.check("start")
	nctrl := 0
	for step := 0; step < 25; step++ {
		op := r.Intn(5)
		switch {
		case op == 0:
			w.stop()
			w.start(1500 * time.Millisecond)
			w.check(fmt.Sprintf("step %d restart", step))
		case op == 1 || len(w.stored) == 0:
			// pair-setup by a new controller
			nctrl++
			k := h3newCtrl(fmt.Sprintf("ctrl-%d", nctrl))
			if err := k.pairSetup(w.port, "111-22-333"); err != nil {
				t.Fatalf("step %d pair-setup: %v", step, err)
			}
			w.stored[k.name] = k
			w.check(fmt.Sprintf("step %d pair-setup %s", step, k.name))
		case op == 2:
			// add pairing through a stored controller
			var admin *h3ctrl
			for _, k := range w.stored {
				admin = k
				break
			}
			nctrl++
			k := h3newCtrl(fmt.Sprintf("ctrl-%d", nctrl))
			if err := admin.addPairing(w.port, k); err != nil {
				t.Fatalf("step %d add: %v", step, err)
			}
			// the new controller learns the accessory key from the admin
			k.db.SaveEntity(db.NewEntity(w.id, []byte(w.ltpk), nil))
			w.stored[k.name] = k
			w.check(fmt.Sprintf("step %d add %s", step, k.name))
		default:
			// remove a pairing (possibly the own one)
			var admin, victim *h3ctrl
			for _, k := range w.stored {
				if admin == nil {
					admin = k
				}
				victim = k
			}
			if err := admin.removePairing(w.port, victim.name); err != nil {
				t.Fatalf("step %d remove: %v", step, err)
			}
			delete(w.stored, victim.name)
			w.check(fmt.Sprintf("step %d remove %s by %s", step, victim.name, admin.name))
		}
	}
	w.stop()
}

package hc

import (
	"io/ioutil"
	"os"
	"testing"
	"time"
)

func TestHunt3TwoTransports(t *testing.T) {
	dir1, _ := ioutil.TempDir("", "h3t1")
	dir2, _ := ioutil.TempDir("", "h3t2")
	defer os.RemoveAll(dir1)
	defer os.RemoveAll(dir2)
	w1 := &h3world{t: t, dir: dir1, stored: map[string]*h3ctrl{}}
	w2 := &h3world{t: t, dir: dir2, stored: map[string]*h3ctrl{}}
	w1.start(0)
	w2.start(3 * time.Second)
	t.Logf("names: %s / %s", w1.tr.handle.Service().Name, w2.tr.handle.Service().Name)
	k := h3newCtrl("c")
	if err := k.pairSetup(w1.port, "111-22-333"); err != nil {
		t.Fatal(err)
	}
	w1.stored[k.name] = k
	w1.check("w1 paired")
	w2.check("w2 untouched")
	for i, w := range []*h3world{w1, w2} {
		txt := h3browse(t, w.id)
		t.Logf("w%d browse: %v", i+1, txt)
		want := "1"
		if len(w.stored) > 0 {
			want = "0"
		}
		if txt == nil || txt["sf"] != want {
			t.Errorf("w%d: browsed %v, want sf=%s", i+1, txt, want)
		}
	}
	// stop the first, the second must still be there and right
	w1.stop()
	time.Sleep(time.Second)
	txt := h3browse(t, w2.id)
	t.Logf("w2 after w1 stopped: %v", txt)
	if txt == nil || txt["sf"] != "1" {
		t.Errorf("w2 after w1 stopped: %v", txt)
	}
	// restart the first on its storage: paired
	w1.start(2 * time.Second)
	w1.check("w1 restarted")
	txt = h3browse(t, w1.id)
	t.Logf("w1 restarted: %v", txt)
	if txt == nil || txt["sf"] != "0" {
		t.Errorf("w1 restarted: %v", txt)
	}
	if err := k.removePairing(w1.port, k.name); err != nil {
		t.Fatal(err)
	}
	delete(w1.stored, k.name)
	w1.check("w1 unpaired")
	txt = h3browse(t, w1.id)
	if txt == nil || txt["sf"] != "1" {
		t.Errorf("w1 unpaired: %v", txt)
	}
	w1.stop()
	w2.stop()
}

package hc

import (
	"io/ioutil"
	"os"
	"testing"
	"time"

	"github.com/brutella/hc/accessory"
	"github.com/brutella/hc/db"
	"github.com/brutella/hc/event"
)

func TestHunt3StartProbe(t *testing.T) {
	dir, _ := ioutil.TempDir("", "h3s")
	defer os.RemoveAll(dir)
	a := accessory.NewSwitch(accessory.Info{Name: "Sw"})
	tr, err := NewIPTransport(Config{StoragePath: dir}, a.Accessory)
	if err != nil {
		t.Fatal(err)
	}
	go tr.Start()
	for i := 0; i < 40; i++ {
		time.Sleep(100 * time.Millisecond)
		if tr.handle != nil {
			t.Logf("%d ms: handle text sf=%v", i*100, tr.handle.Service().Text["sf"])
		}
		if i == 2 {
			// store a controller and tell the transport
			tr.database.SaveEntity(db.NewEntity("ctrl", []byte{1, 2, 3}, nil))
			go tr.emitter.Emit(event.DevicePaired{})
		}
	}
	t.Logf("config sf=%v handle sf=%v", tr.config.txtRecords()["sf"], tr.handle.Service().Text["sf"])
	<-tr.Stop()
}

package hc

import (
	"bytes"
	"math/rand"
	"testing"

	"github.com/brutella/hc/accessory"
	"github.com/brutella/hc/characteristic"
	"github.com/brutella/hc/service"
)

func h3allServices() map[string]*service.Service {
	return map[string]*service.Service{
		"AccessoryInformation": service.NewAccessoryInformation().Service,
		"AirPurifier": service.NewAirPurifier().Service,
		"AirQualitySensor": service.NewAirQualitySensor().Service,
		"BatteryService": service.NewBatteryService().Service,
		"BridgeConfiguration": service.NewBridgeConfiguration().Service,
		"BridgingState": service.NewBridgingState().Service,
		"CameraControl": service.NewCameraControl().Service,
		"CameraRecordingManagement": service.NewCameraRecordingManagement().Service,
		"CameraRTPStreamManagement": service.NewCameraRTPStreamManagement().Service,
		"CarbonDioxideSensor": service.NewCarbonDioxideSensor().Service,
		"CarbonMonoxideSensor": service.NewCarbonMonoxideSensor().Service,
		"ColoredLightbulb": service.NewColoredLightbulb().Service,
		"ContactSensor": service.NewContactSensor().Service,
		"Cooler": service.NewCooler().Service,
		"Door": service.NewDoor().Service,
		"Doorbell": service.NewDoorbell().Service,
		"Fan": service.NewFan().Service,
		"FanV2": service.NewFanV2().Service,
		"Faucet": service.NewFaucet().Service,
		"FilterMaintenance": service.NewFilterMaintenance().Service,
		"GarageDoorOpener": service.NewGarageDoorOpener().Service,
		"Heater": service.NewHeater().Service,
		"HeaterCooler": service.NewHeaterCooler().Service,
		"HumidifierDehumidifier": service.NewHumidifierDehumidifier().Service,
		"HumiditySensor": service.NewHumiditySensor().Service,
		"InputSource": service.NewInputSource().Service,
		"IrrigationSystem": service.NewIrrigationSystem().Service,
		"LeakSensor": service.NewLeakSensor().Service,
		"LightSensor": service.NewLightSensor().Service,
		"Lightbulb": service.NewLightbulb().Service,
		"LockManagement": service.NewLockManagement().Service,
		"LockMechanism": service.NewLockMechanism().Service,
		"Microphone": service.NewMicrophone().Service,
		"MotionSensor": service.NewMotionSensor().Service,
		"OccupancySensor": service.NewOccupancySensor().Service,
		"Outlet": service.NewOutlet().Service,
		"SecuritySystem": service.NewSecuritySystem().Service,
		"ServiceLabel": service.NewServiceLabel().Service,
		"Slat": service.NewSlat().Service,
		"SmokeSensor": service.NewSmokeSensor().Service,
		"Speaker": service.NewSpeaker().Service,
		"StatefulProgrammableSwitch": service.NewStatefulProgrammableSwitch().Service,
		"StatelessProgrammableSwitch": service.NewStatelessProgrammableSwitch().Service,
		"Switch": service.NewSwitch().Service,
		"Television": service.NewTelevision().Service,
		"TemperatureSensor": service.NewTemperatureSensor().Service,
		"Thermostat": service.NewThermostat().Service,
		"TimeInformation": service.NewTimeInformation().Service,
		"TunneledBTLEAccessoryService": service.NewTunneledBTLEAccessoryService().Service,
		"Valve": service.NewValve().Service,
		"WifiTransport": service.NewWifiTransport().Service,
		"Window": service.NewWindow().Service,
		"WindowCovering": service.NewWindowCovering().Service,
	}
}

// every generated service: arbitrary value changes never change the content hash
func TestHunt3HashIgnoresValuesAllServices(t *testing.T) {
	r := rand.New(rand.NewSource(7))
	for name, s := range h3allServices() {
		a := accessory.New(accessory.Info{Name: "A"}, accessory.TypeOther)
		a.AddService(s)
		c := accessory.NewContainer()
		c.AddAccessory(a)
		h0 := c.ContentHash()
		for round := 0; round < 20; round++ {
			for _, ch := range s.Characteristics {
				var v interface{}
				switch ch.Format {
				case characteristic.FormatBool:
					v = r.Intn(2) == 0
				case characteristic.FormatString, characteristic.FormatTLV8, characteristic.FormatData:
					v = []string{"", "a", "value", "{\"value\":1}", "\xff\xfe"}[r.Intn(5)]
				case characteristic.FormatFloat:
					v = []float64{0, -1e9, 1e9, 0.1, 1e-9, 3.5}[r.Intn(6)]
				default:
					v = []int{0, 1, -1, 255, 65536, 1 << 30, -(1 << 30)}[r.Intn(7)]
				}
				if r.Intn(2) == 0 {
					ch.UpdateValue(v)
				} else {
					ch.UpdateValueFromConnection(v, nil)
				}
			}
			if h := c.ContentHash(); !bytes.Equal(h, h0) {
				t.Fatalf("%s: hash changed by value changes", name)
			}
		}
	}
}

package hc

import (
	"fmt"
	"io/ioutil"
	"math/rand"
	"os"
	"path/filepath"
	"strings"
	"testing"

	"github.com/brutella/hc/accessory"
	"github.com/brutella/hc/characteristic"
	"github.com/brutella/hc/service"
)

// structural fingerprint computed independently of the library: every field of the
// accessory database except the values
func fingerprint(as []*accessory.Accessory) string {
	var sb strings.Builder
	for _, a := range as {
		fmt.Fprintf(&sb, "A%d{", a.ID)
		for _, s := range a.Services {
			var l []uint64
			for _, o := range s.Linked {
				l = append(l, o.ID)
			}
			fmt.Fprintf(&sb, "S%d %s h=%v p=%v l=%v[", s.ID, s.Type, s.Hidden, s.Primary, l)
			for _, c := range s.Characteristics {
				fmt.Fprintf(&sb, "C%d %s %v %q %s %s %d %v %v %v;", c.ID, c.Type, c.Perms, c.Description, c.Format, c.Unit, c.MaxLen, c.MaxValue, c.MinValue, c.StepValue)
			}
			sb.WriteString("]")
		}
		sb.WriteString("}")
	}
	return sb.String()
}

type h3run struct {
	as []*accessory.Accessory
}

func h3build(r *rand.Rand, shape int) []*accessory.Accessory {
	var as []*accessory.Accessory
	switch shape % 8 {
	case 0:
		as = append(as, accessory.NewSwitch(accessory.Info{Name: "X"}).Accessory)
	case 1:
		as = append(as, accessory.NewLightbulb(accessory.Info{Name: "X"}).Accessory)
	case 2:
		as = append(as, accessory.NewBridge(accessory.Info{Name: "X"}).Accessory, accessory.NewSwitch(accessory.Info{Name: "Y"}).Accessory)
	case 3:
		as = append(as, accessory.NewBridge(accessory.Info{Name: "X"}).Accessory, accessory.NewSwitch(accessory.Info{Name: "Y"}).Accessory, accessory.NewThermostat(accessory.Info{Name: "Z"}, 20, 10, 30, 1).Accessory)
	case 4:
		a := accessory.NewSwitch(accessory.Info{Name: "X"})
		a.Switch.On.Perms = []string{characteristic.PermRead}
		as = append(as, a.Accessory)
	case 5:
		a := accessory.NewSwitch(accessory.Info{Name: "X"})
		a.AddService(service.NewOutlet().Service)
		as = append(as, a.Accessory)
	case 6:
		as = append(as, accessory.NewBridge(accessory.Info{Name: "X"}).Accessory, accessory.NewSwitch(accessory.Info{Name: "Y", ID: 7}).Accessory)
	case 7:
		as = append(as, accessory.NewThermostat(accessory.Info{Name: "X"}, 20, 10, 30, 0.5).Accessory)
	}
	return as
}

// random value changes
func h3values(r *rand.Rand, as []*accessory.Accessory) {
	for _, a := range as {
		for _, s := range a.Services {
			for _, c := range s.Characteristics {
				if r.Intn(2) == 0 {
					continue
				}
				switch c.Format {
				case characteristic.FormatBool:
					c.UpdateValue(r.Intn(2) == 0)
				case characteristic.FormatString:
					c.UpdateValue(fmt.Sprintf("v%d", r.Intn(1000)))
				case characteristic.FormatFloat:
					c.UpdateValue(10 + r.Float64()*20)
				case characteristic.FormatUInt8, characteristic.FormatInt32, characteristic.FormatUInt16, characteristic.FormatUInt32:
					c.UpdateValue(r.Intn(3))
				}
			}
		}
	}
}

func h3read(t *testing.T, dir, key string) string {
	b, err := ioutil.ReadFile(filepath.Join(dir, key))
	if err != nil {
		t.Fatalf("read %s: %v", key, err)
	}
	return string(b)
}

func TestHunt3RestartHistories(t *testing.T) {
	r := rand.New(rand.NewSource(42))
	for hist := 0; hist < 6; hist++ {
		dir, _ := ioutil.TempDir("", "h3")
		defer os.RemoveAll(dir)
		var id, ent, prevFP string
		var version int64
		shape := r.Intn(8)
		for run := 0; run < 12; run++ {
			if r.Intn(2) == 0 {
				shape = r.Intn(8)
			}
			as := h3build(r, shape)
			if r.Intn(2) == 0 {
				h3values(r, as)
			}
			tr, err := NewIPTransport(Config{StoragePath: dir}, as[0], as[1:]...)
			if err != nil {
				t.Fatal(err)
			}
			fp := fingerprint(as)
			gotID := h3read(t, dir, "uuid")
			gotV := h3read(t, dir, "version")
			if tr.config.id != gotID || fmt.Sprint(tr.config.version) != gotV {
				t.Fatalf("config and files differ")
			}
			entKey := fmt.Sprintf("%x.entity", gotID)
			gotEnt := h3read(t, dir, entKey)
			if run == 0 {
				id, ent, version = gotID, gotEnt, 1
				if tr.config.version != 1 {
					t.Fatalf("first version %d", tr.config.version)
				}
			} else {
				if gotID != id {
					t.Fatalf("hist %d run %d: id changed %s -> %s", hist, run, id, gotID)
				}
				if gotEnt != ent {
					t.Fatalf("hist %d run %d: key pair changed", hist, run)
				}
				if fp != prevFP {
					version++
				}
				if tr.config.version != version {
					t.Fatalf("hist %d run %d shape %d: version %d, want %d (structure changed: %v)", hist, run, shape, tr.config.version, version, fp != prevFP)
				}
			}
			if tr.device.Name() != id {
				t.Fatalf("device name")
			}
			if tr.config.txtRecords()["sf"] != "1" {
				t.Fatalf("sf")
			}
			prevFP = fp
			h3values(r, as)
		}
	}
}

package hc

import (
	"io/ioutil"
	"os"
	"strings"
	"testing"
	"time"
)

func TestHunt3ExoticControllerNames(t *testing.T) {
	names := []string{"", "\xff\xfe", "a/b", "..", "uuid", strings.Repeat("n", 122), strings.Repeat("n", 124), strings.Repeat("n", 125), "x.entity", "UPPER", "upper"}
	for _, n := range names {
		dir, _ := ioutil.TempDir("", "h3n")
		w := &h3world{t: t, dir: dir, stored: map[string]*h3ctrl{}}
		w.start(1500 * time.Millisecond)
		k := h3newCtrl(n)
		err := k.pairSetup(w.port, "111-22-333")
		if err != nil {
			t.Logf("name %q (len %d): pair-setup refused: %v", n, len(n), err)
		} else {
			w.stored[n] = k
		}
		w.check("after pair-setup " + n)
		w.stop()
		w.start(1500 * time.Millisecond)
		w.check("after restart " + n)
		if err == nil {
			if err := k.removePairing(w.port, n); err != nil {
				t.Errorf("name %q: remove: %v", n, err)
			} else {
				delete(w.stored, n)
				w.check("after remove " + n)
			}
		}
		w.stop()
		os.RemoveAll(dir)
	}
}

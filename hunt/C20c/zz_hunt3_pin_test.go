package hc

import (
	"fmt"
	"math/rand"
	"strings"
	"testing"

	"github.com/brutella/hc/util"
)

func refValid(pin string) bool {
	if len(pin) != 8 {
		return false
	}
	for i := 0; i < 8; i++ {
		if pin[i] < '0' || pin[i] > '9' {
			return false
		}
	}
	same := true
	for i := 1; i < 8; i++ {
		if pin[i] != pin[0] {
			same = false
		}
	}
	if same || pin == "12345678" || pin == "87654321" {
		return false
	}
	return true
}

func decodeXHM(uri string) (code uint64, cat uint64, flags uint64, setupid string, err error) {
	if !strings.HasPrefix(uri, "X-HM://") {
		return 0, 0, 0, "", fmt.Errorf("prefix")
	}
	rest := uri[len("X-HM://"):]
	if len(rest) < 9 {
		return 0, 0, 0, "", fmt.Errorf("short")
	}
	p := rest[:9]
	setupid = rest[9:]
	var v uint64
	for _, ch := range p {
		var d uint64
		switch {
		case ch >= '0' && ch <= '9':
			d = uint64(ch - '0')
		case ch >= 'A' && ch <= 'Z':
			d = uint64(ch-'A') + 10
		default:
			return 0, 0, 0, "", fmt.Errorf("char")
		}
		v = v*36 + d
	}
	code = v & 0x7ffffff
	flags = (v >> 27) & 0xf
	cat = (v >> 31) & 0xff
	if v>>39 != 0 {
		return 0, 0, 0, "", fmt.Errorf("version/reserved %d", v>>39)
	}
	return
}

func TestHunt3PinExhaustive(t *testing.T) {
	if testing.Short() {
		t.Skip()
	}
	bad := 0
	buf := make([]byte, 8)
	for i := 0; i < 100000000; i++ {
		n := i
		for k := 7; k >= 0; k-- {
			buf[k] = byte('0' + n%10)
			n /= 10
		}
		pin := string(buf)
		f, err := ValidatePin(pin)
		if (err == nil) != refValid(pin) {
			bad++
			if bad < 10 {
				t.Errorf("pin %s: err=%v ref=%v", pin, err, refValid(pin))
			}
		}
		if err == nil {
			if f != pin[:3]+"-"+pin[3:5]+"-"+pin[5:] {
				t.Fatalf("fmt %s -> %s", pin, f)
			}
		}
	}
}

func TestHunt3PinOtherStrings(t *testing.T) {
	r := rand.New(rand.NewSource(1))
	alphabet := []string{"0", "1", "9", "-", " ", "a", "/", ":", "\x00", "٣", "１", "+", ".", "e", "\n"}
	for i := 0; i < 2000000; i++ {
		n := r.Intn(12)
		s := ""
		for k := 0; k < n; k++ {
			s += alphabet[r.Intn(len(alphabet))]
		}
		_, err := ValidatePin(s)
		if (err == nil) != refValid(s) {
			t.Fatalf("pin %q: err=%v ref=%v", s, err, refValid(s))
		}
	}
}

func TestHunt3XHMDecode(t *testing.T) {
	r := rand.New(rand.NewSource(2))
	allflags := []util.SetupFlag{util.SetupFlagNFC, util.SetupFlagIP, util.SetupFlagBTLE, util.SetupFlagIPWAC}
	check := func(code int, cat uint8, mask int, sid string) {
		pin := fmt.Sprintf("%08d", code)
		var fl []util.SetupFlag
		for b := 0; b < 4; b++ {
			if mask&(1<<uint(b)) != 0 {
				fl = append(fl, allflags[b])
			}
		}
		uri, err := util.XHMURI(pin, sid, cat, fl)
		if err != nil {
			t.Fatal(err)
		}
		c, ca, f, s, err := decodeXHM(uri)
		if err != nil {
			t.Fatalf("%s: %v", uri, err)
		}
		if c != uint64(code) || ca != uint64(cat) || f != uint64(mask) || s != sid {
			t.Fatalf("pin %s cat %d mask %d sid %s -> %s -> %d %d %d %s", pin, cat, mask, sid, uri, c, ca, f, s)
		}
	}
	for cat := 0; cat < 256; cat++ {
		for mask := 0; mask < 16; mask++ {
			for _, code := range []int{0, 1, 99999999, 67108863, 67108864, 67108865, 134217727 % 100000000, 10203, 50000000} {
				check(code, uint8(cat), mask, "HOME")
			}
		}
	}
	for i := 0; i < 3000000; i++ {
		check(r.Intn(100000000), uint8(r.Intn(256)), r.Intn(16), "AB12")
	}
}

package hc

import (
	"io/ioutil"
	"os"
	"testing"
	"time"
)

// Clause: "it advertises itself as discoverable exactly when no controller pairing is stored".
//
// History: start; a controller which knows the address of the accessory pairs at once
// (the listener is open as soon as Start runs, the mDNS responder is still probing the
// name for 750..1000 ms); nothing else happens.
//
// The pairing is stored, the DevicePaired event is handled, the transport computes
// sf=0 and hands it to the service handle -- but the responder replaces the service of
// the handle with the copy it made before probing (dnssd responder.go Respond():
// h.service = &srv), whose TXT still says sf=1. From then on the accessory answers every
// query with sf=1 although a pairing is stored (and, in the mirrored history "restart
// while paired; the last pairing is removed at once", with sf=0 although none is stored).
func TestHunt3PairDuringProbeWindow(t *testing.T) {
	dir, _ := ioutil.TempDir("", "h3e")
	defer os.RemoveAll(dir)
	w := &h3world{t: t, dir: dir, stored: map[string]*h3ctrl{}}
	w.start(0)
	k := h3newCtrl("early")
	if err := k.pairSetup(w.port, "111-22-333"); err != nil {
		t.Fatal(err)
	}
	w.stored[k.name] = k
	// let the responder finish probing and announcing
	time.Sleep(3 * time.Second)
	defer w.stop()
	w.check("pair-setup right after Start")
}

// mirrored: restart while paired, the pairing is removed at once: nothing stored, sf stays 0
func TestHunt3UnpairDuringProbeWindow(t *testing.T) {
	dir, _ := ioutil.TempDir("", "h3e")
	defer os.RemoveAll(dir)
	w := &h3world{t: t, dir: dir, stored: map[string]*h3ctrl{}}
	w.start(1500 * time.Millisecond)
	k := h3newCtrl("admin")
	if err := k.pairSetup(w.port, "111-22-333"); err != nil {
		t.Fatal(err)
	}
	w.stored[k.name] = k
	w.check("paired")
	w.stop()
	w.start(0)
	if err := k.removePairing(w.port, k.name); err != nil {
		t.Fatal(err)
	}
	delete(w.stored, k.name)
	time.Sleep(3 * time.Second)
	defer w.stop()
	w.check("remove-pairing right after restart")
}

package hc

import (
	"bufio"
	"bytes"
	"fmt"
	"io"
	"io/ioutil"
	"net"
	"net/http"
	"reflect"
	"time"
	"unsafe"

	"github.com/brutella/hc/crypto"
	"github.com/brutella/hc/db"
	"github.com/brutella/hc/hap"
	"github.com/brutella/hc/hap/pair"
	"github.com/brutella/hc/util"
)

// h3ctrl is a reference controller built from the client-side types of the library.
type h3ctrl struct {
	name string
	db   db.Database
	dev  hap.Device
}

func h3newCtrl(name string) *h3ctrl {
	d, _ := db.NewTempDatabase()
	dev, _ := hap.NewDevice(name, d)
	return &h3ctrl{name: name, db: d, dev: dev}
}

type h3conn struct {
	c   net.Conn
	br  *bufio.Reader
	enc crypto.Cryptographer
}

func h3dial(port string) (*h3conn, error) {
	c, err := net.DialTimeout("tcp", "127.0.0.1:"+port, 2*time.Second)
	if err != nil {
		return nil, err
	}
	return &h3conn{c: c, br: bufio.NewReader(c)}, nil
}

func (c *h3conn) close() { c.c.Close() }

// plain request
func (c *h3conn) post(path string, body io.Reader) (io.Reader, error) {
	b, _ := ioutil.ReadAll(body)
	req := fmt.Sprintf("POST %s HTTP/1.1\r\nHost: x\r\nContent-Type: application/pairing+tlv8\r\nContent-Length: %d\r\n\r\n", path, len(b))
	c.c.SetDeadline(time.Now().Add(5 * time.Second))
	if _, err := c.c.Write(append([]byte(req), b...)); err != nil {
		return nil, err
	}
	resp, err := http.ReadResponse(c.br, nil)
	if err != nil {
		return nil, err
	}
	rb, err := ioutil.ReadAll(resp.Body)
	if err != nil {
		return nil, err
	}
	if resp.StatusCode != 200 {
		return nil, fmt.Errorf("status %d", resp.StatusCode)
	}
	return bytes.NewReader(rb), nil
}

// encrypted request; returns status and body
func (c *h3conn) epost(method, path string, body []byte) (int, []byte, error) {
	req := fmt.Sprintf("%s %s HTTP/1.1\r\nHost: x\r\nContent-Type: application/pairing+tlv8\r\nContent-Length: %d\r\n\r\n", method, path, len(body))
	r, err := c.enc.Encrypt(bytes.NewReader(append([]byte(req), body...)))
	if err != nil {
		return 0, nil, err
	}
	eb, _ := ioutil.ReadAll(r)
	c.c.SetDeadline(time.Now().Add(8 * time.Second))
	if _, err := c.c.Write(eb); err != nil {
		return 0, nil, err
	}
	// read frames until a complete response is there
	var plain bytes.Buffer
	for {
		var hdr [2]byte
		if _, err := io.ReadFull(c.br, hdr[:]); err != nil {
			return 0, nil, err
		}
		n := int(hdr[0]) | int(hdr[1])<<8
		frame := make([]byte, 2+n+16)
		copy(frame, hdr[:])
		if _, err := io.ReadFull(c.br, frame[2:]); err != nil {
			return 0, nil, err
		}
		dr, err := c.enc.Decrypt(bytes.NewReader(frame))
		if err != nil {
			return 0, nil, err
		}
		db, _ := ioutil.ReadAll(dr)
		plain.Write(db)
		resp, err := http.ReadResponse(bufio.NewReader(bytes.NewReader(plain.Bytes())), nil)
		if err != nil {
			continue
		}
		rb, err := ioutil.ReadAll(resp.Body)
		if err != nil {
			continue
		}
		return resp.StatusCode, rb, nil
	}
}

// pairSetup runs M1..M6 with the pin (formatted XXX-XX-XXX)
func (k *h3ctrl) pairSetup(port, pin string) (err error) {
	// the client controller of the library panics when the accessory answers with an error code
	defer func() {
		if r := recover(); r != nil {
			err = fmt.Errorf("client: %v", r)
		}
	}()
	c, err := h3dial(port)
	if err != nil {
		return err
	}
	defer c.close()
	client := pair.NewSetupClientController(pin, k.dev, k.db)
	var out io.Reader = client.InitialPairingRequest()
	for i := 0; i < 3; i++ {
		in, err := c.post("/pair-setup", out)
		if err != nil {
			return fmt.Errorf("M%d: %v", 2*i+1, err)
		}
		out, err = pair.HandleReaderForHandler(in, client)
		if err != nil {
			return fmt.Errorf("M%d: %v", 2*i+2, err)
		}
	}
	return nil
}

// verify opens a connection and runs pair-verify; the connection is encrypted afterwards
func (k *h3ctrl) verify(port string) (*h3conn, error) {
	var last error
	for attempt := 0; attempt < 5; attempt++ {
		c, err := h3dial(port)
		if err != nil {
			return nil, err
		}
		v := pair.NewVerifyClientController(k.dev, k.db)
		in, err := c.post("/pair-verify", v.InitialKeyVerifyRequest())
		if err != nil {
			c.close()
			return nil, fmt.Errorf("V2: %v", err)
		}
		out, err := pair.HandleReaderForHandler(in, v)
		if err != nil {
			c.close()
			return nil, fmt.Errorf("V2 handle: %v", err)
		}
		in, err = c.post("/pair-verify", out)
		if err != nil {
			// known: M4 is sometimes sent encrypted; try again
			c.close()
			last = fmt.Errorf("V4: %v", err)
			continue
		}
		if _, err = pair.HandleReaderForHandler(in, v); err != nil {
			c.close()
			return nil, fmt.Errorf("V4 handle: %v", err)
		}
		// shared key of the exchange
		f := reflect.ValueOf(v).Elem().FieldByName("session")
		sess := *(**pair.VerifySession)(unsafe.Pointer(f.UnsafeAddr()))
		c.enc, err = crypto.NewSecureClientSessionFromSharedKey(sess.SharedKey)
		if err != nil {
			c.close()
			return nil, err
		}
		return c, nil
	}
	return nil, last
}

func h3pairingBody(method pair.PairMethodType, name string, ltpk []byte, perm byte) []byte {
	t := util.NewTLV8Container()
	t.SetByte(pair.TagSequence, 1)
	t.SetByte(pair.TagPairingMethod, byte(method))
	t.SetString(pair.TagUsername, name)
	if ltpk != nil {
		t.SetBytes(pair.TagPublicKey, ltpk)
		t.SetByte(pair.TagPermission, perm)
	}
	b, _ := ioutil.ReadAll(t.BytesBuffer())
	return b
}

func (k *h3ctrl) addPairing(port string, other *h3ctrl) error {
	c, err := k.verify(port)
	if err != nil {
		return err
	}
	defer c.close()
	st, _, err := c.epost("POST", "/pairings", h3pairingBody(pair.PairingMethodAdd, other.name, other.dev.PublicKey(), 0))
	if err != nil {
		return err
	}
	if st != 200 {
		return fmt.Errorf("status %d", st)
	}
	return nil
}

func (k *h3ctrl) removePairing(port string, name string) error {
	c, err := k.verify(port)
	if err != nil {
		return err
	}
	defer c.close()
	st, _, err := c.epost("POST", "/pairings", h3pairingBody(pair.PairingMethodDelete, name, nil, 0))
	if err != nil {
		return err
	}
	if st != 200 {
		return fmt.Errorf("status %d", st)
	}
	return nil
}

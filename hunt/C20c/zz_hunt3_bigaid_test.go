package hc

import (
	"io/ioutil"
	"os"
	"testing"

	"github.com/brutella/hc/accessory"
)

// Clause: "its configuration number increases exactly when the structure of the
// accessory database changed since the previous run".
//
// History: run 1 publishes a bridge with one bridged accessory whose accessory id is
// the 64-bit hardware address of the bridged device (0x0021_2EFF_FF00_1234); the device
// is replaced by its neighbour (…1235) and the program is restarted on the same storage.
// The aid in the accessory database changed (the old accessory is gone, a new one is
// there), but c# stays the same: ContentHash round-trips the database through
// map[string]interface{}, which turns every number into a float64, and the two ids
// are the same float64.
func TestHunt3BigAidNoBump(t *testing.T) {
	dir, _ := ioutil.TempDir("", "h3big")
	defer os.RemoveAll(dir)

	run := func(aid uint64) (*ipTransport, string) {
		b := accessory.NewBridge(accessory.Info{Name: "Bridge"})
		s := accessory.NewSwitch(accessory.Info{Name: "Plug", ID: aid})
		tr, err := NewIPTransport(Config{StoragePath: dir}, b.Accessory, s.Accessory)
		if err != nil {
			t.Fatal(err)
		}
		if got := tr.container.Accessories[1].ID; got != aid {
			t.Fatalf("aid %d", got)
		}
		return tr, tr.config.txtRecords()["c#"]
	}

	_, c1 := run(0x00212EFFFF001234)
	_, c2 := run(0x00212EFFFF001235)
	if c1 == c2 {
		t.Fatalf("accessory id changed 0x00212EFFFF001234 -> 0x00212EFFFF001235 across the restart, c# stayed %s", c2)
	}
}

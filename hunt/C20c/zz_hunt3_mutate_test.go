package hc

import (
	"bytes"
	"testing"

	"github.com/brutella/hc/accessory"
	"github.com/brutella/hc/characteristic"
	"github.com/brutella/hc/service"
)

func h3base() (*accessory.Container, []*accessory.Accessory) {
	b := accessory.NewBridge(accessory.Info{Name: "B"})
	th := accessory.NewThermostat(accessory.Info{Name: "T"}, 20, 10, 30, 0.5)
	lb := accessory.NewColoredLightbulb(accessory.Info{Name: "L"})
	tv := accessory.NewTelevision(accessory.Info{Name: "TV"})
	c := accessory.NewContainer()
	as := []*accessory.Accessory{b.Accessory, th.Accessory, lb.Accessory, tv.Accessory}
	for _, a := range as {
		c.AddAccessory(a)
	}
	return c, as
}

func TestHunt3HashSeesStructure(t *testing.T) {
	c0, _ := h3base()
	h0 := c0.ContentHash()
	c1, _ := h3base()
	if !bytes.Equal(c1.ContentHash(), h0) {
		t.Fatal("hash is not a function of the structure")
	}
	type mut struct {
		name string
		f    func(c *accessory.Container, as []*accessory.Accessory)
	}
	firstChar := func(as []*accessory.Accessory) *characteristic.Characteristic {
		return as[1].Services[1].Characteristics[0]
	}
	muts := []mut{
		{"perm replaced", func(c *accessory.Container, as []*accessory.Accessory) {
			ch := firstChar(as)
			p := append([]string{}, ch.Perms...)
			p[0] = characteristic.PermHidden
			ch.Perms = p
		}},
		{"perm removed", func(c *accessory.Container, as []*accessory.Accessory) {
			ch := firstChar(as)
			ch.Perms = ch.Perms[:len(ch.Perms)-1]
		}},
		{"description", func(c *accessory.Container, as []*accessory.Accessory) { firstChar(as).Description = "x" }},
		{"unit", func(c *accessory.Container, as []*accessory.Accessory) { firstChar(as).Unit = "lux" }},
		{"maxLen", func(c *accessory.Container, as []*accessory.Accessory) { firstChar(as).MaxLen = 12 }},
		{"max", func(c *accessory.Container, as []*accessory.Accessory) { as[1].Services[1].Characteristics[2].MaxValue = 31.0 }},
		{"min", func(c *accessory.Container, as []*accessory.Accessory) { as[1].Services[1].Characteristics[2].MinValue = 9.99 }},
		{"step", func(c *accessory.Container, as []*accessory.Accessory) { as[1].Services[1].Characteristics[2].StepValue = 0.1 }},
		{"format", func(c *accessory.Container, as []*accessory.Accessory) { firstChar(as).Format = characteristic.FormatUInt16 }},
		{"char type", func(c *accessory.Container, as []*accessory.Accessory) { firstChar(as).Type = "FF" }},
		{"svc type", func(c *accessory.Container, as []*accessory.Accessory) { as[1].Services[1].Type = "FF" }},
		{"hidden", func(c *accessory.Container, as []*accessory.Accessory) { as[1].Services[1].Hidden = true }},
		{"primary", func(c *accessory.Container, as []*accessory.Accessory) { as[2].Services[1].Primary = true }},
		{"linked", func(c *accessory.Container, as []*accessory.Accessory) {
			as[1].Services[1].AddLinkedService(as[1].Services[0])
		}},
		{"char added", func(c *accessory.Container, as []*accessory.Accessory) {
			as[1].Services[1].AddCharacteristic(characteristic.NewName().Characteristic)
			as[1].UpdateIDs()
		}},
		{"char removed", func(c *accessory.Container, as []*accessory.Accessory) {
			s := as[1].Services[1]
			s.Characteristics = s.Characteristics[:len(s.Characteristics)-1]
			as[1].UpdateIDs()
		}},
		{"chars swapped", func(c *accessory.Container, as []*accessory.Accessory) {
			s := as[1].Services[1]
			s.Characteristics[0], s.Characteristics[1] = s.Characteristics[1], s.Characteristics[0]
			as[1].UpdateIDs()
		}},
		{"svc added", func(c *accessory.Container, as []*accessory.Accessory) { as[1].AddService(service.NewSwitch().Service) }},
		{"acc removed", func(c *accessory.Container, as []*accessory.Accessory) { c.RemoveAccessory(as[3]) }},
		{"acc added", func(c *accessory.Container, as []*accessory.Accessory) {
			c.AddAccessory(accessory.NewSwitch(accessory.Info{Name: "S"}).Accessory)
		}},
		{"acc swapped", func(c *accessory.Container, as []*accessory.Accessory) {
			c.Accessories[2], c.Accessories[3] = c.Accessories[3], c.Accessories[2]
		}},
		{"aid", func(c *accessory.Container, as []*accessory.Accessory) { as[3].ID = 99 }},
		{"write-only char gets no value but read perm", func(c *accessory.Container, as []*accessory.Accessory) {
			id := as[0].Info.Identify
			id.Perms = []string{characteristic.PermRead, characteristic.PermWrite}
		}},
	}
	for _, m := range muts {
		c, as := h3base()
		m.f(c, as)
		if bytes.Equal(c.ContentHash(), h0) {
			t.Errorf("%s: hash unchanged", m.name)
		}
	}
}

package util

import (
	"bytes"
	"math/rand"
	"testing"
	"testing/iotest"
)

type refItem struct {
	tag byte
	val []byte
}

// reference encoder: fragments of at most 255, no item for empty (known)
func refEncode(sets []refItem) []byte {
	var out []byte
	for _, s := range sets {
		v := s.val
		for len(v) > 0 {
			n := len(v)
			if n > 255 {
				n = 255
			}
			out = append(out, s.tag, byte(n))
			out = append(out, v[:n]...)
			v = v[n:]
			if n < 255 {
				break
			}
		}
	}
	return out
}

// reference parse: per-tag concat; ok=false on truncated
func refParse(b []byte) (map[byte][]byte, bool) {
	m := map[byte][]byte{}
	for len(b) > 0 {
		if len(b) < 2 {
			return nil, false
		}
		t, n := b[0], int(b[1])
		if len(b) < 2+n {
			return nil, false
		}
		m[t] = append(m[t], b[2:2+n]...)
		b = b[2+n:]
	}
	return m, true
}

func TestHunt4ProbeExhaustiveLengths(t *testing.T) {
	rnd := rand.New(rand.NewSource(1))
	for l := 1; l <= 1100; l++ {
		v := make([]byte, l)
		rnd.Read(v)
		orig := append([]byte{}, v...)
		tag := byte(l)
		c := NewTLV8Container()
		c.SetBytes(tag, v)
		c.SetByte(tag+1, 7)
		// mutate caller's buffer
		for i := range v {
			v[i] ^= 0xff
		}
		enc := c.BytesBuffer().Bytes()
		want := refEncode([]refItem{{tag, orig}, {tag + 1, []byte{7}}})
		if !bytes.Equal(enc, want) {
			t.Fatalf("len %d: encoding differs", l)
		}
		c2, err := NewTLV8ContainerFromReader(bytes.NewReader(enc))
		if err != nil {
			t.Fatal(err)
		}
		if !bytes.Equal(c2.GetBytes(tag), orig) || c2.GetByte(tag+1) != 7 {
			t.Fatalf("len %d: roundtrip differs", l)
		}
		// Get aliasing: mutate result and get again
		g := c2.GetBytes(tag)
		g[0] ^= 1
		if !bytes.Equal(c2.GetBytes(tag), orig) {
			t.Fatalf("len %d: GetBytes aliases", l)
		}
		g = c.GetBytes(tag)
		g[0] ^= 1
		if !bytes.Equal(c.GetBytes(tag), orig) {
			t.Fatalf("len %d: GetBytes aliases (writer)", l)
		}
	}
}

func TestHunt4ProbeRandomSets(t *testing.T) {
	rnd := rand.New(rand.NewSource(2))
	for it := 0; it < 20000; it++ {
		n := rnd.Intn(8)
		var sets []refItem
		c := NewTLV8Container()
		model := map[byte][]byte{}
		for i := 0; i < n; i++ {
			tag := byte(rnd.Intn(4))
			if rnd.Intn(4) == 0 {
				tag = byte(rnd.Intn(256))
			}
			var l int
			switch rnd.Intn(6) {
			case 0:
				l = 1 + rnd.Intn(3)
			case 1:
				l = 254 + rnd.Intn(3)
			case 2:
				l = 509 + rnd.Intn(3)
			case 3:
				l = 255 * (1 + rnd.Intn(4))
			default:
				l = 1 + rnd.Intn(1500)
			}
			v := make([]byte, l)
			rnd.Read(v)
			sets = append(sets, refItem{tag, v})
			switch rnd.Intn(3) {
			case 0:
				c.SetBytes(tag, v)
			case 1:
				c.SetString(tag, string(v))
			case 2:
				if l == 1 {
					c.SetByte(tag, v[0])
				} else {
					c.SetBytes(tag, v)
				}
			}
			model[tag] = append(model[tag], v...)
		}
		enc := c.BytesBuffer().Bytes()
		if !bytes.Equal(enc, refEncode(sets)) {
			t.Fatalf("it %d: encoding differs", it)
		}
		// BytesBuffer twice gives the same
		if !bytes.Equal(enc, c.BytesBuffer().Bytes()) {
			t.Fatalf("it %d: BytesBuffer not idempotent", it)
		}
		var c2 Container
		var err error
		switch rnd.Intn(4) {
		case 0:
			c2, err = NewTLV8ContainerFromReader(bytes.NewReader(enc))
		case 1:
			c2, err = NewTLV8ContainerFromReader(iotest.OneByteReader(bytes.NewReader(enc)))
		case 2:
			c2, err = NewTLV8ContainerFromReader(iotest.DataErrReader(bytes.NewReader(enc)))
		case 3:
			c2, err = NewTLV8ContainerFromReader(iotest.HalfReader(bytes.NewReader(enc)))
		}
		if err != nil {
			t.Fatalf("it %d: %v", it, err)
		}
		for tg := 0; tg < 256; tg++ {
			if !bytes.Equal(c2.GetBytes(byte(tg)), model[byte(tg)]) {
				t.Fatalf("it %d tag %d differ", it, tg)
			}
			if !bytes.Equal(c.GetBytes(byte(tg)), model[byte(tg)]) {
				t.Fatalf("it %d tag %d differ (writer side)", it, tg)
			}
			if c2.GetString(byte(tg)) != string(model[byte(tg)]) {
				t.Fatalf("it %d tag %d differ (string)", it, tg)
			}
			var fb byte
			if len(model[byte(tg)]) > 0 {
				fb = model[byte(tg)][0]
			}
			if c2.GetByte(byte(tg)) != fb {
				t.Fatalf("it %d tag %d differ (byte)", it, tg)
			}
		}
		if !bytes.Equal(c2.BytesBuffer().Bytes(), enc) {
			t.Fatalf("it %d: reserialised differs", it)
		}
	}
}

func TestHunt4ProbeParseArbitrary(t *testing.T) {
	rnd := rand.New(rand.NewSource(3))
	for it := 0; it < 200000; it++ {
		l := rnd.Intn(40)
		if rnd.Intn(10) == 0 {
			l = rnd.Intn(700)
		}
		b := make([]byte, l)
		rnd.Read(b)
		if rnd.Intn(2) == 0 {
			// small lengths to get deeper
			for i := range b {
				if rnd.Intn(3) == 0 {
					b[i] = byte(rnd.Intn(4))
				}
			}
		}
		orig := append([]byte{}, b...)
		m, ok := refParse(b)
		var c Container
		var err error
		func() {
			defer func() {
				if r := recover(); r != nil {
					t.Fatalf("panic on %x: %v", b, r)
				}
			}()
			c, err = NewTLV8ContainerFromReader(bytes.NewReader(b))
		}()
		if !bytes.Equal(orig, b) {
			t.Fatalf("input modified")
		}
		if ok != (err == nil) {
			t.Fatalf("%x: ref ok=%v err=%v", b, ok, err)
		}
		if err != nil {
			if c != nil {
				t.Fatalf("%x: container and error", b)
			}
			continue
		}
		for tg := 0; tg < 256; tg++ {
			if !bytes.Equal(c.GetBytes(byte(tg)), m[byte(tg)]) {
				t.Fatalf("%x tag %d differ", b, tg)
			}
		}
		if !bytes.Equal(c.BytesBuffer().Bytes(), b) {
			t.Fatalf("%x: reserialised differs", b)
		}
	}
}

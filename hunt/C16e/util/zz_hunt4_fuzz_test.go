package util

import (
	"bytes"
	"testing"
)

func FuzzHunt4Parse(f *testing.F) {
	f.Add([]byte{1, 1, 2})
	f.Add([]byte{1, 0})
	f.Add([]byte{0, 0, 1})
	f.Fuzz(func(t *testing.T, b []byte) {
		m, ok := refParse(b)
		c, err := NewTLV8ContainerFromReader(bytes.NewReader(b))
		if ok != (err == nil) {
			t.Fatalf("ok=%v err=%v", ok, err)
		}
		if err != nil {
			return
		}
		for tg := 0; tg < 256; tg++ {
			if !bytes.Equal(c.GetBytes(byte(tg)), m[byte(tg)]) {
				t.Fatalf("tag %d", tg)
			}
		}
		if !bytes.Equal(c.BytesBuffer().Bytes(), b) {
			t.Fatalf("reserialise")
		}
	})
}

package util

import (
	"bytes"
	"math/rand"
	"testing"
)

func TestHunt4ProbeBig(t *testing.T) {
	rnd := rand.New(rand.NewSource(4))
	for _, l := range []int{65534, 65535, 65536, 65537, 255 * 256, 255*256 + 1, 1 << 20, 1<<20 + 1, 255 * 4113} {
		v := make([]byte, l)
		rnd.Read(v)
		c := NewTLV8Container()
		c.SetBytes(200, v)
		c.SetBytes(200, v[:3])
		enc := c.BytesBuffer().Bytes()
		if !bytes.Equal(enc, refEncode([]refItem{{200, v}, {200, v[:3]}})) {
			t.Fatalf("%d: encoding differs", l)
		}
		c2, err := NewTLV8ContainerFromReader(bytes.NewReader(enc))
		if err != nil {
			t.Fatal(err)
		}
		if !bytes.Equal(c2.GetBytes(200), append(append([]byte{}, v...), v[:3]...)) {
			t.Fatalf("%d: differs", l)
		}
		// every strict prefix that cuts an item is an error
		for _, cut := range []int{1, len(enc) - 1, len(enc) - 4, 256, 258} {
			_, ok := refParse(enc[:cut])
			_, err := NewTLV8ContainerFromReader(bytes.NewReader(enc[:cut]))
			if ok != (err == nil) {
				t.Fatalf("%d cut %d: ok=%v err=%v", l, cut, ok, err)
			}
		}
	}
}

package tlv8

import (
	"math/rand"
	"reflect"
	"testing"
)

type hLeaf struct {
	A uint8  `tlv8:"1"`
	B uint16 `tlv8:"2"`
}

type hOne struct {
	S string `tlv8:"6"`
}

type hTwo struct {
	S string `tlv8:"1"`
	T []byte `tlv8:"2"`
}

type hScalars struct {
	U8  uint8   `tlv8:"0"`
	U16 uint16  `tlv8:"1"`
	U32 uint32  `tlv8:"2"`
	U64 uint64  `tlv8:"3"`
	I16 int16   `tlv8:"4"`
	I32 int32   `tlv8:"5"`
	I64 int64   `tlv8:"6"`
	F   float32 `tlv8:"7"`
	Bo  bool    `tlv8:"8"`
	S   string  `tlv8:"9"`
	By  []byte  `tlv8:"255"`
}

type hNest struct {
	X     uint8    `tlv8:"1"`
	Sc    hScalars `tlv8:"2"`
	Named []hTwo   `tlv8:"3"`
	In1   []hOne   `tlv8:"-"`
	Y     string   `tlv8:"4"`
	P     *hTwo    `tlv8:"5"`
}

type hOuter struct {
	N     hNest   `tlv8:"10"`
	Ns    []hNest `tlv8:"11"`
	In    []hTwo  `tlv8:"-"`
	Leafs []hLeaf `tlv8:"7"`
}

func rlen(r *rand.Rand) int {
	switch r.Intn(8) {
	case 0:
		return 254 + r.Intn(3)
	case 1:
		return 255 * (1 + r.Intn(3))
	case 2:
		return 1 + r.Intn(700)
	default:
		return 1 + r.Intn(6)
	}
}

func rbytes(r *rand.Rand) []byte {
	b := make([]byte, rlen(r))
	r.Read(b)
	return b
}

func rTwo(r *rand.Rand) hTwo { return hTwo{string(rbytes(r)), rbytes(r)} }

func rScalars(r *rand.Rand) hScalars {
	return hScalars{
		U8: uint8(r.Uint32()), U16: uint16(r.Uint32()), U32: r.Uint32(), U64: r.Uint64(),
		I16: int16(r.Uint32()), I32: int32(r.Uint32()), I64: int64(r.Uint64()),
		F: float32(r.Intn(100000)) / 7, Bo: r.Intn(2) == 0, S: string(rbytes(r)), By: rbytes(r),
	}
}

func rNest(r *rand.Rand) hNest {
	n := hNest{X: uint8(r.Uint32()), Sc: rScalars(r), Y: string(rbytes(r))}
	for i, k := 0, 1+r.Intn(3); i < k; i++ {
		n.Named = append(n.Named, rTwo(r))
	}
	for i, k := 0, 1+r.Intn(3); i < k; i++ {
		n.In1 = append(n.In1, hOne{string(rbytes(r))})
	}
	t := rTwo(r)
	n.P = &t
	return n
}

func TestHunt4ProbeStructRoundTrip(t *testing.T) {
	r := rand.New(rand.NewSource(5))
	for it := 0; it < 3000; it++ {
		o := hOuter{N: rNest(r)}
		for i, k := 0, 1+r.Intn(3); i < k; i++ {
			o.Ns = append(o.Ns, rNest(r))
		}
		for i, k := 0, 1+r.Intn(3); i < k; i++ {
			o.In = append(o.In, rTwo(r))
		}
		for i, k := 0, 1+r.Intn(3); i < k; i++ {
			o.Leafs = append(o.Leafs, hLeaf{uint8(r.Uint32()), uint16(r.Uint32())})
		}
		b, err := Marshal(o)
		if err != nil {
			t.Fatal(err)
		}
		var back hOuter
		if err := Unmarshal(b, &back); err != nil {
			t.Fatalf("it %d: %v", it, err)
		}
		if !reflect.DeepEqual(o, back) {
			t.Fatalf("it %d: differ N=%v Ns=%v In=%v Leafs=%v", it, reflect.DeepEqual(o.N, back.N), reflect.DeepEqual(o.Ns, back.Ns), reflect.DeepEqual(o.In, back.In), reflect.DeepEqual(o.Leafs, back.Leafs))
		}
	}
}

package tlv8

import "testing"

func FuzzHunt4Unmarshal(f *testing.F) {
	f.Add([]byte{1, 1, 2})
	f.Add([]byte{10, 3, 3, 1, 1, 0, 0, 11, 2, 1, 1})
	f.Fuzz(func(t *testing.T, b []byte) {
		Unmarshal(b, &hOuter{})
		Unmarshal(b, &hNest{})
		Unmarshal(b, &hScalars{})
	})
}

package tlv8

import (
	"bytes"
	"fmt"
	"math/rand"
	"testing"

	"github.com/brutella/hc/util"
)

type hX struct {
	A []byte `tlv8:"0"`
	B []byte `tlv8:"1"`
	C string `tlv8:"255"`
}

func TestHunt4ProbeCross(t *testing.T) {
	r := rand.New(rand.NewSource(11))
	for it := 0; it < 5000; it++ {
		x := hX{rbytes(r), rbytes(r), string(rbytes(r))}
		c := util.NewTLV8Container()
		c.SetBytes(0, x.A)
		c.SetBytes(1, x.B)
		c.SetString(255, x.C)
		b, _ := Marshal(x)
		if !bytes.Equal(b, c.BytesBuffer().Bytes()) {
			t.Fatal("encodings differ")
		}
		var y hX
		if err := Unmarshal(c.BytesBuffer().Bytes(), &y); err != nil {
			t.Fatal(err)
		}
		if !bytes.Equal(y.A, x.A) || !bytes.Equal(y.B, x.B) || y.C != x.C {
			t.Fatal("struct reader differs")
		}
	}
}

type hV struct {
	W uint16 `tlv8:"1"`
	F float32 `tlv8:"2"`
}
type hL struct {
	Id    byte `tlv8:"1"`
	One   hV   `tlv8:"2"`
	Many  []hV `tlv8:"3"`
}

func TestHunt4ProbeTruncNested(t *testing.T) {
	for _, in := range [][]byte{
		{1, 5, 0xaa},                // top level truncated value
		{1},                         // top level truncated after tag
		{1, 1, 7, 2, 3, 1, 5, 0xaa}, // nested struct truncated value
		{1, 1, 7, 2, 1, 1},          // nested struct truncated after tag
		{1, 1, 7, 3, 3, 1, 5, 0xaa}, // list element truncated value
		{1, 1, 7, 3, 1, 1},          // list element truncated after tag
		{1, 1, 7, 3, 3, 2, 1, 0xaa}, // list element short float
		{1, 1, 7, 2, 3, 2, 1, 0xaa}, // nested short float
	} {
		var l hL
		err := Unmarshal(in, &l)
		fmt.Printf("%v -> %+v err=%v\n", in, l, err)
	}
}

package tlv8

import (
	"fmt"
	"math/rand"
	"reflect"
	"testing"
)

func TestHunt4ProbeTopSlice(t *testing.T) {
	in := []hOne{{"a"}, {"b"}}
	b, err := Marshal(in)
	fmt.Printf("%v %v\n", b, err)
	out := make([]hOne, 2)
	err = Unmarshal(b, &out)
	fmt.Printf("%+v %v\n", out, err)
	in2 := []hLeaf{{1, 2}, {3, 4}}
	b, err = Marshal(in2)
	fmt.Printf("%v %v\n", b, err)
	out2 := make([]hLeaf, 2)
	err = Unmarshal(b, &out2)
	fmt.Printf("%+v %v\n", out2, err)
}

func TestHunt4ProbeArbitrary(t *testing.T) {
	r := rand.New(rand.NewSource(9))
	for it := 0; it < 300000; it++ {
		l := r.Intn(30)
		b := make([]byte, l)
		for i := range b {
			switch r.Intn(3) {
			case 0:
				b[i] = byte(r.Intn(12))
			case 1:
				b[i] = byte(r.Intn(4))
			default:
				b[i] = byte(r.Intn(256))
			}
		}
		for _, v := range []interface{}{&hOuter{}, &hNest{}, &hScalars{}, &hTwo{}, &[]hTwo{{}, {}}} {
			func() {
				defer func() {
					if p := recover(); p != nil {
						t.Fatalf("panic %v on %x into %v", p, b, reflect.TypeOf(v))
					}
				}()
				Unmarshal(b, v)
			}()
		}
	}
}

package tlv8

import (
	"io"
	"reflect"
	"testing"
)

// BORDERLINE demonstrations for C16 (struct codec tlv8/, not the util container).
//
// Clause: "Parsing arbitrary bytes either succeeds or returns an error" with the
// quantifier's "all byte strings as parser input (including truncated items)".
// The util container and the top level of tlv8.Unmarshal report a truncated item
// as an error. The same truncated item inside a list element (or, for a tag without
// a length byte, inside a nested struct) is dropped and Unmarshal returns nil;
// for a short float32 (the case fix 9e5ae4f rejects) the outcome depends on whether
// any unread item is left in the enclosing struct.

type zzV struct {
	W uint16  `tlv8:"1"`
	F float32 `tlv8:"2"`
}

type zzL struct {
	Id   byte  `tlv8:"1"`
	One  zzV   `tlv8:"2"`
	Many []zzV `tlv8:"3"`
}

func TestHunt4TruncatedNestedItemIsNotReported(t *testing.T) {
	cases := []struct {
		name string
		in   []byte
	}{
		{"nested struct: tag without length", []byte{1, 1, 7, 2, 1, 1}},
		{"list element: value shorter than its length", []byte{1, 1, 7, 3, 3, 1, 5, 0xaa}},
		{"list element: tag without length", []byte{1, 1, 7, 3, 1, 1}},
		{"list element: float32 of one byte, last item", []byte{1, 1, 7, 3, 3, 2, 1, 0xaa}},
	}
	for _, c := range cases {
		var l zzL
		err := Unmarshal(c.in, &l)
		if err == nil {
			t.Errorf("%s: % x: Unmarshal returned nil and %+v (the malformed item is silently dropped)", c.name, c.in, l)
		}
	}

	// control: the same payloads are errors at the top level ...
	for _, in := range [][]byte{{1}, {1, 5, 0xaa}, {2, 1, 0xaa}} {
		var v zzV
		if err := Unmarshal(in, &v); err == nil {
			t.Errorf("control % x: expected an error", in)
		}
	}
	// ... and the short float32 in a list element is an error as soon as one more
	// (unknown) item follows it
	var l zzL
	if err := Unmarshal([]byte{1, 1, 7, 3, 3, 2, 1, 0xaa, 9, 1, 0}, &l); err == nil {
		t.Errorf("control: expected an error")
	}
}

// Clause: "serialising ... and parsing it back yields the same value for every tag".
// Marshal accepts a slice at the top level (upstream TestUnmarshalList does that) but
// writes the elements without the 00 00 delimiter, so two single-field elements become
// one fragmented value for any TLV8 parser, and Unmarshal into a slice never decodes
// anything: nil error and nothing for an empty slice, an error for a slice with room.
func TestHunt4TopLevelSliceDoesNotRoundTrip(t *testing.T) {
	type Object struct {
		Id byte `tlv8:"1"`
	}
	in := []Object{{1}, {2}}
	b, err := Marshal(in)
	if err != nil {
		t.Fatal(err)
	}
	t.Logf("encoded: % x", b)
	if r, err := newReader(bytesReader(b)); err != nil || len(r.m[1]) != 2 {
		t.Errorf("hc's own reader sees %d value(s) for tag 1 in % x, want 2 (err=%v)", len(r.m[1]), b, err)
	}

	var out []Object
	if err := Unmarshal(b, &out); err != nil {
		t.Errorf("Unmarshal into empty slice: %v", err)
	} else if !reflect.DeepEqual(in, out) {
		t.Errorf("Unmarshal into empty slice: nil error, got %+v want %+v", out, in)
	}
	out = make([]Object, 2)
	if err := Unmarshal(b, &out); err != nil {
		t.Errorf("Unmarshal into slice of 2: %v", err)
	} else if !reflect.DeepEqual(in, out) {
		t.Errorf("Unmarshal into slice of 2: got %+v want %+v", out, in)
	}
}

func bytesReader(b []byte) *bytesR { return &bytesR{b} }

type bytesR struct{ b []byte }

func (r *bytesR) Read(p []byte) (int, error) {
	if len(r.b) == 0 {
		return 0, io.EOF
	}
	n := copy(p, r.b)
	r.b = r.b[n:]
	return n, nil
}

package accessory

import (
	"encoding/json"
	"testing"
)

// C14, clause "The attribute database served to controllers is well-formed HAP
// JSON (... every characteristic [carries] its format ...)".
//
// HAP (R2, 6.3.3 "Characteristic Properties", table of the "format" property)
// knows exactly these format strings:
//
//	bool uint8 uint16 uint32 uint64 int float string tlv8 data
//
// The signed 32-bit integer is "int".  The library writes "int32" (the name
// the format has in gen/metadata.json, the simulator's metadata, not on the
// wire) for Brightness, RotationDirection and the six tilt angles, so the
// database of NewColoredLightbulb, NewTelevision and of every accessory with
// a Lightbulb (brightness), Fan, Slat, WindowCovering ... service carries a
// format that is not a HAP format.
//
// Input: the library's own accessory constructors, one container, the JSON
// which GET /accessories serves (hap/http/accessories.go marshals the
// container as it is).
func TestZZHunt4FormatsAreHAPFormats(t *testing.T) {
	hapFormats := map[string]bool{
		"bool": true, "uint8": true, "uint16": true, "uint32": true, "uint64": true,
		"int": true, "float": true, "string": true, "tlv8": true, "data": true,
	}

	info := Info{Name: "x"}
	cont := NewContainer()
	for _, a := range []*Accessory{
		NewBridge(info).Accessory,
		NewColoredLightbulb(info).Accessory,
		NewTelevision(info).Accessory,
		NewSwitch(info).Accessory,
	} {
		if err := cont.AddAccessory(a); err != nil {
			t.Fatal(err)
		}
	}

	b, err := json.Marshal(cont)
	if err != nil {
		t.Fatal(err)
	}

	var db struct {
		Accessories []struct {
			Aid      uint64 `json:"aid"`
			Services []struct {
				Type            string `json:"type"`
				Characteristics []struct {
					Iid    uint64  `json:"iid"`
					Type   string  `json:"type"`
					Format *string `json:"format"`
				} `json:"characteristics"`
			} `json:"services"`
		} `json:"accessories"`
	}
	if err := json.Unmarshal(b, &db); err != nil {
		t.Fatal(err)
	}

	for _, a := range db.Accessories {
		for _, s := range a.Services {
			for _, c := range s.Characteristics {
				if c.Format == nil {
					t.Errorf("aid %d iid %d (type %s): no format", a.Aid, c.Iid, c.Type)
				} else if !hapFormats[*c.Format] {
					t.Errorf("aid %d iid %d (service %s, characteristic %s): format %q is not a HAP format", a.Aid, c.Iid, s.Type, c.Type, *c.Format)
				}
			}
		}
	}
}

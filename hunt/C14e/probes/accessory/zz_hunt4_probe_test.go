package accessory

import (
	"encoding/json"
	"fmt"
	"sort"
	"testing"

	"github.com/brutella/hc/characteristic"
	"github.com/brutella/hc/service"
)

var zzFormats = map[string]bool{"string": true, "bool": true, "float": true, "uint8": true, "uint16": true, "uint32": true, "uint64": true, "int": true, "data": true, "tlv8": true}
var zzPerms = map[string]bool{"pr": true, "pw": true, "ev": true, "aa": true, "tw": true, "hd": true, "wr": true}

func zzCheckCharJSON(m map[string]interface{}) []string {
	var errs []string
	if _, ok := m["iid"]; !ok {
		errs = append(errs, "no iid")
	} else if n, _ := m["iid"].(json.Number); n == "" || n == "0" {
		errs = append(errs, fmt.Sprintf("bad iid %v", m["iid"]))
	}
	if t, ok := m["type"].(string); !ok || t == "" {
		errs = append(errs, fmt.Sprintf("bad type %v", m["type"]))
	}
	if f, ok := m["format"].(string); !ok || !zzFormats[f] {
		errs = append(errs, fmt.Sprintf("bad format %v", m["format"]))
	}
	ps, ok := m["perms"].([]interface{})
	if !ok || len(ps) == 0 {
		errs = append(errs, fmt.Sprintf("bad perms %v", m["perms"]))
	}
	seen := map[string]bool{}
	for _, p := range ps {
		s, ok := p.(string)
		if !ok || !zzPerms[s] {
			errs = append(errs, fmt.Sprintf("bad perm %v", p))
		}
		if seen[s] {
			errs = append(errs, fmt.Sprintf("dup perm %v", p))
		}
		seen[s] = true
	}
	return errs
}

func zzCheckContainerJSON(b []byte) []string {
	var errs []string
	var top map[string]interface{}
	dec := json.NewDecoder(bytesReader(b))
	dec.UseNumber()
	if err := dec.Decode(&top); err != nil {
		return []string{err.Error()}
	}
	accs, ok := top["accessories"].([]interface{})
	if !ok {
		return []string{"no accessories array"}
	}
	aids := map[string]bool{}
	for _, ai := range accs {
		a := ai.(map[string]interface{})
		aid, _ := a["aid"].(json.Number)
		if aid == "" || aid == "0" {
			errs = append(errs, fmt.Sprintf("bad aid %v", a["aid"]))
		}
		if aids[string(aid)] {
			errs = append(errs, fmt.Sprintf("dup aid %v", aid))
		}
		aids[string(aid)] = true
		iids := map[string]bool{}
		svcs, ok := a["services"].([]interface{})
		if !ok {
			errs = append(errs, fmt.Sprintf("aid %v: services %v", aid, a["services"]))
			continue
		}
		for _, si := range svcs {
			s := si.(map[string]interface{})
			iid, _ := s["iid"].(json.Number)
			if iid == "" || iid == "0" {
				errs = append(errs, fmt.Sprintf("aid %v: bad service iid %v", aid, s["iid"]))
			}
			if iids[string(iid)] {
				errs = append(errs, fmt.Sprintf("aid %v: dup iid %v", aid, iid))
			}
			iids[string(iid)] = true
			if t, ok := s["type"].(string); !ok || t == "" {
				errs = append(errs, fmt.Sprintf("aid %v iid %v: bad type %v", aid, iid, s["type"]))
			}
			cs, ok := s["characteristics"].([]interface{})
			if !ok {
				errs = append(errs, fmt.Sprintf("aid %v iid %v: characteristics %v", aid, iid, s["characteristics"]))
				continue
			}
			for _, ci := range cs {
				c := ci.(map[string]interface{})
				ciid, _ := c["iid"].(json.Number)
				if iids[string(ciid)] {
					errs = append(errs, fmt.Sprintf("aid %v: dup iid %v", aid, ciid))
				}
				iids[string(ciid)] = true
				for _, e := range zzCheckCharJSON(c) {
					errs = append(errs, fmt.Sprintf("aid %v iid %v (%v): %s", aid, ciid, c["type"], e))
				}
			}
		}
		for _, si := range svcs {
			s := si.(map[string]interface{})
			if l, ok := s["linked"]; ok {
				for _, x := range l.([]interface{}) {
					n := x.(json.Number)
					if !iids[string(n)] {
						errs = append(errs, fmt.Sprintf("aid %v: linked %v is no instance id of the accessory", aid, n))
					}
				}
			}
		}
	}
	return errs
}

func TestZZProbeAllChars(t *testing.T) {
	names := []string{}
	for n := range zzAllChars {
		names = append(names, n)
	}
	sort.Strings(names)
	for _, n := range names {
		c := zzAllChars[n]()
		s := service.New("X")
		s.AddCharacteristic(c)
		a := New(Info{Name: "x"}, TypeOther)
		a.AddService(s)
		cont := NewContainer()
		cont.AddAccessory(a)
		b, err := json.Marshal(cont)
		if err != nil {
			t.Errorf("%s: %v", n, err)
			continue
		}
		for _, e := range zzCheckContainerJSON(b) {
			t.Errorf("%s: %s", n, e)
		}
	}
}

func TestZZProbeAllSvcs(t *testing.T) {
	names := []string{}
	for n := range zzAllSvcs {
		names = append(names, n)
	}
	sort.Strings(names)
	cont := NewContainer()
	for _, n := range names {
		s := zzAllSvcs[n]()
		a := New(Info{Name: "x"}, TypeOther)
		a.AddService(s)
		cont.AddAccessory(a)
		if s.Type == "" {
			t.Errorf("%s: no type", n)
		}
		if len(s.Characteristics) == 0 {
			t.Logf("%s: no characteristics", n)
		}
	}
	b, err := json.Marshal(cont)
	if err != nil {
		t.Fatal(err)
	}
	for _, e := range zzCheckContainerJSON(b) {
		t.Errorf("%s", e)
	}
}

func TestZZProbeAccessoryCtors(t *testing.T) {
	info := Info{Name: "x"}
	accs := map[string]*Accessory{
		"Bridge":  NewBridge(info).Accessory,
		"Camera":  NewCamera(info).Accessory,
		"CLB":     NewColoredLightbulb(info).Accessory,
		"LB":      NewLightbulb(info).Accessory,
		"Outlet":  NewOutlet(info).Accessory,
		"Switch":  NewSwitch(info).Accessory,
		"TV":      NewTelevision(info).Accessory,
		"Temp":    NewTemperatureSensor(info, 20, 0, 100, 1).Accessory,
		"Thermo":  NewThermostat(info, 20, 0, 100, 1).Accessory,
		"Window":  NewWindow(info, 3).Accessory,
		"Window0": NewWindow(info, 0).Accessory,
	}
	for n, a := range accs {
		cont := NewContainer()
		if err := cont.AddAccessory(a); err != nil {
			t.Errorf("%s: %v", n, err)
		}
		b, _ := json.Marshal(cont)
		for _, e := range zzCheckContainerJSON(b) {
			t.Errorf("%s: %s", n, e)
		}
	}
}

var _ = characteristic.PermRead

package accessory

import (
	"encoding/json"
	"fmt"
	"math/rand"
	"sort"
	"strings"
	"testing"

	"github.com/brutella/hc/service"
)

func zzBuild(seed int64) (*Container, []error) {
	r := rand.New(rand.NewSource(seed))
	names := []string{}
	for n := range zzAllSvcs {
		names = append(names, n)
	}
	sort.Strings(names)
	cont := NewContainer()
	var errs []error
	n := 1 + r.Intn(40)
	for i := 0; i < n; i++ {
		info := Info{Name: fmt.Sprint("a", i)}
		switch r.Intn(4) {
		case 0:
			info.ID = uint64(1 + r.Intn(2*n))
		case 1:
			info.ID = uint64(r.Int63())
		}
		var a *Accessory
		switch r.Intn(12) {
		case 0:
			a = NewBridge(info).Accessory
		case 1:
			a = NewCamera(info).Accessory
		case 2:
			a = NewColoredLightbulb(info).Accessory
		case 3:
			a = NewLightbulb(info).Accessory
		case 4:
			a = NewOutlet(info).Accessory
		case 5:
			a = NewSwitch(info).Accessory
		case 6:
			a = NewTelevision(info).Accessory
		case 7:
			a = NewTemperatureSensor(info, 20, 0, 100, 1).Accessory
		case 8:
			a = NewThermostat(info, 20, 0, 100, 1).Accessory
		case 9:
			a = NewWindow(info, 3).Accessory
		default:
			a = New(info, TypeOther)
		}
		k := r.Intn(6)
		var added []*service.Service
		for j := 0; j < k; j++ {
			s := zzAllSvcs[names[r.Intn(len(names))]]()
			s.Hidden = r.Intn(3) == 0
			s.Primary = r.Intn(3) == 0
			if len(added) > 0 && r.Intn(2) == 0 {
				s.AddLinkedService(added[r.Intn(len(added))])
			}
			if len(added) > 0 && r.Intn(3) == 0 {
				added[r.Intn(len(added))].AddLinkedService(s)
			}
			a.AddService(s)
			added = append(added, s)
		}
		if err := cont.AddAccessory(a); err != nil {
			errs = append(errs, err)
		}
	}
	return cont, errs
}

func TestZZProbeRandom(t *testing.T) {
	for seed := int64(0); seed < 300; seed++ {
		c1, _ := zzBuild(seed)
		c2, _ := zzBuild(seed)
		b1, err := json.Marshal(c1)
		if err != nil {
			t.Fatal(err)
		}
		b2, _ := json.Marshal(c2)
		if string(b1) != string(b2) {
			t.Errorf("seed %d: rebuild differs", seed)
		}
		for _, e := range zzCheckContainerJSON(b1) {
			if strings.Contains(e, "int32") {
				continue
			}
			t.Errorf("seed %d: %s", seed, e)
		}
		// Go objects
		aids := map[uint64]bool{}
		for _, a := range c1.Accessories {
			if a.ID == 0 || aids[a.ID] {
				t.Errorf("seed %d: aid %d", seed, a.ID)
			}
			aids[a.ID] = true
			iids := map[uint64]bool{}
			for _, s := range a.Services {
				if s.ID == 0 || iids[s.ID] {
					t.Errorf("seed %d: iid %d", seed, s.ID)
				}
				iids[s.ID] = true
				for _, c := range s.Characteristics {
					if c.ID == 0 || iids[c.ID] {
						t.Errorf("seed %d: iid %d", seed, c.ID)
					}
					iids[c.ID] = true
				}
			}
		}
	}
}

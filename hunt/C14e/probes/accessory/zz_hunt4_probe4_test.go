package accessory

import (
	"encoding/json"
	"sort"
	"testing"
)

func TestZZProbeValues(t *testing.T) {
	names := []string{}
	for n := range zzAllChars {
		names = append(names, n)
	}
	sort.Strings(names)
	for _, n := range names {
		c := zzAllChars[n]()
		b, _ := json.Marshal(c)
		var m map[string]interface{}
		json.Unmarshal(b, &m)
		readable := false
		for _, p := range c.Perms {
			if p == "pr" {
				readable = true
			}
		}
		v, has := m["value"]
		if readable && !has {
			t.Errorf("%s: readable, no value: %s", n, b)
		}
		if !readable && has {
			t.Errorf("%s: not readable but value: %s", n, b)
		}
		if has {
			switch c.Format {
			case "string", "tlv8", "data":
				if _, ok := v.(string); !ok {
					t.Errorf("%s: value %T for %s", n, v, c.Format)
				}
			case "bool":
				if _, ok := v.(bool); !ok {
					t.Errorf("%s: value %T for %s", n, v, c.Format)
				}
			default:
				f, ok := v.(float64)
				if !ok {
					t.Errorf("%s: value %T for %s", n, v, c.Format)
				}
				if mn, ok := m["minValue"].(float64); ok && f < mn {
					t.Errorf("%s: value below min: %s", n, b)
				}
				if mx, ok := m["maxValue"].(float64); ok && f > mx {
					t.Errorf("%s: value above max: %s", n, b)
				}
			}
		}
		for _, k := range []string{"minValue", "maxValue", "minStep"} {
			if x, ok := m[k]; ok {
				if _, ok := x.(float64); !ok {
					t.Errorf("%s: %s is %T", n, k, x)
				}
				if c.Format == "string" || c.Format == "bool" || c.Format == "tlv8" || c.Format == "data" {
					t.Errorf("%s: %s on %s", n, k, c.Format)
				}
			}
		}
		if _, ok := m["maxLen"]; ok && c.Format != "string" {
			t.Errorf("%s: maxLen on %s", n, c.Format)
		}
		if u, ok := m["unit"].(string); ok {
			switch u {
			case "celsius", "percentage", "arcdegrees", "lux", "seconds":
			default:
				t.Errorf("%s: unit %q", n, u)
			}
		}
	}
}

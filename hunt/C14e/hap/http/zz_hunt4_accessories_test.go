package http

import (
	"encoding/json"
	"net"
	"net/http"
	"net/http/httptest"
	"sync"
	"testing"

	"github.com/brutella/hc/accessory"
	"github.com/brutella/hc/crypto"
	"github.com/brutella/hc/event"
	"github.com/brutella/hc/hap"
)

// C14, clause "The attribute database served to controllers is well-formed HAP
// JSON (... every characteristic its format ...)", observed in the body of
// GET /accessories on a pair-verified connection.
//
// HAP R2 6.3.3: the value of "format" is one of
// bool uint8 uint16 uint32 uint64 int float string tlv8 data.
// The served database of accessory.NewColoredLightbulb has "int32" for the
// brightness characteristic (type 8).
func TestZZHunt4ServedFormatsAreHAPFormats(t *testing.T) {
	hapFormats := map[string]bool{
		"bool": true, "uint8": true, "uint16": true, "uint32": true, "uint64": true,
		"int": true, "float": true, "string": true, "tlv8": true, "data": true,
	}

	cont := accessory.NewContainer()
	info := accessory.Info{Name: "x"}
	cont.AddAccessory(accessory.NewBridge(info).Accessory)
	for i := 0; i < 30; i++ {
		cont.AddAccessory(accessory.NewColoredLightbulb(info).Accessory)
	}

	ctx := hap.NewContextForSecuredDevice(nil)
	srv := testable(Config{Context: ctx, Container: cont, Mutex: &sync.Mutex{}, Emitter: event.NewEmitter()})

	// a pair-verified connection
	c1, c2 := net.Pipe()
	defer c1.Close()
	defer c2.Close()
	sess := hap.NewSession(c1)
	cg, err := crypto.NewSecureSessionFromSharedKey([32]byte{1})
	if err != nil {
		t.Fatal(err)
	}
	sess.SetCryptographer(cg)
	sess.Decrypter() // the first read after pair-verify installs the keys

	r := httptest.NewRequest("GET", "/accessories", nil)
	ctx.Set(ctx.GetConnectionKey(r), sess)

	w := httptest.NewRecorder()
	srv.Mux.ServeHTTP(w, r)
	if w.Code != http.StatusOK {
		t.Fatal(w.Code, w.Body.String())
	}
	if ct := w.Header().Get("Content-Type"); ct != "application/hap+json" {
		t.Errorf("content type %q", ct)
	}

	var db struct {
		Accessories []struct {
			Aid      uint64 `json:"aid"`
			Services []struct {
				Iid             uint64 `json:"iid"`
				Type            string `json:"type"`
				Characteristics []struct {
					Iid    uint64   `json:"iid"`
					Type   string   `json:"type"`
					Format *string  `json:"format"`
					Perms  []string `json:"perms"`
				} `json:"characteristics"`
			} `json:"services"`
		} `json:"accessories"`
	}
	if err := json.Unmarshal(w.Body.Bytes(), &db); err != nil {
		t.Fatal(err)
	}
	if len(db.Accessories) != 31 {
		t.Fatal(len(db.Accessories))
	}

	bad := 0
	for _, a := range db.Accessories {
		for _, s := range a.Services {
			for _, c := range s.Characteristics {
				f := "(absent)"
				if c.Format != nil {
					f = *c.Format
				}
				if !hapFormats[f] {
					bad++
					if bad <= 3 {
						t.Errorf("aid %d iid %d (service %s, characteristic %s): format %q is not a HAP format", a.Aid, c.Iid, s.Type, c.Type, f)
					}
				}
			}
		}
	}
	if bad > 3 {
		t.Errorf("... %d characteristics in all", bad)
	}
}

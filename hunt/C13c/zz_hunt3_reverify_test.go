package hc

import (
	"testing"
)

func TestZZSetupOnVerifiedConnection(t *testing.T) {
	a := zzStartAcc(t)
	defer a.stop()
	cl, ctrl := zzPairedClient(t, a, "rv")
	defer cl.close()
	for i := 0; i < 3; i++ {
		if err := zzPairVerify(cl, ctrl); err != nil {
			t.Fatalf("re-verify %d: %v", i, err)
		}
		r, err := cl.do("GET", "/accessories", "", nil)
		if err != nil || r.status != 200 {
			t.Fatalf("after re-verify %d: %v %v", i, r, err)
		}
		err, rej := zzRetryOnce(func() error { return zzPairSetup(cl, zzNewCtrl("second"), a.pin) })
		if err != nil {
			t.Fatalf("pair-setup on the verified connection (%d rejected): %v", rej, err)
		}
	}
	if p := a.panics(); p != "" {
		t.Fatal(p)
	}
}

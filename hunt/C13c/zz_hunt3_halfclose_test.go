package hc

import (
	"fmt"
	"net"
	"testing"
	"time"
)

// Clause: "Each such message is answered with a well-formed response ... rather
// than a dropped connection" (quantifier: histories; every endpoint, before or
// after verification).
//
// History: a controller sends a complete, correct request and then shuts down
// its sending direction (TCP half-close, FIN) while it waits for the answer:
// a valid way to say "this was my last request". On a connection that is not
// verified the accessory answers such a request (control below). After
// pair-verify the read which net/http keeps pending during the handler sees the
// end of the stream; DecryptedRead treats this io.EOF like a forged frame and
// closes the socket under the handler, whose answer is then never sent. The
// request is executed all the same (a PUT changes the value), the controller
// only sees the connection go away.
//
// The outcome is a race between that pending read and the handler; a handler
// that takes longer than some microseconds always loses. The test uses an
// application callback of 20 ms (switching hardware), and reports the rate for
// GET /accessories without any callback.
func TestZZHalfCloseAfterRequest(t *testing.T) {
	a := zzStartAcc(t)
	defer a.stop()
	cl0, ctrl := zzPairedClient(t, a, "hc")
	cl0.close()

	a.bulb.OnIdentify(func() { time.Sleep(20 * time.Millisecond) })
	a.bulb.Lightbulb.On.OnValueRemoteUpdate(func(on bool) { time.Sleep(20 * time.Millisecond) })

	// control: the same history on a connection which is not verified, with a
	// handler that takes as long, is answered
	for i := 0; i < 5; i++ {
		c, err := net.DialTimeout("tcp", a.addr, 3*time.Second)
		if err != nil {
			t.Fatal(err)
		}
		cl := zzWrap(c)
		cl.writeRaw([]byte("POST /identify HTTP/1.1\r\nHost: x\r\nContent-Length: 0\r\n\r\n"))
		c.(*net.TCPConn).CloseWrite()
		resp, err := cl.readResp("POST")
		if err != nil || resp.status != 204 {
			t.Fatalf("control (POST /identify and half-close on an unverified connection): %v %v", resp, err)
		}
		c.Close()
	}

	verified := func() (*zzClient, *net.TCPConn) {
		c, err := net.DialTimeout("tcp", a.addr, 3*time.Second)
		if err != nil {
			t.Fatal(err)
		}
		cl := zzWrap(c)
		if err := zzPairVerify(cl, ctrl); err != nil {
			t.Fatal(err)
		}
		if resp, err := cl.do("GET", "/accessories", "", nil); err != nil || resp.status != 200 {
			t.Fatalf("%v %v", resp, err)
		}
		return cl, c.(*net.TCPConn)
	}

	onID := a.bulb.Lightbulb.On.ID
	const rounds = 10
	failed := 0
	for i := 0; i < rounds; i++ {
		cl, c := verified()
		want := i%2 == 0
		body := fmt.Sprintf(`{"characteristics":[{"aid":1,"iid":%d,"value":%v}]}`, onID, want)
		req := fmt.Sprintf("PUT /characteristics HTTP/1.1\r\nHost: x\r\nContent-Type: application/hap+json\r\nContent-Length: %d\r\n\r\n%s", len(body), body)
		if err := cl.writeRaw([]byte(req)); err != nil {
			t.Fatal(err)
		}
		c.CloseWrite()
		resp, err := cl.readResp("PUT")
		time.Sleep(30 * time.Millisecond)
		executed := a.bulb.Lightbulb.On.GetValue() == want
		if err != nil {
			failed++
			if failed == 1 {
				t.Errorf("PUT /characteristics followed by a half-close on a verified connection is not answered: %v (the write was executed: %v)", err, executed)
			}
		} else if resp.status != 204 {
			t.Errorf("round %d: status %d", i, resp.status)
		}
		c.Close()
	}
	if failed > 0 {
		t.Errorf("PUT with a 20 ms callback: %d of %d requests were not answered", failed, rounds)
	}

	failed = 0
	for i := 0; i < 50; i++ {
		cl, c := verified()
		cl.writeRaw([]byte("GET /accessories HTTP/1.1\r\nHost: x\r\n\r\n"))
		c.CloseWrite()
		if resp, err := cl.readResp("GET"); err != nil || resp.status != 200 {
			failed++
		}
		c.Close()
	}
	if failed > 0 {
		t.Errorf("GET /accessories, no callback involved: %d of 50 requests were not answered", failed)
	}
	if p := a.panics(); p != "" {
		t.Errorf("panic: %s", p)
	}
}

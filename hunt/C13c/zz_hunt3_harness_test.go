package hc

// Harness for the C13 hunt: a real ipTransport on loopback and a reference
// controller (pair-setup, pair-verify, encrypted session) written against the
// exported crypto helpers.

import (
	"bufio"
	"bytes"
	"encoding/binary"
	"errors"
	"fmt"
	"image"
	"io"
	"io/ioutil"
	stdlog "log"
	"net"
	"net/http"
	"os"
	"strings"
	"sync"
	"testing"
	"time"

	"github.com/brutella/hc/accessory"
	"github.com/brutella/hc/characteristic"
	"github.com/brutella/hc/crypto"
	"github.com/brutella/hc/crypto/chacha20poly1305"
	"github.com/brutella/hc/crypto/curve25519"
	"github.com/brutella/hc/crypto/hkdf"
	"github.com/brutella/hc/db"
	"github.com/brutella/hc/hap"
	"github.com/brutella/hc/hap/pair"
	hclog "github.com/brutella/hc/log"
	"github.com/brutella/hc/util"
)

type syncBuf struct {
	mu sync.Mutex
	b  bytes.Buffer
}

func (s *syncBuf) Write(p []byte) (int, error) {
	s.mu.Lock()
	defer s.mu.Unlock()
	return s.b.Write(p)
}
func (s *syncBuf) String() string {
	s.mu.Lock()
	defer s.mu.Unlock()
	return s.b.String()
}
func (s *syncBuf) Reset() {
	s.mu.Lock()
	defer s.mu.Unlock()
	s.b.Reset()
}

type zzAcc struct {
	tr      *ipTransport
	addr    string
	pin     string
	name    string
	httpLog *syncBuf // what net/http logs: "http: panic serving"
	bulb    *accessory.Lightbulb
	thermo  *accessory.Thermostat
	dir     string
}

var zzStdout *os.File
var zzCustomFormat *string

func zzQuiet() {
	hclog.Info.SetOutput(ioutil.Discard)
	hclog.Debug.SetOutput(ioutil.Discard)
	if zzStdout == nil {
		// the client controllers of the library print with fmt.Println
		zzStdout = os.Stdout
		null, _ := os.OpenFile(os.DevNull, os.O_WRONLY, 0)
		os.Stdout = null
	}
}

func zzStartAccIn(t testing.TB, dir string, camera bool) *zzAcc {
	zzQuiet()
	a := &zzAcc{pin: "001-02-003", name: "ZZ Acc", httpLog: &syncBuf{}, dir: dir}
	stdlog.SetOutput(a.httpLog)
	a.bulb = accessory.NewLightbulb(accessory.Info{Name: a.name})
	if zzCustomFormat != nil {
		c := characteristic.NewCharacteristic("F0000001-0000-1000-8000-0026BB765291")
		c.Format = *zzCustomFormat
		c.Perms = characteristic.PermsAll()
		c.Value = 0
		a.bulb.Lightbulb.AddCharacteristic(c)
		a.bulb.UpdateIDs()
	}
	a.thermo = accessory.NewThermostat(accessory.Info{Name: "Thermo"}, 20, 10, 30, 0.5)
	tr, err := NewIPTransport(Config{StoragePath: dir, Pin: "00102003"}, a.bulb.Accessory, a.thermo.Accessory)
	if err != nil {
		t.Fatal(err)
	}
	if camera {
		tr.CameraSnapshotReq = func(w, h uint) (*image.Image, error) {
			if w > 4000 || h > 4000 {
				return nil, errors.New("too large")
			}
			var img image.Image = image.NewRGBA(image.Rect(0, 0, int(w), int(h)))
			return &img, nil
		}
	}
	a.tr = tr
	go tr.Start()
	for i := 0; i < 200; i++ {
		time.Sleep(10 * time.Millisecond)
		if tr.server != nil && tr.server.Port() != "" {
			break
		}
	}
	time.Sleep(20 * time.Millisecond)
	a.addr = "127.0.0.1:" + tr.server.Port()
	return a
}

func zzStartAcc(t testing.TB) *zzAcc {
	return zzStartAccIn(t, t.TempDir(), true)
}

func (a *zzAcc) stop() {
	select {
	case <-a.tr.Stop():
	case <-time.After(3 * time.Second):
	}
}

func (a *zzAcc) panics() string {
	s := a.httpLog.String()
	if i := strings.Index(s, "panic"); i >= 0 {
		end := i + 3000
		if end > len(s) {
			end = len(s)
		}
		return s[i:end]
	}
	return ""
}

// ---- client ----

type zzClient struct {
	c       net.Conn
	br      *bufio.Reader
	sess    crypto.Cryptographer // nil while plain
	alt     crypto.Cryptographer // the session being negotiated: the accessory may answer M4 under it already (known hand-over race)
	raced   int
	timeout time.Duration
	events  int
}

func zzDial(t testing.TB, a *zzAcc) *zzClient {
	c, err := net.DialTimeout("tcp", a.addr, 3*time.Second)
	if err != nil {
		t.Fatalf("dial: %v", err)
	}
	cl := &zzClient{c: c, timeout: 5 * time.Second}
	cl.br = bufio.NewReader(&zzConnReader{cl: cl})
	return cl
}

func zzWrap(c net.Conn) *zzClient {
	cl := &zzClient{c: c, timeout: 5 * time.Second}
	cl.br = bufio.NewReader(&zzConnReader{cl: cl})
	return cl
}

func (cl *zzClient) close() { cl.c.Close() }

// zzConnReader hands out plain text: the socket's bytes, or decrypted frames
type zzConnReader struct {
	cl  *zzClient
	raw *bufio.Reader
	buf bytes.Buffer
}

func (r *zzConnReader) Read(p []byte) (int, error) {
	if r.buf.Len() > 0 {
		return r.buf.Read(p)
	}
	if r.raw == nil {
		r.raw = bufio.NewReader(r.cl.c)
	}
	if r.cl.sess == nil {
		if r.cl.alt == nil {
			return r.raw.Read(p)
		}
		b, err := r.raw.Peek(4)
		if err != nil {
			return 0, err
		}
		if string(b) == "HTTP" || string(b) == "EVEN" {
			return r.raw.Read(p)
		}
		r.cl.sess, r.cl.alt = r.cl.alt, nil
		r.cl.raced++
	}
	var hdr [2]byte
	if _, err := io.ReadFull(r.raw, hdr[:]); err != nil {
		return 0, err
	}
	n := int(binary.LittleEndian.Uint16(hdr[:]))
	frame := make([]byte, 2+n+16)
	copy(frame, hdr[:])
	if _, err := io.ReadFull(r.raw, frame[2:]); err != nil {
		return 0, err
	}
	dec, err := r.cl.sess.Decrypt(bytes.NewReader(frame))
	if err != nil && r.cl.alt != nil {
		if dec2, err2 := r.cl.alt.Decrypt(bytes.NewReader(frame)); err2 == nil {
			r.cl.sess, r.cl.alt = r.cl.alt, nil
			r.cl.raced++
			dec, err = dec2, nil
		}
	}
	if err != nil {
		return 0, err
	}
	io.Copy(&r.buf, dec)
	return r.buf.Read(p)
}

func (cl *zzClient) writeRaw(b []byte) error {
	cl.c.SetWriteDeadline(time.Now().Add(cl.timeout))
	if cl.sess != nil {
		enc, err := cl.sess.Encrypt(bytes.NewReader(b))
		if err != nil {
			return err
		}
		b, _ = ioutil.ReadAll(enc)
	}
	_, err := cl.c.Write(b)
	return err
}

type zzResp struct {
	status int
	header http.Header
	body   []byte
}

// readResp reads one HTTP response, skipping EVENT messages
func (cl *zzClient) readResp(method string) (*zzResp, error) {
	for {
		cl.c.SetReadDeadline(time.Now().Add(cl.timeout))
		// EVENT/1.0 is not parsed by net/http: peek the first line
		line, err := cl.br.Peek(5)
		if err != nil {
			return nil, err
		}
		isEvent := string(line) == "EVENT"
		var rd *bufio.Reader = cl.br
		if isEvent {
			// rewrite the protocol for the parser
			first, err := cl.br.ReadString('\n')
			if err != nil {
				return nil, err
			}
			first = strings.Replace(first, "EVENT/1.0", "HTTP/1.0", 1)
			rd = bufio.NewReader(io.MultiReader(strings.NewReader(first), cl.br))
		}
		resp, err := http.ReadResponse(rd, &http.Request{Method: method})
		if err != nil {
			return nil, err
		}
		body, err := ioutil.ReadAll(resp.Body)
		resp.Body.Close()
		if err != nil {
			return nil, fmt.Errorf("body: %v", err)
		}
		if isEvent {
			cl.events++
			if rd.Buffered() > 0 {
				// put back what the temporary reader took in advance
				rest, _ := rd.Peek(rd.Buffered())
				cl.br = bufio.NewReader(io.MultiReader(bytes.NewReader(append([]byte{}, rest...)), cl.br))
			}
			continue
		}
		return &zzResp{status: resp.StatusCode, header: resp.Header, body: body}, nil
	}
}

func (cl *zzClient) do(method, path, ctype string, body []byte) (*zzResp, error) {
	var b bytes.Buffer
	fmt.Fprintf(&b, "%s %s HTTP/1.1\r\nHost: zz.local\r\n", method, path)
	if ctype != "" {
		fmt.Fprintf(&b, "Content-Type: %s\r\n", ctype)
	}
	if body != nil || method == "POST" || method == "PUT" {
		fmt.Fprintf(&b, "Content-Length: %d\r\n", len(body))
	}
	b.WriteString("\r\n")
	b.Write(body)
	if err := cl.writeRaw(b.Bytes()); err != nil {
		return nil, fmt.Errorf("write: %v", err)
	}
	return cl.readResp(method)
}

func (cl *zzClient) tlv(path string, body []byte) (*zzResp, util.Container, error) {
	r, err := cl.do("POST", path, hap.HTTPContentTypePairingTLV8, body)
	if err != nil {
		return nil, nil, err
	}
	c, err := util.NewTLV8ContainerFromReader(bytes.NewReader(r.body))
	if err != nil {
		return r, nil, fmt.Errorf("response body is not tlv8: %v (% x)", err, r.body)
	}
	return r, c, nil
}

// ---- reference controller identity ----

type zzCtrl struct {
	name string
	pub  []byte
	priv []byte
	// accessory long-term public key and name, learnt in pair-setup
	accName string
	accLTPK []byte
}

func zzNewCtrl(name string) *zzCtrl {
	pub, priv, _ := crypto.ED25519GenerateKey(util.RandomHexString())
	return &zzCtrl{name: name, pub: pub, priv: priv}
}

// ---- pair-setup, step by step ----

type zzSetup struct {
	ctrl *zzCtrl
	sess *pair.SetupClientSession
}

func zzNewSetup(ctrl *zzCtrl, pin string) *zzSetup {
	return &zzSetup{ctrl: ctrl, sess: pair.NewSetupClientSession("Pair-Setup", pin)}
}

func (s *zzSetup) m1() []byte {
	out := util.NewTLV8Container()
	out.SetByte(pair.TagPairingMethod, 0)
	out.SetByte(pair.TagSequence, 1)
	return out.BytesBuffer().Bytes()
}

func (s *zzSetup) m3(m2 util.Container) ([]byte, error) {
	if m2.GetByte(pair.TagSequence) != 2 || m2.GetByte(pair.TagErrCode) != 0 {
		return nil, fmt.Errorf("M2: state %d error %d", m2.GetByte(pair.TagSequence), m2.GetByte(pair.TagErrCode))
	}
	salt := m2.GetBytes(pair.TagSalt)
	B := m2.GetBytes(pair.TagPublicKey)
	if len(salt) != 16 {
		return nil, fmt.Errorf("M2: salt of %d bytes", len(salt))
	}
	if len(B) < 380 || len(B) > 384 {
		return nil, fmt.Errorf("M2: B of %d bytes", len(B))
	}
	if err := s.sess.GenerateKeys(salt, B); err != nil {
		return nil, err
	}
	out := util.NewTLV8Container()
	out.SetByte(pair.TagPairingMethod, 0)
	out.SetByte(pair.TagSequence, 3)
	out.SetBytes(pair.TagPublicKey, s.sess.PublicKey)
	out.SetBytes(pair.TagProof, s.sess.Proof)
	return out.BytesBuffer().Bytes(), nil
}

func (s *zzSetup) m5Inner() []byte {
	hash, _ := hkdf.Sha512(s.sess.PrivateKey, []byte("Pair-Setup-Controller-Sign-Salt"), []byte("Pair-Setup-Controller-Sign-Info"))
	var material []byte
	material = append(material, hash[:]...)
	material = append(material, s.ctrl.name...)
	material = append(material, s.ctrl.pub...)
	sig, _ := crypto.ED25519Signature(s.ctrl.priv, material)
	inner := util.NewTLV8Container()
	inner.SetString(pair.TagUsername, s.ctrl.name)
	inner.SetBytes(pair.TagPublicKey, s.ctrl.pub)
	inner.SetBytes(pair.TagSignature, sig)
	return inner.BytesBuffer().Bytes()
}

func (s *zzSetup) seal5(inner []byte) []byte {
	enc, tag, _ := chacha20poly1305.EncryptAndSeal(s.sess.EncryptionKey[:], []byte("PS-Msg05"), inner, nil)
	out := util.NewTLV8Container()
	out.SetByte(pair.TagPairingMethod, 0)
	out.SetByte(pair.TagSequence, 5)
	out.SetBytes(pair.TagEncryptedData, append(enc, tag[:]...))
	return out.BytesBuffer().Bytes()
}

func (s *zzSetup) m5(m4 util.Container) ([]byte, error) {
	if m4.GetByte(pair.TagSequence) != 4 || m4.GetByte(pair.TagErrCode) != 0 {
		return nil, fmt.Errorf("M4: state %d error %d", m4.GetByte(pair.TagSequence), m4.GetByte(pair.TagErrCode))
	}
	if !s.sess.IsServerProofValid(m4.GetBytes(pair.TagProof)) {
		return nil, errors.New("M4: server proof invalid")
	}
	if err := s.sess.SetupEncryptionKey([]byte("Pair-Setup-Encrypt-Salt"), []byte("Pair-Setup-Encrypt-Info")); err != nil {
		return nil, err
	}
	return s.seal5(s.m5Inner()), nil
}

func (s *zzSetup) m6(m6 util.Container) error {
	if m6.GetByte(pair.TagSequence) != 6 || m6.GetByte(pair.TagErrCode) != 0 {
		return fmt.Errorf("M6: state %d error %d", m6.GetByte(pair.TagSequence), m6.GetByte(pair.TagErrCode))
	}
	data := m6.GetBytes(pair.TagEncryptedData)
	if len(data) < 16 {
		return fmt.Errorf("M6: %d bytes of encrypted data", len(data))
	}
	var mac [16]byte
	copy(mac[:], data[len(data)-16:])
	dec, err := chacha20poly1305.DecryptAndVerify(s.sess.EncryptionKey[:], []byte("PS-Msg06"), data[:len(data)-16], mac, nil)
	if err != nil {
		return fmt.Errorf("M6: %v", err)
	}
	in, err := util.NewTLV8ContainerFromReader(bytes.NewReader(dec))
	if err != nil {
		return err
	}
	s.ctrl.accName = in.GetString(pair.TagUsername)
	s.ctrl.accLTPK = in.GetBytes(pair.TagPublicKey)
	if len(s.ctrl.accLTPK) != 32 {
		return fmt.Errorf("M6: ltpk of %d bytes", len(s.ctrl.accLTPK))
	}
	return nil
}

// zzErrRejectedStart is returned when the start request itself was refused
var zzErrRejectedStart = errors.New("start request rejected")

// zzPairSetup runs a whole correct pair-setup on cl
func zzPairSetup(cl *zzClient, ctrl *zzCtrl, pin string) error {
	s := zzNewSetup(ctrl, pin)
	r, c, err := cl.tlv("/pair-setup", s.m1())
	if err != nil {
		return fmt.Errorf("M1: %v", err)
	}
	if r.status != 200 {
		return zzErrRejectedStart
	}
	m3, err := s.m3(c)
	if err != nil {
		return err
	}
	r, c, err = cl.tlv("/pair-setup", m3)
	if err != nil {
		return fmt.Errorf("M3: %v", err)
	}
	if r.status != 200 {
		return fmt.Errorf("M3: status %d", r.status)
	}
	m5, err := s.m5(c)
	if err != nil {
		return err
	}
	r, c, err = cl.tlv("/pair-setup", m5)
	if err != nil {
		return fmt.Errorf("M5: %v", err)
	}
	if r.status != 200 {
		return fmt.Errorf("M5: status %d", r.status)
	}
	return s.m6(c)
}

// ---- pair-verify, step by step ----

type zzVerify struct {
	ctrl   *zzCtrl
	priv   [32]byte
	pub    [32]byte
	other  [32]byte
	shared [32]byte
	key    [32]byte
}

func zzNewVerify(ctrl *zzCtrl) *zzVerify {
	v := &zzVerify{ctrl: ctrl}
	v.priv = curve25519.GeneratePrivateKey()
	v.pub = curve25519.PublicKey(v.priv)
	return v
}

func (v *zzVerify) m1() []byte {
	out := util.NewTLV8Container()
	out.SetByte(pair.TagSequence, 1)
	out.SetBytes(pair.TagPublicKey, v.pub[:])
	return out.BytesBuffer().Bytes()
}

func (v *zzVerify) m3Inner() []byte {
	var material []byte
	material = append(material, v.pub[:]...)
	material = append(material, v.ctrl.name...)
	material = append(material, v.other[:]...)
	sig, _ := crypto.ED25519Signature(v.ctrl.priv, material)
	inner := util.NewTLV8Container()
	inner.SetString(pair.TagUsername, v.ctrl.name)
	inner.SetBytes(pair.TagSignature, sig)
	return inner.BytesBuffer().Bytes()
}

func (v *zzVerify) seal3(inner []byte) []byte {
	enc, tag, _ := chacha20poly1305.EncryptAndSeal(v.key[:], []byte("PV-Msg03"), inner, nil)
	out := util.NewTLV8Container()
	out.SetByte(pair.TagSequence, 3)
	out.SetBytes(pair.TagEncryptedData, append(enc, tag[:]...))
	return out.BytesBuffer().Bytes()
}

func (v *zzVerify) m3(m2 util.Container) ([]byte, error) {
	if m2.GetByte(pair.TagSequence) != 2 || m2.GetByte(pair.TagErrCode) != 0 {
		return nil, fmt.Errorf("V-M2: state %d error %d", m2.GetByte(pair.TagSequence), m2.GetByte(pair.TagErrCode))
	}
	B := m2.GetBytes(pair.TagPublicKey)
	if len(B) != 32 {
		return nil, fmt.Errorf("V-M2: key of %d bytes", len(B))
	}
	copy(v.other[:], B)
	v.shared = curve25519.SharedSecret(v.priv, v.other)
	v.key, _ = hkdf.Sha512(v.shared[:], []byte("Pair-Verify-Encrypt-Salt"), []byte("Pair-Verify-Encrypt-Info"))
	data := m2.GetBytes(pair.TagEncryptedData)
	if len(data) < 16 {
		return nil, fmt.Errorf("V-M2: %d bytes of encrypted data", len(data))
	}
	var mac [16]byte
	copy(mac[:], data[len(data)-16:])
	dec, err := chacha20poly1305.DecryptAndVerify(v.key[:], []byte("PV-Msg02"), data[:len(data)-16], mac, nil)
	if err != nil {
		return nil, fmt.Errorf("V-M2: %v", err)
	}
	in, err := util.NewTLV8ContainerFromReader(bytes.NewReader(dec))
	if err != nil {
		return nil, err
	}
	if v.ctrl.accLTPK != nil {
		var material []byte
		material = append(material, v.other[:]...)
		material = append(material, in.GetString(pair.TagUsername)...)
		material = append(material, v.pub[:]...)
		if !crypto.ValidateED25519Signature(v.ctrl.accLTPK, material, in.GetBytes(pair.TagSignature)) {
			return nil, errors.New("V-M2: accessory signature invalid")
		}
	}
	return v.seal3(v.m3Inner()), nil
}

// zzPairVerify runs a whole correct pair-verify on cl and switches cl to the
// encrypted session
func zzPairVerify(cl *zzClient, ctrl *zzCtrl) error {
	v := zzNewVerify(ctrl)
	r, c, err := cl.tlv("/pair-verify", v.m1())
	if err != nil {
		return fmt.Errorf("V-M1: %v", err)
	}
	if r.status != 200 {
		return zzErrRejectedStart
	}
	m3, err := v.m3(c)
	if err != nil {
		return err
	}
	sess, err := crypto.NewSecureClientSessionFromSharedKey(v.shared)
	if err != nil {
		return err
	}
	cl.alt = sess
	r, c, err = cl.tlv("/pair-verify", m3)
	cl.alt = nil
	if err != nil {
		return fmt.Errorf("V-M3: %v", err)
	}
	if r.status != 200 {
		return fmt.Errorf("V-M3: status %d", r.status)
	}
	if c.GetByte(pair.TagSequence) != 4 || c.GetByte(pair.TagErrCode) != 0 {
		return fmt.Errorf("V-M4: state %d error %d", c.GetByte(pair.TagSequence), c.GetByte(pair.TagErrCode))
	}
	// give the accessory the time to flush M4 (known hand-over race)
	time.Sleep(5 * time.Millisecond)
	cl.sess = sess
	return nil
}

// zzRetryOnce runs f; when the start request was rejected it runs it once more
func zzRetryOnce(f func() error) (error, int) {
	err := f()
	if err == zzErrRejectedStart {
		return f(), 1
	}
	return err, 0
}

// zzPairedClient returns a verified connection of a freshly paired controller
func zzPairedClient(t testing.TB, a *zzAcc, name string) (*zzClient, *zzCtrl) {
	ctrl := zzNewCtrl(name)
	cl := zzDial(t, a)
	if err := zzPairSetup(cl, ctrl, a.pin); err != nil {
		t.Fatalf("pair-setup: %v", err)
	}
	cl.close()
	cl = zzDial(t, a)
	if err := zzPairVerify(cl, ctrl); err != nil {
		t.Fatalf("pair-verify: %v", err)
	}
	return cl, ctrl
}

var _ = db.NewEntity

func TestZZHarnessHonest(t *testing.T) {
	a := zzStartAcc(t)
	defer a.stop()
	cl, ctrl := zzPairedClient(t, a, "ctrl-1")
	defer cl.close()
	r, err := cl.do("GET", "/accessories", "", nil)
	if err != nil {
		t.Fatal(err)
	}
	if r.status != 200 || !bytes.Contains(r.body, []byte(`"aid"`)) {
		t.Fatalf("%d %s", r.status, r.body)
	}
	r, err = cl.do("PUT", "/characteristics", hap.HTTPContentTypeHAPJson, []byte(fmt.Sprintf(`{"characteristics":[{"aid":1,"iid":%d,"value":true}]}`, a.bulb.Lightbulb.On.ID)))
	if err != nil || r.status != 204 {
		t.Fatalf("%v %v", r, err)
	}
	if !a.bulb.Lightbulb.On.GetValue() {
		t.Fatal("not on")
	}
	// a second connection
	cl2 := zzDial(t, a)
	defer cl2.close()
	if err := zzPairVerify(cl2, ctrl); err != nil {
		t.Fatal(err)
	}
	r, err = cl2.do("GET", fmt.Sprintf("/characteristics?id=1.%d", a.bulb.Lightbulb.On.ID), "", nil)
	if err != nil || r.status != 200 {
		t.Fatalf("%v %v", r, err)
	}
	t.Logf("%s", r.body)
	if p := a.panics(); p != "" {
		t.Fatal(p)
	}
}

package rtp

import (
	"fmt"
	"math/rand"
	"testing"
	"time"

	"github.com/brutella/hc/tlv8"
)

func zzRandTLV(r *rand.Rand, depth int) []byte {
	var b []byte
	n := r.Intn(8)
	for i := 0; i < n; i++ {
		tag := byte(r.Intn(8))
		if r.Intn(10) == 0 {
			tag = byte(r.Intn(256))
		}
		var v []byte
		switch r.Intn(6) {
		case 0:
			if depth < 4 {
				v = zzRandTLV(r, depth+1)
			}
		case 1:
			v = make([]byte, r.Intn(10))
			r.Read(v)
		case 2:
			v = nil
		case 3:
			v = make([]byte, 255)
			r.Read(v)
		default:
			v = make([]byte, []int{1, 2, 3, 4, 5, 7, 8, 9}[r.Intn(8)])
			r.Read(v)
		}
		if len(v) > 255 {
			v = v[:255]
		}
		b = append(b, tag, byte(len(v)))
		b = append(b, v...)
		if r.Intn(5) == 0 {
			b = append(b, 0, 0)
		}
	}
	if r.Intn(10) == 0 && len(b) > 0 {
		b = b[:r.Intn(len(b))]
	}
	return b
}

func TestZZTLVUnmarshalFuzz(t *testing.T) {
	r := rand.New(rand.NewSource(time.Now().UnixNano()))
	for i := 0; i < 300000; i++ {
		b := zzRandTLV(r, 0)
		targets := []interface{}{&SetupEndpoints{}, &SetupEndpointsResponse{}, &StreamConfiguration{}, &StreamingStatus{}, &VideoStreamConfiguration{}, &AudioStreamConfiguration{}, &Configuration{}}
		for _, v := range targets {
			func() {
				defer func() {
					if e := recover(); e != nil {
						t.Fatalf("panic %v on % x into %T", e, b, v)
					}
				}()
				done := make(chan struct{})
				go func() {
					defer func() {
						if e := recover(); e != nil {
							fmt.Printf("panic %v on % x into %T\n", e, b, v)
							t.Errorf("panic %v on % x into %T", e, b, v)
						}
						close(done)
					}()
					tlv8.Unmarshal(b, v)
				}()
				select {
				case <-done:
				case <-time.After(5 * time.Second):
					t.Fatalf("hang on % x into %T", b, v)
				}
			}()
			if t.Failed() {
				return
			}
		}
	}
}

package hc

import (
	"bytes"
	"fmt"
	"math/rand"
	"os"
	"strconv"
	"testing"
	"time"

	"github.com/brutella/hc/crypto"
	"github.com/brutella/hc/hap/pair"
	"github.com/brutella/hc/util"
)

func zzSeed() int64 {
	if s := os.Getenv("ZZSEED"); s != "" {
		n, _ := strconv.ParseInt(s, 10, 64)
		return n
	}
	return 1
}

func zzIters(def int) int {
	if s := os.Getenv("ZZITERS"); s != "" {
		n, _ := strconv.Atoi(s)
		return n
	}
	return def
}

type zzItem struct {
	tag byte
	val []byte
}

func zzParseItems(b []byte) []zzItem {
	var items []zzItem
	for len(b) >= 2 {
		n := int(b[1])
		if 2+n > len(b) {
			break
		}
		items = append(items, zzItem{b[0], append([]byte{}, b[2:2+n]...)})
		b = b[2+n:]
	}
	return items
}

func zzEncodeItems(items []zzItem) []byte {
	var b bytes.Buffer
	for _, it := range items {
		b.WriteByte(it.tag)
		b.WriteByte(byte(len(it.val)))
		b.Write(it.val)
	}
	return b.Bytes()
}

func zzRandBytes(r *rand.Rand, n int) []byte {
	b := make([]byte, n)
	r.Read(b)
	return b
}

// zzMutate returns a mutation of a tlv8 message
func zzMutate(r *rand.Rand, base []byte) ([]byte, string) {
	items := zzParseItems(base)
	switch k := r.Intn(16); k {
	case 0:
		return zzRandBytes(r, r.Intn(64)), "random bytes"
	case 1:
		if len(base) == 0 {
			return nil, "empty"
		}
		return base[:r.Intn(len(base))], "truncated"
	case 2:
		return append(append([]byte{}, base...), zzRandBytes(r, 1+r.Intn(5))...), "junk appended"
	case 3:
		if len(items) > 0 {
			i := r.Intn(len(items))
			items = append(items[:i], items[i+1:]...)
		}
		return zzEncodeItems(items), "item dropped"
	case 4:
		if len(items) > 0 {
			i := r.Intn(len(items))
			items = append(items, items[i])
		}
		return zzEncodeItems(items), "item duplicated at end"
	case 5:
		if len(items) > 0 {
			i := r.Intn(len(items))
			items = append(items[:i+1], append([]zzItem{items[i]}, items[i+1:]...)...)
		}
		return zzEncodeItems(items), "item duplicated in place"
	case 6:
		for i := range items {
			if items[i].tag == pair.TagSequence {
				items[i].val = []byte{byte(r.Intn(256))}
			}
		}
		return zzEncodeItems(items), "state changed"
	case 7:
		items = append([]zzItem{{pair.TagPairingMethod, []byte{byte(r.Intn(256))}}}, items...)
		return zzEncodeItems(items), "method set"
	case 8:
		if len(items) > 0 {
			i := r.Intn(len(items))
			n := r.Intn(20)
			if n > len(items[i].val) {
				n = len(items[i].val)
			}
			items[i].val = items[i].val[:n]
		}
		return zzEncodeItems(items), "value shortened"
	case 9:
		if len(items) > 0 {
			i := r.Intn(len(items))
			items[i].val = nil
		}
		return zzEncodeItems(items), "value emptied"
	case 10:
		if len(items) > 0 {
			i := r.Intn(len(items))
			if len(items[i].val) > 0 {
				items[i].val[r.Intn(len(items[i].val))] ^= byte(1 << uint(r.Intn(8)))
			}
		}
		return zzEncodeItems(items), "bit flipped"
	case 11:
		// over-long: many fragments
		tag := byte(r.Intn(12))
		n := 1 + r.Intn(300)
		for i := 0; i < n; i++ {
			items = append(items, zzItem{tag, zzRandBytes(r, 255)})
		}
		return zzEncodeItems(items), "huge value"
	case 12:
		return nil, "empty body"
	case 13:
		// all zero length items
		var its []zzItem
		for i := 0; i < 1+r.Intn(20); i++ {
			its = append(its, zzItem{byte(r.Intn(16)), nil})
		}
		return zzEncodeItems(its), "zero length items"
	case 14:
		// only a state
		return []byte{pair.TagSequence, 1, byte(r.Intn(8))}, "state only"
	default:
		if len(base) > 0 {
			b := append([]byte{}, base...)
			b[r.Intn(len(b))] = byte(r.Intn(256))
			return b, "byte replaced"
		}
		return []byte{0xff}, "one byte"
	}
}

// zzCheckAnswered fails when the message was not answered with a well-formed response
func zzCheckAnswered(t *testing.T, a *zzAcc, what string, r *zzResp, err error) bool {
	if p := a.panics(); p != "" {
		t.Errorf("%s: handler panicked: %s", what, p)
		a.httpLog.Reset()
		return false
	}
	if err != nil {
		t.Errorf("%s: not answered: %v", what, err)
		return false
	}
	if r.status != 200 && r.status != 500 && r.status != 204 && r.status != 207 && r.status != 470 && r.status != 400 && r.status != 404 && r.status != 405 {
		t.Errorf("%s: status %d", what, r.status)
		return false
	}
	return true
}

// ---- family A: pair-setup ----

func TestZZFuzzPairSetup(t *testing.T) {
	a := zzStartAcc(t)
	defer a.stop()
	seed := zzSeed()
	r := rand.New(rand.NewSource(seed))
	n := zzIters(60)
	for it := 0; it < n; it++ {
		ctrl := zzNewCtrl(fmt.Sprintf("fz-%d-%d", seed, it))
		cl := zzDial(t, a)
		s := zzNewSetup(ctrl, a.pin)
		k := r.Intn(4)
		var msgs [][]byte // the correct messages, as far as known
		msgs = append(msgs, s.m1())
		hist := fmt.Sprintf("seed %d it %d: prefix %d", seed, it, k)
		ok := true
		var c util.Container
		var err error
		var resp *zzResp
		if k >= 1 {
			resp, c, err = cl.tlv("/pair-setup", s.m1())
			if err != nil || resp.status != 200 {
				t.Fatalf("%s: honest M1: %v %v", hist, resp, err)
			}
			m3, err := s.m3(c)
			if err != nil {
				t.Fatalf("%s: %v", hist, err)
			}
			msgs = append(msgs, m3)
		}
		if k >= 2 {
			resp, c, err = cl.tlv("/pair-setup", msgs[1])
			if err != nil || resp.status != 200 {
				t.Fatalf("%s: honest M3: %v %v", hist, resp, err)
			}
			m5, err := s.m5(c)
			if err != nil {
				t.Fatalf("%s: %v", hist, err)
			}
			msgs = append(msgs, m5)
		}
		if k >= 3 {
			resp, c, err = cl.tlv("/pair-setup", msgs[2])
			if err != nil || resp.status != 200 {
				t.Fatalf("%s: honest M5: %v %v", hist, resp, err)
			}
			if err := s.m6(c); err != nil {
				t.Fatalf("%s: %v", hist, err)
			}
		}
		// bad messages
		nbad := 1 + r.Intn(3)
		for j := 0; j < nbad && ok; j++ {
			var body []byte
			var how string
			if k == 2 && r.Intn(3) == 0 {
				// authentic M5 with a mutated inner message
				inner, h := zzMutate(r, s.m5Inner())
				body, how = s.seal5(inner), "authentic M5, inner "+h
			} else {
				base := msgs[r.Intn(len(msgs))]
				body, how = zzMutate(r, base)
			}
			path := "/pair-setup"
			if r.Intn(8) == 0 {
				path = "/pair-verify"
			}
			resp, err := cl.do("POST", path, "application/pairing+tlv8", body)
			what := fmt.Sprintf("%s, bad message %d (%s, %d bytes) to %s", hist, j, how, len(body), path)
			ok = zzCheckAnswered(t, a, what, resp, err)
			hist = what
			if ok && resp.status == 200 {
				if _, err := util.NewTLV8ContainerFromReader(bytes.NewReader(resp.body)); err != nil {
					t.Errorf("%s: body not tlv8: % x", what, resp.body)
				}
			}
		}
		// same connection: at most one rejected start
		if ok {
			err, rejected := zzRetryOnce(func() error { return zzPairSetup(cl, zzNewCtrl(ctrl.name+"-same"), a.pin) })
			if err != nil {
				t.Errorf("%s: honest pair-setup on the same connection fails (after %d rejected starts): %v", hist, rejected, err)
			}
		}
		cl.close()
		// new connection
		cl2 := zzDial(t, a)
		if err := zzPairSetup(cl2, zzNewCtrl(ctrl.name+"-new"), a.pin); err != nil {
			t.Errorf("%s: honest pair-setup on a new connection fails: %v", hist, err)
		}
		cl2.close()
		if p := a.panics(); p != "" {
			t.Errorf("%s: panic: %s", hist, p)
			a.httpLog.Reset()
		}
		if t.Failed() {
			return
		}
	}
}

// ---- family B: pair-verify ----

func TestZZFuzzPairVerify(t *testing.T) {
	a := zzStartAcc(t)
	defer a.stop()
	seed := zzSeed()
	r := rand.New(rand.NewSource(seed))
	n := zzIters(300)
	cl0, ctrl := zzPairedClient(t, a, "fzv")
	cl0.close()
	for it := 0; it < n; it++ {
		cl := zzDial(t, a)
		k := r.Intn(3)
		hist := fmt.Sprintf("seed %d it %d: prefix %d", seed, it, k)
		v := zzNewVerify(ctrl)
		msgs := [][]byte{v.m1()}
		ok := true
		if k == 1 {
			resp, c, err := cl.tlv("/pair-verify", v.m1())
			if err != nil || resp.status != 200 {
				t.Fatalf("%s: honest V-M1: %v %v", hist, resp, err)
			}
			m3, err := v.m3(c)
			if err != nil {
				t.Fatalf("%s: %v", hist, err)
			}
			msgs = append(msgs, m3)
		}
		if k == 2 {
			if err := zzPairVerify(cl, ctrl); err != nil {
				t.Fatalf("%s: honest verify: %v", hist, err)
			}
			// a second exchange's messages for mutation
			msgs = append(msgs, v.seal3(v.m3Inner()))
		}
		nbad := 1 + r.Intn(3)
		for j := 0; j < nbad && ok; j++ {
			var body []byte
			var how string
			if k == 1 && r.Intn(3) == 0 {
				inner, h := zzMutate(r, v.m3Inner())
				body, how = v.seal3(inner), "authentic V-M3, inner "+h
			} else {
				body, how = zzMutate(r, msgs[r.Intn(len(msgs))])
			}
			path := "/pair-verify"
			if r.Intn(8) == 0 {
				path = "/pair-setup"
			}
			var newSess crypto.Cryptographer
			if k == 1 {
				// the mutation may still be acceptable (an item the accessory ignores)
				newSess, _ = crypto.NewSecureClientSessionFromSharedKey(v.shared)
				cl.alt = newSess
			}
			resp, err := cl.do("POST", path, "application/pairing+tlv8", body)
			cl.alt = nil
			what := fmt.Sprintf("%s, bad message %d (%s, %d bytes: %x) to %s", hist, j, how, len(body), zzHead(body), path)
			ok = zzCheckAnswered(t, a, what, resp, err)
			hist = what
			if ok && resp.status == 200 {
				c, err := util.NewTLV8ContainerFromReader(bytes.NewReader(resp.body))
				if err != nil {
					t.Errorf("%s: body not tlv8: % x", what, resp.body)
				} else if path == "/pair-verify" && c.GetByte(pair.TagSequence) == 4 && c.GetByte(pair.TagErrCode) == 0 {
					if newSess == nil {
						t.Errorf("%s: a bad message completed a verification", what)
					} else {
						time.Sleep(5 * time.Millisecond)
						cl.sess = newSess
						k = 2
					}
				}
			}
		}
		if ok {
			err, rejected := zzRetryOnce(func() error { return zzPairVerify(cl, ctrl) })
			if err != nil {
				t.Errorf("%s: honest pair-verify on the same connection fails (after %d rejected starts): %v", hist, rejected, err)
			} else {
				resp, err := cl.do("GET", "/accessories", "", nil)
				if err != nil || resp.status != 200 {
					t.Errorf("%s: verified connection does not serve: %v %v", hist, resp, err)
				}
			}
		}
		cl.close()
		cl2 := zzDial(t, a)
		if err := zzPairVerify(cl2, ctrl); err != nil {
			t.Errorf("%s: honest pair-verify on a new connection fails: %v", hist, err)
		} else {
			resp, err := cl2.do("GET", "/accessories", "", nil)
			if err != nil || resp.status != 200 {
				t.Errorf("%s: new verified connection does not serve: %v %v", hist, resp, err)
			}
		}
		cl2.close()
		if p := a.panics(); p != "" {
			t.Errorf("%s: panic: %s", hist, p)
			a.httpLog.Reset()
		}
		if t.Failed() {
			return
		}
	}
}

func zzHead(b []byte) []byte {
	if len(b) > 48 {
		return b[:48]
	}
	return b
}

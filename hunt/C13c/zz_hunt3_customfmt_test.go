package hc

import (
	"fmt"
	"testing"

	"github.com/brutella/hc/characteristic"
	"github.com/brutella/hc/service"
)

// Clause: "No bytes a remote peer can send ... make a handler panic"; input:
// "arbitrary JSON (wrong types ...)".
//
// Configuration: the application adds a characteristic of its own whose format
// is not one of the ten constants of the library: here "int", which is how the
// HAP specification calls the signed integer format (the library's constant
// FormatInt32 is "int32"), or a format left empty. convert() returns the JSON
// value unchanged for such a format, and updateValue compares it with the stored
// one using ==. The second write of an array (or an object) compares two
// uncomparable values: runtime panic in the handler, the connection is dropped
// without an answer. Same mistake as repair 9c7c6ac, in the default branch.
// BORDERLINE: needs an application-defined characteristic.
func TestZZCustomFormatArrayTwice(t *testing.T) {
	for _, format := range []string{"int", ""} {
		func() {
			a := zzStartAccCustom(t, format)
			defer a.stop()
			cl, _ := zzPairedClient(t, a, "cf")
			defer cl.close()
			var iid uint64
			for _, s := range a.bulb.Services {
				for _, c := range s.Characteristics {
					if c.Type == "F0000001-0000-1000-8000-0026BB765291" {
						iid = c.ID
					}
				}
			}
			body := []byte(fmt.Sprintf(`{"characteristics":[{"aid":1,"iid":%d,"value":[1]}]}`, iid))
			for i := 0; i < 2; i++ {
				resp, err := cl.do("PUT", "/characteristics", "application/hap+json", body)
				if err != nil {
					t.Errorf("format %q: write %d of an array is not answered: %v; %s", format, i+1, err, a.panics())
					return
				}
				_ = resp
			}
		}()
	}
}

func zzStartAccCustom(t *testing.T, format string) *zzAcc {
	zzCustomFormat = &format
	defer func() { zzCustomFormat = nil }()
	return zzStartAcc(t)
}

var _ = service.New
var _ = characteristic.NewCharacteristic

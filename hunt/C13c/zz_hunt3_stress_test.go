package hc

import (
	"fmt"
	"math/rand"
	"net"
	"os"
	"sync"
	"testing"
	"time"
)

// many connections that come and go in the middle of everything
func TestZZStressLifecycles(t *testing.T) {
	a := zzStartAcc(t)
	defer a.stop()
	cl0, ctrl := zzPairedClient(t, a, "stress")
	cl0.close()
	seed := zzSeed()
	n := zzIters(150)
	var wg sync.WaitGroup
	onID := a.bulb.Lightbulb.On.ID
	briID := a.thermo.Thermostat.TargetTemperature.ID
	var mu sync.Mutex
	var unanswered []string
	for g := 0; g < 8; g++ {
		wg.Add(1)
		go func(g int) {
			defer wg.Done()
			r := rand.New(rand.NewSource(seed*100 + int64(g)))
			for it := 0; it < n; it++ {
				c, err := net.DialTimeout("tcp", a.addr, 3*time.Second)
				if err != nil {
					mu.Lock()
					unanswered = append(unanswered, fmt.Sprintf("g%d it%d dial: %v", g, it, err))
					mu.Unlock()
					return
				}
				cl := zzWrap(c)
				verified := false
				if r.Intn(4) != 0 {
					if err := zzPairVerify(cl, ctrl); err != nil {
						mu.Lock()
						unanswered = append(unanswered, fmt.Sprintf("g%d it%d verify: %v", g, it, err))
						mu.Unlock()
						c.Close()
						continue
					}
					verified = true
				}
				ops := r.Intn(6)
				for j := 0; j < ops; j++ {
					var resp *zzResp
					var err error
					var what string
					switch r.Intn(6) {
					case 0:
						what = "subscribe"
						resp, err = cl.do("PUT", "/characteristics", "application/hap+json", []byte(fmt.Sprintf(`{"characteristics":[{"aid":1,"iid":%d,"ev":true},{"aid":2,"iid":%d,"ev":true}]}`, onID, briID)))
					case 1:
						what = "write on"
						resp, err = cl.do("PUT", "/characteristics", "application/hap+json", []byte(fmt.Sprintf(`{"characteristics":[{"aid":1,"iid":%d,"value":%v}]}`, onID, r.Intn(2) == 0)))
					case 2:
						what = "write brightness"
						resp, err = cl.do("PUT", "/characteristics", "application/hap+json", []byte(fmt.Sprintf(`{"characteristics":[{"aid":2,"iid":%d,"value":%d}]}`, briID, 10+r.Intn(20))))
					case 3:
						what = "accessories"
						resp, err = cl.do("GET", "/accessories", "", nil)
					case 4:
						what = "read"
						resp, err = cl.do("GET", fmt.Sprintf("/characteristics?id=1.%d,2.%d", onID, briID), "", nil)
					case 5:
						what = "verify start"
						v := zzNewVerify(ctrl)
						resp, err = cl.do("POST", "/pair-verify", "application/pairing+tlv8", v.m1())
					}
					if err != nil || (verified && resp.status >= 400 && what != "verify start") {
						mu.Lock()
						unanswered = append(unanswered, fmt.Sprintf("g%d it%d op%d %s (verified %v): %v %v", g, it, j, what, verified, resp, err))
						mu.Unlock()
						break
					}
				}
				// how the connection goes away
				how := r.Intn(5)
				if how == 2 && os.Getenv("ZZNOHALF") != "" {
					how = 4
				}
				switch how {
				case 0:
					c.(*net.TCPConn).SetLinger(0) // RST
					c.Close()
				case 1:
					// in the middle of a request
					cl.writeRaw([]byte("PUT /characteristics HTTP/1.1\r\nHost: x\r\nContent-Length: 100\r\n\r\n{\"chara"))
					if r.Intn(2) == 0 {
						c.(*net.TCPConn).SetLinger(0)
					}
					c.Close()
				case 2:
					// request, then half-close, then read the answer
					cl.writeRaw([]byte("GET /accessories HTTP/1.1\r\nHost: x\r\n\r\n"))
					c.(*net.TCPConn).CloseWrite()
					if verified {
						if resp, err := cl.readResp("GET"); err != nil || resp.status != 200 {
							mu.Lock()
							unanswered = append(unanswered, fmt.Sprintf("g%d it%d half-close: %v %v", g, it, resp, err))
							mu.Unlock()
						}
					}
					c.Close()
				case 3:
					// request and reset without reading the answer
					cl.writeRaw([]byte("GET /accessories HTTP/1.1\r\nHost: x\r\n\r\n"))
					c.(*net.TCPConn).SetLinger(0)
					c.Close()
				default:
					c.Close()
				}
			}
		}(g)
	}
	wg.Wait()
	for _, u := range unanswered {
		t.Error(u)
	}
	if p := a.panics(); p != "" {
		t.Errorf("panic: %s", p)
	}
	cl := zzDial(t, a)
	defer cl.close()
	if err := zzPairVerify(cl, ctrl); err != nil {
		t.Fatalf("final verify: %v", err)
	}
	if r, err := cl.do("GET", "/accessories", "", nil); err != nil || r.status != 200 {
		t.Fatalf("final: %v %v", r, err)
	}
	time.Sleep(200 * time.Millisecond)
	if n := len(a.tr.context.ActiveConnections()); n > 1 {
		t.Errorf("%d sessions left for 1 live connection", n)
	}
}

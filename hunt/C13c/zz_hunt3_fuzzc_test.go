package hc

import (
	"encoding/json"
	"fmt"
	"math/rand"
	"strings"
	"testing"

	"github.com/brutella/hc/hap/pair"
	"github.com/brutella/hc/util"
)

func zzRandJSONValue(r *rand.Rand, depth int) string {
	switch r.Intn(22) {
	case 0:
		return "null"
	case 1:
		return "true"
	case 2:
		return "false"
	case 3:
		return fmt.Sprintf("%d", r.Intn(300)-50)
	case 4:
		return fmt.Sprintf("%g", r.NormFloat64()*1e3)
	case 5:
		return []string{"1e308", "-1e308", "1e-320", "18446744073709551615", "18446744073709551616", "-9223372036854775809", "4294967296", "2147483648", "-2147483649", "1e19", "1e40", "0.5", "-0", "255", "256", "65536"}[r.Intn(16)]
	case 6:
		return `"` + []string{"", "abc", "NaN", "Inf", "-Inf", "+Inf", "1", "0", "true", "t", "1e999", "0x10", "١٢٣", "\\u0000", "\\ud800", strings.Repeat("a", 5000), "AAAA", "AQID", "=", "%s%d%!"}[r.Intn(20)] + `"`
	case 7:
		if depth > 3 {
			return "[]"
		}
		n := r.Intn(4)
		var parts []string
		for i := 0; i < n; i++ {
			parts = append(parts, zzRandJSONValue(r, depth+1))
		}
		return "[" + strings.Join(parts, ",") + "]"
	case 8:
		if depth > 3 {
			return "{}"
		}
		n := r.Intn(4)
		var parts []string
		for i := 0; i < n; i++ {
			parts = append(parts, fmt.Sprintf("%q:%s", []string{"a", "aid", "value", "", "ev"}[r.Intn(5)], zzRandJSONValue(r, depth+1)))
		}
		return "{" + strings.Join(parts, ",") + "}"
	case 9:
		d := 1 + r.Intn(3000)
		return strings.Repeat("[", d) + strings.Repeat("]", d)
	case 10:
		d := 9990 + r.Intn(20)
		return strings.Repeat("[", d) + strings.Repeat("]", d)
	case 11:
		d := 1 + r.Intn(2000)
		return strings.Repeat(`{"a":`, d) + "1" + strings.Repeat("}", d)
	default:
		return fmt.Sprintf("%d", r.Intn(3))
	}
}

func zzRandPut(r *rand.Rand, maxAid, maxIid int) string {
	switch r.Intn(12) {
	case 0:
		return zzRandJSONValue(r, 0)
	case 1:
		return `{"characteristics":` + zzRandJSONValue(r, 0) + `}`
	case 2:
		s := zzRandPut(r, maxAid, maxIid)
		if len(s) > 0 {
			return s[:r.Intn(len(s))]
		}
		return s
	}
	n := 1 + r.Intn(4)
	var entries []string
	for i := 0; i < n; i++ {
		var fields []string
		if r.Intn(20) != 0 {
			if r.Intn(15) == 0 {
				fields = append(fields, `"aid":`+zzRandJSONValue(r, 2))
			} else {
				fields = append(fields, fmt.Sprintf(`"aid":%d`, 1+r.Intn(maxAid+1)))
			}
		}
		if r.Intn(20) != 0 {
			if r.Intn(15) == 0 {
				fields = append(fields, `"iid":`+zzRandJSONValue(r, 2))
			} else {
				fields = append(fields, fmt.Sprintf(`"iid":%d`, r.Intn(maxIid+2)))
			}
		}
		if r.Intn(4) != 0 {
			fields = append(fields, `"value":`+zzRandJSONValue(r, 0))
		}
		if r.Intn(3) == 0 {
			fields = append(fields, `"ev":`+zzRandJSONValue(r, 2))
		}
		if r.Intn(10) == 0 {
			fields = append(fields, `"value":`+zzRandJSONValue(r, 0)) // duplicate key
		}
		if r.Intn(10) == 0 {
			fields = append(fields, fmt.Sprintf(`%q:%s`, []string{"authData", "remote", "r", "status", "Value", "AID"}[r.Intn(6)], zzRandJSONValue(r, 1)))
		}
		r.Shuffle(len(fields), func(i, j int) { fields[i], fields[j] = fields[j], fields[i] })
		entries = append(entries, "{"+strings.Join(fields, ",")+"}")
	}
	return `{"characteristics":[` + strings.Join(entries, ",") + `]}`
}

func zzRandQuery(r *rand.Rand, maxAid, maxIid int) string {
	switch r.Intn(10) {
	case 0:
		return ""
	case 1:
		return "?id="
	case 2:
		return "?id=" + []string{"1", "1.", ".1", "1.2.3", "a.b", "1.9,", ",", "1.9,,1.10", "-1.-1", "1e3.9", "18446744073709551616.1", "%zz", "1.9&id=1.10", "1.9;2.9", "+1.+9", " 1.9", "1.9 ", "0x1.0x9", "1%2E9", "%31.%39"}[r.Intn(20)]
	case 3:
		var ids []string
		for i := 0; i < 3000; i++ {
			ids = append(ids, fmt.Sprintf("%d.%d", 1+r.Intn(maxAid), r.Intn(maxIid+1)))
		}
		return "?id=" + strings.Join(ids, ",")
	}
	var ids []string
	for i := 0; i < 1+r.Intn(5); i++ {
		ids = append(ids, fmt.Sprintf("%d.%d", 1+r.Intn(maxAid+1), r.Intn(maxIid+2)))
	}
	q := "?id=" + strings.Join(ids, ",")
	if r.Intn(3) == 0 {
		q += "&meta=1&perms=1&type=1&ev=1"
	}
	return q
}

func zzRandPairings(r *rand.Rand, ctrl *zzCtrl, a *zzAcc, n int) ([]byte, string) {
	base := util.NewTLV8Container()
	base.SetByte(pair.TagSequence, 1)
	base.SetByte(pair.TagPairingMethod, []byte{3, 4, 5, 0, 1, 2, 6, 255}[r.Intn(8)])
	name := []string{fmt.Sprintf("add-%d", n), "", a.name, ctrl.name, strings.Repeat("n", 122), strings.Repeat("n", 123), strings.Repeat("n", 125), strings.Repeat("n", 200), "a/b", "../x", "\x00", "\xff\xfe", ".", ".."}[r.Intn(14)]
	if r.Intn(6) != 0 {
		base.SetString(pair.TagUsername, name)
	}
	if r.Intn(4) != 0 {
		base.SetBytes(pair.TagPublicKey, zzRandBytes(r, []int{32, 0, 1, 31, 33, 64, 300}[r.Intn(7)]))
	}
	if r.Intn(2) == 0 {
		base.SetByte(pair.TagPermission, byte(r.Intn(3)))
	}
	b := base.BytesBuffer().Bytes()
	if r.Intn(3) == 0 {
		return zzMutate(r, b)
	}
	return b, "pairings request"
}

func TestZZFuzzVerifiedEndpoints(t *testing.T) {
	a := zzStartAcc(t)
	defer a.stop()
	seed := zzSeed()
	r := rand.New(rand.NewSource(seed))
	n := zzIters(1500)
	cl, ctrl := zzPairedClient(t, a, "admin")
	maxIid := 0
	for _, s := range a.thermo.Services {
		for _, c := range s.Characteristics {
			if int(c.ID) > maxIid {
				maxIid = int(c.ID)
			}
		}
	}
	methods := []string{"GET", "PUT", "POST", "DELETE", "HEAD", "OPTIONS", "PATCH", "DEL", "TRACE"}
	paths := []string{"/accessories", "/characteristics", "/pairings", "/identify", "/resource", "/pair-setup", "/pair-verify", "/", "/prepare", "/characteristics/", "/accessories?x=1"}
	var prev []string
	for it := 0; it < n; it++ {
		var method, path, body, what string
		switch r.Intn(7) {
		case 0, 1:
			method, path, body = "PUT", "/characteristics", zzRandPut(r, 2, maxIid)
		case 2:
			method, path = "GET", "/characteristics"+zzRandQuery(r, 2, maxIid)
		case 3:
			b, how := zzRandPairings(r, ctrl, a, it)
			method, path, body, what = "POST", "/pairings", string(b), how
		case 4:
			method, path = "POST", "/resource"
			body = fmt.Sprintf(`{"resource-type":%s,"image-width":%s,"image-height":%s}`, []string{`"image"`, `"x"`, "1", "null"}[r.Intn(4)], zzRandJSONValue(r, 2), zzRandJSONValue(r, 2))
			if r.Intn(3) == 0 {
				body = zzRandJSONValue(r, 0)
			}
		case 5:
			method, path = methods[r.Intn(len(methods))], paths[r.Intn(len(paths))]
			if r.Intn(2) == 0 {
				body = zzRandJSONValue(r, 0)
			}
		case 6:
			method, path, body = "GET", "/accessories", ""
		}
		var bb []byte
		if body != "" || method == "PUT" || method == "POST" {
			bb = []byte(body)
		}
		resp, err := cl.do(method, path, "application/hap+json", bb)
		desc := body
		if len(desc) > 300 {
			desc = desc[:300] + "..."
		}
		what = fmt.Sprintf("seed %d it %d: %s %.80s %s %q", seed, it, method, path, what, desc)
		if !zzCheckAnswered(t, a, what, resp, err) {
			t.Logf("previous: %s", prev)
			return
		}
		prev = append(prev, fmt.Sprintf("%s -> %d", what, resp.status))
		if len(prev) > 4 {
			prev = prev[1:]
		}
		if method == "GET" && path == "/accessories" {
			var v map[string]interface{}
			if resp.status != 200 || json.Unmarshal(resp.body, &v) != nil {
				t.Fatalf("%s: /accessories answers %d %.200s", what, resp.status, resp.body)
			}
		}
		// the admin pairing may have been removed by the fuzzer: restore it
		if path == "/pairings" && r.Intn(3) == 0 || it%100 == 99 || resp.status == 400 {
			cl.close()
			cl2 := zzDial(t, a)
			if err := zzPairVerify(cl2, ctrl); err != nil {
				cl2.close()
				// pair again
				cl3 := zzDial(t, a)
				if err := zzPairSetup(cl3, ctrl, a.pin); err != nil {
					t.Fatalf("%s: honest pair-setup on a new connection fails: %v", what, err)
				}
				cl3.close()
				cl2 = zzDial(t, a)
				if err := zzPairVerify(cl2, ctrl); err != nil {
					t.Fatalf("%s: honest pair-verify on a new connection fails: %v", what, err)
				}
			}
			cl = cl2
		}
	}
	cl.close()
	if p := a.panics(); p != "" {
		t.Fatal(p)
	}
}

func TestZZFuzzUnverifiedEndpoints(t *testing.T) {
	a := zzStartAcc(t)
	defer a.stop()
	seed := zzSeed()
	r := rand.New(rand.NewSource(seed))
	n := zzIters(1000)
	cl := zzDial(t, a)
	methods := []string{"GET", "PUT", "POST", "DELETE", "HEAD", "OPTIONS", "PATCH", "DEL"}
	paths := []string{"/accessories", "/characteristics", "/characteristics?id=1.9", "/pairings", "/identify", "/resource", "/pair-setup", "/pair-verify", "/", "/prepare"}
	for it := 0; it < n; it++ {
		method, path := methods[r.Intn(len(methods))], paths[r.Intn(len(paths))]
		var body []byte
		switch r.Intn(4) {
		case 0:
			body = []byte(zzRandPut(r, 2, 40))
		case 1:
			body, _ = zzMutate(r, []byte{0, 1, 0, 6, 1, 1})
		case 2:
			body = zzRandBytes(r, r.Intn(100))
		}
		resp, err := cl.do(method, path, "application/hap+json", body)
		what := fmt.Sprintf("seed %d it %d: %s %s %q", seed, it, method, path, zzHead(body))
		if !zzCheckAnswered(t, a, what, resp, err) {
			return
		}
		if method == "HEAD" || r.Intn(50) == 0 {
			cl.close()
			cl = zzDial(t, a)
		}
	}
	// the connection is still good for a handshake after at most one rejected start
	err, rejected := zzRetryOnce(func() error { return zzPairSetup(cl, zzNewCtrl("late"), a.pin) })
	if err != nil {
		t.Fatalf("pair-setup after the garbage (rejected %d): %v", rejected, err)
	}
	cl.close()
}

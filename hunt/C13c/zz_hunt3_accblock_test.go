package hc

import (
	"fmt"
	"net"
	"os"
	"reflect"
	"unsafe"
	"strconv"
	"syscall"
	"testing"
	"time"

	"github.com/brutella/hc/accessory"
)

// Clause: "No bytes a remote peer can send ... leave the accessory unable to
// serve ... afterwards a correct handshake on a new connection still succeeds
// [and is served]".
//
// History: a verified controller sends a correct GET /accessories and then stops
// reading (it went out of range, or it is hostile). The handler writes the
// attribute database to the socket while it holds the server-wide mutex; the
// write blocks as soon as the socket buffers are full, there is no write
// deadline, and the mutex is never released. From then on GET /accessories of
// every other controller, on old and new connections, is never answered.
func TestZZAccessoriesBlockedByPeerThatStopsReading(t *testing.T) {
	zzQuiet()
	n := 60
	if s := os.Getenv("ZZACCS"); s != "" {
		n, _ = strconv.Atoi(s)
	}
	bridge := accessory.NewBridge(accessory.Info{Name: "ZZ Bridge"})
	var as []*accessory.Accessory
	for i := 0; i < n; i++ {
		as = append(as, accessory.NewLightbulb(accessory.Info{Name: fmt.Sprintf("Bulb %d", i)}).Accessory)
	}
	tr, err := NewIPTransport(Config{StoragePath: t.TempDir(), Pin: "00102003"}, bridge.Accessory, as...)
	if err != nil {
		t.Fatal(err)
	}
	go tr.Start()
	defer func() {
		select {
		case <-tr.Stop():
		case <-time.After(2 * time.Second):
		}
	}()
	for i := 0; i < 200 && (tr.server == nil || tr.server.Port() == ""); i++ {
		time.Sleep(10 * time.Millisecond)
	}
	time.Sleep(20 * time.Millisecond)
	// ZZSNDBUF=0 leaves the kernel's defaults: on loopback the send buffer then grows
	// to some MB and the test needs ZZACCS=5000 (a 3 MB database) to show the same.
	if os.Getenv("ZZSNDBUF") == "" {
		os.Setenv("ZZSNDBUF", "4096")
	}
	if os.Getenv("ZZSNDBUF") != "0" {
		// A device with small socket buffers (embedded Linux, net.ipv4.tcp_wmem):
		// the option is inherited by the accepted sockets. The listener is not
		// exported, the test reaches it through reflection; no library code changes.
		sz, _ := strconv.Atoi(os.Getenv("ZZSNDBUF"))
		f := reflect.ValueOf(tr.server).Elem().FieldByName("listener")
		ln := *(**net.TCPListener)(unsafe.Pointer(f.UnsafeAddr()))
		rc, _ := ln.SyscallConn()
		rc.Control(func(fd uintptr) {
			syscall.SetsockoptInt(int(fd), syscall.SOL_SOCKET, syscall.SO_SNDBUF, sz)
		})
	}
	a := &zzAcc{tr: tr, addr: "127.0.0.1:" + tr.server.Port(), pin: "001-02-003", httpLog: &syncBuf{}}

	// controller 1 pairs; its /accessories works
	ctrl := zzNewCtrl("ctrl-1")
	cl := zzDial(t, a)
	if err := zzPairSetup(cl, ctrl, a.pin); err != nil {
		t.Fatal(err)
	}
	cl.close()
	cl = zzDial(t, a)
	if err := zzPairVerify(cl, ctrl); err != nil {
		t.Fatal(err)
	}
	r, err := cl.do("GET", "/accessories", "", nil)
	if err != nil || r.status != 200 {
		t.Fatalf("%v %v", r, err)
	}
	t.Logf("%d accessories, /accessories body of %d bytes", n+1, len(r.body))
	cl.close()

	// the peer that stops reading: a small receive buffer, as a constrained or
	// hostile controller may have
	d := net.Dialer{Timeout: 3 * time.Second, Control: func(network, address string, c syscall.RawConn) error {
		return c.Control(func(fd uintptr) {
			syscall.SetsockoptInt(int(fd), syscall.SOL_SOCKET, syscall.SO_RCVBUF, 4096)
		})
	}}
	raw, err := d.Dial("tcp", a.addr)
	if err != nil {
		t.Fatal(err)
	}
	defer raw.Close()
	// handshake by hand on this connection: reads are needed for it
	stuck2 := zzWrap(raw)
	if err := zzPairVerify(stuck2, ctrl); err != nil {
		t.Fatal(err)
	}
	if err := stuck2.writeRaw([]byte("GET /accessories HTTP/1.1\r\nHost: zz.local\r\n\r\n")); err != nil {
		t.Fatal(err)
	}
	// ... and never reads the answer
	time.Sleep(300 * time.Millisecond)

	// another controller connection: the handshake works, /accessories must be served
	cl2 := zzDial(t, a)
	defer cl2.close()
	if err := zzPairVerify(cl2, ctrl); err != nil {
		t.Fatalf("honest pair-verify on a new connection: %v", err)
	}
	cl2.timeout = 3 * time.Second
	r, err = cl2.do("GET", "/accessories", "", nil)
	if err != nil {
		t.Fatalf("GET /accessories on a new verified connection is not answered while another peer does not read its answer: %v", err)
	}
	if r.status != 200 {
		t.Fatalf("status %d", r.status)
	}
}

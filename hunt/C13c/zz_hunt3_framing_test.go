package hc

import (
	"bytes"
	"fmt"
	"io/ioutil"
	"math/rand"
	"strings"
	"testing"
	"time"
)

// correct requests of a verified controller, cut into authentic frames and TCP
// segments in every possible way, pipelined or not
func TestZZFramingFuzz(t *testing.T) {
	a := zzStartAcc(t)
	defer a.stop()
	cl0, ctrl := zzPairedClient(t, a, "fr")
	cl0.close()
	seed := zzSeed()
	r := rand.New(rand.NewSource(seed))
	onID := a.bulb.Lightbulb.On.ID
	n := zzIters(400)
	for it := 0; it < n; it++ {
		cl := zzDial(t, a)
		if err := zzPairVerify(cl, ctrl); err != nil {
			t.Fatalf("it %d: %v", it, err)
		}
		nreq := 1 + r.Intn(4)
		var plain bytes.Buffer
		var methods []string
		var wantStatus []int
		var desc []string
		for i := 0; i < nreq; i++ {
			switch r.Intn(4) {
			case 0:
				plain.WriteString("GET /accessories HTTP/1.1\r\nHost: x\r\n\r\n")
				methods = append(methods, "GET")
				wantStatus = append(wantStatus, 200)
				desc = append(desc, "GET /accessories")
			case 1:
				plain.WriteString(fmt.Sprintf("GET /characteristics?id=1.%d HTTP/1.1\r\nHost: x\r\n\r\n", onID))
				methods = append(methods, "GET")
				wantStatus = append(wantStatus, 200)
				desc = append(desc, "GET /characteristics")
			case 2:
				pad := strings.Repeat(" ", []int{0, 1, 900, 1024, 2000, 5000}[r.Intn(6)])
				body := fmt.Sprintf(`{"characteristics":[{"aid":1,"iid":%d,"value":%v}]%s}`, onID, r.Intn(2) == 0, pad)
				plain.WriteString(fmt.Sprintf("PUT /characteristics HTTP/1.1\r\nHost: x\r\nContent-Length: %d\r\n\r\n%s", len(body), body))
				methods = append(methods, "PUT")
				wantStatus = append(wantStatus, 204)
				desc = append(desc, fmt.Sprintf("PUT %d", len(body)))
			case 3:
				hdr := strings.Repeat("a", []int{10, 935, 1000, 3000}[r.Intn(4)])
				plain.WriteString(fmt.Sprintf("GET /accessories HTTP/1.1\r\nHost: x\r\nX-Pad: %s\r\n\r\n", hdr))
				methods = append(methods, "GET")
				wantStatus = append(wantStatus, 200)
				desc = append(desc, fmt.Sprintf("GET /accessories hdr %d", len(hdr)))
			}
		}
		pipelined := r.Intn(2) == 0
		// cut into frames
		p := plain.Bytes()
		var wire bytes.Buffer
		var sizes []int
		mode := r.Intn(5)
		for len(p) > 0 {
			var k int
			switch mode {
			case 0:
				k = 1024
			case 1:
				k = 1 + r.Intn(1024)
			case 2:
				k = 1 + r.Intn(8)
			case 3:
				k = []int{1, 1023, 1024}[r.Intn(3)]
			case 4:
				k = 1 + r.Intn(64)
			}
			if k > len(p) {
				k = len(p)
			}
			// one Encrypt call per frame: frames of at most 1024 bytes
			enc, err := cl.sess.Encrypt(bytes.NewReader(p[:k]))
			if err != nil {
				t.Fatal(err)
			}
			b, _ := ioutil.ReadAll(enc)
			wire.Write(b)
			sizes = append(sizes, k)
			p = p[k:]
		}
		_ = pipelined
		// cut into TCP segments
		w := wire.Bytes()
		segmode := r.Intn(4)
		what := fmt.Sprintf("seed %d it %d: %v, frame mode %d (%d frames), segment mode %d", seed, it, desc, mode, len(sizes), segmode)
		cl.c.SetWriteDeadline(time.Now().Add(10 * time.Second))
		go func() {
			for len(w) > 0 {
				var k int
				switch segmode {
				case 0:
					k = len(w)
				case 1:
					k = 1 + r.Intn(2000)
				case 2:
					k = 1 + r.Intn(20)
				case 3:
					k = 1 + r.Intn(3)
				}
				if k > len(w) {
					k = len(w)
				}
				cl.c.Write(w[:k])
				w = w[k:]
				if segmode != 0 && rand.Intn(4) == 0 {
					time.Sleep(time.Duration(rand.Intn(300)) * time.Microsecond)
				}
			}
		}()
		for i := 0; i < nreq; i++ {
			resp, err := cl.readResp(methods[i])
			if err != nil {
				t.Fatalf("%s: response %d of %d: %v", what, i, nreq, err)
			}
			if resp.status != wantStatus[i] {
				t.Fatalf("%s: response %d: status %d, want %d", what, i, resp.status, wantStatus[i])
			}
		}
		cl.close()
		if p := a.panics(); p != "" {
			t.Fatalf("%s: panic %s", what, p)
		}
	}
}

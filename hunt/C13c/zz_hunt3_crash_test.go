package hc

import (
	"bytes"
	"math/rand"
	"os"
	"os/exec"
	"strconv"
	"strings"
	"sync"
	"sync/atomic"
	"testing"
	"time"
)

// Clause: "No bytes a remote peer can send ... make a handler panic or leave the
// accessory unable to serve."
//
// History: paired controllers run correct pair-verify exchanges (many of them,
// on many connections; optionally the first byte of the next request follows
// the finish request closely). Nothing else.
//
// The finish handler stores the new cryptographer with session.SetCryptographer
// while the read which net/http keeps pending on the connection calls
// session.Decrypter(), which moves nextCryptographer to cryptographer. Both are
// interface values (two words) and nothing orders the two goroutines. When
// Decrypter() copies the interface between the two stores of SetCryptographer it
// installs a cryptographer with a type and a nil pointer - for good. The nil
// check in EncryptedWrite (interface != nil) passes, Encrypt dereferences the
// nil *secureSession and panics in net/http's finishRequest. net/http recovers
// that panic in conn.serve and then closes the connection, which flushes the
// same buffer again (conn.close -> finalFlush -> Connection.Write): the second
// panic is raised inside the deferred function, nobody recovers it, and the
// whole accessory process dies.
//
// The data race itself (session.Encrypter/Decrypter/SetCryptographer) is known;
// this shows that it is not limited to a response under the wrong keys: it
// kills the process. Statistical: the child below usually dies within a minute
// on 16 cores (see the rate in the log).
func TestZZVerifyHandOverCrashesProcess(t *testing.T) {
	if os.Getenv("ZZCHILD") != "" {
		t.Skip()
	}
	budget := 180
	if s := os.Getenv("ZZSECONDS"); s != "" {
		budget, _ = strconv.Atoi(s)
	}
	cmd := exec.Command(os.Args[0], "-test.run=^TestZZVerifyHandOverChild$", "-test.v")
	cmd.Env = append(os.Environ(), "ZZCHILD=1", "ZZSECONDS="+strconv.Itoa(budget))
	var out bytes.Buffer
	cmd.Stdout = &out
	cmd.Stderr = &out
	start := time.Now()
	err := cmd.Run()
	s := out.String()
	if err != nil {
		if i := strings.Index(s, "panic:"); i >= 0 {
			s = s[i:]
		}
		if len(s) > 3500 {
			s = s[:3500]
		}
		t.Fatalf("the accessory process died after %v of correct pair-verify exchanges: %v\n%s", time.Since(start).Round(time.Second), err, s)
	}
	if i := strings.Index(s, "verifications"); i >= 0 {
		t.Logf("survived: %.200s", s[i-20:])
	}
}

func TestZZVerifyHandOverChild(t *testing.T) {
	if os.Getenv("ZZCHILD") == "" {
		t.Skip("runs as a child of TestZZVerifyHandOverCrashesProcess")
	}
	seconds, _ := strconv.Atoi(os.Getenv("ZZSECONDS"))
	a := zzStartAcc(t)
	cl0, ctrl := zzPairedClient(t, a, "crash")
	cl0.close()
	deadline := time.Now().Add(time.Duration(seconds) * time.Second)
	var count int64
	var wg sync.WaitGroup
	workers := 32
	if s := os.Getenv("ZZWORKERS"); s != "" {
		workers, _ = strconv.Atoi(s)
	}
	trailing := os.Getenv("ZZNOTRAIL") == ""
	for g := 0; g < workers; g++ {
		wg.Add(1)
		go func(g int) {
			defer wg.Done()
			r := rand.New(rand.NewSource(int64(g)))
			for time.Now().Before(deadline) {
				cl := zzDial(t, a)
				v := zzNewVerify(ctrl)
				_, c, err := cl.tlv("/pair-verify", v.m1())
				if err != nil {
					cl.close()
					continue
				}
				m3, err := v.m3(c)
				if err != nil {
					cl.close()
					continue
				}
				var b bytes.Buffer
				b.WriteString("POST /pair-verify HTTP/1.1\r\nHost: x\r\nContent-Length: " + strconv.Itoa(len(m3)) + "\r\n\r\n")
				b.Write(m3)
				cl.c.Write(b.Bytes())
				if trailing && g%2 == 0 {
					// the first byte of the next request follows closely
					d := time.Duration(r.Intn(400)) * time.Microsecond
					t0 := time.Now()
					for time.Since(t0) < d {
					}
					cl.c.Write([]byte{0x20})
				}
				cl.c.SetReadDeadline(time.Now().Add(2 * time.Second))
				buf := make([]byte, 512)
				cl.c.Read(buf)
				cl.close()
				atomic.AddInt64(&count, 1)
			}
		}(g)
	}
	wg.Wait()
	t.Logf("%d verifications in %d s without a crash", count, seconds)
}

package hap

import (
	"reflect"
	"sync"
	"testing"
	"time"

	"github.com/brutella/hc/crypto"
)

// Mechanism behind TestZZVerifyHandOverCrashesProcess (package hc), isolated:
// SetCryptographer is called by the handler of the pair-verify finish request,
// Decrypter by the read which net/http keeps pending on the same connection.
// Without any ordering Decrypter can copy the interface value while it is being
// stored and installs a cryptographer that is "not nil" but holds a nil
// pointer; it stays. Every later write on the connection then dereferences it
// (EncryptedWrite checks encrypter == nil only).
func TestZZSessionInstallsHalfWrittenCryptographer(t *testing.T) {
	var key [32]byte
	real, _ := crypto.NewSecureSessionFromSharedKey(key)
	deadline := time.Now().Add(20 * time.Second)
	rounds := 0
	for time.Now().Before(deadline) {
		rounds++
		s := NewSession(nil)
		var wg sync.WaitGroup
		wg.Add(2)
		start := make(chan struct{})
		go func() { // the handler
			defer wg.Done()
			<-start
			s.SetCryptographer(real)
		}()
		go func() { // the pending read
			defer wg.Done()
			<-start
			for i := 0; i < 50; i++ {
				s.Decrypter()
			}
		}()
		close(start)
		wg.Wait()
		s.Decrypter()
		if e := s.Encrypter(); e == nil {
			t.Fatalf("round %d: no encrypter after SetCryptographer and Decrypter", rounds)
		} else if reflect.ValueOf(e).IsNil() {
			t.Fatalf("round %d: Encrypter() != nil but holds a nil %T: the next Encrypt call panics", rounds, e)
		}
	}
	t.Logf("%d rounds without a half-written value", rounds)
}

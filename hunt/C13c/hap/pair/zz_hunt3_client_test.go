package pair

import (
	"testing"

	"github.com/brutella/hc/db"
	"github.com/brutella/hc/hap"
	"github.com/brutella/hc/util"
)

// Siblings of the repairs 85c5920 and 793b4f4 on the controller side of the
// library (types an application uses to talk to a remote accessory). The peer
// here is the accessory; C13 speaks about the accessory's handlers, so this is
// borderline for the property, but it is the same mistake in the sibling function.

func zzRecover(t *testing.T, what string, f func()) {
	defer func() {
		if e := recover(); e != nil {
			t.Errorf("%s: panic: %v", what, e)
		}
	}()
	f()
}

// verify-M2 with fewer than 16 bytes of encrypted data
func TestZZVerifyClientShortEncryptedData(t *testing.T) {
	database, _ := db.NewTempDatabase()
	client, _ := hap.NewDevice("ctrl", database)
	c := NewVerifyClientController(client, database)
	in := util.NewTLV8Container()
	in.SetByte(TagSequence, VerifyStepStartResponse.Byte())
	in.SetBytes(TagPublicKey, make([]byte, 32))
	in.SetBytes(TagEncryptedData, []byte{1, 2, 3})
	zzRecover(t, "verify M2 with 3 bytes of encrypted data", func() {
		if _, err := c.Handle(in); err == nil {
			t.Error("no error")
		}
	})
}

// setup-M6 with fewer than 16 bytes of encrypted data
func TestZZSetupClientShortEncryptedData(t *testing.T) {
	database, _ := db.NewTempDatabase()
	client, _ := hap.NewDevice("ctrl", database)
	c := NewSetupClientController("001-02-003", client, database)
	in := util.NewTLV8Container()
	in.SetByte(TagSequence, PairStepKeyExchangeResponse.Byte())
	in.SetBytes(TagEncryptedData, []byte{1, 2, 3})
	zzRecover(t, "setup M6 with 3 bytes of encrypted data", func() {
		c.Handle(in)
	})
}

// an accessory that answers M4 with "authentication failed" (wrong setup code)
func TestZZSetupClientErrorCode(t *testing.T) {
	database, _ := db.NewTempDatabase()
	client, _ := hap.NewDevice("ctrl", database)
	c := NewSetupClientController("001-02-003", client, database)
	in := util.NewTLV8Container()
	in.SetByte(TagSequence, PairStepVerifyResponse.Byte())
	in.SetByte(TagErrCode, ErrCodeAuthenticationFailed.Byte())
	zzRecover(t, "setup M4 with error code 2", func() {
		if _, err := c.Handle(in); err == nil {
			t.Error("no error")
		}
	})
}

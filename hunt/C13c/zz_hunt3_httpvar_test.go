package hc

import (
	"fmt"
	"testing"
	"time"
)

// valid HTTP variants of correct requests
func TestZZHTTPVariants(t *testing.T) {
	a := zzStartAcc(t)
	defer a.stop()
	cl0, ctrl := zzPairedClient(t, a, "hv")
	cl0.close()
	onID := a.bulb.Lightbulb.On.ID
	body := fmt.Sprintf(`{"characteristics":[{"aid":1,"iid":%d,"value":true}]}`, onID)
	chunked := fmt.Sprintf("%x\r\n%s\r\n0\r\n\r\n", len(body), body)
	type tc struct {
		name   string
		req    string
		method string
		want   int
		extra  func(cl *zzClient) error // between request and response
		closes bool
	}
	cases := []tc{
		{"chunked PUT", "PUT /characteristics HTTP/1.1\r\nHost: x\r\nTransfer-Encoding: chunked\r\n\r\n" + chunked, "PUT", 204, nil, false},
		{"HTTP/1.0 GET", "GET /accessories HTTP/1.0\r\n\r\n", "GET", 200, nil, true},
		{"Connection: close", "GET /accessories HTTP/1.1\r\nHost: x\r\nConnection: close\r\n\r\n", "GET", 200, nil, true},
		{"HEAD", "HEAD /accessories HTTP/1.1\r\nHost: x\r\n\r\n", "HEAD", 200, nil, false},
		{"absolute URI", "GET http://x/accessories HTTP/1.1\r\nHost: x\r\n\r\n", "GET", 200, nil, false},
		{"GET with body", "GET /accessories HTTP/1.1\r\nHost: x\r\nContent-Length: 5\r\n\r\nhello", "GET", 200, nil, false},
		{"identify with big body", "POST /identify HTTP/1.1\r\nHost: x\r\nContent-Length: 3000\r\n\r\n" + string(make([]byte, 3000)), "POST", 204, nil, false},
		{"OPTIONS *", "OPTIONS * HTTP/1.1\r\nHost: x\r\n\r\n", "OPTIONS", 200, nil, false},
		{"leading CRLF", "\r\nGET /accessories HTTP/1.1\r\nHost: x\r\n\r\n", "GET", 200, nil, false},
	}
	for _, c := range cases {
		cl := zzDial(t, a)
		if err := zzPairVerify(cl, ctrl); err != nil {
			t.Fatal(err)
		}
		cl.timeout = 3 * time.Second
		if err := cl.writeRaw([]byte(c.req)); err != nil {
			t.Fatal(err)
		}
		resp, err := cl.readResp(c.method)
		if err != nil {
			t.Errorf("%s: not answered: %v", c.name, err)
		} else if resp.status != c.want {
			t.Errorf("%s: status %d, want %d", c.name, resp.status, c.want)
		} else if !c.closes {
			if resp, err := cl.do("GET", "/accessories", "", nil); err != nil || resp.status != 200 {
				t.Errorf("%s: connection unusable afterwards: %v %v", c.name, resp, err)
			}
		}
		cl.close()
	}
	// Expect: 100-continue
	{
		cl := zzDial(t, a)
		if err := zzPairVerify(cl, ctrl); err != nil {
			t.Fatal(err)
		}
		cl.timeout = 3 * time.Second
		cl.writeRaw([]byte(fmt.Sprintf("PUT /characteristics HTTP/1.1\r\nHost: x\r\nExpect: 100-continue\r\nContent-Length: %d\r\n\r\n", len(body))))
		resp, err := cl.readResp("PUT")
		if err != nil || resp.status != 100 {
			t.Errorf("100-continue: %v %v", resp, err)
		} else {
			cl.writeRaw([]byte(body))
			resp, err := cl.readResp("PUT")
			if err != nil || resp.status != 204 {
				t.Errorf("100-continue, final: %v %v", resp, err)
			}
		}
		cl.close()
	}
	// the same on a plain connection with pair-setup M1
	{
		cl := zzDial(t, a)
		s := zzNewSetup(zzNewCtrl("x"), a.pin)
		m1 := s.m1()
		cl.writeRaw([]byte(fmt.Sprintf("POST /pair-setup HTTP/1.1\r\nHost: x\r\nTransfer-Encoding: chunked\r\n\r\n%x\r\n%s\r\n0\r\n\r\n", len(m1), m1)))
		resp, err := cl.readResp("POST")
		if err != nil || resp.status != 200 {
			t.Errorf("chunked M1: %v %v", resp, err)
		}
		cl.writeRaw([]byte(fmt.Sprintf("POST /pair-setup HTTP/1.1\r\nHost: x\r\nExpect: 100-continue\r\nContent-Length: %d\r\n\r\n", len(m1))))
		resp, err = cl.readResp("POST")
		if err != nil || resp.status != 100 {
			t.Errorf("plain 100-continue: %v %v", resp, err)
		} else {
			cl.writeRaw(m1)
			resp, err = cl.readResp("POST")
			if err != nil || (resp.status != 500 && resp.status != 200) {
				t.Errorf("plain 100-continue, final: %v %v", resp, err)
			}
		}
		cl.close()
	}
	if p := a.panics(); p != "" {
		t.Errorf("panic: %s", p)
	}
}

package hc

import (
	"math/rand"
	"testing"
	"os"
	"strings"
)

// pairings with all kinds of names and keys, then a restart on the same storage
func TestZZRestartAfterPairingsFuzz(t *testing.T) {
	dir := t.TempDir()
	a := zzStartAccIn(t, dir, true)
	r := rand.New(rand.NewSource(zzSeed()))
	cl, ctrl := zzPairedClient(t, a, "admin")
	for it := 0; it < 300; it++ {
		b, how := zzRandPairings(r, &zzCtrl{name: "other"}, a, it)
		resp, err := cl.do("POST", "/pairings", "application/pairing+tlv8", b)
		if !zzCheckAnswered(t, a, how, resp, err) {
			return
		}
	}
	cl.close()
	a.stop()
	fs, _ := os.ReadDir(dir)
	var names []string
	for _, f := range fs {
		names = append(names, f.Name())
	}
	t.Logf("%d files: %.300s", len(fs), strings.Join(names, " "))
	a2 := zzStartAccIn(t, dir, true)
	defer a2.stop()
	cl2 := zzDial(t, a2)
	defer cl2.close()
	if err := zzPairVerify(cl2, ctrl); err != nil {
		t.Fatalf("pair-verify after the restart: %v", err)
	}
	if resp, err := cl2.do("GET", "/accessories", "", nil); err != nil || resp.status != 200 {
		t.Fatalf("%v %v", resp, err)
	}
	es, err := a2.tr.database.Entities()
	t.Logf("%d entities, err %v, paired %v", len(es), err, a2.tr.isPaired())
}

package hc

import (
	"crypto/rand"
	"os"
	"strings"
	"testing"

	xcurve "golang.org/x/crypto/curve25519"
)

// Clause: "A controller implemented independently from the HAP specification ... completes
// pair-setup, then pair-verify".
//
// BORDERLINE. HAP R2 §5.8 (Pair Resume): a controller which has verified once may open its next
// session with a Pair Resume <M1>: State=M1, Method=6 (Pair Resume), PublicKey (a fresh
// Curve25519 key), SessionID, EncryptedData (auth tag). §5.8.2: "If the session is not found
// [...] the accessory must treat this as an attempt to perform Pair Verify" and answer with a
// regular Pair Verify <M2> - that is how an accessory without support for resumption stays
// compatible. hc answers HTTP 500 without a TLV body: hap/pair/verify_server_controller.go:51-55
// rejects every Method other than 0 before it looks at State.
func TestHunt4PairResumeFallsBackToPairVerify(t *testing.T) {
	a := startRefAcc(t, "03145154", "")
	defer a.stop()
	defer os.RemoveAll(a.dir)
	ctl := newRefController([]byte("7C5F2A0E-1111-2222-3333-0123456789AB"))
	rc := pairedConn(t, a, ctl) // pair-setup + a first pair-verify: the controller now owns a session id
	rc.Close()

	// (the known race of the key hand-over garbles <M4> now and then: that is not the subject here, try again)
	for try := 0; ; try++ {
		rc, _ = refDial(a.addr)
		defer rc.Close()
		var priv [32]byte
		rand.Read(priv[:])
		pub, _ := xcurve.X25519(priv[:], xcurve.Basepoint)
		sessionID := make([]byte, 8)
		rand.Read(sessionID)
		reqKey := refHKDF(make([]byte, 32), string(append(append([]byte{}, pub...), sessionID...)), "Pair-Resume-Request-Info")
		tag := refSeal(reqKey, "PR-Msg01", nil, nil)

		// <M1> of Pair Resume; the answer has to be a Pair Verify <M2>, and the exchange goes on as pair-verify
		ctl.VerifyM1Extra = []refTLV{{0, []byte{6}}, {0x0e, sessionID}, {5, tag}}
		err := ctl.PairVerifyWithKey(rc, priv[:], pub)
		if err != nil && strings.Contains(err.Error(), "V3/V4") && try < 5 {
			continue
		}
		if err != nil {
			t.Fatalf("Pair Resume <M1> with a session id the accessory does not know: %v; the spec wants a Pair Verify <M2>", err)
		}
		resp, body, err := rc.Do("GET", refRequest("GET", "/characteristics?id=1.9", "", nil))
		if err != nil || resp.StatusCode != 200 {
			t.Fatalf("%v %v %s", err, resp, body)
		}
		return
	}
}

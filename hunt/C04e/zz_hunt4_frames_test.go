package hc

import (
	"bytes"
	"fmt"
	"os"
	"strings"
	"testing"
)

func TestHunt4FrameSizes(t *testing.T) {
	a := startRefAcc(t, "03145154", "")
	defer a.stop()
	defer os.RemoveAll(a.dir)
	ctl := newRefController([]byte("frames"))
	rc := pairedConn(t, a, ctl)
	defer rc.Close()
	for _, fs := range []int{1, 2, 3, 17, 1023, 1024} {
		rc.FrameSize = fs
		for _, total := range []int{1024, 2048, 1023, 1025, 3072, 4096, 5000} {
			// a PUT whose total length is exactly `total`
			hdr := "PUT /characteristics HTTP/1.1\r\nHost: x\r\nContent-Length: %d\r\n\r\n"
			pre, post := `{"characteristics":[{"aid":1,"iid":9,"value":true}]`, `}`
			var raw []byte
			for pad := 0; pad < total; pad++ {
				body := pre + strings.Repeat(" ", pad) + post
				raw = []byte(fmt.Sprintf(hdr, len(body)) + body)
				if len(raw) >= total {
					break
				}
			}
			if len(raw) != total {
				continue
			}
			resp, b, err := rc.Do("PUT", raw)
			if err != nil || resp.StatusCode != 204 {
				t.Fatalf("frame %d total %d: %v %v %s", fs, total, err, resp, b)
			}
		}
		resp, b, err := rc.Do("GET", refRequest("GET", "/characteristics?id=1.9", "", nil))
		if err != nil || resp.StatusCode != 200 || !bytes.Contains(b, []byte("true")) {
			t.Fatalf("frame %d: %v %v %s", fs, err, resp, b)
		}
	}
}

package hc

import (
	"fmt"
	"os"
	"strings"
	"sync"
	"testing"
)

// restart on the same storage: the paired controller verifies against the same identity
func TestHunt4Restart(t *testing.T) {
	a := startRefAcc(t, "03145154", "")
	defer os.RemoveAll(a.dir)
	ctl := newRefController([]byte("7C5F2A0E-1111-2222-3333-0123456789AB"))
	rc, _ := refDial(a.addr)
	if err := ctl.PairSetup(rc, "031-45-154"); err != nil {
		t.Fatal(err)
	}
	rc.Close()
	a.stop()

	for i := 0; i < 3; i++ {
		b := startRefAcc(t, "03145154", a.dir)
		rc, err := refDial(b.addr)
		if err != nil {
			t.Fatal(err)
		}
		if err := ctl.PairVerify(rc); err != nil {
			t.Fatalf("restart %d: %v", i, err)
		}
		resp, body, err := rc.Do("GET", refRequest("GET", "/characteristics?id=1.9", "", nil))
		if err != nil || resp.StatusCode != 200 {
			t.Fatalf("restart %d: %v %v %s", i, err, resp, body)
		}
		rc.Close()
		b.stop()
	}
}

// many controllers at once
func TestHunt4Concurrent(t *testing.T) {
	a := startRefAcc(t, "03145154", "")
	defer a.stop()
	defer os.RemoveAll(a.dir)
	var wg sync.WaitGroup
	errs := make(chan error, 100)
	for i := 0; i < 8; i++ {
		wg.Add(1)
		go func(i int) {
			defer wg.Done()
			ctl := newRefController([]byte(fmt.Sprintf("ctl-%d", i)))
			rc, err := refDial(a.addr)
			if err != nil {
				errs <- err
				return
			}
			defer rc.Close()
			if err := ctl.PairSetup(rc, "031-45-154"); err != nil {
				errs <- fmt.Errorf("%d setup: %v", i, err)
				return
			}
			for k := 0; k < 3; k++ {
				rc2, _ := refDial(a.addr)
				if err := ctl.PairVerify(rc2); err != nil {
					if strings.Contains(err.Error(), "V3/V4") {
						// the known race of the key hand-over
						rc2.Close()
						continue
					}
					errs <- fmt.Errorf("%d verify: %v", i, err)
					rc2.Close()
					continue
				}
				for q := 0; q < 5; q++ {
					resp, body, err := rc2.Do("GET", refRequest("GET", "/accessories", "", nil))
					if err != nil || resp.StatusCode != 200 {
						errs <- fmt.Errorf("%d get: %v %v %s", i, err, resp, body)
						break
					}
				}
				rc2.Close()
			}
		}(i)
	}
	wg.Wait()
	close(errs)
	for e := range errs {
		t.Error(e)
	}
}

// a second controller added through /pairings verifies
func TestHunt4AddedPairing(t *testing.T) {
	a := startRefAcc(t, "03145154", "")
	defer a.stop()
	defer os.RemoveAll(a.dir)
	ctl := newRefController([]byte("admin-controller"))
	rc, _ := refDial(a.addr)
	defer rc.Close()
	if err := ctl.PairSetup(rc, "031-45-154"); err != nil {
		t.Fatal(err)
	}
	if err := ctl.PairVerify(rc); err != nil {
		t.Fatal(err)
	}
	other := newRefController([]byte("second-controller-ü"))
	other.AccID, other.AccLTPK = ctl.AccID, ctl.AccLTPK
	body := refTLVEncode([]refTLV{{6, []byte{1}}, {0, []byte{3}}, {1, other.ID}, {3, other.Pub}, {11, []byte{0}}})
	resp, rb, err := rc.Do("POST", refRequest("POST", "/pairings", "application/pairing+tlv8", body))
	if err != nil || resp.StatusCode != 200 {
		t.Fatalf("%v %v %x", err, resp, rb)
	}
	t.Logf("add: %x", rb)
	rc2, _ := refDial(a.addr)
	defer rc2.Close()
	if err := other.PairVerify(rc2); err != nil {
		t.Fatal(err)
	}
	resp, rb, err = rc2.Do("GET", refRequest("GET", "/characteristics?id=1.9", "", nil))
	if err != nil || resp.StatusCode != 200 {
		t.Fatalf("%v %v %s", err, resp, rb)
	}
}

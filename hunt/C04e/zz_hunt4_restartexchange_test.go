package hc

import (
	"crypto/rand"
	"os"
	"strings"
	"testing"

	xcurve "golang.org/x/crypto/curve25519"
)

// Clause: "A controller ... that knows the setup code completes pair-setup, then pair-verify".
//
// BORDERLINE. History: the controller sends Pair Setup <M1>, receives <M2>, gives the exchange up
// (the user dismissed the dialog for the setup code) and starts over with <M1> on the connection
// it already has. HAP R2 5.6.2: on <M1> the accessory answers Unavailable / MaxTries / Busy (a
// *different* controller is pairing) or creates a new SRP session and answers <M2>. hc answers
// HTTP 500 without a body (hap/pair/setup_server_controller.go:64-68: a start request is accepted
// in the state "waiting" only) and the controller does not complete pair-setup with the request
// the specification lets it send. The same for Pair Verify <M1> (verify_server_controller.go:60-64).
func TestHunt4SetupStartRequestRestartsTheExchange(t *testing.T) {
	a := startRefAcc(t, "03145154", "")
	defer a.stop()
	defer os.RemoveAll(a.dir)
	ctl := newRefController([]byte("7C5F2A0E-1111-2222-3333-0123456789AB"))
	rc, _ := refDial(a.addr)
	defer rc.Close()

	// <M1>, <M2>, and nothing more
	m2, _, err := rc.postTLV("/pair-setup", []refTLV{{6, []byte{1}}, {0, []byte{0}}})
	if err != nil {
		t.Fatal(err)
	}
	if st, _ := refTLVGet(m2, 6); len(st) != 1 || st[0] != 2 {
		t.Fatalf("state %x", st)
	}
	// the whole procedure from <M1>
	if err := ctl.PairSetup(rc, "031-45-154"); err != nil {
		t.Fatalf("pair-setup started again on the same connection: %v", err)
	}
}

func TestHunt4VerifyStartRequestRestartsTheExchange(t *testing.T) {
	a := startRefAcc(t, "03145154", "")
	defer a.stop()
	defer os.RemoveAll(a.dir)
	ctl := newRefController([]byte("7C5F2A0E-1111-2222-3333-0123456789AB"))
	rc, _ := refDial(a.addr)
	if err := ctl.PairSetup(rc, "031-45-154"); err != nil {
		t.Fatal(err)
	}
	rc.Close()

	// (the known race of the key hand-over garbles <M4> now and then: that is not the subject here, try again)
	for try := 0; ; try++ {
		rc, _ = refDial(a.addr)
		defer rc.Close()
		var priv [32]byte
		rand.Read(priv[:])
		pub, _ := xcurve.X25519(priv[:], xcurve.Basepoint)
		if _, _, err := rc.postTLV("/pair-verify", []refTLV{{6, []byte{1}}, {3, pub}}); err != nil {
			t.Fatal(err)
		}
		// the controller drops that exchange and starts a new one with a new key
		err := ctl.PairVerify(rc)
		if err != nil && strings.Contains(err.Error(), "V3/V4") && try < 5 {
			continue
		}
		if err != nil {
			t.Fatalf("pair-verify started again on the same connection: %v", err)
		}
		resp, body, err := rc.Do("GET", refRequest("GET", "/characteristics?id=1.9", "", nil))
		if err != nil || resp.StatusCode != 200 {
			t.Fatalf("%v %v %s", err, resp, body)
		}
		return
	}
}

package hc

// Reference HAP controller written from the specification (HAP R2 ch. 5/6),
// independent of hc's pair/ crypto/ util packages. Used by the zz_hunt4 tests.

import (
	"bufio"
	"bytes"
	"crypto/ed25519"
	"crypto/rand"
	"crypto/sha512"
	"encoding/binary"
	"errors"
	"fmt"
	"io"
	"math/big"
	"net"
	"net/http"
	"time"

	xchacha "golang.org/x/crypto/chacha20poly1305"
	xcurve "golang.org/x/crypto/curve25519"
	xhkdf "golang.org/x/crypto/hkdf"
)

const refNHex = "FFFFFFFFFFFFFFFFC90FDAA22168C234C4C6628B80DC1CD129024E088A67CC74020BBEA63B139B22514A08798E3404DDEF9519B3CD3A431B302B0A6DF25F14374FE1356D6D51C245E485B576625E7EC6F44C42E9A637ED6B0BFF5CB6F406B7EDEE386BFB5A899FA5AE9F24117C4B1FE649286651ECE45B3DC2007CB8A163BF0598DA48361C55D39A69163FA8FD24CF5F83655D23DCA3AD961C62F356208552BB9ED529077096966D670C354E4ABC9804F1746C08CA18217C32905E462E36CE3BE39E772C180E86039B2783A2EC07A28FB5C55DF06F4C52C9DE2BCBF6955817183995497CEA956AE515D2261898FA051015728E5A8AAAC42DAD33170D04507A33A85521ABDF1CBA64ECFB850458DBEF0A8AEA71575D060C7DB3970F85A6E1E4C7ABF5AE8CDB0933D71E8C94E04A25619DCEE3D2261AD2EE6BF12FFA06D98A0864D87602733EC86A64521F2B18177B200CBBE117577A615D6C770988C0BAD946E208E24FA074E5AB3143DB5BFCE0FD108E4B82D120A93AD2CAFFFFFFFFFFFFFFFF"

// ---- TLV8 ----

type refTLV struct {
	tag byte
	val []byte
}

func refTLVEncode(items []refTLV) []byte {
	var b bytes.Buffer
	for _, it := range items {
		v := it.val
		if len(v) == 0 {
			b.Write([]byte{it.tag, 0})
			continue
		}
		for len(v) > 0 {
			n := len(v)
			if n > 255 {
				n = 255
			}
			b.WriteByte(it.tag)
			b.WriteByte(byte(n))
			b.Write(v[:n])
			v = v[n:]
		}
	}
	return b.Bytes()
}

// refTLVDecode merges consecutive fragments of the same tag (spec 14.1).
func refTLVDecode(b []byte) ([]refTLV, error) {
	var out []refTLV
	prevLen := -1
	for len(b) > 0 {
		if len(b) < 2 {
			return nil, errors.New("tlv: short header")
		}
		tag, l := b[0], int(b[1])
		if len(b) < 2+l {
			return nil, errors.New("tlv: short value")
		}
		v := b[2 : 2+l]
		b = b[2+l:]
		if n := len(out); n > 0 && out[n-1].tag == tag && prevLen == 255 {
			out[n-1].val = append(out[n-1].val, v...)
		} else {
			out = append(out, refTLV{tag, append([]byte(nil), v...)})
		}
		prevLen = l
	}
	return out, nil
}

func refTLVGet(items []refTLV, tag byte) ([]byte, bool) {
	for _, it := range items {
		if it.tag == tag {
			return it.val, true
		}
	}
	return nil, false
}

func refTLVCount(items []refTLV, tag byte) int {
	n := 0
	for _, it := range items {
		if it.tag == tag {
			n++
		}
	}
	return n
}

// ---- primitives ----

func refHKDF(ikm []byte, salt, info string) []byte {
	r := xhkdf.New(sha512.New, ikm, []byte(salt), []byte(info))
	k := make([]byte, 32)
	io.ReadFull(r, k)
	return k
}

func refSeal(key []byte, nonce string, plain, aad []byte) []byte {
	a, _ := xchacha.New(key)
	var n [12]byte
	copy(n[4:], nonce)
	return a.Seal(nil, n[:], plain, aad)
}

func refOpen(key []byte, nonce string, ct, aad []byte) ([]byte, error) {
	a, _ := xchacha.New(key)
	var n [12]byte
	copy(n[4:], nonce)
	return a.Open(nil, n[:], ct, aad)
}

func refH(parts ...[]byte) []byte {
	h := sha512.New()
	for _, p := range parts {
		h.Write(p)
	}
	return h.Sum(nil)
}

func refPad(b []byte, n int) []byte {
	if len(b) >= n {
		return b
	}
	out := make([]byte, n)
	copy(out[n-len(b):], b)
	return out
}

// ---- controller ----

type refController struct {
	ID   []byte
	Pub  ed25519.PublicKey
	Priv ed25519.PrivateKey

	AccID   []byte
	AccLTPK []byte

	// VerifyM1Extra are items added to the pair-verify start request (Pair Resume)
	VerifyM1Extra []refTLV
}

func newRefController(id []byte) *refController {
	pub, priv, _ := ed25519.GenerateKey(rand.Reader)
	return &refController{ID: id, Pub: pub, Priv: priv}
}

type refConn struct {
	c  net.Conn
	br *bufio.Reader // over the (possibly decrypting) reader

	enc        bool
	wKey, rKey []byte
	wCnt, rCnt uint64
	raw        *bufio.Reader
	pending    bytes.Buffer

	// FrameSize is the size of frames the controller writes (<= 1024)
	FrameSize int
	// SegmentHook, if set, is used to write bytes to the socket (to control segmentation)
	SegmentHook func(c net.Conn, b []byte) error
}

func refDial(addr string) (*refConn, error) {
	c, err := net.DialTimeout("tcp", addr, 2*time.Second)
	if err != nil {
		return nil, err
	}
	rc := &refConn{c: c, FrameSize: 1024}
	rc.raw = bufio.NewReaderSize(c, 65536)
	rc.br = bufio.NewReader(rc)
	return rc, nil
}

func (rc *refConn) Close() { rc.c.Close() }

// Read implements the controller's receive path.
func (rc *refConn) Read(p []byte) (int, error) {
	if !rc.enc {
		return rc.raw.Read(p)
	}
	if rc.pending.Len() == 0 {
		var hdr [2]byte
		if _, err := io.ReadFull(rc.raw, hdr[:]); err != nil {
			return 0, err
		}
		l := int(binary.LittleEndian.Uint16(hdr[:]))
		if l > 1024 {
			return 0, fmt.Errorf("ref: frame length %d > 1024", l)
		}
		ct := make([]byte, l+16)
		if _, err := io.ReadFull(rc.raw, ct); err != nil {
			return 0, fmt.Errorf("ref: short frame: %v", err)
		}
		var nonce [8]byte
		binary.LittleEndian.PutUint64(nonce[:], rc.rCnt)
		plain, err := refOpen(rc.rKey, string(nonce[:]), ct, hdr[:])
		if err != nil {
			return 0, fmt.Errorf("ref: frame %d does not authenticate (hdr %x, first bytes %q)", rc.rCnt, hdr, ct[:minInt(len(ct), 24)])
		}
		rc.rCnt++
		rc.pending.Write(plain)
	}
	return rc.pending.Read(p)
}

func minInt(a, b int) int {
	if a < b {
		return a
	}
	return b
}

func (rc *refConn) writeSock(b []byte) error {
	if rc.SegmentHook != nil {
		return rc.SegmentHook(rc.c, b)
	}
	_, err := rc.c.Write(b)
	return err
}

// encFrames turns a message into frames.
func (rc *refConn) encFrames(msg []byte) []byte {
	var out bytes.Buffer
	fs := rc.FrameSize
	if fs <= 0 || fs > 1024 {
		fs = 1024
	}
	for len(msg) > 0 {
		n := minInt(len(msg), fs)
		var hdr [2]byte
		binary.LittleEndian.PutUint16(hdr[:], uint16(n))
		var nonce [8]byte
		binary.LittleEndian.PutUint64(nonce[:], rc.wCnt)
		rc.wCnt++
		out.Write(hdr[:])
		out.Write(refSeal(rc.wKey, string(nonce[:]), msg[:n], hdr[:]))
		msg = msg[n:]
	}
	return out.Bytes()
}

func (rc *refConn) Send(msg []byte) error {
	if rc.enc {
		return rc.writeSock(rc.encFrames(msg))
	}
	return rc.writeSock(msg)
}

// Do sends a raw HTTP request and reads one response.
func (rc *refConn) Do(method string, raw []byte) (*http.Response, []byte, error) {
	if err := rc.Send(raw); err != nil {
		return nil, nil, err
	}
	return rc.ReadResponse(method)
}

func (rc *refConn) ReadResponse(method string) (*http.Response, []byte, error) {
	rc.c.SetReadDeadline(time.Now().Add(5 * time.Second))
	defer rc.c.SetReadDeadline(time.Time{})
	resp, err := http.ReadResponse(rc.br, &http.Request{Method: method})
	if err != nil {
		return nil, nil, err
	}
	body, err := io.ReadAll(resp.Body)
	resp.Body.Close()
	return resp, body, err
}

func refRequest(method, path, ctype string, body []byte) []byte {
	var b bytes.Buffer
	fmt.Fprintf(&b, "%s %s HTTP/1.1\r\nHost: lamp._hap._tcp.local\r\n", method, path)
	if body != nil {
		fmt.Fprintf(&b, "Content-Type: %s\r\nContent-Length: %d\r\n", ctype, len(body))
	}
	b.WriteString("\r\n")
	b.Write(body)
	return b.Bytes()
}

func (rc *refConn) postTLV(path string, items []refTLV) ([]refTLV, *http.Response, error) {
	resp, body, err := rc.Do("POST", refRequest("POST", path, "application/pairing+tlv8", refTLVEncode(items)))
	if err != nil {
		return nil, nil, err
	}
	if resp.StatusCode != 200 {
		return nil, resp, fmt.Errorf("ref: %s: HTTP status %d body %x", path, resp.StatusCode, body)
	}
	if ct := resp.Header.Get("Content-Type"); ct != "application/pairing+tlv8" {
		return nil, resp, fmt.Errorf("ref: %s: content type %q", path, ct)
	}
	out, err := refTLVDecode(body)
	return out, resp, err
}

type refAuthError struct{ code byte }

func (e refAuthError) Error() string { return fmt.Sprintf("accessory answered kTLVError %d", e.code) }

// PairSetup runs M1..M6 with the given setup code and checks everything the spec lets a controller check.
func (ctl *refController) PairSetup(rc *refConn, setupCode string) error {
	N, _ := new(big.Int).SetString(refNHex, 16)
	g := big.NewInt(5)

	// M1
	m2, _, err := rc.postTLV("/pair-setup", []refTLV{{6, []byte{1}}, {0, []byte{0}}})
	if err != nil {
		return fmt.Errorf("M1/M2: %v", err)
	}
	if e, ok := refTLVGet(m2, 7); ok {
		return refAuthError{e[0]}
	}
	if st, _ := refTLVGet(m2, 6); len(st) != 1 || st[0] != 2 {
		return fmt.Errorf("M2: state %x", st)
	}
	Bb, _ := refTLVGet(m2, 3)
	salt, _ := refTLVGet(m2, 2)
	if len(salt) != 16 {
		return fmt.Errorf("M2: salt of %d bytes", len(salt))
	}
	if len(Bb) == 0 || len(Bb) > 384 {
		return fmt.Errorf("M2: B of %d bytes", len(Bb))
	}
	B := new(big.Int).SetBytes(Bb)
	if new(big.Int).Mod(B, N).Sign() == 0 {
		return errors.New("M2: B % N == 0")
	}

	// SRP-6a client
	abytes := make([]byte, 32)
	rand.Read(abytes)
	a := new(big.Int).SetBytes(abytes)
	A := new(big.Int).Exp(g, a, N)
	k := new(big.Int).SetBytes(refH(N.Bytes(), refPad(g.Bytes(), 384)))
	u := new(big.Int).SetBytes(refH(refPad(A.Bytes(), 384), refPad(B.Bytes(), 384)))
	x := new(big.Int).SetBytes(refH(salt, refH([]byte("Pair-Setup:"+setupCode))))
	// S = (B - k*g^x)^(a+u*x)
	gx := new(big.Int).Exp(g, x, N)
	base := new(big.Int).Sub(B, new(big.Int).Mod(new(big.Int).Mul(k, gx), N))
	base.Mod(base, N)
	exp := new(big.Int).Add(a, new(big.Int).Mul(u, x))
	S := new(big.Int).Exp(base, exp, N)
	// leading zeros are a known divergence: use the unpadded forms throughout (as iOS does)
	K := refH(S.Bytes())
	hn, hg := refH(N.Bytes()), refH(g.Bytes())
	hx := make([]byte, len(hn))
	for i := range hn {
		hx[i] = hn[i] ^ hg[i]
	}
	M1 := refH(hx, refH([]byte("Pair-Setup")), salt, A.Bytes(), B.Bytes(), K)

	// M3
	m4, _, err := rc.postTLV("/pair-setup", []refTLV{{6, []byte{3}}, {3, A.Bytes()}, {4, M1}})
	if err != nil {
		return fmt.Errorf("M3/M4: %v", err)
	}
	if st, _ := refTLVGet(m4, 6); len(st) != 1 || st[0] != 4 {
		return fmt.Errorf("M4: state %x", st)
	}
	if e, ok := refTLVGet(m4, 7); ok {
		return refAuthError{e[0]}
	}
	M2 := refH(A.Bytes(), M1, K)
	if p, _ := refTLVGet(m4, 4); !bytes.Equal(p, M2) {
		return fmt.Errorf("M4: accessory proof does not verify")
	}

	// M5
	sessKey := refHKDF(K, "Pair-Setup-Encrypt-Salt", "Pair-Setup-Encrypt-Info")
	cx := refHKDF(K, "Pair-Setup-Controller-Sign-Salt", "Pair-Setup-Controller-Sign-Info")
	info := append(append(append([]byte{}, cx...), ctl.ID...), ctl.Pub...)
	sig := ed25519.Sign(ctl.Priv, info)
	sub := refTLVEncode([]refTLV{{1, ctl.ID}, {3, ctl.Pub}, {10, sig}})
	m6, _, err := rc.postTLV("/pair-setup", []refTLV{{6, []byte{5}}, {5, refSeal(sessKey, "PS-Msg05", sub, nil)}})
	if err != nil {
		return fmt.Errorf("M5/M6: %v", err)
	}
	if n := refTLVCount(m6, 6); n != 1 {
		return fmt.Errorf("M6: %d state items", n)
	}
	if st, _ := refTLVGet(m6, 6); len(st) != 1 || st[0] != 6 {
		return fmt.Errorf("M6: state %x", st)
	}
	if e, ok := refTLVGet(m6, 7); ok {
		return refAuthError{e[0]}
	}
	ed, _ := refTLVGet(m6, 5)
	if len(ed) < 16 {
		return fmt.Errorf("M6: encrypted data of %d bytes", len(ed))
	}
	plain, err := refOpen(sessKey, "PS-Msg06", ed, nil)
	if err != nil {
		return fmt.Errorf("M6: encrypted data does not authenticate")
	}
	st, err := refTLVDecode(plain)
	if err != nil {
		return fmt.Errorf("M6: sub-TLV: %v", err)
	}
	accID, _ := refTLVGet(st, 1)
	accLTPK, _ := refTLVGet(st, 3)
	accSig, _ := refTLVGet(st, 10)
	if len(accLTPK) != 32 || len(accSig) != 64 || len(accID) == 0 {
		return fmt.Errorf("M6: id %q ltpk %d sig %d", accID, len(accLTPK), len(accSig))
	}
	ax := refHKDF(K, "Pair-Setup-Accessory-Sign-Salt", "Pair-Setup-Accessory-Sign-Info")
	ainfo := append(append(append([]byte{}, ax...), accID...), accLTPK...)
	if !ed25519.Verify(accLTPK, ainfo, accSig) {
		return fmt.Errorf("M6: accessory signature does not verify")
	}
	ctl.AccID = append([]byte(nil), accID...)
	ctl.AccLTPK = append([]byte(nil), accLTPK...)
	return nil
}

// PairVerify runs M1..M4 and installs the session keys on rc.
func (ctl *refController) PairVerify(rc *refConn) error {
	var priv [32]byte
	rand.Read(priv[:])
	pub, _ := xcurve.X25519(priv[:], xcurve.Basepoint)
	return ctl.PairVerifyWithKey(rc, priv[:], pub)
}

func (ctl *refController) PairVerifyWithKey(rc *refConn, priv, pub []byte) error {
	m2, _, err := rc.postTLV("/pair-verify", append([]refTLV{{6, []byte{1}}, {3, pub}}, ctl.VerifyM1Extra...))
	if err != nil {
		return fmt.Errorf("V1/V2: %v", err)
	}
	if e, ok := refTLVGet(m2, 7); ok {
		return refAuthError{e[0]}
	}
	if st, _ := refTLVGet(m2, 6); len(st) != 1 || st[0] != 2 {
		return fmt.Errorf("V2: state %x", st)
	}
	apub, _ := refTLVGet(m2, 3)
	if len(apub) != 32 {
		return fmt.Errorf("V2: accessory curve key of %d bytes", len(apub))
	}
	shared, err := xcurve.X25519(priv, apub)
	if err != nil {
		return fmt.Errorf("V2: x25519: %v", err)
	}
	sessKey := refHKDF(shared, "Pair-Verify-Encrypt-Salt", "Pair-Verify-Encrypt-Info")
	ed, _ := refTLVGet(m2, 5)
	plain, err := refOpen(sessKey, "PV-Msg02", ed, nil)
	if err != nil {
		return fmt.Errorf("V2: encrypted data does not authenticate")
	}
	sub, err := refTLVDecode(plain)
	if err != nil {
		return err
	}
	accID, _ := refTLVGet(sub, 1)
	accSig, _ := refTLVGet(sub, 10)
	if !bytes.Equal(accID, ctl.AccID) {
		return fmt.Errorf("V2: accessory id %q, paired with %q", accID, ctl.AccID)
	}
	ainfo := append(append(append([]byte{}, apub...), accID...), pub...)
	if !ed25519.Verify(ctl.AccLTPK, ainfo, accSig) {
		return fmt.Errorf("V2: accessory signature does not verify")
	}
	cinfo := append(append(append([]byte{}, pub...), ctl.ID...), apub...)
	csig := ed25519.Sign(ctl.Priv, cinfo)
	csub := refTLVEncode([]refTLV{{1, ctl.ID}, {10, csig}})
	m4, _, err := rc.postTLV("/pair-verify", []refTLV{{6, []byte{3}}, {5, refSeal(sessKey, "PV-Msg03", csub, nil)}})
	if err != nil {
		return fmt.Errorf("V3/V4: %v", err)
	}
	if e, ok := refTLVGet(m4, 7); ok {
		return refAuthError{e[0]}
	}
	if st, _ := refTLVGet(m4, 6); len(st) != 1 || st[0] != 4 {
		return fmt.Errorf("V4: state %x", st)
	}
	if rc.br.Buffered() != 0 || rc.raw.Buffered() != 0 {
		return fmt.Errorf("V4: %d/%d unexpected bytes after M4", rc.br.Buffered(), rc.raw.Buffered())
	}
	rc.wKey = refHKDF(shared, "Control-Salt", "Control-Write-Encryption-Key")
	rc.rKey = refHKDF(shared, "Control-Salt", "Control-Read-Encryption-Key")
	rc.wCnt, rc.rCnt = 0, 0
	rc.enc = true
	return nil
}

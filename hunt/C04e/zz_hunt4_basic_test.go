package hc

import (
	"bytes"
	"fmt"
	"io/ioutil"
	mrand "math/rand"
	"net"
	"os"
	"strings"
	"testing"
	"time"

	"github.com/brutella/hc/accessory"
	"github.com/brutella/hc/log"
)

var _ = log.Debug

func refFreePort(t testing.TB) string {
	l, err := net.Listen("tcp", "127.0.0.1:0")
	if err != nil {
		t.Fatal(err)
	}
	_, p, _ := net.SplitHostPort(l.Addr().String())
	l.Close()
	return p
}

type refAcc struct {
	tr   *ipTransport
	addr string
	dir  string
	acc  *accessory.Lightbulb
}

func startRefAcc(t testing.TB, pin string, dir string) *refAcc {
	if dir == "" {
		d, err := ioutil.TempDir("", "hunt4")
		if err != nil {
			t.Fatal(err)
		}
		dir = d
	}
	port := refFreePort(t)
	acc := accessory.NewLightbulb(accessory.Info{Name: "Lamp", SerialNumber: "1", Manufacturer: "m", Model: "x"})
	tr, err := NewIPTransport(Config{StoragePath: dir, Port: port, Pin: pin}, acc.Accessory)
	if err != nil {
		t.Fatal(err)
	}
	go tr.Start()
	addr := "127.0.0.1:" + port
	for i := 0; i < 200; i++ {
		c, err := net.Dial("tcp", addr)
		if err == nil {
			c.Close()
			break
		}
		time.Sleep(10 * time.Millisecond)
	}
	return &refAcc{tr: tr, addr: addr, dir: dir, acc: acc}
}

func (a *refAcc) stop() {
	select {
	case <-a.tr.Stop():
	case <-time.After(3 * time.Second):
	}
}

func fmtCode(pin string) string { return pin[:3] + "-" + pin[3:5] + "-" + pin[5:] }

func TestHunt4Basic(t *testing.T) {
	a := startRefAcc(t, "03145154", "")
	defer a.stop()
	defer os.RemoveAll(a.dir)

	ctl := newRefController([]byte("7C5F2A0E-1111-2222-3333-0123456789AB"))
	rc, err := refDial(a.addr)
	if err != nil {
		t.Fatal(err)
	}
	if err := ctl.PairSetup(rc, fmtCode("03145154")); err != nil {
		t.Fatal(err)
	}
	rc.Close()

	rc, _ = refDial(a.addr)
	defer rc.Close()
	if err := ctl.PairVerify(rc); err != nil {
		t.Fatal(err)
	}
	resp, body, err := rc.Do("GET", refRequest("GET", "/accessories", "", nil))
	if err != nil {
		t.Fatal(err)
	}
	t.Logf("%d %v %s", resp.StatusCode, resp.Header, body)
	for i := 0; i < 3; i++ {
		resp, body, err = rc.Do("GET", refRequest("GET", "/characteristics?id=1.2,1.3", "", nil))
		if err != nil {
			t.Fatal(err)
		}
		t.Logf("%d %v %s", resp.StatusCode, resp.Header, body)
	}
	// big PUT
	var b bytes.Buffer
	b.WriteString(`{"characteristics":[`)
	for i := 0; i < 300; i++ {
		if i > 0 {
			b.WriteString(",")
		}
		fmt.Fprintf(&b, `{"aid":1,"iid":%d,"value":%v}`, 9, i%2 == 0)
	}
	b.WriteString("]}")
	resp, body, err = rc.Do("PUT", refRequest("PUT", "/characteristics", "application/hap+json", b.Bytes()))
	if err != nil {
		t.Fatal(err)
	}
	t.Logf("%d %v %s", resp.StatusCode, resp.Header, body)
	_ = strings.Contains
	_ = mrand.Int
}

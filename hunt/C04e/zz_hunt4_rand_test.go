package hc

import (
	"bytes"
	"encoding/json"
	"fmt"
	mrand "math/rand"
	"net"
	"os"
	"strings"
	"testing"
	"time"
	"unicode/utf8"
)

func randUTF8(r *mrand.Rand, maxBytes int) []byte {
	n := 1 + r.Intn(maxBytes)
	var b []byte
	for len(b) < n {
		var ru rune
		switch r.Intn(5) {
		case 0:
			ru = rune(r.Intn(0x80))
		case 1:
			ru = rune(0x80 + r.Intn(0x780))
		case 2:
			ru = rune(0x800 + r.Intn(0xD000))
		case 3:
			ru = rune(0x10000 + r.Intn(0x10000))
		default:
			ru = rune('A' + r.Intn(26))
		}
		if !utf8.ValidRune(ru) {
			continue
		}
		e := []byte(string(ru))
		if len(b)+len(e) > maxBytes {
			if len(b) > 0 {
				break
			}
			continue
		}
		b = append(b, e...)
	}
	return b
}

func randSegHook(r *mrand.Rand) func(c net.Conn, b []byte) error {
	return func(c net.Conn, b []byte) error {
		for len(b) > 0 {
			n := 1 + r.Intn(len(b))
			if r.Intn(3) == 0 {
				n = minInt(len(b), 1+r.Intn(40))
			}
			if _, err := c.Write(b[:n]); err != nil {
				return err
			}
			b = b[n:]
			if len(b) > 0 && r.Intn(2) == 0 {
				time.Sleep(time.Duration(r.Intn(3)) * time.Millisecond)
			}
		}
		return nil
	}
}

func TestHunt4Random(t *testing.T) {
	seed := time.Now().UnixNano()
	if s := os.Getenv("HUNT_SEED"); s != "" {
		fmt.Sscan(s, &seed)
	}
	t.Logf("seed %d", seed)
	r := mrand.New(mrand.NewSource(seed))

	pins := []string{"00000001", "00102003", "99999998", "10000000", "01234567"}
	pin := pins[r.Intn(len(pins))]
	if r.Intn(2) == 0 {
		pin = fmt.Sprintf("%08d", r.Intn(100000000))
		if _, err := ValidatePin(pin); err != nil {
			pin = "31415926"
		}
	}
	a := startRefAcc(t, pin, "")
	defer a.stop()
	defer os.RemoveAll(a.dir)

	for it := 0; it < 12; it++ {
		id := randUTF8(r, 64)
		ctl := newRefController(id)
		rc, err := refDial(a.addr)
		if err != nil {
			t.Fatal(err)
		}
		if r.Intn(2) == 0 {
			rc.SegmentHook = randSegHook(r)
		}
		if r.Intn(3) == 0 {
			// wrong code first
			wrong := fmtCode(fmt.Sprintf("%08d", (r.Intn(99999990) + 1)))
			if wrong != fmtCode(pin) {
				err := ctl.PairSetup(rc, wrong)
				if ae, ok := err.(refAuthError); !ok || ae.code != 2 {
					t.Fatalf("it %d: wrong code answered with %v", it, err)
				}
				if e, err := a.tr.database.EntityWithName(string(id)); err == nil {
					t.Fatalf("it %d: entity stored after wrong code: %+v", it, e)
				}
				if r.Intn(2) == 0 {
					rc.Close()
					rc, _ = refDial(a.addr)
				}
			}
		}
		if err := ctl.PairSetup(rc, fmtCode(pin)); err != nil {
			t.Fatalf("it %d: id %q pin %s: pair-setup: %v", it, id, pin, err)
		}
		e, err := a.tr.database.EntityWithName(string(id))
		if err != nil || !bytes.Equal(e.PublicKey, ctl.Pub) || e.Name != string(id) {
			t.Fatalf("it %d: id %q stored entity %+v err %v", it, id, e, err)
		}
		if r.Intn(2) == 0 {
			rc.Close()
			rc, _ = refDial(a.addr)
			if r.Intn(2) == 0 {
				rc.SegmentHook = randSegHook(r)
			}
		}
		if err := ctl.PairVerify(rc); err != nil {
			if strings.Contains(err.Error(), "V3/V4") {
				t.Logf("it %d: known M4 race? %v", it, err)
				rc.Close()
				continue
			}
			t.Fatalf("it %d: id %q: pair-verify: %v", it, id, err)
		}
		want := a.acc.Lightbulb.On.GetValue()
		for q := 0; q < 8; q++ {
			rc.FrameSize = 1024
			if r.Intn(2) == 0 {
				rc.FrameSize = 1 + r.Intn(1024)
			}
			switch r.Intn(3) {
			case 0:
				resp, body, err := rc.Do("GET", refRequest("GET", "/accessories", "", nil))
				if err != nil || resp.StatusCode != 200 || !json.Valid(body) {
					t.Fatalf("it %d q %d: GET /accessories: %v %v %q", it, q, err, resp, body)
				}
			case 1:
				resp, body, err := rc.Do("GET", refRequest("GET", "/characteristics?id=1.9", "", nil))
				if err != nil || resp.StatusCode != 200 {
					t.Fatalf("it %d q %d: GET /characteristics: %v %v %q", it, q, err, resp, body)
				}
				exp := fmt.Sprintf(`{"characteristics":[{"aid":1,"iid":9,"value":%v}]}`, want)
				if strings.TrimSpace(string(body)) != exp {
					t.Fatalf("it %d q %d: body %q want %q", it, q, body, exp)
				}
			case 2:
				n := 1 + r.Intn(400)
				if r.Intn(3) == 0 {
					n = 1
				}
				var b bytes.Buffer
				b.WriteString(`{"characteristics":[`)
				for i := 0; i < n; i++ {
					if i > 0 {
						b.WriteString(",")
					}
					want = r.Intn(2) == 0
					fmt.Fprintf(&b, `{"aid":1,"iid":9,"value":%v}`, want)
				}
				b.WriteString("]}")
				resp, body, err := rc.Do("PUT", refRequest("PUT", "/characteristics", "application/hap+json", b.Bytes()))
				if err != nil || resp.StatusCode != 204 {
					t.Fatalf("it %d q %d: PUT (%d bytes, frame %d): %v %v %q", it, q, b.Len(), rc.FrameSize, err, resp, body)
				}
				if got := a.acc.Lightbulb.On.GetValue(); got != want {
					t.Fatalf("it %d q %d: value %v want %v", it, q, got, want)
				}
			}
		}
		rc.Close()
	}
}

package hc

import (
	"bytes"
	"fmt"
	"os"
	"strings"
	"testing"
	"time"
)

func pairedConn(t *testing.T, a *refAcc, ctl *refController) *refConn {
	for try := 0; try < 5; try++ {
		rc, err := refDial(a.addr)
		if err != nil {
			t.Fatal(err)
		}
		if ctl.AccLTPK == nil {
			if err := ctl.PairSetup(rc, "031-45-154"); err != nil {
				t.Fatal(err)
			}
		}
		if err := ctl.PairVerify(rc); err != nil {
			t.Logf("verify: %v (retry)", err)
			rc.Close()
			continue
		}
		return rc
	}
	t.Fatal("no verified connection")
	return nil
}

func TestHunt4OddHTTP(t *testing.T) {
	a := startRefAcc(t, "03145154", "")
	defer a.stop()
	defer os.RemoveAll(a.dir)
	ctl := newRefController([]byte("odd-http"))

	get := "GET /characteristics?id=1.9 HTTP/1.1\r\nHost: x\r\n\r\n"
	type tc struct {
		name   string
		method string
		raw    string
		nresp  int
	}
	longq := strings.Repeat("1.9,", 2000) + "1.9"
	chunkedBody := "1c\r\n{\"characteristics\":[{\"aid\":1\r\n15\r\n,\"iid\":9,\"value\":1}]}\r\n0\r\n\r\n"
	body := `{"characteristics":[{"aid":1,"iid":9,"value":true}]}`
	cases := []tc{
		{"pipelined-2-in-1", "GET", get + get, 2},
		{"pipelined-5-in-1", "GET", get + get + get + get + get, 5},
		{"expect-100", "PUT", fmt.Sprintf("PUT /characteristics HTTP/1.1\r\nHost: x\r\nExpect: 100-continue\r\nContent-Length: %d\r\n\r\n%s", len(body), body), 1},
		{"chunked-put", "PUT", "PUT /characteristics HTTP/1.1\r\nHost: x\r\nTransfer-Encoding: chunked\r\n\r\n" + chunkedBody, 1},
		{"head", "HEAD", "HEAD /accessories HTTP/1.1\r\nHost: x\r\n\r\n", 1},
		{"options", "OPTIONS", "OPTIONS /accessories HTTP/1.1\r\nHost: x\r\n\r\n", 1},
		{"options*", "OPTIONS", "OPTIONS * HTTP/1.1\r\nHost: x\r\n\r\n", 1},
		{"unknown", "BREW", "BREW /characteristics HTTP/1.1\r\nHost: x\r\n\r\n", 1},
		{"longquery", "GET", "GET /characteristics?id=" + longq + " HTTP/1.1\r\nHost: x\r\n\r\n", 1},
		{"nohost-1.0", "GET", "GET /characteristics?id=1.9 HTTP/1.0\r\n\r\n", 1},
		{"conn-close", "GET", "GET /characteristics?id=1.9 HTTP/1.1\r\nHost: x\r\nConnection: close\r\n\r\n", 1},
		{"put-then-get", "PUT", fmt.Sprintf("PUT /characteristics HTTP/1.1\r\nHost: x\r\nContent-Length: %d\r\n\r\n%s", len(body), body) + get, 2},
		{"404", "GET", "GET /nothing HTTP/1.1\r\nHost: x\r\n\r\n", 1},
		{"post-pair-setup-enc", "POST", "POST /pair-setup HTTP/1.1\r\nHost: x\r\nContent-Length: 6\r\n\r\n\x06\x01\x01\x00\x01\x00", 1},
	}
	for _, c := range cases {
		rc := pairedConn(t, a, ctl)
		if err := rc.Send([]byte(c.raw)); err != nil {
			t.Fatal(err)
		}
		for i := 0; i < c.nresp; i++ {
			m := c.method
			if i > 0 {
				m = "GET"
			}
			resp, b, err := rc.ReadResponse(m)
			if err != nil {
				t.Errorf("%s: response %d: %v", c.name, i, err)
				break
			}
			if resp.StatusCode == 100 {
				i--
				t.Logf("%s: 100 continue", c.name)
				continue
			}
			t.Logf("%s: #%d %d %v close=%v te=%v len=%d %.80q", c.name, i, resp.StatusCode, resp.Header, resp.Close, resp.TransferEncoding, len(b), b)
		}
		// session still in sync?
		time.Sleep(20 * time.Millisecond)
		resp, b, err := rc.Do("GET", []byte(get))
		if err != nil {
			t.Logf("%s: follow-up: %v", c.name, err)
		} else if resp.StatusCode != 200 || !bytes.Contains(b, []byte(`"iid":9`)) {
			t.Errorf("%s: follow-up: %d %q", c.name, resp.StatusCode, b)
		}
		rc.Close()
	}
}

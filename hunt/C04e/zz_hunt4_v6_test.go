package hc

import (
	"os"
	"strings"
	"testing"
)

func TestHunt4IPv6(t *testing.T) {
	a := startRefAcc(t, "03145154", "")
	defer a.stop()
	defer os.RemoveAll(a.dir)
	addr := strings.Replace(a.addr, "127.0.0.1", "[::1]", 1)
	ctl := newRefController([]byte("v6"))
	rc, err := refDial(addr)
	if err != nil {
		t.Skip(err)
	}
	defer rc.Close()
	if err := ctl.PairSetup(rc, "031-45-154"); err != nil {
		t.Fatal(err)
	}
	if err := ctl.PairVerify(rc); err != nil {
		t.Fatal(err)
	}
	resp, b, err := rc.Do("GET", refRequest("GET", "/characteristics?id=1.9", "", nil))
	if err != nil || resp.StatusCode != 200 {
		t.Fatalf("%v %v %s", err, resp, b)
	}
}

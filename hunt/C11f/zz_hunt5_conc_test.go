package hc

import (
	"fmt"
	"math/rand"
	"reflect"
	"strings"
	"sync"
	"testing"
)

// Several controllers at once: values only to characteristics without write
// permission, subscriptions only to characteristics without event permission,
// reads of characteristics without read permission; meanwhile a fourth
// controller writes and subscribes where it is allowed. Nothing may change on
// the restricted ones, no callbacks, no events. Run with -race.
func TestHunt5Concurrent(t *testing.T) {
	ctors := append(append([]h5ctor{}, h5ctors...), h5customs()...)
	w := h5newWorld(t, ctors, 4)
	w.finish()
	var noW, noE, all []*h5char
	for _, hc := range w.chars {
		if !hc.w {
			noW = append(noW, hc)
		}
		if !hc.e {
			noE = append(noE, hc)
		}
		if hc.w && hc.e && hc.r {
			all = append(all, hc)
		}
	}
	before := w.snap()
	var wg sync.WaitGroup
	errs := make(chan string, 100)
	for g := 0; g < 3; g++ {
		wg.Add(1)
		go func(g int) {
			defer wg.Done()
			r := rand.New(rand.NewSource(int64(g)))
			for i := 0; i < 1500; i++ {
				a := noW[r.Intn(len(noW))]
				b := noE[r.Intn(len(noE))]
				body := fmt.Sprintf(`{"characteristics":[{"aid":%d,"iid":%d,"value":%s},{"aid":%d,"iid":%d,"ev":true}]}`, a.aid, a.c.ID, h5value(r, 0), b.aid, b.c.ID)
				code, resp := w.do(w.conns[g], "PUT", "/characteristics", body)
				if code == 599 || !strings.Contains(resp, fmt.Sprintf(`{"aid":%d,"iid":%d,"status":-70406}`, b.aid, b.c.ID)) {
					errs <- fmt.Sprintf("%s -> %d %s", body, code, resp)
					return
				}
			}
		}(g)
	}
	wg.Add(1)
	go func() {
		defer wg.Done()
		r := rand.New(rand.NewSource(99))
		for i := 0; i < 1500; i++ {
			a := all[r.Intn(len(all))]
			body := fmt.Sprintf(`{"characteristics":[{"aid":%d,"iid":%d,"value":%s,"ev":true}]}`, a.aid, a.c.ID, h5value(r, 0))
			w.do(w.conns[3], "PUT", "/characteristics", body)
		}
	}()
	wg.Wait()
	close(errs)
	for e := range errs {
		t.Error(e)
	}
	after := w.snap()
	for i, hc := range w.chars {
		if hc.w {
			continue
		}
		if !reflect.DeepEqual(before.val[i], after.val[i]) || before.remote[i] != after.remote[i] || before.local[i] != after.local[i] {
			t.Errorf("clause 1: %s %v changed", hc.name, hc.c.Perms)
		}
	}
	for _, ev := range w.events() {
		if hc := w.byID[[2]uint64{ev.aid, ev.iid}]; hc == nil || !hc.e {
			t.Errorf("clause 3: event %v", ev)
		}
	}
	w.checkState(nil)
}

package hc

import (
	"bytes"
	"context"
	"encoding/json"
	"fmt"
	"math/rand"
	"net"
	gohttp "net/http"
	"net/http/httptest"
	"os"
	"reflect"
	"strings"
	"sync"
	"testing"
	"time"

	"github.com/brutella/hc/accessory"
	"github.com/brutella/hc/characteristic"
	"github.com/brutella/hc/crypto"
	"github.com/brutella/hc/hap"
	"github.com/brutella/hc/hap/http"
	"github.com/brutella/hc/service"
)

// ---- fake peer connection -------------------------------------------------

type h5addr string

func (a h5addr) Network() string { return "tcp" }
func (a h5addr) String() string  { return string(a) }

type h5conn struct {
	mu     sync.Mutex
	remote h5addr
	local  h5addr
	out    [][]byte
}

func (c *h5conn) Read(b []byte) (int, error) { return 0, nil }
func (c *h5conn) Write(b []byte) (int, error) {
	c.mu.Lock()
	c.out = append(c.out, append([]byte{}, b...))
	c.mu.Unlock()
	return len(b), nil
}
func (c *h5conn) Close() error                       { return nil }
func (c *h5conn) LocalAddr() net.Addr                { return c.local }
func (c *h5conn) RemoteAddr() net.Addr               { return c.remote }
func (c *h5conn) SetDeadline(t time.Time) error      { return nil }
func (c *h5conn) SetReadDeadline(t time.Time) error  { return nil }
func (c *h5conn) SetWriteDeadline(t time.Time) error { return nil }
func (c *h5conn) take() [][]byte {
	c.mu.Lock()
	defer c.mu.Unlock()
	o := c.out
	c.out = nil
	return o
}

// ---- world ----------------------------------------------------------------

type h5char struct {
	name    string
	aid     uint64
	c       *characteristic.Characteristic
	r, w, e bool
	remote  int // application callbacks
	local   int
}

type h5world struct {
	t     *testing.T
	tr    *ipTransport
	srv   *http.Server
	conns []*h5conn
	chars []*h5char
	byID  map[[2]uint64]*h5char
}

func h5has(p []string, s string) bool {
	for _, x := range p {
		if x == s {
			return true
		}
	}
	return false
}

func h5customs() []h5ctor {
	var out []h5ctor
	permsets := [][]string{
		nil, {}, {"pr"}, {"pw"}, {"ev"}, {"pr", "pw"}, {"pr", "ev"}, {"pw", "ev"}, {"pr", "pw", "ev"},
		{"hd"}, {"wr"}, {"pw", "wr"}, {"pr", "hd"}, {"pw", "hd", "ev"}, {"PR", "PW", "EV"}, {"pr "}, {"aa", "tw"},
	}
	for i, ps := range permsets {
		ps := ps
		n := fmt.Sprintf("custom%d%v", i, ps)
		out = append(out,
			h5ctor{n + "bool", func() *characteristic.Characteristic {
				c := characteristic.NewBool("F0000001")
				c.Perms = ps
				return c.Characteristic
			}},
			h5ctor{n + "int", func() *characteristic.Characteristic {
				c := characteristic.NewInt("F0000002")
				c.Perms = ps
				return c.Characteristic
			}},
			h5ctor{n + "u8", func() *characteristic.Characteristic {
				c := characteristic.NewInt("F0000003")
				c.Format = characteristic.FormatUInt8
				c.Perms = ps
				c.SetMinValue(0)
				c.SetMaxValue(100)
				return c.Characteristic
			}},
			h5ctor{n + "float", func() *characteristic.Characteristic {
				c := characteristic.NewFloat("F0000004")
				c.Perms = ps
				return c.Characteristic
			}},
			h5ctor{n + "string", func() *characteristic.Characteristic {
				c := characteristic.NewString("F0000005")
				c.Perms = ps
				return c.Characteristic
			}},
			h5ctor{n + "bytes", func() *characteristic.Characteristic {
				c := characteristic.NewBytes("F0000006")
				c.Perms = ps
				return c.Characteristic
			}},
			h5ctor{n + "raw", func() *characteristic.Characteristic {
				c := characteristic.NewCharacteristic("F0000007")
				c.Perms = ps
				return c
			}},
		)
	}
	return out
}

func h5newWorld(t *testing.T, ctors []h5ctor, nconn int) *h5world {
	dir, err := os.MkdirTemp("", "h5")
	if err != nil {
		t.Fatal(err)
	}
	t.Cleanup(func() { os.RemoveAll(dir) })

	w := &h5world{t: t, byID: map[[2]uint64]*h5char{}}
	bridge := accessory.NewBridge(accessory.Info{Name: "h5bridge"})
	var accs []*accessory.Accessory
	var cur *accessory.Accessory
	var svc *service.Service
	for i, k := range ctors {
		if i%40 == 0 {
			cur = accessory.New(accessory.Info{Name: fmt.Sprintf("acc%d", i)}, accessory.TypeOther)
			accs = append(accs, cur)
		}
		if i%10 == 0 {
			svc = service.New(fmt.Sprintf("E%07d", i))
			cur.AddService(svc)
		}
		c := k.mk()
		hc := &h5char{name: k.name, c: c, r: h5has(c.Perms, "pr"), w: h5has(c.Perms, "pw"), e: h5has(c.Perms, "ev")}
		c.OnValueUpdateFromConn(func(conn net.Conn, c *characteristic.Characteristic, n, o interface{}) { hc.remote++ })
		c.OnValueUpdate(func(c *characteristic.Characteristic, n, o interface{}) { hc.local++ })
		svc.AddCharacteristic(c)
		w.chars = append(w.chars, hc)
		_ = cur
		hcAcc := cur
		defer func() { hc.aid = hcAcc.ID }()
	}
	tr, err := NewIPTransport(Config{StoragePath: dir, Port: ""}, bridge.Accessory, accs...)
	if err != nil {
		t.Fatal(err)
	}
	w.tr = tr
	w.srv = http.NewServer(http.Config{Port: "127.0.0.1:0", Context: tr.context, Database: tr.database, Container: tr.container, Device: tr.device, Mutex: tr.mutex, Emitter: tr.emitter})
	for i := 0; i < nconn; i++ {
		c := &h5conn{remote: h5addr(fmt.Sprintf("10.0.0.%d:5000", i+1)), local: "10.0.0.100:80"}
		s := hap.NewSession(c)
		cr, err := crypto.NewSecureSessionFromSharedKey([32]byte{1})
		if err != nil {
			t.Fatal(err)
		}
		s.SetCryptographer(cr)
		s.Decrypter()
		tr.context.SetSessionForConnection(s, c)
		w.conns = append(w.conns, c)
	}
	return w
}

func (w *h5world) finish() {
	for _, hc := range w.chars {
		w.byID[[2]uint64{hc.aid, hc.c.ID}] = hc
	}
}

func (w *h5world) do(conn *h5conn, method, url string, body string) (int, string) {
	req := httptest.NewRequest(method, url, strings.NewReader(body))
	req.RemoteAddr = string(conn.remote)
	req = req.WithContext(context.WithValue(req.Context(), gohttp.LocalAddrContextKey, net.Addr(conn.local)))
	rec := httptest.NewRecorder()
	func() {
		defer func() {
			if r := recover(); r != nil {
				rec.Code = 599
				rec.Body.WriteString(fmt.Sprint("PANIC ", r))
			}
		}()
		w.srv.Mux.ServeHTTP(rec, req)
	}()
	return rec.Code, rec.Body.String()
}

type h5snap struct {
	val           []interface{}
	remote, local []int
}

func (w *h5world) snap() h5snap {
	var s h5snap
	for _, hc := range w.chars {
		s.val = append(s.val, hc.c.Value)
		s.remote = append(s.remote, hc.remote)
		s.local = append(s.local, hc.local)
	}
	return s
}

type h5event struct {
	conn int
	aid  uint64
	iid  uint64
	val  interface{}
	raw  string
}

func (w *h5world) events() []h5event {
	var out []h5event
	for i, c := range w.conns {
		for _, b := range c.take() {
			idx := bytes.Index(b, []byte("\r\n\r\n"))
			if idx < 0 {
				w.t.Fatalf("unparsable event %q", b)
			}
			var d struct {
				Characteristics []struct {
					Aid   uint64      `json:"aid"`
					Iid   uint64      `json:"iid"`
					Value interface{} `json:"value"`
				} `json:"characteristics"`
			}
			if err := json.Unmarshal(b[idx+4:], &d); err != nil {
				w.t.Fatalf("event body %q: %v", b, err)
			}
			for _, e := range d.Characteristics {
				out = append(out, h5event{i, e.Aid, e.Iid, e.Value, string(b)})
			}
		}
	}
	return out
}

// random JSON value text
func h5value(r *rand.Rand, depth int) string {
	switch r.Intn(16) {
	case 0:
		return "true"
	case 1:
		return "false"
	case 2:
		return fmt.Sprint(r.Intn(4))
	case 3:
		return fmt.Sprint(r.Intn(300) - 20)
	case 4:
		return fmt.Sprint(r.Float64() * 400)
	case 5:
		return []string{"1e30", "-1e30", "4294967296", "18446744073709551616", "-1", "0.5", "1e-9", "255", "256", "65536", "2147483648", "-2147483649", "-0"}[r.Intn(13)]
	case 6:
		return []string{`""`, `"1"`, `"0"`, `"true"`, `"false"`, `"abc"`, `"AQID"`, `"1.5"`, `"\u0000"`, `"<&>"`, `"NaN"`, `"Inf"`, `"0x10"`, `" 7"`, `"1e3"`}[r.Intn(15)]
	case 7:
		if depth > 1 {
			return "[]"
		}
		n := r.Intn(3)
		var p []string
		for i := 0; i < n; i++ {
			p = append(p, h5value(r, depth+1))
		}
		return "[" + strings.Join(p, ",") + "]"
	case 8:
		if depth > 1 {
			return "{}"
		}
		n := r.Intn(3)
		var p []string
		for i := 0; i < n; i++ {
			p = append(p, fmt.Sprintf(`"k%d":%s`, i, h5value(r, depth+1)))
		}
		return "{" + strings.Join(p, ",") + "}"
	case 9:
		return "null"
	default:
		return fmt.Sprint(r.Intn(3))
	}
}

func h5ev(r *rand.Rand) string {
	return []string{"true", "false", "true", "true", "1", `"true"`, "0", "[]", "{}", "null"}[r.Intn(10)]
}

func (w *h5world) fail(hist []string, format string, a ...interface{}) {
	n := len(hist)
	if n > 12 {
		hist = hist[n-12:]
	}
	w.t.Fatalf("%s\nlast steps:\n%s", fmt.Sprintf(format, a...), strings.Join(hist, "\n"))
}

// check invariants that hold at every moment
func (w *h5world) checkState(hist []string) {
	for _, hc := range w.chars {
		if !hc.r && hc.c.Value != nil {
			w.fail(hist, "clause 2: %s (perms %v) stores value %#v", hc.name, hc.c.Perms, hc.c.Value)
		}
	}
}

func (w *h5world) checkAccessories(conn *h5conn, hist []string) {
	code, body := w.do(conn, "GET", "/accessories", "")
	if code != 200 {
		w.fail(hist, "/accessories: %d %s", code, body)
	}
	var d struct {
		Accessories []struct {
			Aid      uint64 `json:"aid"`
			Services []struct {
				Characteristics []map[string]interface{} `json:"characteristics"`
			} `json:"services"`
		} `json:"accessories"`
	}
	if err := json.Unmarshal([]byte(body), &d); err != nil {
		w.fail(hist, "/accessories: %v", err)
	}
	seen := 0
	for _, a := range d.Accessories {
		for _, s := range a.Services {
			for _, c := range s.Characteristics {
				iid := uint64(c["iid"].(float64))
				hc := w.byID[[2]uint64{a.Aid, iid}]
				if hc == nil {
					continue
				}
				seen++
				if _, ok := c["value"]; ok && !hc.r {
					w.fail(hist, "clause 2: /accessories reveals value of %s: %v", hc.name, c)
				}
			}
		}
	}
	if seen != len(w.chars) {
		w.fail(hist, "saw %d of %d", seen, len(w.chars))
	}
}

func h5run(t *testing.T, seed int64, steps int, ctors []h5ctor) {
	r := rand.New(rand.NewSource(seed))
	w := h5newWorld(t, ctors, 3)
	w.finish()
	var hist []string
	w.checkState(hist)
	w.checkAccessories(w.conns[0], hist)
	w.events()

	nEvents, nPanics, nRejected := 0, 0, 0
	panics := map[string]int{}
	defer func() { t.Logf("events %d panics %d %v rejected %d", nEvents, nPanics, panics, nRejected) }()
	for step := 0; step < steps; step++ {
		before := w.snap()
		ci := r.Intn(len(w.conns))
		conn := w.conns[ci]
		op := r.Intn(10)
		// entries
		n := 1 + r.Intn(3)
		type entry struct {
			hc   *h5char
			hasV bool
			hasE bool
			v, e string
			idx  int
		}
		var es []entry
		for i := 0; i < n; i++ {
			idx := r.Intn(len(w.chars))
			// prefer restricted characteristics
			for k := 0; k < 3; k++ {
				hc := w.chars[idx]
				if hc.r && hc.w && hc.e {
					idx = r.Intn(len(w.chars))
				}
			}
			e := entry{hc: w.chars[idx], idx: idx}
			switch r.Intn(4) {
			case 0:
				e.hasV = true
			case 1:
				e.hasE = true
			default:
				e.hasV, e.hasE = true, true
			}
			e.v, e.e = h5value(r, 0), h5ev(r)
			es = append(es, e)
		}
		switch {
		case op < 6: // PUT
			var parts []string
			for _, e := range es {
				p := fmt.Sprintf(`"aid":%d,"iid":%d`, e.hc.aid, e.hc.c.ID)
				if e.hasV {
					key := []string{"value", "value", "Value", "VALUE"}[r.Intn(4)]
					p += fmt.Sprintf(`,"%s":%s`, key, e.v)
				}
				if e.hasE {
					key := []string{"ev", "ev", "EV", "Ev"}[r.Intn(4)]
					p += fmt.Sprintf(`,"%s":%s`, key, e.e)
				}
				parts = append(parts, "{"+p+"}")
			}
			body := `{"characteristics":[` + strings.Join(parts, ",") + `]}`
			hist = append(hist, fmt.Sprintf("conn%d PUT %s", ci, body))
			code, resp := w.do(conn, "PUT", "/characteristics", body)
			hist = append(hist, fmt.Sprintf("   -> %d %s", code, resp))
			if code == 599 {
				nPanics++
				panics[resp]++
			}
			// clause 3: every ev on a not observable characteristic is answered with a status
			var d struct {
				Characteristics []struct {
					Aid    uint64 `json:"aid"`
					Iid    uint64 `json:"iid"`
					Status *int   `json:"status"`
				} `json:"characteristics"`
			}
			if resp != "" && code != 599 {
				if err := json.Unmarshal([]byte(resp), &d); err != nil {
					w.fail(hist, "PUT response: %v", err)
				}
			}
			if code != 599 {
				for _, e := range es {
					if e.hasE && e.e != "null" && !e.hc.e {
						ok := false
						for _, x := range d.Characteristics {
							if x.Aid == e.hc.aid && x.Iid == e.hc.c.ID && x.Status != nil && *x.Status != 0 {
								ok = true
							}
						}
						nRejected++
						if !ok {
							w.fail(hist, "clause 3: subscription on %s (perms %v) not rejected with a status", e.hc.name, e.hc.c.Perms)
						}
					}
				}
			}
		case op < 7: // in-process remote update
			e := es[0]
			var v interface{}
			json.Unmarshal([]byte(e.v), &v)
			hist = append(hist, fmt.Sprintf("conn%d UpdateValueFromConnection(%s %v, %#v)", ci, e.hc.name, e.hc.c.Perms, v))
			func() {
				defer func() {
					if r := recover(); r != nil {
						hist = append(hist, fmt.Sprint("   panic ", r))
					}
				}()
				e.hc.c.UpdateValueFromConnection(v, conn)
			}()
			e.hasV, e.v = true, "x"
			es = []entry{e}
		case op < 8: // GET
			var ids []string
			for _, e := range es {
				ids = append(ids, fmt.Sprintf("%d.%d", e.hc.aid, e.hc.c.ID))
			}
			url := "/characteristics?id=" + strings.Join(ids, ",")
			if r.Intn(2) == 0 {
				url += "&meta=1&perms=1&type=1&ev=1"
			}
			hist = append(hist, fmt.Sprintf("conn%d GET %s", ci, url))
			code, resp := w.do(conn, "GET", url, "")
			hist = append(hist, fmt.Sprintf("   -> %d %s", code, resp))
			var d struct {
				Characteristics []map[string]interface{} `json:"characteristics"`
			}
			if err := json.Unmarshal([]byte(resp), &d); err != nil {
				w.fail(hist, "GET response: %v", err)
			}
			if len(d.Characteristics) != len(es) {
				w.fail(hist, "GET entries")
			}
			for i, e := range es {
				x := d.Characteristics[i]
				if !e.hc.r {
					if _, ok := x["value"]; ok {
						w.fail(hist, "clause 2: GET reveals value of %s", e.hc.name)
					}
					if st, ok := x["status"].(float64); !ok || st == 0 {
						w.fail(hist, "clause 2: GET of %s has no status", e.hc.name)
					}
				}
			}
			es = nil
		case op < 9: // local update by the application (allowed to do anything but store in a not readable one)
			e := es[0]
			var v interface{}
			json.Unmarshal([]byte(e.v), &v)
			hist = append(hist, fmt.Sprintf("local UpdateValue(%s %v, %#v)", e.hc.name, e.hc.c.Perms, v))
			func() {
				defer func() {
					if r := recover(); r != nil {
						hist = append(hist, fmt.Sprint("   panic ", r))
					}
				}()
				e.hc.c.UpdateValue(v)
			}()
			es = nil
			before = w.snap()
		default:
			w.checkAccessories(conn, hist)
			es = nil
		}

		after := w.snap()
		w.checkState(hist)
		evs := w.events()
		// clause 1
		touched := map[int]bool{}
		for _, e := range es {
			if e.hasV && e.v != "null" {
				touched[e.idx] = true
			}
		}
		for i, hc := range w.chars {
			writable := touched[i] && hc.w
			if !writable {
				if !reflect.DeepEqual(before.val[i], after.val[i]) {
					w.fail(hist, "clause 1: value of %s (perms %v) changed %#v -> %#v", hc.name, hc.c.Perms, before.val[i], after.val[i])
				}
				if before.remote[i] != after.remote[i] || before.local[i] != after.local[i] {
					w.fail(hist, "clause 1: callbacks of %s (perms %v) invoked", hc.name, hc.c.Perms)
				}
			}
		}
		nEvents += len(evs)
		for _, ev := range evs {
			hc := w.byID[[2]uint64{ev.aid, ev.iid}]
			if hc == nil {
				w.fail(hist, "event for unknown characteristic %v", ev)
			}
			if !hc.e {
				w.fail(hist, "clause 3: event for %s (perms %v) on conn%d: %s", hc.name, hc.c.Perms, ev.conn, ev.raw)
			}
			if !hc.r && ev.val != nil {
				w.fail(hist, "clause 2: event reveals value of %s (perms %v): %s", hc.name, hc.c.Perms, ev.raw)
			}
		}
	}
}

func TestHunt5DiffAll(t *testing.T) {
	ctors := append(append([]h5ctor{}, h5ctors...), h5customs()...)
	seeds := 6
	if s := os.Getenv("H5SEEDS"); s != "" {
		fmt.Sscan(s, &seeds)
	}
	for seed := int64(1); seed <= int64(seeds); seed++ {
		seed := seed
		t.Run(fmt.Sprint("seed", seed), func(t *testing.T) { h5run(t, seed, 4000, ctors) })
	}
}

var _ = gohttp.StatusOK

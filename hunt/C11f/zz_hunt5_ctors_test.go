package hc

import "github.com/brutella/hc/characteristic"

type h5ctor struct {
	name string
	mk   func() *characteristic.Characteristic
}

var h5ctors = []h5ctor{
	{"NewAccessoryFlags", func() *characteristic.Characteristic { return characteristic.NewAccessoryFlags().Characteristic }},
	{"NewAccessoryIdentifier", func() *characteristic.Characteristic { return characteristic.NewAccessoryIdentifier().Characteristic }},
	{"NewActive", func() *characteristic.Characteristic { return characteristic.NewActive().Characteristic }},
	{"NewActiveIdentifier", func() *characteristic.Characteristic { return characteristic.NewActiveIdentifier().Characteristic }},
	{"NewAdministratorOnlyAccess", func() *characteristic.Characteristic {
		return characteristic.NewAdministratorOnlyAccess().Characteristic
	}},
	{"NewAirParticulateDensity", func() *characteristic.Characteristic { return characteristic.NewAirParticulateDensity().Characteristic }},
	{"NewAirParticulateSize", func() *characteristic.Characteristic { return characteristic.NewAirParticulateSize().Characteristic }},
	{"NewAirQuality", func() *characteristic.Characteristic { return characteristic.NewAirQuality().Characteristic }},
	{"NewAppMatchingIdentifier", func() *characteristic.Characteristic { return characteristic.NewAppMatchingIdentifier().Characteristic }},
	{"NewAudioFeedback", func() *characteristic.Characteristic { return characteristic.NewAudioFeedback().Characteristic }},
	{"NewBatteryLevel", func() *characteristic.Characteristic { return characteristic.NewBatteryLevel().Characteristic }},
	{"NewBrightness", func() *characteristic.Characteristic { return characteristic.NewBrightness().Characteristic }},
	{"NewCarbonDioxideDetected", func() *characteristic.Characteristic { return characteristic.NewCarbonDioxideDetected().Characteristic }},
	{"NewCarbonDioxideLevel", func() *characteristic.Characteristic { return characteristic.NewCarbonDioxideLevel().Characteristic }},
	{"NewCarbonDioxidePeakLevel", func() *characteristic.Characteristic {
		return characteristic.NewCarbonDioxidePeakLevel().Characteristic
	}},
	{"NewCarbonMonoxideDetected", func() *characteristic.Characteristic {
		return characteristic.NewCarbonMonoxideDetected().Characteristic
	}},
	{"NewCarbonMonoxideLevel", func() *characteristic.Characteristic { return characteristic.NewCarbonMonoxideLevel().Characteristic }},
	{"NewCarbonMonoxidePeakLevel", func() *characteristic.Characteristic {
		return characteristic.NewCarbonMonoxidePeakLevel().Characteristic
	}},
	{"NewCategory", func() *characteristic.Characteristic { return characteristic.NewCategory().Characteristic }},
	{"NewChargingState", func() *characteristic.Characteristic { return characteristic.NewChargingState().Characteristic }},
	{"NewClosedCaptions", func() *characteristic.Characteristic { return characteristic.NewClosedCaptions().Characteristic }},
	{"NewColorTemperature", func() *characteristic.Characteristic { return characteristic.NewColorTemperature().Characteristic }},
	{"NewConfigureBridgedAccessory", func() *characteristic.Characteristic {
		return characteristic.NewConfigureBridgedAccessory().Characteristic
	}},
	{"NewConfigureBridgedAccessoryStatus", func() *characteristic.Characteristic {
		return characteristic.NewConfigureBridgedAccessoryStatus().Characteristic
	}},
	{"NewConfiguredName", func() *characteristic.Characteristic { return characteristic.NewConfiguredName().Characteristic }},
	{"NewContactSensorState", func() *characteristic.Characteristic { return characteristic.NewContactSensorState().Characteristic }},
	{"NewCoolingThresholdTemperature", func() *characteristic.Characteristic {
		return characteristic.NewCoolingThresholdTemperature().Characteristic
	}},
	{"NewCurrentAirPurifierState", func() *characteristic.Characteristic {
		return characteristic.NewCurrentAirPurifierState().Characteristic
	}},
	{"NewCurrentAmbientLightLevel", func() *characteristic.Characteristic {
		return characteristic.NewCurrentAmbientLightLevel().Characteristic
	}},
	{"NewCurrentDoorState", func() *characteristic.Characteristic { return characteristic.NewCurrentDoorState().Characteristic }},
	{"NewCurrentFanState", func() *characteristic.Characteristic { return characteristic.NewCurrentFanState().Characteristic }},
	{"NewCurrentHeaterCoolerState", func() *characteristic.Characteristic {
		return characteristic.NewCurrentHeaterCoolerState().Characteristic
	}},
	{"NewCurrentHeatingCoolingState", func() *characteristic.Characteristic {
		return characteristic.NewCurrentHeatingCoolingState().Characteristic
	}},
	{"NewCurrentHorizontalTiltAngle", func() *characteristic.Characteristic {
		return characteristic.NewCurrentHorizontalTiltAngle().Characteristic
	}},
	{"NewCurrentHumidifierDehumidifierState", func() *characteristic.Characteristic {
		return characteristic.NewCurrentHumidifierDehumidifierState().Characteristic
	}},
	{"NewCurrentMediaState", func() *characteristic.Characteristic { return characteristic.NewCurrentMediaState().Characteristic }},
	{"NewCurrentPosition", func() *characteristic.Characteristic { return characteristic.NewCurrentPosition().Characteristic }},
	{"NewCurrentRelativeHumidity", func() *characteristic.Characteristic {
		return characteristic.NewCurrentRelativeHumidity().Characteristic
	}},
	{"NewCurrentSlatState", func() *characteristic.Characteristic { return characteristic.NewCurrentSlatState().Characteristic }},
	{"NewCurrentTemperature", func() *characteristic.Characteristic { return characteristic.NewCurrentTemperature().Characteristic }},
	{"NewCurrentTiltAngle", func() *characteristic.Characteristic { return characteristic.NewCurrentTiltAngle().Characteristic }},
	{"NewCurrentTime", func() *characteristic.Characteristic { return characteristic.NewCurrentTime().Characteristic }},
	{"NewCurrentTransport", func() *characteristic.Characteristic { return characteristic.NewCurrentTransport().Characteristic }},
	{"NewCurrentVerticalTiltAngle", func() *characteristic.Characteristic {
		return characteristic.NewCurrentVerticalTiltAngle().Characteristic
	}},
	{"NewCurrentVisibilityState", func() *characteristic.Characteristic {
		return characteristic.NewCurrentVisibilityState().Characteristic
	}},
	{"NewDayOfTheWeek", func() *characteristic.Characteristic { return characteristic.NewDayOfTheWeek().Characteristic }},
	{"NewDigitalZoom", func() *characteristic.Characteristic { return characteristic.NewDigitalZoom().Characteristic }},
	{"NewDiscoverBridgedAccessories", func() *characteristic.Characteristic {
		return characteristic.NewDiscoverBridgedAccessories().Characteristic
	}},
	{"NewDiscoveredBridgedAccessories", func() *characteristic.Characteristic {
		return characteristic.NewDiscoveredBridgedAccessories().Characteristic
	}},
	{"NewDisplayOrder", func() *characteristic.Characteristic { return characteristic.NewDisplayOrder().Characteristic }},
	{"NewFilterChangeIndication", func() *characteristic.Characteristic {
		return characteristic.NewFilterChangeIndication().Characteristic
	}},
	{"NewFilterLifeLevel", func() *characteristic.Characteristic { return characteristic.NewFilterLifeLevel().Characteristic }},
	{"NewFirmwareRevision", func() *characteristic.Characteristic { return characteristic.NewFirmwareRevision().Characteristic }},
	{"NewHardwareRevision", func() *characteristic.Characteristic { return characteristic.NewHardwareRevision().Characteristic }},
	{"NewHeatingThresholdTemperature", func() *characteristic.Characteristic {
		return characteristic.NewHeatingThresholdTemperature().Characteristic
	}},
	{"NewHoldPosition", func() *characteristic.Characteristic { return characteristic.NewHoldPosition().Characteristic }},
	{"NewHue", func() *characteristic.Characteristic { return characteristic.NewHue().Characteristic }},
	{"NewIdentifier", func() *characteristic.Characteristic { return characteristic.NewIdentifier().Characteristic }},
	{"NewIdentify", func() *characteristic.Characteristic { return characteristic.NewIdentify().Characteristic }},
	{"NewImageMirroring", func() *characteristic.Characteristic { return characteristic.NewImageMirroring().Characteristic }},
	{"NewImageRotation", func() *characteristic.Characteristic { return characteristic.NewImageRotation().Characteristic }},
	{"NewInUse", func() *characteristic.Characteristic { return characteristic.NewInUse().Characteristic }},
	{"NewInputDeviceType", func() *characteristic.Characteristic { return characteristic.NewInputDeviceType().Characteristic }},
	{"NewInputSourceType", func() *characteristic.Characteristic { return characteristic.NewInputSourceType().Characteristic }},
	{"NewIsConfigured", func() *characteristic.Characteristic { return characteristic.NewIsConfigured().Characteristic }},
	{"NewLeakDetected", func() *characteristic.Characteristic { return characteristic.NewLeakDetected().Characteristic }},
	{"NewLinkQuality", func() *characteristic.Characteristic { return characteristic.NewLinkQuality().Characteristic }},
	{"NewLockControlPoint", func() *characteristic.Characteristic { return characteristic.NewLockControlPoint().Characteristic }},
	{"NewLockCurrentState", func() *characteristic.Characteristic { return characteristic.NewLockCurrentState().Characteristic }},
	{"NewLockLastKnownAction", func() *characteristic.Characteristic { return characteristic.NewLockLastKnownAction().Characteristic }},
	{"NewLockManagementAutoSecurityTimeout", func() *characteristic.Characteristic {
		return characteristic.NewLockManagementAutoSecurityTimeout().Characteristic
	}},
	{"NewLockPhysicalControls", func() *characteristic.Characteristic { return characteristic.NewLockPhysicalControls().Characteristic }},
	{"NewLockTargetState", func() *characteristic.Characteristic { return characteristic.NewLockTargetState().Characteristic }},
	{"NewLogs", func() *characteristic.Characteristic { return characteristic.NewLogs().Characteristic }},
	{"NewManufacturer", func() *characteristic.Characteristic { return characteristic.NewManufacturer().Characteristic }},
	{"NewModel", func() *characteristic.Characteristic { return characteristic.NewModel().Characteristic }},
	{"NewMotionDetected", func() *characteristic.Characteristic { return characteristic.NewMotionDetected().Characteristic }},
	{"NewMute", func() *characteristic.Characteristic { return characteristic.NewMute().Characteristic }},
	{"NewName", func() *characteristic.Characteristic { return characteristic.NewName().Characteristic }},
	{"NewNightVision", func() *characteristic.Characteristic { return characteristic.NewNightVision().Characteristic }},
	{"NewNitrogenDioxideDensity", func() *characteristic.Characteristic {
		return characteristic.NewNitrogenDioxideDensity().Characteristic
	}},
	{"NewObstructionDetected", func() *characteristic.Characteristic { return characteristic.NewObstructionDetected().Characteristic }},
	{"NewOccupancyDetected", func() *characteristic.Characteristic { return characteristic.NewOccupancyDetected().Characteristic }},
	{"NewOn", func() *characteristic.Characteristic { return characteristic.NewOn().Characteristic }},
	{"NewOpticalZoom", func() *characteristic.Characteristic { return characteristic.NewOpticalZoom().Characteristic }},
	{"NewOutletInUse", func() *characteristic.Characteristic { return characteristic.NewOutletInUse().Characteristic }},
	{"NewOzoneDensity", func() *characteristic.Characteristic { return characteristic.NewOzoneDensity().Characteristic }},
	{"NewPM10Density", func() *characteristic.Characteristic { return characteristic.NewPM10Density().Characteristic }},
	{"NewPM2_5Density", func() *characteristic.Characteristic { return characteristic.NewPM2_5Density().Characteristic }},
	{"NewPairSetup", func() *characteristic.Characteristic { return characteristic.NewPairSetup().Characteristic }},
	{"NewPairVerify", func() *characteristic.Characteristic { return characteristic.NewPairVerify().Characteristic }},
	{"NewPairingFeatures", func() *characteristic.Characteristic { return characteristic.NewPairingFeatures().Characteristic }},
	{"NewPairingPairings", func() *characteristic.Characteristic { return characteristic.NewPairingPairings().Characteristic }},
	{"NewPictureMode", func() *characteristic.Characteristic { return characteristic.NewPictureMode().Characteristic }},
	{"NewPositionState", func() *characteristic.Characteristic { return characteristic.NewPositionState().Characteristic }},
	{"NewPowerModeSelection", func() *characteristic.Characteristic { return characteristic.NewPowerModeSelection().Characteristic }},
	{"NewProgramMode", func() *characteristic.Characteristic { return characteristic.NewProgramMode().Characteristic }},
	{"NewProgrammableSwitchEvent", func() *characteristic.Characteristic {
		return characteristic.NewProgrammableSwitchEvent().Characteristic
	}},
	{"NewProgrammableSwitchOutputState", func() *characteristic.Characteristic {
		return characteristic.NewProgrammableSwitchOutputState().Characteristic
	}},
	{"NewReachable", func() *characteristic.Characteristic { return characteristic.NewReachable().Characteristic }},
	{"NewRelativeHumidityDehumidifierThreshold", func() *characteristic.Characteristic {
		return characteristic.NewRelativeHumidityDehumidifierThreshold().Characteristic
	}},
	{"NewRelativeHumidityHumidifierThreshold", func() *characteristic.Characteristic {
		return characteristic.NewRelativeHumidityHumidifierThreshold().Characteristic
	}},
	{"NewRemainingDuration", func() *characteristic.Characteristic { return characteristic.NewRemainingDuration().Characteristic }},
	{"NewRemoteKey", func() *characteristic.Characteristic { return characteristic.NewRemoteKey().Characteristic }},
	{"NewResetFilterIndication", func() *characteristic.Characteristic { return characteristic.NewResetFilterIndication().Characteristic }},
	{"NewRotationDirection", func() *characteristic.Characteristic { return characteristic.NewRotationDirection().Characteristic }},
	{"NewRotationSpeed", func() *characteristic.Characteristic { return characteristic.NewRotationSpeed().Characteristic }},
	{"NewSaturation", func() *characteristic.Characteristic { return characteristic.NewSaturation().Characteristic }},
	{"NewSecuritySystemAlarmType", func() *characteristic.Characteristic {
		return characteristic.NewSecuritySystemAlarmType().Characteristic
	}},
	{"NewSecuritySystemCurrentState", func() *characteristic.Characteristic {
		return characteristic.NewSecuritySystemCurrentState().Characteristic
	}},
	{"NewSecuritySystemTargetState", func() *characteristic.Characteristic {
		return characteristic.NewSecuritySystemTargetState().Characteristic
	}},
	{"NewSelectedCameraRecordingConfiguration", func() *characteristic.Characteristic {
		return characteristic.NewSelectedCameraRecordingConfiguration().Characteristic
	}},
	{"NewSelectedRTPStreamConfiguration", func() *characteristic.Characteristic {
		return characteristic.NewSelectedRTPStreamConfiguration().Characteristic
	}},
	{"NewSelectedStreamConfiguration", func() *characteristic.Characteristic {
		return characteristic.NewSelectedStreamConfiguration().Characteristic
	}},
	{"NewSerialNumber", func() *characteristic.Characteristic { return characteristic.NewSerialNumber().Characteristic }},
	{"NewServiceLabelIndex", func() *characteristic.Characteristic { return characteristic.NewServiceLabelIndex().Characteristic }},
	{"NewServiceLabelNamespace", func() *characteristic.Characteristic { return characteristic.NewServiceLabelNamespace().Characteristic }},
	{"NewSetDuration", func() *characteristic.Characteristic { return characteristic.NewSetDuration().Characteristic }},
	{"NewSetupEndpoints", func() *characteristic.Characteristic { return characteristic.NewSetupEndpoints().Characteristic }},
	{"NewSlatType", func() *characteristic.Characteristic { return characteristic.NewSlatType().Characteristic }},
	{"NewSleepDiscoveryMode", func() *characteristic.Characteristic { return characteristic.NewSleepDiscoveryMode().Characteristic }},
	{"NewSmokeDetected", func() *characteristic.Characteristic { return characteristic.NewSmokeDetected().Characteristic }},
	{"NewSoftwareRevision", func() *characteristic.Characteristic { return characteristic.NewSoftwareRevision().Characteristic }},
	{"NewStatusActive", func() *characteristic.Characteristic { return characteristic.NewStatusActive().Characteristic }},
	{"NewStatusFault", func() *characteristic.Characteristic { return characteristic.NewStatusFault().Characteristic }},
	{"NewStatusJammed", func() *characteristic.Characteristic { return characteristic.NewStatusJammed().Characteristic }},
	{"NewStatusLowBattery", func() *characteristic.Characteristic { return characteristic.NewStatusLowBattery().Characteristic }},
	{"NewStatusTampered", func() *characteristic.Characteristic { return characteristic.NewStatusTampered().Characteristic }},
	{"NewStreamingStatus", func() *characteristic.Characteristic { return characteristic.NewStreamingStatus().Characteristic }},
	{"NewSulphurDioxideDensity", func() *characteristic.Characteristic { return characteristic.NewSulphurDioxideDensity().Characteristic }},
	{"NewSupportedAudioRecordingConfiguration", func() *characteristic.Characteristic {
		return characteristic.NewSupportedAudioRecordingConfiguration().Characteristic
	}},
	{"NewSupportedAudioStreamConfiguration", func() *characteristic.Characteristic {
		return characteristic.NewSupportedAudioStreamConfiguration().Characteristic
	}},
	{"NewSupportedCameraRecordingConfiguration", func() *characteristic.Characteristic {
		return characteristic.NewSupportedCameraRecordingConfiguration().Characteristic
	}},
	{"NewSupportedRTPConfiguration", func() *characteristic.Characteristic {
		return characteristic.NewSupportedRTPConfiguration().Characteristic
	}},
	{"NewSupportedVideoRecordingConfiguration", func() *characteristic.Characteristic {
		return characteristic.NewSupportedVideoRecordingConfiguration().Characteristic
	}},
	{"NewSupportedVideoStreamConfiguration", func() *characteristic.Characteristic {
		return characteristic.NewSupportedVideoStreamConfiguration().Characteristic
	}},
	{"NewSwingMode", func() *characteristic.Characteristic { return characteristic.NewSwingMode().Characteristic }},
	{"NewTargetAirPurifierState", func() *characteristic.Characteristic {
		return characteristic.NewTargetAirPurifierState().Characteristic
	}},
	{"NewTargetAirQuality", func() *characteristic.Characteristic { return characteristic.NewTargetAirQuality().Characteristic }},
	{"NewTargetDoorState", func() *characteristic.Characteristic { return characteristic.NewTargetDoorState().Characteristic }},
	{"NewTargetFanState", func() *characteristic.Characteristic { return characteristic.NewTargetFanState().Characteristic }},
	{"NewTargetHeaterCoolerState", func() *characteristic.Characteristic {
		return characteristic.NewTargetHeaterCoolerState().Characteristic
	}},
	{"NewTargetHeatingCoolingState", func() *characteristic.Characteristic {
		return characteristic.NewTargetHeatingCoolingState().Characteristic
	}},
	{"NewTargetHorizontalTiltAngle", func() *characteristic.Characteristic {
		return characteristic.NewTargetHorizontalTiltAngle().Characteristic
	}},
	{"NewTargetHumidifierDehumidifierState", func() *characteristic.Characteristic {
		return characteristic.NewTargetHumidifierDehumidifierState().Characteristic
	}},
	{"NewTargetMediaState", func() *characteristic.Characteristic { return characteristic.NewTargetMediaState().Characteristic }},
	{"NewTargetPosition", func() *characteristic.Characteristic { return characteristic.NewTargetPosition().Characteristic }},
	{"NewTargetRelativeHumidity", func() *characteristic.Characteristic {
		return characteristic.NewTargetRelativeHumidity().Characteristic
	}},
	{"NewTargetSlatState", func() *characteristic.Characteristic { return characteristic.NewTargetSlatState().Characteristic }},
	{"NewTargetTemperature", func() *characteristic.Characteristic { return characteristic.NewTargetTemperature().Characteristic }},
	{"NewTargetTiltAngle", func() *characteristic.Characteristic { return characteristic.NewTargetTiltAngle().Characteristic }},
	{"NewTargetVerticalTiltAngle", func() *characteristic.Characteristic {
		return characteristic.NewTargetVerticalTiltAngle().Characteristic
	}},
	{"NewTargetVisibilityState", func() *characteristic.Characteristic { return characteristic.NewTargetVisibilityState().Characteristic }},
	{"NewTemperatureDisplayUnits", func() *characteristic.Characteristic {
		return characteristic.NewTemperatureDisplayUnits().Characteristic
	}},
	{"NewTimeUpdate", func() *characteristic.Characteristic { return characteristic.NewTimeUpdate().Characteristic }},
	{"NewTunnelConnectionTimeout", func() *characteristic.Characteristic {
		return characteristic.NewTunnelConnectionTimeout().Characteristic
	}},
	{"NewTunneledAccessoryAdvertising", func() *characteristic.Characteristic {
		return characteristic.NewTunneledAccessoryAdvertising().Characteristic
	}},
	{"NewTunneledAccessoryConnected", func() *characteristic.Characteristic {
		return characteristic.NewTunneledAccessoryConnected().Characteristic
	}},
	{"NewTunneledAccessoryStateNumber", func() *characteristic.Characteristic {
		return characteristic.NewTunneledAccessoryStateNumber().Characteristic
	}},
	{"NewVOCDensity", func() *characteristic.Characteristic { return characteristic.NewVOCDensity().Characteristic }},
	{"NewValveType", func() *characteristic.Characteristic { return characteristic.NewValveType().Characteristic }},
	{"NewVersion", func() *characteristic.Characteristic { return characteristic.NewVersion().Characteristic }},
	{"NewVolume", func() *characteristic.Characteristic { return characteristic.NewVolume().Characteristic }},
	{"NewVolumeControlType", func() *characteristic.Characteristic { return characteristic.NewVolumeControlType().Characteristic }},
	{"NewVolumeSelector", func() *characteristic.Characteristic { return characteristic.NewVolumeSelector().Characteristic }},
	{"NewWaterLevel", func() *characteristic.Characteristic { return characteristic.NewWaterLevel().Characteristic }},
	{"NewWifiCapabilities", func() *characteristic.Characteristic { return characteristic.NewWifiCapabilities().Characteristic }},
	{"NewWifiConfigurationControl", func() *characteristic.Characteristic {
		return characteristic.NewWifiConfigurationControl().Characteristic
	}},
}

package characteristic

import (
	"encoding/json"
	"net"
	"testing"
)

func h4all() map[string]*Characteristic {
	m := map[string]*Characteristic{}
	m["NewAccessoryFlags"] = NewAccessoryFlags().Characteristic
	m["NewAccessoryIdentifier"] = NewAccessoryIdentifier().Characteristic
	m["NewActive"] = NewActive().Characteristic
	m["NewActiveIdentifier"] = NewActiveIdentifier().Characteristic
	m["NewAdministratorOnlyAccess"] = NewAdministratorOnlyAccess().Characteristic
	m["NewAirParticulateDensity"] = NewAirParticulateDensity().Characteristic
	m["NewAirParticulateSize"] = NewAirParticulateSize().Characteristic
	m["NewAirQuality"] = NewAirQuality().Characteristic
	m["NewAppMatchingIdentifier"] = NewAppMatchingIdentifier().Characteristic
	m["NewAudioFeedback"] = NewAudioFeedback().Characteristic
	m["NewBatteryLevel"] = NewBatteryLevel().Characteristic
	m["NewBrightness"] = NewBrightness().Characteristic
	m["NewCarbonDioxideDetected"] = NewCarbonDioxideDetected().Characteristic
	m["NewCarbonDioxideLevel"] = NewCarbonDioxideLevel().Characteristic
	m["NewCarbonDioxidePeakLevel"] = NewCarbonDioxidePeakLevel().Characteristic
	m["NewCarbonMonoxideDetected"] = NewCarbonMonoxideDetected().Characteristic
	m["NewCarbonMonoxideLevel"] = NewCarbonMonoxideLevel().Characteristic
	m["NewCarbonMonoxidePeakLevel"] = NewCarbonMonoxidePeakLevel().Characteristic
	m["NewCategory"] = NewCategory().Characteristic
	m["NewChargingState"] = NewChargingState().Characteristic
	m["NewClosedCaptions"] = NewClosedCaptions().Characteristic
	m["NewColorTemperature"] = NewColorTemperature().Characteristic
	m["NewConfigureBridgedAccessory"] = NewConfigureBridgedAccessory().Characteristic
	m["NewConfigureBridgedAccessoryStatus"] = NewConfigureBridgedAccessoryStatus().Characteristic
	m["NewConfiguredName"] = NewConfiguredName().Characteristic
	m["NewContactSensorState"] = NewContactSensorState().Characteristic
	m["NewCoolingThresholdTemperature"] = NewCoolingThresholdTemperature().Characteristic
	m["NewCurrentAirPurifierState"] = NewCurrentAirPurifierState().Characteristic
	m["NewCurrentAmbientLightLevel"] = NewCurrentAmbientLightLevel().Characteristic
	m["NewCurrentDoorState"] = NewCurrentDoorState().Characteristic
	m["NewCurrentFanState"] = NewCurrentFanState().Characteristic
	m["NewCurrentHeaterCoolerState"] = NewCurrentHeaterCoolerState().Characteristic
	m["NewCurrentHeatingCoolingState"] = NewCurrentHeatingCoolingState().Characteristic
	m["NewCurrentHorizontalTiltAngle"] = NewCurrentHorizontalTiltAngle().Characteristic
	m["NewCurrentHumidifierDehumidifierState"] = NewCurrentHumidifierDehumidifierState().Characteristic
	m["NewCurrentMediaState"] = NewCurrentMediaState().Characteristic
	m["NewCurrentPosition"] = NewCurrentPosition().Characteristic
	m["NewCurrentRelativeHumidity"] = NewCurrentRelativeHumidity().Characteristic
	m["NewCurrentSlatState"] = NewCurrentSlatState().Characteristic
	m["NewCurrentTemperature"] = NewCurrentTemperature().Characteristic
	m["NewCurrentTiltAngle"] = NewCurrentTiltAngle().Characteristic
	m["NewCurrentTime"] = NewCurrentTime().Characteristic
	m["NewCurrentTransport"] = NewCurrentTransport().Characteristic
	m["NewCurrentVerticalTiltAngle"] = NewCurrentVerticalTiltAngle().Characteristic
	m["NewCurrentVisibilityState"] = NewCurrentVisibilityState().Characteristic
	m["NewDayOfTheWeek"] = NewDayOfTheWeek().Characteristic
	m["NewDigitalZoom"] = NewDigitalZoom().Characteristic
	m["NewDiscoverBridgedAccessories"] = NewDiscoverBridgedAccessories().Characteristic
	m["NewDiscoveredBridgedAccessories"] = NewDiscoveredBridgedAccessories().Characteristic
	m["NewDisplayOrder"] = NewDisplayOrder().Characteristic
	m["NewFilterChangeIndication"] = NewFilterChangeIndication().Characteristic
	m["NewFilterLifeLevel"] = NewFilterLifeLevel().Characteristic
	m["NewFirmwareRevision"] = NewFirmwareRevision().Characteristic
	m["NewHardwareRevision"] = NewHardwareRevision().Characteristic
	m["NewHeatingThresholdTemperature"] = NewHeatingThresholdTemperature().Characteristic
	m["NewHoldPosition"] = NewHoldPosition().Characteristic
	m["NewHue"] = NewHue().Characteristic
	m["NewIdentifier"] = NewIdentifier().Characteristic
	m["NewIdentify"] = NewIdentify().Characteristic
	m["NewImageMirroring"] = NewImageMirroring().Characteristic
	m["NewImageRotation"] = NewImageRotation().Characteristic
	m["NewInUse"] = NewInUse().Characteristic
	m["NewInputDeviceType"] = NewInputDeviceType().Characteristic
	m["NewInputSourceType"] = NewInputSourceType().Characteristic
	m["NewIsConfigured"] = NewIsConfigured().Characteristic
	m["NewLeakDetected"] = NewLeakDetected().Characteristic
	m["NewLinkQuality"] = NewLinkQuality().Characteristic
	m["NewLockControlPoint"] = NewLockControlPoint().Characteristic
	m["NewLockCurrentState"] = NewLockCurrentState().Characteristic
	m["NewLockLastKnownAction"] = NewLockLastKnownAction().Characteristic
	m["NewLockManagementAutoSecurityTimeout"] = NewLockManagementAutoSecurityTimeout().Characteristic
	m["NewLockPhysicalControls"] = NewLockPhysicalControls().Characteristic
	m["NewLockTargetState"] = NewLockTargetState().Characteristic
	m["NewLogs"] = NewLogs().Characteristic
	m["NewManufacturer"] = NewManufacturer().Characteristic
	m["NewModel"] = NewModel().Characteristic
	m["NewMotionDetected"] = NewMotionDetected().Characteristic
	m["NewMute"] = NewMute().Characteristic
	m["NewName"] = NewName().Characteristic
	m["NewNightVision"] = NewNightVision().Characteristic
	m["NewNitrogenDioxideDensity"] = NewNitrogenDioxideDensity().Characteristic
	m["NewObstructionDetected"] = NewObstructionDetected().Characteristic
	m["NewOccupancyDetected"] = NewOccupancyDetected().Characteristic
	m["NewOn"] = NewOn().Characteristic
	m["NewOpticalZoom"] = NewOpticalZoom().Characteristic
	m["NewOutletInUse"] = NewOutletInUse().Characteristic
	m["NewOzoneDensity"] = NewOzoneDensity().Characteristic
	m["NewPairSetup"] = NewPairSetup().Characteristic
	m["NewPairVerify"] = NewPairVerify().Characteristic
	m["NewPairingFeatures"] = NewPairingFeatures().Characteristic
	m["NewPairingPairings"] = NewPairingPairings().Characteristic
	m["NewPictureMode"] = NewPictureMode().Characteristic
	m["NewPM10Density"] = NewPM10Density().Characteristic
	m["NewPositionState"] = NewPositionState().Characteristic
	m["NewPowerModeSelection"] = NewPowerModeSelection().Characteristic
	m["NewProgramMode"] = NewProgramMode().Characteristic
	m["NewProgrammableSwitchEvent"] = NewProgrammableSwitchEvent().Characteristic
	m["NewProgrammableSwitchOutputState"] = NewProgrammableSwitchOutputState().Characteristic
	m["NewReachable"] = NewReachable().Characteristic
	m["NewRelativeHumidityDehumidifierThreshold"] = NewRelativeHumidityDehumidifierThreshold().Characteristic
	m["NewRelativeHumidityHumidifierThreshold"] = NewRelativeHumidityHumidifierThreshold().Characteristic
	m["NewRemainingDuration"] = NewRemainingDuration().Characteristic
	m["NewRemoteKey"] = NewRemoteKey().Characteristic
	m["NewResetFilterIndication"] = NewResetFilterIndication().Characteristic
	m["NewRotationDirection"] = NewRotationDirection().Characteristic
	m["NewRotationSpeed"] = NewRotationSpeed().Characteristic
	m["NewSaturation"] = NewSaturation().Characteristic
	m["NewSecuritySystemAlarmType"] = NewSecuritySystemAlarmType().Characteristic
	m["NewSecuritySystemCurrentState"] = NewSecuritySystemCurrentState().Characteristic
	m["NewSecuritySystemTargetState"] = NewSecuritySystemTargetState().Characteristic
	m["NewSelectedCameraRecordingConfiguration"] = NewSelectedCameraRecordingConfiguration().Characteristic
	m["NewSelectedRTPStreamConfiguration"] = NewSelectedRTPStreamConfiguration().Characteristic
	m["NewSelectedStreamConfiguration"] = NewSelectedStreamConfiguration().Characteristic
	m["NewSerialNumber"] = NewSerialNumber().Characteristic
	m["NewServiceLabelIndex"] = NewServiceLabelIndex().Characteristic
	m["NewServiceLabelNamespace"] = NewServiceLabelNamespace().Characteristic
	m["NewSetDuration"] = NewSetDuration().Characteristic
	m["NewSetupEndpoints"] = NewSetupEndpoints().Characteristic
	m["NewSlatType"] = NewSlatType().Characteristic
	m["NewSleepDiscoveryMode"] = NewSleepDiscoveryMode().Characteristic
	m["NewSmokeDetected"] = NewSmokeDetected().Characteristic
	m["NewSoftwareRevision"] = NewSoftwareRevision().Characteristic
	m["NewStatusActive"] = NewStatusActive().Characteristic
	m["NewStatusFault"] = NewStatusFault().Characteristic
	m["NewStatusJammed"] = NewStatusJammed().Characteristic
	m["NewStatusLowBattery"] = NewStatusLowBattery().Characteristic
	m["NewStatusTampered"] = NewStatusTampered().Characteristic
	m["NewStreamingStatus"] = NewStreamingStatus().Characteristic
	m["NewSulphurDioxideDensity"] = NewSulphurDioxideDensity().Characteristic
	m["NewSupportedAudioRecordingConfiguration"] = NewSupportedAudioRecordingConfiguration().Characteristic
	m["NewSupportedAudioStreamConfiguration"] = NewSupportedAudioStreamConfiguration().Characteristic
	m["NewSupportedCameraRecordingConfiguration"] = NewSupportedCameraRecordingConfiguration().Characteristic
	m["NewSupportedRTPConfiguration"] = NewSupportedRTPConfiguration().Characteristic
	m["NewSupportedVideoRecordingConfiguration"] = NewSupportedVideoRecordingConfiguration().Characteristic
	m["NewSupportedVideoStreamConfiguration"] = NewSupportedVideoStreamConfiguration().Characteristic
	m["NewSwingMode"] = NewSwingMode().Characteristic
	m["NewTargetAirPurifierState"] = NewTargetAirPurifierState().Characteristic
	m["NewTargetAirQuality"] = NewTargetAirQuality().Characteristic
	m["NewTargetDoorState"] = NewTargetDoorState().Characteristic
	m["NewTargetFanState"] = NewTargetFanState().Characteristic
	m["NewTargetHeaterCoolerState"] = NewTargetHeaterCoolerState().Characteristic
	m["NewTargetHeatingCoolingState"] = NewTargetHeatingCoolingState().Characteristic
	m["NewTargetHorizontalTiltAngle"] = NewTargetHorizontalTiltAngle().Characteristic
	m["NewTargetHumidifierDehumidifierState"] = NewTargetHumidifierDehumidifierState().Characteristic
	m["NewTargetMediaState"] = NewTargetMediaState().Characteristic
	m["NewTargetPosition"] = NewTargetPosition().Characteristic
	m["NewTargetRelativeHumidity"] = NewTargetRelativeHumidity().Characteristic
	m["NewTargetSlatState"] = NewTargetSlatState().Characteristic
	m["NewTargetTemperature"] = NewTargetTemperature().Characteristic
	m["NewTargetTiltAngle"] = NewTargetTiltAngle().Characteristic
	m["NewTargetVerticalTiltAngle"] = NewTargetVerticalTiltAngle().Characteristic
	m["NewTargetVisibilityState"] = NewTargetVisibilityState().Characteristic
	m["NewTemperatureDisplayUnits"] = NewTemperatureDisplayUnits().Characteristic
	m["NewTimeUpdate"] = NewTimeUpdate().Characteristic
	m["NewTunnelConnectionTimeout"] = NewTunnelConnectionTimeout().Characteristic
	m["NewTunneledAccessoryAdvertising"] = NewTunneledAccessoryAdvertising().Characteristic
	m["NewTunneledAccessoryConnected"] = NewTunneledAccessoryConnected().Characteristic
	m["NewTunneledAccessoryStateNumber"] = NewTunneledAccessoryStateNumber().Characteristic
	m["NewValveType"] = NewValveType().Characteristic
	m["NewVersion"] = NewVersion().Characteristic
	m["NewVOCDensity"] = NewVOCDensity().Characteristic
	m["NewVolume"] = NewVolume().Characteristic
	m["NewVolumeControlType"] = NewVolumeControlType().Characteristic
	m["NewVolumeSelector"] = NewVolumeSelector().Characteristic
	m["NewWaterLevel"] = NewWaterLevel().Characteristic
	m["NewWifiCapabilities"] = NewWifiCapabilities().Characteristic
	m["NewWifiConfigurationControl"] = NewWifiConfigurationControl().Characteristic
	return m
}

func h4j(v interface{}) string { b, _ := json.Marshal(v); return string(b) }

// For every characteristic type: a write (JSON-decoded value) calls the update
// callbacks iff the encoded value changed.
func TestHunt4SweepChangeIffCallback(t *testing.T) {
	a, b := net.Pipe()
	defer a.Close()
	defer b.Close()
	for name, c := range h4all() {
		fired := 0
		c.OnValueUpdateFromConn(func(conn net.Conn, c *Characteristic, n, o interface{}) { fired++ })
		c.OnValueUpdate(func(c *Characteristic, n, o interface{}) { fired++ })
		var cands []interface{}
		var cur interface{}
		json.Unmarshal([]byte(h4j(c.Value)), &cur)
		cands = append(cands, cur)
		for _, x := range []interface{}{c.MinValue, c.MaxValue, c.StepValue} {
			if x != nil {
				var y interface{}
				json.Unmarshal([]byte(h4j(x)), &y)
				cands = append(cands, y)
				if f, ok := y.(float64); ok {
					cands = append(cands, f-1, f+1, f+0.5, f-0.25)
				}
			}
		}
		cands = append(cands, true, false, float64(0), float64(1), float64(2), float64(-1), 1.5, 0.1, "1", "0", "", "abc", "true", 1e20, -1e20, float64(255), float64(256), float64(65536), float64(4294967296), []interface{}{1.0}, map[string]interface{}{"a": 1.0}, []interface{}{}, 1e300, float64(1<<63), float64(-(1 << 63)))
		for round := 0; round < 2; round++ {
			for _, v := range cands {
				for _, remote := range []bool{true, false} {
					if v == nil {
						continue
					}
					before := h4j(c.Value)
					fired = 0
					func() {
						defer func() {
							if r := recover(); r != nil {
								t.Errorf("%s (%s %v): write %v (%T): panic %v", name, c.Format, c.Perms, v, v, r)
							}
						}()
						if remote {
							c.UpdateValueFromConnection(v, a)
						} else {
							c.UpdateValue(v)
						}
					}()
					after := h4j(c.Value)
					if !c.IsReadable() {
						continue
					}
					if before == after && fired > 0 && !c.updateOnSameValue {
						t.Errorf("%s (%s %v): write %v (%T) remote=%v: value %s unchanged but %d callbacks", name, c.Format, c.Perms, v, v, remote, before, fired)
					}
					if before != after && fired != 1 {
						t.Errorf("%s (%s %v): write %v (%T) remote=%v: value %s -> %s but %d callbacks", name, c.Format, c.Perms, v, v, remote, before, after, fired)
					}
					if remote && !c.IsWritable() && before != after {
						t.Errorf("%s: not writable but changed", name)
					}
				}
			}
		}
	}
	t.Logf("swept %d characteristic types", len(h4all()))
}

package hc

import (
	"encoding/json"
	"fmt"
	"math/rand"
	"os"
	"reflect"
	"sort"
	"time"
	"strconv"
	"strings"
	"testing"

	"github.com/brutella/hc/accessory"
	"github.com/brutella/hc/characteristic"
)

type h4char struct {
	aid uint64
	c   *characteristic.Characteristic
	acc *accessory.Accessory
}

func h4setup(t *testing.T) (*h4env, []h4char) {
	bridge := accessory.NewBridge(accessory.Info{Name: "Bridge"})
	lb := accessory.NewColoredLightbulb(accessory.Info{Name: "Bulb"})
	th := accessory.NewThermostat(accessory.Info{Name: "Thermo"}, 20, 10, 38, 0.5)
	sw := accessory.NewSwitch(accessory.Info{Name: "Switch"})
	ol := accessory.NewOutlet(accessory.Info{Name: "Outlet"})
	e := h4start(t, bridge.Accessory, lb.Accessory, th.Accessory, sw.Accessory, ol.Accessory)
	var cs []h4char
	for _, a := range e.tr.container.Accessories {
		for _, s := range a.Services {
			for _, c := range s.Characteristics {
				cs = append(cs, h4char{a.ID, c, a})
			}
		}
	}
	return e, cs
}

func h4json(v interface{}) string {
	b, _ := json.Marshal(v)
	return string(b)
}

func h4sorted(evs []h4ev) []string {
	var out []string
	for _, e := range evs {
		out = append(out, fmt.Sprintf("%d.%d=%s", e.aid, e.iid, e.value))
	}
	sort.Strings(out)
	return out
}

func TestHunt4RandomHistories(t *testing.T) {
	seeds := 20
	if s := os.Getenv("H4SEEDS"); s != "" {
		seeds, _ = strconv.Atoi(s)
	}
	base := int64(1)
	if s := os.Getenv("H4BASE"); s != "" {
		base, _ = strconv.ParseInt(s, 10, 64)
	}
	for seed := base; seed < base+int64(seeds); seed++ {
		seed := seed
		t.Run(fmt.Sprintf("seed%d", seed), func(t *testing.T) { h4history(t, seed, 120) })
	}
}

func h4candidate(rnd *rand.Rand, c *characteristic.Characteristic) interface{} {
	switch c.Format {
	case characteristic.FormatBool:
		switch rnd.Intn(4) {
		case 0:
			return true
		case 1:
			return false
		case 2:
			return 1
		default:
			return 0
		}
	case characteristic.FormatFloat:
		return float64(rnd.Intn(90)-10) / 2
	case characteristic.FormatString, characteristic.FormatTLV8, characteristic.FormatData:
		return []string{"a", "b", ""}[rnd.Intn(3)]
	default:
		return rnd.Intn(8) - 1 + rnd.Intn(2)*rnd.Intn(400)
	}
}

func h4history(t *testing.T, seed int64, steps int) {
	rnd := rand.New(rand.NewSource(seed))
	e, cs := h4setup(t)
	const N = 4
	ctrls := make([]*h4ctrl, N)
	open := make([]bool, N)
	subs := make([]map[*characteristic.Characteristic]bool, N)
	expect := make([][]h4ev, N)
	var trace []string
	logf := func(f string, a ...interface{}) { trace = append(trace, fmt.Sprintf(f, a...)) }
	fail := func(f string, a ...interface{}) {
		t.Helper()
		t.Fatalf("seed %d: %s\ntrace:\n%s", seed, fmt.Sprintf(f, a...), strings.Join(trace, "\n"))
	}

	connect := func(i int) {
		if ctrls[i] == nil {
			ctrls[i] = e.newController(fmt.Sprintf("ctrl-%d", i))
		}
		if err := e.dial(ctrls[i]); err != nil {
			fail("dial: %v", err)
		}
		if err := ctrls[i].verify(); err != nil {
			fail("verify %d: %v", i, err)
		}
		open[i] = true
		subs[i] = map[*characteristic.Characteristic]bool{}
		expect[i] = nil
		logf("connect %d (%v)", i, ctrls[i].conn.LocalAddr())
	}
	order := rnd.Perm(N)
	for _, i := range order[:3] {
		connect(i)
	}

	// model of a change: the library's own conversion is not under test here, so
	// the model reads the value back; what is under test is who is told
	notify := func(ch h4char, origin int) {
		for i := 0; i < N; i++ {
			if !open[i] || i == origin || !subs[i][ch.c] {
				continue
			}
			expect[i] = append(expect[i], h4ev{ch.aid, ch.c.ID, h4json(ch.c.Value)})
		}
	}

	check := func() {
		for i := 0; i < N; i++ {
			if !open[i] {
				continue
			}
			got, err := ctrls[i].takeEvents()
			if err != nil {
				fail("barrier %d: %v", i, err)
			}
			// order across characteristics is kept per connection, compare in order
			var g, w []string
			for _, x := range got {
				g = append(g, fmt.Sprintf("%d.%d=%s", x.aid, x.iid, x.value))
			}
			for _, x := range expect[i] {
				w = append(w, fmt.Sprintf("%d.%d=%s", x.aid, x.iid, x.value))
			}
			if !reflect.DeepEqual(g, w) {
				fail("controller %d: events\n got  %v\n want %v", i, g, w)
			}
			expect[i] = nil
		}
	}

	for step := 0; step < steps; step++ {
		ch := cs[rnd.Intn(len(cs))]
		// prefer characteristics somebody is subscribed to
		if rnd.Intn(3) > 0 {
			var cand []h4char
			for _, x := range cs {
				for i := 0; i < N; i++ {
					if open[i] && subs[i][x.c] {
						cand = append(cand, x)
						break
					}
				}
			}
			if len(cand) > 0 {
				ch = cand[rnd.Intn(len(cand))]
			}
		}
		i := rnd.Intn(N)
		switch op := rnd.Intn(12); {
		case op < 3: // subscribe
			if !open[i] {
				continue
			}
			r, err := ctrls[i].put(fmt.Sprintf(`{"characteristics":[{"aid":%d,"iid":%d,"ev":true}]}`, ch.aid, ch.c.ID))
			if err != nil {
				fail("subscribe: %v", err)
			}
			logf("sub %d %d.%d -> %d %s", i, ch.aid, ch.c.ID, r.status, r.body)
			if ch.c.IsObservable() {
				if r.status != 204 {
					fail("subscribe status %d", r.status)
				}
				subs[i][ch.c] = true
			}
		case op == 3: // unsubscribe
			if !open[i] {
				continue
			}
			r, err := ctrls[i].put(fmt.Sprintf(`{"characteristics":[{"aid":%d,"iid":%d,"ev":false}]}`, ch.aid, ch.c.ID))
			if err != nil {
				fail("unsubscribe: %v", err)
			}
			logf("unsub %d %d.%d -> %d", i, ch.aid, ch.c.ID, r.status)
			if ch.c.IsObservable() {
				subs[i][ch.c] = false
			}
		case op < 7: // local set
			v := h4candidate(rnd, ch.c)
			old := h4json(ch.c.Value)
			ch.c.UpdateValue(v)
			now := h4json(ch.c.Value)
			logf("local %d.%d (%s) %v: %s -> %s", ch.aid, ch.c.ID, ch.c.Format, v, old, now)
			if old != now {
				notify(ch, -1)
			}
		case op < 10: // remote write, possibly of several characteristics, possibly with ev
			if !open[i] {
				continue
			}
			n := 1 + rnd.Intn(3)*rnd.Intn(2)
			var items []string
			var chs []h4char
			evs := map[int]int{}
			for k := 0; k < n; k++ {
				x := ch
				if k > 0 {
					x = cs[rnd.Intn(len(cs))]
				}
				v := h4candidate(rnd, x.c)
				item := fmt.Sprintf(`{"aid":%d,"iid":%d,"value":%s`, x.aid, x.c.ID, h4json(v))
				switch rnd.Intn(6) {
				case 0:
					item += `,"ev":true`
					evs[k] = 1
				case 1:
					item += `,"ev":false`
					evs[k] = -1
				}
				items = append(items, item+"}")
				chs = append(chs, x)
			}
			olds := make([]string, len(chs))
			// effects are applied in order: model it in order by reading after the fact is
			// not possible for repeated ids, so predict with a scratch copy
			body := `{"characteristics":[` + strings.Join(items, ",") + `]}`
			for k, x := range chs {
				olds[k] = h4json(x.c.Value)
			}
			{
				seen := map[*characteristic.Characteristic]int{}
				for _, x := range chs {
					seen[x.c]++
					if seen[x.c] > 1 {
						check()
						break
					}
				}
			}
			r, err := ctrls[i].put(body)
			if err != nil {
				fail("write: %v (%s)", err, body)
			}
			logf("write %d %s -> %d %s", i, body, r.status, r.body)
			// model: for items whose characteristic appears once, changed iff value differs now
			seen := map[*characteristic.Characteristic]int{}
			for _, x := range chs {
				seen[x.c]++
			}
			repeated := false
			for _, n := range seen {
				if n > 1 {
					repeated = true
				}
			}
			if repeated {
				// resynchronise instead of predicting: drop this step's events
				for j := 0; j < N; j++ {
					if open[j] {
						if _, err := ctrls[j].takeEvents(); err != nil {
							fail("barrier: %v", err)
						}
						expect[j] = nil
					}
				}
				for k, x := range chs {
					if x.c.IsObservable() && evs[k] != 0 {
						subs[i][x.c] = evs[k] > 0
					}
				}
				continue
			}
			for k, x := range chs {
				now := h4json(x.c.Value)
				if now != olds[k] && x.c.IsWritable() {
					notify(x, i)
				} else if now != olds[k] {
					fail("a characteristic without write permission changed: %d.%d", x.aid, x.c.ID)
				}
				if x.c.IsObservable() && evs[k] != 0 {
					subs[i][x.c] = evs[k] > 0
				}
			}
		case op == 10: // close
			if !open[i] {
				continue
			}
			nopen := 0
			for _, o := range open {
				if o {
					nopen++
				}
			}
			if nopen <= 1 {
				continue
			}
			check()
			ctrls[i].close()
			open[i] = false
			logf("close %d", i)
			// the accessory notices the close when it reads: wait until its session is gone
			h4waitSessions(t, e, nopen-1)
		case op == 11: // (re)connect
			if open[i] {
				continue
			}
			connect(i)
		}
		if rnd.Intn(4) == 0 {
			check()
		}
	}
	check()
}

func h4waitSessions(t *testing.T, e *h4env, n int) {
	for k := 0; k < 400; k++ {
		if len(e.tr.context.ActiveConnections()) == n {
			return
		}
		sleepMs(5)
	}
	t.Fatalf("sessions: %d, want %d", len(e.tr.context.ActiveConnections()), n)
}

func sleepMs(n int) { time.Sleep(time.Duration(n) * time.Millisecond) }

package hc

import (
	"fmt"
	"sync"
	"testing"
)

// Schedule: the application and controller A change the same characteristic at the
// same time, with DIFFERENT values (so the known same-value double event is not in play).
// B is subscribed. After both are done B's last event should carry the final value, and
// every event should carry a value that was new at some point, once.
func TestHunt4StaleLastEvent(t *testing.T) {
	_, a, b, cs := h4pair(t)
	var br h4char
	for _, x := range cs {
		if x.aid == 2 && x.c.ID == 10 {
			br = x
		}
	}
	stale, dup := 0, 0
	const rounds = 300
	for r := 0; r < rounds; r++ {
		br.c.UpdateValue(0)
		b.takeEvents()
		var wg sync.WaitGroup
		wg.Add(2)
		go func() { defer wg.Done(); br.c.UpdateValue(5) }()
		go func() {
			defer wg.Done()
			a.put(`{"characteristics":[{"aid":2,"iid":10,"value":7}]}`)
		}()
		wg.Wait()
		evs, err := b.takeEvents()
		if err != nil {
			t.Fatal(err)
		}
		final := fmt.Sprint(br.c.Value)
		if len(evs) == 0 || evs[len(evs)-1].value != final {
			stale++
			if stale == 1 {
				t.Logf("round %d: final value %s, B saw %v", r, final, evs)
			}
		}
		if len(evs) == 2 && evs[0].value == evs[1].value {
			dup++
			if dup == 1 {
				t.Logf("round %d: final value %s, B saw %v", r, final, evs)
			}
		}
	}
	// Clause: "receives exactly one EVENT message carrying the new value". Asserted here
	// only in its weakest reading: after all changes are done, the last event a subscriber
	// got carries the value the characteristic has. (Two events carrying the same value,
	// [7 7], also occur; they come from the unsynchronised updateValue, which is known,
	// and are only logged.)
	t.Logf("%d of %d rounds with two events carrying the same value (logged only)", dup, rounds)
	if stale > 0 {
		t.Errorf("%d of %d rounds: B's last event does not carry the final value", stale, rounds)
	}
}

package hc

import (
	"net"
	"github.com/brutella/hc/accessory"
	"fmt"
	"testing"
	"time"
)

// two verified controllers; b subscribed to 2.9 (On of the bulb) and 2.10 (Brightness)
func h4pair(t *testing.T) (*h4env, *h4ctrl, *h4ctrl, []h4char) {
	e, cs := h4setup(t)
	a := e.newController("A")
	b := e.newController("B")
	for _, c := range []*h4ctrl{a, b} {
		if err := e.dial(c); err != nil {
			t.Fatal(err)
		}
		if err := c.verify(); err != nil {
			t.Fatal(err)
		}
	}
	if r, err := b.put(`{"characteristics":[{"aid":2,"iid":9,"ev":true},{"aid":2,"iid":10,"ev":true}]}`); err != nil || r.status != 204 {
		t.Fatal(r, err)
	}
	return e, a, b, cs
}

func h4show(t *testing.T, label string, c *h4ctrl) []h4ev {
	evs, err := c.takeEvents()
	if err != nil {
		t.Logf("%s: barrier error: %v", label, err)
		return nil
	}
	t.Logf("%s: events %v", label, evs)
	return evs
}

func TestHunt4ProbeHTTP(t *testing.T) {
	raw := func(name string, reqs ...string) {
		t.Run(name, func(t *testing.T) {
			_, a, b, _ := h4pair(t)
			for _, r := range reqs {
				if err := a.writeRaw([]byte(r)); err != nil {
					t.Logf("write: %v", err)
				}
			}
			for {
				select {
				case m := <-a.msgs:
					t.Logf("A <- %s %v %q", m.raw, m.header, m.body)
					continue
				case <-a.done:
					t.Logf("A reader ended: %v", a.rerr)
				case <-time.After(300 * time.Millisecond):
				}
				break
			}
			h4show(t, "B", b)
			h4show(t, "A", a)
		})
	}
	body := `{"characteristics":[{"aid":2,"iid":9,"value":true}]}`
	body2 := `{"characteristics":[{"aid":2,"iid":9,"value":false}]}`
	put := func(b string, extra string) string {
		return fmt.Sprintf("PUT /characteristics HTTP/1.1\r\nHost: x\r\n%sContent-Length: %d\r\n\r\n%s", extra, len(b), b)
	}
	raw("pipelined", put(body, "")+put(body2, "")+put(body, ""))
	raw("expect", fmt.Sprintf("PUT /characteristics HTTP/1.1\r\nHost: x\r\nExpect: 100-continue\r\nContent-Length: %d\r\n\r\n", len(body)), body)
	raw("chunked", fmt.Sprintf("PUT /characteristics HTTP/1.1\r\nHost: x\r\nTransfer-Encoding: chunked\r\n\r\n%x\r\n%s\r\n0\r\n\r\n", len(body), body))
	raw("http10", fmt.Sprintf("PUT /characteristics HTTP/1.0\r\nContent-Length: %d\r\n\r\n%s", len(body), body))
	raw("http10keep", fmt.Sprintf("PUT /characteristics HTTP/1.0\r\nConnection: keep-alive\r\nContent-Length: %d\r\n\r\n%s", len(body), body))
	raw("connclose", put(body, "Connection: close\r\n"))
	raw("head", "HEAD /characteristics?id=2.9 HTTP/1.1\r\nHost: x\r\n\r\n")
	raw("options", "OPTIONS /characteristics HTTP/1.1\r\nHost: x\r\n\r\n")
	raw("post", fmt.Sprintf("POST /characteristics HTTP/1.1\r\nHost: x\r\nContent-Length: %d\r\n\r\n%s", len(body), body))
	raw("slash", fmt.Sprintf("PUT /characteristics/ HTTP/1.1\r\nHost: x\r\nContent-Length: %d\r\n\r\n%s", len(body), body))
	raw("dslash", fmt.Sprintf("PUT //characteristics HTTP/1.1\r\nHost: x\r\nContent-Length: %d\r\n\r\n%s", len(body), body))
	raw("absurl", fmt.Sprintf("PUT http://x/characteristics HTTP/1.1\r\nHost: x\r\nContent-Length: %d\r\n\r\n%s", len(body), body))
	raw("ev1", put(`{"characteristics":[{"aid":2,"iid":9,"ev":1}]}`, ""), put(`{"characteristics":[{"aid":2,"iid":9,"ev":"true"}]}`, ""))
	raw("dupkeys", put(`{"characteristics":[{"aid":2,"iid":9,"value":true,"value":false,"value":true}]}`, ""))
	raw("twice", put(`{"characteristics":[{"aid":2,"iid":9,"value":true},{"aid":2,"iid":9,"value":false},{"aid":2,"iid":9,"value":true}]}`, ""))
	raw("valuestr", put(`{"characteristics":[{"aid":2,"iid":9,"value":"1"},{"aid":2,"iid":10,"value":"55"}]}`, ""))
	raw("objvalue", put(`{"characteristics":[{"aid":2,"iid":9,"value":{"a":1}},{"aid":2,"iid":10,"value":[5]}]}`, ""))
	raw("mixedcase", put(`{"Characteristics":[{"AID":2,"IID":9,"Value":true}]}`, ""))
	raw("aidstring", put(`{"characteristics":[{"aid":2,"iid":10,"value":7},{"aid":"2","iid":9,"value":true}]}`, ""))
	raw("aidfloat", put(`{"characteristics":[{"aid":2.0,"iid":9,"value":true}]}`, ""))
	raw("aidneg", put(`{"characteristics":[{"aid":2,"iid":10,"value":7},{"aid":-2,"iid":9,"value":true}]}`, ""))
	raw("trailing", put(`{"characteristics":[{"aid":2,"iid":9,"value":true}]} garbage`, ""))
	raw("bom", put("\xef\xbb\xbf"+body, ""))
	raw("nocl", "PUT /characteristics HTTP/1.1\r\nHost: x\r\n\r\n"+body)
	raw("getbody", fmt.Sprintf("GET /characteristics?id=2.9 HTTP/1.1\r\nHost: x\r\nContent-Length: %d\r\n\r\n%s", len(body), body))
}

func TestHunt4ProbeReconnectSameAddress(t *testing.T) {
	e, a, b, _ := h4pair(t)
	for round := 0; round < 200; round++ {
		laddr := b.conn.LocalAddr().(*net.TCPAddr)
		b.conn.(*net.TCPConn).SetLinger(0)
		b.close()
		var err error
		for k := 0; k < 50; k++ {
			if err = e.dialFrom(b, &net.TCPAddr{IP: laddr.IP, Port: laddr.Port}); err == nil {
				break
			}
			time.Sleep(2 * time.Millisecond)
		}
		if err != nil {
			t.Fatalf("round %d: %v", round, err)
		}
		if err := b.verify(); err != nil {
			t.Fatalf("round %d: verify: %v", round, err)
		}
		// not subscribed on the new connection
		v := round%2 == 0
		if r, err := a.put(fmt.Sprintf(`{"characteristics":[{"aid":2,"iid":9,"value":%v}]}`, v)); err != nil || r.status != 204 {
			t.Fatal(r, err)
		}
		evs, err := b.takeEvents()
		if err != nil {
			t.Fatalf("round %d: %v", round, err)
		}
		if len(evs) != 0 {
			t.Fatalf("round %d: new connection from the old address got %v without subscribing", round, evs)
		}
		if r, err := b.put(`{"characteristics":[{"aid":2,"iid":9,"ev":true}]}`); err != nil || r.status != 204 {
			t.Fatal(r, err)
		}
		if r, err := a.put(fmt.Sprintf(`{"characteristics":[{"aid":2,"iid":10,"value":1},{"aid":2,"iid":9,"value":%v}]}`, !v)); err != nil || r.status != 204 {
			t.Fatal(r, err)
		}
		evs, err = b.takeEvents()
		if err != nil {
			t.Fatalf("round %d: %v", round, err)
		}
		if len(evs) != 1 {
			t.Fatalf("round %d: got %v", round, evs)
		}
		if n := len(e.tr.context.ActiveConnections()); n > 3 {
			t.Fatalf("round %d: %d sessions", round, n)
		}
	}
}

func TestHunt4ProbeRestart(t *testing.T) {
	e, a, b, cs := h4pair(t)
	var accs []*accessory.Accessory
	for _, x := range e.tr.container.Accessories {
		accs = append(accs, x)
	}
	old := e.tr
	<-old.Stop()
	t.Logf("old sessions after stop: %d", len(old.context.ActiveConnections()))
	tr, err := NewIPTransport(Config{StoragePath: e.dir}, accs[0], accs[1:]...)
	if err != nil {
		t.Fatal(err)
	}
	e.tr = tr
	e.start()
	for _, c := range []*h4ctrl{a, b} {
		if err := e.dial(c); err != nil {
			t.Fatal(err)
		}
		if err := c.verify(); err != nil {
			t.Fatal(err)
		}
	}
	if r, err := b.put(`{"characteristics":[{"aid":2,"iid":9,"ev":true}]}`); err != nil || r.status != 204 {
		t.Fatal(r, err)
	}
	for _, x := range cs {
		if x.aid == 2 && x.c.ID == 9 {
			x.c.UpdateValue(!x.c.Value.(bool))
		}
	}
	h4show(t, "B", b)
	h4show(t, "A", a)
	a.put(`{"characteristics":[{"aid":2,"iid":9,"value":1}]}`)
	a.put(`{"characteristics":[{"aid":2,"iid":9,"value":0}]}`)
	h4show(t, "B", b)
	h4show(t, "A", a)
}

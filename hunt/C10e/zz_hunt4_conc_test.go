package hc

import (
	"fmt"
	"sync"
	"testing"
)

// Concurrent writers, each on a characteristic of its own, plus the application on a
// fifth one: no two changes touch the same characteristic, so none of the known races
// (same-value compare, large responses) is in play.
func TestHunt4ConcurrentDistinct(t *testing.T) {
	e, cs := h4setup(t)
	type tgt struct{ aid, iid uint64 }
	// Brightness 2.10 (0..100), Hue 2.12? use ints/floats with wide ranges
	var targets []h4char
	for _, x := range cs {
		if x.c.IsWritable() && x.c.IsObservable() && (x.c.Format == "int32" || x.c.Format == "float") {
			targets = append(targets, x)
		}
	}
	t.Logf("%d targets", len(targets))
	for _, x := range targets {
		t.Logf("%d.%d %s %v..%v", x.aid, x.c.ID, x.c.Format, x.c.MinValue, x.c.MaxValue)
	}
	targets = targets[:3]
	for _, x := range cs {
		if x.aid == 3 && x.c.ID == 11 {
			targets = append(targets, x)
		}
	}
	const N = 3
	const rounds = 90
	ctrls := make([]*h4ctrl, N)
	sub := ""
	for k, x := range targets {
		if k > 0 {
			sub += ","
		}
		sub += fmt.Sprintf(`{"aid":%d,"iid":%d,"ev":true}`, x.aid, x.c.ID)
	}
	for i := range ctrls {
		ctrls[i] = e.newController(fmt.Sprintf("c%d", i))
		if err := e.dial(ctrls[i]); err != nil {
			t.Fatal(err)
		}
		if err := ctrls[i].verify(); err != nil {
			t.Fatal(err)
		}
		if r, err := ctrls[i].put(`{"characteristics":[` + sub + `]}`); err != nil || r.status != 204 {
			t.Fatal(r, err)
		}
	}
	for _, x := range targets {
		x.c.UpdateValue(0)
	}
	targets[3].c.UpdateValue(10)
	for i := range ctrls {
		ctrls[i].takeEvents()
	}
	var wg sync.WaitGroup
	errs := make(chan error, N+1)
	for i := 0; i < N; i++ {
		wg.Add(1)
		go func(i int) {
			defer wg.Done()
			x := targets[i]
			for v := 1; v <= rounds; v++ {
				r, err := ctrls[i].put(fmt.Sprintf(`{"characteristics":[{"aid":%d,"iid":%d,"value":%d}]}`, x.aid, x.c.ID, v))
				if err != nil || r.status != 204 {
					errs <- fmt.Errorf("ctrl %d: %v %v", i, r, err)
					return
				}
			}
		}(i)
	}
	wg.Add(1)
	go func() {
		defer wg.Done()
		for v := 1; v <= rounds; v++ {
			targets[3].c.UpdateValue(10 + float64(v)*0.25)
		}
	}()
	wg.Wait()
	close(errs)
	for err := range errs {
		t.Fatal(err)
	}
	for i := 0; i < N; i++ {
		evs, err := ctrls[i].takeEvents()
		if err != nil {
			t.Fatalf("ctrl %d: %v", i, err)
		}
		next := map[int]int{}
		for _, ev := range evs {
			k := -1
			for j, x := range targets {
				if x.aid == ev.aid && x.c.ID == ev.iid {
					k = j
				}
			}
			if k == i {
				t.Errorf("ctrl %d got an event for its own change %v", i, ev)
				continue
			}
			next[k]++
			wantv := fmt.Sprint(next[k])
			if k == 3 {
				wantv = fmt.Sprint(10 + float64(next[k])*0.25)
			}
			if ev.value != wantv {
				t.Errorf("ctrl %d: characteristic %d: event %d carries %s", i, k, next[k], ev.value)
				next[k] = -1000
			}
		}
		for k := range targets {
			want := rounds
			if k == i {
				want = 0
			}
			if next[k] != want {
				t.Errorf("ctrl %d: characteristic %d: %d events, want %d", i, k, next[k], want)
			}
		}
	}
}

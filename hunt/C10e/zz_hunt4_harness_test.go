package hc

// Harness of hunt 4 / C10: a reference controller which pair-verifies against a
// started transport over loopback and records every EVENT message it receives.

import (
	"bufio"
	"bytes"
	"encoding/binary"
	"encoding/json"
	"fmt"
	"io"
	"io/ioutil"
	"net"
	"net/http/httputil"
	"net/textproto"
	"os"
	"strconv"
	"strings"
	"sync"
	"testing"
	"time"

	"github.com/brutella/hc/accessory"
	"github.com/brutella/hc/crypto"
	"github.com/brutella/hc/crypto/chacha20poly1305"
	"github.com/brutella/hc/crypto/curve25519"
	"github.com/brutella/hc/crypto/hkdf"
	"github.com/brutella/hc/db"
	"github.com/brutella/hc/hap/pair"
	"github.com/brutella/hc/log"
	"github.com/brutella/hc/util"
)

var _ = log.Debug

type h4msg struct {
	event  bool
	status int
	header textproto.MIMEHeader
	body   []byte
	raw    string
}

type h4ctrl struct {
	t      *testing.T
	name   string
	pub    []byte
	priv   []byte
	conn   net.Conn
	br     *bufio.Reader
	sess   crypto.Cryptographer
	msgs   chan h4msg
	mu     sync.Mutex
	events []h4msg
	rerr   error
	done   chan struct{}
}

type h4env struct {
	t    *testing.T
	tr   *ipTransport
	port string
	dir  string
}

func h4start(t *testing.T, a *accessory.Accessory, as ...*accessory.Accessory) *h4env {
	dir, err := ioutil.TempDir("", "h4")
	if err != nil {
		t.Fatal(err)
	}
	tr, err := NewIPTransport(Config{StoragePath: dir}, a, as...)
	if err != nil {
		t.Fatal(err)
	}
	e := &h4env{t: t, tr: tr, dir: dir}
	e.start()
	t.Cleanup(func() {
		<-e.tr.Stop()
		os.RemoveAll(dir)
	})
	return e
}

func (e *h4env) start() {
	go e.tr.Start()
	for i := 0; i < 500; i++ {
		time.Sleep(5 * time.Millisecond)
		e.tr.mutex.Lock()
		s := e.tr.server
		e.tr.mutex.Unlock()
		if s != nil {
			e.port = s.Port()
			c, err := net.Dial("tcp", "127.0.0.1:"+e.port)
			if err == nil {
				c.Close()
				time.Sleep(20 * time.Millisecond)
				return
			}
		}
	}
	e.t.Fatal("transport did not start")
}

// newController registers a controller (long-term public key only) with the accessory
func (e *h4env) newController(name string) *h4ctrl {
	ent, err := db.NewRandomEntityWithName(name)
	if err != nil {
		e.t.Fatal(err)
	}
	if err := e.tr.database.SaveEntity(db.NewEntity(name, ent.PublicKey, nil)); err != nil {
		e.t.Fatal(err)
	}
	return &h4ctrl{t: e.t, name: name, pub: ent.PublicKey, priv: ent.PrivateKey}
}

func (e *h4env) dial(c *h4ctrl) error {
	return e.dialFrom(c, nil)
}

func (e *h4env) dialFrom(c *h4ctrl, laddr *net.TCPAddr) error {
	d := net.Dialer{Timeout: 2 * time.Second}
	if laddr != nil {
		d.LocalAddr = laddr
	}
	conn, err := d.Dial("tcp", "127.0.0.1:"+e.port)
	if err != nil {
		return err
	}
	c.conn = conn
	c.br = bufio.NewReader(conn)
	c.msgs = make(chan h4msg, 1000)
	c.events = nil
	c.rerr = nil
	c.done = make(chan struct{})
	return nil
}

func (c *h4ctrl) plainPost(path string, body []byte) ([]byte, error) {
	req := fmt.Sprintf("POST %s HTTP/1.1\r\nHost: x\r\nContent-Type: application/pairing+tlv8\r\nContent-Length: %d\r\n\r\n", path, len(body))
	if _, err := c.conn.Write(append([]byte(req), body...)); err != nil {
		return nil, err
	}
	c.conn.SetReadDeadline(time.Now().Add(3 * time.Second))
	defer c.conn.SetReadDeadline(time.Time{})
	m, err := h4readMsg(c.br)
	if err != nil {
		return nil, err
	}
	if m.status != 200 {
		return nil, fmt.Errorf("status %d", m.status)
	}
	return m.body, nil
}

// verify runs pair-verify and starts the reader
func (c *h4ctrl) verify() error {
	priv := curve25519.GeneratePrivateKey()
	pub := curve25519.PublicKey(priv)
	m1 := util.NewTLV8Container()
	m1.SetByte(pair.TagSequence, 1)
	m1.SetBytes(pair.TagPublicKey, pub[:])
	b, err := c.plainPost("/pair-verify", m1.BytesBuffer().Bytes())
	if err != nil {
		return err
	}
	m2, err := util.NewTLV8ContainerFromReader(bytes.NewReader(b))
	if err != nil {
		return err
	}
	var other [32]byte
	copy(other[:], m2.GetBytes(pair.TagPublicKey))
	shared := curve25519.SharedSecret(priv, other)
	key, _ := hkdf.Sha512(shared[:], []byte("Pair-Verify-Encrypt-Salt"), []byte("Pair-Verify-Encrypt-Info"))

	var material []byte
	material = append(material, pub[:]...)
	material = append(material, c.name...)
	material = append(material, other[:]...)
	sig, err := crypto.ED25519Signature(c.priv, material)
	if err != nil {
		return err
	}
	sub := util.NewTLV8Container()
	sub.SetString(pair.TagUsername, c.name)
	sub.SetBytes(pair.TagSignature, sig)
	enc, mac, _ := chacha20poly1305.EncryptAndSeal(key[:], []byte("PV-Msg03"), sub.BytesBuffer().Bytes(), nil)
	m3 := util.NewTLV8Container()
	m3.SetByte(pair.TagSequence, 3)
	m3.SetBytes(pair.TagEncryptedData, append(enc, mac[:]...))

	c.sess, err = crypto.NewSecureClientSessionFromSharedKey(shared)
	if err != nil {
		return err
	}

	req := fmt.Sprintf("POST /pair-verify HTTP/1.1\r\nHost: x\r\nContent-Type: application/pairing+tlv8\r\nContent-Length: %d\r\n\r\n", m3.BytesBuffer().Len())
	if _, err := c.conn.Write(append([]byte(req), m3.BytesBuffer().Bytes()...)); err != nil {
		return err
	}
	c.conn.SetReadDeadline(time.Now().Add(3 * time.Second))
	head, err := c.br.Peek(4)
	if err != nil {
		return err
	}
	var m h4msg
	if string(head) == "HTTP" {
		m, err = h4readMsg(c.br)
		if err != nil {
			return err
		}
		c.conn.SetReadDeadline(time.Time{})
		c.startReader(nil)
	} else {
		// known: M4 is sometimes sent with the new keys already
		c.conn.SetReadDeadline(time.Time{})
		c.startReader(nil)
		select {
		case m = <-c.msgs:
		case <-time.After(3 * time.Second):
			return fmt.Errorf("no M4")
		}
	}
	if m.status != 200 {
		return fmt.Errorf("M4 status %d", m.status)
	}
	m4, err := util.NewTLV8ContainerFromReader(bytes.NewReader(m.body))
	if err != nil {
		return err
	}
	if code := m4.GetByte(pair.TagErrCode); code != 0 {
		return fmt.Errorf("M4 error %d", code)
	}
	return nil
}

// startReader decrypts frames into a pipe and parses messages off the pipe
func (c *h4ctrl) startReader(_ interface{}) {
	pr, pw := io.Pipe()
	br := c.br
	sess := c.sess
	go func() {
		for {
			var hdr [2]byte
			if _, err := io.ReadFull(br, hdr[:]); err != nil {
				pw.CloseWithError(err)
				return
			}
			n := int(binary.LittleEndian.Uint16(hdr[:]))
			frame := make([]byte, 2+n+16)
			copy(frame, hdr[:])
			if _, err := io.ReadFull(br, frame[2:]); err != nil {
				pw.CloseWithError(err)
				return
			}
			r, err := sess.Decrypt(bytes.NewReader(frame))
			if err != nil {
				pw.CloseWithError(fmt.Errorf("decrypt: %v", err))
				return
			}
			b, _ := ioutil.ReadAll(r)
			pw.Write(b)
		}
	}()
	msgs := c.msgs
	done := c.done
	go func() {
		pbr := bufio.NewReader(pr)
		for {
			m, err := h4readMsg(pbr)
			if err != nil {
				c.mu.Lock()
				c.rerr = err
				c.mu.Unlock()
				close(done)
				return
			}
			if m.event {
				c.mu.Lock()
				c.events = append(c.events, m)
				c.mu.Unlock()
			} else {
				msgs <- m
			}
		}
	}()
}

func h4readMsg(br *bufio.Reader) (h4msg, error) {
	var m h4msg
	tp := textproto.NewReader(br)
	line, err := tp.ReadLine()
	if err != nil {
		return m, err
	}
	m.raw = line
	parts := strings.SplitN(line, " ", 3)
	if len(parts) < 2 {
		return m, fmt.Errorf("bad status line %q", line)
	}
	switch {
	case strings.HasPrefix(parts[0], "EVENT/"):
		m.event = true
	case strings.HasPrefix(parts[0], "HTTP/"):
	default:
		return m, fmt.Errorf("bad status line %q", line)
	}
	m.status, err = strconv.Atoi(parts[1])
	if err != nil {
		return m, fmt.Errorf("bad status line %q", line)
	}
	m.header, err = tp.ReadMIMEHeader()
	if err != nil {
		return m, err
	}
	if strings.Contains(strings.ToLower(m.header.Get("Transfer-Encoding")), "chunked") {
		m.body, err = ioutil.ReadAll(httputil.NewChunkedReader(br))
		if err != nil {
			return m, err
		}
		// trailer / final CRLF
		if _, err := tp.ReadMIMEHeader(); err != nil && err != io.EOF {
			return m, err
		}
	} else if cl := m.header.Get("Content-Length"); cl != "" {
		n, err := strconv.Atoi(cl)
		if err != nil {
			return m, err
		}
		m.body = make([]byte, n)
		if _, err := io.ReadFull(br, m.body); err != nil {
			return m, err
		}
	} else if m.status == 204 || m.status == 304 || m.status/100 == 1 {
	} else {
		return m, fmt.Errorf("message without length: %q %v", line, m.header)
	}
	return m, nil
}

func (c *h4ctrl) writeRaw(b []byte) error {
	r, err := c.sess.Encrypt(bytes.NewReader(b))
	if err != nil {
		return err
	}
	eb, _ := ioutil.ReadAll(r)
	_, err = c.conn.Write(eb)
	return err
}

func (c *h4ctrl) next() (h4msg, error) {
	select {
	case m := <-c.msgs:
		return m, nil
	case <-c.done:
		select {
		case m := <-c.msgs:
			return m, nil
		default:
		}
		return h4msg{}, fmt.Errorf("reader ended: %v", c.rerr)
	case <-time.After(3 * time.Second):
		return h4msg{}, fmt.Errorf("timeout waiting for response")
	}
}

func (c *h4ctrl) do(method, path string, body []byte) (h4msg, error) {
	var req string
	if body != nil {
		req = fmt.Sprintf("%s %s HTTP/1.1\r\nHost: x\r\nContent-Type: application/hap+json\r\nContent-Length: %d\r\n\r\n", method, path, len(body))
	} else {
		req = fmt.Sprintf("%s %s HTTP/1.1\r\nHost: x\r\n\r\n", method, path)
	}
	if err := c.writeRaw(append([]byte(req), body...)); err != nil {
		return h4msg{}, err
	}
	return c.next()
}

func (c *h4ctrl) put(body string) (h4msg, error) {
	return c.do("PUT", "/characteristics", []byte(body))
}

func (c *h4ctrl) get(ids string) (h4msg, error) {
	return c.do("GET", "/characteristics?id="+ids, nil)
}

// takeEvents is a barrier (a request/response on the connection) followed by
// handing out the events recorded so far
func (c *h4ctrl) takeEvents() ([]h4ev, error) {
	if _, err := c.get("1.2"); err != nil {
		return nil, err
	}
	c.mu.Lock()
	evs := c.events
	c.events = nil
	c.mu.Unlock()
	var out []h4ev
	for _, m := range evs {
		var p struct {
			Characteristics []struct {
				Aid   uint64           `json:"aid"`
				Iid   uint64           `json:"iid"`
				Value *json.RawMessage `json:"value"`
			} `json:"characteristics"`
		}
		if err := json.Unmarshal(m.body, &p); err != nil {
			return nil, fmt.Errorf("event body %q: %v", m.body, err)
		}
		for _, ch := range p.Characteristics {
			v := "<absent>"
			if ch.Value != nil {
				v = string(*ch.Value)
			}
			out = append(out, h4ev{ch.Aid, ch.Iid, v})
		}
	}
	return out, nil
}

type h4ev struct {
	aid, iid uint64
	value    string
}

func (c *h4ctrl) close() {
	c.conn.Close()
}

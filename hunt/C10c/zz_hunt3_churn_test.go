package hc

import (
	"fmt"
	"sync"
	"sync/atomic"
	"testing"
	"time"

	"github.com/brutella/hc/accessory"
)

// connections come and go while the application and a stable controller change
// values: the stable subscriber must still get every change exactly once, the
// changing goroutines must survive
func TestH3ChurnWhileChanging(t *testing.T) {
	th := accessory.NewThermostat(accessory.Info{Name: "H3Churn"}, 20, 0, 1000000, 0.5)
	h := h3Start(t, th.Accessory)
	defer h.stop()
	ctl := h3NewController(t, h, "ctl-1")
	x := th.Thermostat.TargetTemperature
	sub := ctl.connect(t, h, "sub")
	defer sub.close()
	if st, _, err := sub.subscribe(th.ID, x.ID, true); err != nil || st != 204 {
		t.Fatal(st, err)
	}
	wr := ctl.connect(t, h, "wr")
	defer wr.close()

	var stop int32
	var wg sync.WaitGroup
	for i := 0; i < 4; i++ {
		wg.Add(1)
		go func(i int) {
			defer wg.Done()
			for n := 0; atomic.LoadInt32(&stop) == 0; n++ {
				c, err := ctl.connectOpt(t, h, fmt.Sprintf("churn%d-%d", i, n), h3DialOpt{})
				if err != nil {
					continue // the known key hand-over race may break a connection
				}
				c.subscribe(th.ID, x.ID, true)
				if n%2 == 0 {
					c.closeRST()
				} else {
					c.close()
				}
			}
		}(i)
	}
	const N = 400
	done := make(chan struct{})
	go func() {
		defer close(done)
		for k := 0; k < N; k++ {
			x.SetValue(float64(100000 + k))
			time.Sleep(200 * time.Microsecond)
		}
	}()
	for k := 0; k < N; k++ {
		if st, _, err := wr.write(th.ID, x.ID, float64(1000+k)); err != nil || st != 204 {
			t.Fatal(st, err)
		}
	}
	select {
	case <-done:
	case <-time.After(20 * time.Second):
		t.Fatal("the application's goroutine is stuck")
	}
	atomic.StoreInt32(&stop, 1)
	wg.Wait()
	evs, err := sub.fence()
	if err != nil {
		t.Fatal(err)
	}
	if len(evs) != 2*N {
		t.Errorf("subscriber got %d events for %d changes", len(evs), 2*N)
	}
}

package hc

import (
	"fmt"
	"testing"
)

func TestH3ReconnectSamePort(t *testing.T) {
	a, as, _ := h3Accessories()
	h := h3Start(t, a, as...)
	defer h.stop()
	ctl := h3NewController(t, h, "ctl-1")
	fails := 0
	c := ctl.connect(t, h, "c")
	for i := 0; i < 3000; i++ {
		addr := c.raw.LocalAddr().String()
		var port int
		fmt.Sscanf(addr[len(h3IP)+1:], "%d", &port)
		c.closeRST()
		c2, err := ctl.connectOpt(t, h, "c2", h3DialOpt{localPort: port, reuse: true})
		if err != nil {
			fails++
			t.Logf("iteration %d: %v", i, err)
			c = ctl.connect(t, h, "c")
			continue
		}
		c = c2
	}
	if fails > 0 {
		t.Errorf("%d of 3000 reconnects from the same address failed: the new connection had no session", fails)
	}
}

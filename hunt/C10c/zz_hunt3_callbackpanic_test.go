package hc

import (
	"fmt"
	"testing"

	"github.com/brutella/hc/accessory"
)

// BORDERLINE (a panicking application callback is an application defect, but
// net/http recovers it and the process goes on). C10 clause "every other ...
// subscribed connection receives exactly one EVENT": the value written by the
// controller is stored before the callbacks run, the application's callback
// (registered before the transport, as in the README) panics, the callback of the
// transport which would notify the subscribers is never reached. The
// characteristic has the new value for every reader, the subscriber is never told.
func TestH3PanickingRemoteUpdateCallback(t *testing.T) {
	sw := accessory.NewSwitch(accessory.Info{Name: "H3Panic"})
	sw.Switch.On.OnValueRemoteUpdate(func(on bool) {
		panic("device not reachable")
	})
	h := h3Start(t, sw.Accessory)
	defer h.stop()
	ctl := h3NewController(t, h, "ctl-1")
	sub := ctl.connect(t, h, "subscriber")
	defer sub.close()
	wr := ctl.connect(t, h, "writer")
	defer wr.close()
	aid, iid := sw.ID, sw.Switch.On.ID
	if st, b, err := sub.subscribe(aid, iid, true); err != nil || st != 204 {
		t.Fatalf("subscribe: %d %s %v", st, b, err)
	}
	st, _, err := wr.write(aid, iid, true)
	t.Logf("writer: status %d err %v", st, err)

	stv, body, err := sub.do("GET", fmt.Sprintf("/characteristics?id=%d.%d", aid, iid), nil)
	if err != nil || stv != 200 {
		t.Fatal(stv, err)
	}
	t.Logf("value read by the subscriber afterwards: %s", body)
	evs, _ := sub.fence()
	if sw.Switch.On.GetValue() == true && len(evs) != 1 {
		t.Errorf("the value changed to true, the subscriber got %d events %v", len(evs), evs)
	}
}

package hc

import (
	"fmt"
	"math/rand"
	"os"
	"reflect"
	"sort"
	"strconv"
	"testing"
	"time"

	"github.com/brutella/hc/accessory"
	"github.com/brutella/hc/characteristic"
)

type h3Char struct {
	aid  uint64
	c    *characteristic.Characteristic
	vals []interface{}
}

func h3Accessories() (*accessory.Accessory, []*accessory.Accessory, func() []h3Char) {
	bridge := accessory.NewBridge(accessory.Info{Name: "H3Bridge"})
	lb1 := accessory.NewLightbulb(accessory.Info{Name: "L1"})
	lb2 := accessory.NewLightbulb(accessory.Info{Name: "L2"})
	sw := accessory.NewSwitch(accessory.Info{Name: "S"})
	th := accessory.NewThermostat(accessory.Info{Name: "T"}, 20, 10, 30, 0.5)
	chars := func() []h3Char {
		return []h3Char{
			{lb1.ID, lb1.Lightbulb.On.Characteristic, []interface{}{true, false}},
			{lb2.ID, lb2.Lightbulb.On.Characteristic, []interface{}{true, false}},
			{sw.ID, sw.Switch.On.Characteristic, []interface{}{true, false}},
			{th.ID, th.Thermostat.TargetTemperature.Characteristic, []interface{}{10.0, 15.5, 20.0, 25.0, 30.0}},
			{th.ID, th.Thermostat.TargetHeatingCoolingState.Characteristic, []interface{}{0, 1, 2, 3}},
			{th.ID, th.Thermostat.TemperatureDisplayUnits.Characteristic, []interface{}{0, 1}},
		}
	}
	return bridge.Accessory, []*accessory.Accessory{lb1.Accessory, lb2.Accessory, sw.Accessory, th.Accessory}, chars
}

func TestH3Smoke(t *testing.T) {
	a, as, charsf := h3Accessories()
	h := h3Start(t, a, as...)
	defer h.stop()
	chars := charsf()
	ctl := h3NewController(t, h, "ctl-1")
	c1 := ctl.connect(t, h, "c1")
	c2 := ctl.connect(t, h, "c2")
	defer c1.close()
	defer c2.close()
	ch := chars[0]
	if st, b, err := c1.subscribe(ch.aid, ch.c.ID, true); err != nil || st != 204 {
		t.Fatalf("subscribe: %d %s %v", st, b, err)
	}
	if st, b, err := c2.write(ch.aid, ch.c.ID, true); err != nil || st != 204 {
		t.Fatalf("write: %d %s %v", st, b, err)
	}
	e1, err := c1.fence()
	if err != nil {
		t.Fatal(err)
	}
	e2, err := c2.fence()
	if err != nil {
		t.Fatal(err)
	}
	t.Logf("c1 %v c2 %v", e1, e2)
	if len(e1) != 1 || len(e2) != 0 {
		t.Fatalf("unexpected events")
	}
}

func h3Norm(v interface{}) string {
	switch x := v.(type) {
	case bool:
		if x {
			return "1"
		}
		return "0"
	case float64:
		return strconv.FormatFloat(x, 'g', -1, 64)
	case int:
		return strconv.Itoa(x)
	}
	return fmt.Sprint(v)
}

// Randomised histories against a reference model of the subscription state.
func TestH3RandomHistories(t *testing.T) {
	seeds := 30
	if s := os.Getenv("H3_SEEDS"); s != "" {
		seeds, _ = strconv.Atoi(s)
	}
	base := int64(1)
	if s := os.Getenv("H3_BASE"); s != "" {
		base, _ = strconv.ParseInt(s, 10, 64)
	}
	for seed := base; seed < base+int64(seeds); seed++ {
		if !h3RunHistory(t, seed, 60) {
			t.Fatalf("seed %d failed", seed)
		}
	}
}

func h3RunHistory(t *testing.T, seed int64, steps int) bool {
	rng := rand.New(rand.NewSource(seed))
	a, as, charsf := h3Accessories()
	h := h3Start(t, a, as...)
	defer h.stop()
	chars := charsf()
	ctls := []*h3Controller{h3NewController(t, h, "ctl-A"), h3NewController(t, h, "ctl-B")}

	type mconn struct {
		c    *h3Conn
		subs map[int]bool
		ctl  int
		port int
	}
	var conns []*mconn
	nextName := 0
	var log []string
	open := func(ctl int, opt h3DialOpt) *mconn {
		nextName++
		c, err := ctls[ctl].connectOpt(t, h, fmt.Sprintf("c%d", nextName), opt)
		if err != nil {
			t.Logf("seed %d: connect: %v\n%v", seed, err, log)
			return nil
		}
		m := &mconn{c: c, subs: map[int]bool{}, ctl: ctl}
		conns = append(conns, m)
		return m
	}
	for i := 0; i < 2+rng.Intn(3); i++ {
		open(rng.Intn(2), h3DialOpt{})
	}
	model := make([]string, len(chars))
	for i, ch := range chars {
		model[i] = h3Norm(ch.c.Value)
	}
	ok := true
	fail := func(f string, args ...interface{}) {
		ok = false
		t.Errorf("seed %d: "+f, append([]interface{}{seed}, args...)...)
	}

	check := func(expect map[*mconn][]string) {
		for _, m := range conns {
			evs, err := m.c.fence()
			if err != nil {
				fail("%s fence: %v", m.c.name, err)
				continue
			}
			var got []string
			for _, e := range evs {
				got = append(got, fmt.Sprintf("%d.%d=%s", e.Aid, e.Iid, h3Norm(e.Value)))
			}
			want := expect[m]
			sort.Strings(got)
			sort.Strings(want)
			if len(got) == 0 && len(want) == 0 {
				continue
			}
			if !reflect.DeepEqual(got, want) {
				fail("%s: got events %v want %v\nhistory:\n%s", m.c.name, got, want, fmt.Sprint(log))
			}
		}
	}

	for step := 0; step < steps && ok; step++ {
		expect := map[*mconn][]string{}
		change := func(ci int, v interface{}, origin *mconn) {
			nv := h3Norm(v)
			if model[ci] == nv {
				return
			}
			model[ci] = nv
			for _, m := range conns {
				if m != origin && m.subs[ci] {
					expect[m] = append(expect[m], fmt.Sprintf("%d.%d=%s", chars[ci].aid, chars[ci].c.ID, nv))
				}
			}
		}
		op := rng.Intn(100)
		switch {
		case op < 25 && len(conns) > 0: // subscribe
			m := conns[rng.Intn(len(conns))]
			ci := rng.Intn(len(chars))
			log = append(log, fmt.Sprintf("%s sub %d\n", m.c.name, ci))
			st, b, err := m.c.subscribe(chars[ci].aid, chars[ci].c.ID, true)
			if err != nil || st != 204 {
				fail("subscribe %d %s %v", st, b, err)
			}
			m.subs[ci] = true
		case op < 35 && len(conns) > 0: // unsubscribe
			m := conns[rng.Intn(len(conns))]
			ci := rng.Intn(len(chars))
			log = append(log, fmt.Sprintf("%s unsub %d\n", m.c.name, ci))
			st, b, err := m.c.subscribe(chars[ci].aid, chars[ci].c.ID, false)
			if err != nil || st != 204 {
				fail("unsubscribe %d %s %v", st, b, err)
			}
			m.subs[ci] = false
		case op < 55: // local set
			ci := rng.Intn(len(chars))
			v := chars[ci].vals[rng.Intn(len(chars[ci].vals))]
			log = append(log, fmt.Sprintf("local %d=%v\n", ci, v))
			chars[ci].c.UpdateValue(v)
			change(ci, v, nil)
		case op < 80 && len(conns) > 0: // remote write, possibly several entries, possibly with ev
			m := conns[rng.Intn(len(conns))]
			n := 1 + rng.Intn(3)
			var entries []h3Put
			for i := 0; i < n; i++ {
				ci := rng.Intn(len(chars))
				v := chars[ci].vals[rng.Intn(len(chars[ci].vals))]
				e := h3Put{Aid: chars[ci].aid, Iid: chars[ci].c.ID, Value: v}
				if rng.Intn(4) == 0 {
					on := rng.Intn(2) == 0
					e.Ev = on
					m.subs[ci] = on
				}
				log = append(log, fmt.Sprintf("%s write %d=%v ev=%v\n", m.c.name, ci, v, e.Ev))
				entries = append(entries, e)
				change(ci, v, m)
			}
			st, b, err := m.c.put(entries...)
			if err != nil || st != 204 {
				fail("write %d %s %v", st, b, err)
			}
		case op < 88 && len(conns) > 1: // close
			i := rng.Intn(len(conns))
			m := conns[i]
			log = append(log, fmt.Sprintf("%s close\n", m.c.name))
			n := len(h.tr.context.ActiveConnections())
			if rng.Intn(2) == 0 {
				m.c.close()
			} else {
				m.c.closeRST()
			}
			conns = append(conns[:i], conns[i+1:]...)
			if !h3WaitSessions(h, n-1) {
				fail("session of closed connection %s not removed", m.c.name)
			}
		case op < 94 && len(conns) > 0: // reconnect from the same address
			i := rng.Intn(len(conns))
			m := conns[i]
			addr := m.c.raw.LocalAddr().String()
			log = append(log, fmt.Sprintf("%s reconnect from %s\n", m.c.name, addr))
			var port int
			fmt.Sscanf(addr[len(h3IP)+1:], "%d", &port)
			m.c.closeRST()
			conns = append(conns[:i], conns[i+1:]...)
			var nm *mconn
			for try := 0; try < 50 && nm == nil; try++ {
				nm = open(m.ctl, h3DialOpt{localPort: port, reuse: true})
				if nm == nil {
					time.Sleep(3 * time.Millisecond)
				}
			}
			if nm == nil {
				fail("could not reconnect from %s", addr)
			}
		default: // new connection
			if len(conns) < 6 {
				log = append(log, "open\n")
				open(rng.Intn(2), h3DialOpt{})
			}
		}
		check(expect)
	}
	for _, m := range conns {
		m.c.close()
	}
	if os.Getenv("H3_DUMP") != "" {
		t.Logf("seed %d history: %v", seed, log)
	}
	return ok
}

package hap

import (
	"net"
	"testing"
	"time"
)

// Not a clause of C10 itself; it is the history "close and reconnect from the same
// address" of C10's quantifier, and shows that fix 3a64b84 ("closing a connection
// removes its own session only") is not complete: Connection.Close looks the
// session up and deletes the entry in two steps (connection.go:188-190). A new
// connection from the same address which is accepted between the two steps loses
// its session; its first request then panics in the handler
// ("interface conversion: interface is nil, not hap.Session") and the connection is
// dropped. Over real sockets (RST + immediate reconnect from the same port) this
// happens in about 0.2 % of the reconnects, see TestH3ReconnectSamePort in the root
// package. Here the schedule is forced with a context which pauses the lookup.

type h3Addr string

func (a h3Addr) Network() string { return "tcp" }
func (a h3Addr) String() string  { return string(a) }

type h3FakeConn struct {
	net.Conn
	closed bool
}

func (c *h3FakeConn) RemoteAddr() net.Addr { return h3Addr("192.0.2.1:50000") }
func (c *h3FakeConn) LocalAddr() net.Addr  { return h3Addr("192.0.2.2:12345") }
func (c *h3FakeConn) Close() error         { c.closed = true; return nil }

type h3PausingContext struct {
	Context
	armed   bool
	reached chan struct{}
	resume  chan struct{}
}

func (p *h3PausingContext) GetSessionForConnection(c net.Conn) Session {
	s := p.Context.GetSessionForConnection(c)
	if p.armed {
		p.armed = false
		p.reached <- struct{}{}
		<-p.resume
	}
	return s
}

func TestH3CloseRemovesSessionOfNewConnectionFromSameAddress(t *testing.T) {
	ctx := &h3PausingContext{Context: NewContextForSecuredDevice(nil), reached: make(chan struct{}), resume: make(chan struct{})}

	oldConn := NewConnection(&h3FakeConn{}, ctx)

	// the old connection is being closed (its peer sent a reset) ...
	ctx.armed = true
	closed := make(chan struct{})
	go func() {
		oldConn.Close()
		close(closed)
	}()
	select {
	case <-ctx.reached:
	case <-time.After(2 * time.Second):
		// a repaired Close need not look the session up this way
		<-closed
	}

	// ... while the peer's new connection from the same address is accepted
	newRaw := &h3FakeConn{}
	newConn := NewConnection(newRaw, ctx)

	select {
	case ctx.resume <- struct{}{}:
	default:
	}
	<-closed

	s := ctx.Context.GetSessionForConnection(newRaw)
	if s == nil {
		t.Fatalf("the session of the new connection was removed by the Close of the old connection")
	}
	if s.Connection() != net.Conn(newConn) {
		t.Fatalf("the session of the address belongs to another connection")
	}
}

package hc

import (
	"fmt"
	"sync"
	"testing"

	"github.com/brutella/hc/accessory"
)

// Concurrent schedules with values which are all distinct (so that every write is a
// change whatever the interleaving): counts must be exact.
func TestH3ConcurrentDistinctValues(t *testing.T) {
	for round := 0; round < 20; round++ {
		th := accessory.NewThermostat(accessory.Info{Name: "H3Conc"}, 20, 0, 1000000, 0.5)
		lb := accessory.NewColoredLightbulb(accessory.Info{Name: "L"})
		h := h3Start(t, th.Accessory, lb.Accessory)
		ctl := h3NewController(t, h, "ctl-1")
		x := th.Thermostat.TargetTemperature
		y := lb.Lightbulb.Hue
		const W = 4
		const N = 50
		var writers []*h3Conn
		for i := 0; i < W; i++ {
			c := ctl.connect(t, h, fmt.Sprintf("w%d", i))
			writers = append(writers, c)
			if st, _, err := c.subscribe(th.ID, x.ID, true); err != nil || st != 204 {
				t.Fatal(st, err)
			}
		}
		sub := ctl.connect(t, h, "sub")
		if st, _, err := sub.subscribe(th.ID, x.ID, true); err != nil || st != 204 {
			t.Fatal(st, err)
		}
		never := ctl.connect(t, h, "never")
		// "never" subscribes to something else only
		if st, _, err := never.subscribe(lb.ID, y.ID, true); err != nil || st != 204 {
			t.Fatal(st, err)
		}
		var wg sync.WaitGroup
		for i, w := range writers {
			wg.Add(1)
			go func(i int, w *h3Conn) {
				defer wg.Done()
				for k := 0; k < N; k++ {
					v := float64(1000*(i+1) + k)
					if st, _, err := w.write(th.ID, x.ID, v); err != nil || st != 204 {
						t.Error(st, err)
						return
					}
				}
			}(i, w)
		}
		wg.Add(1)
		go func() {
			defer wg.Done()
			for k := 0; k < N; k++ {
				x.SetValue(float64(100000 + k))
			}
		}()
		wg.Wait()
		total := W*N + N
		evs, err := sub.fence()
		if err != nil {
			t.Fatal(err)
		}
		if len(evs) != total {
			t.Errorf("round %d: subscriber got %d events for %d changes", round, len(evs), total)
		}
		seen := map[string]int{}
		for _, e := range evs {
			seen[fmt.Sprint(e.Value)]++
		}
		dup := 0
		for _, n := range seen {
			if n > 1 {
				dup += n - 1
			}
		}
		if dup > 0 {
			t.Logf("round %d: %d events carried a value which another event carried too", round, dup)
		}
		if last := evs[len(evs)-1]; fmt.Sprint(last.Value) != fmt.Sprint(x.GetValue()) {
			t.Logf("round %d: last event %v final value %v", round, last.Value, x.GetValue())
		}
		for i, w := range writers {
			evs, err := w.fence()
			if err != nil {
				t.Fatal(err)
			}
			if len(evs) != total-N {
				t.Errorf("round %d: writer %d got %d events for %d changes of others", round, i, len(evs), total-N)
			}
		}
		nevs, err := never.fence()
		if err != nil {
			t.Fatal(err)
		}
		if len(nevs) != 0 {
			t.Errorf("round %d: never-subscribed got %v", round, nevs)
		}
		for _, w := range writers {
			w.close()
		}
		sub.close()
		never.close()
		h.stop()
	}
}

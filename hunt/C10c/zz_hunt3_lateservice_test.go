package hc

import (
	"fmt"
	"testing"

	"github.com/brutella/hc/accessory"
	"github.com/brutella/hc/characteristic"
	"github.com/brutella/hc/service"
)

// C10, clause "every other verified connection that is currently subscribed to
// that characteristic receives exactly one EVENT message carrying the new value".
//
// Configuration: the one of the library's own _example/tv/main.go. The input
// sources of a television are added with Accessory.AddService AFTER the
// transport was created (fix 8975ca3 made exactly this order work for the
// instance ids). Their characteristics are served by /accessories, can be read
// and written and accept "ev":true with 204, but the transport wired its
// notification callbacks only in NewIPTransport: neither a local set nor a write
// of another controller is ever notified to the subscriber. A characteristic of
// a service added before the transport is the control.
func TestH3LateServiceSubscribersGetNoEvents(t *testing.T) {
	tv := accessory.NewTelevision(accessory.Info{Name: "H3TV"})
	h3tr := h3StartNoRun(t, tv.Accessory)

	// as in _example/tv/main.go: after NewIPTransport, before Start
	in := service.NewInputSource()
	in.Identifier.SetValue(1)
	in.ConfiguredName.SetValue("HDMI 1")
	in.Name.SetValue("HDMI 1")
	in.InputSourceType.SetValue(characteristic.InputSourceTypeHdmi)
	in.IsConfigured.SetValue(characteristic.IsConfiguredConfigured)
	tv.AddService(in.Service)
	tv.Television.AddLinkedService(in.Service)

	h := h3Run(t, h3tr)
	defer h.stop()

	ctl := h3NewController(t, h, "ctl-1")
	sub := ctl.connect(t, h, "subscriber")
	defer sub.close()
	wr := ctl.connect(t, h, "writer")
	defer wr.close()

	aid := tv.ID
	late := in.ConfiguredName.Characteristic             // service added after the transport
	lateRO := in.CurrentVisibilityState.Characteristic   // read+events, changed by the application only
	early := tv.Television.ConfiguredName.Characteristic // control: service added before the transport

	for _, c := range []*characteristic.Characteristic{late, lateRO, early} {
		if c.ID == 0 {
			t.Fatalf("characteristic %s has no instance id", c.Type)
		}
		st, b, err := sub.subscribe(aid, c.ID, true)
		if err != nil || st != 204 {
			t.Fatalf("subscribe %d.%d: status %d body %s err %v", aid, c.ID, st, b, err)
		}
	}

	expectOne := func(what string, c *characteristic.Characteristic, v interface{}) {
		evs, err := sub.fence()
		if err != nil {
			t.Fatal(err)
		}
		wevs, err := wr.fence()
		if err != nil {
			t.Fatal(err)
		}
		if len(wevs) != 0 {
			t.Errorf("%s: the connection which never subscribed got %v", what, wevs)
		}
		want := fmt.Sprintf("[%d.%d=%v]", aid, c.ID, v)
		if got := fmt.Sprint(evs); got != want {
			t.Errorf("%s: subscriber got events %s, want %s", what, got, want)
		} else {
			t.Logf("%s: subscriber got %s", what, got)
		}
	}

	// control
	if st, b, err := wr.write(aid, early.ID, "Living room"); err != nil || st != 204 {
		t.Fatalf("write: %d %s %v", st, b, err)
	}
	expectOne("remote write, service added before the transport", early, "Living room")

	// remote write by another controller connection
	if st, b, err := wr.write(aid, late.ID, "Bluray"); err != nil || st != 204 {
		t.Fatalf("write: %d %s %v", st, b, err)
	}
	if got := in.ConfiguredName.GetValue(); got != "Bluray" {
		t.Fatalf("value after write %q", got)
	}
	expectOne("remote write, service added after the transport", late, "Bluray")

	// local set by the application
	in.ConfiguredName.SetValue("Console")
	expectOne("local set, service added after the transport", late, "Console")

	in.CurrentVisibilityState.SetValue(characteristic.CurrentVisibilityStateHidden)
	expectOne("local set of a read-only characteristic, service added after the transport", lateRO, characteristic.CurrentVisibilityStateHidden)
}

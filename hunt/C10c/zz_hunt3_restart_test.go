package hc

import (
	"fmt"
	"io/ioutil"
	"testing"
	"time"

	"github.com/brutella/hc/accessory"
)

// Stop of a transport, then a new transport for the same accessories on the same
// storage in the same process.
func TestH3RestartInProcess(t *testing.T) {
	lb := accessory.NewColoredLightbulb(accessory.Info{Name: "H3Restart"})
	dir, _ := ioutil.TempDir("", "h3restart")
	var prev []*h3Conn
	for gen := 0; gen < 3; gen++ {
		tr, err := NewIPTransport(Config{StoragePath: dir}, lb.Accessory)
		if err != nil {
			t.Fatal(err)
		}
		h := h3Run(t, &h3Transport{tr: tr, dir: dir})
		ctl := h3NewController(t, h, "ctl-1")
		sub := ctl.connect(t, h, "sub")
		wr := ctl.connect(t, h, "wr")
		br := lb.Lightbulb.Brightness
		if st, _, err := sub.subscribe(lb.ID, br.ID, true); err != nil || st != 204 {
			t.Fatal(st, err)
		}
		br.SetValue(10 + gen)
		if st, _, err := wr.write(lb.ID, br.ID, 50+gen); err != nil || st != 204 {
			t.Fatal(st, err)
		}
		evs, err := sub.fence()
		if err != nil {
			t.Fatal(err)
		}
		if got, want := fmt.Sprint(evs), fmt.Sprintf("[1.%d=%d 1.%d=%d]", br.ID, 10+gen, br.ID, 50+gen); got != want {
			t.Errorf("generation %d: got %s want %s", gen, got, want)
		}
		wevs, _ := wr.fence()
		if len(wevs) != 0 {
			t.Errorf("generation %d: writer got %v", gen, wevs)
		}
		select {
		case <-tr.Stop():
		case <-time.After(3 * time.Second):
			t.Fatal("stop")
		}
		if n := len(tr.context.ActiveConnections()); n != 0 {
			t.Errorf("generation %d: %d sessions after Stop", gen, n)
		}
		// connections of the stopped transport are closed
		for _, c := range []*h3Conn{sub, wr} {
			if _, err := c.fence(); err == nil {
				t.Errorf("generation %d: %s still served after Stop", gen, c.name)
			}
		}
		prev = append(prev, sub, wr)
	}
	for _, c := range prev {
		c.close()
	}
}

package hc

import (
	"fmt"
	"math/rand"
	"os"
	"reflect"
	"sort"
	"strconv"
	"testing"

	"github.com/brutella/hc/accessory"
	"github.com/brutella/hc/characteristic"
	"github.com/brutella/hc/service"
)

// Randomised histories over ALL characteristics of a mixed set of accessories,
// including non-observable, read-only and write-only ones, with several
// representations of the same value in remote writes.

type h3AC struct {
	aid uint64
	c   *characteristic.Characteristic
}

func h3HasPerm(c *characteristic.Characteristic, p string) bool {
	for _, x := range c.Perms {
		if x == p {
			return true
		}
	}
	return false
}

// model of the conversion for the "safe" values generated below
func h3ModelValue(c *characteristic.Characteristic, v interface{}) string {
	switch c.Format {
	case characteristic.FormatBool:
		switch x := v.(type) {
		case bool:
			if x {
				return "1"
			}
			return "0"
		case int:
			if x == 1 {
				return "1"
			}
			return "0"
		}
	case characteristic.FormatFloat:
		var f float64
		switch x := v.(type) {
		case float64:
			f = x
		case int:
			f = float64(x)
		}
		if max, ok := c.MaxValue.(float64); ok && f > max {
			f = max
		} else if min, ok := c.MinValue.(float64); ok && f < min {
			f = min
		}
		return strconv.FormatFloat(f, 'g', -1, 64)
	case characteristic.FormatUInt8, characteristic.FormatUInt16, characteristic.FormatUInt32, characteristic.FormatUInt64, characteristic.FormatInt32:
		var i int
		switch x := v.(type) {
		case int:
			i = x
		case float64:
			i = int(x)
		}
		if max, ok := c.MaxValue.(int); ok && i > max {
			i = max
		} else if min, ok := c.MinValue.(int); ok && i < min {
			i = min
		}
		return strconv.Itoa(i)
	}
	return fmt.Sprint(v)
}

func h3GenValue(rng *rand.Rand, c *characteristic.Characteristic, remote bool) interface{} {
	switch c.Format {
	case characteristic.FormatBool:
		if remote && rng.Intn(2) == 0 {
			return rng.Intn(2)
		}
		return rng.Intn(2) == 0
	case characteristic.FormatFloat:
		lo, hi := 0.0, 100.0
		if m, ok := c.MinValue.(float64); ok {
			lo = m
		}
		if m, ok := c.MaxValue.(float64); ok {
			hi = m
		}
		n := 4
		k := rng.Intn(n+3) - 1 // -1 and n+1 are out of range
		f := lo + (hi-lo)*float64(k)/float64(n)
		if f == float64(int(f)) && rng.Intn(2) == 0 {
			return int(f)
		}
		return f
	case characteristic.FormatUInt8, characteristic.FormatUInt16, characteristic.FormatUInt32, characteristic.FormatUInt64, characteristic.FormatInt32:
		lo, hi := 0, 3
		if m, ok := c.MinValue.(int); ok {
			lo = m
		}
		if m, ok := c.MaxValue.(int); ok {
			hi = m
		}
		if hi-lo > 4 {
			hi = lo + 4
		}
		v := lo + rng.Intn(hi-lo+1)
		if rng.Intn(8) == 0 {
			if m, ok := c.MaxValue.(int); ok {
				v = m + 1 + rng.Intn(3)
			}
		}
		if remote && rng.Intn(3) == 0 {
			return float64(v)
		}
		return v
	case characteristic.FormatString:
		return []string{"a", "b", "", "x y", "<&>"}[rng.Intn(5)]
	case characteristic.FormatTLV8, characteristic.FormatData:
		return []string{"AQEA", "AQEB", ""}[rng.Intn(3)]
	}
	return nil
}

func h3AllAccessories() (*accessory.Accessory, []*accessory.Accessory) {
	bridge := accessory.NewBridge(accessory.Info{Name: "H3Bridge"})
	lb := accessory.NewColoredLightbulb(accessory.Info{Name: "L1"})
	th := accessory.NewThermostat(accessory.Info{Name: "T"}, 20, 10, 30, 0.5)
	tv := accessory.NewTelevision(accessory.Info{Name: "TV"})
	w := accessory.NewWindow(accessory.Info{Name: "W"}, 0)
	o := accessory.NewOutlet(accessory.Info{Name: "O"})
	tm := accessory.NewTemperatureSensor(accessory.Info{Name: "TS"}, 20, -10, 40, 0.1)
	// an accessory with an explicit id and several services
	x := accessory.New(accessory.Info{Name: "X", ID: 77}, accessory.TypeOther)
	sps := service.NewStatelessProgrammableSwitch()
	x.AddService(sps.Service)
	sec := service.NewSecuritySystem()
	x.AddService(sec.Service)
	lock := service.NewLockMechanism()
	x.AddService(lock.Service)
	fan := service.NewFanV2()
	x.AddService(fan.Service)
	return bridge.Accessory, []*accessory.Accessory{lb.Accessory, th.Accessory, tv.Accessory, w.Accessory, o.Accessory, tm.Accessory, x}
}

func TestH3AllCharacteristicsHistories(t *testing.T) {
	seeds := 10
	if s := os.Getenv("H3_SEEDS"); s != "" {
		seeds, _ = strconv.Atoi(s)
	}
	base := int64(1000)
	if s := os.Getenv("H3_BASE"); s != "" {
		base, _ = strconv.ParseInt(s, 10, 64)
	}
	for seed := base; seed < base+int64(seeds); seed++ {
		if !h3RunAllChars(t, seed, 150) {
			t.Fatalf("seed %d failed", seed)
		}
	}
}

func h3RunAllChars(t *testing.T, seed int64, steps int) bool {
	rng := rand.New(rand.NewSource(seed))
	a, as := h3AllAccessories()
	h := h3Start(t, a, as...)
	defer h.stop()
	var chars []h3AC
	for _, acc := range append([]*accessory.Accessory{a}, as...) {
		for _, s := range acc.Services {
			for _, c := range s.Characteristics {
				if c.Type == characteristic.TypeProgrammableSwitchEvent {
					continue // notifies on every set by design
				}
				chars = append(chars, h3AC{acc.ID, c})
			}
		}
	}
	ctl := h3NewController(t, h, "ctl-A")

	type mconn struct {
		c    *h3Conn
		subs map[int]bool
	}
	var conns []*mconn
	for i := 0; i < 3; i++ {
		conns = append(conns, &mconn{c: ctl.connect(t, h, fmt.Sprintf("c%d", i+1)), subs: map[int]bool{}})
	}
	defer func() {
		for _, m := range conns {
			m.c.close()
		}
	}()
	model := make([]string, len(chars))
	for i, ch := range chars {
		if ch.c.Value != nil {
			model[i] = h3ModelValue(ch.c, ch.c.Value)
		} else {
			model[i] = "<nil>"
		}
	}
	ok := true
	var hist []string
	nEvents := 0
	hot := rng.Perm(len(chars))[:10]
	pick := func() int {
		if rng.Intn(100) < 85 {
			return hot[rng.Intn(len(hot))]
		}
		return rng.Intn(len(chars))
	}
	fail := func(f string, args ...interface{}) {
		ok = false
		t.Errorf("seed %d: "+f, append([]interface{}{seed}, args...)...)
	}
	// subscribe a lot first
	for step := 0; step < steps && ok; step++ {
		expect := map[*mconn][]string{}
		change := func(ci int, v interface{}, origin *mconn) {
			c := chars[ci].c
			if v == nil {
				return
			}
			nv := h3ModelValue(c, v)
			if !h3HasPerm(c, characteristic.PermRead) {
				// write-only: nothing stored; cannot be subscribed either
				return
			}
			if model[ci] == nv {
				return
			}
			model[ci] = nv
			for _, m := range conns {
				if m != origin && m.subs[ci] {
					expect[m] = append(expect[m], fmt.Sprintf("%d.%d=%s", chars[ci].aid, c.ID, nv))
				}
			}
		}
		op := rng.Intn(100)
		switch {
		case op < 35:
			m := conns[rng.Intn(len(conns))]
			ci := pick()
			on := rng.Intn(4) != 0
			hist = append(hist, fmt.Sprintf("%s ev=%v %d.%d(%s %s %v)\n", m.c.name, on, chars[ci].aid, chars[ci].c.ID, chars[ci].c.Type, chars[ci].c.Format, chars[ci].c.Perms))
			st, b, err := m.c.subscribe(chars[ci].aid, chars[ci].c.ID, on)
			if err != nil {
				fail("subscribe: %v", err)
				break
			}
			if h3HasPerm(chars[ci].c, characteristic.PermEvents) {
				if st != 204 {
					fail("subscribe to observable: %d %s", st, b)
				}
				m.subs[ci] = on
			} else if st == 204 {
				fail("subscribe to non-observable %v answered 204\n%v", chars[ci].c.Perms, hist)
			}
		case op < 60:
			ci := pick()
			v := h3GenValue(rng, chars[ci].c, false)
			if v == nil {
				break
			}
			hist = append(hist, fmt.Sprintf("local %d.%d(%s %s)=%v(%T)\n", chars[ci].aid, chars[ci].c.ID, chars[ci].c.Type, chars[ci].c.Format, v, v))
			chars[ci].c.UpdateValue(v)
			change(ci, v, nil)
		default:
			m := conns[rng.Intn(len(conns))]
			n := 1 + rng.Intn(3)
			var entries []h3Put
			for i := 0; i < n; i++ {
				ci := pick()
				c := chars[ci].c
				v := h3GenValue(rng, c, true)
				if v == nil {
					continue
				}
				hist = append(hist, fmt.Sprintf("%s write %d.%d(%s %s %v)=%v(%T)\n", m.c.name, chars[ci].aid, c.ID, c.Type, c.Format, c.Perms, v, v))
				entries = append(entries, h3Put{Aid: chars[ci].aid, Iid: c.ID, Value: v})
				if h3HasPerm(c, characteristic.PermWrite) {
					change(ci, v, m)
				}
			}
			if len(entries) == 0 {
				break
			}
			_, _, err := m.c.put(entries...)
			if err != nil {
				fail("write: %v", err)
			}
		}
		for _, m := range conns {
			evs, err := m.c.fence()
			if err != nil {
				fail("%s fence: %v", m.c.name, err)
				continue
			}
			var got []string
			for _, e := range evs {
				var c *characteristic.Characteristic
				for _, ch := range chars {
					if ch.aid == e.Aid && ch.c.ID == e.Iid {
						c = ch.c
					}
				}
				if c == nil {
					fail("event for unknown characteristic %v", e)
					continue
				}
				v := e.Value
				if f, isf := v.(float64); isf && c.Format != characteristic.FormatFloat && c.Format != characteristic.FormatBool {
					v = int(f)
				}
				got = append(got, fmt.Sprintf("%d.%d=%s", e.Aid, e.Iid, h3ModelValue(c, v)))
			}
			want := expect[m]
			nEvents += len(want)
			sort.Strings(got)
			sort.Strings(want)
			if len(got) == 0 && len(want) == 0 {
				continue
			}
			if !reflect.DeepEqual(got, want) {
				n := len(hist)
				from := n - 6
				if from < 0 {
					from = 0
				}
				fail("%s: got events %v want %v\nlast steps:\n%v", m.c.name, got, want, hist[from:])
			}
		}
	}
	if os.Getenv("H3_DUMP") != "" {
		t.Logf("seed %d: %d chars, %d expected events", seed, len(chars), nEvents)
	}
	return ok
}

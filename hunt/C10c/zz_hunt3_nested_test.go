package hc

import (
	"fmt"
	"testing"

	"github.com/brutella/hc/accessory"
)

// C10, clause "receives exactly one EVENT message carrying the new value" (per change).
//
// History: subscribe (two connections), remote write, local set. Schedule: the
// local set happens inside the application's OnValueRemoteUpdate callback, the
// usual way to write a momentary switch or to adjust a written value (the
// callback is registered before the transport is created, as in the README, and
// therefore runs before the callback of the transport).
//
// Two changes happen: 0 -> 47 (by the writer) and 47 -> 50 (by the application).
// The subscriber must get one event carrying 47 and one carrying 50. It gets two
// events which both carry 50: the notification of the first change is built from
// the value the characteristic has when the fan-out runs (hap.Body reads c.Value),
// not from the value of the change, and the fan-out of the outer change runs after
// the nested one.
func TestH3NestedLocalSetInRemoteUpdateCallback(t *testing.T) {
	lb := accessory.NewColoredLightbulb(accessory.Info{Name: "H3Nested"})
	br := lb.Lightbulb.Brightness
	br.OnValueRemoteUpdate(func(v int) {
		// the lamp supports steps of 10 only
		br.SetValue((v + 5) / 10 * 10)
	})
	h := h3Start(t, lb.Accessory)
	defer h.stop()

	ctl := h3NewController(t, h, "ctl-1")
	sub := ctl.connect(t, h, "subscriber")
	defer sub.close()
	wr := ctl.connect(t, h, "writer")
	defer wr.close()

	aid, iid := lb.ID, br.ID
	for _, c := range []*h3Conn{sub, wr} {
		if st, b, err := c.subscribe(aid, iid, true); err != nil || st != 204 {
			t.Fatalf("subscribe: %d %s %v", st, b, err)
		}
	}
	if st, b, err := wr.write(aid, iid, 47); err != nil || st != 204 {
		t.Fatalf("write: %d %s %v", st, b, err)
	}
	evs, err := sub.fence()
	if err != nil {
		t.Fatal(err)
	}
	wevs, err := wr.fence()
	if err != nil {
		t.Fatal(err)
	}
	// the writer made the first change and gets the second only
	if got, want := fmt.Sprint(wevs), fmt.Sprintf("[%d.%d=50]", aid, iid); got != want {
		t.Errorf("writer got %s, want %s", got, want)
	}
	if got, want := fmt.Sprint(evs), fmt.Sprintf("[%d.%d=47 %d.%d=50]", aid, iid, aid, iid); got != want {
		t.Errorf("subscriber got %s, want %s (one event per change, each carrying the value of its change)", got, want)
	}
}

package hc

// Harness for the hunt-3 C10 probes: a reference HAP controller (pair-verify,
// framing, request/response, EVENT demultiplexing) written independently of the
// library's client code, and helpers to start a transport on loopback.

import (
	"bufio"
	"bytes"
	"encoding/binary"
	"encoding/json"
	"fmt"
	"io"
	"io/ioutil"
	"net"
	"net/http/httputil"
	"net/textproto"
	"os"
	"strconv"
	"strings"
	"sync"
	"syscall"
	"testing"
	"time"

	"github.com/brutella/hc/accessory"
	"github.com/brutella/hc/crypto"
	"github.com/brutella/hc/crypto/chacha20poly1305"
	"github.com/brutella/hc/crypto/curve25519"
	"github.com/brutella/hc/crypto/hkdf"
	"github.com/brutella/hc/db"
	"github.com/brutella/hc/hap/pair"
	"github.com/brutella/hc/log"
	"github.com/brutella/hc/util"
)

var _ = log.Debug

type h3Transport struct {
	tr   *ipTransport
	port string
	dir  string
}

func h3Start(t testing.TB, a *accessory.Accessory, as ...*accessory.Accessory) *h3Transport {
	return h3Run(t, h3StartNoRun(t, a, as...))
}

// h3StartNoRun creates the transport without starting it
func h3StartNoRun(t testing.TB, a *accessory.Accessory, as ...*accessory.Accessory) *h3Transport {
	dir, err := ioutil.TempDir("", "h3c10")
	if err != nil {
		t.Fatal(err)
	}
	tr, err := NewIPTransport(Config{StoragePath: dir}, a, as...)
	if err != nil {
		t.Fatal(err)
	}
	return &h3Transport{tr: tr, dir: dir}
}

func h3Run(t testing.TB, h *h3Transport) *h3Transport {
	tr := h.tr
	dir := h.dir
	go tr.Start()
	// wait for the server
	deadline := time.Now().Add(5 * time.Second)
	var port string
	for time.Now().Before(deadline) {
		tr.mutex.Lock()
		s := tr.server
		tr.mutex.Unlock()
		if s != nil {
			port = s.Port()
			c, err := h3Dial(port, h3DialOpt{})
			if err == nil {
				c.Close()
				break
			}
		}
		time.Sleep(5 * time.Millisecond)
	}
	if port == "" {
		t.Fatal("transport did not start")
	}
	time.Sleep(20 * time.Millisecond)
	h.port = port
	_ = dir
	return h
}

func (h *h3Transport) stop() {
	select {
	case <-h.tr.Stop():
	case <-time.After(3 * time.Second):
	}
	os.RemoveAll(h.dir)
}

// reference controller identity
type h3Controller struct {
	name string
	pub  []byte
	priv []byte
}

func h3NewController(t testing.TB, h *h3Transport, name string) *h3Controller {
	pub, priv, err := crypto.ED25519GenerateKey(util.RandomHexString())
	if err != nil {
		t.Fatal(err)
	}
	// register the pairing directly (pair-setup is not what is probed here)
	if err := h.tr.database.SaveEntity(db.NewEntity(name, pub, nil)); err != nil {
		t.Fatal(err)
	}
	return &h3Controller{name: name, pub: pub, priv: priv}
}

type h3Msg struct {
	event  bool
	status int
	body   []byte
}

type h3Conn struct {
	t     testing.TB
	name  string
	raw   net.Conn
	sec   crypto.Cryptographer
	wmu   sync.Mutex
	msgs  chan h3Msg
	errc  chan error
	mu    sync.Mutex
	evs   []h3Event // events received and not yet collected
	local string
}

type h3Event struct {
	Aid   uint64
	Iid   uint64
	Value interface{}
}

func (e h3Event) String() string { return fmt.Sprintf("%d.%d=%v", e.Aid, e.Iid, e.Value) }

// a loopback address nobody else on this machine uses
var h3IP = func() string {
	if s := os.Getenv("H3_IP"); s != "" {
		return s
	}
	return "127.77.10.1"
}()

type h3DialOpt struct {
	localPort int  // bind to this local port (0: any)
	reuse     bool // SO_REUSEADDR
}

func h3Dial(port string, opt h3DialOpt) (net.Conn, error) {
	d := net.Dialer{Timeout: 3 * time.Second}
	d.LocalAddr = &net.TCPAddr{IP: net.ParseIP(h3IP), Port: opt.localPort}
	if os.Getenv("H3_NOREUSE") == "" || opt.reuse {
		d.Control = func(network, address string, c syscall.RawConn) error {
			var e error
			c.Control(func(fd uintptr) {
				e = syscall.SetsockoptInt(int(fd), syscall.SOL_SOCKET, syscall.SO_REUSEADDR, 1)
			})
			return e
		}
	}
	return d.Dial("tcp", h3IP+":"+port)
}

// connect: dial and pair-verify, returns a verified connection
func (c *h3Controller) connect(t testing.TB, h *h3Transport, name string) *h3Conn {
	conn, err := c.connectOpt(t, h, name, h3DialOpt{})
	if err != nil {
		t.Fatalf("connect %s: %v", name, err)
	}
	return conn
}

func (c *h3Controller) connectOpt(t testing.TB, h *h3Transport, name string, opt h3DialOpt) (hc *h3Conn, err error) {
	raw, err := h3Dial(h.port, opt)
	if err != nil {
		return nil, err
	}
	defer func() {
		if err != nil {
			if tc, ok := raw.(*net.TCPConn); ok {
				tc.SetLinger(0)
			}
			raw.Close()
		}
	}()
	br := bufio.NewReader(raw)

	plainPost := func(path string, body []byte) ([]byte, error) {
		req := fmt.Sprintf("POST %s HTTP/1.1\r\nHost: x\r\nContent-Type: application/pairing+tlv8\r\nContent-Length: %d\r\n\r\n", path, len(body))
		if _, err := raw.Write(append([]byte(req), body...)); err != nil {
			return nil, err
		}
		return nil, nil
	}

	// M1
	priv := curve25519.GeneratePrivateKey()
	pubk := curve25519.PublicKey(priv)
	m1 := util.NewTLV8Container()
	m1.SetByte(pair.TagSequence, 1)
	m1.SetBytes(pair.TagPublicKey, pubk[:])
	if _, err := plainPost("/pair-verify", m1.BytesBuffer().Bytes()); err != nil {
		return nil, err
	}
	raw.SetReadDeadline(time.Now().Add(5 * time.Second))
	st, body, err := h3ReadMessage(br)
	if err != nil {
		return nil, fmt.Errorf("M2: %v", err)
	}
	if st.status != 200 {
		return nil, fmt.Errorf("M2 status %d", st.status)
	}
	m2, err := util.NewTLV8ContainerFromReader(bytes.NewReader(body))
	if err != nil {
		return nil, err
	}
	spub := m2.GetBytes(pair.TagPublicKey)
	if len(spub) != 32 {
		return nil, fmt.Errorf("M2: server key %d bytes", len(spub))
	}
	var other [32]byte
	copy(other[:], spub)
	shared := curve25519.SharedSecret(priv, other)
	encKey, err := hkdf.Sha512(shared[:], []byte("Pair-Verify-Encrypt-Salt"), []byte("Pair-Verify-Encrypt-Info"))
	if err != nil {
		return nil, err
	}

	// M3
	var material []byte
	material = append(material, pubk[:]...)
	material = append(material, c.name...)
	material = append(material, other[:]...)
	sig, err := crypto.ED25519Signature(c.priv, material)
	if err != nil {
		return nil, err
	}
	inner := util.NewTLV8Container()
	inner.SetString(pair.TagUsername, c.name)
	inner.SetBytes(pair.TagSignature, sig)
	enc, mac, err := chacha20poly1305.EncryptAndSeal(encKey[:], []byte("PV-Msg03"), inner.BytesBuffer().Bytes(), nil)
	if err != nil {
		return nil, err
	}
	m3 := util.NewTLV8Container()
	m3.SetByte(pair.TagSequence, 3)
	m3.SetBytes(pair.TagEncryptedData, append(enc, mac[:]...))
	if _, err := plainPost("/pair-verify", m3.BytesBuffer().Bytes()); err != nil {
		return nil, err
	}

	sec, err := crypto.NewSecureClientSessionFromSharedKey(shared)
	if err != nil {
		return nil, err
	}

	hc = &h3Conn{t: t, name: name, raw: raw, sec: sec, msgs: make(chan h3Msg, 1024), errc: make(chan error, 1), local: raw.LocalAddr().String()}

	// M4: normally plain; the known key hand-over race sometimes sends it encrypted
	first, err := br.Peek(2)
	if err != nil {
		return nil, fmt.Errorf("M4: %v", err)
	}
	var m4 []byte
	pr, pw := io.Pipe()
	dbr := bufio.NewReader(pr)
	if first[0] == 'H' && first[1] == 'T' {
		st, body, err := h3ReadMessage(br)
		if err != nil {
			return nil, fmt.Errorf("M4: %v", err)
		}
		if st.status != 200 {
			return nil, fmt.Errorf("M4 status %d", st.status)
		}
		m4 = body
		go hc.pump(br, pw)
	} else {
		go hc.pump(br, pw)
		st, body, err := h3ReadMessage(dbr)
		if err != nil {
			return nil, fmt.Errorf("M4(enc): %v", err)
		}
		if st.status != 200 {
			return nil, fmt.Errorf("M4(enc) status %d", st.status)
		}
		m4 = body
	}
	raw.SetReadDeadline(time.Time{})
	m4c, err := util.NewTLV8ContainerFromReader(bytes.NewReader(m4))
	if err != nil {
		return nil, err
	}
	if m4c.GetByte(pair.TagErrCode) != 0 {
		return nil, fmt.Errorf("M4 error code %d", m4c.GetByte(pair.TagErrCode))
	}

	go hc.demux(dbr)
	return hc, nil
}

// pump decrypts frames from the socket into the pipe
func (c *h3Conn) pump(br *bufio.Reader, pw *io.PipeWriter) {
	for {
		var hdr [2]byte
		if _, err := io.ReadFull(br, hdr[:]); err != nil {
			pw.CloseWithError(err)
			return
		}
		n := int(binary.LittleEndian.Uint16(hdr[:]))
		frame := make([]byte, 2+n+16)
		copy(frame, hdr[:])
		if _, err := io.ReadFull(br, frame[2:]); err != nil {
			pw.CloseWithError(err)
			return
		}
		r, err := c.sec.Decrypt(bytes.NewReader(frame))
		if err != nil {
			pw.CloseWithError(fmt.Errorf("decrypt: %v", err))
			return
		}
		b, _ := ioutil.ReadAll(r)
		pw.Write(b)
	}
}

type h3Status struct {
	event  bool
	status int
}

func h3ReadMessage(br *bufio.Reader) (h3Status, []byte, error) {
	var st h3Status
	tp := textproto.NewReader(br)
	line, err := tp.ReadLine()
	if err != nil {
		return st, nil, err
	}
	parts := strings.SplitN(line, " ", 3)
	if len(parts) < 2 {
		return st, nil, fmt.Errorf("bad status line %q", line)
	}
	switch parts[0] {
	case "EVENT/1.0":
		st.event = true
	case "HTTP/1.1", "HTTP/1.0":
	default:
		return st, nil, fmt.Errorf("bad protocol in %q", line)
	}
	st.status, err = strconv.Atoi(parts[1])
	if err != nil {
		return st, nil, fmt.Errorf("bad status line %q", line)
	}
	hdr, err := tp.ReadMIMEHeader()
	if err != nil {
		return st, nil, fmt.Errorf("headers after %q: %v", line, err)
	}
	var body []byte
	if strings.Contains(strings.ToLower(hdr.Get("Transfer-Encoding")), "chunked") {
		body, err = ioutil.ReadAll(httputil.NewChunkedReader(br))
		if err != nil {
			return st, nil, err
		}
		// trailer CRLF
		tp.ReadLine()
	} else if cl := hdr.Get("Content-Length"); cl != "" {
		n, err := strconv.Atoi(cl)
		if err != nil {
			return st, nil, err
		}
		body = make([]byte, n)
		if _, err := io.ReadFull(br, body); err != nil {
			return st, nil, err
		}
	} else if st.status == 204 {
	} else {
		return st, nil, fmt.Errorf("no length in message %q %v", line, hdr)
	}
	return st, body, nil
}

func (c *h3Conn) demux(br *bufio.Reader) {
	for {
		st, body, err := h3ReadMessage(br)
		if err != nil {
			c.errc <- err
			close(c.msgs)
			return
		}
		c.msgs <- h3Msg{event: st.event, status: st.status, body: body}
	}
}

func (c *h3Conn) send(b []byte) error {
	c.wmu.Lock()
	defer c.wmu.Unlock()
	r, err := c.sec.Encrypt(bytes.NewReader(b))
	if err != nil {
		return err
	}
	eb, _ := ioutil.ReadAll(r)
	_, err = c.raw.Write(eb)
	return err
}

func (c *h3Conn) recordEvent(m h3Msg) {
	var p struct {
		Characteristics []h3Event `json:"characteristics"`
	}
	if err := json.Unmarshal(m.body, &p); err != nil {
		c.t.Errorf("%s: event body %q: %v", c.name, m.body, err)
		return
	}
	c.mu.Lock()
	c.evs = append(c.evs, p.Characteristics...)
	c.mu.Unlock()
}

func (e *h3Event) UnmarshalJSON(b []byte) error {
	var p struct {
		Aid   uint64      `json:"aid"`
		Iid   uint64      `json:"iid"`
		Value interface{} `json:"value"`
	}
	if err := json.Unmarshal(b, &p); err != nil {
		return err
	}
	e.Aid, e.Iid, e.Value = p.Aid, p.Iid, p.Value
	return nil
}

// do sends a request and returns the response; events which arrive before the
// response are recorded
func (c *h3Conn) do(method, path string, body []byte) (int, []byte, error) {
	req := fmt.Sprintf("%s %s HTTP/1.1\r\nHost: x\r\n", method, path)
	if body != nil {
		req += fmt.Sprintf("Content-Type: application/hap+json\r\nContent-Length: %d\r\n", len(body))
	}
	req += "\r\n"
	if err := c.send(append([]byte(req), body...)); err != nil {
		return 0, nil, err
	}
	timeout := time.After(5 * time.Second)
	for {
		select {
		case m, ok := <-c.msgs:
			if !ok {
				select {
				case err := <-c.errc:
					return 0, nil, err
				default:
					return 0, nil, io.EOF
				}
			}
			if m.event {
				c.recordEvent(m)
				continue
			}
			return m.status, m.body, nil
		case <-timeout:
			return 0, nil, fmt.Errorf("%s: timeout waiting for response to %s %s", c.name, method, path)
		}
	}
}

// fence makes a request/response round trip and returns all events received up to the response
func (c *h3Conn) fence() ([]h3Event, error) {
	st, _, err := c.do("GET", "/characteristics?id=1.2", nil)
	if err != nil {
		return nil, err
	}
	if st != 200 && st != 207 {
		return nil, fmt.Errorf("%s: fence status %d", c.name, st)
	}
	c.mu.Lock()
	evs := c.evs
	c.evs = nil
	c.mu.Unlock()
	return evs, nil
}

type h3Put struct {
	Aid   uint64      `json:"aid"`
	Iid   uint64      `json:"iid"`
	Value interface{} `json:"value,omitempty"`
	Ev    interface{} `json:"ev,omitempty"`
}

func (c *h3Conn) put(entries ...h3Put) (int, []byte, error) {
	b, _ := json.Marshal(map[string]interface{}{"characteristics": entries})
	return c.do("PUT", "/characteristics", b)
}

func (c *h3Conn) subscribe(aid, iid uint64, on bool) (int, []byte, error) {
	return c.put(h3Put{Aid: aid, Iid: iid, Ev: on})
}

func (c *h3Conn) write(aid, iid uint64, v interface{}) (int, []byte, error) {
	return c.put(h3Put{Aid: aid, Iid: iid, Value: v})
}

func (c *h3Conn) close() {
	c.raw.Close()
}

// closeRST closes with a reset, so that the address can be reused at once
func (c *h3Conn) closeRST() {
	if tc, ok := c.raw.(*net.TCPConn); ok {
		tc.SetLinger(0)
	}
	c.raw.Close()
}

func h3WaitSessions(h *h3Transport, n int) bool {
	deadline := time.Now().Add(3 * time.Second)
	for time.Now().Before(deadline) {
		if len(h.tr.context.ActiveConnections()) == n {
			return true
		}
		time.Sleep(2 * time.Millisecond)
	}
	return false
}

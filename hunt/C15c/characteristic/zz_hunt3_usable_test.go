package characteristic

import (
	"encoding/json"
	"fmt"
	"reflect"
	"testing"
)

func zzCall(name string, f func()) (err error) {
	defer func() {
		if r := recover(); r != nil {
			err = fmt.Errorf("%s panics: %v", name, r)
		}
	}()
	f()
	return nil
}

// Probe: every object returned by a zero-argument constructor is usable: set / get round trip inside the bounds,
// remote update with a JSON-decoded value, remote get.
func TestZZHunt3Usable(t *testing.T) {
	for _, c := range zzCtors {
		ch, full := c.mk()
		v := reflect.ValueOf(full)
		readable := ch.IsReadable()

		var samples []interface{}
		switch ch.Format {
		case FormatBool:
			samples = []interface{}{true, false}
		case FormatFloat:
			lo, hi := 0.0, 100.0
			if m, ok := ch.MinValue.(float64); ok {
				lo = m
			}
			if m, ok := ch.MaxValue.(float64); ok {
				hi = m
			}
			samples = []interface{}{hi, lo, (lo + hi) / 2}
		case FormatString:
			samples = []interface{}{"abc", ""}
		case FormatTLV8, FormatData:
			samples = []interface{}{[]byte{1, 2, 3}, []byte{}}
		default:
			lo, hi := 0, 1
			if m, ok := ch.MinValue.(int); ok {
				lo = m
			}
			if m, ok := ch.MaxValue.(int); ok {
				hi = m
			}
			samples = []interface{}{hi, lo, lo + (hi-lo)/2}
		}
		set := v.MethodByName("SetValue")
		get := v.MethodByName("GetValue")
		if !set.IsValid() || !get.IsValid() {
			t.Errorf("%s: no SetValue/GetValue", c.name)
			continue
		}
		for _, s := range samples {
			if err := zzCall(c.name+".SetValue", func() { set.Call([]reflect.Value{reflect.ValueOf(s)}) }); err != nil {
				t.Error(err)
				continue
			}
			if !readable {
				continue
			}
			var got interface{}
			if err := zzCall(c.name+".GetValue", func() { got = get.Call(nil)[0].Interface() }); err != nil {
				t.Error(err)
				continue
			}
			if !reflect.DeepEqual(got, s) {
				t.Errorf("%s: SetValue(%#v) then GetValue() = %#v", c.name, s, got)
			}
			// what a controller reads
			b, err := json.Marshal(ch)
			if err != nil {
				t.Errorf("%s: %v", c.name, err)
			}
			var back map[string]interface{}
			json.Unmarshal(b, &back)
			if _, ok := back["value"]; !ok {
				t.Errorf("%s: readable but no value in %s", c.name, b)
			}
		}
		for _, g := range []string{"GetMinValue", "GetMaxValue", "GetStepValue"} {
			m := v.MethodByName(g)
			if !m.IsValid() {
				continue
			}
			var field interface{}
			switch g {
			case "GetMinValue":
				field = ch.MinValue
			case "GetMaxValue":
				field = ch.MaxValue
			default:
				field = ch.StepValue
			}
			if field == nil {
				continue
			}
			if err := zzCall(c.name+"."+g, func() { m.Call(nil) }); err != nil {
				t.Error(err)
			}
		}

		// remote write with a JSON value
		if ch.IsWritable() {
			var jv interface{}
			switch ch.Format {
			case FormatBool:
				jv = float64(1) // iOS sends 1 / 0 for bools
			case FormatFloat:
				jv = samples[2]
			case FormatString:
				jv = "xyz"
			case FormatTLV8, FormatData:
				jv = "AQID"
			default:
				jv = float64(samples[0].(int))
			}
			ru := v.MethodByName("OnValueRemoteUpdate")
			called := 0
			if ru.IsValid() {
				fn := reflect.MakeFunc(ru.Type().In(0), func(args []reflect.Value) []reflect.Value { called++; return nil })
				ru.Call([]reflect.Value{fn})
			}
			// make sure value differs
			if err := zzCall(c.name+" remote write", func() { ch.UpdateValueFromConnection(jv, TestConn) }); err != nil {
				t.Error(err)
			}
			_ = called
		}
		if readable {
			rg := v.MethodByName("OnValueRemoteGet")
			if !rg.IsValid() {
				t.Logf("%s: no OnValueRemoteGet", c.name)
				continue
			}
			fn := reflect.MakeFunc(rg.Type().In(0), func(args []reflect.Value) []reflect.Value {
				return []reflect.Value{reflect.ValueOf(samples[0]).Convert(rg.Type().In(0).Out(0))}
			})
			rg.Call([]reflect.Value{fn})
			var got interface{}
			if err := zzCall(c.name+" remote get", func() { got = ch.GetValueFromConnection(TestConn) }); err != nil {
				t.Error(err)
			}
			var typed interface{}
			zzCall(c.name+".GetValue", func() { typed = get.Call(nil)[0].Interface() })
			if _, isBytes := samples[0].([]byte); isBytes {
				// Bytes inherits OnValueRemoteGet(func() string) of String: the application has to return base64 itself
				t.Logf("%s: OnValueRemoteGet takes a func() string (base64 expected), SetValue takes []byte", c.name)
			} else if !reflect.DeepEqual(typed, samples[0]) {
				t.Errorf("%s: OnValueRemoteGet returns %#v, characteristic holds %#v (typed %#v)", c.name, samples[0], got, typed)
			}
		}
	}
}

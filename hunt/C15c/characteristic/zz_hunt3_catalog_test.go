package characteristic

import (
	"encoding/json"
	"fmt"
	"io/ioutil"
	"math"
	"regexp"
	"strings"
	"testing"
)

type zzCharMeta struct {
	Constraints map[string]interface{}
	Format      string
	Name        string
	Permissions []string
	Properties  []string
	UUID        string
	Unit        string
}

type zzSvcMeta struct {
	RequiredCharacteristics []string
	OptionalCharacteristics []string
	Name                    string
	UUID                    string
}

type zzMeta struct {
	Characteristics []*zzCharMeta
	Services        []*zzSvcMeta
}

func zzLoad(t *testing.T) *zzMeta {
	b, err := ioutil.ReadFile("../gen/metadata.json")
	if err != nil {
		t.Fatal(err)
	}
	var m zzMeta
	if err := json.Unmarshal(b, &m); err != nil {
		t.Fatal(err)
	}
	return &m
}

func zzMinify(s string) string {
	re := regexp.MustCompile(`^([0-9a-fA-F]*)`)
	if str := re.FindString(s); len(str) > 0 {
		return strings.TrimLeft(str, "0")
	}
	return s
}

func zzNum(v interface{}) (float64, bool) {
	switch x := v.(type) {
	case int:
		return float64(x), true
	case float64:
		return x, true
	case float32:
		return float64(x), true
	case int64:
		return float64(x), true
	}
	return 0, false
}

// Clause: every characteristic defined in the metadata has a constructor yielding exactly the metadata's
// type identifier, format, permissions, unit and min/max/step, with (when readable) a default value of the
// declared type inside its bounds.
func TestZZHunt3CharacteristicCatalog(t *testing.T) {
	m := zzLoad(t)
	byType := map[string][]zzCtor{}
	for _, c := range zzCtors {
		ch, _ := c.mk()
		byType[ch.Type] = append(byType[ch.Type], c)
	}
	for _, md := range m.Characteristics {
		id := zzMinify(md.UUID)
		cs := byType[id]
		if len(cs) == 0 {
			t.Errorf("%s (%s): no constructor", md.Name, id)
			continue
		}
		for _, c := range cs {
			ch, _ := c.mk()
			pre := fmt.Sprintf("%s %s (%s)", c.name, md.Name, id)
			if ch.Format != md.Format {
				t.Errorf("%s: format %q, metadata %q", pre, ch.Format, md.Format)
			}
			var want []string
			for _, p := range md.Properties {
				switch p {
				case "read":
					want = append(want, PermRead)
				case "write":
					want = append(want, PermWrite)
				case "cnotify":
					want = append(want, PermEvents)
				}
			}
			if strings.Join(want, ",") != strings.Join(ch.Perms, ",") {
				t.Errorf("%s: perms %v, metadata %v (%v)", pre, ch.Perms, want, md.Properties)
			}
			if ch.Unit != md.Unit {
				t.Errorf("%s: unit %q, metadata %q", pre, ch.Unit, md.Unit)
			}
			for _, k := range []struct {
				key string
				got interface{}
			}{{"MinimumValue", ch.MinValue}, {"MaximumValue", ch.MaxValue}, {"StepValue", ch.StepValue}} {
				w, has := md.Constraints[k.key]
				if !has && k.key == "StepValue" {
					// Filter Life Level spells the key "stepValue" (fix 48fd2fd)
					w, has = md.Constraints["stepValue"]
				}
				if !has {
					if k.got != nil {
						t.Errorf("%s: %s = %v, metadata has none", pre, k.key, k.got)
					}
					continue
				}
				wf, _ := zzNum(w)
				gf, ok := zzNum(k.got)
				if !ok || gf != wf {
					t.Errorf("%s: %s = %v (%T), metadata %v", pre, k.key, k.got, k.got, w)
				}
				// declared type
				if ok {
					if md.Format == "float" {
						if _, isf := k.got.(float64); !isf {
							t.Errorf("%s: %s has type %T for format float", pre, k.key, k.got)
						}
					} else if _, isi := k.got.(int); !isi {
						t.Errorf("%s: %s has type %T for format %s", pre, k.key, k.got, md.Format)
					}
				}
			}
			if ml, has := md.Constraints["MaximumLength"]; has {
				wf, _ := zzNum(ml)
				if float64(ch.MaxLen) != wf {
					t.Logf("%s: maxLen %v, metadata %v", pre, ch.MaxLen, ml)
				}
			}
			readable := false
			for _, p := range ch.Perms {
				if p == PermRead {
					readable = true
				}
			}
			if readable {
				if ch.Value == nil {
					t.Errorf("%s: readable, value nil", pre)
					continue
				}
				switch md.Format {
				case "bool":
					if _, ok := ch.Value.(bool); !ok {
						t.Errorf("%s: value %T", pre, ch.Value)
					}
				case "string", "tlv8", "data":
					if _, ok := ch.Value.(string); !ok {
						if _, ok := ch.Value.([]byte); !ok {
							t.Errorf("%s: value %T", pre, ch.Value)
						}
					}
				case "float":
					v, ok := ch.Value.(float64)
					if !ok {
						t.Errorf("%s: value %T", pre, ch.Value)
						break
					}
					zzBounds(t, pre, v, md)
				default:
					v, ok := ch.Value.(int)
					if !ok {
						t.Errorf("%s: value %T", pre, ch.Value)
						break
					}
					zzBounds(t, pre, float64(v), md)
					if vv, has := md.Constraints["ValidValues"]; has {
						if mm, ok := vv.(map[string]interface{}); ok {
							if _, ok := mm[fmt.Sprint(v)]; !ok {
								t.Logf("%s: default %v is not one of the valid values %v", pre, v, mm)
							}
						}
					}
				}
			} else if ch.Value != nil {
				t.Logf("%s: not readable but value %v", pre, ch.Value)
			}
		}
	}
}

func zzBounds(t *testing.T, pre string, v float64, md *zzCharMeta) {
	if w, has := md.Constraints["MinimumValue"]; has {
		if f, _ := zzNum(w); v < f {
			t.Errorf("%s: default %v below minimum %v", pre, v, f)
		}
	}
	if w, has := md.Constraints["MaximumValue"]; has {
		if f, _ := zzNum(w); v > f {
			t.Errorf("%s: default %v above maximum %v", pre, v, f)
		}
	}
	if math.IsNaN(v) {
		t.Errorf("%s: NaN", pre)
	}
}

// Clause: every constructor's type identifier is the one declared for it; every exported constructor returns a
// usable object.
func TestZZHunt3CharacteristicDeclaredType(t *testing.T) {
	seen := map[string]string{}
	for _, c := range zzCtors {
		ch, _ := c.mk()
		if ch == nil {
			t.Errorf("%s: nil", c.name)
			continue
		}
		if ch.Type != c.declType {
			t.Errorf("%s: type %q, declared %q", c.name, ch.Type, c.declType)
		}
		if ch.Type == "" || ch.Format == "" || len(ch.Perms) == 0 {
			t.Errorf("%s: type %q format %q perms %v", c.name, ch.Type, ch.Format, ch.Perms)
		}
		if o, dup := seen[ch.Type]; dup {
			t.Logf("%s and %s share type %q", o, c.name, ch.Type)
		}
		seen[ch.Type] = c.name
		if _, err := json.Marshal(ch); err != nil {
			t.Errorf("%s: %v", c.name, err)
		}
	}
}

// Characteristics which are not in the metadata: self consistency (value of the declared type inside the bounds).
func TestZZHunt3CharacteristicSelfConsistency(t *testing.T) {
	for _, c := range zzCtors {
		ch, _ := c.mk()
		readable := ch.IsReadable()
		if readable && ch.Value == nil {
			t.Errorf("%s: readable, value nil", c.name)
		}
		if !readable && ch.Value != nil {
			t.Errorf("%s: not readable, value %v", c.name, ch.Value)
		}
		switch ch.Format {
		case FormatFloat:
			for _, x := range []interface{}{ch.MinValue, ch.MaxValue, ch.StepValue} {
				if x != nil {
					if _, ok := x.(float64); !ok {
						t.Errorf("%s: constraint type %T", c.name, x)
					}
				}
			}
			if v, ok := ch.Value.(float64); ok {
				if mn, ok := ch.MinValue.(float64); ok && v < mn {
					t.Errorf("%s: %v < %v", c.name, v, mn)
				}
				if mx, ok := ch.MaxValue.(float64); ok && v > mx {
					t.Errorf("%s: %v > %v", c.name, v, mx)
				}
			} else if readable {
				t.Errorf("%s: value type %T", c.name, ch.Value)
			}
		case FormatUInt8, FormatUInt16, FormatUInt32, FormatUInt64, FormatInt32:
			for _, x := range []interface{}{ch.MinValue, ch.MaxValue, ch.StepValue} {
				if x != nil {
					if _, ok := x.(int); !ok {
						t.Errorf("%s: constraint type %T", c.name, x)
					}
				}
			}
			if v, ok := ch.Value.(int); ok {
				if mn, ok := ch.MinValue.(int); ok && v < mn {
					t.Errorf("%s: %v < %v", c.name, v, mn)
				}
				if mx, ok := ch.MaxValue.(int); ok && v > mx {
					t.Errorf("%s: %v > %v", c.name, v, mx)
				}
			} else if readable {
				t.Errorf("%s: value type %T", c.name, ch.Value)
			}
		case FormatBool:
			if _, ok := ch.Value.(bool); readable && !ok {
				t.Errorf("%s: value type %T", c.name, ch.Value)
			}
		case FormatString, FormatTLV8, FormatData:
			if _, ok := ch.Value.(string); readable && !ok {
				t.Errorf("%s: value type %T", c.name, ch.Value)
			}
		default:
			t.Errorf("%s: format %q", c.name, ch.Format)
		}
	}
}

package characteristic

import (
	"reflect"
	"testing"
)

// BORDERLINE. Clause: "every characteristic defined in the bundled metadata has a constructor yielding exactly the
// metadata's ... " - the statement lists minimum / maximum / step, the metadata also declares a MaximumLength of 64
// for Serial Number and Version, which the constructors drop (MaxLen stays 0, "maxLen" is never served).
func TestZZHunt3MaxLenOfMetadata(t *testing.T) {
	if got := NewSerialNumber().MaxLen; got != 64 {
		t.Errorf("NewSerialNumber: MaxLen %d, metadata MaximumLength 64", got)
	}
	if got := NewVersion().MaxLen; got != 64 {
		t.Errorf("NewVersion: MaxLen %d, metadata MaximumLength 64", got)
	}
}

// BORDERLINE. Clause: "every constructor the library exports for a characteristic returns a usable object".
// The constructors with a type argument return an object without permissions (the comment of NewCharacteristic says
// PermsAll() is used then): SetValue stores nothing and the typed GetValue panics.  NewInt and NewFloat have no format.
func TestZZHunt3BaseConstructorsUsable(t *testing.T) {
	try := func(name string, f func() interface{}, want interface{}) {
		defer func() {
			if r := recover(); r != nil {
				t.Errorf("%s: SetValue then GetValue panics: %v", name, r)
			}
		}()
		if got := f(); !reflect.DeepEqual(got, want) {
			t.Errorf("%s: SetValue(%#v) then GetValue() = %#v", name, want, got)
		}
	}
	try("NewInt", func() interface{} { c := NewInt("X"); c.SetValue(5); return c.GetValue() }, 5)
	try("NewFloat", func() interface{} { c := NewFloat("X"); c.SetValue(5.5); return c.GetValue() }, 5.5)
	try("NewBool", func() interface{} { c := NewBool("X"); c.SetValue(true); return c.GetValue() }, true)
	try("NewString", func() interface{} { c := NewString("X"); c.SetValue("a"); return c.GetValue() }, "a")
	try("NewBytes", func() interface{} { c := NewBytes("X"); c.SetValue([]byte{1}); return c.GetValue() }, []byte{1})
	try("NewCharacteristic", func() interface{} { c := NewCharacteristic("X"); c.UpdateValue(5); return c.GetValue() }, 5)

	if c := NewCharacteristic("X"); len(c.Perms) == 0 {
		t.Errorf("NewCharacteristic: perms %v, documented default PermsAll()", c.Perms)
	}
	if f := NewFloat("X").Format; f != FormatFloat {
		t.Errorf("NewFloat: format %q (NewBool, NewString and NewBytes set theirs)", f)
	}
}

// BORDERLINE. The typed GetValue of a write-only characteristic of the catalog panics (its value is nil by design).
func TestZZHunt3WriteOnlyGetValue(t *testing.T) {
	for _, c := range zzCtors {
		ch, full := c.mk()
		if ch.IsReadable() {
			continue
		}
		func() {
			defer func() {
				if r := recover(); r != nil {
					t.Errorf("%s (perms %v): GetValue panics: %v", c.name, ch.Perms, r)
				}
			}()
			reflect.ValueOf(full).MethodByName("GetValue").Call(nil)
		}()
	}
}

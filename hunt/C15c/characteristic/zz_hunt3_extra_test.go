package characteristic

import "testing"

func TestZZHunt3Extras(t *testing.T) {
	m := zzLoad(t)
	in := map[string]bool{}
	for _, md := range m.Characteristics {
		in[zzMinify(md.UUID)] = true
	}
	for _, c := range zzCtors {
		ch, _ := c.mk()
		if !in[ch.Type] {
			t.Logf("%s %s fmt=%s perms=%v unit=%q min=%v max=%v step=%v val=%#v", c.name, ch.Type, ch.Format, ch.Perms, ch.Unit, ch.MinValue, ch.MaxValue, ch.StepValue, ch.Value)
		}
	}
}

package golang

import (
	"encoding/json"
	"go/format"
	"io/ioutil"
	"testing"

	"github.com/brutella/hc/gen"
)

func TestZZHunt3Regenerate(t *testing.T) {
	b, _ := ioutil.ReadFile("../metadata.json")
	var m gen.Metadata
	if err := json.Unmarshal(b, &m); err != nil {
		t.Fatal(err)
	}
	for _, c := range m.Characteristics {
		code, err := CharacteristicGoCode(c)
		if err != nil {
			t.Errorf("%s: %v", c.Name, err)
			continue
		}
		f, err := format.Source(code)
		if err != nil {
			t.Errorf("%s: generated code does not parse: %v\n%s", c.Name, err, code)
			continue
		}
		disk, err := ioutil.ReadFile("../../characteristic/" + CharacteristicFileName(c))
		if err != nil {
			t.Errorf("%s: %v", c.Name, err)
			continue
		}
		d, _ := format.Source(disk)
		if string(d) != string(f) {
			t.Logf("%s differs (probe, hand edits of generated files):\n--- generated\n%s\n--- disk\n%s", c.Name, f, d)
		}
	}
	for _, s := range m.Services {
		code, err := ServiceGoCode(s, m.Characteristics)
		if err != nil {
			t.Errorf("%s: %v", s.Name, err)
			continue
		}
		f, err := format.Source(code)
		if err != nil {
			t.Errorf("%s: generated code does not parse: %v\n%s", s.Name, err, code)
			continue
		}
		disk, err := ioutil.ReadFile("../../service/" + ServiceFileName(s))
		if err != nil {
			t.Errorf("%s: %v", s.Name, err)
			continue
		}
		d, _ := format.Source(disk)
		if string(d) != string(f) {
			t.Logf("%s differs (probe, hand edits of generated files):\n--- generated\n%s\n--- disk\n%s", s.Name, f, d)
		}
	}
}

package service

import (
	"encoding/json"
	"io/ioutil"
	"reflect"
	"regexp"
	"strings"
	"testing"

	"github.com/brutella/hc/characteristic"
)

type zzSvcMeta struct {
	RequiredCharacteristics []string
	OptionalCharacteristics []string
	Name                    string
	UUID                    string
}

type zzCharMeta struct {
	Name string
	UUID string
}

type zzMeta struct {
	Characteristics []*zzCharMeta
	Services        []*zzSvcMeta
}

func zzLoad(t *testing.T) *zzMeta {
	b, err := ioutil.ReadFile("../gen/metadata.json")
	if err != nil {
		t.Fatal(err)
	}
	var m zzMeta
	if err := json.Unmarshal(b, &m); err != nil {
		t.Fatal(err)
	}
	return &m
}

func zzMinify(s string) string {
	re := regexp.MustCompile(`^([0-9a-fA-F]*)`)
	if str := re.FindString(s); len(str) > 0 {
		return strings.TrimLeft(str, "0")
	}
	return s
}

func zzSafe(t *testing.T, c zzCtor) (s *Service, full interface{}) {
	defer func() {
		if r := recover(); r != nil {
			t.Errorf("%s panics: %v", c.name, r)
			s, full = nil, nil
		}
	}()
	return c.mk()
}

// Clause: every service defined in the metadata has a constructor yielding the metadata's type identifier; every
// service contains at least its required characteristics and never two characteristics of the same type.
func TestZZHunt3ServiceCatalog(t *testing.T) {
	m := zzLoad(t)
	charName := map[string]string{}
	for _, c := range m.Characteristics {
		charName[zzMinify(c.UUID)] = c.Name
	}
	byType := map[string][]zzCtor{}
	for _, c := range zzCtors {
		s, _ := zzSafe(t, c)
		if s == nil {
			continue
		}
		byType[s.Type] = append(byType[s.Type], c)
	}
	for _, md := range m.Services {
		id := zzMinify(md.UUID)
		cs := byType[id]
		if len(cs) == 0 {
			t.Errorf("service %s (%s): no constructor", md.Name, id)
			continue
		}
		for _, c := range cs {
			s, _ := c.mk()
			have := map[string]int{}
			for _, ch := range s.Characteristics {
				have[ch.Type]++
			}
			for _, r := range md.RequiredCharacteristics {
				if have[zzMinify(r)] == 0 {
					t.Errorf("%s (%s %s): required characteristic %s (%s) missing", c.name, md.Name, id, charName[zzMinify(r)], zzMinify(r))
				}
			}
			allowed := map[string]bool{}
			for _, r := range md.RequiredCharacteristics {
				allowed[zzMinify(r)] = true
			}
			for _, r := range md.OptionalCharacteristics {
				allowed[zzMinify(r)] = true
			}
			for typ := range have {
				if !allowed[typ] {
					t.Logf("%s (%s %s): characteristic %s (%s) is neither required nor optional", c.name, md.Name, id, charName[typ], typ)
				}
			}
		}
	}
}

// Clauses: every constructor returns a usable object; never two characteristics of the same type; the type
// identifier is the declared one.
func TestZZHunt3ServiceUsable(t *testing.T) {
	seen := map[string]string{}
	for _, c := range zzCtors {
		s, full := zzSafe(t, c)
		if s == nil {
			continue
		}
		if s.Type == "" {
			t.Errorf("%s: empty type", c.name)
		}
		if o, dup := seen[s.Type]; dup {
			t.Logf("%s and %s share type %q", o, c.name, s.Type)
		}
		seen[s.Type] = c.name
		have := map[string]int{}
		ptrs := map[*characteristic.Characteristic]int{}
		for _, ch := range s.Characteristics {
			if ch == nil {
				t.Errorf("%s: nil characteristic in list", c.name)
				continue
			}
			have[ch.Type]++
			ptrs[ch]++
		}
		for typ, n := range have {
			if n > 1 {
				t.Errorf("%s: %d characteristics of type %s", c.name, n, typ)
			}
		}
		// every field of the struct is set and is in the list
		zzFields(t, c.name, reflect.ValueOf(full).Elem(), ptrs)
		for p, n := range ptrs {
			if n > 0 {
				t.Errorf("%s: characteristic %s in the list but in no field", c.name, p.Type)
			}
		}
		if _, err := json.Marshal(s); err != nil {
			t.Errorf("%s: %v", c.name, err)
		}
	}
}

func zzFields(t *testing.T, name string, v reflect.Value, ptrs map[*characteristic.Characteristic]int) {
	for i := 0; i < v.NumField(); i++ {
		f := v.Field(i)
		ft := v.Type().Field(i)
		if ft.Type == reflect.TypeOf((*Service)(nil)) {
			if f.IsNil() {
				t.Errorf("%s: embedded *Service nil", name)
			}
			continue
		}
		if f.Kind() != reflect.Ptr {
			continue
		}
		if f.IsNil() {
			t.Errorf("%s: field %s nil", name, ft.Name)
			continue
		}
		if ft.Anonymous && f.Elem().Kind() == reflect.Struct && f.Elem().Type().PkgPath() == "github.com/brutella/hc/service" {
			zzFields(t, name, f.Elem(), ptrs)
			continue
		}
		// characteristic wrapper: find the *Characteristic
		ch := zzInner(f)
		if ch == nil {
			t.Errorf("%s: field %s has no characteristic", name, ft.Name)
			continue
		}
		if _, ok := ptrs[ch]; !ok {
			t.Errorf("%s: field %s (%s) is not in the characteristics list", name, ft.Name, ch.Type)
			continue
		}
		ptrs[ch]--
		// field name = constructor type
		if want := "*characteristic." + ft.Name; ft.Type.String() != want {
			t.Logf("%s: field %s has type %s", name, ft.Name, ft.Type)
		}
	}
}

func zzInner(f reflect.Value) *characteristic.Characteristic {
	for depth := 0; depth < 5; depth++ {
		if c, ok := f.Interface().(*characteristic.Characteristic); ok {
			return c
		}
		if f.Kind() == reflect.Ptr {
			if f.IsNil() {
				return nil
			}
			f = f.Elem()
		}
		if f.Kind() != reflect.Struct || f.NumField() == 0 {
			return nil
		}
		f = f.Field(0)
	}
	return nil
}

package service

import "testing"

func TestZZHunt3Extras(t *testing.T) {
	m := zzLoad(t)
	in := map[string]bool{}
	for _, md := range m.Services {
		in[zzMinify(md.UUID)] = true
	}
	for _, c := range zzCtors {
		s, _ := c.mk()
		if !in[s.Type] || c.name == "NewCooler" || c.name == "NewHeater" || c.name == "NewColoredLightbulb" {
			var ts []string
			for _, ch := range s.Characteristics {
				ts = append(ts, ch.Type)
			}
			t.Logf("%s %s %v", c.name, s.Type, ts)
		}
	}
}

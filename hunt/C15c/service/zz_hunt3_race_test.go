package service

import (
	"sync"
	"testing"
)

// Probe: constructors share no state (run with -race).
func TestZZHunt3Concurrent(t *testing.T) {
	var wg sync.WaitGroup
	for i := 0; i < 4; i++ {
		wg.Add(1)
		go func() {
			defer wg.Done()
			for _, c := range zzCtors {
				s, _ := c.mk()
				for _, ch := range s.Characteristics {
					ch.Perms = append(ch.Perms, "hd")
					ch.UpdateValue(1)
				}
			}
		}()
	}
	wg.Wait()
	for _, c := range zzCtors {
		s, _ := c.mk()
		for _, ch := range s.Characteristics {
			for _, p := range ch.Perms {
				if p == "hd" {
					t.Errorf("%s %s: perms shared", c.name, ch.Type)
				}
			}
		}
	}
}

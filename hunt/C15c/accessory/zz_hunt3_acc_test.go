package accessory

import (
	"encoding/json"
	"math"
	"testing"

	"github.com/brutella/hc/characteristic"
)

func zzCheck(t *testing.T, name string, a *Accessory) {
	if a == nil {
		t.Errorf("%s: nil accessory", name)
		return
	}
	ids := map[uint64]bool{}
	stypes := map[string]int{}
	for _, s := range a.Services {
		if s.ID == 0 || ids[s.ID] {
			t.Errorf("%s: service %s id %d", name, s.Type, s.ID)
		}
		ids[s.ID] = true
		stypes[s.Type]++
		ct := map[string]int{}
		for _, c := range s.Characteristics {
			if c.ID == 0 || ids[c.ID] {
				t.Errorf("%s: characteristic %s id %d", name, c.Type, c.ID)
			}
			ids[c.ID] = true
			ct[c.Type]++
			if ct[c.Type] > 1 {
				t.Errorf("%s: service %s has two %s", name, s.Type, c.Type)
			}
			if c.IsReadable() && c.Value == nil {
				t.Errorf("%s: %s readable without value", name, c.Type)
			}
			switch c.Format {
			case characteristic.FormatFloat:
				v, ok := c.Value.(float64)
				if c.IsReadable() && !ok {
					t.Errorf("%s: %s value %T", name, c.Type, c.Value)
				}
				if mn, ok := c.MinValue.(float64); ok && v < mn {
					t.Errorf("%s: %s value %v < min %v", name, c.Type, v, mn)
				}
				if mx, ok := c.MaxValue.(float64); ok && v > mx {
					t.Errorf("%s: %s value %v > max %v", name, c.Type, v, mx)
				}
				if math.IsNaN(v) || math.IsInf(v, 0) {
					t.Errorf("%s: %s value %v", name, c.Type, v)
				}
			case characteristic.FormatUInt8, characteristic.FormatUInt16, characteristic.FormatUInt32, characteristic.FormatInt32:
				v, ok := c.Value.(int)
				if c.IsReadable() && !ok {
					t.Errorf("%s: %s value %T", name, c.Type, c.Value)
				}
				if mn, ok := c.MinValue.(int); ok && v < mn {
					t.Errorf("%s: %s value %v < min %v", name, c.Type, v, mn)
				}
				if mx, ok := c.MaxValue.(int); ok && v > mx {
					t.Errorf("%s: %s value %v > max %v", name, c.Type, v, mx)
				}
			}
		}
	}
	if stypes["3E"] != 1 {
		t.Errorf("%s: %d accessory information services", name, stypes["3E"])
	}
	if _, err := json.Marshal(a); err != nil {
		t.Errorf("%s: %v", name, err)
	}
}

func TestZZHunt3Accessories(t *testing.T) {
	infos := []Info{{}, {Name: "x"}, {Name: "x", SerialNumber: "1", Manufacturer: "m", Model: "mo", FirmwareRevision: "1.0", ID: 7}}
	for _, info := range infos {
		zzCheck(t, "New", New(info, TypeOther))
		zzCheck(t, "NewBridge", NewBridge(info).Accessory)
		cam := NewCamera(info)
		zzCheck(t, "NewCamera", cam.Accessory)
		zzCheck(t, "NewColoredLightbulb", NewColoredLightbulb(info).Accessory)
		zzCheck(t, "NewLightbulb", NewLightbulb(info).Accessory)
		zzCheck(t, "NewOutlet", NewOutlet(info).Accessory)
		zzCheck(t, "NewSwitch", NewSwitch(info).Accessory)
		zzCheck(t, "NewTelevision", NewTelevision(info).Accessory)
		for _, a := range [][4]float64{{20, 0, 100, 0.1}, {0, 10, 38, 0.5}, {-5, -40, 60, 1}, {50, -40, -10, 1}, {5, 6, 7, 0.1}, {100, 0, 30, 1}, {10, 15, 30, 1}, {0, -10, 50, 1}} {
			th := NewThermostat(info, a[0], a[1], a[2], a[3])
			zzCheck(t, "NewThermostat", th.Accessory)
			ts := NewTemperatureSensor(info, a[0], a[1], a[2], a[3])
			zzCheck(t, "NewTemperatureSensor", ts.Accessory)
			for _, c := range []*characteristic.Characteristic{th.Thermostat.CurrentTemperature.Characteristic, th.Thermostat.TargetTemperature.Characteristic, ts.TempSensor.CurrentTemperature.Characteristic} {
				want := math.Max(a[1], math.Min(a[2], a[0]))
				if c.Value != want || c.MinValue != a[1] || c.MaxValue != a[2] || c.StepValue != a[3] {
					t.Errorf("%v: %s value %v min %v max %v step %v", a, c.Type, c.Value, c.MinValue, c.MaxValue, c.StepValue)
				}
			}
		}
		for _, p := range []int{0, 50, 100, -1, 101} {
			w := NewWindow(info, p)
			zzCheck(t, "NewWindow", w.Accessory)
		}
	}
}

package accessory

import "testing"

// BORDERLINE. Clause: "every constructor's type identifier is the one declared for it": the temperature sensor
// accessory announces the category Thermostat (9), the catalog declares Sensor (10) for sensors.
func TestZZHunt3TemperatureSensorCategory(t *testing.T) {
	a := NewTemperatureSensor(Info{Name: "t"}, 20, 0, 100, 0.1)
	if a.Type != TypeSensor {
		t.Errorf("NewTemperatureSensor: category %d, want TypeSensor (%d)", a.Type, TypeSensor)
	}
}

// BORDERLINE. Clause: "every constructor the library exports for an accessory returns a usable object": the camera
// exposes StreamManagement2, which is not a service of the accessory: no instance ids, never served.
func TestZZHunt3CameraSecondStream(t *testing.T) {
	c := NewCamera(Info{Name: "c"})
	found := false
	for _, s := range c.Services {
		if s == c.StreamManagement2.Service {
			found = true
		}
	}
	if !found {
		t.Errorf("NewCamera: StreamManagement2 is not among the %d services of the accessory (service id %d, characteristic id %d)", len(c.Services), c.StreamManagement2.ID, c.StreamManagement2.SetupEndpoints.ID)
	}
}

// OUTSIDE C15 (container). A removed accessory keeps its id reserved: it cannot be added again.
func TestZZHunt3ContainerRemoveThenAdd(t *testing.T) {
	m := NewContainer()
	a := NewSwitch(Info{Name: "a"}).Accessory
	if err := m.AddAccessory(a); err != nil {
		t.Fatal(err)
	}
	m.RemoveAccessory(a)
	if err := m.AddAccessory(a); err != nil {
		t.Errorf("add after remove: %v", err)
	}
}

package hap

import (
	"bytes"
	"encoding/binary"
	"fmt"
	"math/rand"
	"sync"
	"testing"
	"time"
)

// h3Payload makes a self-describing payload: magic, writer, seq, length, pattern
func h3Payload(writer, seq, size int) []byte {
	if size < 16 {
		size = 16
	}
	b := make([]byte, size)
	copy(b, "HUNT")
	binary.LittleEndian.PutUint32(b[4:], uint32(writer))
	binary.LittleEndian.PutUint32(b[8:], uint32(seq))
	binary.LittleEndian.PutUint32(b[12:], uint32(size))
	for i := 16; i < size; i++ {
		b[i] = byte(writer*31 + seq*7 + i)
	}
	return b
}

// h3CheckPayloads parses a plain-text stream made of h3Payload messages
func h3CheckPayloads(plain []byte) (int, error) {
	n := 0
	last := map[uint32]int{}
	for off := 0; off < len(plain); {
		if len(plain)-off < 16 || string(plain[off:off+4]) != "HUNT" {
			return n, fmt.Errorf("offset %d: not the start of a payload: %q", off, h3clip(plain[off:], 24))
		}
		w := binary.LittleEndian.Uint32(plain[off+4:])
		s := binary.LittleEndian.Uint32(plain[off+8:])
		l := int(binary.LittleEndian.Uint32(plain[off+12:]))
		if len(plain)-off < l {
			return n, fmt.Errorf("offset %d: payload truncated", off)
		}
		if !bytes.Equal(plain[off:off+l], h3Payload(int(w), int(s), l)) {
			return n, fmt.Errorf("offset %d: payload of writer %d seq %d is not intact", off, w, s)
		}
		if prev, ok := last[w]; ok && int(s) != prev+1 {
			return n, fmt.Errorf("writer %d: seq %d after %d", w, s, prev)
		}
		last[w] = int(s)
		off += l
		n++
	}
	return n, nil
}

// PROBE (passes): N writers on one verified connection, one and several frames.
func TestHunt3C08_ProbeConcurrentWriters(t *testing.T) {
	ctx := h3Context()
	raw := newH3Conn("10.0.0.2:50000", "10.0.0.1:12345")
	// let the socket be slow and jittery so that writers pile up
	raw.onWrite = func(c *h3Conn, b []byte) (int, error, bool) {
		if rand.Intn(4) == 0 {
			time.Sleep(time.Duration(rand.Intn(200)) * time.Microsecond)
		}
		return 0, nil, false
	}
	con := NewConnection(raw, ctx)
	key := h3Key(1)
	h3Verify(ctx, raw, key)

	const writers, each = 8, 200
	var wg sync.WaitGroup
	for w := 0; w < writers; w++ {
		wg.Add(1)
		go func(w int) {
			defer wg.Done()
			r := rand.New(rand.NewSource(int64(w)))
			for s := 0; s < each; s++ {
				size := []int{16, 100, 1023, 1024, 1025, 2048, 3000, 5000}[r.Intn(8)]
				if _, err := con.Write(h3Payload(w, s, size)); err != nil {
					t.Errorf("write: %v", err)
					return
				}
			}
		}(w)
	}
	wg.Wait()

	plain, frames, err := newH3Peer(key).decryptAll(raw.Wire())
	if err != nil {
		t.Fatalf("after %d frames: %v", frames, err)
	}
	n, err := h3CheckPayloads(plain)
	if err != nil {
		t.Fatal(err)
	}
	if n != writers*each {
		t.Fatalf("%d payloads, want %d", n, writers*each)
	}
}

// VIOLATION 1 - clause "the peer can decrypt every frame in the order it arrives".
//
// Schedule: two concurrent Write calls on one pair-verified connection (an event
// notification and a keep-alive, or a response) while a third goroutine - the
// http server which has read EOF from a peer that half-closed, or Stop() of the
// transport - is inside Connection.Close between its two statements (session
// removed, socket not closed yet).  Write looks the encrypter up by the address
// of the connection, finds no session any more, and sends the payload to the
// socket as it is: plain text in the middle of the encrypted stream.
//
// The held Close is a deterministic stand-in for a goroutine that is preempted
// between `DeleteSessionForConnection` and `connection.Close()`; see
// TestHunt3C08_PlainTextAfterClose_TCP for the unforced variant.
func TestHunt3C08_PlainTextWhileClosing(t *testing.T) {
	ctx := h3Context()
	raw := newH3Conn("10.0.0.2:50000", "10.0.0.1:12345")
	raw.closeGate = make(chan struct{})
	con := NewConnection(raw, ctx)
	key := h3Key(1)
	h3Verify(ctx, raw, key)

	// traffic before: encrypted
	if _, err := con.Write(h3Payload(0, 0, 300)); err != nil {
		t.Fatal(err)
	}

	closed := make(chan struct{})
	go func() { con.Close(); close(closed) }()
	<-raw.closing // Close has removed the session and now closes the socket

	// two concurrent writers: an event and a keep-alive
	var wg sync.WaitGroup
	errs := make([]error, 2)
	for w := 1; w <= 2; w++ {
		wg.Add(1)
		go func(w int) {
			defer wg.Done()
			_, errs[w-1] = con.Write(h3Payload(w, 0, 1500))
		}(w)
	}
	wg.Wait()
	close(raw.closeGate)
	<-closed

	wire := raw.Wire()
	plain, frames, err := newH3Peer(key).decryptAll(wire)
	t.Logf("write errors: %v; %d bytes on the wire, %d frames decrypted (%d bytes)", errs, len(wire), frames, len(plain))
	if err != nil {
		t.Errorf("the peer cannot decrypt what it received: %v", err)
	}
	if i := bytes.Index(wire, []byte("HUNT")); i >= 0 {
		t.Errorf("plain text of a payload on the wire of an encrypted connection at offset %d", i)
	}
}

// VIOLATION 2 - clause "No frame counter is reused or emitted out of order" /
// "the peer can decrypt every frame in the order it arrives".
//
// History: a controller's connection is reset and the controller connects again
// from the same port while the server is still busy with a request of the old
// connection (the history of repair 3a64b84).  The new connection's session is
// stored under the same addresses.  Connection looks its session up by address
// on every write, so the old connection's response is sealed with the NEW
// session's encrypter: it takes frame counter(s) of the new connection which
// never reach the new peer (they go to the dead socket), and it does so under
// the old connection's write mutex, so the two connections can also seal
// concurrently with one counter.
func TestHunt3C08_ReconnectSamePortStealsCounters(t *testing.T) {
	ctx := h3Context()

	oldRaw := newH3Conn("10.0.0.2:50000", "10.0.0.1:12345")
	oldCon := NewConnection(oldRaw, ctx)
	oldKey := h3Key(1)
	h3Verify(ctx, oldRaw, oldKey)
	oldCon.Write(h3Payload(0, 0, 100))

	// the peer resets, connects again from the same port and pair-verifies;
	// the old connection's handler is still running (slow application callback)
	newRaw := newH3Conn("10.0.0.2:50000", "10.0.0.1:12345")
	newCon := NewConnection(newRaw, ctx)
	newKey := h3Key(99)
	h3Verify(ctx, newRaw, newKey)

	// the old handler finishes and writes its response (to the dead socket)
	oldCon.Write(h3Payload(0, 1, 100))

	// the first response / event on the new connection
	if _, err := newCon.Write(h3Payload(1, 0, 100)); err != nil {
		t.Fatal(err)
	}

	_, frames, err := newH3Peer(newKey).decryptAll(newRaw.Wire())
	if err != nil {
		t.Errorf("new connection: after %d frames: %v", frames, err)
	}

	// and the old connection sent bytes under the keys of the new one
	if plain, _, _ := newH3Peer(newKey).decryptAll(oldRaw.Wire()[2+100+16:]); len(plain) > 0 {
		t.Errorf("old connection's socket carries a frame sealed with the new connection's key and counter 0")
	}
}

// Same history, concurrent: the race detector sees the two connections seal
// with one counter under two different mutexes; counters are reused.
func TestHunt3C08_ReconnectSamePortConcurrent(t *testing.T) {
	ctx := h3Context()
	oldRaw := newH3Conn("10.0.0.2:50000", "10.0.0.1:12345")
	oldCon := NewConnection(oldRaw, ctx)
	h3Verify(ctx, oldRaw, h3Key(1))
	newRaw := newH3Conn("10.0.0.2:50000", "10.0.0.1:12345")
	newCon := NewConnection(newRaw, ctx)
	newKey := h3Key(99)
	h3Verify(ctx, newRaw, newKey)

	var wg sync.WaitGroup
	wg.Add(2)
	go func() {
		defer wg.Done()
		for i := 0; i < 2000; i++ {
			oldCon.Write(h3Payload(0, i, 64))
		}
	}()
	go func() {
		defer wg.Done()
		for i := 0; i < 2000; i++ {
			newCon.Write(h3Payload(1, i, 64))
		}
	}()
	wg.Wait()
	_, frames, err := newH3Peer(newKey).decryptAll(newRaw.Wire())
	if err != nil {
		t.Errorf("new connection: after %d frames: %v", frames, err)
	}
}

type h3Timeout struct{}

func (h3Timeout) Error() string   { return "i/o timeout" }
func (h3Timeout) Timeout() bool   { return true }
func (h3Timeout) Temporary() bool { return true }

// BORDERLINE 3 - clause "the peer can decrypt every frame in the order it arrives".
//
// Schedule: writer A's socket write completes only partly (write deadline set by
// the application through the exported SetWriteDeadline, peer slow); writer B,
// queued behind A on the mutex, then seals the next counter and writes.  The
// connection is not poisoned by the failed write: B's frames follow half a frame.
func TestHunt3C08_WriteAfterFailedWrite(t *testing.T) {
	ctx := h3Context()
	raw := newH3Conn("10.0.0.2:50000", "10.0.0.1:12345")
	first := true
	raw.onWrite = func(c *h3Conn, b []byte) (int, error, bool) {
		if first {
			first = false
			c.mu.Lock()
			c.wire = append(c.wire, b[:len(b)/2]...)
			c.mu.Unlock()
			return len(b) / 2, h3Timeout{}, true
		}
		return 0, nil, false
	}
	con := NewConnection(raw, ctx)
	key := h3Key(1)
	h3Verify(ctx, raw, key)

	_, errA := con.Write(h3Payload(0, 0, 600))
	_, errB := con.Write(h3Payload(1, 0, 600))
	t.Logf("errA=%v errB=%v", errA, errB)
	if errB == nil {
		_, frames, err := newH3Peer(key).decryptAll(raw.Wire())
		if err != nil {
			t.Errorf("second write was accepted, but after %d frames: %v", frames, err)
		}
	}
}

// BESIDE THE PROPERTY (one writer is enough; reported as borderline): Write on
// an encrypted connection returns the number of cipher-text bytes, not
// len(b). Callers that follow the io.Writer contract lose data: the exported
// chunked writer of this package advances by the returned count and skips
// 36 bytes of the payload per 2048-byte chunk; io.Copy gives up with "invalid
// write result"; bufio.Writer panics on a write larger than its buffer.
func TestHunt3C08_WriteReturnsCipherTextLength(t *testing.T) {
	ctx := h3Context()
	raw := newH3Conn("10.0.0.2:50000", "10.0.0.1:12345")
	con := NewConnection(raw, ctx)
	key := h3Key(1)
	h3Verify(ctx, raw, key)

	payload := h3Payload(0, 0, 5000)
	n, err := NewChunkedWriter(con, 2048).Write(payload)
	plain, _, derr := newH3Peer(key).decryptAll(raw.Wire())
	if derr != nil {
		t.Fatal(derr)
	}
	t.Logf("chunked writer: n=%d err=%v; the peer received %d of %d bytes", n, err, len(plain), len(payload))
	if !bytes.Equal(plain, payload) {
		t.Errorf("payload written through NewChunkedWriter(conn, 2048) does not reach the peer intact")
	}

	if n, err := con.Write(payload[:100]); n != 100 || err != nil {
		t.Errorf("Write(100 bytes) = %d, %v", n, err)
	}
}

package hap

import (
	"encoding/binary"
	"errors"
	"fmt"
	"net"
	"sync"
	"time"

	"github.com/brutella/hc/crypto"
	"github.com/brutella/hc/crypto/chacha20poly1305"
	"github.com/brutella/hc/crypto/hkdf"
	"github.com/brutella/hc/db"
	"github.com/brutella/hc/util"
)

// ---------------------------------------------------------------------------
// fake socket: records everything that is written, in the order of completion
// ---------------------------------------------------------------------------

type h3Addr string

func (a h3Addr) Network() string { return "tcp" }
func (a h3Addr) String() string  { return string(a) }

type h3Conn struct {
	mu     sync.Mutex
	wire   []byte // what reached the peer
	closed bool

	local, remote h3Addr

	// optional hooks
	onWrite   func(c *h3Conn, b []byte) (int, error, bool) // handled?
	closeGate chan struct{}                                // Close blocks on it when non-nil
	closing   chan struct{}                                // closed when Close was entered
	once      sync.Once
}

func newH3Conn(remote, local string) *h3Conn {
	return &h3Conn{remote: h3Addr(remote), local: h3Addr(local), closing: make(chan struct{})}
}

func (c *h3Conn) Read(b []byte) (int, error) {
	// the peer never sends anything in these tests
	<-c.closing
	return 0, errors.New("closed")
}

func (c *h3Conn) Write(b []byte) (int, error) {
	if c.onWrite != nil {
		if n, err, ok := c.onWrite(c, b); ok {
			return n, err
		}
	}
	c.mu.Lock()
	defer c.mu.Unlock()
	if c.closed {
		return 0, errors.New("use of closed connection")
	}
	c.wire = append(c.wire, b...)
	return len(b), nil
}

func (c *h3Conn) Close() error {
	c.once.Do(func() { close(c.closing) })
	if c.closeGate != nil {
		<-c.closeGate
	}
	c.mu.Lock()
	c.closed = true
	c.mu.Unlock()
	return nil
}

func (c *h3Conn) Wire() []byte {
	c.mu.Lock()
	defer c.mu.Unlock()
	return append([]byte(nil), c.wire...)
}

func (c *h3Conn) LocalAddr() net.Addr                { return c.local }
func (c *h3Conn) RemoteAddr() net.Addr               { return c.remote }
func (c *h3Conn) SetDeadline(t time.Time) error      { return nil }
func (c *h3Conn) SetReadDeadline(t time.Time) error  { return nil }
func (c *h3Conn) SetWriteDeadline(t time.Time) error { return nil }

// ---------------------------------------------------------------------------
// reference implementation of the peer: HAP session security (spec 5.5.2)
//   frame = len(2, LE, also AAD) | chacha20(data) | poly1305 tag(16)
//   nonce = 64 bit LE counter, starting at 0, +1 per frame
// ---------------------------------------------------------------------------

type h3Peer struct {
	key     [32]byte
	counter uint64
}

func newH3Peer(shared [32]byte) *h3Peer {
	// accessory -> controller direction
	k, err := hkdf.Sha512(shared[:], []byte("Control-Salt"), []byte("Control-Read-Encryption-Key"))
	if err != nil {
		panic(err)
	}
	return &h3Peer{key: k}
}

// decryptAll decrypts a captured byte stream; it returns the plain text of all the
// frames that could be decrypted in the order of arrival and an error which
// says where the stream stopped being decryptable.
func (p *h3Peer) decryptAll(wire []byte) ([]byte, int, error) {
	var out []byte
	frames := 0
	off := 0
	for off < len(wire) {
		if len(wire)-off < 2 {
			return out, frames, fmt.Errorf("offset %d: truncated header", off)
		}
		l := int(binary.LittleEndian.Uint16(wire[off:]))
		if l > 1024 {
			return out, frames, fmt.Errorf("offset %d: frame #%d announces %d bytes (> 1024): not a frame; bytes there: %q", off, frames, l, h3clip(wire[off:], 40))
		}
		if len(wire)-off < 2+l+16 {
			return out, frames, fmt.Errorf("offset %d: frame #%d truncated (%d of %d bytes)", off, frames, len(wire)-off, 2+l+16)
		}
		var mac [16]byte
		copy(mac[:], wire[off+2+l:])
		var nonce [8]byte
		binary.LittleEndian.PutUint64(nonce[:], p.counter)
		plain, err := chacha20poly1305.DecryptAndVerify(p.key[:], nonce[:], wire[off+2:off+2+l], mac, wire[off:off+2])
		if err != nil {
			// which counter was it sealed with? (diagnosis only)
			diag := "no counter in 0..63 opens it"
			for c := uint64(0); c < 64; c++ {
				binary.LittleEndian.PutUint64(nonce[:], c)
				if _, e := chacha20poly1305.DecryptAndVerify(p.key[:], nonce[:], wire[off+2:off+2+l], mac, wire[off:off+2]); e == nil {
					diag = fmt.Sprintf("it was sealed with counter %d", c)
					break
				}
			}
			return out, frames, fmt.Errorf("offset %d: frame #%d does not authenticate with counter %d (%s)", off, frames, p.counter, diag)
		}
		p.counter++
		frames++
		out = append(out, plain...)
		off += 2 + l + 16
	}
	return out, frames, nil
}

func h3clip(b []byte, n int) []byte {
	if len(b) > n {
		return b[:n]
	}
	return b
}

// ---------------------------------------------------------------------------
// a context as the transport makes it, and a connection that has completed
// pair-verify (the session has a cryptographer and it is active)
// ---------------------------------------------------------------------------

func h3Context() Context {
	storage, err := util.NewTempFileStorage()
	if err != nil {
		panic(err)
	}
	database := db.NewDatabaseWithStorage(storage)
	device, err := NewSecuredDevice("hunt3", "00102003", database)
	if err != nil {
		panic(err)
	}
	return NewContextForSecuredDevice(device)
}

// h3Verify does what the pair-verify end point does on its last step for the
// connection which is currently stored for the addresses of raw: it installs the
// secure session; the first Decrypter() call (the next read) activates it.
func h3Verify(ctx Context, raw net.Conn, shared [32]byte) {
	cr, err := crypto.NewSecureSessionFromSharedKey(shared)
	if err != nil {
		panic(err)
	}
	s := ctx.GetSessionForConnection(raw)
	s.SetCryptographer(cr)
	s.Decrypter() // what the next Read of the connection does
}

func h3Key(b byte) [32]byte {
	var k [32]byte
	for i := range k {
		k[i] = b + byte(i)
	}
	return k
}

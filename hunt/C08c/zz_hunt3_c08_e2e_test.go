package hc

import (
	"fmt"
	"github.com/brutella/hc/accessory"
	"io"
	"net"
	"os"
	"strconv"
	"strings"
	"sync"
	"sync/atomic"
	"testing"
	"time"
)

func h3Rounds(def int) int {
	if s := os.Getenv("H3_ROUNDS"); s != "" {
		if n, err := strconv.Atoi(s); err == nil {
			return n
		}
	}
	return def
}

// PROBE (passes): responses and events of several application goroutines on one
// connection; the reference controller opens every frame in the order of arrival.
func TestHunt3C08_E2E_ProbeEventsAndResponses(t *testing.T) {
	rig := newH3RigN(t, 3)
	defer rig.stop()
	cl := rig.connectVerified()
	defer cl.conn.Close()
	on := rig.sw.Switch.On

	// four application goroutines, each with a switch of its own
	var stop int32
	var wg sync.WaitGroup
	for _, sw := range append(rig.more, rig.sw) {
		if err := cl.subscribe(sw.Accessory.ID, sw.Switch.On.ID); err != nil {
			t.Fatal(err)
		}
		wg.Add(1)
		go func(on interface{ SetValue(bool) }) {
			defer wg.Done()
			for i := 0; atomic.LoadInt32(&stop) == 0; i++ {
				on.SetValue(i%2 == 0)
			}
		}(sw.Switch.On)
	}
	// requests, not awaited
	wg.Add(1)
	go func() {
		defer wg.Done()
		for i := 0; i < 300 && atomic.LoadInt32(&stop) == 0; i++ {
			if i%10 == 0 {
				cl.send([]byte("GET /accessories HTTP/1.1\r\nHost: h3\r\n\r\n"))
			} else {
				cl.send([]byte(fmt.Sprintf("GET /characteristics?id=%d.%d HTTP/1.1\r\nHost: h3\r\n\r\n", rig.sw.Accessory.ID, on.ID)))
			}
			time.Sleep(time.Millisecond)
		}
	}()

	deadline := time.Now().Add(1500 * time.Millisecond)
	frames := 0
	cl.conn.SetReadDeadline(deadline.Add(time.Second))
	for time.Now().Before(deadline) {
		if _, err := cl.readFrame(); err != nil {
			t.Errorf("after %d frames: %v", frames, err)
			break
		}
		frames++
	}
	atomic.StoreInt32(&stop, 1)
	go io.Copy(io.Discard, cl.conn)
	wg.Wait()
	t.Logf("%d frames opened", frames)
}

// VIOLATION 1, unforced, over TCP with the whole transport - clause "the peer can
// decrypt every frame in the order it arrives" (about 4-5 % of the connections
// here, with one application goroutine: H3_WRITERS=1).
//
// The controller sends a request with "Connection: close" (it still reads) while
// the application changes values the controller has subscribed to. The http
// server answers and closes the hap connection: Connection.Close removes the
// session from the context, then closes the socket. A notification whose
// Connection.Write looks the encrypter up in between finds no session and is
// sent in plain text. The controller reads until EOF and must be able to open
// everything it receives.
//
// H3_MODE=halfclose is the probe that found nothing: when the peer half-closes,
// the read path closes the socket before the session is removed.
func TestHunt3C08_E2E_PlainTextEventAtServerClose(t *testing.T) {
	rig := newH3RigN(t, 7)
	defer rig.stop()
	on := rig.sw.Switch.On

	// eight application goroutines, each with a switch of its own
	var stop int32
	var wg sync.WaitGroup
	writers := append([]*accessory.Switch{rig.sw}, rig.more...)
	if n, err := strconv.Atoi(os.Getenv("H3_WRITERS")); err == nil && n >= 1 && n <= len(writers) {
		writers = writers[:n]
	}
	for _, sw := range writers {
		wg.Add(1)
		go func(on interface{ SetValue(bool) }) {
			defer wg.Done()
			for i := 0; atomic.LoadInt32(&stop) == 0; i++ {
				on.SetValue(i%2 == 0)
			}
		}(sw.Switch.On)
	}
	defer func() { atomic.StoreInt32(&stop, 1); wg.Wait() }()

	rounds := h3Rounds(300)
	bad, eofs, others := 0, 0, 0
	var first error
	for r := 0; r < rounds; r++ {
		cl := rig.connectVerified()
		if err := cl.subscribe(rig.sw.Accessory.ID, on.ID); err != nil {
			t.Fatal(err)
		}
		for _, m := range rig.more {
			if err := cl.subscribe(m.Accessory.ID, m.Switch.On.ID); err != nil {
				t.Fatal(err)
			}
		}
		// a few events arrive
		cl.conn.SetReadDeadline(time.Now().Add(3 * time.Second))
		for i := 0; i < 3; i++ {
			if _, err := cl.readFrame(); err != nil {
				t.Fatalf("round %d: before the half-close: %v", r, err)
			}
		}
		if os.Getenv("H3_MODE") == "halfclose" {
			// the server closes the socket in its read path before it removes the session: nothing to see
			cl.conn.CloseWrite()
		} else {
			cl.send([]byte(fmt.Sprintf("GET /characteristics?id=%d.%d HTTP/1.1\r\nHost: h3\r\nConnection: close\r\n\r\n", rig.sw.Accessory.ID, on.ID)))
		}
		for {
			_, err := cl.readFrame()
			if err == io.EOF {
				eofs++
				break
			}
			if err != nil && (strings.Contains(err.Error(), "reset") || strings.Contains(err.Error(), "truncated")) {
				// the server closed with unread data: not what is shown here
				others++
				break
			}
			if err != nil {
				bad++
				if first == nil {
					first = fmt.Errorf("round %d: %v", r, err)
				}
				break
			}
		}
		cl.conn.Close()
	}
	t.Logf("%d of %d connections closed by the server received something they could not open (%d clean EOF, %d reset)", bad, rounds, eofs, others)
	if bad > 0 {
		t.Errorf("first: %v", first)
	}
}

// VIOLATION 2 over TCP with the whole transport, deterministic - clauses "No frame
// counter is reused or emitted out of order" / "the peer can decrypt every frame".
//
// History (the one of repair 3a64b84): a controller sends a write, the
// application's OnValueRemoteUpdate callback takes a while; meanwhile the
// controller resets the connection, connects again from the same port and
// pair-verifies. The old handler then finishes and writes its response through
// the old hap connection, which looks "its" session up by address and finds the
// session of the new connection: the response is sealed with frame counter 0
// of the new connection (and goes to the dead socket). The first response on
// the new connection is sealed with counter 1; the controller cannot open it.
func TestHunt3C08_E2E_ReconnectSamePort(t *testing.T) {
	rig := newH3Rig(t)
	defer rig.stop()
	on := rig.sw.Switch.On
	entered := make(chan struct{}, 1)
	release := make(chan struct{})
	on.OnValueRemoteUpdate(func(bool) {
		entered <- struct{}{}
		<-release // a slow application callback
	})

	port := 0
	var cl *h3Client
	for i := 0; i < 20; i++ {
		var err error
		cl, err = rig.dialFrom(0)
		if err != nil {
			t.Fatal(err)
		}
		if err = cl.verify(); err == nil {
			break
		}
		cl.conn.SetLinger(0)
		cl.conn.Close()
		if err != errH3M4 {
			t.Fatal(err)
		}
		cl = nil
	}
	port = cl.conn.LocalAddr().(*net.TCPAddr).Port

	body := fmt.Sprintf(`{"characteristics":[{"aid":%d,"iid":%d,"value":true}]}`, rig.sw.Accessory.ID, on.ID)
	cl.send([]byte(fmt.Sprintf("PUT /characteristics HTTP/1.1\r\nHost: h3\r\nContent-Type: application/hap+json\r\nContent-Length: %d\r\n\r\n%s", len(body), body)))
	<-entered

	// reset, and connect again from the same port
	cl.conn.SetLinger(0)
	cl.conn.Close()
	var cl2 *h3Client
	for i := 0; i < 50; i++ {
		c, err := rig.dialFrom(port)
		if err != nil {
			time.Sleep(20 * time.Millisecond)
			continue
		}
		if err = c.verify(); err == nil {
			cl2 = c
			break
		}
		c.conn.SetLinger(0)
		c.conn.Close()
		if err != errH3M4 {
			t.Fatal(err)
		}
	}
	if cl2 == nil {
		t.Skip("could not connect again from the same port")
	}
	defer cl2.conn.Close()

	// the old handler finishes now
	close(release)
	time.Sleep(100 * time.Millisecond)

	resp, err := cl2.request(fmt.Sprintf("GET /characteristics?id=%d.%d HTTP/1.1\r\nHost: h3\r\n\r\n", rig.sw.Accessory.ID, on.ID))
	if err != nil {
		t.Fatalf("the new connection cannot open the first response: %v (%q)", err, resp)
	}
}

// VIOLATION 1 at Stop() of the transport: the connections are closed (session
// removed, then socket closed) while the application still changes values.
func TestHunt3C08_E2E_PlainTextEventAtStop(t *testing.T) {
	rounds := h3Rounds(150)
	bad := 0
	var first error
	for r := 0; r < rounds; r++ {
		func() {
			rig := newH3RigN(t, 3)
			defer rig.stop()
			var stop int32
			var wg sync.WaitGroup
			defer func() { atomic.StoreInt32(&stop, 1); wg.Wait() }()
			cl := rig.connectVerified()
			defer cl.conn.Close()
			for _, sw := range append(rig.more, rig.sw) {
				if err := cl.subscribe(sw.Accessory.ID, sw.Switch.On.ID); err != nil {
					t.Fatal(err)
				}
				wg.Add(1)
				go func(on interface{ SetValue(bool) }) {
					defer wg.Done()
					for i := 0; atomic.LoadInt32(&stop) == 0; i++ {
						on.SetValue(i%2 == 0)
					}
				}(sw.Switch.On)
			}
			cl.conn.SetReadDeadline(time.Now().Add(3 * time.Second))
			for i := 0; i < 3; i++ {
				if _, err := cl.readFrame(); err != nil {
					t.Fatalf("round %d: before Stop: %v", r, err)
				}
			}
			go rig.stop()
			for {
				_, err := cl.readFrame()
				if err == io.EOF {
					return
				}
				if err != nil && (strings.Contains(err.Error(), "reset") || strings.Contains(err.Error(), "truncated")) {
					return
				}
				if err != nil {
					bad++
					if first == nil {
						first = fmt.Errorf("round %d: %v", r, err)
					}
					return
				}
			}
		}()
	}
	t.Logf("%d of %d stopped transports sent something the controller could not open", bad, rounds)
	if bad > 0 {
		t.Errorf("first: %v", first)
	}
}

package hc

import (
	"bufio"
	"bytes"
	"encoding/binary"
	"fmt"
	"io"
	"io/ioutil"
	"net"
	"net/http"
	"os"
	"syscall"
	"testing"
	"time"

	"github.com/brutella/hc/accessory"
	"github.com/brutella/hc/crypto"
	"github.com/brutella/hc/crypto/chacha20poly1305"
	"github.com/brutella/hc/crypto/curve25519"
	"github.com/brutella/hc/crypto/hkdf"
	"github.com/brutella/hc/db"
	"github.com/brutella/hc/hap"
	"github.com/brutella/hc/util"
)

// ---- a started transport with one switch and one stored controller ----

type h3Rig struct {
	t       *testing.T
	tr      *ipTransport
	sw      *accessory.Switch
	more    []*accessory.Switch
	addr    string
	ctrl    hap.Device
	dir     string
	stopped bool
}

func h3FreePort() string {
	ln, err := net.Listen("tcp", "127.0.0.1:0")
	if err != nil {
		panic(err)
	}
	defer ln.Close()
	return ln.Addr().String()
}

func newH3Rig(t *testing.T) *h3Rig { return newH3RigN(t, 0) }

func newH3RigN(t *testing.T, extra int) *h3Rig {
	dir, err := ioutil.TempDir(os.Getenv("TMPDIR"), "h3rig")
	if err != nil {
		t.Fatal(err)
	}
	sw := accessory.NewSwitch(accessory.Info{Name: "H3Switch"})
	addr := h3FreePort()
	_, port, _ := net.SplitHostPort(addr)
	var more []*accessory.Switch
	var moreAcc []*accessory.Accessory
	for i := 0; i < extra; i++ {
		m := accessory.NewSwitch(accessory.Info{Name: fmt.Sprintf("H3Switch%d", i)})
		more = append(more, m)
		moreAcc = append(moreAcc, m.Accessory)
	}
	tr, err := NewIPTransport(Config{StoragePath: dir, Port: port}, sw.Accessory, moreAcc...)
	if err != nil {
		t.Skip("transport cannot be created here:", err)
	}

	cdb, _ := db.NewTempDatabase()
	ctrl, err := hap.NewDevice("h3-controller", cdb)
	if err != nil {
		t.Fatal(err)
	}
	// the controller is paired: its long term public key is stored
	if err := tr.database.SaveEntity(db.NewEntity(ctrl.Name(), ctrl.PublicKey(), nil)); err != nil {
		t.Fatal(err)
	}

	go tr.Start()
	for i := 0; ; i++ {
		c, err := net.Dial("tcp", addr)
		if err == nil {
			c.Close()
			break
		}
		if i > 200 {
			t.Fatal("server does not listen")
		}
		time.Sleep(10 * time.Millisecond)
	}
	time.Sleep(20 * time.Millisecond)
	return &h3Rig{t: t, tr: tr, sw: sw, more: more, addr: addr, ctrl: ctrl, dir: dir}
}

func (r *h3Rig) stop() {
	if !r.stopped {
		r.stopped = true
		select {
		case <-r.tr.Stop():
		case <-time.After(3 * time.Second):
		}
	}
	os.RemoveAll(r.dir)
}

// ---- reference controller ----

type h3Client struct {
	rig  *h3Rig
	conn *net.TCPConn
	br   *bufio.Reader

	shared           [32]byte
	readKey, sendKey [32]byte
	readCtr, sendCtr uint64
}

func h3tlv(items ...interface{}) []byte {
	var b bytes.Buffer
	for i := 0; i < len(items); i += 2 {
		tag := byte(items[i].(int))
		val := items[i+1].([]byte)
		for first := true; first || len(val) > 0; first = false {
			n := len(val)
			if n > 255 {
				n = 255
			}
			b.WriteByte(tag)
			b.WriteByte(byte(n))
			b.Write(val[:n])
			val = val[n:]
		}
	}
	return b.Bytes()
}

func h3untlv(b []byte) map[byte][]byte {
	m := map[byte][]byte{}
	for len(b) >= 2 {
		t, l := b[0], int(b[1])
		if len(b) < 2+l {
			break
		}
		m[t] = append(m[t], b[2:2+l]...)
		b = b[2+l:]
	}
	return m
}

func (r *h3Rig) dial() (*h3Client, error) { return r.dialFrom(0) }

// dialFrom connects from a given local port (0: any)
func (r *h3Rig) dialFrom(port int) (*h3Client, error) {
	d := net.Dialer{LocalAddr: &net.TCPAddr{IP: net.IPv4(127, 0, 0, 1), Port: port}, Timeout: time.Second,
		Control: func(network, address string, c syscall.RawConn) error {
			return c.Control(func(fd uintptr) { syscall.SetsockoptInt(int(fd), syscall.SOL_SOCKET, syscall.SO_REUSEADDR, 1) })
		}}
	c, err := d.Dial("tcp", r.addr)
	if err != nil {
		return nil, err
	}
	cl := &h3Client{rig: r, conn: c.(*net.TCPConn)}
	cl.br = bufio.NewReaderSize(cl.conn, 1<<16)
	return cl, nil
}

func (cl *h3Client) post(path string, body []byte) (*http.Response, []byte, error) {
	req := fmt.Sprintf("POST %s HTTP/1.1\r\nHost: h3\r\nContent-Type: application/pairing+tlv8\r\nContent-Length: %d\r\n\r\n", path, len(body))
	if _, err := cl.conn.Write(append([]byte(req), body...)); err != nil {
		return nil, nil, err
	}
	resp, err := http.ReadResponse(cl.br, nil)
	if err != nil {
		return nil, nil, err
	}
	b, err := ioutil.ReadAll(resp.Body)
	return resp, b, err
}

// verify runs pair-verify. It returns errM4 when the M4 response did not come
// in plain text (the known hand-over race) so that the caller can try again.
var errH3M4 = fmt.Errorf("M4 not in plain text (known)")

func (cl *h3Client) verify() error {
	priv := curve25519.GeneratePrivateKey()
	pub := curve25519.PublicKey(priv)
	_, b, err := cl.post("/pair-verify", h3tlv(0x06, []byte{1}, 0x03, pub[:]))
	if err != nil {
		return err
	}
	m2 := h3untlv(b)
	if len(m2[0x03]) != 32 {
		return fmt.Errorf("M2: %x", b)
	}
	var other [32]byte
	copy(other[:], m2[0x03])
	cl.shared = curve25519.SharedSecret(priv, other)
	ek, _ := hkdf.Sha512(cl.shared[:], []byte("Pair-Verify-Encrypt-Salt"), []byte("Pair-Verify-Encrypt-Info"))

	var material []byte
	material = append(material, pub[:]...)
	material = append(material, cl.rig.ctrl.Name()...)
	material = append(material, other[:]...)
	sig, err := crypto.ED25519Signature(cl.rig.ctrl.PrivateKey(), material)
	if err != nil {
		return err
	}
	sub := h3tlv(0x01, []byte(cl.rig.ctrl.Name()), 0x0A, sig)
	enc, mac, _ := chacha20poly1305.EncryptAndSeal(ek[:], []byte("PV-Msg03"), sub, nil)

	body := h3tlv(0x06, []byte{3}, 0x05, append(enc, mac[:]...))
	req := fmt.Sprintf("POST /pair-verify HTTP/1.1\r\nHost: h3\r\nContent-Type: application/pairing+tlv8\r\nContent-Length: %d\r\n\r\n", len(body))
	if _, err := cl.conn.Write(append([]byte(req), body...)); err != nil {
		return err
	}
	cl.conn.SetReadDeadline(time.Now().Add(3 * time.Second))
	head, err := cl.br.Peek(4)
	if err != nil {
		return err
	}
	if string(head) != "HTTP" {
		return errH3M4
	}
	resp, err := http.ReadResponse(cl.br, nil)
	if err != nil {
		return err
	}
	b, _ = ioutil.ReadAll(resp.Body)
	cl.conn.SetReadDeadline(time.Time{})
	m4 := h3untlv(b)
	if resp.StatusCode != 200 || len(m4[0x07]) != 0 {
		return fmt.Errorf("M4: %d %x", resp.StatusCode, b)
	}
	cl.readKey, _ = hkdf.Sha512(cl.shared[:], []byte("Control-Salt"), []byte("Control-Read-Encryption-Key"))
	cl.sendKey, _ = hkdf.Sha512(cl.shared[:], []byte("Control-Salt"), []byte("Control-Write-Encryption-Key"))
	return nil
}

// connectVerified dials and verifies, trying again on the known M4 race
func (r *h3Rig) connectVerified() *h3Client {
	for i := 0; i < 20; i++ {
		cl, err := r.dial()
		if err != nil {
			r.t.Fatal(err)
		}
		err = cl.verify()
		if err == nil {
			return cl
		}
		cl.conn.Close()
		if err != errH3M4 {
			r.t.Fatal("pair-verify: ", err)
		}
	}
	r.t.Fatal("pair-verify failed 20 times")
	return nil
}

// send seals and sends one message (frames of at most 1024 bytes)
func (cl *h3Client) send(msg []byte) error {
	var out bytes.Buffer
	for len(msg) > 0 {
		n := len(msg)
		if n > 1024 {
			n = 1024
		}
		var nonce [8]byte
		binary.LittleEndian.PutUint64(nonce[:], cl.sendCtr)
		cl.sendCtr++
		l := []byte{byte(n), byte(n >> 8)}
		enc, mac, err := chacha20poly1305.EncryptAndSeal(cl.sendKey[:], nonce[:], msg[:n], l)
		if err != nil {
			return err
		}
		out.Write(l)
		out.Write(enc)
		out.Write(mac[:])
		msg = msg[n:]
	}
	_, err := cl.conn.Write(out.Bytes())
	return err
}

// readFrame reads and opens the next frame; io.EOF only at a frame boundary.
func (cl *h3Client) readFrame() ([]byte, error) {
	var hdr [2]byte
	if n, err := io.ReadFull(cl.br, hdr[:]); err != nil {
		if n == 0 && err == io.EOF {
			return nil, io.EOF
		}
		return nil, fmt.Errorf("truncated header: %v", err)
	}
	l := int(binary.LittleEndian.Uint16(hdr[:]))
	if l > 1024 {
		rest, _ := cl.br.Peek(cl.br.Buffered())
		if len(rest) > 60 {
			rest = rest[:60]
		}
		return nil, fmt.Errorf("frame #%d announces %d bytes: not a frame; stream there: %q", cl.readCtr, l, string(hdr[:])+string(rest))
	}
	buf := make([]byte, l+16)
	if _, err := io.ReadFull(cl.br, buf); err != nil {
		return nil, fmt.Errorf("frame #%d truncated: %v", cl.readCtr, err)
	}
	var mac [16]byte
	copy(mac[:], buf[l:])
	var nonce [8]byte
	binary.LittleEndian.PutUint64(nonce[:], cl.readCtr)
	plain, err := chacha20poly1305.DecryptAndVerify(cl.readKey[:], nonce[:], buf[:l], mac, hdr[:])
	if err != nil {
		diag := "no counter in 0..63 opens it"
		for c := uint64(0); c < 64; c++ {
			binary.LittleEndian.PutUint64(nonce[:], c)
			if _, e := chacha20poly1305.DecryptAndVerify(cl.readKey[:], nonce[:], buf[:l], mac, hdr[:]); e == nil {
				diag = fmt.Sprintf("it was sealed with counter %d", c)
				break
			}
		}
		return nil, fmt.Errorf("frame #%d does not authenticate with counter %d (%s)", cl.readCtr, cl.readCtr, diag)
	}
	cl.readCtr++
	return plain, nil
}

// request sends a request and reads frames until a complete HTTP response was seen.
// EVENT messages that arrive meanwhile are counted.
func (cl *h3Client) request(req string) (string, error) {
	if err := cl.send([]byte(req)); err != nil {
		return "", err
	}
	var acc []byte
	cl.conn.SetReadDeadline(time.Now().Add(3 * time.Second))
	defer cl.conn.SetReadDeadline(time.Time{})
	for {
		p, err := cl.readFrame()
		if err != nil {
			return string(acc), err
		}
		acc = append(acc, p...)
		if i := bytes.Index(acc, []byte("HTTP/1.1 ")); i >= 0 {
			r, err := http.ReadResponse(bufio.NewReader(bytes.NewReader(acc[i:])), nil)
			if err == nil {
				if _, err := ioutil.ReadAll(r.Body); err == nil {
					return string(acc), nil
				}
			}
		}
	}
}

func (cl *h3Client) subscribe(aid, iid uint64) error {
	body := fmt.Sprintf(`{"characteristics":[{"aid":%d,"iid":%d,"ev":true}]}`, aid, iid)
	resp, err := cl.request(fmt.Sprintf("PUT /characteristics HTTP/1.1\r\nHost: h3\r\nContent-Type: application/hap+json\r\nContent-Length: %d\r\n\r\n%s", len(body), body))
	if err != nil {
		return fmt.Errorf("subscribe: %v (%q)", err, resp)
	}
	return nil
}

var _ = util.RandomHexString

package hap

import (
	"bytes"
	"encoding/binary"
	"fmt"
	"io"
	"io/ioutil"
	"net"
	"testing"
	"time"

	"github.com/brutella/hc/crypto"
	"github.com/brutella/hc/crypto/chacha20poly1305"
	"github.com/brutella/hc/crypto/hkdf"
)

// ---- scripted net.Conn -------------------------------------------------

type zzTimeoutErr struct{}

func (zzTimeoutErr) Error() string   { return "i/o timeout (scripted)" }
func (zzTimeoutErr) Timeout() bool   { return true }
func (zzTimeoutErr) Temporary() bool { return true }

type zzAddr struct{}

func (zzAddr) Network() string { return "tcp" }
func (zzAddr) String() string  { return "1.2.3.4:5" }

// zzItem is one event of the script: a network segment or an idle period (read time-out)
type zzItem struct {
	data    []byte
	timeout bool
}

type zzConn struct {
	script  []zzItem
	cur     []byte
	closed  chan struct{}
	isClose bool
	// what to do when script is exhausted: block (peer connected, idle, no deadline)
	// or report time-outs for ever (peer connected, idle, deadline set)
	blockAtEnd bool
}

func newZZConn(script []zzItem, blockAtEnd bool) *zzConn {
	return &zzConn{script: script, closed: make(chan struct{}), blockAtEnd: blockAtEnd}
}

func (c *zzConn) Read(p []byte) (int, error) {
	if c.isClose {
		return 0, fmt.Errorf("use of closed connection")
	}
	if len(c.cur) == 0 {
		if len(c.script) == 0 {
			if c.blockAtEnd {
				<-c.closed
				return 0, fmt.Errorf("use of closed connection")
			}
			return 0, zzTimeoutErr{}
		}
		it := c.script[0]
		c.script = c.script[1:]
		if it.timeout {
			return 0, zzTimeoutErr{}
		}
		c.cur = it.data
	}
	n := copy(p, c.cur)
	c.cur = c.cur[n:]
	return n, nil
}
func (c *zzConn) Write(p []byte) (int, error) { return len(p), nil }
func (c *zzConn) Close() error {
	if !c.isClose {
		c.isClose = true
		close(c.closed)
	}
	return nil
}
func (c *zzConn) LocalAddr() net.Addr                { return zzAddr{} }
func (c *zzConn) RemoteAddr() net.Addr               { return zzAddr{} }
func (c *zzConn) SetDeadline(t time.Time) error      { return nil }
func (c *zzConn) SetReadDeadline(t time.Time) error  { return nil }
func (c *zzConn) SetWriteDeadline(t time.Time) error { return nil }

// ---- helpers -----------------------------------------------------------

func zzKey() [32]byte {
	var k [32]byte
	for i := range k {
		k[i] = byte(i + 1)
	}
	return k
}

// zzPeer is the controller side: encrypts messages as the peer would
type zzPeer struct{ c crypto.Cryptographer }

func newZZPeer(t *testing.T) *zzPeer {
	c, err := crypto.NewSecureClientSessionFromSharedKey(zzKey())
	if err != nil {
		t.Fatal(err)
	}
	return &zzPeer{c}
}

func (p *zzPeer) enc(t *testing.T, msg []byte) []byte {
	r, err := p.c.Encrypt(bytes.NewReader(msg))
	if err != nil {
		t.Fatal(err)
	}
	b, _ := ioutil.ReadAll(r)
	return b
}

func zzMsg(n int, seed byte) []byte {
	b := make([]byte, n)
	for i := range b {
		b[i] = byte(i*7) + seed
	}
	return b
}

func newZZHapConn(t *testing.T, nc net.Conn) *Connection {
	ctx := NewContextForSecuredDevice(nil)
	con := NewConnection(nc, ctx)
	srv, err := crypto.NewSecureSessionFromSharedKey(zzKey())
	if err != nil {
		t.Fatal(err)
	}
	ctx.GetSessionForConnection(nc).SetCryptographer(srv)
	return con
}

// zzReadAll reads until `want` bytes have arrived; time-outs are tolerated (the caller just retries,
// as net/http's server loop / the keep alive do); any other error or (0,nil) storms are reported.
func zzReadAll(con *Connection, want int, bufSizes []int, maxCalls int) ([]byte, error) {
	var got []byte
	for i := 0; len(got) < want; i++ {
		if i >= maxCalls {
			return got, fmt.Errorf("gave up after %d calls with %d/%d bytes", i, len(got), want)
		}
		sz := bufSizes[i%len(bufSizes)]
		b := make([]byte, sz)
		n, err := con.Read(b)
		got = append(got, b[:n]...)
		if err != nil {
			if ne, ok := err.(net.Error); ok && ne.Timeout() {
				continue
			}
			return got, fmt.Errorf("call %d: Read -> (%d, %v) after %d/%d bytes", i, n, err, len(got), want)
		}
	}
	return got, nil
}

func zzSplit(stream []byte, cuts ...int) []zzItem {
	var items []zzItem
	prev := 0
	for _, c := range cuts {
		if c <= prev || c >= len(stream) {
			continue
		}
		items = append(items, zzItem{data: stream[prev:c]})
		prev = c
	}
	items = append(items, zzItem{data: stream[prev:]})
	return items
}

// ---- P1: baseline, no time-outs: lengths x segmentations x buffer sizes ---------------

func TestZZ_P1_Baseline(t *testing.T) {
	lengths := [][]int{
		{1}, {1, 1, 1}, {10, 0, 10}, {1023, 5}, {1024, 5}, {1025, 5}, {2048, 1}, {2047, 2049, 3},
		{5, 1024, 1024, 7}, {4096, 100}, {3000, 3000, 1}, {16, 16, 16, 16, 16, 16},
	}
	bufs := [][]int{{1}, {2}, {3, 1}, {16}, {17}, {1023}, {1024}, {1025}, {4096}, {8192}, {1, 4096}, {0, 5}}
	for _, ls := range lengths {
		peer := newZZPeer(t)
		var stream, plain []byte
		for i, l := range ls {
			m := zzMsg(l, byte(i))
			plain = append(plain, m...)
			stream = append(stream, peer.enc(t, m)...)
		}
		segs := [][]int{{}, {1}, {2}, {3}, {len(stream) / 2}, {len(stream) - 1}, {17, 18, 19}, {1042}, {1041, 1043}}
		// every 1 byte
		var each []int
		for i := 1; i < len(stream); i += 1 {
			each = append(each, i)
		}
		segs = append(segs, each)
		var e7 []int
		for i := 7; i < len(stream); i += 7 {
			e7 = append(e7, i)
		}
		segs = append(segs, e7)
		for _, sg := range segs {
			for _, bs := range bufs {
				nc := newZZConn(zzSplit(stream, sg...), false)
				con := newZZHapConn(t, nc)
				got, err := zzReadAll(con, len(plain), bs, 4*len(plain)+100)
				if err != nil {
					t.Errorf("lens=%v cuts=%v(n=%d) bufs=%v: %v", ls, sg[:zzmin(len(sg), 4)], len(sg), bs, err)
					continue
				}
				if !bytes.Equal(got, plain) {
					t.Errorf("lens=%v cuts=%v bufs=%v: bytes differ", ls, sg[:zzmin(len(sg), 4)], bs)
				}
			}
		}
	}
}

func zzmin(a, b int) int {
	if a < b {
		return a
	}
	return b
}

// ---- P2: a frame split into two segments with an idle period (read time-out) in between ----

func TestZZ_P2_TimeoutInsideFrame(t *testing.T) {
	peer0 := newZZPeer(t)
	frameLen := len(peer0.enc(t, zzMsg(10, 0)))
	bad := 0
	for cut := 1; cut < frameLen; cut++ {
		peer := newZZPeer(t)
		m1, m2 := zzMsg(10, 1), zzMsg(20, 2)
		stream := append(peer.enc(t, m1), peer.enc(t, m2)...)
		plain := append(append([]byte{}, m1...), m2...)
		script := []zzItem{{data: stream[:cut]}, {timeout: true}, {data: stream[cut:]}}
		nc := newZZConn(script, false)
		con := newZZHapConn(t, nc)
		got, err := zzReadAll(con, len(plain), []int{4096}, 50)
		if err != nil || !bytes.Equal(got, plain) {
			bad++
			if cut == 5 {
				// replay and print the individual results
				nc2 := newZZConn([]zzItem{{data: stream[:cut]}, {timeout: true}, {data: stream[cut:]}}, false)
				con2 := newZZHapConn(t, nc2)
				for i := 0; i < 4; i++ {
					b := make([]byte, 4096)
					n, e := con2.Read(b)
					t.Logf("cut=5 replay: Read #%d -> (%d, %v)", i, n, e)
				}
			}
			if bad <= 6 {
				t.Errorf("frame of %d bytes cut at offset %d, time-out between the halves: err=%v got=%d/%d bytes equal=%v closedByLib=%v",
					frameLen, cut, err, len(got), len(plain), bytes.Equal(got, plain), nc.isClose)
			}
		}
	}
	if bad > 0 {
		t.Errorf("%d of %d cut offsets violate the property", bad, frameLen-1)
	}
}

// ---- P2b: same, but the peer keeps sending: the desynchronised parser ends in a decryption error ----

func TestZZ_P2b_TimeoutInsideFrameThenTraffic(t *testing.T) {
	peer := newZZPeer(t)
	var stream, plain []byte
	for i := 0; i < 80; i++ {
		m := zzMsg(1000, byte(i))
		plain = append(plain, m...)
		stream = append(stream, peer.enc(t, m)...)
	}
	cut := 500 // in the middle of the first frame
	nc := newZZConn([]zzItem{{data: stream[:cut]}, {timeout: true}, {data: stream[cut:]}}, false)
	con := newZZHapConn(t, nc)
	got, err := zzReadAll(con, len(plain), []int{4096}, 1000)
	if err != nil || !bytes.Equal(got, plain) {
		t.Errorf("80 well-formed frames, first one delivered in two segments with a read time-out in between: err=%v, %d/%d bytes, connection closed by library=%v",
			err, len(got), len(plain), nc.isClose)
	}
}

// ---- P3: one message of exactly 1024 bytes, peer stays connected and idle (no deadline) -----

func TestZZ_P3_Exact1024ReturnsPromptly(t *testing.T) {
	for _, l := range []int{1023, 1024, 2048} {
		peer := newZZPeer(t)
		m := zzMsg(l, 3)
		nc := newZZConn([]zzItem{{data: peer.enc(t, m)}}, true)
		con := newZZHapConn(t, nc)
		type res struct {
			n   int
			err error
		}
		ch := make(chan res, 1)
		go func() {
			b := make([]byte, 8192)
			n, err := con.Read(b)
			ch <- res{n, err}
		}()
		select {
		case r := <-ch:
			if r.err != nil || r.n == 0 {
				t.Errorf("len %d: Read -> (%d,%v)", l, r.n, r.err)
			}
		case <-time.After(500 * time.Millisecond):
			t.Errorf("len %d: all frames of the message have arrived, but Read still blocks after 500ms (waits for a further frame)", l)
			nc.Close()
		}
	}
}

// ---- P4: well-formed frame of length 0 ------------------------------------------------

// zzFrame builds one well-formed frame (controller -> accessory direction) with the given counter
func zzFrame(t *testing.T, counter uint64, plain []byte) []byte {
	k := zzKey()
	key, err := hkdf.Sha512(k[:], []byte("Control-Salt"), []byte("Control-Write-Encryption-Key"))
	if err != nil {
		t.Fatal(err)
	}
	var nonce [8]byte
	binary.LittleEndian.PutUint64(nonce[:], counter)
	l := make([]byte, 2)
	binary.LittleEndian.PutUint16(l, uint16(len(plain)))
	enc, mac, err := chacha20poly1305.EncryptAndSeal(key[:], nonce[:], plain, l)
	if err != nil {
		t.Fatal(err)
	}
	out := append([]byte{}, l...)
	out = append(out, enc...)
	return append(out, mac[:]...)
}

func TestZZ_P4_ZeroLengthFrame(t *testing.T) {
	// sanity: hand-made frames are accepted
	m0, m2 := zzMsg(5, 1), zzMsg(6, 2)
	stream := append(append(zzFrame(t, 0, m0), zzFrame(t, 1, nil)...), zzFrame(t, 2, m2)...)
	plain := append(append([]byte{}, m0...), m2...)
	// each frame its own segment
	nc := newZZConn([]zzItem{{data: stream[:23]}, {data: stream[23:41]}, {data: stream[41:]}}, false)
	con := newZZHapConn(t, nc)
	var got []byte
	for i := 0; i < 10 && len(got) < len(plain); i++ {
		b := make([]byte, 64)
		n, err := con.Read(b)
		got = append(got, b[:n]...)
		t.Logf("read %d -> (%d, %v)", i, n, err)
		if err != nil {
			t.Errorf("read %d: (%d, %v) while the peer is connected and sent a well-formed (authentic) zero-length frame", i, n, err)
			if err == io.EOF {
				continue // a caller would stop here; go on to show the stream is otherwise intact
			}
			break
		}
	}
	if !bytes.Equal(got, plain) {
		t.Errorf("bytes differ")
	}
}

// ---- P5: time-out exactly at frame boundaries (must be harmless) -------------------------

func TestZZ_P5_TimeoutAtBoundary(t *testing.T) {
	peer := newZZPeer(t)
	m1, m2, m3 := zzMsg(10, 1), zzMsg(1023, 2), zzMsg(1, 3)
	f1, f2, f3 := peer.enc(t, m1), peer.enc(t, m2), peer.enc(t, m3)
	plain := append(append(append([]byte{}, m1...), m2...), m3...)
	script := []zzItem{{timeout: true}, {data: f1}, {timeout: true}, {timeout: true}, {data: f2}, {timeout: true}, {data: f3}}
	for _, bs := range [][]int{{1}, {7}, {4096}} {
		nc := newZZConn(append([]zzItem{}, script...), false)
		con := newZZHapConn(t, nc)
		got, err := zzReadAll(con, len(plain), bs, 5000)
		if err != nil || !bytes.Equal(got, plain) {
			t.Errorf("bufs=%v err=%v equal=%v", bs, err, bytes.Equal(got, plain))
		}
	}
}

// ---- P6: results of individual reads: a read returns data as soon as a frame is complete ----

func TestZZ_P6_ReturnsPerFrame(t *testing.T) {
	peer := newZZPeer(t)
	m1, m2 := zzMsg(100, 1), zzMsg(50, 2)
	f1, f2 := peer.enc(t, m1), peer.enc(t, m2)
	// f1 and first half of f2 in one segment, then idle, then the rest
	seg1 := append(append([]byte{}, f1...), f2[:0]...)
	nc := newZZConn([]zzItem{{data: seg1}, {timeout: true}, {data: f2}}, false)
	con := newZZHapConn(t, nc)
	b := make([]byte, 4096)
	n, err := con.Read(b)
	if err != nil || !bytes.Equal(b[:n], m1) {
		t.Errorf("first read (%d,%v)", n, err)
	}
	n, err = con.Read(b)
	if ne, ok := err.(net.Error); !ok || !ne.Timeout() || n != 0 {
		t.Errorf("second read expected time-out, got (%d,%v)", n, err)
	}
	n, err = con.Read(b)
	if err != nil || !bytes.Equal(b[:n], m2) {
		t.Errorf("third read (%d,%v)", n, err)
	}
}

// ---- P7: peer closes after the last frame: data first, then EOF -----------------------------

type zzEOFConn struct{ *zzConn }

func TestZZ_P7_RealPipe(t *testing.T) {
	// real TCP loopback, real deadlines
	ln, err := net.Listen("tcp", "127.0.0.1:0")
	if err != nil {
		t.Skip(err)
	}
	defer ln.Close()
	peer := newZZPeer(t)
	msgs := [][]byte{zzMsg(10, 1), zzMsg(1025, 2), zzMsg(300, 3)}
	var plain []byte
	for _, m := range msgs {
		plain = append(plain, m...)
	}
	go func() {
		c, err := net.Dial("tcp", ln.Addr().String())
		if err != nil {
			return
		}
		for _, m := range msgs {
			f := peer.enc(t, m)
			// split each frame in two with a pause longer than the read deadline
			c.Write(f[:len(f)/2])
			time.Sleep(150 * time.Millisecond)
			c.Write(f[len(f)/2:])
			time.Sleep(20 * time.Millisecond)
		}
		time.Sleep(5 * time.Second)
		c.Close()
	}()
	sc, err := ln.Accept()
	if err != nil {
		t.Fatal(err)
	}
	defer sc.Close()
	con := newZZHapConn(t, sc)
	var got []byte
	deadline := time.Now().Add(2 * time.Second)
	for len(got) < len(plain) && time.Now().Before(deadline) {
		con.SetReadDeadline(time.Now().Add(50 * time.Millisecond))
		b := make([]byte, 4096)
		n, err := con.Read(b)
		got = append(got, b[:n]...)
		if err != nil {
			if ne, ok := err.(net.Error); ok && ne.Timeout() {
				continue
			}
			t.Fatalf("TCP loopback, frames split by a 150ms pause, 50ms read deadline: Read -> (%d, %v) after %d/%d bytes", n, err, len(got), len(plain))
		}
	}
	if !bytes.Equal(got, plain) {
		t.Fatalf("got %d/%d bytes, equal=%v", len(got), len(plain), bytes.Equal(got, plain))
	}
}

var _ = io.EOF

package pair_test

import (
	"crypto/ed25519"
	"testing"

	"github.com/brutella/hc/crypto/chacha20poly1305"
	"github.com/brutella/hc/crypto/hkdf"
	"github.com/brutella/hc/db"
	"github.com/brutella/hc/hap"
	"github.com/brutella/hc/hap/pair"
	"github.com/brutella/hc/util"
)

// BORDERLINE. Clause: "delivered exactly that name and key". After a right
// proof, the key-exchange message carries two separate Identifier items
// ("ab" ... "cd") with the public key between them. TLV8 joins fragments only
// when they are adjacent; the message therefore names "ab" (or is malformed).
// hc joins all items of a tag, checks the signature over "abcd" and stores a
// pairing for "abcd", a name no single item of the message delivered.
func TestHunt5SplitIdentifierStoredJoined(t *testing.T) {
	storage, _ := util.NewTempFileStorage()
	database := db.NewDatabaseWithStorage(storage)
	dev, _ := hap.NewSecuredDevice("AC:CE:55:00:00:03", "001-02-003", database)
	ctrl, err := pair.NewSetupServerController(dev, database)
	if err != nil {
		t.Fatal(err)
	}
	var S []byte
	for {
		out, err := ctrl.Handle(h5tlv(pair.TagPairingMethod, byte(0), pair.TagSequence, byte(1)))
		if err != nil {
			t.Fatal(err)
		}
		A, M1, s, err := h5srpClient("001-02-003", out.GetBytes(pair.TagSalt), out.GetBytes(pair.TagPublicKey))
		if err != nil {
			t.Fatal(err)
		}
		out, err = ctrl.Handle(h5tlv(pair.TagSequence, byte(3), pair.TagPublicKey, A, pair.TagProof, M1))
		if err == nil && out.GetByte(pair.TagErrCode) == 0 {
			S = s
			break
		}
		// known 1-in-128 padding flake of the SRP library: start again
		ctrl.Handle(h5tlv(pair.TagSequence, byte(1)))
	}
	pub, priv, _ := ed25519.GenerateKey(nil)
	h, _ := hkdf.Sha512(S, []byte("Pair-Setup-Controller-Sign-Salt"), []byte("Pair-Setup-Controller-Sign-Info"))
	mat := append(append(h[:], []byte("abcd")...), pub...)
	sub := h5tlv(pair.TagUsername, "ab", pair.TagPublicKey, []byte(pub), pair.TagSignature, ed25519.Sign(priv, mat), pair.TagUsername, "cd")
	enc, mac, _ := chacha20poly1305.EncryptAndSeal(h5encKey(S), []byte("PS-Msg05"), sub.BytesBuffer().Bytes(), nil)
	before := h5dbSet(t, database)
	out, err := ctrl.Handle(h5tlv(pair.TagSequence, byte(5), pair.TagEncryptedData, append(enc, mac[:]...)))
	after := h5dbSet(t, database)
	t.Logf("response err=%v code=%d", err, out.GetByte(pair.TagErrCode))
	if _, ok := after["abcd"]; ok {
		t.Errorf("a pairing for %q was stored; the message carried the identifier items %q and %q, not adjacent", "abcd", "ab", "cd")
	}
	_ = before
}

package pair_test

import (
	"bytes"
	"context"
	"crypto/ed25519"
	"crypto/sha512"
	"fmt"
	"github.com/brutella/hc/accessory"
	"github.com/brutella/hc/event"
	haphttp "github.com/brutella/hc/hap/http"
	"io/ioutil"
	"math/big"
	"math/rand"
	"net/http"
	"os"
	"sort"
	"strconv"
	"strings"
	"sync"
	"testing"

	"github.com/brutella/hc/crypto/chacha20poly1305"
	"github.com/brutella/hc/crypto/hkdf"
	"github.com/brutella/hc/db"
	"github.com/brutella/hc/hap"
	"github.com/brutella/hc/hap/pair"
	"github.com/brutella/hc/util"
	"github.com/tadglines/go-pkgs/crypto/srp"
)

// reference peer, written from the HAP text

type h5peer struct {
	send      func(in util.Container) (util.Container, error)
	redial    func()
	oldVerify util.Container
	oldS      []byte
	// what the peer learned in the current exchange
	salt, B []byte
	S       []byte // the peer's idea of the shared secret (right only if pin right)
	right   bool   // S was computed with the right pin from the current start response and sent with a right proof that was accepted
	oldM5   []byte // genuine M5 of an earlier exchange
}

func h5tlv(items ...interface{}) util.Container {
	c := util.NewTLV8Container()
	for i := 0; i < len(items); i += 2 {
		tag := uint8(items[i].(int))
		switch v := items[i+1].(type) {
		case byte:
			c.SetByte(tag, v)
		case []byte:
			c.SetBytes(tag, v)
		case string:
			c.SetString(tag, v)
		}
	}
	return c
}

func h5srpClient(pin string, salt, B []byte) (A, M1, S []byte, err error) {
	rp, _ := srp.NewSRP(pair.SRPGroup, sha512.New, pair.KeyDerivativeFuncRFC2945(sha512.New, []byte("Pair-Setup")))
	cs := rp.NewClientSession([]byte("Pair-Setup"), []byte(pin))
	S, err = cs.ComputeKey(salt, B)
	if err != nil {
		return
	}
	return cs.GetA(), cs.ComputeAuthenticator(), S, nil
}

func h5m5(S []byte, key []byte, name string, pub ed25519.PublicKey, priv ed25519.PrivateKey, extra func(c util.Container)) []byte {
	h, _ := hkdf.Sha512(S, []byte("Pair-Setup-Controller-Sign-Salt"), []byte("Pair-Setup-Controller-Sign-Info"))
	var mat []byte
	mat = append(mat, h[:]...)
	mat = append(mat, []byte(name)...)
	mat = append(mat, pub...)
	sig := ed25519.Sign(priv, mat)
	sub := util.NewTLV8Container()
	sub.SetString(pair.TagUsername, name)
	sub.SetBytes(pair.TagPublicKey, pub)
	sub.SetBytes(pair.TagSignature, sig)
	if extra != nil {
		extra(sub)
	}
	enc, mac, _ := chacha20poly1305.EncryptAndSeal(key, []byte("PS-Msg05"), sub.BytesBuffer().Bytes(), nil)
	return append(enc, mac[:]...)
}

func h5encKey(S []byte) []byte {
	k, _ := hkdf.Sha512(S, []byte("Pair-Setup-Encrypt-Salt"), []byte("Pair-Setup-Encrypt-Info"))
	return k[:]
}

func h5dbSet(t *testing.T, d db.Database) map[string]string {
	es, err := d.Entities()
	if err != nil {
		t.Fatalf("Entities: %v", err)
	}
	m := map[string]string{}
	for _, e := range es {
		m[e.Name] = fmt.Sprintf("%x|%x", e.PublicKey, e.PrivateKey)
	}
	return m
}

func h5eq(a, b map[string]string) bool {
	if len(a) != len(b) {
		return false
	}
	for k, v := range a {
		if w, ok := b[k]; !ok || w != v {
			return false
		}
	}
	return true
}

func h5dump(m map[string]string) string {
	var ks []string
	for k, v := range m {
		ks = append(ks, fmt.Sprintf("%q=%s", k, v))
	}
	sort.Strings(ks)
	return strings.Join(ks, "\n   ")
}

func h5run(t *testing.T, seed int64, steps int, overHTTP bool) (stores int) {
	rnd := rand.New(rand.NewSource(seed))
	storage, err := util.NewTempFileStorage()
	if err != nil {
		t.Fatal(err)
	}
	database := db.NewDatabaseWithStorage(storage)
	pin := "001-02-003"
	accName := "AC:CE:55:00:00:01"
	dev, err := hap.NewSecuredDevice(accName, pin, database)
	if err != nil {
		t.Fatal(err)
	}
	peers := make([]*h5peer, 2)
	if overHTTP {
		stop := h5serve(t, dev, database, peers)
		defer stop()
	} else {
		for i := range peers {
			c, err := pair.NewSetupServerController(dev, database)
			if err != nil {
				t.Fatal(err)
			}
			peers[i] = &h5peer{send: c.Handle}
		}
	}
	names := []string{"ctl-A", "ctl-B", "", accName, "x\xffy", strings.Repeat("n", 120), strings.Repeat("n", 130), "a/b", "../up", "ctl-A.entity"}
	type kp struct {
		pub  ed25519.PublicKey
		priv ed25519.PrivateKey
	}
	var keys []kp
	for i := 0; i < 3; i++ {
		pub, priv, _ := ed25519.GenerateKey(rnd)
		keys = append(keys, kp{pub, priv})
	}
	model := h5dbSet(t, database)
	var trace []string
	var N = new(big.Int)
	{
		rp, _ := srp.NewSRP(pair.SRPGroup, sha512.New, nil)
		N = rp.Group.Prime
	}

	for step := 0; step < steps; step++ {
		pi := rnd.Intn(2)
		p := peers[pi]
		var in util.Container
		desc := ""
		// expectation: may this message store something?
		var mayName string
		var mayKey []byte
		may := false

		op := rnd.Intn(100)
		switch {
		case op < 22:
			desc = "start"
			in = h5tlv(pair.TagPairingMethod, byte(0), pair.TagSequence, byte(1))
		case op < 40:
			desc = "verify-right"
			if p.salt == nil {
				continue
			}
			A, M1, S, err := h5srpClient(pin, p.salt, p.B)
			if err != nil {
				continue
			}
			p.S = S
			in = h5tlv(pair.TagSequence, byte(3), pair.TagPublicKey, A, pair.TagProof, M1)
			if p.oldVerify != nil && rnd.Intn(5) == 0 {
				desc = "verify-replayold"
				in = p.oldVerify
				p.S = p.oldS
			} else if rnd.Intn(3) == 0 {
				p.oldVerify, p.oldS = in, S
			}
		case op < 48:
			desc = "verify-wrongpin"
			if p.salt == nil {
				continue
			}
			A, M1, S, err := h5srpClient("111-22-333", p.salt, p.B)
			if err != nil {
				continue
			}
			p.S = S
			in = h5tlv(pair.TagSequence, byte(3), pair.TagPublicKey, A, pair.TagProof, M1)
		case op < 56:
			v := rnd.Intn(6)
			var A []byte
			switch v {
			case 0:
				A = []byte{0}
			case 1:
				A = N.Bytes()
			case 2:
				A = new(big.Int).Mul(N, big.NewInt(2)).Bytes()
			case 3:
				A = nil
			case 4:
				A = []byte{1}
			case 5:
				A = new(big.Int).Sub(N, big.NewInt(1)).Bytes()
			}
			desc = fmt.Sprintf("verify-badA%d", v)
			proof := make([]byte, 64)
			if rnd.Intn(2) == 0 {
				proof = nil
			}
			if A == nil {
				in = h5tlv(pair.TagSequence, byte(3), pair.TagProof, proof)
			} else {
				in = h5tlv(pair.TagSequence, byte(3), pair.TagPublicKey, A, pair.TagProof, proof)
			}
			p.S = nil
		case op < 76:
			desc = "kx-genuine"
			if p.S == nil {
				continue
			}
			name := names[rnd.Intn(len(names))]
			k := keys[rnd.Intn(len(keys))]
			data := h5m5(p.S, h5encKey(p.S), name, k.pub, k.priv, nil)
			desc += fmt.Sprintf("(%q,%x)", name, k.pub[:4])
			in = h5tlv(pair.TagSequence, byte(5), pair.TagEncryptedData, data)
			if p.right {
				may = true
				mayName = name
				mayKey = k.pub
				p.oldM5 = data
			}
		case op < 80:
			desc = "kx-tampered"
			if p.S == nil {
				continue
			}
			k := keys[rnd.Intn(len(keys))]
			data := h5m5(p.S, h5encKey(p.S), "ctl-T", k.pub, k.priv, nil)
			switch rnd.Intn(3) {
			case 0:
				data[rnd.Intn(len(data))] ^= 1
			case 1:
				data = data[:rnd.Intn(len(data))]
			case 2:
				// signed by another key
				k2 := keys[(rnd.Intn(2)+1)%3]
				_ = k2
				h, _ := hkdf.Sha512(p.S, []byte("Pair-Setup-Controller-Sign-Salt"), []byte("Pair-Setup-Controller-Sign-Info"))
				mat := append(append(h[:], []byte("ctl-T")...), k.pub...)
				mat[0] ^= 1
				sig := ed25519.Sign(k.priv, mat)
				sub := h5tlv(pair.TagUsername, "ctl-T", pair.TagPublicKey, []byte(k.pub), pair.TagSignature, sig)
				enc, mac, _ := chacha20poly1305.EncryptAndSeal(h5encKey(p.S), []byte("PS-Msg05"), sub.BytesBuffer().Bytes(), nil)
				data = append(enc, mac[:]...)
			}
			in = h5tlv(pair.TagSequence, byte(5), pair.TagEncryptedData, data)
		case op < 84:
			desc = "kx-replay"
			if p.oldM5 == nil {
				// from the other connection
				if peers[1-pi].oldM5 == nil {
					continue
				}
				in = h5tlv(pair.TagSequence, byte(5), pair.TagEncryptedData, peers[1-pi].oldM5)
			} else {
				in = h5tlv(pair.TagSequence, byte(5), pair.TagEncryptedData, p.oldM5)
			}
		case op < 92:
			desc = "kx-otherkey"
			var key [32]byte
			S := make([]byte, 64)
			switch rnd.Intn(4) {
			case 0: // all zero key
			case 1:
				rnd.Read(key[:])
			case 2: // key from zero secret
				copy(key[:], h5encKey(nil))
				S = nil
			case 3:
				copy(key[:], h5encKey(S))
			}
			k := keys[rnd.Intn(len(keys))]
			data := h5m5(S, key[:], "ctl-Z", k.pub, k.priv, nil)
			in = h5tlv(pair.TagSequence, byte(5), pair.TagEncryptedData, data)
		case op < 96:
			desc = "unknown-step"
			in = h5tlv(pair.TagSequence, byte([]int{0, 2, 4, 6, 7, 255}[rnd.Intn(6)]))
		case op < 98 && p.redial != nil:
			desc = "redial"
			p.redial()
			p.salt, p.B, p.S, p.right = nil, nil, nil, false
			continue
		default:
			desc = "method"
			in = h5tlv(pair.TagPairingMethod, byte(rnd.Intn(6)+1), pair.TagSequence, byte(rnd.Intn(6)))
		}

		var out util.Container
		var herr error
		func() {
			defer func() {
				if r := recover(); r != nil {
					herr = fmt.Errorf("panic: %v", r)
				}
			}()
			out, herr = p.send(in)
		}()
		res := "err"
		if herr == nil && out != nil {
			res = fmt.Sprintf("seq=%d err=%d", out.GetByte(pair.TagSequence), out.GetByte(pair.TagErrCode))
		}
		trace = append(trace, fmt.Sprintf("c%d %s -> %s", pi, desc, res))
		if len(trace) > 12 {
			trace = trace[1:]
		}

		// update the peer's knowledge
		switch {
		case desc == "start":
			p.right = false
			p.S = nil
			if herr == nil && out != nil && out.GetByte(pair.TagSequence) == 2 && out.GetByte(pair.TagErrCode) == 0 {
				p.salt = out.GetBytes(pair.TagSalt)
				p.B = out.GetBytes(pair.TagPublicKey)
			} else {
				p.salt, p.B = nil, nil
			}
		case desc == "verify-right":
			ok := herr == nil && out != nil && out.GetByte(pair.TagErrCode) == 0 && len(out.GetBytes(pair.TagProof)) > 0
			p.right = ok
		case strings.HasPrefix(desc, "verify"):
			p.right = false
			if herr == nil && out != nil && out.GetByte(pair.TagErrCode) == 0 {
				t.Fatalf("seed %d step %d: %s accepted\n%s", seed, step, desc, strings.Join(trace, "\n"))
			}
		case strings.HasPrefix(desc, "kx"):
			p.right = false
		}

		got := h5dbSet(t, database)
		if may && herr == nil && out != nil && out.GetByte(pair.TagErrCode) == 0 {
			model[mayName] = fmt.Sprintf("%x|", mayKey)
			stores++
		}
		if !h5eq(got, model) {
			t.Fatalf("seed %d step %d: pairing store differs from reference after %s\n got:\n   %s\n want:\n   %s\ntrace:\n%s", seed, step, desc, h5dump(got), h5dump(model), strings.Join(trace, "\n"))
		}
		if !may && herr == nil && out != nil && out.GetByte(pair.TagSequence) == 6 && out.GetByte(pair.TagErrCode) == 0 {
			t.Fatalf("seed %d step %d: %s answered M6 without error\n%s", seed, step, desc, strings.Join(trace, "\n"))
		}
	}
	return
}

func TestHunt5Diff(t *testing.T) {
	total := 0
	for seed := int64(1); seed <= h5seeds(); seed++ {
		total += h5run(t, seed, 1500, false)
	}
	t.Logf("stores: %d", total)
	_ = bytes.Equal
}

func h5seeds() int64 {
	if s := os.Getenv("H5SEEDS"); s != "" {
		n, _ := strconv.Atoi(s)
		return int64(n)
	}
	return 3
}

var h5lastAddr string

func h5serve(t *testing.T, dev hap.SecuredDevice, database db.Database, peers []*h5peer) func() {
	ctx := hap.NewContextForSecuredDevice(dev)
	srv := haphttp.NewServer(haphttp.Config{
		Port:      "127.0.0.1:0",
		Context:   ctx,
		Database:  database,
		Container: accessory.NewContainer(),
		Device:    dev,
		Mutex:     &sync.Mutex{},
		Emitter:   event.NewEmitter(),
	})
	cctx, cancel := context.WithCancel(context.Background())
	done := make(chan struct{})
	go func() { srv.ListenAndServe(cctx); close(done) }()
	url := "http://127.0.0.1:" + srv.Port() + "/pair-setup"
	h5lastAddr = "127.0.0.1:" + srv.Port()
	for i := range peers {
		tr := &http.Transport{MaxConnsPerHost: 1, MaxIdleConnsPerHost: 1}
		cl := &http.Client{Transport: tr}
		peers[i] = &h5peer{
			send: func(in util.Container) (util.Container, error) {
				resp, err := cl.Post(url, "application/pairing+tlv8", in.BytesBuffer())
				if err != nil {
					return nil, err
				}
				defer resp.Body.Close()
				b, _ := ioutil.ReadAll(resp.Body)
				if resp.StatusCode != 200 {
					return nil, fmt.Errorf("status %d", resp.StatusCode)
				}
				return util.NewTLV8ContainerFromReader(bytes.NewReader(b))
			},
			redial: func() { tr.CloseIdleConnections() },
		}
	}
	return func() {
		for _, p := range peers {
			p.redial()
		}
		cancel()
		<-done
	}
}

func TestHunt5DiffHTTP(t *testing.T) {
	total := 0
	for seed := int64(101); seed < 101+h5seeds(); seed++ {
		total += h5run(t, seed, 1500, true)
	}
	t.Logf("stores: %d", total)
}

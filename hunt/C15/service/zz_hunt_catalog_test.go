package service

import (
	"encoding/json"
	"fmt"
	"go/ast"
	"go/parser"
	"go/token"
	"io/ioutil"
	"reflect"
	"regexp"
	"strings"
	"testing"

	"github.com/brutella/hc/characteristic"
)

type huntMetaSvc struct {
	RequiredCharacteristics []string
	OptionalCharacteristics []string
	Name                    string
	UUID                    string
}

type huntMeta struct {
	Services []*huntMetaSvc
}

var huntUUIDRe = regexp.MustCompile(`^([0-9a-fA-F]*)`)

func huntShort(uuid string) string {
	if strings.HasSuffix(uuid, "-0000-1000-8000-0026BB765291") {
		return strings.TrimLeft(huntUUIDRe.FindString(uuid), "0")
	}
	return uuid
}

func huntSafe(mk func() (interface{}, *Service)) (o interface{}, s *Service, err error) {
	defer func() {
		if r := recover(); r != nil {
			err = fmt.Errorf("panic: %v", r)
		}
	}()
	o, s = mk()
	return
}

func TestHuntTableComplete(t *testing.T) {
	fset := token.NewFileSet()
	pkgs, err := parser.ParseDir(fset, ".", nil, 0)
	if err != nil {
		t.Fatal(err)
	}
	have := map[string]bool{}
	for _, c := range huntCtors {
		have[c.name] = true
	}
	n := 0
	for _, p := range pkgs {
		for fn, f := range p.Files {
			if strings.HasSuffix(fn, "_test.go") {
				continue
			}
			for _, d := range f.Decls {
				fd, ok := d.(*ast.FuncDecl)
				if !ok || fd.Recv != nil || !strings.HasPrefix(fd.Name.Name, "New") || fd.Name.Name == "New" {
					continue
				}
				if len(fd.Type.Params.List) != 0 {
					t.Errorf("constructor %s takes arguments", fd.Name.Name)
					continue
				}
				n++
				if !have[strings.TrimPrefix(fd.Name.Name, "New")] {
					t.Errorf("constructor %s not in table", fd.Name.Name)
				}
			}
		}
	}
	if n != len(huntCtors) {
		t.Errorf("%d constructors in sources, %d in table", n, len(huntCtors))
	}
	t.Logf("%d constructors", n)
}

var huntCharPtr = reflect.TypeOf((*characteristic.Characteristic)(nil))

// collects the characteristic-typed fields (recursively through embedded service structs)
func huntFields(t *testing.T, name string, v reflect.Value, out map[string]*characteristic.Characteristic) {
	if v.Kind() == reflect.Ptr {
		if v.IsNil() {
			t.Errorf("New%s: nil pointer %s", name, v.Type())
			return
		}
		v = v.Elem()
	}
	for i := 0; i < v.NumField(); i++ {
		f := v.Type().Field(i)
		fv := v.Field(i)
		if f.Type == reflect.TypeOf((*Service)(nil)) {
			if fv.IsNil() {
				t.Errorf("New%s: embedded *Service is nil", name)
			}
			continue
		}
		if f.Type.Kind() != reflect.Ptr || f.Type.Elem().Kind() != reflect.Struct {
			continue
		}
		if f.Anonymous && f.Type.Elem().PkgPath() == v.Type().PkgPath() {
			huntFields(t, name, fv, out)
			continue
		}
		if fv.IsNil() {
			t.Errorf("New%s: field %s is nil", name, f.Name)
			continue
		}
		c := fv.Elem().FieldByName("Characteristic")
		if !c.IsValid() || c.Type() != huntCharPtr {
			continue
		}
		if c.IsNil() {
			t.Errorf("New%s: field %s has no characteristic", name, f.Name)
			continue
		}
		out[f.Name] = c.Interface().(*characteristic.Characteristic)
	}
}

func TestHuntEveryConstructorUsable(t *testing.T) {
	for _, k := range huntCtors {
		o, s, err := huntSafe(k.mk)
		if err != nil {
			t.Errorf("New%s: %v", k.name, err)
			continue
		}
		if s == nil || o == nil {
			t.Errorf("New%s: nil service", k.name)
			continue
		}
		if s.Type == "" || s.Type != k.declared {
			t.Errorf("New%s: Type %q, declared %q", k.name, s.Type, k.declared)
		}
		fields := map[string]*characteristic.Characteristic{}
		huntFields(t, k.name, reflect.ValueOf(o), fields)
		listed := map[*characteristic.Characteristic]bool{}
		types := map[string]int{}
		for i, c := range s.Characteristics {
			if c == nil {
				t.Errorf("New%s: characteristic %d is nil", k.name, i)
				continue
			}
			if listed[c] {
				t.Errorf("New%s: characteristic %s listed twice", k.name, c.Type)
			}
			listed[c] = true
			types[c.Type]++
			if c.Type == "" {
				t.Errorf("New%s: characteristic %d has no type", k.name, i)
			}
			if c.IsReadable() && c.Value == nil {
				t.Errorf("New%s: readable characteristic %s has no value", k.name, c.Type)
			}
		}
		for typ, n := range types {
			if n > 1 {
				t.Errorf("New%s: %d characteristics of type %s", k.name, n, typ)
			}
		}
		for fn, c := range fields {
			if !listed[c] {
				t.Errorf("New%s: field %s (%s) is not among the service's characteristics", k.name, fn, c.Type)
			}
		}
		if len(fields) != len(s.Characteristics) {
			t.Errorf("New%s: %d fields, %d characteristics", k.name, len(fields), len(s.Characteristics))
		}
		if len(s.Characteristics) == 0 {
			t.Errorf("New%s: no characteristics", k.name)
		}
		if _, err := json.Marshal(s); err != nil {
			t.Errorf("New%s: %v", k.name, err)
		}
		// a second call shares nothing with the first
		if _, s2, err := huntSafe(k.mk); err == nil && s2 != nil {
			if s2 == s {
				t.Errorf("New%s: same service twice", k.name)
			}
			for _, c := range s2.Characteristics {
				if listed[c] {
					t.Errorf("New%s: characteristic %s shared between two services", k.name, c.Type)
				}
			}
		}
	}
}

func TestHuntMetadataServices(t *testing.T) {
	b, err := ioutil.ReadFile("../gen/metadata.json")
	if err != nil {
		t.Fatal(err)
	}
	md := &huntMeta{}
	if err := json.Unmarshal(b, md); err != nil {
		t.Fatal(err)
	}
	if len(md.Services) != 43 {
		t.Errorf("%d services", len(md.Services))
	}
	for _, m := range md.Services {
		typ := huntShort(m.UUID)
		want := strings.Replace(strings.Title(strings.NewReplacer(".", "_", ",", "", "-", "", "(", "", ")", "").Replace(strings.TrimSpace(m.Name))), " ", "", -1)
		found := 0
		for _, k := range huntCtors {
			_, s, err := huntSafe(k.mk)
			if err != nil || s == nil || s.Type != typ {
				continue
			}
			found++
			if k.name == want {
				found += 100
			}
			have := map[string]bool{}
			for _, c := range s.Characteristics {
				if c != nil {
					have[c.Type] = true
				}
			}
			for _, u := range m.RequiredCharacteristics {
				if !have[huntShort(u)] {
					t.Errorf("%s / New%s (%s): required characteristic %s missing", m.Name, k.name, typ, huntShort(u))
				}
			}
			allowed := map[string]bool{}
			for _, u := range append(append([]string{}, m.RequiredCharacteristics...), m.OptionalCharacteristics...) {
				allowed[huntShort(u)] = true
			}
			for c := range have {
				if !allowed[c] {
					t.Logf("note %s / New%s: characteristic %s is neither required nor optional in the metadata", m.Name, k.name, c)
				}
			}
		}
		if found < 100 {
			t.Errorf("%s (%s): no constructor New%s with that type (found %d others)", m.Name, typ, want, found)
		}
	}
}

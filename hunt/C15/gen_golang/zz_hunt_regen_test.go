package golang

import (
	"encoding/json"
	"go/format"
	"io/ioutil"
	"os"
	"path/filepath"
	"testing"

	"github.com/brutella/hc/gen"
)

func TestHuntRegen(t *testing.T) {
	b, err := ioutil.ReadFile("../metadata.json")
	if err != nil {
		t.Fatal(err)
	}
	md := gen.Metadata{}
	if err := json.Unmarshal(b, &md); err != nil {
		t.Fatal(err)
	}
	out := os.Getenv("HUNT_OUT")
	t.Logf("%d chars %d services", len(md.Characteristics), len(md.Services))
	for _, c := range md.Characteristics {
		code, err := CharacteristicGoCode(c)
		if err != nil {
			t.Fatal(err)
		}
		f, err := format.Source(code)
		if err != nil {
			t.Errorf("%s: %v", c.Name, err)
			f = code
		}
		p := filepath.Join("../../characteristic", CharacteristicFileName(c))
		have, err := ioutil.ReadFile(p)
		if err != nil {
			t.Errorf("missing %s", p)
		} else if string(have) != string(f) {
			t.Logf("note: checked-in file differs from regenerated code: %s", p)
		}
		if out != "" {
			os.MkdirAll(filepath.Join(out, "characteristic"), 0777)
			ioutil.WriteFile(filepath.Join(out, "characteristic", CharacteristicFileName(c)), f, 0666)
		}
	}
	for _, s := range md.Services {
		code, err := ServiceGoCode(s, md.Characteristics)
		if err != nil {
			t.Fatal(err)
		}
		f, err := format.Source(code)
		if err != nil {
			t.Errorf("%s: %v", s.Name, err)
			f = code
		}
		p := filepath.Join("../../service", ServiceFileName(s))
		have, err := ioutil.ReadFile(p)
		if err != nil {
			t.Errorf("missing %s", p)
		} else if string(have) != string(f) {
			t.Logf("note: checked-in file differs from regenerated code: %s", p)
		}
		if out != "" {
			os.MkdirAll(filepath.Join(out, "service"), 0777)
			ioutil.WriteFile(filepath.Join(out, "service", ServiceFileName(s)), f, 0666)
		}
	}
}

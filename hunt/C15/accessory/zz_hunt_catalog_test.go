package accessory

import (
	"encoding/json"
	"fmt"
	"io/ioutil"
	"strings"
	"testing"

	"github.com/brutella/hc/characteristic"
)

type huntAcc struct {
	name string
	typ  AccessoryType
	mk   func(Info) *Accessory
}

var huntAccs = []huntAcc{
	{"New", TypeOther, func(i Info) *Accessory { return New(i, TypeOther) }},
	{"NewBridge", TypeBridge, func(i Info) *Accessory { return NewBridge(i).Accessory }},
	{"NewCamera", TypeIPCamera, func(i Info) *Accessory { return NewCamera(i).Accessory }},
	{"NewColoredLightbulb", TypeLightbulb, func(i Info) *Accessory { return NewColoredLightbulb(i).Accessory }},
	{"NewLightbulb", TypeLightbulb, func(i Info) *Accessory { return NewLightbulb(i).Accessory }},
	{"NewOutlet", TypeOutlet, func(i Info) *Accessory { return NewOutlet(i).Accessory }},
	{"NewSwitch", TypeSwitch, func(i Info) *Accessory { return NewSwitch(i).Accessory }},
	{"NewTelevision", TypeTelevision, func(i Info) *Accessory { return NewTelevision(i).Accessory }},
	{"NewTemperatureSensor", TypeThermostat, func(i Info) *Accessory { return NewTemperatureSensor(i, 20, -20, 50, 0.5).Accessory }},
	{"NewThermostat", TypeThermostat, func(i Info) *Accessory { return NewThermostat(i, 20, 10, 30, 0.5).Accessory }},
	{"NewWindow", TypeWindow, func(i Info) *Accessory { return NewWindow(i, 50).Accessory }},
}

func huntNum(v interface{}) (float64, bool) {
	switch x := v.(type) {
	case int:
		return float64(x), true
	case float64:
		return x, true
	}
	return 0, false
}

func huntCheckAccessory(t *testing.T, name string, a *Accessory) {
	if a == nil {
		t.Errorf("%s: nil", name)
		return
	}
	if a.Info == nil || len(a.Services) == 0 || a.Services[0] != a.Info.Service {
		t.Errorf("%s: accessory information is not the first service", name)
	}
	a.UpdateIDs()
	ids := map[uint64]bool{}
	for _, s := range a.Services {
		if s == nil {
			t.Errorf("%s: nil service", name)
			continue
		}
		if ids[s.ID] || s.ID == 0 {
			t.Errorf("%s: service id %d", name, s.ID)
		}
		ids[s.ID] = true
		types := map[string]bool{}
		for _, c := range s.Characteristics {
			if ids[c.ID] || c.ID == 0 {
				t.Errorf("%s: characteristic id %d", name, c.ID)
			}
			ids[c.ID] = true
			if types[c.Type] {
				t.Errorf("%s: service %s has two characteristics %s", name, s.Type, c.Type)
			}
			types[c.Type] = true
			if c.IsReadable() && c.Value == nil {
				t.Errorf("%s: service %s characteristic %s readable without value", name, s.Type, c.Type)
			}
			if v, ok := huntNum(c.Value); ok {
				if mn, ok := huntNum(c.MinValue); ok && v < mn {
					t.Errorf("%s: service %s characteristic %s value %v below min %v", name, s.Type, c.Type, v, mn)
				}
				if mx, ok := huntNum(c.MaxValue); ok && v > mx {
					t.Errorf("%s: service %s characteristic %s value %v above max %v", name, s.Type, c.Type, v, mx)
				}
			}
		}
	}
	if _, err := json.Marshal(a); err != nil {
		t.Errorf("%s: %v", name, err)
	}
	c := NewContainer()
	if err := c.AddAccessory(a); err != nil {
		t.Errorf("%s: %v", name, err)
	}
	if len(c.ContentHash()) == 0 {
		t.Errorf("%s: no hash", name)
	}
}

func TestHuntAccessoryConstructors(t *testing.T) {
	for _, info := range []Info{{}, {Name: "n", SerialNumber: "s", Manufacturer: "m", Model: "x", FirmwareRevision: "1.0", ID: 7}} {
		for _, k := range huntAccs {
			func() {
				defer func() {
					if r := recover(); r != nil {
						t.Errorf("%s(%+v): panic %v", k.name, info, r)
					}
				}()
				a := k.mk(info)
				if a != nil && a.Type != k.typ {
					t.Errorf("%s: type %d want %d", k.name, a.Type, k.typ)
				}
				huntCheckAccessory(t, fmt.Sprintf("%s(%+v)", k.name, info), a)
				for _, c := range []*characteristic.String{a.Info.Name.String, a.Info.Manufacturer.String, a.Info.Model.String, a.Info.SerialNumber.String, a.Info.FirmwareRevision.String} {
					if c.GetValue() == "" {
						t.Errorf("%s: empty info characteristic %s", k.name, c.Type)
					}
				}
			}()
		}
	}
}

// the constants of constant.go against the categories of the metadata
func TestHuntCategories(t *testing.T) {
	b, err := ioutil.ReadFile("../gen/metadata.json")
	if err != nil {
		t.Fatal(err)
	}
	var md struct {
		Categories []struct {
			Name     string
			Category int
		}
	}
	if err := json.Unmarshal(b, &md); err != nil {
		t.Fatal(err)
	}
	src, _ := ioutil.ReadFile("constant.go")
	for _, c := range md.Categories {
		id := "Type" + strings.Replace(strings.Title(c.Name), " ", "", -1)
		found := false
		for _, line := range strings.Split(string(src), "\n") {
			f := strings.Fields(line)
			if len(f) == 4 && f[0] == id {
				found = true
				if f[3] != fmt.Sprint(c.Category) {
					t.Errorf("%s = %s, metadata %d", id, f[3], c.Category)
				}
			}
		}
		if !found {
			t.Errorf("category %s (%d): no constant %s", c.Name, c.Category, id)
		}
	}
}

// arguments of the thermostat / thermometer constructors
func TestHuntThermostatArguments(t *testing.T) {
	th := NewThermostat(Info{}, 50, 40, 60, 1)
	huntCheckAccessory(t, "NewThermostat(50,40,60,1)", th.Accessory)
	if v := th.Thermostat.TargetTemperature.GetValue(); v != 50 {
		t.Errorf("NewThermostat(50,40,60,1): target temperature %v", v)
	}
	ts := NewTemperatureSensor(Info{}, -10, -20, 50, 0.1)
	huntCheckAccessory(t, "NewTemperatureSensor(-10,-20,50,0.1)", ts.Accessory)
	if v := ts.TempSensor.CurrentTemperature.GetValue(); v != -10 {
		t.Errorf("NewTemperatureSensor(-10,-20,50,0.1): current temperature %v", v)
	}
}

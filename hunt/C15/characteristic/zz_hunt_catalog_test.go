package characteristic

import (
	"encoding/json"
	"fmt"
	"go/ast"
	"go/parser"
	"go/token"
	"io/ioutil"
	"regexp"
	"sort"
	"strings"
	"testing"
)

type huntMetaChar struct {
	Constraints map[string]interface{}
	Format      string
	Name        string
	Properties  []string
	UUID        string
	Unit        string
}

type huntMeta struct {
	Characteristics []*huntMetaChar
}

func huntLoadMeta(t *testing.T) *huntMeta {
	b, err := ioutil.ReadFile("../gen/metadata.json")
	if err != nil {
		t.Fatal(err)
	}
	m := &huntMeta{}
	if err := json.Unmarshal(b, m); err != nil {
		t.Fatal(err)
	}
	return m
}

var huntUUIDRe = regexp.MustCompile(`^([0-9a-fA-F]*)`)

func huntShort(uuid string) string {
	if strings.HasSuffix(uuid, "-0000-1000-8000-0026BB765291") {
		return strings.TrimLeft(huntUUIDRe.FindString(uuid), "0")
	}
	return uuid
}

func huntSafe(mk func() *Characteristic) (c *Characteristic, err error) {
	defer func() {
		if r := recover(); r != nil {
			err = fmt.Errorf("panic: %v", r)
		}
	}()
	return mk(), nil
}

// the table must list every exported zero-argument constructor of the package
func TestHuntTableComplete(t *testing.T) {
	fset := token.NewFileSet()
	pkgs, err := parser.ParseDir(fset, ".", nil, 0)
	if err != nil {
		t.Fatal(err)
	}
	have := map[string]bool{}
	for _, c := range huntCtors {
		have[c.name] = true
	}
	n := 0
	for _, p := range pkgs {
		for fn, f := range p.Files {
			if strings.HasSuffix(fn, "_test.go") {
				continue
			}
			for _, d := range f.Decls {
				fd, ok := d.(*ast.FuncDecl)
				if !ok || fd.Recv != nil || !strings.HasPrefix(fd.Name.Name, "New") || !fd.Name.IsExported() {
					continue
				}
				if len(fd.Type.Params.List) != 0 {
					continue
				}
				n++
				if !have[strings.TrimPrefix(fd.Name.Name, "New")] {
					t.Errorf("constructor %s not in table", fd.Name.Name)
				}
			}
		}
	}
	if n != len(huntCtors) {
		t.Errorf("%d constructors in sources, %d in table", n, len(huntCtors))
	}
	t.Logf("%d constructors", n)
}

var huntFormats = map[string]string{
	FormatString: "string", FormatBool: "bool", FormatFloat: "float64",
	FormatUInt8: "int", FormatUInt16: "int", FormatUInt32: "int", FormatInt32: "int", FormatUInt64: "int",
	FormatData: "string", FormatTLV8: "string",
}

func huntNum(v interface{}) (float64, bool) {
	switch x := v.(type) {
	case int:
		return float64(x), true
	case float64:
		return x, true
	}
	return 0, false
}

// every constructor returns a usable object whose type is the declared one
func TestHuntEveryConstructorUsable(t *testing.T) {
	byType := map[string][]string{}
	for _, k := range huntCtors {
		c, err := huntSafe(k.mk)
		if err != nil {
			t.Errorf("New%s: %v", k.name, err)
			continue
		}
		if c == nil {
			t.Errorf("New%s: nil characteristic", k.name)
			continue
		}
		if c.Type == "" || c.Type != k.declared {
			t.Errorf("New%s: Type %q, declared Type%s = %q", k.name, c.Type, k.name, k.declared)
		}
		byType[c.Type] = append(byType[c.Type], k.name)
		goType, ok := huntFormats[c.Format]
		if !ok {
			t.Errorf("New%s: unknown format %q", k.name, c.Format)
		}
		if len(c.Perms) == 0 {
			t.Errorf("New%s: no permissions", k.name)
		}
		seen := map[string]bool{}
		for _, p := range c.Perms {
			switch p {
			case PermRead, PermWrite, PermEvents, PermHidden, PermWriteResponse:
			default:
				t.Errorf("New%s: unknown permission %q", k.name, p)
			}
			if seen[p] {
				t.Errorf("New%s: permission %q twice", k.name, p)
			}
			seen[p] = true
		}
		for what, v := range map[string]interface{}{"min": c.MinValue, "max": c.MaxValue, "step": c.StepValue} {
			if v == nil {
				continue
			}
			if got := fmt.Sprintf("%T", v); got != goType || (goType != "int" && goType != "float64") {
				t.Errorf("New%s: %s value %v has type %s with format %s", k.name, what, v, got, c.Format)
			}
		}
		if mn, ok := huntNum(c.MinValue); ok {
			if mx, ok := huntNum(c.MaxValue); ok && mn > mx {
				t.Errorf("New%s: min %v > max %v", k.name, mn, mx)
			}
		}
		if c.IsReadable() {
			if c.Value == nil {
				t.Errorf("New%s: readable but no default value", k.name)
			} else {
				if got := fmt.Sprintf("%T", c.Value); got != goType {
					t.Errorf("New%s: default value %v has type %s with format %s", k.name, c.Value, got, c.Format)
				}
				if v, ok := huntNum(c.Value); ok {
					if mn, ok := huntNum(c.MinValue); ok && v < mn {
						t.Errorf("New%s: default %v below min %v", k.name, v, mn)
					}
					if mx, ok := huntNum(c.MaxValue); ok && v > mx {
						t.Errorf("New%s: default %v above max %v", k.name, v, mx)
					}
				}
			}
		}
		if _, err := json.Marshal(c); err != nil {
			t.Errorf("New%s: not encodable: %v", k.name, err)
		}
		// two calls give two independent objects
		c2, _ := huntSafe(k.mk)
		if c2 == c {
			t.Errorf("New%s: same object twice", k.name)
		}
	}
	for typ, names := range byType {
		if len(names) > 1 {
			t.Logf("note: type %q is declared for several constructors: %v", typ, names)
		}
	}
}

func huntPermsOf(props []string) []string {
	var out []string
	for _, p := range props {
		switch p {
		case "read":
			out = append(out, PermRead)
		case "write":
			out = append(out, PermWrite)
		case "cnotify":
			out = append(out, PermEvents)
		}
	}
	sort.Strings(out)
	return out
}

func huntConstraint(m *huntMetaChar, key string) interface{} {
	for k, v := range m.Constraints {
		if strings.EqualFold(k, key) {
			return v
		}
	}
	return nil
}

// every characteristic of the metadata has a constructor with exactly its fields
func TestHuntMetadataCharacteristics(t *testing.T) {
	md := huntLoadMeta(t)
	if len(md.Characteristics) != 146 {
		t.Errorf("%d characteristics in metadata", len(md.Characteristics))
	}
	type huntObj struct {
		name string
		c    *Characteristic
	}
	objs := map[string][]huntObj{}
	for _, k := range huntCtors {
		if c, err := huntSafe(k.mk); err == nil && c != nil {
			objs[c.Type] = append(objs[c.Type], huntObj{k.name, c})
		}
	}
	for _, m := range md.Characteristics {
		typ := huntShort(m.UUID)
		if len(objs[typ]) == 0 {
			t.Errorf("%s (%s): no constructor", m.Name, typ)
			continue
		}
		want := strings.Replace(strings.Title(strings.NewReplacer(".", "_", ",", "", "-", "", "(", "", ")", "").Replace(m.Name)), " ", "", -1)
		named := false
		for _, o := range objs[typ] {
			if o.name == want {
				named = true
			}
		}
		if !named {
			t.Errorf("%s (%s): no constructor New%s, only %v", m.Name, typ, want, objs[typ])
		}
		for _, o := range objs[typ] {
			c := o.c
			id := fmt.Sprintf("%s / New%s (%s)", m.Name, o.name, typ)
			if c.Format != m.Format {
				t.Errorf("%s: format %q, metadata %q", id, c.Format, m.Format)
			}
			got := append([]string{}, c.Perms...)
			sort.Strings(got)
			if want := huntPermsOf(m.Properties); fmt.Sprint(got) != fmt.Sprint(want) {
				t.Errorf("%s: perms %v, metadata %v (%v)", id, got, want, m.Properties)
			}
			if c.Unit != m.Unit {
				t.Errorf("%s: unit %q, metadata %q", id, c.Unit, m.Unit)
			}
			for key, have := range map[string]interface{}{"MinimumValue": c.MinValue, "MaximumValue": c.MaxValue, "StepValue": c.StepValue} {
				want := huntConstraint(m, key)
				if want == nil && have == nil {
					continue
				}
				w, wok := huntNum(want)
				h, hok := huntNum(have)
				if wok != hok || w != h {
					t.Errorf("%s: %s is %v, metadata %v", id, key, have, want)
				}
			}
			readable := false
			for _, p := range m.Properties {
				if p == "read" {
					readable = true
				}
			}
			if readable {
				if c.Value == nil {
					t.Errorf("%s: readable without default", id)
				} else if got, want := fmt.Sprintf("%T", c.Value), huntFormats[m.Format]; got != want {
					t.Errorf("%s: default %v of type %s, want %s", id, c.Value, got, want)
				} else if v, ok := huntNum(c.Value); ok {
					if mn, ok := huntNum(huntConstraint(m, "MinimumValue")); ok && v < mn {
						t.Errorf("%s: default %v below metadata min %v", id, v, mn)
					}
					if mx, ok := huntNum(huntConstraint(m, "MaximumValue")); ok && v > mx {
						t.Errorf("%s: default %v above metadata max %v", id, v, mx)
					}
				}
			} else if c.Value != nil {
				t.Logf("note %s: not readable but has value %v", id, c.Value)
			}
		}
	}
}

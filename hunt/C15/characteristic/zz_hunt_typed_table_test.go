package characteristic

// generated: typed accessors of every constructor
var huntTyped = []struct {
	name     string
	embedded string
	get      func() interface{}
	setget   func() interface{}
}{
	{"AccessoryFlags", "Int", func() interface{} { return NewAccessoryFlags().GetValue() }, func() interface{} { c := NewAccessoryFlags(); c.SetValue(1); return c.GetValue() }},
	{"AccessoryIdentifier", "String", func() interface{} { return NewAccessoryIdentifier().GetValue() }, func() interface{} { c := NewAccessoryIdentifier(); c.SetValue("x"); return c.GetValue() }},
	{"Active", "Int", func() interface{} { return NewActive().GetValue() }, func() interface{} { c := NewActive(); c.SetValue(1); return c.GetValue() }},
	{"ActiveIdentifier", "Int", func() interface{} { return NewActiveIdentifier().GetValue() }, func() interface{} { c := NewActiveIdentifier(); c.SetValue(1); return c.GetValue() }},
	{"AdministratorOnlyAccess", "Bool", func() interface{} { return NewAdministratorOnlyAccess().GetValue() }, func() interface{} { c := NewAdministratorOnlyAccess(); c.SetValue(true); return c.GetValue() }},
	{"AirParticulateDensity", "Float", func() interface{} { return NewAirParticulateDensity().GetValue() }, func() interface{} { c := NewAirParticulateDensity(); c.SetValue(1.0); return c.GetValue() }},
	{"AirParticulateSize", "Int", func() interface{} { return NewAirParticulateSize().GetValue() }, func() interface{} { c := NewAirParticulateSize(); c.SetValue(1); return c.GetValue() }},
	{"AirQuality", "Int", func() interface{} { return NewAirQuality().GetValue() }, func() interface{} { c := NewAirQuality(); c.SetValue(1); return c.GetValue() }},
	{"AppMatchingIdentifier", "Bytes", func() interface{} { return NewAppMatchingIdentifier().GetValue() }, func() interface{} { c := NewAppMatchingIdentifier(); c.SetValue([]byte{1}); return c.GetValue() }},
	{"AudioFeedback", "Bool", func() interface{} { return NewAudioFeedback().GetValue() }, func() interface{} { c := NewAudioFeedback(); c.SetValue(true); return c.GetValue() }},
	{"BatteryLevel", "Int", func() interface{} { return NewBatteryLevel().GetValue() }, func() interface{} { c := NewBatteryLevel(); c.SetValue(1); return c.GetValue() }},
	{"Brightness", "Int", func() interface{} { return NewBrightness().GetValue() }, func() interface{} { c := NewBrightness(); c.SetValue(1); return c.GetValue() }},
	{"CarbonDioxideDetected", "Int", func() interface{} { return NewCarbonDioxideDetected().GetValue() }, func() interface{} { c := NewCarbonDioxideDetected(); c.SetValue(1); return c.GetValue() }},
	{"CarbonDioxideLevel", "Float", func() interface{} { return NewCarbonDioxideLevel().GetValue() }, func() interface{} { c := NewCarbonDioxideLevel(); c.SetValue(1.0); return c.GetValue() }},
	{"CarbonDioxidePeakLevel", "Float", func() interface{} { return NewCarbonDioxidePeakLevel().GetValue() }, func() interface{} { c := NewCarbonDioxidePeakLevel(); c.SetValue(1.0); return c.GetValue() }},
	{"CarbonMonoxideDetected", "Int", func() interface{} { return NewCarbonMonoxideDetected().GetValue() }, func() interface{} { c := NewCarbonMonoxideDetected(); c.SetValue(1); return c.GetValue() }},
	{"CarbonMonoxideLevel", "Float", func() interface{} { return NewCarbonMonoxideLevel().GetValue() }, func() interface{} { c := NewCarbonMonoxideLevel(); c.SetValue(1.0); return c.GetValue() }},
	{"CarbonMonoxidePeakLevel", "Float", func() interface{} { return NewCarbonMonoxidePeakLevel().GetValue() }, func() interface{} { c := NewCarbonMonoxidePeakLevel(); c.SetValue(1.0); return c.GetValue() }},
	{"Category", "Int", func() interface{} { return NewCategory().GetValue() }, func() interface{} { c := NewCategory(); c.SetValue(1); return c.GetValue() }},
	{"ChargingState", "Int", func() interface{} { return NewChargingState().GetValue() }, func() interface{} { c := NewChargingState(); c.SetValue(1); return c.GetValue() }},
	{"ClosedCaptions", "Int", func() interface{} { return NewClosedCaptions().GetValue() }, func() interface{} { c := NewClosedCaptions(); c.SetValue(1); return c.GetValue() }},
	{"ColorTemperature", "Int", func() interface{} { return NewColorTemperature().GetValue() }, func() interface{} { c := NewColorTemperature(); c.SetValue(1); return c.GetValue() }},
	{"ConfigureBridgedAccessory", "Bytes", func() interface{} { return NewConfigureBridgedAccessory().GetValue() }, func() interface{} { c := NewConfigureBridgedAccessory(); c.SetValue([]byte{1}); return c.GetValue() }},
	{"ConfigureBridgedAccessoryStatus", "Bytes", func() interface{} { return NewConfigureBridgedAccessoryStatus().GetValue() }, func() interface{} {
		c := NewConfigureBridgedAccessoryStatus()
		c.SetValue([]byte{1})
		return c.GetValue()
	}},
	{"ConfiguredName", "String", func() interface{} { return NewConfiguredName().GetValue() }, func() interface{} { c := NewConfiguredName(); c.SetValue("x"); return c.GetValue() }},
	{"ContactSensorState", "Int", func() interface{} { return NewContactSensorState().GetValue() }, func() interface{} { c := NewContactSensorState(); c.SetValue(1); return c.GetValue() }},
	{"CoolingThresholdTemperature", "Float", func() interface{} { return NewCoolingThresholdTemperature().GetValue() }, func() interface{} { c := NewCoolingThresholdTemperature(); c.SetValue(1.0); return c.GetValue() }},
	{"CurrentAirPurifierState", "Int", func() interface{} { return NewCurrentAirPurifierState().GetValue() }, func() interface{} { c := NewCurrentAirPurifierState(); c.SetValue(1); return c.GetValue() }},
	{"CurrentAmbientLightLevel", "Float", func() interface{} { return NewCurrentAmbientLightLevel().GetValue() }, func() interface{} { c := NewCurrentAmbientLightLevel(); c.SetValue(1.0); return c.GetValue() }},
	{"CurrentDoorState", "Int", func() interface{} { return NewCurrentDoorState().GetValue() }, func() interface{} { c := NewCurrentDoorState(); c.SetValue(1); return c.GetValue() }},
	{"CurrentFanState", "Int", func() interface{} { return NewCurrentFanState().GetValue() }, func() interface{} { c := NewCurrentFanState(); c.SetValue(1); return c.GetValue() }},
	{"CurrentHeaterCoolerState", "Int", func() interface{} { return NewCurrentHeaterCoolerState().GetValue() }, func() interface{} { c := NewCurrentHeaterCoolerState(); c.SetValue(1); return c.GetValue() }},
	{"CurrentHeatingCoolingState", "Int", func() interface{} { return NewCurrentHeatingCoolingState().GetValue() }, func() interface{} { c := NewCurrentHeatingCoolingState(); c.SetValue(1); return c.GetValue() }},
	{"CurrentHorizontalTiltAngle", "Int", func() interface{} { return NewCurrentHorizontalTiltAngle().GetValue() }, func() interface{} { c := NewCurrentHorizontalTiltAngle(); c.SetValue(1); return c.GetValue() }},
	{"CurrentHumidifierDehumidifierState", "Int", func() interface{} { return NewCurrentHumidifierDehumidifierState().GetValue() }, func() interface{} { c := NewCurrentHumidifierDehumidifierState(); c.SetValue(1); return c.GetValue() }},
	{"CurrentMediaState", "Int", func() interface{} { return NewCurrentMediaState().GetValue() }, func() interface{} { c := NewCurrentMediaState(); c.SetValue(1); return c.GetValue() }},
	{"CurrentPosition", "Int", func() interface{} { return NewCurrentPosition().GetValue() }, func() interface{} { c := NewCurrentPosition(); c.SetValue(1); return c.GetValue() }},
	{"CurrentRelativeHumidity", "Float", func() interface{} { return NewCurrentRelativeHumidity().GetValue() }, func() interface{} { c := NewCurrentRelativeHumidity(); c.SetValue(1.0); return c.GetValue() }},
	{"CurrentSlatState", "Int", func() interface{} { return NewCurrentSlatState().GetValue() }, func() interface{} { c := NewCurrentSlatState(); c.SetValue(1); return c.GetValue() }},
	{"CurrentTemperature", "Float", func() interface{} { return NewCurrentTemperature().GetValue() }, func() interface{} { c := NewCurrentTemperature(); c.SetValue(1.0); return c.GetValue() }},
	{"CurrentTiltAngle", "Int", func() interface{} { return NewCurrentTiltAngle().GetValue() }, func() interface{} { c := NewCurrentTiltAngle(); c.SetValue(1); return c.GetValue() }},
	{"CurrentTime", "String", func() interface{} { return NewCurrentTime().GetValue() }, func() interface{} { c := NewCurrentTime(); c.SetValue("x"); return c.GetValue() }},
	{"CurrentTransport", "Bool", func() interface{} { return NewCurrentTransport().GetValue() }, func() interface{} { c := NewCurrentTransport(); c.SetValue(true); return c.GetValue() }},
	{"CurrentVerticalTiltAngle", "Int", func() interface{} { return NewCurrentVerticalTiltAngle().GetValue() }, func() interface{} { c := NewCurrentVerticalTiltAngle(); c.SetValue(1); return c.GetValue() }},
	{"CurrentVisibilityState", "Int", func() interface{} { return NewCurrentVisibilityState().GetValue() }, func() interface{} { c := NewCurrentVisibilityState(); c.SetValue(1); return c.GetValue() }},
	{"DayOfTheWeek", "Int", func() interface{} { return NewDayOfTheWeek().GetValue() }, func() interface{} { c := NewDayOfTheWeek(); c.SetValue(1); return c.GetValue() }},
	{"DigitalZoom", "Float", func() interface{} { return NewDigitalZoom().GetValue() }, func() interface{} { c := NewDigitalZoom(); c.SetValue(1.0); return c.GetValue() }},
	{"DiscoverBridgedAccessories", "Int", func() interface{} { return NewDiscoverBridgedAccessories().GetValue() }, func() interface{} { c := NewDiscoverBridgedAccessories(); c.SetValue(1); return c.GetValue() }},
	{"DiscoveredBridgedAccessories", "Int", func() interface{} { return NewDiscoveredBridgedAccessories().GetValue() }, func() interface{} { c := NewDiscoveredBridgedAccessories(); c.SetValue(1); return c.GetValue() }},
	{"DisplayOrder", "Bytes", func() interface{} { return NewDisplayOrder().GetValue() }, func() interface{} { c := NewDisplayOrder(); c.SetValue([]byte{1}); return c.GetValue() }},
	{"FilterChangeIndication", "Int", func() interface{} { return NewFilterChangeIndication().GetValue() }, func() interface{} { c := NewFilterChangeIndication(); c.SetValue(1); return c.GetValue() }},
	{"FilterLifeLevel", "Float", func() interface{} { return NewFilterLifeLevel().GetValue() }, func() interface{} { c := NewFilterLifeLevel(); c.SetValue(1.0); return c.GetValue() }},
	{"FirmwareRevision", "String", func() interface{} { return NewFirmwareRevision().GetValue() }, func() interface{} { c := NewFirmwareRevision(); c.SetValue("x"); return c.GetValue() }},
	{"HardwareRevision", "String", func() interface{} { return NewHardwareRevision().GetValue() }, func() interface{} { c := NewHardwareRevision(); c.SetValue("x"); return c.GetValue() }},
	{"HeatingThresholdTemperature", "Float", func() interface{} { return NewHeatingThresholdTemperature().GetValue() }, func() interface{} { c := NewHeatingThresholdTemperature(); c.SetValue(1.0); return c.GetValue() }},
	{"HoldPosition", "Bool", func() interface{} { return NewHoldPosition().GetValue() }, func() interface{} { c := NewHoldPosition(); c.SetValue(true); return c.GetValue() }},
	{"Hue", "Float", func() interface{} { return NewHue().GetValue() }, func() interface{} { c := NewHue(); c.SetValue(1.0); return c.GetValue() }},
	{"Identifier", "Int", func() interface{} { return NewIdentifier().GetValue() }, func() interface{} { c := NewIdentifier(); c.SetValue(1); return c.GetValue() }},
	{"Identify", "Bool", func() interface{} { return NewIdentify().GetValue() }, func() interface{} { c := NewIdentify(); c.SetValue(true); return c.GetValue() }},
	{"ImageMirroring", "Bool", func() interface{} { return NewImageMirroring().GetValue() }, func() interface{} { c := NewImageMirroring(); c.SetValue(true); return c.GetValue() }},
	{"ImageRotation", "Float", func() interface{} { return NewImageRotation().GetValue() }, func() interface{} { c := NewImageRotation(); c.SetValue(1.0); return c.GetValue() }},
	{"InUse", "Int", func() interface{} { return NewInUse().GetValue() }, func() interface{} { c := NewInUse(); c.SetValue(1); return c.GetValue() }},
	{"InputDeviceType", "Int", func() interface{} { return NewInputDeviceType().GetValue() }, func() interface{} { c := NewInputDeviceType(); c.SetValue(1); return c.GetValue() }},
	{"InputSourceType", "Int", func() interface{} { return NewInputSourceType().GetValue() }, func() interface{} { c := NewInputSourceType(); c.SetValue(1); return c.GetValue() }},
	{"IsConfigured", "Int", func() interface{} { return NewIsConfigured().GetValue() }, func() interface{} { c := NewIsConfigured(); c.SetValue(1); return c.GetValue() }},
	{"LeakDetected", "Int", func() interface{} { return NewLeakDetected().GetValue() }, func() interface{} { c := NewLeakDetected(); c.SetValue(1); return c.GetValue() }},
	{"LinkQuality", "Int", func() interface{} { return NewLinkQuality().GetValue() }, func() interface{} { c := NewLinkQuality(); c.SetValue(1); return c.GetValue() }},
	{"LockControlPoint", "Bytes", func() interface{} { return NewLockControlPoint().GetValue() }, func() interface{} { c := NewLockControlPoint(); c.SetValue([]byte{1}); return c.GetValue() }},
	{"LockCurrentState", "Int", func() interface{} { return NewLockCurrentState().GetValue() }, func() interface{} { c := NewLockCurrentState(); c.SetValue(1); return c.GetValue() }},
	{"LockLastKnownAction", "Int", func() interface{} { return NewLockLastKnownAction().GetValue() }, func() interface{} { c := NewLockLastKnownAction(); c.SetValue(1); return c.GetValue() }},
	{"LockManagementAutoSecurityTimeout", "Int", func() interface{} { return NewLockManagementAutoSecurityTimeout().GetValue() }, func() interface{} { c := NewLockManagementAutoSecurityTimeout(); c.SetValue(1); return c.GetValue() }},
	{"LockPhysicalControls", "Int", func() interface{} { return NewLockPhysicalControls().GetValue() }, func() interface{} { c := NewLockPhysicalControls(); c.SetValue(1); return c.GetValue() }},
	{"LockTargetState", "Int", func() interface{} { return NewLockTargetState().GetValue() }, func() interface{} { c := NewLockTargetState(); c.SetValue(1); return c.GetValue() }},
	{"Logs", "Bytes", func() interface{} { return NewLogs().GetValue() }, func() interface{} { c := NewLogs(); c.SetValue([]byte{1}); return c.GetValue() }},
	{"Manufacturer", "String", func() interface{} { return NewManufacturer().GetValue() }, func() interface{} { c := NewManufacturer(); c.SetValue("x"); return c.GetValue() }},
	{"Model", "String", func() interface{} { return NewModel().GetValue() }, func() interface{} { c := NewModel(); c.SetValue("x"); return c.GetValue() }},
	{"MotionDetected", "Bool", func() interface{} { return NewMotionDetected().GetValue() }, func() interface{} { c := NewMotionDetected(); c.SetValue(true); return c.GetValue() }},
	{"Mute", "Bool", func() interface{} { return NewMute().GetValue() }, func() interface{} { c := NewMute(); c.SetValue(true); return c.GetValue() }},
	{"Name", "String", func() interface{} { return NewName().GetValue() }, func() interface{} { c := NewName(); c.SetValue("x"); return c.GetValue() }},
	{"NightVision", "Bool", func() interface{} { return NewNightVision().GetValue() }, func() interface{} { c := NewNightVision(); c.SetValue(true); return c.GetValue() }},
	{"NitrogenDioxideDensity", "Float", func() interface{} { return NewNitrogenDioxideDensity().GetValue() }, func() interface{} { c := NewNitrogenDioxideDensity(); c.SetValue(1.0); return c.GetValue() }},
	{"ObstructionDetected", "Bool", func() interface{} { return NewObstructionDetected().GetValue() }, func() interface{} { c := NewObstructionDetected(); c.SetValue(true); return c.GetValue() }},
	{"OccupancyDetected", "Int", func() interface{} { return NewOccupancyDetected().GetValue() }, func() interface{} { c := NewOccupancyDetected(); c.SetValue(1); return c.GetValue() }},
	{"On", "Bool", func() interface{} { return NewOn().GetValue() }, func() interface{} { c := NewOn(); c.SetValue(true); return c.GetValue() }},
	{"OpticalZoom", "Float", func() interface{} { return NewOpticalZoom().GetValue() }, func() interface{} { c := NewOpticalZoom(); c.SetValue(1.0); return c.GetValue() }},
	{"OutletInUse", "Bool", func() interface{} { return NewOutletInUse().GetValue() }, func() interface{} { c := NewOutletInUse(); c.SetValue(true); return c.GetValue() }},
	{"OzoneDensity", "Float", func() interface{} { return NewOzoneDensity().GetValue() }, func() interface{} { c := NewOzoneDensity(); c.SetValue(1.0); return c.GetValue() }},
	{"PairSetup", "Bytes", func() interface{} { return NewPairSetup().GetValue() }, func() interface{} { c := NewPairSetup(); c.SetValue([]byte{1}); return c.GetValue() }},
	{"PairVerify", "Bytes", func() interface{} { return NewPairVerify().GetValue() }, func() interface{} { c := NewPairVerify(); c.SetValue([]byte{1}); return c.GetValue() }},
	{"PairingFeatures", "Int", func() interface{} { return NewPairingFeatures().GetValue() }, func() interface{} { c := NewPairingFeatures(); c.SetValue(1); return c.GetValue() }},
	{"PairingPairings", "Bytes", func() interface{} { return NewPairingPairings().GetValue() }, func() interface{} { c := NewPairingPairings(); c.SetValue([]byte{1}); return c.GetValue() }},
	{"PictureMode", "Int", func() interface{} { return NewPictureMode().GetValue() }, func() interface{} { c := NewPictureMode(); c.SetValue(1); return c.GetValue() }},
	{"PM10Density", "Float", func() interface{} { return NewPM10Density().GetValue() }, func() interface{} { c := NewPM10Density(); c.SetValue(1.0); return c.GetValue() }},
	{"PM2_5Density", "Float", func() interface{} { return NewPM2_5Density().GetValue() }, func() interface{} { c := NewPM2_5Density(); c.SetValue(1.0); return c.GetValue() }},
	{"PositionState", "Int", func() interface{} { return NewPositionState().GetValue() }, func() interface{} { c := NewPositionState(); c.SetValue(1); return c.GetValue() }},
	{"PowerModeSelection", "Int", func() interface{} { return NewPowerModeSelection().GetValue() }, func() interface{} { c := NewPowerModeSelection(); c.SetValue(1); return c.GetValue() }},
	{"ProgramMode", "Int", func() interface{} { return NewProgramMode().GetValue() }, func() interface{} { c := NewProgramMode(); c.SetValue(1); return c.GetValue() }},
	{"ProgrammableSwitchEvent", "Int", func() interface{} { return NewProgrammableSwitchEvent().GetValue() }, func() interface{} { c := NewProgrammableSwitchEvent(); c.SetValue(1); return c.GetValue() }},
	{"ProgrammableSwitchOutputState", "Int", func() interface{} { return NewProgrammableSwitchOutputState().GetValue() }, func() interface{} { c := NewProgrammableSwitchOutputState(); c.SetValue(1); return c.GetValue() }},
	{"Reachable", "Bool", func() interface{} { return NewReachable().GetValue() }, func() interface{} { c := NewReachable(); c.SetValue(true); return c.GetValue() }},
	{"RelativeHumidityDehumidifierThreshold", "Float", func() interface{} { return NewRelativeHumidityDehumidifierThreshold().GetValue() }, func() interface{} {
		c := NewRelativeHumidityDehumidifierThreshold()
		c.SetValue(1.0)
		return c.GetValue()
	}},
	{"RelativeHumidityHumidifierThreshold", "Float", func() interface{} { return NewRelativeHumidityHumidifierThreshold().GetValue() }, func() interface{} {
		c := NewRelativeHumidityHumidifierThreshold()
		c.SetValue(1.0)
		return c.GetValue()
	}},
	{"RemainingDuration", "Int", func() interface{} { return NewRemainingDuration().GetValue() }, func() interface{} { c := NewRemainingDuration(); c.SetValue(1); return c.GetValue() }},
	{"RemoteKey", "Int", func() interface{} { return NewRemoteKey().GetValue() }, func() interface{} { c := NewRemoteKey(); c.SetValue(1); return c.GetValue() }},
	{"ResetFilterIndication", "Int", func() interface{} { return NewResetFilterIndication().GetValue() }, func() interface{} { c := NewResetFilterIndication(); c.SetValue(1); return c.GetValue() }},
	{"RotationDirection", "Int", func() interface{} { return NewRotationDirection().GetValue() }, func() interface{} { c := NewRotationDirection(); c.SetValue(1); return c.GetValue() }},
	{"RotationSpeed", "Float", func() interface{} { return NewRotationSpeed().GetValue() }, func() interface{} { c := NewRotationSpeed(); c.SetValue(1.0); return c.GetValue() }},
	{"Saturation", "Float", func() interface{} { return NewSaturation().GetValue() }, func() interface{} { c := NewSaturation(); c.SetValue(1.0); return c.GetValue() }},
	{"SecuritySystemAlarmType", "Int", func() interface{} { return NewSecuritySystemAlarmType().GetValue() }, func() interface{} { c := NewSecuritySystemAlarmType(); c.SetValue(1); return c.GetValue() }},
	{"SecuritySystemCurrentState", "Int", func() interface{} { return NewSecuritySystemCurrentState().GetValue() }, func() interface{} { c := NewSecuritySystemCurrentState(); c.SetValue(1); return c.GetValue() }},
	{"SecuritySystemTargetState", "Int", func() interface{} { return NewSecuritySystemTargetState().GetValue() }, func() interface{} { c := NewSecuritySystemTargetState(); c.SetValue(1); return c.GetValue() }},
	{"SelectedCameraRecordingConfiguration", "Bytes", func() interface{} { return NewSelectedCameraRecordingConfiguration().GetValue() }, func() interface{} {
		c := NewSelectedCameraRecordingConfiguration()
		c.SetValue([]byte{1})
		return c.GetValue()
	}},
	{"SelectedRTPStreamConfiguration", "Bytes", func() interface{} { return NewSelectedRTPStreamConfiguration().GetValue() }, func() interface{} {
		c := NewSelectedRTPStreamConfiguration()
		c.SetValue([]byte{1})
		return c.GetValue()
	}},
	{"SelectedStreamConfiguration", "Bytes", func() interface{} { return NewSelectedStreamConfiguration().GetValue() }, func() interface{} { c := NewSelectedStreamConfiguration(); c.SetValue([]byte{1}); return c.GetValue() }},
	{"SerialNumber", "String", func() interface{} { return NewSerialNumber().GetValue() }, func() interface{} { c := NewSerialNumber(); c.SetValue("x"); return c.GetValue() }},
	{"ServiceLabelIndex", "Int", func() interface{} { return NewServiceLabelIndex().GetValue() }, func() interface{} { c := NewServiceLabelIndex(); c.SetValue(1); return c.GetValue() }},
	{"ServiceLabelNamespace", "Int", func() interface{} { return NewServiceLabelNamespace().GetValue() }, func() interface{} { c := NewServiceLabelNamespace(); c.SetValue(1); return c.GetValue() }},
	{"SetDuration", "Int", func() interface{} { return NewSetDuration().GetValue() }, func() interface{} { c := NewSetDuration(); c.SetValue(1); return c.GetValue() }},
	{"SetupEndpoints", "Bytes", func() interface{} { return NewSetupEndpoints().GetValue() }, func() interface{} { c := NewSetupEndpoints(); c.SetValue([]byte{1}); return c.GetValue() }},
	{"SlatType", "Int", func() interface{} { return NewSlatType().GetValue() }, func() interface{} { c := NewSlatType(); c.SetValue(1); return c.GetValue() }},
	{"SleepDiscoveryMode", "Int", func() interface{} { return NewSleepDiscoveryMode().GetValue() }, func() interface{} { c := NewSleepDiscoveryMode(); c.SetValue(1); return c.GetValue() }},
	{"SmokeDetected", "Int", func() interface{} { return NewSmokeDetected().GetValue() }, func() interface{} { c := NewSmokeDetected(); c.SetValue(1); return c.GetValue() }},
	{"SoftwareRevision", "String", func() interface{} { return NewSoftwareRevision().GetValue() }, func() interface{} { c := NewSoftwareRevision(); c.SetValue("x"); return c.GetValue() }},
	{"StatusActive", "Bool", func() interface{} { return NewStatusActive().GetValue() }, func() interface{} { c := NewStatusActive(); c.SetValue(true); return c.GetValue() }},
	{"StatusFault", "Int", func() interface{} { return NewStatusFault().GetValue() }, func() interface{} { c := NewStatusFault(); c.SetValue(1); return c.GetValue() }},
	{"StatusJammed", "Int", func() interface{} { return NewStatusJammed().GetValue() }, func() interface{} { c := NewStatusJammed(); c.SetValue(1); return c.GetValue() }},
	{"StatusLowBattery", "Int", func() interface{} { return NewStatusLowBattery().GetValue() }, func() interface{} { c := NewStatusLowBattery(); c.SetValue(1); return c.GetValue() }},
	{"StatusTampered", "Int", func() interface{} { return NewStatusTampered().GetValue() }, func() interface{} { c := NewStatusTampered(); c.SetValue(1); return c.GetValue() }},
	{"StreamingStatus", "Bytes", func() interface{} { return NewStreamingStatus().GetValue() }, func() interface{} { c := NewStreamingStatus(); c.SetValue([]byte{1}); return c.GetValue() }},
	{"SulphurDioxideDensity", "Float", func() interface{} { return NewSulphurDioxideDensity().GetValue() }, func() interface{} { c := NewSulphurDioxideDensity(); c.SetValue(1.0); return c.GetValue() }},
	{"SupportedAudioRecordingConfiguration", "Bytes", func() interface{} { return NewSupportedAudioRecordingConfiguration().GetValue() }, func() interface{} {
		c := NewSupportedAudioRecordingConfiguration()
		c.SetValue([]byte{1})
		return c.GetValue()
	}},
	{"SupportedAudioStreamConfiguration", "Bytes", func() interface{} { return NewSupportedAudioStreamConfiguration().GetValue() }, func() interface{} {
		c := NewSupportedAudioStreamConfiguration()
		c.SetValue([]byte{1})
		return c.GetValue()
	}},
	{"SupportedCameraRecordingConfiguration", "Bytes", func() interface{} { return NewSupportedCameraRecordingConfiguration().GetValue() }, func() interface{} {
		c := NewSupportedCameraRecordingConfiguration()
		c.SetValue([]byte{1})
		return c.GetValue()
	}},
	{"SupportedRTPConfiguration", "Bytes", func() interface{} { return NewSupportedRTPConfiguration().GetValue() }, func() interface{} { c := NewSupportedRTPConfiguration(); c.SetValue([]byte{1}); return c.GetValue() }},
	{"SupportedVideoRecordingConfiguration", "Bytes", func() interface{} { return NewSupportedVideoRecordingConfiguration().GetValue() }, func() interface{} {
		c := NewSupportedVideoRecordingConfiguration()
		c.SetValue([]byte{1})
		return c.GetValue()
	}},
	{"SupportedVideoStreamConfiguration", "Bytes", func() interface{} { return NewSupportedVideoStreamConfiguration().GetValue() }, func() interface{} {
		c := NewSupportedVideoStreamConfiguration()
		c.SetValue([]byte{1})
		return c.GetValue()
	}},
	{"SwingMode", "Int", func() interface{} { return NewSwingMode().GetValue() }, func() interface{} { c := NewSwingMode(); c.SetValue(1); return c.GetValue() }},
	{"TargetAirPurifierState", "Int", func() interface{} { return NewTargetAirPurifierState().GetValue() }, func() interface{} { c := NewTargetAirPurifierState(); c.SetValue(1); return c.GetValue() }},
	{"TargetAirQuality", "Int", func() interface{} { return NewTargetAirQuality().GetValue() }, func() interface{} { c := NewTargetAirQuality(); c.SetValue(1); return c.GetValue() }},
	{"TargetDoorState", "Int", func() interface{} { return NewTargetDoorState().GetValue() }, func() interface{} { c := NewTargetDoorState(); c.SetValue(1); return c.GetValue() }},
	{"TargetFanState", "Int", func() interface{} { return NewTargetFanState().GetValue() }, func() interface{} { c := NewTargetFanState(); c.SetValue(1); return c.GetValue() }},
	{"TargetHeaterCoolerState", "Int", func() interface{} { return NewTargetHeaterCoolerState().GetValue() }, func() interface{} { c := NewTargetHeaterCoolerState(); c.SetValue(1); return c.GetValue() }},
	{"TargetHeatingCoolingState", "Int", func() interface{} { return NewTargetHeatingCoolingState().GetValue() }, func() interface{} { c := NewTargetHeatingCoolingState(); c.SetValue(1); return c.GetValue() }},
	{"TargetHorizontalTiltAngle", "Int", func() interface{} { return NewTargetHorizontalTiltAngle().GetValue() }, func() interface{} { c := NewTargetHorizontalTiltAngle(); c.SetValue(1); return c.GetValue() }},
	{"TargetHumidifierDehumidifierState", "Int", func() interface{} { return NewTargetHumidifierDehumidifierState().GetValue() }, func() interface{} { c := NewTargetHumidifierDehumidifierState(); c.SetValue(1); return c.GetValue() }},
	{"TargetMediaState", "Int", func() interface{} { return NewTargetMediaState().GetValue() }, func() interface{} { c := NewTargetMediaState(); c.SetValue(1); return c.GetValue() }},
	{"TargetPosition", "Int", func() interface{} { return NewTargetPosition().GetValue() }, func() interface{} { c := NewTargetPosition(); c.SetValue(1); return c.GetValue() }},
	{"TargetRelativeHumidity", "Float", func() interface{} { return NewTargetRelativeHumidity().GetValue() }, func() interface{} { c := NewTargetRelativeHumidity(); c.SetValue(1.0); return c.GetValue() }},
	{"TargetSlatState", "Int", func() interface{} { return NewTargetSlatState().GetValue() }, func() interface{} { c := NewTargetSlatState(); c.SetValue(1); return c.GetValue() }},
	{"TargetTemperature", "Float", func() interface{} { return NewTargetTemperature().GetValue() }, func() interface{} { c := NewTargetTemperature(); c.SetValue(1.0); return c.GetValue() }},
	{"TargetTiltAngle", "Int", func() interface{} { return NewTargetTiltAngle().GetValue() }, func() interface{} { c := NewTargetTiltAngle(); c.SetValue(1); return c.GetValue() }},
	{"TargetVerticalTiltAngle", "Int", func() interface{} { return NewTargetVerticalTiltAngle().GetValue() }, func() interface{} { c := NewTargetVerticalTiltAngle(); c.SetValue(1); return c.GetValue() }},
	{"TargetVisibilityState", "Int", func() interface{} { return NewTargetVisibilityState().GetValue() }, func() interface{} { c := NewTargetVisibilityState(); c.SetValue(1); return c.GetValue() }},
	{"TemperatureDisplayUnits", "Int", func() interface{} { return NewTemperatureDisplayUnits().GetValue() }, func() interface{} { c := NewTemperatureDisplayUnits(); c.SetValue(1); return c.GetValue() }},
	{"TimeUpdate", "Bool", func() interface{} { return NewTimeUpdate().GetValue() }, func() interface{} { c := NewTimeUpdate(); c.SetValue(true); return c.GetValue() }},
	{"TunnelConnectionTimeout", "Int", func() interface{} { return NewTunnelConnectionTimeout().GetValue() }, func() interface{} { c := NewTunnelConnectionTimeout(); c.SetValue(1); return c.GetValue() }},
	{"TunneledAccessoryAdvertising", "Bool", func() interface{} { return NewTunneledAccessoryAdvertising().GetValue() }, func() interface{} { c := NewTunneledAccessoryAdvertising(); c.SetValue(true); return c.GetValue() }},
	{"TunneledAccessoryConnected", "Bool", func() interface{} { return NewTunneledAccessoryConnected().GetValue() }, func() interface{} { c := NewTunneledAccessoryConnected(); c.SetValue(true); return c.GetValue() }},
	{"TunneledAccessoryStateNumber", "Float", func() interface{} { return NewTunneledAccessoryStateNumber().GetValue() }, func() interface{} { c := NewTunneledAccessoryStateNumber(); c.SetValue(1.0); return c.GetValue() }},
	{"ValveType", "Int", func() interface{} { return NewValveType().GetValue() }, func() interface{} { c := NewValveType(); c.SetValue(1); return c.GetValue() }},
	{"Version", "String", func() interface{} { return NewVersion().GetValue() }, func() interface{} { c := NewVersion(); c.SetValue("x"); return c.GetValue() }},
	{"VOCDensity", "Float", func() interface{} { return NewVOCDensity().GetValue() }, func() interface{} { c := NewVOCDensity(); c.SetValue(1.0); return c.GetValue() }},
	{"Volume", "Int", func() interface{} { return NewVolume().GetValue() }, func() interface{} { c := NewVolume(); c.SetValue(1); return c.GetValue() }},
	{"VolumeControlType", "Int", func() interface{} { return NewVolumeControlType().GetValue() }, func() interface{} { c := NewVolumeControlType(); c.SetValue(1); return c.GetValue() }},
	{"VolumeSelector", "Int", func() interface{} { return NewVolumeSelector().GetValue() }, func() interface{} { c := NewVolumeSelector(); c.SetValue(1); return c.GetValue() }},
	{"WaterLevel", "Float", func() interface{} { return NewWaterLevel().GetValue() }, func() interface{} { c := NewWaterLevel(); c.SetValue(1.0); return c.GetValue() }},
	{"WifiCapabilities", "Int", func() interface{} { return NewWifiCapabilities().GetValue() }, func() interface{} { c := NewWifiCapabilities(); c.SetValue(1); return c.GetValue() }},
	{"WifiConfigurationControl", "Bytes", func() interface{} { return NewWifiConfigurationControl().GetValue() }, func() interface{} { c := NewWifiConfigurationControl(); c.SetValue([]byte{1}); return c.GetValue() }},
}

package characteristic

import (
	"fmt"
	"testing"
)

func huntCall(fn func() interface{}) (v interface{}, err error) {
	defer func() {
		if r := recover(); r != nil {
			err = fmt.Errorf("panic: %v", r)
		}
	}()
	return fn(), nil
}

// a freshly constructed readable characteristic can be read through its typed getter
func TestHuntTypedGetter(t *testing.T) {
	perms := map[string][]string{}
	for _, k := range huntCtors {
		perms[k.name] = k.mk().Perms
	}
	for _, k := range huntTyped {
		if !readPerm(perms[k.name]) {
			continue
		}
		if _, err := huntCall(k.get); err != nil {
			t.Errorf("New%s().GetValue(): %v", k.name, err)
		}
		if _, err := huntCall(k.setget); err != nil {
			t.Errorf("New%s() SetValue+GetValue: %v", k.name, err)
		}
	}
}

package characteristic

import (
	"encoding/json"
	"strings"
	"testing"
)

// informational probes around the catalog
func TestHuntMiscJSON(t *testing.T) {
	for _, k := range huntCtors {
		c := k.mk()
		b, _ := json.Marshal(c)
		s := string(b)
		if c.IsReadable() && !strings.Contains(s, `"value":`) {
			t.Errorf("New%s: readable characteristic encoded without value: %s", k.name, s)
		}
		for _, key := range []string{`"type":"` + k.declared + `"`, `"format":"` + c.Format + `"`, `"perms":[`} {
			if !strings.Contains(s, key) {
				t.Errorf("New%s: %s missing in %s", k.name, key, s)
			}
		}
	}
}

func TestHuntMiscNegativeInt32(t *testing.T) {
	c := NewTargetHorizontalTiltAngle()
	t.Logf("default %v min %v max %v", c.Value, c.MinValue, c.MaxValue)
	c.SetValue(-45)
	if c.GetValue() != -45 {
		t.Errorf("SetValue(-45): %v", c.GetValue())
	}
	c.UpdateValueFromConnection(float64(-30), TestConn)
	if c.GetValue() != -30 {
		t.Errorf("remote float64(-30): %v", c.GetValue())
	}
	c.UpdateValueFromConnection("-20", TestConn)
	if c.GetValue() != -20 {
		t.Logf("note (outside the catalog property): remote \"-20\" gives %v", c.GetValue())
	}
}

func TestHuntMiscWriteOnly(t *testing.T) {
	for _, k := range huntTyped {
		var perms []string
		for _, c := range huntCtors {
			if c.name == k.name {
				perms = c.mk().Perms
			}
		}
		if readPerm(perms) {
			continue
		}
		_, err1 := huntCall(k.get)
		_, err2 := huntCall(k.setget)
		t.Logf("write-only New%s %v: GetValue: %v; SetValue+GetValue: %v", k.name, perms, err1, err2)
	}
}

package hap

// C06, clause "every byte sequence written into one end of a secure session comes out
// identical at the other end, whatever its length (... multi-frame messages) and however
// the source reader delivers it": the write end is hap.Connection.Write; it reports the
// number of ciphertext bytes, so the standard writers (bufio.Writer, io.Copy) which
// deliver a payload to it panic or stop after the first block.

import (
	"bufio"
	"bytes"
	"encoding/binary"
	"fmt"
	"io"
	"math/rand"
	"net"
	"testing"
	"time"

	"github.com/brutella/hc/crypto"
)

// hunt3Pair returns the accessory end (a *Connection with an active secure session)
// and the controller end (raw TCP + hc's client session, which C06's reference
// harness in crypto/ has shown to be wire-exact).
func hunt3Pair(t *testing.T) (*Connection, net.Conn, crypto.Cryptographer) {
	ln, err := net.Listen("tcp", "127.0.0.1:0")
	if err != nil {
		t.Fatal(err)
	}
	defer ln.Close()
	ch := make(chan net.Conn, 1)
	go func() {
		c, _ := ln.Accept()
		ch <- c
	}()
	cli, err := net.Dial("tcp", ln.Addr().String())
	if err != nil {
		t.Fatal(err)
	}
	srv := <-ch
	ctx := NewContextForSecuredDevice(nil)
	con := NewConnection(srv, ctx)
	var secret [32]byte
	rand.Read(secret[:])
	s, _ := crypto.NewSecureSessionFromSharedKey(secret)
	c, _ := crypto.NewSecureClientSessionFromSharedKey(secret)
	sess := ctx.GetSessionForConnection(srv)
	sess.SetCryptographer(s)
	sess.Decrypter() // activates the keys, as the first read after pair-verify does
	return con, cli, c
}

// readFrames reads frames from the raw socket until want plaintext bytes arrived or the deadline passes.
func readFrames(cli net.Conn, c crypto.Cryptographer, want int, d time.Duration) ([]byte, error) {
	var out []byte
	cli.SetReadDeadline(time.Now().Add(d))
	for len(out) < want {
		var hdr [2]byte
		if _, err := io.ReadFull(cli, hdr[:]); err != nil {
			return out, err
		}
		n := int(binary.LittleEndian.Uint16(hdr[:]))
		frame := make([]byte, 2+n+16)
		copy(frame, hdr[:])
		if _, err := io.ReadFull(cli, frame[2:]); err != nil {
			return out, err
		}
		r, err := c.Decrypt(bytes.NewReader(frame))
		if err != nil {
			return out, err
		}
		var b bytes.Buffer
		b.ReadFrom(r)
		out = append(out, b.Bytes()...)
	}
	return out, nil
}

func TestHunt3ConnWriteCount(t *testing.T) {
	con, cli, c := hunt3Pair(t)
	defer con.Close()
	defer cli.Close()
	for _, l := range []int{0, 1, 3, 1023, 1024, 1025, 2048, 4096, 4097, 10000} {
		p := make([]byte, l)
		rand.Read(p)
		done := make(chan struct{})
		var got []byte
		var rerr error
		go func() {
			got, rerr = readFrames(cli, c, l, 2*time.Second)
			close(done)
		}()
		n, err := con.Write(p)
		<-done
		if rerr != nil || !bytes.Equal(got, p) {
			t.Errorf("len %d: round trip: %v, %d bytes", l, rerr, len(got))
		}
		if n != l || err != nil {
			t.Errorf("len %d: Write returned (%d, %v)", l, n, err)
		}
	}
}

func TestHunt3ConnBufioWriter(t *testing.T) {
	for _, l := range []int{100, 4096, 4097, 5000, 10000} {
		func() {
			con, cli, c := hunt3Pair(t)
			defer con.Close()
			defer cli.Close()
			p := make([]byte, l)
			rand.Read(p)
			done := make(chan struct{})
			var got []byte
			var rerr error
			go func() {
				got, rerr = readFrames(cli, c, l, 2*time.Second)
				close(done)
			}()
			var werr error
			func() {
				defer func() {
					if r := recover(); r != nil {
						werr = fmt.Errorf("panic: %v", r)
					}
				}()
				w := bufio.NewWriterSize(con, 4096)
				if _, err := w.Write(p); err != nil {
					werr = err
					return
				}
				werr = w.Flush()
			}()
			<-done
			if werr != nil || rerr != nil || !bytes.Equal(got, p) {
				t.Errorf("len %d through a 4 KiB bufio.Writer (as net/http uses): writer: %v; reader: %v, %d bytes equal=%v", l, werr, rerr, len(got), bytes.Equal(got, p))
			}
		}()
	}
}

func TestHunt3ConnIoCopy(t *testing.T) {
	for _, l := range []int{100, 5000, 40000} {
		func() {
			con, cli, c := hunt3Pair(t)
			defer con.Close()
			defer cli.Close()
			p := make([]byte, l)
			rand.Read(p)
			done := make(chan struct{})
			var got []byte
			var rerr error
			go func() {
				got, rerr = readFrames(cli, c, l, 2*time.Second)
				close(done)
			}()
			var werr error
			var n int64
			func() {
				defer func() {
					if r := recover(); r != nil {
						werr = fmt.Errorf("panic: %v", r)
					}
				}()
				n, werr = io.Copy(con, struct{ io.Reader }{bytes.NewReader(p)})
			}()
			<-done
			if werr != nil || n != int64(l) || rerr != nil || !bytes.Equal(got, p) {
				t.Errorf("len %d: io.Copy: %d %v; reader: %v, %d bytes equal=%v", l, n, werr, rerr, len(got), bytes.Equal(got, p))
			}
		}()
	}
}

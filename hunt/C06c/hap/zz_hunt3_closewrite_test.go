package hap

// C06, clause "on the wire it is a sequence of frames (2-byte length, ciphertext,
// 16-byte tag)": Connection.Close removes the session from the context and THEN closes
// the socket (connection.go Close). Connection.Write decides between encrypted and
// plain by looking the session up; a write which falls between the two steps of Close
// (the event fan-out and the keep-alive run in other goroutines on a snapshot of
// ActiveConnections) finds no session and sends its bytes in PLAIN TEXT on the still
// open socket of an established secure session. Fix 43 (edd9b84) closed the same
// window inside EncryptedWrite, but not the decision in Write.
//
// The schedule is made deterministic with a net.Conn whose Close waits at its entry,
// i.e. the closing goroutine is held between the two statements of Connection.Close.

import (
	"bytes"
	"io/ioutil"
	"math/rand"
	"net"
	"testing"
	"time"

	"github.com/brutella/hc/crypto"
)

type hunt3GateConn struct {
	net.Conn
	entered, release chan struct{}
}

func (g *hunt3GateConn) Close() error {
	close(g.entered)
	<-g.release
	return g.Conn.Close()
}

func TestHunt3WriteDuringCloseGoesOutInPlainText(t *testing.T) {
	ln, err := net.Listen("tcp", "127.0.0.1:0")
	if err != nil {
		t.Fatal(err)
	}
	defer ln.Close()
	cli, err := net.Dial("tcp", ln.Addr().String())
	if err != nil {
		t.Fatal(err)
	}
	defer cli.Close()
	raw, _ := ln.Accept()
	gate := &hunt3GateConn{Conn: raw, entered: make(chan struct{}), release: make(chan struct{})}
	ctx := NewContextForSecuredDevice(nil)
	con := NewConnection(gate, ctx)
	var secret [32]byte
	rand.Read(secret[:])
	s, _ := crypto.NewSecureSessionFromSharedKey(secret)
	c, _ := crypto.NewSecureClientSessionFromSharedKey(secret)
	ctx.GetSessionForConnection(gate).SetCryptographer(s)
	ctx.GetSessionForConnection(gate).Decrypter()

	// the session is established: a first event arrives as a frame
	ev := []byte("EVENT/1.0 200 OK\r\nContent-Type: application/hap+json\r\nContent-Length: 52\r\n\r\n{\"characteristics\":[{\"aid\":1,\"iid\":10,\"value\":true}]}")
	if _, err := con.Write(ev); err != nil {
		t.Fatal(err)
	}
	if got, err := readFrames(cli, c, len(ev), 2*time.Second); err != nil || !bytes.Equal(got, ev) {
		t.Fatal(err)
	}

	// the connection is being closed (net/http after the last request, or Stop of the
	// transport) while the event fan-out writes the next event
	closed := make(chan struct{})
	go func() { con.Close(); close(closed) }()
	<-gate.entered
	n, werr := con.Write(ev)
	close(gate.release)
	<-closed

	cli.SetReadDeadline(time.Now().Add(2 * time.Second))
	rest, _ := ioutil.ReadAll(cli)
	if bytes.Contains(rest, []byte("\"value\":true")) {
		t.Fatalf("Write returned (%d, %v); the controller received %d bytes of PLAIN TEXT on the secure session: %q", n, werr, len(rest), rest)
	}
}

package hap

// C06, clause "a per-direction 64-bit little-endian frame counter starting at
// zero as nonce" / "all sequences of messages on one session (counter continuity)".
//
// A hap.Connection does not hold its session: every Write looks the session up
// in the context under the address pair of the socket (connection.go getEncrypter).
// When a controller goes away and comes back from the same address and port while
// somebody still holds the old Connection (the net/http goroutine which is about
// to write the response of a slow request, the event fan-out or the keep-alive,
// which work on a snapshot of ActiveConnections), the write on the OLD connection
// finds the NEW connection's session, seals a frame with the new session's key
// and takes its counter value. That frame goes to the dead socket. The first
// frame the new connection really sends carries counter 1 instead of 0: the
// controller cannot authenticate anything on the new session.

import (
	"bytes"
	"math/rand"
	"net"
	"syscall"
	"testing"
	"time"

	"github.com/brutella/hc/crypto"
)

func hunt3DialFrom(t *testing.T, local *net.TCPAddr, to net.Addr) *net.TCPConn {
	d := net.Dialer{LocalAddr: local, Timeout: 2 * time.Second, Control: func(network, address string, c syscall.RawConn) error {
		return c.Control(func(fd uintptr) { syscall.SetsockoptInt(int(fd), syscall.SOL_SOCKET, syscall.SO_REUSEADDR, 1) })
	}}
	var c net.Conn
	var err error
	for i := 0; i < 50; i++ {
		if c, err = d.Dial("tcp", to.String()); err == nil {
			return c.(*net.TCPConn)
		}
		time.Sleep(20 * time.Millisecond)
	}
	t.Fatal(err)
	return nil
}

func TestHunt3OldConnectionTakesCounterOfNewSession(t *testing.T) {
	ln, err := net.Listen("tcp", "127.0.0.1:0")
	if err != nil {
		t.Fatal(err)
	}
	defer ln.Close()
	ctx := NewContextForSecuredDevice(nil)

	// first connection of the controller
	cliA := hunt3DialFrom(t, &net.TCPAddr{IP: net.IPv4(127, 0, 0, 1)}, ln.Addr()) // explicit bind: the port is ours alone
	local := cliA.LocalAddr().(*net.TCPAddr)
	rawA, _ := ln.Accept()
	conA := NewConnection(rawA, ctx)
	var secretA [32]byte
	rand.Read(secretA[:])
	sA, _ := crypto.NewSecureSessionFromSharedKey(secretA)
	ctx.GetSessionForConnection(rawA).SetCryptographer(sA)
	ctx.GetSessionForConnection(rawA).Decrypter()

	// the controller goes away (reset) and comes back from the same port
	cliA.SetLinger(0)
	cliA.Close()
	cliB := hunt3DialFrom(t, local, ln.Addr())
	defer cliB.Close()
	rawB, _ := ln.Accept()
	conB := NewConnection(rawB, ctx)
	defer conB.Close()
	var secretB [32]byte
	rand.Read(secretB[:])
	sB, _ := crypto.NewSecureSessionFromSharedKey(secretB)
	cB, _ := crypto.NewSecureClientSessionFromSharedKey(secretB)
	ctx.GetSessionForConnection(rawB).SetCryptographer(sB)
	ctx.GetSessionForConnection(rawB).Decrypter()

	// the holder of the old connection writes what it had to write (response, event, keep-alive)
	n, err := conA.Write([]byte("HTTP/1.1 204 No Content\r\n\r\n"))
	t.Logf("write on the old connection: %d, %v", n, err)
	conA.Close()

	// first message on the new session
	msg := []byte("EVENT/1.0 200 OK\r\n\r\n")
	if _, err := conB.Write(msg); err != nil {
		t.Fatal(err)
	}
	got, err := readFrames(cliB, cB, len(msg), 2*time.Second)
	if err != nil || !bytes.Equal(got, msg) {
		t.Fatalf("first frame of the new session does not open with counter 0: %v (got %q)", err, got)
	}
}

// Same root cause on the read side (getDecrypter): the old connection still has a
// complete frame of its own session in its read-ahead buffer (a pipelined request).
// When its reader gets to it after the controller has reconnected from the same
// port, the frame is given to the NEW session's decrypter, fails authentication
// there and poisons the new session (decryptErr is permanent): an authentic
// message written into the controller end of the new session never comes out.
func TestHunt3OldConnectionPoisonsDecrypterOfNewSession(t *testing.T) {
	ln, err := net.Listen("tcp", "127.0.0.1:0")
	if err != nil {
		t.Fatal(err)
	}
	defer ln.Close()
	ctx := NewContextForSecuredDevice(nil)

	cliA := hunt3DialFrom(t, &net.TCPAddr{IP: net.IPv4(127, 0, 0, 1)}, ln.Addr())
	local := cliA.LocalAddr().(*net.TCPAddr)
	rawA, _ := ln.Accept()
	conA := NewConnection(rawA, ctx)
	var secretA [32]byte
	rand.Read(secretA[:])
	sA, _ := crypto.NewSecureSessionFromSharedKey(secretA)
	cA, _ := crypto.NewSecureClientSessionFromSharedKey(secretA)
	ctx.GetSessionForConnection(rawA).SetCryptographer(sA)

	// two pipelined messages of one byte each; the server reads the first
	for i := 0; i < 2; i++ {
		enc, _ := cA.Encrypt(bytes.NewReader([]byte{'a' + byte(i)}))
		var b bytes.Buffer
		b.ReadFrom(enc)
		cliA.Write(b.Bytes())
	}
	time.Sleep(100 * time.Millisecond)
	one := make([]byte, 1)
	if n, err := conA.Read(one); n != 1 || err != nil || one[0] != 'a' {
		t.Fatalf("%d %v %q", n, err, one)
	}

	cliA.SetLinger(0)
	cliA.Close()
	cliB := hunt3DialFrom(t, local, ln.Addr())
	defer cliB.Close()
	rawB, _ := ln.Accept()
	conB := NewConnection(rawB, ctx)
	defer conB.Close()
	var secretB [32]byte
	rand.Read(secretB[:])
	sB, _ := crypto.NewSecureSessionFromSharedKey(secretB)
	cB, _ := crypto.NewSecureClientSessionFromSharedKey(secretB)
	ctx.GetSessionForConnection(rawB).SetCryptographer(sB)

	// the reader of the old connection goes on
	n, err := conA.Read(one)
	t.Logf("read on the old connection: %d, %v", n, err)
	conA.Close()

	// first message on the new session
	enc, _ := cB.Encrypt(bytes.NewReader([]byte("hello")))
	var b bytes.Buffer
	b.ReadFrom(enc)
	cliB.Write(b.Bytes())
	rawB.SetReadDeadline(time.Now().Add(2 * time.Second))
	buf := make([]byte, 16)
	n, err = conB.Read(buf)
	if err != nil || string(buf[:n]) != "hello" {
		t.Fatalf("first message of the new session: %q, %v", buf[:n], err)
	}
}

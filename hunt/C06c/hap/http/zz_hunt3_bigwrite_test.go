package http_test

// C06, clause "every byte sequence written into one end of a secure session comes
// out identical at the other end, whatever its length (... multi-frame messages)".
//
// hap.Connection.Write (the write end of the secure session, the net.Conn that
// net/http writes its responses to) returns the number of *ciphertext* bytes
// (len(p) + 18 per frame) instead of len(p). Every standard writer that looks at
// the count breaks: bufio.Writer slices p[n:] and panics, io.Copy reports
// "invalid write result". net/http's connection writer is a 4 KiB bufio.Writer, so a
// handler on the exported Server.Mux that writes a body of 10 000 bytes in one
// Write makes the serving goroutine panic after the body frames have gone out:
// the chunk terminator and the final chunk are never written and the
// connection is closed - the controller receives a truncated HTTP message.

import (
	"bufio"
	"bytes"
	"context"
	"encoding/binary"
	"io"
	"io/ioutil"
	"net"
	gohttp "net/http"
	"strings"
	"sync"
	"testing"
	"time"

	"github.com/brutella/hc/accessory"
	"github.com/brutella/hc/crypto"
	"github.com/brutella/hc/db"
	"github.com/brutella/hc/event"
	"github.com/brutella/hc/hap"
	hchttp "github.com/brutella/hc/hap/http"
)

// addrConn lets the test compute the context key of the server side of its own connection.
type addrConn struct {
	net.Conn
	remote, local net.Addr
}

func (a addrConn) RemoteAddr() net.Addr { return a.remote }
func (a addrConn) LocalAddr() net.Addr  { return a.local }

// secureReader decrypts the frames that arrive on the raw socket.
type secureReader struct {
	c   net.Conn
	dec crypto.Cryptographer
	buf bytes.Buffer
}

func (s *secureReader) Read(p []byte) (int, error) {
	for s.buf.Len() == 0 {
		var hdr [2]byte
		if _, err := io.ReadFull(s.c, hdr[:]); err != nil {
			return 0, err
		}
		n := int(binary.LittleEndian.Uint16(hdr[:]))
		frame := make([]byte, 2+n+16)
		copy(frame, hdr[:])
		if _, err := io.ReadFull(s.c, frame[2:]); err != nil {
			return 0, err
		}
		r, err := s.dec.Decrypt(bytes.NewReader(frame))
		if err != nil {
			return 0, err
		}
		s.buf.ReadFrom(r)
	}
	return s.buf.Read(p)
}

func hunt3BigResponse(t *testing.T, size int) (int, error) {
	database, _ := db.NewTempDatabase()
	device, err := hap.NewSecuredDevice("hunt3", "001-02-003", database)
	if err != nil {
		t.Fatal(err)
	}
	hctx := hap.NewContextForSecuredDevice(device)
	srv := hchttp.NewServer(hchttp.Config{
		Port:      "127.0.0.1:0",
		Context:   hctx,
		Database:  database,
		Container: accessory.NewContainer(),
		Device:    device,
		Mutex:     &sync.Mutex{},
		Emitter:   event.NewEmitter(),
	})
	body := bytes.Repeat([]byte("0123456789abcdef"), size/16+1)[:size]
	srv.Mux.HandleFunc("/big", func(w gohttp.ResponseWriter, r *gohttp.Request) {
		w.Header().Set("Content-Type", "application/octet-stream")
		w.Write(body) // one Write, as any handler does
	})
	ctx, cancel := context.WithCancel(context.Background())
	defer cancel()
	go srv.ListenAndServe(ctx)

	cli, err := net.Dial("tcp", "127.0.0.1:"+srv.Port())
	if err != nil {
		t.Fatal(err)
	}
	defer cli.Close()

	// Stand-in for pair-verify: install the session keys on the server's session of
	// this connection before the first byte is sent (the server is waiting in Peek).
	var sess hap.Session
	for i := 0; i < 200 && sess == nil; i++ {
		sess = hctx.GetSessionForConnection(addrConn{cli, cli.LocalAddr(), cli.RemoteAddr()})
		time.Sleep(5 * time.Millisecond)
	}
	if sess == nil {
		t.Fatal("no session")
	}
	var secret [32]byte
	copy(secret[:], "hunt3 C06 shared secret 32 bytes")
	acc, _ := crypto.NewSecureSessionFromSharedKey(secret)
	ctl, _ := crypto.NewSecureClientSessionFromSharedKey(secret)
	sess.SetCryptographer(acc)

	req := "GET /big HTTP/1.1\r\nHost: x\r\n\r\n"
	enc, _ := ctl.Encrypt(strings.NewReader(req))
	wire, _ := ioutil.ReadAll(enc)
	if _, err := cli.Write(wire); err != nil {
		t.Fatal(err)
	}

	cli.SetReadDeadline(time.Now().Add(5 * time.Second))
	resp, err := gohttp.ReadResponse(bufio.NewReader(&secureReader{c: cli, dec: ctl}), nil)
	if err != nil {
		return 0, err
	}
	got, err := ioutil.ReadAll(resp.Body)
	if err == nil && !bytes.Equal(got, body) {
		t.Errorf("size %d: body differs", size)
	}
	return len(got), err
}

func TestHunt3BigResponseOverSecureSession(t *testing.T) {
	for _, size := range []int{1000, 4000, 10000, 100000} {
		n, err := hunt3BigResponse(t, size)
		if err != nil || n != size {
			t.Errorf("response body of %d bytes written with one Write: controller got %d bytes, err = %v", size, n, err)
		}
	}
}

package http_test

import (
	"bufio"
	"bytes"
	"context"
	"fmt"
	"io/ioutil"
	"net"
	gohttp "net/http"
	"sync"
	"testing"
	"time"

	"github.com/brutella/hc/accessory"
	"github.com/brutella/hc/db"
	"github.com/brutella/hc/event"
	"github.com/brutella/hc/hap"
	hchttp "github.com/brutella/hc/hap/http"
)

// Probe (found nothing): hc's own large responses (GET /accessories with 1..300 accessories,
// 1 KB .. 400 KB) go through the 2048-byte chunked writer and arrive intact, several
// requests on one session (counter continuity).
func TestHunt3ProbeAccessoriesSizes(t *testing.T) {
	for _, count := range []int{1, 2, 3, 5, 8, 13, 50, 300} {
		database, _ := db.NewTempDatabase()
		device, _ := hap.NewSecuredDevice("hunt3", "001-02-003", database)
		hctx := hap.NewContextForSecuredDevice(device)
		container := accessory.NewContainer()
		for i := 0; i < count; i++ {
			container.AddAccessory(accessory.NewSwitch(accessory.Info{Name: fmt.Sprintf("switch %d", i)}).Accessory)
		}
		srv := hchttp.NewServer(hchttp.Config{Port: "127.0.0.1:0", Context: hctx, Database: database, Container: container, Device: device, Mutex: &sync.Mutex{}, Emitter: event.NewEmitter()})
		ctx, cancel := context.WithCancel(context.Background())
		go srv.ListenAndServe(ctx)
		cli, err := net.Dial("tcp", "127.0.0.1:"+srv.Port())
		if err != nil {
			t.Fatal(err)
		}
		_, ctl := hunt3Keys(t, hctx, cli, nil, "hunt3 C06 probe accessories 32 b")
		want, _ := hchttp.JSONEncode(container)
		rd := bufio.NewReader(&secureReader{c: cli, dec: ctl})
		for k := 0; k < 3; k++ {
			hunt3Send(t, cli, ctl, "GET /accessories HTTP/1.1\r\nHost: x\r\n\r\n")
			cli.SetReadDeadline(time.Now().Add(5 * time.Second))
			resp, err := gohttp.ReadResponse(rd, nil)
			if err != nil {
				t.Fatalf("count %d: %v", count, err)
			}
			got, err := ioutil.ReadAll(resp.Body)
			if err != nil || !bytes.Equal(got, want.Bytes()) {
				t.Fatalf("count %d: %d of %d bytes, %v", count, len(got), want.Len(), err)
			}
		}
		t.Logf("count %d: %d bytes ok", count, want.Len())
		cli.Close()
		cancel()
	}
}

package http_test

// C06, clause "a per-direction 64-bit little-endian frame counter starting at zero
// as nonce" (counter continuity on one session), end to end through hc's HTTP server.
//
// History: a controller writes a characteristic; the application's
// OnValueRemoteUpdate callback takes a while; the controller's connection is reset
// and it reconnects from the same address and port (new session, new keys). When
// the callback returns, net/http writes the 204 of the old request to the old
// hap.Connection. Connection.Write looks the session up by address pair
// (hap/connection.go getEncrypter), finds the NEW session, seals the response
// with the new key and counter 0 and sends it to the dead socket. The response to
// the first request on the new connection is then sealed with counter 1: the
// controller cannot open it.

import (
	"bufio"
	"context"
	"fmt"
	"io/ioutil"
	"net"
	gohttp "net/http"
	"strings"
	"sync"
	"syscall"
	"testing"
	"time"

	"github.com/brutella/hc/accessory"
	"github.com/brutella/hc/crypto"
	"github.com/brutella/hc/db"
	"github.com/brutella/hc/event"
	"github.com/brutella/hc/hap"
	hchttp "github.com/brutella/hc/hap/http"
)

func hunt3DialFrom(t *testing.T, local *net.TCPAddr, to string) *net.TCPConn {
	d := net.Dialer{LocalAddr: local, Timeout: 2 * time.Second, Control: func(network, address string, c syscall.RawConn) error {
		return c.Control(func(fd uintptr) { syscall.SetsockoptInt(int(fd), syscall.SOL_SOCKET, syscall.SO_REUSEADDR, 1) })
	}}
	var c net.Conn
	var err error
	for i := 0; i < 50; i++ {
		if c, err = d.Dial("tcp", to); err == nil {
			return c.(*net.TCPConn)
		}
		time.Sleep(20 * time.Millisecond)
	}
	t.Fatal(err)
	return nil
}

// hunt3Keys stands in for pair-verify: it installs fresh session keys on the server's
// session of the connection (other than `not`) before the first byte is sent.
func hunt3Keys(t *testing.T, hctx hap.Context, cli net.Conn, not hap.Session, label string) (hap.Session, crypto.Cryptographer) {
	var sess hap.Session
	for i := 0; i < 400; i++ {
		sess = hctx.GetSessionForConnection(addrConn{cli, cli.LocalAddr(), cli.RemoteAddr()})
		if sess != nil && sess != not {
			break
		}
		sess = nil
		time.Sleep(5 * time.Millisecond)
	}
	if sess == nil {
		t.Fatal("no session")
	}
	var secret [32]byte
	copy(secret[:], label)
	acc, _ := crypto.NewSecureSessionFromSharedKey(secret)
	ctl, _ := crypto.NewSecureClientSessionFromSharedKey(secret)
	sess.SetCryptographer(acc)
	return sess, ctl
}

func hunt3Send(t *testing.T, cli net.Conn, ctl crypto.Cryptographer, req string) {
	enc, _ := ctl.Encrypt(strings.NewReader(req))
	wire, _ := ioutil.ReadAll(enc)
	if _, err := cli.Write(wire); err != nil {
		t.Fatal(err)
	}
}

func TestHunt3ReconnectFromSamePortWhileRequestPending(t *testing.T) {
	database, _ := db.NewTempDatabase()
	device, err := hap.NewSecuredDevice("hunt3", "001-02-003", database)
	if err != nil {
		t.Fatal(err)
	}
	hctx := hap.NewContextForSecuredDevice(device)
	sw := accessory.NewSwitch(accessory.Info{Name: "switch"})
	container := accessory.NewContainer()
	container.AddAccessory(sw.Accessory)
	entered := make(chan struct{})
	release := make(chan struct{})
	returned := make(chan struct{})
	sw.Switch.On.OnValueRemoteUpdate(func(on bool) {
		close(entered)
		<-release
		close(returned)
	})
	srv := hchttp.NewServer(hchttp.Config{
		Port:      "127.0.0.1:0",
		Context:   hctx,
		Database:  database,
		Container: container,
		Device:    device,
		Mutex:     &sync.Mutex{},
		Emitter:   event.NewEmitter(),
	})
	ctx, cancel := context.WithCancel(context.Background())
	defer cancel()
	go srv.ListenAndServe(ctx)
	addr := "127.0.0.1:" + srv.Port()

	// first connection: a write whose callback is slow
	cliA := hunt3DialFrom(t, &net.TCPAddr{IP: net.IPv4(127, 0, 0, 1)}, addr)
	local := cliA.LocalAddr().(*net.TCPAddr)
	sessA, ctlA := hunt3Keys(t, hctx, cliA, nil, "hunt3 C06 first session  32 byte")
	body := fmt.Sprintf(`{"characteristics":[{"aid":%d,"iid":%d,"value":true}]}`, sw.Accessory.ID, sw.Switch.On.ID)
	hunt3Send(t, cliA, ctlA, fmt.Sprintf("PUT /characteristics HTTP/1.1\r\nHost: x\r\nContent-Length: %d\r\n\r\n%s", len(body), body))
	select {
	case <-entered:
	case <-time.After(3 * time.Second):
		t.Fatal("callback not called")
	}

	// the connection is reset; the controller comes back from the same port
	cliA.SetLinger(0)
	cliA.Close()
	cliB := hunt3DialFrom(t, local, addr)
	defer cliB.Close()
	_, ctlB := hunt3Keys(t, hctx, cliB, sessA, "hunt3 C06 second session 32 byte")

	rd := bufio.NewReader(&secureReader{c: cliB, dec: ctlB})
	get := func() error {
		hunt3Send(t, cliB, ctlB, "GET /accessories HTTP/1.1\r\nHost: x\r\n\r\n")
		cliB.SetReadDeadline(time.Now().Add(3 * time.Second))
		resp, err := gohttp.ReadResponse(rd, nil)
		if err != nil {
			return err
		}
		b, err := ioutil.ReadAll(resp.Body)
		if err != nil || resp.StatusCode != 200 {
			return fmt.Errorf("status %d, %d bytes, %v", resp.StatusCode, len(b), err)
		}
		return nil
	}

	// the new session works
	if err := get(); err != nil {
		t.Fatal(err)
	}

	// the callback returns, the old request is answered
	close(release)
	<-returned
	time.Sleep(300 * time.Millisecond)

	// next request on the new session
	if err := get(); err != nil {
		t.Fatalf("the second response on the new session cannot be opened with the next frame counter: %v", err)
	}
}

package hap

import (
	"bytes"
	"io/ioutil"
	"testing"
	"time"
)

// Statistical variant of TestHunt3WriteDuringCloseGoesOutInPlainText with real sockets and
// no gate: one goroutine writes events, another closes the connection.
func TestHunt3WriteDuringCloseStatistical(t *testing.T) {
	if testing.Short() {
		t.Skip()
	}
	ev := []byte("EVENT/1.0 200 OK\r\n\r\n{\"characteristics\":[{\"aid\":1,\"iid\":10,\"value\":true}]}")
	hits, rounds := 0, 3000
	for i := 0; i < rounds; i++ {
		con, cli, _ := hunt3Pair(t)
		done := make(chan struct{})
		go func() {
			for {
				if _, err := con.Write(ev); err != nil {
					break
				}
			}
			close(done)
		}()
		time.Sleep(time.Duration(i%200) * time.Microsecond)
		con.Close()
		<-done
		cli.SetReadDeadline(time.Now().Add(time.Second))
		all, _ := ioutil.ReadAll(cli)
		if bytes.Contains(all, []byte("\"value\":true")) {
			hits++
		}
		cli.Close()
	}
	if hits > 0 {
		t.Fatalf("%d of %d closed connections carried a plain-text event", hits, rounds)
	}
}

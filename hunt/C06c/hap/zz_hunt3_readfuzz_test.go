package hap

import (
	"bytes"
	"io/ioutil"
	"math/rand"
	"net"
	"testing"
	"time"
)

// Probe: controller -> accessory; wire bytes dribbled in random pieces, reader uses random
// buffer sizes and short read deadlines (time-outs inside frames). Found nothing.
func TestHunt3ReadFuzz(t *testing.T) {
	rnd := rand.New(rand.NewSource(3))
	for round := 0; round < 30; round++ {
		con, cli, c := hunt3Pair(t)
		var all []byte
		var wire []byte
		for m := 0; m < 6; m++ {
			ls := []int{1, 2, 1023, 1024, 1025, 2047, 2048, 2049, 3072, 4096, 4097, rnd.Intn(6000) + 1}
			p := make([]byte, ls[rnd.Intn(len(ls))])
			rnd.Read(p)
			all = append(all, p...)
			enc, _ := c.Encrypt(bytes.NewReader(p))
			w, _ := ioutil.ReadAll(enc)
			wire = append(wire, w...)
		}
		go func() {
			for len(wire) > 0 {
				n := 1 + rnd.Intn(700)
				if n > len(wire) {
					n = len(wire)
				}
				cli.Write(wire[:n])
				wire = wire[n:]
				if rand.Intn(3) == 0 {
					time.Sleep(time.Duration(rand.Intn(3)) * time.Millisecond)
				}
			}
		}()
		var got []byte
		deadline := time.Now().Add(10 * time.Second)
		for len(got) < len(all) && time.Now().Before(deadline) {
			b := make([]byte, []int{1, 2, 7, 512, 1023, 1024, 1025, 4096, 70000}[rand.Intn(9)])
			con.SetReadDeadline(time.Now().Add(time.Duration(rand.Intn(2000)) * time.Microsecond))
			n, err := con.Read(b)
			got = append(got, b[:n]...)
			if err != nil {
				if ne, ok := err.(net.Error); ok && ne.Timeout() {
					continue
				}
				t.Fatalf("round %d: %v after %d of %d", round, err, len(got), len(all))
			}
		}
		if !bytes.Equal(got, all) {
			t.Fatalf("round %d: got %d of %d bytes, equal=false", round, len(got), len(all))
		}
		con.Close()
		cli.Close()
	}
}

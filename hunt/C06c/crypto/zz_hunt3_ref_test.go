package crypto

// Probe harness (hunt 3, C06): independent reference framing vs. hc's secure session.

import (
	"bytes"
	"crypto/hmac"
	"crypto/sha512"
	"encoding/binary"
	"io"
	"io/ioutil"
	"math/rand"
	"testing"
	"testing/iotest"

	"golang.org/x/crypto/chacha20"
	"golang.org/x/crypto/poly1305"
)

func refHKDF(secret, salt, info []byte) []byte {
	m := hmac.New(sha512.New, salt)
	m.Write(secret)
	prk := m.Sum(nil)
	m = hmac.New(sha512.New, prk)
	m.Write(info)
	m.Write([]byte{1})
	return m.Sum(nil)[:32]
}

func refSeal(key []byte, counter uint64, pt []byte) []byte {
	var nonce [12]byte
	binary.LittleEndian.PutUint64(nonce[4:], counter)
	c, err := chacha20.NewUnauthenticatedCipher(key, nonce[:])
	if err != nil {
		panic(err)
	}
	var polyKey [64]byte
	c.XORKeyStream(polyKey[:], polyKey[:]) // block 0
	ct := make([]byte, len(pt))
	c.XORKeyStream(ct, pt)
	var pk [32]byte
	copy(pk[:], polyKey[:32])
	aad := []byte{byte(len(pt)), byte(len(pt) >> 8)}
	var macData []byte
	pad := func(n int) []byte { return make([]byte, (16-n%16)%16) }
	macData = append(macData, aad...)
	macData = append(macData, pad(len(aad))...)
	macData = append(macData, ct...)
	macData = append(macData, pad(len(ct))...)
	var l [16]byte
	binary.LittleEndian.PutUint64(l[:8], uint64(len(aad)))
	binary.LittleEndian.PutUint64(l[8:], uint64(len(ct)))
	macData = append(macData, l[:]...)
	var tag [16]byte
	poly1305.Sum(&tag, macData, &pk)
	out := append([]byte{}, aad...)
	out = append(out, ct...)
	out = append(out, tag[:]...)
	return out
}

func refFrames(key []byte, counter *uint64, payload []byte) []byte {
	var out []byte
	for len(payload) > 0 {
		n := len(payload)
		if n > 1024 {
			n = 1024
		}
		out = append(out, refSeal(key, *counter, payload[:n])...)
		*counter++
		payload = payload[n:]
	}
	return out
}

// refOpen decodes every frame in wire, returns plaintext
func refOpen(t *testing.T, key []byte, counter *uint64, wire []byte) []byte {
	var out []byte
	for len(wire) > 0 {
		if len(wire) < 18 {
			t.Fatalf("trailing %d bytes", len(wire))
		}
		n := int(binary.LittleEndian.Uint16(wire))
		if n > 1024 {
			t.Fatalf("frame of %d bytes", n)
		}
		if len(wire) < 18+n {
			t.Fatalf("short frame")
		}
		var nonce [12]byte
		binary.LittleEndian.PutUint64(nonce[4:], *counter)
		c, _ := chacha20.NewUnauthenticatedCipher(key, nonce[:])
		var polyKey [64]byte
		c.XORKeyStream(polyKey[:], polyKey[:])
		pt := make([]byte, n)
		c.XORKeyStream(pt, wire[2:2+n])
		// verify by re-sealing
		if !bytes.Equal(refSeal(key, *counter, pt), wire[:18+n]) {
			t.Fatalf("frame %d does not authenticate", *counter)
		}
		*counter++
		out = append(out, pt...)
		wire = wire[18+n:]
	}
	return out
}

type chunkReader struct {
	data  []byte
	sizes func() int
	eofWithData bool
	zeroReads bool
	flip bool
}

func (c *chunkReader) Read(p []byte) (int, error) {
	if c.zeroReads {
		c.flip = !c.flip
		if c.flip {
			return 0, nil
		}
	}
	if len(c.data) == 0 {
		return 0, io.EOF
	}
	n := c.sizes()
	if n > len(p) {
		n = len(p)
	}
	if n > len(c.data) {
		n = len(c.data)
	}
	copy(p, c.data[:n])
	c.data = c.data[n:]
	if len(c.data) == 0 && c.eofWithData {
		return n, io.EOF
	}
	return n, nil
}

func readersFor(payload []byte, rnd *rand.Rand) map[string]func() io.Reader {
	cp := func() []byte { return append([]byte{}, payload...) }
	return map[string]func() io.Reader{
		"buffer":    func() io.Reader { return bytes.NewBuffer(cp()) },
		"reader":    func() io.Reader { return bytes.NewReader(cp()) },
		"onebyte":   func() io.Reader { return iotest.OneByteReader(bytes.NewReader(cp())) },
		"half":      func() io.Reader { return iotest.HalfReader(bytes.NewReader(cp())) },
		"dataerr":   func() io.Reader { return iotest.DataErrReader(bytes.NewReader(cp())) },
		"dataerr1":  func() io.Reader { return iotest.DataErrReader(iotest.OneByteReader(bytes.NewReader(cp()))) },
		"rand":      func() io.Reader { return &chunkReader{data: cp(), sizes: func() int { return 1 + rnd.Intn(1500) }} },
		"randeof":   func() io.Reader { return &chunkReader{data: cp(), sizes: func() int { return 1 + rnd.Intn(1500) }, eofWithData: true} },
		"randzero":  func() io.Reader { return &chunkReader{data: cp(), sizes: func() int { return 1 + rnd.Intn(1500) }, eofWithData: true, zeroReads: true} },
		"c1023":     func() io.Reader { return &chunkReader{data: cp(), sizes: func() int { return 1023 }} },
		"c1024eof":  func() io.Reader { return &chunkReader{data: cp(), sizes: func() int { return 1024 }, eofWithData: true} },
		"c1025":     func() io.Reader { return &chunkReader{data: cp(), sizes: func() int { return 1025 }} },
	}
}

func TestHunt3RefExhaustive(t *testing.T) {
	rnd := rand.New(rand.NewSource(7))
	var secret [32]byte
	lengths := []int{}
	for i := 0; i <= 4097; i++ {
		lengths = append(lengths, i)
	}
	for _, l := range []int{5119, 5120, 5121, 8192, 10240, 65535, 65536, 65537, 1 << 20, 1<<20 + 1} {
		lengths = append(lengths, l)
	}
	for _, l := range lengths {
		rnd.Read(secret[:])
		payload := make([]byte, l)
		rnd.Read(payload)
		a2cKey := refHKDF(secret[:], []byte("Control-Salt"), []byte("Control-Read-Encryption-Key"))
		c2aKey := refHKDF(secret[:], []byte("Control-Salt"), []byte("Control-Write-Encryption-Key"))
		for name, mk := range readersFor(payload, rnd) {
			srv, _ := NewSecureSessionFromSharedKey(secret)
			cli, _ := NewSecureClientSessionFromSharedKey(secret)
			var a2c, c2a uint64
			var a2cRef, c2aRef uint64
			// three messages per direction on one session
			for m := 0; m < 3; m++ {
				// accessory -> controller
				enc, err := srv.Encrypt(mk())
				if err != nil {
					t.Fatal(err)
				}
				wire, _ := ioutil.ReadAll(enc)
				want := refFrames(a2cKey, &a2cRef, payload)
				if !bytes.Equal(wire, want) {
					t.Fatalf("len %d reader %s msg %d: wire differs from reference (%d vs %d bytes)", l, name, m, len(wire), len(want))
				}
				if got := refOpen(t, a2cKey, &a2c, wire); !bytes.Equal(got, payload) {
					t.Fatalf("len %d reader %s: ref open differs", l, name)
				}
				dec, err := cli.Decrypt(mkWire(name, wire, rnd))
				if err != nil {
					t.Fatalf("len %d reader %s msg %d: decrypt: %v", l, name, m, err)
				}
				got, _ := ioutil.ReadAll(dec)
				if !bytes.Equal(got, payload) {
					t.Fatalf("len %d reader %s msg %d: round trip differs (%d bytes)", l, name, m, len(got))
				}
				// controller -> accessory
				enc, err = cli.Encrypt(mk())
				if err != nil {
					t.Fatal(err)
				}
				wire, _ = ioutil.ReadAll(enc)
				want = refFrames(c2aKey, &c2aRef, payload)
				if !bytes.Equal(wire, want) {
					t.Fatalf("len %d reader %s msg %d: c2a wire differs from reference", l, name, m)
				}
				_ = c2a
				dec, err = srv.Decrypt(mkWire(name, wire, rnd))
				if err != nil {
					t.Fatalf("len %d reader %s msg %d: decrypt: %v", l, name, m, err)
				}
				got, _ = ioutil.ReadAll(dec)
				if !bytes.Equal(got, payload) {
					t.Fatalf("len %d reader %s msg %d: c2a round trip differs (%d bytes)", l, name, m, len(got))
				}
			}
		}
	}
}

func mkWire(name string, wire []byte, rnd *rand.Rand) io.Reader {
	return readersFor(wire, rnd)[name]()
}

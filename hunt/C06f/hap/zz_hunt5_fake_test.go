package hap

import (
	"bytes"
	"io"
	"math/rand"
	"net"
	"testing"
	"time"

	"github.com/brutella/hc/crypto"
)

type h5timeout struct{}

func (h5timeout) Error() string   { return "i/o timeout" }
func (h5timeout) Timeout() bool   { return true }
func (h5timeout) Temporary() bool { return true }

type h5addr string

func (a h5addr) Network() string { return "tcp" }
func (a h5addr) String() string  { return string(a) }

// h5fake delivers the script: each entry is a chunk of bytes (delivered by one Read, or several if the
// caller's buffer is smaller) or nil = one timeout error; at the end io.EOF.
type h5fake struct {
	script [][]byte
	out    bytes.Buffer
}

func (f *h5fake) Read(p []byte) (int, error) {
	if len(f.script) == 0 {
		return 0, io.EOF
	}
	if f.script[0] == nil {
		f.script = f.script[1:]
		return 0, h5timeout{}
	}
	n := copy(p, f.script[0])
	f.script[0] = f.script[0][n:]
	if len(f.script[0]) == 0 {
		f.script = f.script[1:]
	}
	return n, nil
}
func (f *h5fake) Write(p []byte) (int, error)        { return f.out.Write(p) }
func (f *h5fake) Close() error                       { return nil }
func (f *h5fake) LocalAddr() net.Addr                { return h5addr("1.1.1.1:1") }
func (f *h5fake) RemoteAddr() net.Addr               { return h5addr("2.2.2.2:2") }
func (f *h5fake) SetDeadline(t time.Time) error      { return nil }
func (f *h5fake) SetReadDeadline(t time.Time) error  { return nil }
func (f *h5fake) SetWriteDeadline(t time.Time) error { return nil }

func h5readAll(t *testing.T, lib *Connection, bufsize int, want int) []byte {
	var got []byte
	for i := 0; i < 100000; i++ {
		b := make([]byte, bufsize)
		n, err := lib.Read(b)
		got = append(got, b[:n]...)
		if err == io.EOF {
			if len(got) >= want {
				return got
			}
			// known: EOF may be reported for a zero-length frame; we never send one. Real end: stop.
			return got
		}
		if err != nil {
			if ne, ok := err.(net.Error); ok && ne.Timeout() {
				continue
			}
			t.Fatalf("read: %v after %d bytes", err, len(got))
		}
	}
	t.Fatal("no end")
	return nil
}

// every split position of the wire of [1024-byte frame, 1024-byte frame, 5-byte frame | next message 1-byte],
// a timeout at the split, every interesting read buffer size
func TestHunt5FakeEverySplit(t *testing.T) {
	var secret [32]byte
	rand.New(rand.NewSource(3)).Read(secret[:])
	plain := make([]byte, 2053)
	rand.New(rand.NewSource(4)).Read(plain)
	for _, bufsize := range []int{1, 2, 1023, 1024, 1025, 4096, 8192} {
		ref := h5controller(secret[:])
		wire := append(ref.encrypt(plain, nil), ref.encrypt([]byte{0x42}, nil)...)
		want := append(append([]byte(nil), plain...), 0x42)
		step := 1
		if bufsize == 1 || bufsize == 2 {
			step = 7
		}
		for k := 0; k <= len(wire); k += step {
			for _, withTimeout := range []bool{false, true} {
				f := &h5fake{}
				f.script = append(f.script, append([]byte(nil), wire[:k]...))
				if k == 0 {
					f.script = nil
				}
				if withTimeout {
					f.script = append(f.script, nil)
				}
				if k < len(wire) {
					f.script = append(f.script, append([]byte(nil), wire[k:]...))
				}
				ctx := NewContextForSecuredDevice(nil)
				lib := NewConnection(f, ctx)
				c, _ := crypto.NewSecureSessionFromSharedKey(secret)
				ctx.GetSessionForConnection(f).SetCryptographer(c)
				got := h5readAll(t, lib, bufsize, len(want))
				if !bytes.Equal(got, want) {
					t.Fatalf("bufsize %d split %d timeout %v: got %d bytes, want %d", bufsize, k, withTimeout, len(got), len(want))
				}
			}
		}
	}
}

// random scripts: many messages, random chunks, random timeouts, random buffer sizes per read
func TestHunt5FakeRandom(t *testing.T) {
	for seed := int64(0); seed < 300; seed++ {
		rnd := rand.New(rand.NewSource(seed))
		var secret [32]byte
		rnd.Read(secret[:])
		ref := h5controller(secret[:])
		var want, wire []byte
		for i := 0; i < 1+rnd.Intn(20); i++ {
			l := h5lens[rnd.Intn(len(h5lens))]
			if rnd.Intn(2) == 0 {
				l = 1 + rnd.Intn(2100)
			}
			p := make([]byte, l)
			rnd.Read(p)
			want = append(want, p...)
			var r *rand.Rand
			if rnd.Intn(2) == 0 {
				r = rnd
			}
			wire = append(wire, ref.encrypt(p, r)...)
		}
		f := &h5fake{}
		for len(wire) > 0 {
			n := 1 + rnd.Intn(len(wire))
			if rnd.Intn(2) == 0 && n > 50 {
				n = 1 + rnd.Intn(50)
			}
			f.script = append(f.script, wire[:n])
			wire = wire[n:]
			if rnd.Intn(3) == 0 {
				f.script = append(f.script, nil)
			}
		}
		ctx := NewContextForSecuredDevice(nil)
		lib := NewConnection(f, ctx)
		c, _ := crypto.NewSecureSessionFromSharedKey(secret)
		ctx.GetSessionForConnection(f).SetCryptographer(c)
		var got []byte
		for i := 0; i < 1000000; i++ {
			b := make([]byte, rnd.Intn(3000))
			n, err := lib.Read(b)
			got = append(got, b[:n]...)
			if err == io.EOF {
				break
			}
			if err != nil {
				if ne, ok := err.(net.Error); ok && ne.Timeout() {
					continue
				}
				t.Fatalf("seed %d: %v", seed, err)
			}
		}
		if !bytes.Equal(got, want) {
			t.Fatalf("seed %d: got %d bytes, want %d", seed, len(got), len(want))
		}
	}
}

package hap

import (
	"bytes"
	"math/rand"
	"sync"
	"testing"
	"time"

	"github.com/brutella/hc/crypto"
)

// several goroutines write through one connection (the way events, keep-alive and responses do);
// the reference peer must authenticate every frame in order, and every Write must arrive contiguous.
func TestHunt5ConcurrentWriters(t *testing.T) {
	lib, peer, ctx := h5pair(t)
	defer peer.Close()
	defer lib.Close()
	var secret [32]byte
	rand.New(rand.NewSource(9)).Read(secret[:])
	c, _ := crypto.NewSecureSessionFromSharedKey(secret)
	ctx.GetSessionForConnection(lib.connection).SetCryptographer(c)
	lib.getDecrypter()
	rp := h5controller(secret[:])
	const G, N = 8, 200
	total := 0
	var wg sync.WaitGroup
	msgs := make([][][]byte, G)
	for g := 0; g < G; g++ {
		r := rand.New(rand.NewSource(int64(g)))
		for i := 0; i < N; i++ {
			l := 1 + r.Intn(3000)
			m := bytes.Repeat([]byte{byte('A' + g)}, l)
			msgs[g] = append(msgs[g], m)
			total += l
		}
	}
	for g := 0; g < G; g++ {
		wg.Add(1)
		go func(g int) {
			defer wg.Done()
			for _, m := range msgs[g] {
				if _, err := lib.Write(m); err != nil {
					t.Error(err)
					return
				}
			}
		}(g)
	}
	peer.SetReadDeadline(time.Now().Add(30 * time.Second))
	var got []byte
	for len(got) < total {
		f, err := rp.readFrame(peer)
		if err != nil {
			t.Fatalf("frame %d: %v", rp.decN, err)
		}
		got = append(got, f...)
	}
	wg.Wait()
	// check runs: consume per goroutine in order
	idx := make([]int, G)
	for len(got) > 0 {
		g := int(got[0] - 'A')
		if g < 0 || g >= G || idx[g] >= N {
			t.Fatal("garbage")
		}
		m := msgs[g][idx[g]]
		if len(got) < len(m) || !bytes.Equal(got[:len(m)], m) {
			t.Fatalf("message %d of writer %d is not contiguous", idx[g], g)
		}
		got = got[len(m):]
		idx[g]++
	}
}

package hap

import (
	"bufio"
	"bytes"
	"fmt"
	"io"
	"io/ioutil"
	"math/rand"
	"net"
	"net/http"
	"testing"
	"time"

	"github.com/brutella/hc/crypto"
)

type h5listener struct {
	net.Listener
	ctx    Context
	secret [32]byte
}

func (l *h5listener) Accept() (net.Conn, error) {
	c, err := l.Listener.Accept()
	if err != nil {
		return nil, err
	}
	hc := NewConnection(c, l.ctx)
	cr, _ := crypto.NewSecureSessionFromSharedKey(l.secret)
	s := l.ctx.GetSessionForConnection(c)
	s.SetCryptographer(cr)
	s.Decrypter()
	return hc, nil
}

// frameReader decrypts frames from the peer socket
type h5frameReader struct {
	r   io.Reader
	ref *h5ref
	buf []byte
}

func (f *h5frameReader) Read(p []byte) (int, error) {
	for len(f.buf) == 0 {
		b, err := f.ref.readFrame(f.r)
		if err != nil {
			return 0, err
		}
		f.buf = b
	}
	n := copy(p, f.buf)
	f.buf = f.buf[n:]
	return n, nil
}

func TestHunt5HTTPEcho(t *testing.T) {
	ln, err := net.Listen("tcp", "127.0.0.1:0")
	if err != nil {
		t.Skip(err)
	}
	l := &h5listener{Listener: ln, ctx: NewContextForSecuredDevice(nil)}
	rand.New(rand.NewSource(7)).Read(l.secret[:])
	mux := http.NewServeMux()
	mux.HandleFunc("/echo", func(w http.ResponseWriter, r *http.Request) {
		b, err := ioutil.ReadAll(r.Body)
		if err != nil {
			http.Error(w, err.Error(), 500)
			return
		}
		w.Header().Set("Content-Type", "application/octet-stream")
		if r.URL.Query().Get("chunk") != "" {
			NewChunkedWriter(w, 2048).Write(b)
		} else {
			// not one big Write: Connection.Write returns the ciphertext count (known), bufio panics on that
			NewChunkedWriter(w, 1000).Write(b)
		}
	})
	srv := &http.Server{Handler: mux}
	go srv.Serve(l)
	defer srv.Close()

	for seed := int64(0); seed < 8; seed++ {
		rnd := rand.New(rand.NewSource(seed))
		peer, err := net.Dial("tcp", ln.Addr().String())
		if err != nil {
			t.Fatal(err)
		}
		rp := h5controller(l.secret[:])
		br := bufio.NewReader(&h5frameReader{r: peer, ref: rp})
		peer.SetDeadline(time.Now().Add(60 * time.Second))
		for i := 0; i < 150; i++ {
			var l int
			if rnd.Intn(2) == 0 {
				l = h5lens[rnd.Intn(len(h5lens))]
			} else {
				l = rnd.Intn(9000)
			}
			if rnd.Intn(10) == 0 {
				l = 0
			}
			body := make([]byte, l)
			rnd.Read(body)
			pipelined := 1
			if rnd.Intn(4) == 0 {
				pipelined = 2 + rnd.Intn(2)
			}
			var plain bytes.Buffer
			chunk := ""
			if rnd.Intn(2) == 0 {
				chunk = "?chunk=1"
			}
			for k := 0; k < pipelined; k++ {
				// pad the head so that head+body hits frame boundaries too
				pad := rnd.Intn(1100)
				fmt.Fprintf(&plain, "POST /echo%s HTTP/1.1\r\nHost: x\r\nX-Pad: %s\r\nContent-Length: %d\r\n\r\n", chunk, bytes.Repeat([]byte("p"), pad), l)
				plain.Write(body)
			}
			var wire []byte
			switch rnd.Intn(3) {
			case 0:
				wire = rp.encrypt(plain.Bytes(), nil)
			case 1:
				wire = rp.encrypt(plain.Bytes(), rnd)
			case 2: // several separately framed writes
				p := plain.Bytes()
				for len(p) > 0 {
					n := 1 + rnd.Intn(len(p))
					wire = append(wire, rp.encrypt(p[:n], nil)...)
					p = p[n:]
				}
			}
			go func(w []byte, r *rand.Rand) {
				for len(w) > 0 {
					n := len(w)
					if r.Intn(2) == 0 {
						n = 1 + r.Intn(n)
					}
					peer.Write(w[:n])
					w = w[n:]
					if r.Intn(5) == 0 {
						time.Sleep(time.Duration(r.Intn(2000)) * time.Microsecond)
					}
				}
			}(wire, rand.New(rand.NewSource(seed*1000+int64(i))))
			for k := 0; k < pipelined; k++ {
				resp, err := http.ReadResponse(br, nil)
				if err != nil {
					t.Fatalf("seed %d step %d (len %d, pipelined %d/%d): %v", seed, i, l, k, pipelined, err)
				}
				got, err := ioutil.ReadAll(resp.Body)
				if err != nil {
					t.Fatalf("seed %d step %d: body: %v", seed, i, err)
				}
				if resp.StatusCode != 200 || !bytes.Equal(got, body) {
					t.Fatalf("seed %d step %d (len %d, pipelined %d/%d): status %d, %d bytes", seed, i, l, k, pipelined, resp.StatusCode, len(got))
				}
			}
		}
		peer.Close()
	}
}

package hap

import (
	"bytes"
	"crypto/sha512"
	"encoding/binary"
	"io"
	"math/rand"
	"net"
	"sync"
	"testing"
	"time"

	"github.com/brutella/hc/crypto"
	ref "golang.org/x/crypto/chacha20poly1305"
	refhkdf "golang.org/x/crypto/hkdf"
)

type h5ref struct {
	enc, dec   []byte
	encN, decN uint64
}

func h5key(secret []byte, info string) []byte {
	k := make([]byte, 32)
	io.ReadFull(refhkdf.New(sha512.New, secret, []byte("Control-Salt"), []byte(info)), k)
	return k
}

func h5controller(secret []byte) *h5ref {
	return &h5ref{enc: h5key(secret, "Control-Write-Encryption-Key"), dec: h5key(secret, "Control-Read-Encryption-Key")}
}

// frames splits p into frames of at most max plaintext bytes (max<=1024; rnd!=nil: random sizes)
func (e *h5ref) encrypt(p []byte, rnd *rand.Rand) []byte {
	var out []byte
	for len(p) > 0 {
		n := len(p)
		if n > 1024 {
			n = 1024
		}
		if rnd != nil && rnd.Intn(3) == 0 {
			n = 1 + rnd.Intn(n)
		}
		var nonce [12]byte
		binary.LittleEndian.PutUint64(nonce[4:], e.encN)
		e.encN++
		hdr := []byte{byte(n), byte(n >> 8)}
		a, _ := ref.New(e.enc)
		out = append(out, hdr...)
		out = a.Seal(out, nonce[:], p[:n], hdr)
		p = p[n:]
	}
	return out
}

func (e *h5ref) readFrame(r io.Reader) ([]byte, error) {
	var hdr [2]byte
	if _, err := io.ReadFull(r, hdr[:]); err != nil {
		return nil, err
	}
	n := int(binary.LittleEndian.Uint16(hdr[:]))
	body := make([]byte, n+16)
	if _, err := io.ReadFull(r, body); err != nil {
		return nil, err
	}
	var nonce [12]byte
	binary.LittleEndian.PutUint64(nonce[4:], e.decN)
	e.decN++
	a, _ := ref.New(e.dec)
	return a.Open(nil, nonce[:], body, hdr[:])
}

func h5pair(t *testing.T) (lib *Connection, peer net.Conn, ctx Context) {
	ln, err := net.Listen("tcp", "127.0.0.1:0")
	if err != nil {
		t.Skip(err)
	}
	defer ln.Close()
	ch := make(chan net.Conn, 1)
	go func() { c, _ := ln.Accept(); ch <- c }()
	peer, err = net.Dial("tcp", ln.Addr().String())
	if err != nil {
		t.Fatal(err)
	}
	srv := <-ch
	ctx = NewContextForSecuredDevice(nil)
	lib = NewConnection(srv, ctx)
	return
}

var h5lens = []int{1, 2, 15, 16, 17, 254, 255, 256, 1005, 1006, 1007, 1022, 1023, 1024, 1025, 1026, 2047, 2048, 2049, 3071, 3072, 3073, 4077, 4078, 4079, 4095, 4096, 4097, 5000}

func h5run(t *testing.T, seed int64, steps int) {
	rnd := rand.New(rand.NewSource(seed))
	lib, peer, ctx := h5pair(t)
	defer peer.Close()
	defer lib.Close()
	var secret [32]byte
	rnd.Read(secret[:])
	c, _ := crypto.NewSecureSessionFromSharedKey(secret)
	ctx.GetSessionForConnection(lib.connection).SetCryptographer(c)
	lib.getDecrypter() // activates
	rp := h5controller(secret[:])

	// plan
	var toLib, toPeer [][]byte
	for i := 0; i < steps; i++ {
		for _, dst := range []*[][]byte{&toLib, &toPeer} {
			var l int
			if rnd.Intn(2) == 0 {
				l = h5lens[rnd.Intn(len(h5lens))]
			} else {
				l = 1 + rnd.Intn(3000)
			}
			b := make([]byte, l)
			rnd.Read(b)
			*dst = append(*dst, b)
		}
	}
	var wantLib, wantPeer []byte
	for _, m := range toLib {
		wantLib = append(wantLib, m...)
	}
	for _, m := range toPeer {
		wantPeer = append(wantPeer, m...)
	}

	var wg sync.WaitGroup
	errs := make(chan string, 10)
	// peer writer
	wg.Add(1)
	go func() {
		defer wg.Done()
		r := rand.New(rand.NewSource(seed + 1))
		for _, m := range toLib {
			w := rp.encrypt(m, r)
			for len(w) > 0 {
				n := len(w)
				if r.Intn(2) == 0 {
					n = 1 + r.Intn(n)
				}
				if _, err := peer.Write(w[:n]); err != nil {
					errs <- "peer write: " + err.Error()
					return
				}
				w = w[n:]
				if r.Intn(4) == 0 {
					time.Sleep(time.Duration(r.Intn(3)) * time.Millisecond)
				}
			}
		}
	}()
	// peer reader
	var gotPeer []byte
	wg.Add(1)
	go func() {
		defer wg.Done()
		peer.SetReadDeadline(time.Now().Add(20 * time.Second))
		for len(gotPeer) < len(wantPeer) {
			f, err := rp.readFrame(peer)
			if err != nil {
				errs <- "peer read: " + err.Error()
				return
			}
			if len(f) > 1024 {
				errs <- "frame > 1024"
			}
			gotPeer = append(gotPeer, f...)
		}
	}()
	// lib writer
	wg.Add(1)
	go func() {
		defer wg.Done()
		for _, m := range toPeer {
			if _, err := lib.Write(m); err != nil {
				errs <- "lib write: " + err.Error()
				return
			}
		}
	}()
	// lib reader
	var gotLib []byte
	wg.Add(1)
	go func() {
		defer wg.Done()
		r := rand.New(rand.NewSource(seed + 2))
		deadline := time.Now().Add(20 * time.Second)
		for len(gotLib) < len(wantLib) && time.Now().Before(deadline) {
			b := make([]byte, 1+r.Intn(5000))
			if r.Intn(3) == 0 {
				b = make([]byte, 1+r.Intn(8))
			}
			if r.Intn(3) == 0 {
				lib.SetReadDeadline(time.Now().Add(time.Duration(r.Intn(2000)) * time.Microsecond))
			} else {
				lib.SetReadDeadline(time.Now().Add(5 * time.Second))
			}
			n, err := lib.Read(b)
			gotLib = append(gotLib, b[:n]...)
			if err != nil {
				if ne, ok := err.(net.Error); ok && ne.Timeout() {
					continue
				}
				errs <- "lib read: " + err.Error()
				return
			}
		}
	}()
	wg.Wait()
	close(errs)
	for e := range errs {
		t.Error(e)
	}
	if !bytes.Equal(gotLib, wantLib) {
		i := 0
		for i < len(gotLib) && i < len(wantLib) && gotLib[i] == wantLib[i] {
			i++
		}
		t.Fatalf("seed %d: lib received %d bytes, want %d; first difference at %d", seed, len(gotLib), len(wantLib), i)
	}
	if !bytes.Equal(gotPeer, wantPeer) {
		t.Fatalf("seed %d: peer received %d bytes, want %d", seed, len(gotPeer), len(wantPeer))
	}
}

func TestHunt5ConnDifferential(t *testing.T) {
	for seed := int64(1); seed <= 30; seed++ {
		h5run(t, seed*100, 60)
		if t.Failed() {
			return
		}
	}
}

package crypto

import (
	"bytes"
	"errors"
	"io"
	"io/ioutil"
	"math/rand"
	"testing"
	"testing/iotest"
)

// long random histories on one session pair, counters started near 2^32 and 2^64, both directions
// interleaved, against the reference; several messages concatenated into one reader for Decrypt.
func TestHunt5Sequences(t *testing.T) {
	names := []string{"full", "buffer", "half", "dataerr", "dataerrhalf", "rand", "randeof"}
	for _, start := range []uint64{0, 1<<32 - 40, 1<<64 - 40, 1<<63 - 40, 1<<16 - 40} {
		for seed := int64(0); seed < 6; seed++ {
			rnd := rand.New(rand.NewSource(seed))
			var secret [32]byte
			rnd.Read(secret[:])
			srv, _ := NewSecureSessionFromSharedKey(secret)
			rc := newRef(secret[:], false)
			rs := newRef(secret[:], true)
			s := srv.(*secureSession)
			s.encryptCount, s.decryptCount = start, start
			rc.encN, rc.decN, rs.encN = start, start, start
			var pending, pendingPlain []byte
			for i := 0; i < 400; i++ {
				l := []int{0, 1, 1023, 1024, 1025, 2047, 2048, 2049, 3072, 4096, rnd.Intn(5000)}[rnd.Intn(11)]
				p := make([]byte, l)
				rnd.Read(p)
				ch := chunkers[names[rnd.Intn(len(names))]]
				if rnd.Intn(2) == 0 {
					er, err := srv.Encrypt(ch(p))
					if err != nil {
						t.Fatal(err)
					}
					wire, _ := ioutil.ReadAll(er)
					if !bytes.Equal(wire, rs.encrypt(p)) {
						t.Fatalf("start %d seed %d step %d: wire differs", start, seed, i)
					}
					if got := rc.decrypt(t, wire); !bytes.Equal(got, p) {
						t.Fatalf("start %d seed %d step %d: ref decrypt differs", start, seed, i)
					}
				} else {
					pending = append(pending, rc.encrypt(p)...)
					pendingPlain = append(pendingPlain, p...)
					if rnd.Intn(3) == 0 {
						continue // deliver together with the next message
					}
					r := ch(pending)
					var got []byte
					for k := 0; len(got) < len(pendingPlain) && k < 100; k++ {
						dr, err := srv.Decrypt(r)
						if err != nil {
							t.Fatalf("start %d seed %d step %d: %v", start, seed, i, err)
						}
						b, _ := ioutil.ReadAll(dr)
						got = append(got, b...)
					}
					if !bytes.Equal(got, pendingPlain) {
						t.Fatalf("start %d seed %d step %d: got %d want %d bytes", start, seed, i, len(got), len(pendingPlain))
					}
					pending, pendingPlain = nil, nil
				}
			}
		}
	}
}

// BORDERLINE (reader errors are not in the quantifier's list): a source reader which fails
// in the middle makes Encrypt return a shorter message and no error.
func TestHunt5EncryptSwallowsReaderError(t *testing.T) {
	var secret [32]byte
	srv, _ := NewSecureSessionFromSharedKey(secret)
	p := make([]byte, 3000)
	boom := errors.New("boom")
	r := io.MultiReader(bytes.NewReader(p[:1500]), iotest.ErrReader(boom))
	er, err := srv.Encrypt(r)
	if err == nil {
		b, _ := ioutil.ReadAll(er)
		t.Fatalf("Encrypt returned no error and %d wire bytes for a source that failed after 1500 of 3000 bytes", len(b))
	}
}

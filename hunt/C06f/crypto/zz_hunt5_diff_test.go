package crypto

import (
	"bytes"
	"crypto/sha512"
	"encoding/binary"
	"io"
	"io/ioutil"
	"math/rand"
	"testing"
	"testing/iotest"

	ref "golang.org/x/crypto/chacha20poly1305"
	refhkdf "golang.org/x/crypto/hkdf"
)

type refEnd struct {
	enc, dec   []byte
	encN, decN uint64
}

func refKey(secret []byte, info string) []byte {
	k := make([]byte, 32)
	io.ReadFull(refhkdf.New(sha512.New, secret, []byte("Control-Salt"), []byte(info)), k)
	return k
}

// accessory = true: encrypts with Control-Read key
func newRef(secret []byte, accessory bool) *refEnd {
	r, w := refKey(secret, "Control-Read-Encryption-Key"), refKey(secret, "Control-Write-Encryption-Key")
	if accessory {
		return &refEnd{enc: r, dec: w}
	}
	return &refEnd{enc: w, dec: r}
}

func (e *refEnd) encrypt(p []byte) []byte {
	var out []byte
	for len(p) > 0 {
		n := len(p)
		if n > 1024 {
			n = 1024
		}
		var nonce [12]byte
		binary.LittleEndian.PutUint64(nonce[4:], e.encN)
		e.encN++
		hdr := []byte{byte(n), byte(n >> 8)}
		a, _ := ref.New(e.enc)
		out = append(out, hdr...)
		out = a.Seal(out, nonce[:], p[:n], hdr)
		p = p[n:]
	}
	return out
}

func (e *refEnd) decrypt(t *testing.T, c []byte) []byte {
	var out []byte
	for len(c) > 0 {
		n := int(binary.LittleEndian.Uint16(c))
		if n > 1024 {
			t.Fatalf("frame of %d plaintext bytes", n)
		}
		var nonce [12]byte
		binary.LittleEndian.PutUint64(nonce[4:], e.decN)
		e.decN++
		a, _ := ref.New(e.dec)
		pt, err := a.Open(nil, nonce[:], c[2:2+n+16], c[:2])
		if err != nil {
			t.Fatalf("ref open: %v", err)
		}
		out = append(out, pt...)
		c = c[2+n+16:]
	}
	return out
}

type chunker func([]byte) io.Reader

type randChunk struct {
	b   []byte
	rnd *rand.Rand
	eof bool
}

func (r *randChunk) Read(p []byte) (int, error) {
	if len(r.b) == 0 {
		return 0, io.EOF
	}
	if len(p) == 0 {
		return 0, nil
	}
	if r.rnd.Intn(5) == 0 {
		return 0, nil
	}
	n := 1 + r.rnd.Intn(len(p))
	if n > len(r.b) {
		n = len(r.b)
	}
	copy(p, r.b[:n])
	r.b = r.b[n:]
	if len(r.b) == 0 && r.eof {
		return n, io.EOF
	}
	return n, nil
}

var chunkers = map[string]chunker{
	"full":        func(b []byte) io.Reader { return bytes.NewReader(b) },
	"buffer":      func(b []byte) io.Reader { return bytes.NewBuffer(append([]byte(nil), b...)) },
	"onebyte":     func(b []byte) io.Reader { return iotest.OneByteReader(bytes.NewReader(b)) },
	"half":        func(b []byte) io.Reader { return iotest.HalfReader(bytes.NewReader(b)) },
	"dataerr":     func(b []byte) io.Reader { return iotest.DataErrReader(bytes.NewReader(b)) },
	"dataerrhalf": func(b []byte) io.Reader { return iotest.DataErrReader(iotest.HalfReader(bytes.NewReader(b))) },
	"rand":        func(b []byte) io.Reader { return &randChunk{b: b, rnd: rand.New(rand.NewSource(int64(len(b))))} },
	"randeof": func(b []byte) io.Reader {
		return &randChunk{b: b, rnd: rand.New(rand.NewSource(int64(len(b)))), eof: true}
	},
}

func TestHunt5Exhaustive(t *testing.T) {
	rnd := rand.New(rand.NewSource(1))
	for name, ch := range chunkers {
		var secret [32]byte
		rnd.Read(secret[:])
		srv, _ := NewSecureSessionFromSharedKey(secret)
		cli, _ := NewSecureClientSessionFromSharedKey(secret)
		rs, rc := newRef(secret[:], true), newRef(secret[:], false)
		_ = rs
		maxLen := 4097
		if name == "onebyte" {
			maxLen = 2100
		}
		for l := 0; l <= maxLen; l++ {
			p := make([]byte, l)
			rnd.Read(p)
			// server -> ref client, wire compare with ref server
			er, err := srv.Encrypt(ch(p))
			if err != nil {
				t.Fatal(name, l, err)
			}
			wire, _ := ioutil.ReadAll(er)
			want := rs.encrypt(p)
			if !bytes.Equal(wire, want) {
				t.Fatalf("%s len %d: wire differs (%d vs %d bytes)", name, l, len(wire), len(want))
			}
			// hc client decrypts, wire delivered through chunker
			dr, err := cli.Decrypt(ch(wire))
			if err != nil {
				t.Fatalf("%s len %d: decrypt: %v", name, l, err)
			}
			got, _ := ioutil.ReadAll(dr)
			if !bytes.Equal(got, p) {
				t.Fatalf("%s len %d: decrypt got %d bytes", name, l, len(got))
			}
			// other direction: ref client -> hc server
			w2 := rc.encrypt(p)
			dr, err = srv.Decrypt(ch(w2))
			if err != nil {
				t.Fatalf("%s len %d: srv decrypt: %v", name, l, err)
			}
			got, _ = ioutil.ReadAll(dr)
			if !bytes.Equal(got, p) {
				t.Fatalf("%s len %d: srv decrypt got %d bytes", name, l, len(got))
			}
		}
	}
}

func TestHunt5Large(t *testing.T) {
	rnd := rand.New(rand.NewSource(2))
	var secret [32]byte
	srv, _ := NewSecureSessionFromSharedKey(secret)
	rc := newRef(secret[:], false)
	for _, l := range []int{65535, 65536, 65537, 1 << 20, 1<<20 + 1, 1024 * 1000, 3<<20 + 17} {
		p := make([]byte, l)
		rnd.Read(p)
		er, err := srv.Encrypt(iotest.HalfReader(bytes.NewReader(p)))
		if err != nil {
			t.Fatal(err)
		}
		wire, _ := ioutil.ReadAll(er)
		got := rc.decrypt(t, wire)
		if !bytes.Equal(got, p) {
			t.Fatalf("len %d", l)
		}
	}
}

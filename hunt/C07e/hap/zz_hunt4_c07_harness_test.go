package hap

import (
	"bytes"
	"encoding/binary"
	"fmt"
	"io"
	"math/rand"
	"net"
	"testing"
	"time"

	"github.com/brutella/hc/crypto"
	"github.com/brutella/hc/crypto/hkdf"
	xchacha "golang.org/x/crypto/chacha20poly1305"
)

// ---- reference peer (independent of crypto.secureSession) ----

type h4Peer struct {
	key   [32]byte
	count uint64
}

func newH4Peer(shared [32]byte) *h4Peer {
	k, err := hkdf.Sha512(shared[:], []byte("Control-Salt"), []byte("Control-Write-Encryption-Key"))
	if err != nil {
		panic(err)
	}
	return &h4Peer{key: k}
}

// frame seals one frame with plaintext p (any length 0..65535)
func (p *h4Peer) frame(plain []byte) []byte {
	aead, _ := xchacha.New(p.key[:])
	var nonce [12]byte
	binary.LittleEndian.PutUint64(nonce[4:], p.count)
	p.count++
	var l [2]byte
	binary.LittleEndian.PutUint16(l[:], uint16(len(plain)))
	out := append([]byte{}, l[:]...)
	out = aead.Seal(out, nonce[:], plain, l[:])
	return out
}

// message splits into frames of at most 1024 bytes like a HAP controller
func (p *h4Peer) message(plain []byte) []byte {
	var out []byte
	for len(plain) > 0 {
		n := len(plain)
		if n > 1024 {
			n = 1024
		}
		out = append(out, p.frame(plain[:n])...)
		plain = plain[n:]
	}
	return out
}

// ---- scripted net.Conn ----

type h4Timeout struct{}

func (h4Timeout) Error() string   { return "i/o timeout (scripted)" }
func (h4Timeout) Timeout() bool   { return true }
func (h4Timeout) Temporary() bool { return true }

type h4Addr string

func (a h4Addr) Network() string { return "tcp" }
func (a h4Addr) String() string  { return string(a) }

type h4Event struct {
	data    []byte // nil: timeout
	timeout bool
}

type h4Conn struct {
	events []h4Event
	closed bool
	reads  int
	name   string
}

func (c *h4Conn) Read(b []byte) (int, error) {
	c.reads++
	if c.closed {
		return 0, io.ErrClosedPipe
	}
	if len(c.events) == 0 {
		// nothing more scripted: the peer is connected but idle -> timeout
		return 0, h4Timeout{}
	}
	ev := &c.events[0]
	if ev.timeout {
		c.events = c.events[1:]
		return 0, h4Timeout{}
	}
	n := copy(b, ev.data)
	ev.data = ev.data[n:]
	if len(ev.data) == 0 {
		c.events = c.events[1:]
	}
	return n, nil
}
func (c *h4Conn) Write(b []byte) (int, error)        { return len(b), nil }
func (c *h4Conn) Close() error                       { c.closed = true; return nil }
func (c *h4Conn) LocalAddr() net.Addr                { return h4Addr("local:" + c.name) }
func (c *h4Conn) RemoteAddr() net.Addr               { return h4Addr("remote:" + c.name) }
func (c *h4Conn) SetDeadline(t time.Time) error      { return nil }
func (c *h4Conn) SetReadDeadline(t time.Time) error  { return nil }
func (c *h4Conn) SetWriteDeadline(t time.Time) error { return nil }

func h4Setup(name string) (*Connection, *h4Conn, *h4Peer) {
	ctx := NewContextForSecuredDevice(nil)
	raw := &h4Conn{name: name}
	con := NewConnection(raw, ctx)
	var shared [32]byte
	for i := range shared {
		shared[i] = byte(i * 7)
	}
	sec, err := crypto.NewSecureSessionFromSharedKey(shared)
	if err != nil {
		panic(err)
	}
	ctx.GetSessionForConnection(raw).SetCryptographer(sec)
	return con, raw, newH4Peer(shared)
}

// runs one scenario; returns a description of the failure or ""
func h4Run(rnd *rand.Rand, msgLens []int, segmode int, bufSizes []int, timeoutProb float64) string {
	con, raw, peer := h4Setup("x")
	var plain, cipher []byte
	for _, l := range msgLens {
		m := make([]byte, l)
		rnd.Read(m)
		plain = append(plain, m...)
		cipher = append(cipher, peer.message(m)...)
	}
	// segmentation
	var evs []h4Event
	rest := cipher
	for len(rest) > 0 {
		var n int
		switch segmode {
		case 0:
			n = len(rest)
		case 1:
			n = 1
		case 2:
			n = 1 + rnd.Intn(3000)
		case 3:
			n = 1 + rnd.Intn(20)
		case 4:
			n = 1042
		case 5:
			n = 4096
		}
		if n > len(rest) {
			n = len(rest)
		}
		evs = append(evs, h4Event{data: rest[:n]})
		rest = rest[n:]
		for rnd.Float64() < timeoutProb {
			evs = append(evs, h4Event{timeout: true})
		}
	}
	raw.events = evs

	var got []byte
	idle := 0
	for i := 0; len(got) < len(plain); i++ {
		bs := bufSizes[i%len(bufSizes)]
		b := make([]byte, bs)
		n, err := con.Read(b)
		if n > bs || n < 0 {
			return fmt.Sprintf("n=%d out of range for buffer %d", n, bs)
		}
		got = append(got, b[:n]...)
		if err != nil {
			if ne, ok := err.(net.Error); ok && ne.Timeout() {
				if len(raw.events) == 0 {
					idle++
					if idle > 3 {
						return fmt.Sprintf("stuck: got %d of %d bytes, all segments delivered, Read keeps timing out", len(got), len(plain))
					}
				}
				continue
			}
			return fmt.Sprintf("Read error %v after %d of %d bytes", err, len(got), len(plain))
		}
		if !bytes.Equal(got, plain[:len(got)]) {
			return fmt.Sprintf("data mismatch within first %d bytes", len(got))
		}
	}
	if !bytes.Equal(got, plain) {
		return "data mismatch"
	}
	return ""
}

func TestH4Random(t *testing.T) {
	rnd := rand.New(rand.NewSource(1))
	lens := []int{1, 2, 15, 16, 17, 1023, 1024, 1025, 2047, 2048, 2049, 3072, 4095, 4096, 4097, 4078, 4079, 5000, 8192, 10000}
	bufs := [][]int{{1}, {2}, {4096}, {1024}, {1023}, {1025}, {512}, {1, 4096}, {4096, 1}, {3, 1000, 1}, {65536}, {16}, {1042}}
	fails := 0
	for it := 0; it < 3000; it++ {
		var ml []int
		for i := 0; i < 1+rnd.Intn(5); i++ {
			if rnd.Intn(3) == 0 {
				ml = append(ml, 1+rnd.Intn(5000))
			} else {
				ml = append(ml, lens[rnd.Intn(len(lens))])
			}
		}
		seg := rnd.Intn(6)
		bf := bufs[rnd.Intn(len(bufs))]
		tp := []float64{0, 0.3, 0.7}[rnd.Intn(3)]
		if msg := h4Run(rnd, ml, seg, bf, tp); msg != "" {
			t.Errorf("lens=%v seg=%d bufs=%v tp=%v: %s", ml, seg, bf, tp, msg)
			fails++
			if fails > 10 {
				return
			}
		}
	}
}

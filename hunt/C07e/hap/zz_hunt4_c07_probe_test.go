package hap

import (
	"bytes"
	"io"
	"math/rand"
	"net"
	"testing"
	"time"

	"github.com/brutella/hc/crypto"
)

// arbitrary frame sizes 1..4078 (a message framed differently from hc's own 1024 split)
func TestH4OddFraming(t *testing.T) {
	rnd := rand.New(rand.NewSource(2))
	for it := 0; it < 300; it++ {
		con, raw, peer := h4Setup("odd")
		var plain, cipher []byte
		for i := 0; i < 1+rnd.Intn(8); i++ {
			var l int
			switch rnd.Intn(4) {
			case 0:
				l = 1 + rnd.Intn(1024)
			case 1:
				l = 1024
			case 2:
				l = 1 + rnd.Intn(4078)
			case 3:
				l = []int{1, 1023, 1025, 2048, 4078, 4077}[rnd.Intn(6)]
			}
			m := make([]byte, l)
			rnd.Read(m)
			plain = append(plain, m...)
			cipher = append(cipher, peer.frame(m)...)
		}
		rest := cipher
		for len(rest) > 0 {
			n := 1 + rnd.Intn(5000)
			if n > len(rest) {
				n = len(rest)
			}
			raw.events = append(raw.events, h4Event{data: rest[:n]})
			if rnd.Intn(2) == 0 {
				raw.events = append(raw.events, h4Event{timeout: true})
			}
			rest = rest[n:]
		}
		var got []byte
		idle := 0
		for len(got) < len(plain) {
			b := make([]byte, 1+rnd.Intn(5000))
			n, err := con.Read(b)
			got = append(got, b[:n]...)
			if err != nil {
				if ne, ok := err.(net.Error); ok && ne.Timeout() {
					if len(raw.events) == 0 {
						idle++
						if idle > 3 {
							t.Fatalf("it %d stuck at %d of %d", it, len(got), len(plain))
						}
					}
					continue
				}
				t.Fatalf("it %d: err %v at %d of %d", it, err, len(got), len(plain))
			}
		}
		if !bytes.Equal(got, plain) {
			t.Fatalf("it %d mismatch", it)
		}
	}
}

// zero-length caller buffer
func TestH4ZeroBuf(t *testing.T) {
	con, raw, peer := h4Setup("zero")
	raw.events = []h4Event{{data: peer.message([]byte("hello"))}}
	n, err := con.Read(nil)
	t.Logf("Read(nil) with a frame pending: n=%d err=%v", n, err)
	b := make([]byte, 10)
	n, err = con.Read(b)
	t.Logf("Read(10): n=%d err=%v %q", n, err, b[:n])
	n, err = con.Read(nil)
	t.Logf("Read(nil) with nothing pending: n=%d err=%v", n, err)
	// partially consumed then zero
	raw.events = []h4Event{{data: peer.message([]byte("world!"))}}
	n, err = con.Read(b[:2])
	t.Logf("Read(2): n=%d err=%v %q", n, err, b[:n])
	n, err = con.Read(nil)
	t.Logf("Read(nil) remainder: n=%d err=%v", n, err)
	n, err = con.Read(b)
	t.Logf("Read(10): n=%d err=%v %q", n, err, b[:n])
}

// real TCP: deadlines in the middle of frames, half close at the end
func TestH4RealTCP(t *testing.T) {
	ln, err := net.Listen("tcp", "127.0.0.1:0")
	if err != nil {
		t.Fatal(err)
	}
	defer ln.Close()
	rnd := rand.New(rand.NewSource(3))
	for it := 0; it < 30; it++ {
		cl, err := net.Dial("tcp", ln.Addr().String())
		if err != nil {
			t.Fatal(err)
		}
		srv, err := ln.Accept()
		if err != nil {
			t.Fatal(err)
		}
		ctx := NewContextForSecuredDevice(nil)
		con := NewConnection(srv, ctx)
		var shared [32]byte
		shared[0] = byte(it)
		sec, _ := crypto.NewSecureSessionFromSharedKey(shared)
		ctx.GetSessionForConnection(srv).SetCryptographer(sec)
		peer := newH4Peer(shared)

		var plain, cipher []byte
		for i := 0; i < 1+rnd.Intn(6); i++ {
			l := []int{1, 16, 1023, 1024, 1025, 2048, 4096, 4097, 3000}[rnd.Intn(9)]
			m := make([]byte, l)
			rnd.Read(m)
			plain = append(plain, m...)
			cipher = append(cipher, peer.message(m)...)
		}
		go func() {
			rest := cipher
			for len(rest) > 0 {
				n := 1 + rnd.Intn(1500)
				if n > len(rest) {
					n = len(rest)
				}
				cl.Write(rest[:n])
				rest = rest[n:]
				time.Sleep(time.Duration(rnd.Intn(3)) * time.Millisecond)
			}
			cl.(*net.TCPConn).CloseWrite()
		}()
		var got []byte
		bs := []int{1, 7, 512, 1024, 4096}[it%5]
		for {
			con.SetReadDeadline(time.Now().Add(time.Duration(1+it%3) * time.Millisecond))
			b := make([]byte, bs)
			n, err := con.Read(b)
			got = append(got, b[:n]...)
			if err != nil {
				if ne, ok := err.(net.Error); ok && ne.Timeout() {
					continue
				}
				if err == io.EOF && len(got) == len(plain) {
					break
				}
				t.Fatalf("it %d: err %v at %d of %d", it, err, len(got), len(plain))
			}
		}
		if !bytes.Equal(got, plain) {
			t.Fatalf("it %d mismatch", it)
		}
		con.Close()
		cl.Close()
	}
}

// OUTSIDE the quantifier (the accessory closes the connection itself): log only.
// Two frames arrive in one segment, the first is read, Close() runs on another
// goroutine (Server.ListenAndServe on ctx.Done), the next Read finds no session.
func TestH4CloseWithBufferedFrame(t *testing.T) {
	con, raw, peer := h4Setup("close")
	seg := append(peer.message([]byte("first")), peer.message([]byte("second"))...)
	raw.events = []h4Event{{data: seg}}
	b := make([]byte, 100)
	n, err := con.Read(b)
	t.Logf("Read 1: n=%d err=%v %q", n, err, b[:n])
	con.Close()
	n, err = con.Read(b)
	t.Logf("Read 2 after Close: n=%d err=%v %x (ciphertext handed out as data: %v)", n, err, b[:n], n > 0 && err == nil)
}

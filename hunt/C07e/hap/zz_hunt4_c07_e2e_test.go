package hap

import (
	"bufio"
	"bytes"
	"crypto/sha256"
	"encoding/binary"
	"encoding/hex"
	"fmt"
	"io"
	"io/ioutil"
	"math/rand"
	"net"
	"net/http"
	"testing"
	"time"

	"github.com/brutella/hc/crypto"
	"github.com/brutella/hc/crypto/hkdf"
	xchacha "golang.org/x/crypto/chacha20poly1305"
)

type h4Listener struct {
	net.Listener
	ctx    Context
	shared [32]byte
}

func (l *h4Listener) Accept() (net.Conn, error) {
	c, err := l.Listener.Accept()
	if err != nil {
		return nil, err
	}
	con := NewConnection(c, l.ctx)
	sec, _ := crypto.NewSecureSessionFromSharedKey(l.shared)
	l.ctx.GetSessionForConnection(c).SetCryptographer(sec)
	// activate for both directions like the first encrypted read does
	l.ctx.GetSessionForConnection(c).Decrypter()
	return con, nil
}

// decrypting reader for the responses
type h4RespReader struct {
	r     *bufio.Reader
	key   [32]byte
	count uint64
	buf   bytes.Buffer
}

func (d *h4RespReader) Read(b []byte) (int, error) {
	for d.buf.Len() == 0 {
		var hdr [2]byte
		if _, err := io.ReadFull(d.r, hdr[:]); err != nil {
			return 0, err
		}
		l := int(binary.LittleEndian.Uint16(hdr[:]))
		body := make([]byte, l+16)
		if _, err := io.ReadFull(d.r, body); err != nil {
			return 0, err
		}
		aead, _ := xchacha.New(d.key[:])
		var nonce [12]byte
		binary.LittleEndian.PutUint64(nonce[4:], d.count)
		d.count++
		p, err := aead.Open(nil, nonce[:], body, hdr[:])
		if err != nil {
			return 0, fmt.Errorf("response frame %d: %v", d.count-1, err)
		}
		d.buf.Write(p)
	}
	return d.buf.Read(b)
}

func TestH4E2EPipelining(t *testing.T) {
	base, err := net.Listen("tcp", "127.0.0.1:0")
	if err != nil {
		t.Fatal(err)
	}
	var shared [32]byte
	shared[5] = 9
	ln := &h4Listener{Listener: base, ctx: NewContextForSecuredDevice(nil), shared: shared}
	mux := http.NewServeMux()
	mux.HandleFunc("/echo", func(w http.ResponseWriter, r *http.Request) {
		body, err := ioutil.ReadAll(r.Body)
		if err != nil {
			http.Error(w, err.Error(), 500)
			return
		}
		sum := sha256.Sum256(body)
		w.Header().Set("Content-Type", "text/plain")
		fmt.Fprintf(w, "%d %s", len(body), hex.EncodeToString(sum[:]))
	})
	srv := &http.Server{Handler: mux}
	go srv.Serve(ln)
	defer srv.Close()

	rnd := rand.New(rand.NewSource(4))
	for it := 0; it < 150; it++ {
		cl, err := net.Dial("tcp", base.Addr().String())
		if err != nil {
			t.Fatal(err)
		}
		peer := newH4Peer(shared)
		rk, _ := hkdf.Sha512(shared[:], []byte("Control-Salt"), []byte("Control-Read-Encryption-Key"))
		rr := &h4RespReader{r: bufio.NewReader(cl), key: rk}

		nreq := 1 + rnd.Intn(6)
		var expect []string
		var plainReqs [][]byte
		for i := 0; i < nreq; i++ {
			l := []int{0, 1, 100, 1023, 1024, 1025, 2048, 4095, 4096, 4097, 8192, 20000, 300000}[rnd.Intn(13)]
			body := make([]byte, l)
			rnd.Read(body)
			sum := sha256.Sum256(body)
			expect = append(expect, fmt.Sprintf("%d %s", l, hex.EncodeToString(sum[:])))
			var req bytes.Buffer
			pad := ""
			if rnd.Intn(3) == 0 {
				pad = fmt.Sprintf("X-Pad: %s\r\n", bytes.Repeat([]byte("a"), rnd.Intn(5000)))
			}
			switch rnd.Intn(3) {
			case 0, 1:
				fmt.Fprintf(&req, "POST /echo HTTP/1.1\r\nHost: x\r\n%sContent-Length: %d\r\n\r\n", pad, l)
				req.Write(body)
			case 2:
				fmt.Fprintf(&req, "POST /echo HTTP/1.1\r\nHost: x\r\n%sTransfer-Encoding: chunked\r\n\r\n", pad)
				rest := body
				for len(rest) > 0 {
					n := 1 + rnd.Intn(3000)
					if n > len(rest) {
						n = len(rest)
					}
					fmt.Fprintf(&req, "%x\r\n", n)
					req.Write(rest[:n])
					req.WriteString("\r\n")
					rest = rest[n:]
				}
				req.WriteString("0\r\n\r\n")
			}
			plainReqs = append(plainReqs, req.Bytes())
		}
		// framing: either per request (hc style) or the whole pipeline as one stream with odd frames
		var cipher []byte
		if rnd.Intn(2) == 0 {
			for _, p := range plainReqs {
				cipher = append(cipher, peer.message(p)...)
			}
		} else {
			all := bytes.Join(plainReqs, nil)
			for len(all) > 0 {
				n := 1 + rnd.Intn(1024)
				if n > len(all) {
					n = len(all)
				}
				cipher = append(cipher, peer.frame(all[:n])...)
				all = all[n:]
			}
		}
		wseed := rnd.Int63()
		go func() {
			rnd := rand.New(rand.NewSource(wseed))
			rest := cipher
			mode := rnd.Intn(3)
			for len(rest) > 0 {
				var n int
				switch mode {
				case 0:
					n = len(rest)
				case 1:
					n = 1 + rnd.Intn(2000)
				case 2:
					n = 1 + rnd.Intn(40000)
				}
				if n > len(rest) {
					n = len(rest)
				}
				cl.Write(rest[:n])
				rest = rest[n:]
				if mode != 0 && rnd.Intn(4) == 0 {
					time.Sleep(time.Millisecond)
				}
			}
		}()
		cl.SetReadDeadline(time.Now().Add(10 * time.Second))
		br := bufio.NewReader(rr)
		for i := 0; i < nreq; i++ {
			resp, err := http.ReadResponse(br, nil)
			if err != nil {
				t.Fatalf("it %d: response %d of %d: %v", it, i, nreq, err)
			}
			b, err := ioutil.ReadAll(resp.Body)
			if err != nil {
				t.Fatalf("it %d: response %d body: %v", it, i, err)
			}
			if resp.StatusCode != 200 || string(b) != expect[i] {
				t.Fatalf("it %d: response %d: status %d body %q, expected %q", it, i, resp.StatusCode, b, expect[i])
			}
		}
		cl.Close()
	}
}

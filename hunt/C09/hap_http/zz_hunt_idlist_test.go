package http

import (
	"fmt"
	"math/rand"
	"strings"
	"testing"

	"github.com/brutella/hc/accessory"
	"github.com/brutella/hc/characteristic"
)

// Every list of existing and non-existing ids: each requested id answered
// exactly once, in order, with a value or an error status; 207 answers carry a
// status in every entry.
func TestZZHuntIdLists(t *testing.T) {
	as, cs, names, owner := zzAllCharsAccessories(12)
	h := zzNewHarness(t, as...)
	defer h.Close()
	c := h.DialVerified()
	defer c.Close()

	type id struct {
		aid, iid uint64
		ch       *characteristic.Characteristic
		name     string
	}
	var existing []id
	for i, ch := range cs {
		existing = append(existing, id{owner[ch].ID, ch.ID, ch, names[i]})
	}
	// the accessory information characteristics too
	for _, a := range as {
		for _, ch := range a.Info.Service.Characteristics {
			existing = append(existing, id{a.ID, ch.ID, ch, "info"})
		}
	}
	missing := []id{{0, 0, nil, ""}, {1, 0, nil, ""}, {1, 9999, nil, ""}, {9999, 2, nil, ""}, {1, 1, nil, "service id"}, {18446744073709551615, 18446744073709551615, nil, ""}}

	rnd := rand.New(rand.NewSource(9))
	bad := map[string]bool{}
	for round := 0; round < 400; round++ {
		n := 1 + rnd.Intn(40)
		if round%50 == 49 {
			n = 300 // a long list: request and answer span several frames / chunks
		}
		var list []id
		for i := 0; i < n; i++ {
			switch {
			case round%3 == 0: // only existing ones
				list = append(list, existing[rnd.Intn(len(existing))])
			case rnd.Intn(4) == 0:
				list = append(list, missing[rnd.Intn(len(missing))])
			default:
				list = append(list, existing[rnd.Intn(len(existing))])
			}
		}
		var parts []string
		for _, e := range list {
			parts = append(parts, fmt.Sprintf("%d.%d", e.aid, e.iid))
		}
		st, b, err := c.Do("GET", "/characteristics?id="+strings.Join(parts, ","), nil)
		if err != nil {
			t.Fatalf("round %d: %v", round, err)
		}
		if st != 200 && st != 207 {
			t.Fatalf("round %d: status %d for %s", round, st, strings.Join(parts, ","))
		}
		body := zzParseChars(t, b)
		if len(body.Characteristics) != len(list) {
			t.Errorf("round %d: %d ids requested, %d entries", round, len(list), len(body.Characteristics))
			continue
		}
		anyMissing := false
		for i, e := range list {
			g := body.Characteristics[i]
			if g.Aid != e.aid || g.Iid != e.iid {
				t.Errorf("round %d: entry %d is %d.%d, requested %d.%d", round, i, g.Aid, g.Iid, e.aid, e.iid)
				continue
			}
			if st == 207 && g.Status == nil {
				t.Errorf("round %d: 207 entry %d.%d without status", round, g.Aid, g.Iid)
			}
			if e.ch == nil {
				anyMissing = true
				if g.Status == nil || *g.Status == 0 || g.Value != nil {
					t.Errorf("round %d: non-existing %d.%d answered %+v", round, e.aid, e.iid, g)
				}
				continue
			}
			hasErr := g.Status != nil && *g.Status != 0
			if hasErr {
				anyMissing = true
				if e.ch.IsReadable() && e.ch.Value != nil {
					t.Errorf("round %d: readable %s answered with status %d", round, e.name, *g.Status)
				}
			}
			if g.Value == nil && !hasErr {
				key := fmt.Sprintf("%s perms=%v value=%v: HTTP %d entry has neither value nor error status", e.name, e.ch.Perms, e.ch.Value, st)
				if !bad[key] {
					bad[key] = true
					t.Errorf("%s (e.g. round %d)", key, round)
				}
				continue
			}
			if g.Value != nil && hasErr {
				t.Errorf("round %d: %s has value and error status", round, e.name)
			}
			if g.Value != nil {
				if ok, got := zzSame(g.Value, e.ch.Value); !ok {
					t.Errorf("round %d: %s: application has %v, controller reads %s", round, e.name, e.ch.Value, got)
				}
			}
		}
		if anyMissing != (st == 207) {
			t.Errorf("round %d: status %d, entries with an error status: %v", round, st, anyMissing)
		}
	}
}

// Same for one accessory: the identify characteristic every accessory has.
func TestZZHuntReadWriteOnlyIdentify(t *testing.T) {
	a := accessory.NewSwitch(accessory.Info{Name: "Sw"})
	h := zzNewHarness(t, a.Accessory)
	defer h.Close()
	c := h.DialVerified()
	defer c.Close()

	for _, q := range []string{
		fmt.Sprintf("%d.%d", a.ID, a.Info.Identify.ID),
		fmt.Sprintf("%d.%d,%d.%d", a.ID, a.Switch.On.ID, a.ID, a.Info.Identify.ID),
		fmt.Sprintf("%d.%d,%d.77", a.ID, a.Info.Identify.ID, a.ID),
	} {
		st, b, err := c.Do("GET", "/characteristics?id="+q, nil)
		if err != nil {
			t.Fatal(err)
		}
		body := zzParseChars(t, b)
		for _, e := range body.Characteristics {
			if e.Iid == a.Info.Identify.ID && e.Value == nil && (e.Status == nil || *e.Status == 0) {
				t.Errorf("GET id=%s: HTTP %d %s: the write-only characteristic %d.%d is answered with neither a value nor an error status", q, st, strings.TrimSpace(string(b)), e.Aid, e.Iid)
			}
		}
	}
}

// A readable characteristic whose constructor sets no value.
func TestZZHuntReadableWithoutValue(t *testing.T) {
	a := accessory.NewSwitch(accessory.Info{Name: "Sw"})
	wifi := characteristic.NewWifiConfigurationControl()
	a.Switch.AddCharacteristic(wifi.Characteristic)
	h := zzNewHarness(t, a.Accessory)
	defer h.Close()
	c := h.DialVerified()
	defer c.Close()

	st, b, err := c.Do("GET", fmt.Sprintf("/characteristics?id=%d.%d", a.ID, wifi.ID), nil)
	if err != nil {
		t.Fatal(err)
	}
	e := zzParseChars(t, b).Characteristics[0]
	if e.Value == nil && (e.Status == nil || *e.Status == 0) {
		t.Errorf("GET of the readable %v characteristic: HTTP %d %s: neither a value nor an error status", wifi.Perms, st, strings.TrimSpace(string(b)))
	}
	func() {
		defer func() {
			if r := recover(); r != nil {
				t.Errorf("application getter of the same characteristic panics: %v", r)
			}
		}()
		_ = wifi.GetValue()
	}()
}

package http

import (
	"bytes"
	"encoding/json"
	"fmt"
	"strings"
	"testing"

	"github.com/brutella/hc/accessory"
	"github.com/brutella/hc/characteristic"
	"github.com/brutella/hc/service"
)

func zzOneString(t *testing.T) (*zzHarness, *accessory.Accessory, *characteristic.ConfiguredName) {
	a := accessory.New(accessory.Info{Name: "Acc"}, accessory.TypeOther)
	svc := service.New("F0000001")
	name := characteristic.NewConfiguredName()
	svc.AddCharacteristic(name.Characteristic)
	a.AddService(svc)
	return zzNewHarness(t, a), a, name
}

// answers of every size around the chunk (2048) and frame (1024) boundaries
func TestZZHuntAnswerSizes(t *testing.T) {
	h, a, name := zzOneString(t)
	defer h.Close()
	c := h.DialVerified()
	defer c.Close()
	for l := 0; l < 9000; l++ {
		if l > 4300 && l < 8000 {
			continue
		}
		val := strings.Repeat("é", l%2) + strings.Repeat("x", l-(l%2)) // odd ones start with a 2-byte rune
		name.SetValue(val)
		st, b, err := c.Do("GET", fmt.Sprintf("/characteristics?id=%d.%d", a.ID, name.ID), nil)
		if err != nil || st != 200 {
			t.Fatalf("len %d: %v %v", l, st, err)
		}
		body := zzParseChars(t, b)
		if ok, _ := zzSame(body.Characteristics[0].Value, val); !ok {
			t.Fatalf("len %d: differs (%d bytes)", l, len(b))
		}
		if l%7 == 0 {
			st, b, err = c.Do("GET", "/accessories", nil)
			if err != nil || st != 200 {
				t.Fatalf("len %d: %v %v", l, st, err)
			}
			if ok, _ := zzSame(zzAccValues(t, b)[a.ID][name.ID], val); !ok {
				t.Fatalf("len %d: /accessories differs (%d bytes)", l, len(b))
			}
		}
	}
}

// a request delivered in many small / odd frames and TCP writes
func TestZZHuntRequestFraming(t *testing.T) {
	h, a, name := zzOneString(t)
	defer h.Close()
	c := h.DialVerified()
	defer c.Close()
	for round, sizes := range [][]int{{1}, {1, 2, 3}, {1024, 1}, {1, 1024, 5}, {500, 1024, 1024, 3}, {17}} {
		val := fmt.Sprintf("r%d-", round) + strings.Repeat("y", 2600)
		raw := zzRequestBytes("PUT", "/characteristics", []byte(fmt.Sprintf(`{"characteristics":[{"aid":%d,"iid":%d,"value":"%s"}]}`, a.ID, name.ID, val)))
		i := 0
		for len(raw) > 0 {
			n := sizes[i%len(sizes)]
			i++
			if n > len(raw) {
				n = len(raw)
			}
			if len(raw)-n == 0 && n == 1024 {
				n = 1000 // the exact-multiple case is a separate finding
			}
			if err := c.writeRaw(raw[:n]); err != nil {
				t.Fatal(err)
			}
			raw = raw[n:]
		}
		st, _, err := c.DoRaw("PUT", nil)
		if err != nil || st != 204 {
			t.Fatalf("round %d: %v %v", round, st, err)
		}
		if name.GetValue() != val {
			t.Errorf("round %d: application reads something else", round)
		}
	}
}

// several entries in one write, one of them unknown; pipelined requests; two controllers
func TestZZHuntMultiWriteAndTwoControllers(t *testing.T) {
	a := accessory.NewThermostat(accessory.Info{Name: "T"}, 20, 10, 38, 0.1)
	h := zzNewHarness(t, a.Accessory)
	defer h.Close()
	c1 := h.DialVerified()
	defer c1.Close()
	c2 := h.DialVerified()
	defer c2.Close()

	th := a.Thermostat
	var seen []float64
	th.TargetTemperature.OnValueRemoteUpdate(func(f float64) { seen = append(seen, f) })
	body := fmt.Sprintf(`{"characteristics":[{"aid":1,"iid":%d,"value":23.7},{"aid":1,"iid":999,"value":1},{"aid":1,"iid":%d,"value":1},{"aid":1,"iid":%d,"value":25.3}]}`,
		th.TargetTemperature.ID, th.TargetHeatingCoolingState.ID, th.TargetTemperature.ID)
	st, b, err := c1.Do("PUT", "/characteristics", []byte(body))
	t.Logf("multi write: %d %s %v", st, b, err)
	if th.TargetTemperature.GetValue() != 25.3 || th.TargetHeatingCoolingState.GetValue() != 1 {
		t.Errorf("application reads %v %v", th.TargetTemperature.GetValue(), th.TargetHeatingCoolingState.GetValue())
	}
	if fmt.Sprint(seen) != "[23.7 25.3]" {
		t.Errorf("callbacks %v", seen)
	}
	// the other controller reads what the first wrote
	st, b, err = c2.Do("GET", fmt.Sprintf("/characteristics?id=1.%d,1.%d", th.TargetTemperature.ID, th.TargetHeatingCoolingState.ID), nil)
	if err != nil || st != 200 {
		t.Fatal(st, err)
	}
	rb := zzParseChars(t, b)
	if ok, g := zzSame(rb.Characteristics[0].Value, 25.3); !ok {
		t.Errorf("second controller reads %s", g)
	}
	if ok, g := zzSame(rb.Characteristics[1].Value, 1); !ok {
		t.Errorf("second controller reads %s", g)
	}

	// pipelined: write, read, write, read in one TCP write
	var raw []byte
	for _, v := range []string{"11.5", "12.5", "13.5"} {
		raw = append(raw, zzRequestBytes("PUT", "/characteristics", []byte(fmt.Sprintf(`{"characteristics":[{"aid":1,"iid":%d,"value":%s}]}`, th.TargetTemperature.ID, v)))...)
		raw = append(raw, zzRequestBytes("GET", fmt.Sprintf("/characteristics?id=1.%d", th.TargetTemperature.ID), nil)...)
	}
	if len(raw)%1024 == 0 {
		t.Fatal("unlucky size")
	}
	st, _, err = c1.DoRaw("PUT", raw)
	if err != nil || st != 204 {
		t.Fatal(st, err)
	}
	for i, want := range []float64{11.5, 12.5, 13.5} {
		st, b, err = c1.DoRaw("GET", nil)
		if err != nil || st != 200 {
			t.Fatal(i, st, err)
		}
		if ok, g := zzSame(zzParseChars(t, b).Characteristics[0].Value, want); !ok {
			t.Errorf("pipelined read %d: %s, want %v", i, g, want)
		}
		if i < 2 {
			st, _, err = c1.DoRaw("PUT", nil)
			if err != nil || st != 204 {
				t.Fatal(i, st, err)
			}
		}
	}
}

// value forms a controller may use for the same valid value
func TestZZHuntValueForms(t *testing.T) {
	a := accessory.NewLightbulb(accessory.Info{Name: "L"})
	br := characteristic.NewBrightness()
	a.Lightbulb.AddCharacteristic(br.Characteristic)
	hue := characteristic.NewHue()
	a.Lightbulb.AddCharacteristic(hue.Characteristic)
	tilt := characteristic.NewTargetHorizontalTiltAngle()
	a.Lightbulb.AddCharacteristic(tilt.Characteristic)
	h := zzNewHarness(t, a.Accessory)
	defer h.Close()
	c := h.DialVerified()
	defer c.Close()

	put := func(iid uint64, v string) {
		st, b, err := c.Do("PUT", "/characteristics", []byte(fmt.Sprintf(`{"characteristics":[{"aid":1,"iid":%d,"value":%s}]}`, iid, v)))
		if err != nil || st != 204 {
			t.Fatalf("PUT %s: %v %s %v", v, st, b, err)
		}
	}
	for _, tc := range []struct {
		v    string
		want bool
	}{{"1", true}, {"0", false}, {"true", true}, {"false", false}, {"1", true}} {
		put(a.Lightbulb.On.ID, tc.v)
		if a.Lightbulb.On.GetValue() != tc.want {
			t.Errorf("On: controller writes %s, application reads %v", tc.v, a.Lightbulb.On.GetValue())
		}
	}
	for _, tc := range []struct {
		v    string
		want int
	}{{"100", 100}, {"0", 0}, {"5e1", 50}, {"42.0", 42}, {"1E2", 100}, {"7", 7}} {
		put(br.ID, tc.v)
		if br.GetValue() != tc.want {
			t.Errorf("Brightness: controller writes %s, application reads %v", tc.v, br.GetValue())
		}
	}
	for _, tc := range []struct {
		v    string
		want int
	}{{"-90", -90}, {"-1", -1}, {"90", 90}, {"-45", -45}, {"-4.5e1", -45}} {
		put(tilt.ID, tc.v)
		if tilt.GetValue() != tc.want {
			t.Errorf("Tilt: controller writes %s, application reads %v", tc.v, tilt.GetValue())
		}
	}
	for _, tc := range []struct {
		v    string
		want float64
	}{{"360", 360}, {"0", 0}, {"123.456", 123.456}, {"1e-3", 0.001}, {"359.99999999999994", 359.99999999999994}} {
		put(hue.ID, tc.v)
		if hue.GetValue() != tc.want {
			t.Errorf("Hue: controller writes %s, application reads %v", tc.v, hue.GetValue())
		}
		st, b, _ := c.Do("GET", fmt.Sprintf("/characteristics?id=1.%d", hue.ID), nil)
		if ok, g := zzSame(zzParseChars(t, b).Characteristics[0].Value, tc.want); !ok || st != 200 {
			t.Errorf("Hue: controller reads %s after writing %s", g, tc.v)
		}
	}
	// string escapes a controller may use
	nm := a.Info.Name
	nm.Perms = append(nm.Perms, characteristic.PermWrite)
	for _, tc := range []struct{ v, want string }{
		{`"😀"`, "\U0001F600"},
		{`"A\/\b\f\n\r\t\"\\"`, "A/\b\f\n\r\t\"\\"},
		{`"<>&"`, "<>&"},
	} {
		put(nm.ID, tc.v)
		if nm.GetValue() != tc.want {
			t.Errorf("Name: controller writes %s, application reads %q", tc.v, nm.GetValue())
		}
		_, b, _ := c.Do("GET", fmt.Sprintf("/characteristics?id=1.%d", nm.ID), nil)
		if ok, g := zzSame(zzParseChars(t, b).Characteristics[0].Value, tc.want); !ok {
			t.Errorf("Name: controller reads %s after writing %s", g, tc.v)
		}
	}
}

// values supplied by the application's OnValueRemoteGet getter
func TestZZHuntRemoteGetter(t *testing.T) {
	a := accessory.NewTemperatureSensor(accessory.Info{Name: "T"}, 20, -50, 100, 0.1)
	h := zzNewHarness(t, a.Accessory)
	defer h.Close()
	c := h.DialVerified()
	defer c.Close()
	cur := 21.5
	a.TempSensor.CurrentTemperature.OnValueRemoteGet(func() float64 { return cur })
	for _, v := range []float64{21.5, -3.25, 99.9} {
		cur = v
		_, b, _ := c.Do("GET", fmt.Sprintf("/characteristics?id=1.%d", a.TempSensor.CurrentTemperature.ID), nil)
		if ok, g := zzSame(zzParseChars(t, b).Characteristics[0].Value, v); !ok {
			t.Errorf("getter returns %v, controller reads %s", v, g)
		}
	}
	cur = 55.5
	_, b, _ := c.Do("GET", "/accessories", nil)
	if ok, g := zzSame(zzAccValues(t, b)[1][a.TempSensor.CurrentTemperature.ID], 55.5); !ok {
		t.Errorf("getter returns 55.5, /accessories has %s", g)
	}
	var _ = json.Valid
	var _ = bytes.NewReader
}

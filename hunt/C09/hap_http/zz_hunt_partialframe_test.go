package http

import (
	"bytes"
	"encoding/binary"
	"fmt"
	"testing"
	"time"

	"github.com/brutella/hc/accessory"
	"github.com/brutella/hc/crypto/chacha20poly1305"
)

// The controller sends a write while the answer to its previous read is still
// being produced (the application's getter takes a moment), and the frame of
// the write arrives in two TCP segments, the second one after the read was answered.
func TestZZHuntWriteFrameInTwoSegments(t *testing.T) {
	a := accessory.NewTemperatureSensor(accessory.Info{Name: "T"}, 20, -50, 100, 0.1)
	sw := accessory.NewSwitch(accessory.Info{Name: "S"})
	h := zzNewHarness(t, a.Accessory, sw.Accessory)
	defer h.Close()
	c := h.DialVerified()
	defer c.Close()

	release := make(chan struct{})
	entered := make(chan struct{}, 1)
	a.TempSensor.CurrentTemperature.OnValueRemoteGet(func() float64 {
		entered <- struct{}{}
		<-release
		return 33.5
	})

	// request 1: the read
	if err := c.writeRaw(zzRequestBytes("GET", fmt.Sprintf("/characteristics?id=%d.%d", a.ID, a.TempSensor.CurrentTemperature.ID), nil)); err != nil {
		t.Fatal(err)
	}
	<-entered

	// request 2: the write, as one frame, delivered in two pieces
	plain := zzRequestBytes("PUT", "/characteristics", []byte(fmt.Sprintf(`{"characteristics":[{"aid":%d,"iid":%d,"value":true}]}`, sw.ID, sw.Switch.On.ID)))
	var nonce [8]byte
	binary.LittleEndian.PutUint64(nonce[:], c.encCount)
	c.encCount++
	var l [2]byte
	binary.LittleEndian.PutUint16(l[:], uint16(len(plain)))
	enc, mac, err := chacha20poly1305.EncryptAndSeal(c.encKey[:], nonce[:], plain, l[:])
	if err != nil {
		t.Fatal(err)
	}
	var frame bytes.Buffer
	frame.Write(l[:])
	frame.Write(enc)
	frame.Write(mac[:])
	fb := frame.Bytes()
	if _, err := c.conn.Write(fb[:40]); err != nil {
		t.Fatal(err)
	}
	time.Sleep(100 * time.Millisecond)
	close(release) // the getter returns, the read is answered
	time.Sleep(100 * time.Millisecond)
	if _, err := c.conn.Write(fb[40:]); err != nil {
		t.Fatal(err)
	}

	st, b, err := c.DoRaw("GET", nil)
	if err != nil || st != 200 {
		t.Fatalf("answer to the read: %d %v", st, err)
	}
	if ok, g := zzSame(zzParseChars(t, b).Characteristics[0].Value, 33.5); !ok {
		t.Errorf("read: %s", g)
	}
	c.timeout = 2 * time.Second
	st, b, err = c.DoRaw("PUT", nil)
	if err != nil {
		t.Errorf("the write is never answered: %v; application reads On=%v", err, sw.Switch.On.GetValue())
	} else if st != 204 || !sw.Switch.On.GetValue() {
		t.Errorf("write: %d %s, application reads On=%v", st, b, sw.Switch.On.GetValue())
	}
}

package http

import (
	"fmt"
	"strings"
	"testing"
	"time"

	"github.com/brutella/hc/accessory"
	"github.com/brutella/hc/characteristic"
	"github.com/brutella/hc/service"
)

// A verified controller writes a string value with a request whose total size
// (HTTP head + JSON body) is swept over a range including the exact
// multiples of the 1024-byte frame size. Every write must arrive at the application.
func TestZZHuntWriteRequestSizes(t *testing.T) {
	a := accessory.New(accessory.Info{Name: "Acc"}, accessory.TypeOther)
	svc := service.New("F0000001")
	name := characteristic.NewConfiguredName()
	svc.AddCharacteristic(name.Characteristic)
	a.AddService(svc)
	h := zzNewHarness(t, a)
	defer h.Close()

	var got []string
	name.OnValueRemoteUpdate(func(s string) { got = append(got, s) })

	mk := func(val string) []byte {
		body := fmt.Sprintf(`{"characteristics":[{"aid":%d,"iid":%d,"value":"%s"}]}`, a.ID, name.ID, val)
		return zzRequestBytes("PUT", "/characteristics", []byte(body))
	}
	base := len(mk(""))
	for _, total := range []int{1000, 1023, 1024, 1025, 2047, 2048, 2049, 3072, 4096} {
		c := h.DialVerified()
		c.timeout = 2 * time.Second
		// unique value per size so that each write changes the value
		val := fmt.Sprintf("%04d", total) + strings.Repeat("x", total-base-4)
		raw := mk(val)
		if len(raw) != total {
			// the Content-Length digits may have changed the size; adjust
			val = val[:len(val)-(len(raw)-total)]
			raw = mk(val)
		}
		if len(raw) != total {
			t.Fatalf("cannot build a request of %d bytes (got %d)", total, len(raw))
		}
		n := len(got)
		st, _, err := c.DoRaw("PUT", raw)
		if err != nil {
			t.Errorf("request of %d bytes: no answer: %v (application saw the write: %v)", total, err, len(got) > n)
		} else if st != 204 {
			t.Errorf("request of %d bytes: status %d", total, st)
		} else if name.GetValue() != val {
			t.Errorf("request of %d bytes: application reads %q...", total, name.GetValue()[:8])
		} else if len(got) != n+1 || got[n] != val {
			t.Errorf("request of %d bytes: callback not called with the value", total)
		}
		c.Close()
	}
}

package http

import (
	"fmt"
	"testing"

	"github.com/brutella/hc/accessory"
	"github.com/brutella/hc/characteristic"
)

// the call after an error, and typed getters after a controller write
func TestZZHuntAfterError(t *testing.T) {
	a := accessory.NewSwitch(accessory.Info{Name: "Sw"})
	wifi := characteristic.NewWifiConfigurationControl()
	a.Switch.AddCharacteristic(wifi.Characteristic)
	lock := characteristic.NewLockControlPoint()
	a.Switch.AddCharacteristic(lock.Characteristic)
	h := zzNewHarness(t, a.Accessory)
	defer h.Close()
	c := h.DialVerified()
	defer c.Close()

	for _, bad := range []string{`{"characteristics":[{"aid":1,"iid":`, `[]`, `{"characteristics":[{"aid":"x","iid":9,"value":true}]}`, ``} {
		st, b, err := c.Do("PUT", "/characteristics", []byte(bad))
		t.Logf("PUT %q: %d %q %v", bad, st, b, err)
		if err != nil {
			t.Fatal(err)
		}
		st, b, err = c.Do("GET", "/characteristics?id=1.x", nil)
		t.Logf("GET id=1.x: %d %q %v", st, b, err)
		st, b, err = c.Do("GET", "/characteristics", nil)
		t.Logf("GET no id: %d %q %v", st, b, err)
		st, _, err = c.Do("PUT", "/characteristics", []byte(fmt.Sprintf(`{"characteristics":[{"aid":1,"iid":%d,"value":true}]}`, a.Switch.On.ID)))
		if err != nil || st != 204 || !a.Switch.On.GetValue() {
			t.Errorf("write after error: %d %v %v", st, err, a.Switch.On.GetValue())
		}
		a.Switch.On.SetValue(false)
	}

	// typed getters / callbacks of the byte characteristics
	var got [][]byte
	wifi.OnValueRemoteUpdate(func(b []byte) { got = append(got, b) })
	lock.OnValueRemoteUpdate(func(b []byte) { got = append(got, b) })
	st, _, err := c.Do("PUT", "/characteristics", []byte(fmt.Sprintf(`{"characteristics":[{"aid":1,"iid":%d,"value":"AQIDBA=="},{"aid":1,"iid":%d,"value":"BQY="}]}`, wifi.ID, lock.ID)))
	if err != nil || st != 204 {
		t.Fatal(st, err)
	}
	if fmt.Sprint(wifi.GetValue()) != "[1 2 3 4]" || fmt.Sprint(got) != "[[1 2 3 4] [5 6]]" {
		t.Errorf("bytes: getter %v callbacks %v", wifi.GetValue(), got)
	}
}

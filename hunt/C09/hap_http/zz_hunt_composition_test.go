package http

import (
	"reflect"
	"testing"

	"github.com/brutella/hc/accessory"
	"github.com/brutella/hc/characteristic"
	"github.com/brutella/hc/service"
)

var zzAllServices = map[string]func() interface{}{
	"NewAccessoryInformation":         func() interface{} { return service.NewAccessoryInformation() },
	"NewAirPurifier":                  func() interface{} { return service.NewAirPurifier() },
	"NewAirQualitySensor":             func() interface{} { return service.NewAirQualitySensor() },
	"NewBatteryService":               func() interface{} { return service.NewBatteryService() },
	"NewBridgeConfiguration":          func() interface{} { return service.NewBridgeConfiguration() },
	"NewBridgingState":                func() interface{} { return service.NewBridgingState() },
	"NewCameraControl":                func() interface{} { return service.NewCameraControl() },
	"NewCameraRTPStreamManagement":    func() interface{} { return service.NewCameraRTPStreamManagement() },
	"NewCameraRecordingManagement":    func() interface{} { return service.NewCameraRecordingManagement() },
	"NewCarbonDioxideSensor":          func() interface{} { return service.NewCarbonDioxideSensor() },
	"NewCarbonMonoxideSensor":         func() interface{} { return service.NewCarbonMonoxideSensor() },
	"NewColoredLightbulb":             func() interface{} { return service.NewColoredLightbulb() },
	"NewContactSensor":                func() interface{} { return service.NewContactSensor() },
	"NewCooler":                       func() interface{} { return service.NewCooler() },
	"NewDoor":                         func() interface{} { return service.NewDoor() },
	"NewDoorbell":                     func() interface{} { return service.NewDoorbell() },
	"NewFan":                          func() interface{} { return service.NewFan() },
	"NewFanV2":                        func() interface{} { return service.NewFanV2() },
	"NewFaucet":                       func() interface{} { return service.NewFaucet() },
	"NewFilterMaintenance":            func() interface{} { return service.NewFilterMaintenance() },
	"NewGarageDoorOpener":             func() interface{} { return service.NewGarageDoorOpener() },
	"NewHeater":                       func() interface{} { return service.NewHeater() },
	"NewHeaterCooler":                 func() interface{} { return service.NewHeaterCooler() },
	"NewHumidifierDehumidifier":       func() interface{} { return service.NewHumidifierDehumidifier() },
	"NewHumiditySensor":               func() interface{} { return service.NewHumiditySensor() },
	"NewInputSource":                  func() interface{} { return service.NewInputSource() },
	"NewIrrigationSystem":             func() interface{} { return service.NewIrrigationSystem() },
	"NewLeakSensor":                   func() interface{} { return service.NewLeakSensor() },
	"NewLightSensor":                  func() interface{} { return service.NewLightSensor() },
	"NewLightbulb":                    func() interface{} { return service.NewLightbulb() },
	"NewLockManagement":               func() interface{} { return service.NewLockManagement() },
	"NewLockMechanism":                func() interface{} { return service.NewLockMechanism() },
	"NewMicrophone":                   func() interface{} { return service.NewMicrophone() },
	"NewMotionSensor":                 func() interface{} { return service.NewMotionSensor() },
	"NewOccupancySensor":              func() interface{} { return service.NewOccupancySensor() },
	"NewOutlet":                       func() interface{} { return service.NewOutlet() },
	"NewSecuritySystem":               func() interface{} { return service.NewSecuritySystem() },
	"NewServiceLabel":                 func() interface{} { return service.NewServiceLabel() },
	"NewSlat":                         func() interface{} { return service.NewSlat() },
	"NewSmokeSensor":                  func() interface{} { return service.NewSmokeSensor() },
	"NewSpeaker":                      func() interface{} { return service.NewSpeaker() },
	"NewStatefulProgrammableSwitch":   func() interface{} { return service.NewStatefulProgrammableSwitch() },
	"NewStatelessProgrammableSwitch":  func() interface{} { return service.NewStatelessProgrammableSwitch() },
	"NewSwitch":                       func() interface{} { return service.NewSwitch() },
	"NewTelevision":                   func() interface{} { return service.NewTelevision() },
	"NewTemperatureSensor":            func() interface{} { return service.NewTemperatureSensor() },
	"NewThermostat":                   func() interface{} { return service.NewThermostat() },
	"NewTimeInformation":              func() interface{} { return service.NewTimeInformation() },
	"NewTunneledBTLEAccessoryService": func() interface{} { return service.NewTunneledBTLEAccessoryService() },
	"NewValve":                        func() interface{} { return service.NewValve() },
	"NewWifiTransport":                func() interface{} { return service.NewWifiTransport() },
	"NewWindow":                       func() interface{} { return service.NewWindow() },
	"NewWindowCovering":               func() interface{} { return service.NewWindowCovering() },
}

var zzAllAccessories = map[string]func() interface{}{
	"NewBridge":            func() interface{} { return accessory.NewBridge(accessory.Info{Name: "x"}) },
	"NewCamera":            func() interface{} { return accessory.NewCamera(accessory.Info{Name: "x"}) },
	"NewColoredLightbulb":  func() interface{} { return accessory.NewColoredLightbulb(accessory.Info{Name: "x"}) },
	"NewLightbulb":         func() interface{} { return accessory.NewLightbulb(accessory.Info{Name: "x"}) },
	"NewOutlet":            func() interface{} { return accessory.NewOutlet(accessory.Info{Name: "x"}) },
	"NewSwitch":            func() interface{} { return accessory.NewSwitch(accessory.Info{Name: "x"}) },
	"NewTelevision":        func() interface{} { return accessory.NewTelevision(accessory.Info{Name: "x"}) },
	"NewTemperatureSensor": func() interface{} { return accessory.NewTemperatureSensor(accessory.Info{Name: "x"}, 20, -10, 50, 0.1) },
	"NewThermostat":        func() interface{} { return accessory.NewThermostat(accessory.Info{Name: "x"}, 20, 10, 30, 0.5) },
	"NewWindow":            func() interface{} { return accessory.NewWindow(accessory.Info{Name: "x"}, 0) },
}

var zzCharPtr = reflect.TypeOf(&characteristic.Characteristic{})
var zzSvcPtr = reflect.TypeOf(&service.Service{})

// finds the embedded *T reachable through embedded pointer-to-struct fields
func zzFindEmbedded(v reflect.Value, want reflect.Type) (reflect.Value, bool) {
	if v.Type() == want {
		return v, !v.IsNil()
	}
	if v.Kind() != reflect.Ptr || v.IsNil() || v.Elem().Kind() != reflect.Struct {
		return reflect.Value{}, false
	}
	e := v.Elem()
	for i := 0; i < e.NumField(); i++ {
		if e.Type().Field(i).Anonymous {
			if r, ok := zzFindEmbedded(e.Field(i), want); ok {
				return r, true
			}
		}
	}
	return reflect.Value{}, false
}

// Every characteristic field of every service is in the service exactly once
// (otherwise what the application sets through the field is not what a controller reads).
func TestZZHuntServiceComposition(t *testing.T) {
	for name, mk := range zzAllServices {
		sv := reflect.ValueOf(mk())
		svcV, ok := zzFindEmbedded(sv, zzSvcPtr)
		if !ok {
			t.Errorf("%s: no embedded service", name)
			continue
		}
		svc := svcV.Interface().(*service.Service)
		seen := map[*characteristic.Characteristic]int{}
		types := map[string]int{}
		for _, c := range svc.Characteristics {
			seen[c]++
			types[c.Type]++
		}
		for c, n := range seen {
			if n != 1 {
				t.Errorf("%s: characteristic %s %d times in the service", name, c.Type, n)
			}
		}
		for ty, n := range types {
			if n != 1 {
				t.Errorf("%s: characteristic type %s %d times in the service", name, ty, n)
			}
		}
		e := sv.Elem()
		nf := 0
		for i := 0; i < e.NumField(); i++ {
			f := e.Type().Field(i)
			if f.Anonymous {
				continue
			}
			cv, ok := zzFindEmbedded(e.Field(i), zzCharPtr)
			if !ok {
				t.Errorf("%s.%s: nil or not a characteristic", name, f.Name)
				continue
			}
			nf++
			if seen[cv.Interface().(*characteristic.Characteristic)] != 1 {
				t.Errorf("%s.%s: not among the characteristics of the service", name, f.Name)
			}
		}
		if _, composite := map[string]bool{"NewHeater": true, "NewCooler": true}[name]; !composite && nf != len(svc.Characteristics) { // Heater/Cooler embed HeaterCooler
			t.Errorf("%s: %d fields, %d characteristics", name, nf, len(svc.Characteristics))
		}
	}
}

func TestZZHuntAccessoryComposition(t *testing.T) {
	for name, mk := range zzAllAccessories {
		av := reflect.ValueOf(mk())
		accV, ok := zzFindEmbedded(av, reflect.TypeOf(&accessory.Accessory{}))
		if !ok {
			t.Errorf("%s: no accessory", name)
			continue
		}
		acc := accV.Interface().(*accessory.Accessory)
		in := map[*service.Service]int{}
		for _, s := range acc.Services {
			in[s]++
		}
		e := av.Elem()
		for i := 0; i < e.NumField(); i++ {
			f := e.Type().Field(i)
			if f.Anonymous {
				continue
			}
			sv, ok := zzFindEmbedded(e.Field(i), zzSvcPtr)
			if !ok {
				t.Errorf("%s.%s: nil or not a service", name, f.Name)
				continue
			}
			if name == "NewCamera" && f.Name == "StreamManagement2" {
				continue // deliberately not added (comment in accessory/camera.go)
			}
			if in[sv.Interface().(*service.Service)] != 1 {
				t.Errorf("%s.%s: service %d times in the accessory", name, f.Name, in[sv.Interface().(*service.Service)])
			}
		}
		// ids unique after adding to a container
		cont := accessory.NewContainer()
		cont.AddAccessory(acc)
		ids := map[uint64]bool{}
		for _, s := range acc.Services {
			if ids[s.ID] || s.ID == 0 {
				t.Errorf("%s: service id %d", name, s.ID)
			}
			ids[s.ID] = true
			for _, c := range s.Characteristics {
				if ids[c.ID] || c.ID == 0 {
					t.Errorf("%s: characteristic id %d", name, c.ID)
				}
				ids[c.ID] = true
			}
		}
	}
}

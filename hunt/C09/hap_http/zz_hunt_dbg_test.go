package http

import (
	"github.com/brutella/hc/log"
	"os"
)

func init() {
	if os.Getenv("ZZDEBUG") != "" {
		log.Debug.Enable()
	}
}

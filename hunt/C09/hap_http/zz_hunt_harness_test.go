package http

// Throw-away harness for the C09 hunt: a real server on a loopback TCP
// socket, and a reference controller that speaks HAP framing (every frame is
// independent, <= 1024 bytes of plaintext) and HTTP/1.1 over it.

import (
	"bufio"
	"bytes"
	"context"
	"encoding/binary"
	"encoding/json"
	"fmt"
	"io"
	"io/ioutil"
	"net"
	gohttp "net/http"
	"sync"
	"testing"
	"time"

	"github.com/brutella/hc/accessory"
	"github.com/brutella/hc/crypto"
	"github.com/brutella/hc/crypto/chacha20poly1305"
	"github.com/brutella/hc/crypto/hkdf"
	"github.com/brutella/hc/db"
	"github.com/brutella/hc/event"
	"github.com/brutella/hc/hap"
	"github.com/brutella/hc/util"
)

var zzShared = [32]byte{1, 2, 3, 4, 5, 6, 7, 8, 9, 10, 11, 12, 13, 14, 15, 16, 17, 18, 19, 20, 21, 22, 23, 24, 25, 26, 27, 28, 29, 30, 31, 32}

type zzHarness struct {
	t      testing.TB
	srv    *Server
	cancel context.CancelFunc
	cont   *accessory.Container
	ctx    hap.Context
}

func zzNewHarness(t testing.TB, as ...*accessory.Accessory) *zzHarness {
	storage, err := util.NewTempFileStorage()
	if err != nil {
		t.Fatal(err)
	}
	database := db.NewDatabaseWithStorage(storage)
	device, err := hap.NewSecuredDevice("zz-device", "00102003", database)
	if err != nil {
		t.Fatal(err)
	}
	hctx := hap.NewContextForSecuredDevice(device)
	cont := accessory.NewContainer()
	for _, a := range as {
		if err := cont.AddAccessory(a); err != nil {
			t.Fatal(err)
		}
	}
	srv := NewServer(Config{
		Port:      "127.0.0.1:0",
		Context:   hctx,
		Database:  database,
		Container: cont,
		Device:    device,
		Mutex:     &sync.Mutex{},
		Emitter:   event.NewEmitter(),
	})
	// stands in for a successful pair-verify M3/M4: installs the secure session
	// exactly the way endpoint.PairVerify does
	srv.Mux.HandleFunc("/zz-verify", func(w gohttp.ResponseWriter, r *gohttp.Request) {
		sess := hctx.GetSessionForRequest(r)
		sec, err := crypto.NewSecureSessionFromSharedKey(zzShared)
		if err != nil {
			panic(err)
		}
		w.WriteHeader(gohttp.StatusNoContent)
		// let the server's background read settle in its plaintext Read first, as it
		// has in a real pair-verify (the session switches keys at the next Read)
		time.Sleep(20 * time.Millisecond)
		sess.SetCryptographer(sec)
	})
	ctx, cancel := context.WithCancel(context.Background())
	go srv.ListenAndServe(ctx)
	h := &zzHarness{t: t, srv: srv, cancel: cancel, cont: cont, ctx: hctx}
	return h
}

func (h *zzHarness) Close() { h.cancel() }

// reference controller ------------------------------------------------------

type zzController struct {
	t        testing.TB
	conn     net.Conn
	br       *bufio.Reader // plaintext (decrypted) stream
	encKey   [32]byte
	decKey   [32]byte
	encCount uint64
	decCount uint64
	secure   bool
	timeout  time.Duration
}

// frame reader: decrypts one frame at a time
type zzFrameReader struct {
	c   *zzController
	buf bytes.Buffer
}

func (f *zzFrameReader) Read(p []byte) (int, error) {
	if !f.c.secure {
		return f.c.conn.Read(p)
	}
	if f.buf.Len() == 0 {
		var l [2]byte
		if _, err := io.ReadFull(f.c.conn, l[:]); err != nil {
			return 0, err
		}
		n := binary.LittleEndian.Uint16(l[:])
		if n > 1024 {
			return 0, fmt.Errorf("frame of %d bytes", n)
		}
		body := make([]byte, int(n))
		if _, err := io.ReadFull(f.c.conn, body); err != nil {
			return 0, err
		}
		var mac [16]byte
		if _, err := io.ReadFull(f.c.conn, mac[:]); err != nil {
			return 0, err
		}
		var nonce [8]byte
		binary.LittleEndian.PutUint64(nonce[:], f.c.decCount)
		f.c.decCount++
		plain, err := chacha20poly1305.DecryptAndVerify(f.c.decKey[:], nonce[:], body, mac, l[:])
		if err != nil {
			return 0, fmt.Errorf("controller: frame %d does not authenticate: %v", f.c.decCount-1, err)
		}
		f.buf.Write(plain)
	}
	return f.buf.Read(p)
}

func (h *zzHarness) Dial() *zzController {
	conn, err := net.Dial("tcp", "127.0.0.1:"+h.srv.Port())
	if err != nil {
		h.t.Fatal(err)
	}
	c := &zzController{t: h.t, conn: conn, timeout: 5 * time.Second}
	c.br = bufio.NewReader(&zzFrameReader{c: c})
	return c
}

// DialVerified returns a controller on a pair-verified (encrypted) connection.
func (h *zzHarness) DialVerified() *zzController {
	c := h.Dial()
	st, _, err := c.Do("POST", "/zz-verify", nil)
	if err != nil || st != 204 {
		h.t.Fatalf("verify: %v %v", st, err)
	}
	var e error
	c.encKey, e = hkdf.Sha512(zzShared[:], []byte("Control-Salt"), []byte("Control-Write-Encryption-Key"))
	if e != nil {
		h.t.Fatal(e)
	}
	c.decKey, e = hkdf.Sha512(zzShared[:], []byte("Control-Salt"), []byte("Control-Read-Encryption-Key"))
	if e != nil {
		h.t.Fatal(e)
	}
	c.secure = true
	return c
}

func (c *zzController) Close() { c.conn.Close() }

// writeRaw sends plaintext bytes, in frames of at most 1024 bytes when secure.
func (c *zzController) writeRaw(b []byte) error {
	if !c.secure {
		_, err := c.conn.Write(b)
		return err
	}
	var out bytes.Buffer
	for len(b) > 0 {
		n := len(b)
		if n > 1024 {
			n = 1024
		}
		var nonce [8]byte
		binary.LittleEndian.PutUint64(nonce[:], c.encCount)
		c.encCount++
		var l [2]byte
		binary.LittleEndian.PutUint16(l[:], uint16(n))
		enc, mac, err := chacha20poly1305.EncryptAndSeal(c.encKey[:], nonce[:], b[:n], l[:])
		if err != nil {
			return err
		}
		out.Write(l[:])
		out.Write(enc)
		out.Write(mac[:])
		b = b[n:]
	}
	_, err := c.conn.Write(out.Bytes())
	return err
}

func zzRequestBytes(method, path string, body []byte) []byte {
	var req bytes.Buffer
	fmt.Fprintf(&req, "%s %s HTTP/1.1\r\nHost: zz.local\r\n", method, path)
	if body != nil || method == "PUT" || method == "POST" {
		fmt.Fprintf(&req, "Content-Type: application/hap+json\r\nContent-Length: %d\r\n", len(body))
	}
	req.WriteString("\r\n")
	req.Write(body)
	return req.Bytes()
}

// Do sends one request and reads one response.
func (c *zzController) Do(method, path string, body []byte) (int, []byte, error) {
	return c.DoRaw(method, zzRequestBytes(method, path, body))
}

func (c *zzController) DoRaw(method string, raw []byte) (int, []byte, error) {
	c.conn.SetDeadline(time.Now().Add(c.timeout))
	defer c.conn.SetDeadline(time.Time{})
	if err := c.writeRaw(raw); err != nil {
		return 0, nil, err
	}
	resp, err := gohttp.ReadResponse(c.br, &gohttp.Request{Method: method})
	if err != nil {
		return 0, nil, err
	}
	b, err := ioutil.ReadAll(resp.Body)
	resp.Body.Close()
	return resp.StatusCode, b, err
}

// JSON helpers -----------------------------------------------------------------

type zzEntry struct {
	Aid    uint64           `json:"aid"`
	Iid    uint64           `json:"iid"`
	Value  *json.RawMessage `json:"value"`
	Status *int             `json:"status"`
}

type zzCharsBody struct {
	Characteristics []zzEntry `json:"characteristics"`
}

func zzParseChars(t testing.TB, b []byte) zzCharsBody {
	var out zzCharsBody
	dec := json.NewDecoder(bytes.NewReader(b))
	if err := dec.Decode(&out); err != nil {
		t.Fatalf("controller cannot parse %q: %v", zzShort(b), err)
	}
	return out
}

func zzShort(b []byte) string {
	if len(b) > 300 {
		return string(b[:300]) + "..."
	}
	return string(b)
}

// zzAccValues parses an /accessories body into aid -> iid -> raw value (nil when absent)
func zzAccValues(t testing.TB, b []byte) map[uint64]map[uint64]*json.RawMessage {
	var db struct {
		Accessories []struct {
			Aid      uint64 `json:"aid"`
			Services []struct {
				Iid             uint64 `json:"iid"`
				Characteristics []struct {
					Iid   uint64           `json:"iid"`
					Value *json.RawMessage `json:"value"`
				} `json:"characteristics"`
			} `json:"services"`
		} `json:"accessories"`
	}
	if err := json.Unmarshal(b, &db); err != nil {
		t.Fatalf("controller cannot parse /accessories (%d bytes): %v", len(b), err)
	}
	out := map[uint64]map[uint64]*json.RawMessage{}
	for _, a := range db.Accessories {
		m := map[uint64]*json.RawMessage{}
		for _, s := range a.Services {
			for _, c := range s.Characteristics {
				if _, dup := m[c.Iid]; dup {
					t.Fatalf("iid %d twice in accessory %d", c.Iid, a.Aid)
				}
				m[c.Iid] = c.Value
			}
		}
		out[a.Aid] = m
	}
	return out
}

package http

import (
	"bytes"
	"encoding/base64"
	"encoding/json"
	"fmt"
	"math"
	"net"
	"strings"
	"testing"

	"github.com/brutella/hc/accessory"
	"github.com/brutella/hc/characteristic"
	"github.com/brutella/hc/service"
)

// values of the format of c inside its bounds
func zzValuesFor(c *characteristic.Characteristic) []interface{} {
	switch c.Format {
	case characteristic.FormatBool:
		return []interface{}{true, false, true}
	case characteristic.FormatFloat:
		vs := []interface{}{}
		min, hasMin := c.MinValue.(float64)
		max, hasMax := c.MaxValue.(float64)
		step, hasStep := c.StepValue.(float64)
		if !hasMin {
			min = -1e6
		}
		if !hasMax {
			max = 1e6
		}
		vs = append(vs, max, min, (min+max)/2)
		if hasStep {
			vs = append(vs, min+step, max-step, min+3*step)
		} else {
			vs = append(vs, min+(max-min)/3, min+(max-min)*0.123456789)
		}
		_ = hasMin
		_ = hasMax
		return vs
	case characteristic.FormatUInt8, characteristic.FormatUInt16, characteristic.FormatUInt32, characteristic.FormatUInt64, characteristic.FormatInt32:
		var fmin, fmax int
		switch c.Format {
		case characteristic.FormatUInt8:
			fmin, fmax = 0, math.MaxUint8
		case characteristic.FormatUInt16:
			fmin, fmax = 0, math.MaxUint16
		case characteristic.FormatUInt32:
			fmin, fmax = 0, math.MaxUint32
		case characteristic.FormatUInt64:
			fmin, fmax = 0, math.MaxInt64
		case characteristic.FormatInt32:
			fmin, fmax = math.MinInt32, math.MaxInt32
		}
		if m, ok := c.MinValue.(int); ok {
			fmin = m
		}
		if m, ok := c.MaxValue.(int); ok {
			fmax = m
		}
		vs := []interface{}{fmax, fmin, fmin + (fmax-fmin)/2, fmin + 1, fmax - 1}
		if fmin < 0 && fmax > 0 {
			vs = append(vs, 0, -1, 1)
		}
		var in []interface{}
		for _, v := range vs {
			if v.(int) >= fmin && v.(int) <= fmax {
				in = append(in, v)
			}
		}
		return in
	case characteristic.FormatString:
		return []interface{}{
			"plain",
			"",
			`quote " backslash \ slash / tab	 newline
 cr` + "\r" + ` nul-ish ` + "\u0001\u001f\u007f",
			`<script>alert("x & y")</script> 'single'`,
			"non-BMP \U0001F600 \U0001F3E0 \U00010348, BMP äöü 中文 \u2028 \u2029 \ufeff",
			strings.Repeat("long \U0001F600 ", 700),
		}
	case characteristic.FormatTLV8, characteristic.FormatData:
		mk := func(n int) string {
			b := make([]byte, n)
			for i := range b {
				b[i] = byte(i*7 + n)
			}
			return base64.StdEncoding.EncodeToString(b)
		}
		return []interface{}{mk(1), mk(0), mk(255), mk(762), mk(1024), mk(3000), mk(5000)}
	}
	return nil
}

// zzSame reports whether the JSON value raw is exactly the Go value v
func zzSame(raw *json.RawMessage, v interface{}) (bool, string) {
	if raw == nil {
		return false, "<no value member>"
	}
	dec := json.NewDecoder(bytes.NewReader(*raw))
	dec.UseNumber()
	var got interface{}
	if err := dec.Decode(&got); err != nil {
		return false, "unparseable " + string(*raw)
	}
	switch want := v.(type) {
	case bool:
		// HAP allows 0/1 for booleans too
		if g, ok := got.(bool); ok {
			return g == want, string(*raw)
		}
		if g, ok := got.(json.Number); ok {
			return (g.String() == "1") == want && (g.String() == "1" || g.String() == "0"), string(*raw)
		}
	case int:
		if g, ok := got.(json.Number); ok {
			f, err := g.Float64()
			i, ierr := g.Int64()
			return err == nil && ((ierr == nil && int(i) == want) || (ierr != nil && f == float64(want) && math.Abs(f) < 1<<53)), string(*raw)
		}
	case float64:
		if g, ok := got.(json.Number); ok {
			f, err := g.Float64()
			return err == nil && f == want, string(*raw)
		}
	case string:
		if g, ok := got.(string); ok {
			return g == want, zzShort(*raw)
		}
	}
	return false, zzShort(*raw)
}

func zzJSON(v interface{}) string {
	b, err := json.Marshal(v)
	if err != nil {
		panic(err)
	}
	return string(b)
}

// builds accessories holding every characteristic of the library, perAcc per accessory
func zzAllCharsAccessories(perAcc int) ([]*accessory.Accessory, []*characteristic.Characteristic, []string, map[*characteristic.Characteristic]*accessory.Accessory) {
	var as []*accessory.Accessory
	var cs []*characteristic.Characteristic
	var names []string
	owner := map[*characteristic.Characteristic]*accessory.Accessory{}
	var cur *accessory.Accessory
	for i, e := range zzAllChars {
		if i%perAcc == 0 {
			cur = accessory.New(accessory.Info{Name: fmt.Sprintf("Acc%d", i/perAcc)}, accessory.TypeOther)
			as = append(as, cur)
		}
		svc := service.New(fmt.Sprintf("F00000%02X", i))
		c := e.mk()
		svc.AddCharacteristic(c)
		cur.AddService(svc)
		cs = append(cs, c)
		names = append(names, e.name)
		owner[c] = cur
	}
	return as, cs, names, owner
}

// What the application sets is what the controller reads, for every
// constructor and every value; through /characteristics and /accessories.
func TestZZHuntAppSetsControllerReads(t *testing.T) {
	as, cs, names, owner := zzAllCharsAccessories(12)
	h := zzNewHarness(t, as...)
	defer h.Close()
	c := h.DialVerified()
	defer c.Close()

	for i, ch := range cs {
		if !ch.IsReadable() {
			continue
		}
		aid := owner[ch].ID
		for _, v := range zzValuesFor(ch) {
			ch.UpdateValue(v)
			if g := ch.GetValue(); g != v {
				t.Errorf("%s(%s): application sets %v, application reads %v", names[i], ch.Format, zzShort([]byte(fmt.Sprint(v))), zzShort([]byte(fmt.Sprint(g))))
				continue
			}
			st, b, err := c.Do("GET", fmt.Sprintf("/characteristics?id=%d.%d", aid, ch.ID), nil)
			if err != nil || st != 200 {
				t.Fatalf("%s: GET: %v %v", names[i], st, err)
			}
			body := zzParseChars(t, b)
			if len(body.Characteristics) != 1 || body.Characteristics[0].Aid != aid || body.Characteristics[0].Iid != ch.ID {
				t.Errorf("%s: answer %s", names[i], zzShort(b))
				continue
			}
			if ok, got := zzSame(body.Characteristics[0].Value, v); !ok {
				t.Errorf("%s(%s): application sets %s, controller reads %s", names[i], ch.Format, zzShort([]byte(zzJSON(v))), got)
			}
		}
		// last value also through /accessories (checked for all at the end)
	}

	st, b, err := c.Do("GET", "/accessories", nil)
	if err != nil || st != 200 {
		t.Fatalf("GET /accessories: %v %v", st, err)
	}
	t.Logf("/accessories is %d bytes", len(b))
	vals := zzAccValues(t, b)
	for i, ch := range cs {
		aid := owner[ch].ID
		raw, present := vals[aid][ch.ID]
		if !present {
			t.Errorf("%s: not in /accessories", names[i])
			continue
		}
		if !ch.IsReadable() {
			if raw != nil {
				t.Errorf("%s: write-only but has a value in /accessories", names[i])
			}
			continue
		}
		vs := zzValuesFor(ch)
		if ok, got := zzSame(raw, vs[len(vs)-1]); !ok {
			t.Errorf("%s(%s): application set %s, /accessories has %s", names[i], ch.Format, zzShort([]byte(zzJSON(vs[len(vs)-1]))), got)
		}
	}
}

// What the controller writes is what the application's getter returns and
// what the remote-update callback receives.
func TestZZHuntControllerWritesAppReads(t *testing.T) {
	as, cs, names, owner := zzAllCharsAccessories(12)
	h := zzNewHarness(t, as...)
	defer h.Close()
	c := h.DialVerified()
	defer c.Close()

	for i, ch := range cs {
		if !ch.IsWritable() {
			continue
		}
		aid := owner[ch].ID
		var calls []interface{}
		ch.OnValueUpdateFromConn(func(conn net.Conn, c *characteristic.Characteristic, nv, ov interface{}) {
			calls = append(calls, nv)
		})
		for _, v := range zzValuesFor(ch) {
			before := ch.Value
			n := len(calls)
			body := fmt.Sprintf(`{"characteristics":[{"aid":%d,"iid":%d,"value":%s}]}`, aid, ch.ID, zzJSON(v))
			st, b, err := c.Do("PUT", "/characteristics", []byte(body))
			if err != nil {
				t.Fatalf("%s: PUT %s: %v", names[i], zzShort([]byte(body)), err)
			}
			if st != 204 {
				t.Errorf("%s: PUT %s: %d %s", names[i], zzShort([]byte(body)), st, zzShort(b))
				continue
			}
			if ch.IsReadable() {
				if g := ch.GetValue(); g != v {
					t.Errorf("%s(%s): controller writes %s, application reads %s", names[i], ch.Format, zzShort([]byte(zzJSON(v))), zzShort([]byte(fmt.Sprintf("%#v", g))))
				}
			}
			if before != v {
				if len(calls) != n+1 {
					t.Errorf("%s(%s): controller writes %s (before: %v): %d callbacks", names[i], ch.Format, zzShort([]byte(zzJSON(v))), zzShort([]byte(fmt.Sprint(before))), len(calls)-n)
				} else if calls[n] != v {
					t.Errorf("%s(%s): controller writes %s, callback receives %s", names[i], ch.Format, zzShort([]byte(zzJSON(v))), zzShort([]byte(fmt.Sprintf("%#v", calls[n]))))
				}
			}
			// and the controller reads it back
			if ch.IsReadable() {
				st, b, err := c.Do("GET", fmt.Sprintf("/characteristics?id=%d.%d", aid, ch.ID), nil)
				if err != nil || st != 200 {
					t.Fatalf("%s: GET: %v %v", names[i], st, err)
				}
				rb := zzParseChars(t, b)
				if len(rb.Characteristics) != 1 {
					t.Errorf("%s: answer %s", names[i], zzShort(b))
				} else if ok, got := zzSame(rb.Characteristics[0].Value, v); !ok {
					t.Errorf("%s(%s): controller writes %s, controller reads %s", names[i], ch.Format, zzShort([]byte(zzJSON(v))), got)
				}
			}
		}
	}
}

package hc

// C09 hunt: a verified controller that has subscribed to a characteristic reads
// /accessories of a large bridge while the application sets that characteristic.

import (
	"bufio"
	"bytes"
	"encoding/binary"
	"encoding/json"
	"fmt"
	"io"
	"io/ioutil"
	"net"
	gohttp "net/http"
	"os"
	"strings"
	"testing"
	"time"

	"github.com/brutella/hc/accessory"
	"github.com/brutella/hc/crypto"
	"github.com/brutella/hc/crypto/chacha20poly1305"
	"github.com/brutella/hc/crypto/hkdf"
)

var zzShared = [32]byte{9, 2, 3, 4, 5, 6, 7, 8, 9, 10, 11, 12, 13, 14, 15, 16, 17, 18, 19, 20, 21, 22, 23, 24, 25, 26, 27, 28, 29, 30, 31, 32}

type zzCtl struct {
	conn     net.Conn
	br       *bufio.Reader
	encKey   [32]byte
	decKey   [32]byte
	encCount uint64
	decCount uint64
	secure   bool
	buf      bytes.Buffer
	log      bytes.Buffer // every decrypted byte, for the diagnosis
}

func (c *zzCtl) Read(p []byte) (int, error) {
	if !c.secure {
		return c.conn.Read(p)
	}
	if c.buf.Len() == 0 {
		var l [2]byte
		if _, err := io.ReadFull(c.conn, l[:]); err != nil {
			return 0, err
		}
		body := make([]byte, int(binary.LittleEndian.Uint16(l[:])))
		if _, err := io.ReadFull(c.conn, body); err != nil {
			return 0, err
		}
		var mac [16]byte
		if _, err := io.ReadFull(c.conn, mac[:]); err != nil {
			return 0, err
		}
		var nonce [8]byte
		binary.LittleEndian.PutUint64(nonce[:], c.decCount)
		c.decCount++
		plain, err := chacha20poly1305.DecryptAndVerify(c.decKey[:], nonce[:], body, mac, l[:])
		if err != nil {
			return 0, fmt.Errorf("frame %d does not authenticate: %v", c.decCount-1, err)
		}
		c.buf.Write(plain)
		c.log.Write(plain)
	}
	return c.buf.Read(p)
}

func (c *zzCtl) write(b []byte) error {
	if !c.secure {
		_, err := c.conn.Write(b)
		return err
	}
	var out bytes.Buffer
	for len(b) > 0 {
		n := len(b)
		if n > 1024 {
			n = 1024
		}
		var nonce [8]byte
		binary.LittleEndian.PutUint64(nonce[:], c.encCount)
		c.encCount++
		var l [2]byte
		binary.LittleEndian.PutUint16(l[:], uint16(n))
		enc, mac, err := chacha20poly1305.EncryptAndSeal(c.encKey[:], nonce[:], b[:n], l[:])
		if err != nil {
			return err
		}
		out.Write(l[:])
		out.Write(enc)
		out.Write(mac[:])
		b = b[n:]
	}
	_, err := c.conn.Write(out.Bytes())
	return err
}

func zzReq(method, path string, body []byte) []byte {
	var req bytes.Buffer
	fmt.Fprintf(&req, "%s %s HTTP/1.1\r\nHost: zz.local\r\n", method, path)
	if body != nil || method != "GET" {
		fmt.Fprintf(&req, "Content-Type: application/hap+json\r\nContent-Length: %d\r\n", len(body))
	}
	req.WriteString("\r\n")
	req.Write(body)
	if req.Len()%1024 == 0 { // keep clear of the exact-multiple finding
		return zzReq(method, path+"?", body)
	}
	return req.Bytes()
}

// next message: skips EVENT/1.0 messages that arrive BETWEEN responses (those
// are legal) and returns the next HTTP response.
func (c *zzCtl) response(method string) (int, []byte, int, error) {
	events := 0
	for {
		c.conn.SetReadDeadline(time.Now().Add(5 * time.Second))
		peek, err := c.br.Peek(6)
		if err != nil {
			return 0, nil, events, err
		}
		if string(peek) == "EVENT/" {
			// an event has the shape of a response; rewrite the protocol name to parse it
			line, err := c.br.ReadString('\n')
			if err != nil {
				return 0, nil, events, err
			}
			r := io.MultiReader(strings.NewReader("HTTP"+line[5:]), c.br)
			ebr := bufio.NewReader(r)
			resp, err := gohttp.ReadResponse(ebr, nil)
			if err != nil {
				return 0, nil, events, fmt.Errorf("event: %v", err)
			}
			if _, err := ioutil.ReadAll(resp.Body); err != nil {
				return 0, nil, events, fmt.Errorf("event body: %v", err)
			}
			if ebr.Buffered() > 0 {
				// push back what the helper reader over-read
				rest, _ := ebr.Peek(ebr.Buffered())
				c.br = bufio.NewReader(io.MultiReader(bytes.NewReader(append([]byte{}, rest...)), c.br))
			}
			events++
			continue
		}
		resp, err := gohttp.ReadResponse(c.br, &gohttp.Request{Method: method})
		if err != nil {
			return 0, nil, events, err
		}
		b, err := ioutil.ReadAll(resp.Body)
		return resp.StatusCode, b, events, err
	}
}

func TestZZHuntEventInsideAnswer(t *testing.T) {
	dir, err := ioutil.TempDir("", "zzhunt")
	if err != nil {
		t.Fatal(err)
	}
	defer os.RemoveAll(dir)

	bridge := accessory.NewBridge(accessory.Info{Name: "Bridge"})
	var bulbs []*accessory.Lightbulb
	var as []*accessory.Accessory
	for i := 0; i < 150; i++ {
		b := accessory.NewLightbulb(accessory.Info{Name: fmt.Sprintf("Lamp %03d", i), Manufacturer: strings.Repeat("m", 60)})
		bulbs = append(bulbs, b)
		as = append(as, b.Accessory)
	}
	tr, err := NewIPTransport(Config{StoragePath: dir}, bridge.Accessory, as...)
	if err != nil {
		t.Skip("cannot create transport here:", err)
	}
	go tr.Start()
	defer func() { <-tr.Stop() }()
	for i := 0; tr.server == nil && i < 200; i++ {
		time.Sleep(10 * time.Millisecond)
	}
	if tr.server == nil {
		t.Skip("server did not start")
	}
	time.Sleep(50 * time.Millisecond)
	// stands in for pair-verify: installs the secure session like endpoint.PairVerify does
	tr.server.Mux.HandleFunc("/zz-verify", func(w gohttp.ResponseWriter, r *gohttp.Request) {
		sec, _ := crypto.NewSecureSessionFromSharedKey(zzShared)
		w.WriteHeader(gohttp.StatusNoContent)
		// let the server's background read settle in its plaintext Read first, as it
		// has in a real pair-verify (the session switches keys at the next Read)
		time.Sleep(20 * time.Millisecond)
		tr.context.GetSessionForRequest(r).SetCryptographer(sec)
	})

	conn, err := net.Dial("tcp", "127.0.0.1:"+tr.server.Port())
	if err != nil {
		t.Fatal(err)
	}
	defer conn.Close()
	c := &zzCtl{conn: conn}
	c.br = bufio.NewReader(c)
	c.write(zzReq("POST", "/zz-verify", nil))
	if st, _, _, err := c.response("POST"); err != nil || st != 204 {
		t.Fatal(st, err)
	}
	c.encKey, _ = hkdf.Sha512(zzShared[:], []byte("Control-Salt"), []byte("Control-Write-Encryption-Key"))
	c.decKey, _ = hkdf.Sha512(zzShared[:], []byte("Control-Salt"), []byte("Control-Read-Encryption-Key"))
	c.secure = true

	lamp := bulbs[77]
	c.write(zzReq("PUT", "/characteristics", []byte(fmt.Sprintf(`{"characteristics":[{"aid":%d,"iid":%d,"ev":true}]}`, lamp.ID, lamp.Lightbulb.On.ID))))
	if st, _, _, err := c.response("PUT"); err != nil || st != 204 {
		t.Fatal("subscribe", st, err)
	}

	// the application switches the lamp every millisecond
	stop := make(chan struct{})
	done := make(chan struct{})
	go func() {
		defer close(done)
		v := false
		for {
			select {
			case <-stop:
				return
			default:
			}
			v = !v
			lamp.Lightbulb.On.SetValue(v)
			time.Sleep(time.Millisecond)
		}
	}()
	defer func() { close(stop); <-done }()

	events := 0
	for i := 0; i < 30; i++ {
		if err := c.write(zzReq("GET", "/accessories", nil)); err != nil {
			t.Fatal(err)
		}
		st, b, ev, err := c.response("GET")
		events += ev
		if err != nil {
			all := c.log.Bytes()
			h := bytes.LastIndex(all, []byte("HTTP/1.1 200"))
			where := ""
			if h >= 0 {
				if k := bytes.Index(all[h:], []byte("EVENT/1.0")); k >= 0 {
					end := bytes.Index(all[h:], []byte("\r\n0\r\n\r\n"))
					where = fmt.Sprintf("; decrypted stream: answer head at %d, an EVENT/1.0 message starts %d bytes into the answer (last chunk seen: %v), context %q", h, k, end >= 0 && end < k, all[h+k-70:h+k+150])
				}
			}
			t.Fatalf("read %d of /accessories (%d events seen between answers so far): the answer cannot be parsed: %v%s", i, events, err, where)
		}
		var db struct {
			Accessories []json.RawMessage `json:"accessories"`
		}
		if err := json.Unmarshal(b, &db); err != nil || st != 200 {
			at := ""
			if k := bytes.Index(b, []byte("EVENT/1.0")); k >= 0 {
				lo := k - 60
				if lo < 0 {
					lo = 0
				}
				at = fmt.Sprintf("; an event message sits inside the body at offset %d: %q", k, b[lo:k+120])
			}
			t.Fatalf("read %d of /accessories: status %d, %d bytes, not JSON: %v%s", i, st, len(b), err, at)
		}
		if len(db.Accessories) != 151 {
			t.Fatalf("read %d: %d accessories", i, len(db.Accessories))
		}
	}
	t.Logf("30 reads fine, %d events between answers", events)
}

package http_test

import (
	"fmt"
	"testing"

	"github.com/brutella/hc/accessory"
	"github.com/brutella/hc/characteristic"
	"github.com/brutella/hc/service"
)

// C13, clause "no bytes a remote peer can send ... make a handler panic; each such message is
// answered with a well-formed response rather than a dropped connection".
//
// BORDERLINE: needs an application-defined characteristic whose Format is not one of the ten
// constants of the library (NewCharacteristic leaves Format empty; "int" is the name the HAP
// specification uses for signed integers and the library has no constant for it). For such a
// characteristic convert() keeps the JSON value as it is, and `c.Value == value` in updateValue
// (characteristic/characteristic.go:131) compares two []interface{} / map[string]interface{}:
// runtime error "comparing uncomparable type". The input is plain JSON of the wrong type
// (quantifier: "arbitrary JSON (wrong types ...)") sent twice by a verified controller.
func TestHunt5C13CustomFormatArrayValueTwice(t *testing.T) {
	for _, format := range []string{"", "int"} {
		for _, val := range []string{"[1]", `{"a":1}`} {
			t.Run(fmt.Sprintf("format=%q value=%s", format, val), func(t *testing.T) {
				r := newRigWith(t, func() *accessory.Accessory {
					a := accessory.New(accessory.Info{Name: "Custom"}, accessory.TypeOther)
					svc := service.New("F0000001-0000-1000-8000-0026BB765291")
					c := characteristic.NewCharacteristic("F0000002-0000-1000-8000-0026BB765291")
					c.Format = format
					svc.AddCharacteristic(c)
					a.AddService(svc)
					return a
				})
				defer r.cancel()
				a := r.cont.Accessories[len(r.cont.Accessories)-1]
				var iid uint64
				for _, s := range a.GetServices() {
					if s.Type == "F0000001-0000-1000-8000-0026BB765291" {
						iid = s.GetCharacteristics()[0].ID
					}
				}
				cl, err := dial(r.addr)
				if err != nil {
					t.Fatal(err)
				}
				defer cl.c.Close()
				if err := r.honestVerify(cl, 0); err != nil {
					t.Fatal(err)
				}
				body := []byte(fmt.Sprintf(`{"characteristics":[{"aid":%d,"iid":%d,"value":%s}]}`, a.ID, iid, val))
				for i := 1; i <= 2; i++ {
					rs, err := cl.do("PUT", "/characteristics", "application/hap+json", body)
					if p := r.takePanics(); len(p) > 0 {
						t.Fatalf("PUT #%d: handler panicked: %.300s", i, p[0])
					}
					if err != nil {
						t.Fatalf("PUT #%d: no response: %v", i, err)
					}
					t.Logf("PUT #%d -> %d %s", i, rs.status, rs.body)
				}
			})
		}
	}
}

package http_test

// Hunt 5, property C13: end-to-end random histories against the real server.

import (
	"bufio"
	"bytes"
	"context"
	"encoding/binary"
	"fmt"
	"io"
	"math/rand"
	"net"
	nethttp "net/http"
	"os"
	"runtime/debug"
	"strings"
	"sync"
	"testing"
	"time"

	"github.com/brutella/hc/accessory"
	"github.com/brutella/hc/crypto"
	"github.com/brutella/hc/crypto/chacha20poly1305"
	"github.com/brutella/hc/crypto/curve25519"
	"github.com/brutella/hc/crypto/hkdf"
	"github.com/brutella/hc/db"
	"github.com/brutella/hc/event"
	"github.com/brutella/hc/hap"
	haphttp "github.com/brutella/hc/hap/http"
	"github.com/brutella/hc/hap/pair"
	"github.com/brutella/hc/util"
)

type rig struct {
	t        *testing.T
	addr     string
	database db.Database
	device   hap.SecuredDevice
	cont     *accessory.Container

	mu     sync.Mutex
	panics []string

	ctrlName string
	ctrlPub  []byte
	ctrlPriv []byte
	cancel   func()
}

func newRig(t *testing.T) *rig { return newRigWith(t, nil) }

func newRigWith(t *testing.T, extra func() *accessory.Accessory) *rig {
	storage, err := util.NewTempFileStorage()
	if err != nil {
		t.Fatal(err)
	}
	database := db.NewDatabaseWithStorage(storage)
	device, err := hap.NewSecuredDevice("Fuzz Bridge", "001-02-003", database)
	if err != nil {
		t.Fatal(err)
	}
	cont := accessory.NewContainer()
	a1 := accessory.NewLightbulb(accessory.Info{Name: "Lamp"})
	a2 := accessory.NewThermostat(accessory.Info{Name: "Thermo"}, 20, 10, 30, 0.5)
	a3 := accessory.NewSwitch(accessory.Info{Name: "Sw"})
	a4 := accessory.NewCamera(accessory.Info{Name: "Cam"}).Accessory
	as := []*accessory.Accessory{a1.Accessory, a2.Accessory, a3.Accessory, a4}
	if extra != nil {
		as = append(as, extra())
	}
	for _, a := range as {
		if a == nil {
			continue
		}
		if err := cont.AddAccessory(a); err != nil {
			t.Fatal(err)
		}
	}

	r := &rig{t: t, database: database, device: device, cont: cont}

	srv := haphttp.NewServer(haphttp.Config{
		Port:      "127.0.0.1:0",
		Context:   hap.NewContextForSecuredDevice(device),
		Database:  database,
		Container: cont,
		Device:    device,
		Mutex:     &sync.Mutex{},
		Emitter:   event.NewEmitter(),
	})
	r.addr = srv.Addr().String()
	wrapped := nethttp.HandlerFunc(func(w nethttp.ResponseWriter, req *nethttp.Request) {
		defer func() {
			if p := recover(); p != nil {
				r.mu.Lock()
				r.panics = append(r.panics, fmt.Sprintf("%s %s: %v\n%s", req.Method, req.URL, p, debug.Stack()))
				r.mu.Unlock()
				panic(nethttp.ErrAbortHandler)
			}
		}()
		srv.Mux.ServeHTTP(w, req)
	})
	hs := &nethttp.Server{Handler: wrapped}
	go hs.Serve(srv)
	r.cancel = func() { hs.Close() }

	r.ctrlName = "ctrl-A"
	pub, priv, err := crypto.ED25519GenerateKey("seed-ctrl-A")
	if err != nil {
		t.Fatal(err)
	}
	r.ctrlPub, r.ctrlPriv = pub, priv
	if err := database.SaveEntity(db.NewEntity(r.ctrlName, pub, nil)); err != nil {
		t.Fatal(err)
	}
	return r
}

func (r *rig) takePanics() []string {
	r.mu.Lock()
	defer r.mu.Unlock()
	p := r.panics
	r.panics = nil
	return p
}

// ---- client

type client struct {
	c   net.Conn
	br  *bufio.Reader
	enc crypto.Cryptographer
	// session the response may already be encrypted with (known key hand-over race of M4)
	pending crypto.Cryptographer
	// decrypted bytes
	plain bytes.Buffer
}

func dial(addr string) (*client, error) {
	c, err := net.DialTimeout("tcp", addr, 2*time.Second)
	if err != nil {
		return nil, err
	}
	return &client{c: c, br: bufio.NewReader(c)}, nil
}

type encReader struct{ cl *client }

func (e encReader) Read(p []byte) (int, error) {
	cl := e.cl
	for cl.plain.Len() == 0 {
		var hdr [2]byte
		if _, err := io.ReadFull(cl.br, hdr[:]); err != nil {
			return 0, err
		}
		n := int(binary.LittleEndian.Uint16(hdr[:]))
		frame := make([]byte, 2+n+16)
		copy(frame, hdr[:])
		if _, err := io.ReadFull(cl.br, frame[2:]); err != nil {
			return 0, err
		}
		dec, err := cl.enc.Decrypt(bytes.NewReader(frame))
		if err != nil {
			return 0, fmt.Errorf("client decrypt: %v", err)
		}
		io.Copy(&cl.plain, dec)
	}
	return cl.plain.Read(p)
}

type resp struct {
	status int
	ctype  string
	body   []byte
}

func (cl *client) do(method, path, ctype string, body []byte) (*resp, error) {
	var b bytes.Buffer
	fmt.Fprintf(&b, "%s %s HTTP/1.1\r\nHost: x.local\r\n", method, path)
	if ctype != "" {
		fmt.Fprintf(&b, "Content-Type: %s\r\n", ctype)
	}
	if body != nil || method == "POST" || method == "PUT" {
		fmt.Fprintf(&b, "Content-Length: %d\r\n", len(body))
	}
	b.WriteString("\r\n")
	b.Write(body)
	cl.c.SetDeadline(time.Now().Add(5 * time.Second))
	if cl.enc != nil {
		er, err := cl.enc.Encrypt(bytes.NewReader(b.Bytes()))
		if err != nil {
			return nil, err
		}
		out, _ := io.ReadAll(er)
		if _, err := cl.c.Write(out); err != nil {
			return nil, err
		}
		hr, err := nethttp.ReadResponse(bufio.NewReader(encReader{cl}), &nethttp.Request{Method: method})
		if err != nil {
			return nil, err
		}
		bb, err := io.ReadAll(hr.Body)
		if err != nil {
			return nil, err
		}
		return &resp{hr.StatusCode, hr.Header.Get("Content-Type"), bb}, nil
	}
	if _, err := cl.c.Write(b.Bytes()); err != nil {
		return nil, err
	}
	if cl.pending != nil {
		if pk, _ := cl.br.Peek(4); len(pk) == 4 && string(pk) != "HTTP" {
			// known: M4 sometimes comes encrypted already
			cl.enc, cl.pending = cl.pending, nil
			hr, err := nethttp.ReadResponse(bufio.NewReader(encReader{cl}), &nethttp.Request{Method: method})
			if err != nil {
				return nil, err
			}
			bb, err := io.ReadAll(hr.Body)
			if err != nil {
				return nil, err
			}
			return &resp{hr.StatusCode, hr.Header.Get("Content-Type"), bb}, nil
		}
	}
	hr, err := nethttp.ReadResponse(cl.br, &nethttp.Request{Method: method})
	if err != nil {
		return nil, err
	}
	bb, err := io.ReadAll(hr.Body)
	if err != nil {
		return nil, err
	}
	return &resp{hr.StatusCode, hr.Header.Get("Content-Type"), bb}, nil
}

const tlvType = "application/pairing+tlv8"

type item struct {
	tag byte
	val []byte
}

func enc(items []item) []byte {
	var b bytes.Buffer
	for _, it := range items {
		v := it.val
		if len(v) == 0 {
			b.Write([]byte{it.tag, 0})
			continue
		}
		for len(v) > 0 {
			n := len(v)
			if n > 255 {
				n = 255
			}
			b.Write([]byte{it.tag, byte(n)})
			b.Write(v[:n])
			if n == 255 && len(v) == 255 {
				// exact multiple: no terminator needed by this codec
			}
			v = v[n:]
		}
	}
	return b.Bytes()
}

func dec(b []byte) (map[byte][]byte, bool) {
	m := map[byte][]byte{}
	for len(b) > 0 {
		if len(b) < 2 || len(b) < 2+int(b[1]) {
			return m, false
		}
		m[b[0]] = append(m[b[0]], b[2:2+int(b[1])]...)
		b = b[2+int(b[1]):]
	}
	return m, true
}

// verifyState is the reference peer of pair-verify
type verifyState struct {
	priv, pub, shared [32]byte
	key               [32]byte
	accPub            [32]byte
}

func (r *rig) verifyM1() (*verifyState, []item) {
	v := &verifyState{}
	v.priv = curve25519.GeneratePrivateKey()
	v.pub = curve25519.PublicKey(v.priv)
	return v, []item{{6, []byte{1}}, {3, v.pub[:]}}
}

// checkM2 validates the accessory's M2 the way a controller does
func (r *rig) checkM2(v *verifyState, body []byte) error {
	m, ok := dec(body)
	if !ok {
		return fmt.Errorf("M2 not TLV: %x", body)
	}
	if len(m[7]) > 0 {
		return fmt.Errorf("M2 error code %x", m[7])
	}
	if !bytes.Equal(m[6], []byte{2}) || len(m[3]) != 32 || len(m[5]) < 16 {
		return fmt.Errorf("M2 malformed: %x", body)
	}
	copy(v.accPub[:], m[3])
	v.shared = curve25519.SharedSecret(v.priv, v.accPub)
	v.key, _ = hkdf.Sha512(v.shared[:], []byte("Pair-Verify-Encrypt-Salt"), []byte("Pair-Verify-Encrypt-Info"))
	d := m[5]
	var mac [16]byte
	copy(mac[:], d[len(d)-16:])
	plain, err := chacha20poly1305.DecryptAndVerify(v.key[:], []byte("PV-Msg02"), d[:len(d)-16], mac, nil)
	if err != nil {
		return fmt.Errorf("M2 decrypt: %v", err)
	}
	in, ok := dec(plain)
	if !ok {
		return fmt.Errorf("M2 inner not TLV")
	}
	var material []byte
	material = append(material, v.accPub[:]...)
	material = append(material, in[1]...)
	material = append(material, v.pub[:]...)
	if string(in[1]) != r.device.Name() || !crypto.ValidateED25519Signature(r.device.PublicKey(), material, in[10]) {
		return fmt.Errorf("M2 signature invalid")
	}
	return nil
}

func (r *rig) verifyM3Inner(v *verifyState) []item {
	var material []byte
	material = append(material, v.pub[:]...)
	material = append(material, []byte(r.ctrlName)...)
	material = append(material, v.accPub[:]...)
	sig, _ := crypto.ED25519Signature(r.ctrlPriv, material)
	return []item{{1, []byte(r.ctrlName)}, {10, sig}}
}

func (r *rig) sealM3(v *verifyState, inner []byte) []item {
	e, mac, _ := chacha20poly1305.EncryptAndSeal(v.key[:], []byte("PV-Msg03"), inner, nil)
	return []item{{6, []byte{3}}, {5, append(e, mac[:]...)}}
}

// honestVerify runs a correct pair-verify on cl. It allows at most `allowRejected` rejected start requests.
func (r *rig) honestVerify(cl *client, allowRejected int) error {
	for try := 0; ; try++ {
		v, m1 := r.verifyM1()
		rs, err := cl.do("POST", "/pair-verify", tlvType, enc(m1))
		if err != nil {
			return fmt.Errorf("M1: %v", err)
		}
		if err := r.checkM2(v, rs.body); err != nil || rs.status != 200 {
			if try < allowRejected {
				continue
			}
			return fmt.Errorf("M1 answered %d %x (%v) on try %d", rs.status, rs.body, err, try)
		}
		cl.pending, _ = crypto.NewSecureClientSessionFromSharedKey(v.shared)
		rs, err = cl.do("POST", "/pair-verify", tlvType, enc(r.sealM3(v, enc(r.verifyM3Inner(v)))))
		if err != nil {
			return fmt.Errorf("M3: %v", err)
		}
		m, ok := dec(rs.body)
		if rs.status != 200 || !ok || !bytes.Equal(m[6], []byte{4}) || len(m[7]) != 0 {
			return fmt.Errorf("M3 answered %d %x", rs.status, rs.body)
		}
		if cl.enc == nil {
			cl.enc, cl.pending = cl.pending, nil
		}
		// let the server side switch
		rs, err = cl.do("GET", "/accessories", "", nil)
		if err != nil {
			return fmt.Errorf("GET /accessories after verify: %v", err)
		}
		if rs.status != 200 || !bytes.Contains(rs.body, []byte(`"accessories"`)) {
			return fmt.Errorf("GET /accessories after verify: %d %.80s", rs.status, rs.body)
		}
		return nil
	}
}

// ---- mutation

func randBytes(rnd *rand.Rand, n int) []byte {
	b := make([]byte, n)
	rnd.Read(b)
	return b
}

var edgeLens = []int{0, 1, 2, 15, 16, 17, 31, 32, 33, 63, 64, 65, 254, 255, 256, 383, 384, 385, 510, 511, 1023, 1024, 1025, 4096}

func mutateItems(rnd *rand.Rand, items []item) []item {
	out := append([]item(nil), items...)
	n := 1 + rnd.Intn(2)
	for i := 0; i < n; i++ {
		switch rnd.Intn(9) {
		case 0: // drop
			if len(out) > 0 {
				k := rnd.Intn(len(out))
				out = append(out[:k:k], out[k+1:]...)
			}
		case 1: // duplicate
			if len(out) > 0 {
				k := rnd.Intn(len(out))
				out = append(out, out[k])
			}
		case 2: // duplicate adjacent
			if len(out) > 0 {
				k := rnd.Intn(len(out))
				out = append(out[:k+1:k+1], append([]item{out[k]}, out[k+1:]...)...)
			}
		case 3: // change length of a value
			if len(out) > 0 {
				k := rnd.Intn(len(out))
				out[k] = item{out[k].tag, randBytes(rnd, edgeLens[rnd.Intn(len(edgeLens))])}
			}
		case 4: // truncate / extend value
			if len(out) > 0 {
				k := rnd.Intn(len(out))
				v := out[k].val
				if len(v) > 0 && rnd.Intn(2) == 0 {
					v = v[:rnd.Intn(len(v))]
				} else {
					v = append(append([]byte(nil), v...), randBytes(rnd, 1+rnd.Intn(20))...)
				}
				out[k] = item{out[k].tag, v}
			}
		case 5: // flip a byte
			if len(out) > 0 {
				k := rnd.Intn(len(out))
				v := append([]byte(nil), out[k].val...)
				if len(v) > 0 {
					v[rnd.Intn(len(v))] ^= byte(1 + rnd.Intn(255))
				}
				out[k] = item{out[k].tag, v}
			}
		case 6: // new item with random tag
			out = append(out, item{byte(rnd.Intn(16)), randBytes(rnd, edgeLens[rnd.Intn(8)])})
		case 7: // method item
			out = append([]item{{0, []byte{byte(rnd.Intn(8))}}}, out...)
		case 8: // state change
			for k := range out {
				if out[k].tag == 6 {
					out[k] = item{6, []byte{byte(rnd.Intn(8))}}
				}
			}
		}
	}
	return out
}

func mutateBytes(rnd *rand.Rand, b []byte) []byte {
	b = append([]byte(nil), b...)
	switch rnd.Intn(6) {
	case 0:
		if len(b) > 0 {
			b = b[:rnd.Intn(len(b))]
		}
	case 1:
		b = append(b, randBytes(rnd, 1+rnd.Intn(40))...)
	case 2:
		b = randBytes(rnd, edgeLens[rnd.Intn(len(edgeLens))])
	case 3:
		b = nil
	case 4:
		if len(b) > 1 {
			b[1] = byte(rnd.Intn(256)) // length byte
		}
	case 5:
		if len(b) > 0 {
			b[rnd.Intn(len(b))] ^= byte(1 + rnd.Intn(255))
		}
	}
	return b
}

func jsonValue(rnd *rand.Rand, depth int) string {
	switch rnd.Intn(16) {
	case 0:
		return "null"
	case 1:
		return "true"
	case 2:
		return "false"
	case 3:
		return fmt.Sprint(rnd.Intn(300) - 20)
	case 4:
		return []string{"1e308", "-1e308", "1e-400", "18446744073709551615", "18446744073709551616", "9223372036854775807", "9223372036854775808", "-9223372036854775809", "4294967296", "-0", "0.5", "1E2", "9007199254740993"}[rnd.Intn(13)]
	case 5:
		return `"` + []string{"", "1", "true", "abc", "NaN", "Inf", "-1", "1e999", "0x10", " 5", "\\u0000", "\\ud800", "AQID", "AQ==", "====", "\xff\xfe"}[rnd.Intn(16)] + `"`
	case 6:
		if depth > 3 {
			return "[]"
		}
		n := rnd.Intn(3)
		var s []string
		for i := 0; i < n; i++ {
			s = append(s, jsonValue(rnd, depth+1))
		}
		return "[" + strings.Join(s, ",") + "]"
	case 7:
		if depth > 3 {
			return "{}"
		}
		return `{"a":` + jsonValue(rnd, depth+1) + `}`
	case 8:
		return strings.Repeat("[", 200) + strings.Repeat("]", 200)
	case 9:
		return `"` + strings.Repeat("A", edgeLens[rnd.Intn(len(edgeLens))]) + `"`
	case 10:
		return fmt.Sprint(rnd.Float64() * 100)
	default:
		return fmt.Sprint(rnd.Intn(3))
	}
}

func (r *rig) ids(rnd *rand.Rand) (uint64, uint64) {
	if rnd.Intn(8) == 0 {
		return uint64(rnd.Intn(6)), uint64(rnd.Intn(40))
	}
	a := r.cont.Accessories[rnd.Intn(len(r.cont.Accessories))]
	var all []uint64
	for _, s := range a.GetServices() {
		for _, c := range s.GetCharacteristics() {
			all = append(all, c.ID)
		}
	}
	return a.ID, all[rnd.Intn(len(all))]
}

func (r *rig) jsonPut(rnd *rand.Rand) []byte {
	var entries []string
	n := 1 + rnd.Intn(3)
	for i := 0; i < n; i++ {
		aid, iid := r.ids(rnd)
		var fields []string
		aidS, iidS := fmt.Sprint(aid), fmt.Sprint(iid)
		switch rnd.Intn(12) {
		case 0:
			aidS = jsonValue(rnd, 0)
		case 1:
			iidS = jsonValue(rnd, 0)
		}
		fields = append(fields, `"aid":`+aidS, `"iid":`+iidS)
		if rnd.Intn(4) != 0 {
			k := []string{"value", "Value", "VALUE", "value", "value"}[rnd.Intn(5)]
			fields = append(fields, `"`+k+`":`+jsonValue(rnd, 0))
		}
		if rnd.Intn(3) == 0 {
			fields = append(fields, `"ev":`+jsonValue(rnd, 0))
		}
		if rnd.Intn(8) == 0 {
			fields = append(fields, fields[rnd.Intn(len(fields))]) // duplicate key
		}
		rnd.Shuffle(len(fields), func(a, b int) { fields[a], fields[b] = fields[b], fields[a] })
		entries = append(entries, "{"+strings.Join(fields, ",")+"}")
	}
	if rnd.Intn(10) == 0 {
		entries = append(entries, jsonValue(rnd, 0))
	}
	body := `{"characteristics":[` + strings.Join(entries, ",") + `]}`
	switch rnd.Intn(15) {
	case 0:
		body = `{"characteristics":` + jsonValue(rnd, 0) + `}`
	case 1:
		body = jsonValue(rnd, 0)
	case 2:
		body = string(mutateBytes(rnd, []byte(body)))
	}
	return []byte(body)
}

// oneHistory drives one connection through a random history and checks the statement after every step.
func (r *rig) oneHistory(seed int64, steps int) (trace []string, err error) {
	rnd := rand.New(rand.NewSource(seed))
	cl, derr := dial(r.addr)
	if derr != nil {
		return nil, derr
	}
	defer cl.c.Close()
	var vs *verifyState // open verify exchange, if any
	logf := func(f string, a ...interface{}) { trace = append(trace, fmt.Sprintf(f, a...)) }

	step := func(method, path, ctype string, body []byte) (*resp, error) {
		logf("%s %s enc=%v body=%x", method, path, cl.enc != nil, body)
		rs, e := cl.do(method, path, ctype, body)
		if p := r.takePanics(); len(p) > 0 {
			return nil, fmt.Errorf("PANIC in handler: %s", p[0])
		}
		if e != nil {
			return nil, fmt.Errorf("no well-formed response to %s %s: %v", method, path, e)
		}
		logf("  -> %d %.100x", rs.status, rs.body)
		return rs, nil
	}

	for i := 0; i < steps; i++ {
		op := rnd.Intn(14)
		switch {
		case op == 0: // honest M1
			v, m1 := r.verifyM1()
			rs, e := step("POST", "/pair-verify", tlvType, enc(m1))
			if e != nil {
				return trace, e
			}
			if r.checkM2(v, rs.body) == nil {
				vs = v
			} else {
				vs = nil
			}
		case op == 1: // mutated M1
			_, m1 := r.verifyM1()
			body := enc(mutateItems(rnd, m1))
			if rnd.Intn(3) == 0 {
				body = mutateBytes(rnd, enc(m1))
			}
			if _, e := step("POST", "/pair-verify", tlvType, body); e != nil {
				return trace, e
			}
			vs = nil // unknown
		case op == 2 || op == 3: // M3, mutated outside or inside
			if cl.enc != nil {
				vs = nil
			}
			v := vs
			if v == nil {
				v, _ = r.verifyM1() // keys the accessory never saw
				v.accPub = curve25519.PublicKey(curve25519.GeneratePrivateKey())
				v.key, _ = hkdf.Sha512(v.shared[:], []byte("x"), []byte("y"))
			}
			inner := r.verifyM3Inner(v)
			var body []byte
			switch rnd.Intn(5) {
			case 0:
				body = enc(mutateItems(rnd, r.sealM3(v, enc(inner))))
			case 1:
				body = enc(r.sealM3(v, enc(mutateItems(rnd, inner))))
			case 2:
				body = enc(r.sealM3(v, mutateBytes(rnd, enc(inner))))
			case 3:
				body = mutateBytes(rnd, enc(r.sealM3(v, enc(inner))))
			case 4:
				// names
				names := []string{"", r.device.Name(), "unknown", strings.Repeat("n", 300), "../x", "a/b", "a:b", "\x00", "ctrl-a", ".", ".."}
				inner[0].val = []byte(names[rnd.Intn(len(names))])
				body = enc(r.sealM3(v, enc(inner)))
			}
			if vs != nil && cl.enc == nil {
				cl.pending, _ = crypto.NewSecureClientSessionFromSharedKey(v.shared)
			}
			rs, e := step("POST", "/pair-verify", tlvType, body)
			if e != nil {
				return trace, e
			}
			if m, ok := dec(rs.body); vs != nil && rs.status == 200 && ok && bytes.Equal(m[6], []byte{4}) && len(m[7]) == 0 {
				// the mutation was harmless, the accessory accepted: the connection is encrypted now
				logf("  accepted, switching keys")
				if cl.pending != nil {
					cl.enc = cl.pending
				} else if cl.enc != nil {
					cl.enc, _ = crypto.NewSecureClientSessionFromSharedKey(v.shared)
				}
			}
			cl.pending = nil
			vs = nil
		case op == 4: // pair-setup garbage
			items := []item{{0, []byte{0}}, {6, []byte{byte(1 + 2*rnd.Intn(3))}}}
			if rnd.Intn(2) == 0 {
				items = append(items, item{3, randBytes(rnd, edgeLens[rnd.Intn(len(edgeLens))])}, item{4, randBytes(rnd, 64)})
			}
			if rnd.Intn(2) == 0 {
				items = append(items, item{5, randBytes(rnd, edgeLens[rnd.Intn(12)])})
			}
			body := enc(mutateItems(rnd, items))
			if _, e := step("POST", "/pair-setup", tlvType, body); e != nil {
				return trace, e
			}
		case op == 5: // pairings
			items := []item{{6, []byte{1}}, {0, []byte{byte(3 + rnd.Intn(3))}}, {1, []byte(fmt.Sprintf("u%d", rnd.Intn(4)))}, {3, randBytes(rnd, 32)}, {11, []byte{byte(rnd.Intn(2))}}}
			if rnd.Intn(3) == 0 {
				names := []string{"", r.device.Name(), strings.Repeat("n", 300), "../x", "a/b", "\x00", ".", ".."}
				items[2].val = []byte(names[rnd.Intn(len(names))])
			}
			if rnd.Intn(2) == 0 {
				items = mutateItems(rnd, items)
			}
			if _, e := step("POST", "/pairings", tlvType, enc(items)); e != nil {
				return trace, e
			}
		case op == 6 || op == 7 || op == 8: // PUT characteristics
			if _, e := step("PUT", "/characteristics", "application/hap+json", r.jsonPut(rnd)); e != nil {
				return trace, e
			}
		case op == 9: // GET characteristics
			var ids []string
			for k := 0; k < 1+rnd.Intn(3); k++ {
				a, c := r.ids(rnd)
				ids = append(ids, fmt.Sprintf("%d.%d", a, c))
			}
			q := "id=" + strings.Join(ids, ",")
			switch rnd.Intn(10) {
			case 0:
				q = "id=" + []string{"", "1", "1.", ".1", "1.2.3", "a.b", "-1.-1", "1.1,", ",", "18446744073709551616.1", "1e3.1", "%zz", "1.1&id=2.2"}[rnd.Intn(13)]
			case 1:
				q += "&meta=1&perms=1&type=1&ev=1"
			}
			if _, e := step("GET", "/characteristics?"+q, "", nil); e != nil {
				return trace, e
			}
		case op == 10:
			m := []string{"GET", "POST", "PUT", "DELETE", "HEAD", "OPTIONS", "PATCH"}[rnd.Intn(7)]
			p := []string{"/accessories", "/characteristics", "/pairings", "/pair-setup", "/pair-verify", "/identify", "/resource", "/", "/prepare"}[rnd.Intn(9)]
			var body []byte
			if m != "GET" && m != "HEAD" {
				body = randBytes(rnd, rnd.Intn(40))
			}
			if m == "HEAD" {
				continue // the reference client does not model HEAD bodies
			}
			if _, e := step(m, p, "", body); e != nil {
				return trace, e
			}
		case op == 11 && cl.enc == nil: // complete an honest verify
			logf("honest verify (2 rejected starts tolerated inside a history: the one open exchange)")
			if e := r.honestVerify(cl, 1); e != nil {
				if p := r.takePanics(); len(p) > 0 {
					return trace, fmt.Errorf("PANIC in handler: %s", p[0])
				}
				return trace, fmt.Errorf("honest verify inside history: %v", e)
			}
			vs = nil
		default:
			if _, e := step("GET", "/accessories", "", nil); e != nil {
				return trace, e
			}
		}
	}

	// the same connection still serves a correct handshake after at most one rejected start
	if cl.enc == nil {
		logf("final honest verify on the same connection")
		if e := r.honestVerify(cl, 1); e != nil {
			return trace, fmt.Errorf("same connection: %v", e)
		}
	}
	// a new connection serves a correct handshake at once
	c2, derr := dial(r.addr)
	if derr != nil {
		return trace, derr
	}
	defer c2.c.Close()
	if e := r.honestVerify(c2, 0); e != nil {
		return trace, fmt.Errorf("new connection: %v", e)
	}
	if p := r.takePanics(); len(p) > 0 {
		return trace, fmt.Errorf("PANIC in handler: %s", p[0])
	}
	return trace, nil
}

func TestHunt5C13RandomHistories(t *testing.T) {
	r := newRig(t)
	defer r.cancel()
	n := 300
	if s := os.Getenv("C13_N"); s != "" {
		fmt.Sscan(s, &n)
	}
	base := int64(1)
	if s := os.Getenv("C13_SEED"); s != "" {
		fmt.Sscan(s, &base)
	}
	fails := 0
	for i := 0; i < n; i++ {
		seed := base + int64(i)
		// the controller must be there for the oracle: a history may delete it through /pairings
		r.database.SaveEntity(db.NewEntity(r.ctrlName, r.ctrlPub, nil))
		steps := 12
		if s := os.Getenv("C13_STEPS"); s != "" {
			fmt.Sscan(s, &steps)
		}
		trace, err := r.oneHistory(seed, steps)
		if err != nil {
			fails++
			tail := trace
			if len(tail) > 8 {
				tail = tail[len(tail)-8:]
			}
			t.Errorf("seed %d: %v\n  %s", seed, err, strings.Join(tail, "\n  "))
			if fails > 5 {
				break
			}
		}
	}
	_ = context.Background
	_ = pair.TagSequence
}

func TestHunt5C13Parallel(t *testing.T) {
	r := newRig(t)
	defer r.cancel()
	var wg sync.WaitGroup
	for g := 0; g < 6; g++ {
		wg.Add(1)
		go func(g int) {
			defer wg.Done()
			for i := 0; i < 60; i++ {
				seed := int64(900000 + g*1000 + i)
				r.database.SaveEntity(db.NewEntity(r.ctrlName, r.ctrlPub, nil))
				trace, err := r.oneHistory(seed, 25)
				if err != nil && !strings.Contains(err.Error(), "unknown") {
					tail := trace
					if len(tail) > 6 {
						tail = tail[len(tail)-6:]
					}
					t.Errorf("seed %d: %v\n  %s", seed, err, strings.Join(tail, "\n  "))
					return
				}
			}
		}(g)
	}
	wg.Wait()
}

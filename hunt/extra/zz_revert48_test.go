package hc

import (
	"io/ioutil"
	"os"
	"testing"

	"github.com/brutella/hc/accessory"
)

// A bridge and a lamp with automatic ids followed by a switch whose id (2) was set explicitly: the ids the
// application chose are distinct, the container gives 2 to the lamp and rejects the switch. Either the
// transport serves every accessory it was given, or the application is told.
func TestZZRevert48EveryAccessoryIsServedOrAnErrorReturned(t *testing.T) {
	dir, err := ioutil.TempDir("", "revert48")
	if err != nil {
		t.Fatal(err)
	}
	defer os.RemoveAll(dir)

	bridge := accessory.NewBridge(accessory.Info{Name: "Bridge"})
	lamp := accessory.NewLightbulb(accessory.Info{Name: "Lamp"})
	sw := accessory.NewSwitch(accessory.Info{Name: "Switch", ID: 2})

	tr, err := NewIPTransport(Config{StoragePath: dir, Port: "0"}, bridge.Accessory, lamp.Accessory, sw.Accessory)
	if err != nil {
		t.Logf("the application is told: %v", err)
		return
	}
	served := tr.container.Accessories
	if len(served) != 3 {
		t.Fatalf("NewIPTransport returned no error, but %d of 3 accessories are served (switch has id %d, lamp has id %d)", len(served), sw.ID, lamp.ID)
	}
}

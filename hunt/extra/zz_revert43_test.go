package hap

import (
	"net"
	"testing"
	"time"

	"github.com/brutella/hc/crypto"
)

type zz43Addr string

func (a zz43Addr) Network() string { return "tcp" }
func (a zz43Addr) String() string  { return string(a) }

// zz43Conn is a socket that swallows what is written to it.
type zz43Conn struct{ closed chan struct{} }

func (c *zz43Conn) Read(b []byte) (int, error)         { <-c.closed; return 0, net.ErrClosed }
func (c *zz43Conn) Write(b []byte) (int, error)        { return len(b), nil }
func (c *zz43Conn) Close() error                       { return nil }
func (c *zz43Conn) LocalAddr() net.Addr                { return zz43Addr("10.0.0.1:51826") }
func (c *zz43Conn) RemoteAddr() net.Addr               { return zz43Addr("10.0.0.2:40000") }
func (c *zz43Conn) SetDeadline(t time.Time) error      { return nil }
func (c *zz43Conn) SetReadDeadline(t time.Time) error  { return nil }
func (c *zz43Conn) SetWriteDeadline(t time.Time) error { return nil }

// A subscribed connection closes while an event is on its way to it: the writer has seen the session
// (Connection.Write found an encrypter) and waits for the connection's write lock, the server's
// goroutine closes the connection (which removes the session), the writer goes on. The writer is the
// goroutine that changed the value — the application's, or the handler of another controller's
// write, which still has the other subscribers to notify. It must get an error, not a panic.
func TestZZRevert43EventToAConnectionThatCloses(t *testing.T) {
	ctx := NewContextForSecuredDevice(nil)
	con := NewConnection(&zz43Conn{closed: make(chan struct{})}, ctx)
	sess, err := crypto.NewSecureSessionFromSharedKey([32]byte{1, 2, 3})
	if err != nil {
		t.Fatal(err)
	}
	s := ctx.GetSessionForConnection(con)
	s.SetCryptographer(sess)
	s.Decrypter() // activates the cryptographer, as the first read after pair-verify does

	con.writeMutex.Lock() // another write is in flight
	type result struct {
		err      error
		panicked interface{}
	}
	done := make(chan result, 1)
	go func() {
		var r result
		defer func() { r.panicked = recover(); done <- r }()
		_, r.err = con.Write([]byte("EVENT/1.0 200 OK\r\n\r\n"))
	}()
	time.Sleep(50 * time.Millisecond) // the writer has passed Connection.Write's test and waits for the lock
	con.Close()                       // the server's goroutine closes the connection: the session is gone
	con.writeMutex.Unlock()

	r := <-done
	if r.panicked != nil {
		t.Fatalf("the goroutine that changed the value panics: %v", r.panicked)
	}
	if r.err == nil {
		t.Fatalf("a write to a connection without a session reports success")
	}
}

package http

import (
	"bytes"
	"fmt"
	"io/ioutil"
	"net"
	gohttp "net/http"
	"net/http/httptest"
	"sync"
	"testing"
	"time"

	"github.com/brutella/hc/accessory"
	"github.com/brutella/hc/crypto"
	"github.com/brutella/hc/crypto/chacha20poly1305"
	"github.com/brutella/hc/crypto/hkdf"
	"github.com/brutella/hc/db"
	"github.com/brutella/hc/event"
	"github.com/brutella/hc/hap"
	"github.com/brutella/hc/hap/pair"
	"github.com/brutella/hc/util"
)

const huntPin = "001-02-003"

type huntAddr string

func (a huntAddr) Network() string { return "tcp" }
func (a huntAddr) String() string  { return string(a) }

// huntConn is a do-nothing net.Conn with a fixed remote address.
type huntConn struct {
	addr huntAddr
	buf  bytes.Buffer
}

func (c *huntConn) Read(b []byte) (int, error)         { return 0, fmt.Errorf("not readable") }
func (c *huntConn) Write(b []byte) (int, error)        { return c.buf.Write(b) }
func (c *huntConn) Close() error                       { return nil }
func (c *huntConn) LocalAddr() net.Addr                { return huntAddr("127.0.0.1:1") }
func (c *huntConn) RemoteAddr() net.Addr               { return c.addr }
func (c *huntConn) SetDeadline(t time.Time) error      { return nil }
func (c *huntConn) SetReadDeadline(t time.Time) error  { return nil }
func (c *huntConn) SetWriteDeadline(t time.Time) error { return nil }

type huntEnv struct {
	t      *testing.T
	srv    *Server
	ctx    hap.Context
	db     db.Database
	device hap.SecuredDevice
	accs   []*accessory.Accessory
	nconn  int

	clientDB db.Database
	client   hap.Device
}

func newHuntEnv(t *testing.T) *huntEnv {
	storage, err := util.NewTempFileStorage()
	if err != nil {
		t.Fatal(err)
	}
	database := db.NewDatabaseWithStorage(storage)
	device, err := hap.NewSecuredDevice("Hunt Bridge", huntPin, database)
	if err != nil {
		t.Fatal(err)
	}
	ctx := hap.NewContextForSecuredDevice(device)

	container := accessory.NewContainer()
	var accs []*accessory.Accessory
	a1 := accessory.NewColoredLightbulb(accessory.Info{Name: "bulb"})
	a2 := accessory.NewThermostat(accessory.Info{Name: "thermo"}, 20, 10, 30, 0.5)
	a3 := accessory.NewSwitch(accessory.Info{Name: "switch"})
	a4 := accessory.NewTelevision(accessory.Info{Name: "tv"})
	a5 := accessory.NewCamera(accessory.Info{Name: "cam"})
	accs = append(accs, a1.Accessory, a2.Accessory, a3.Accessory, a4.Accessory, a5.Accessory)
	for _, a := range accs {
		container.AddAccessory(a)
	}

	cfg := Config{
		Context:   ctx,
		Database:  database,
		Container: container,
		Device:    device,
		Mutex:     &sync.Mutex{},
		Emitter:   event.NewEmitter(),
	}
	srv := testable(cfg)

	clientDB, _ := db.NewTempDatabase()
	client, _ := hap.NewDevice("HuntClient", clientDB)

	return &huntEnv{t: t, srv: srv, ctx: ctx, db: database, device: device, accs: accs, clientDB: clientDB, client: client}
}

// newConn registers a fresh fake connection (and its session) like Accept() does.
func (e *huntEnv) newConn() string {
	e.nconn++
	addr := fmt.Sprintf("10.0.0.1:%d", 40000+e.nconn)
	hap.NewConnection(&huntConn{addr: huntAddr(addr)}, e.ctx)
	return addr
}

type huntResp struct {
	code     int
	body     []byte
	panicked interface{}
}

// do runs one request through the mux with a recover wrapper.
func (e *huntEnv) do(addr, method, path string, body []byte) (res huntResp) {
	req := httptest.NewRequest(method, path, bytes.NewReader(body))
	req.RemoteAddr = addr
	rec := httptest.NewRecorder()
	func() {
		defer func() {
			if r := recover(); r != nil {
				res.panicked = r
			}
		}()
		e.srv.Mux.ServeHTTP(rec, req)
	}()
	res.code = rec.Code
	res.body, _ = ioutil.ReadAll(rec.Body)
	// simulate the next read on the connection: the session switches to a
	// cryptographer negotiated by pair-verify
	if s := e.ctx.Get(addr); s != nil {
		s.(hap.Session).Decrypter()
	}
	return
}

func (e *huntEnv) mustNoPanic(what string, r huntResp) {
	e.t.Helper()
	if r.panicked != nil {
		e.t.Errorf("%s: handler PANICKED: %v", what, r.panicked)
	}
}

// honestSetup runs a correct pair-setup on addr. allowRejected is the number of
// start requests that may be rejected (500) before one is accepted.
// (Written against the exported client session, because the library's client
// controller insists on a 384 byte B and the server strips leading zeros.)
func (e *huntEnv) honestSetup(addr string, allowRejected int) error {
	cdb, _ := db.NewTempDatabase()
	client, _ := hap.NewDevice(fmt.Sprintf("Client-%d", e.nconn), cdb)
	cs := pair.NewSetupClientSession("Pair-Setup", huntPin)

	var r huntResp
	for i := 0; ; i++ {
		r = e.do(addr, "POST", "/pair-setup", tlvBytes(0, []byte{0}, 6, []byte{1}))
		if r.panicked != nil {
			return fmt.Errorf("M1 panicked: %v", r.panicked)
		}
		if r.code == 200 {
			break
		}
		if i >= allowRejected {
			return fmt.Errorf("M1 rejected %d time(s), status %d", i+1, r.code)
		}
	}
	m2, err := util.NewTLV8ContainerFromReader(bytes.NewReader(r.body))
	if err != nil {
		return err
	}
	if m2.GetByte(pair.TagSequence) != 2 || m2.GetByte(pair.TagErrCode) != 0 {
		return fmt.Errorf("M2 unexpected: %x", r.body)
	}
	if err := cs.GenerateKeys(m2.GetBytes(pair.TagSalt), m2.GetBytes(pair.TagPublicKey)); err != nil {
		return err
	}
	r = e.do(addr, "POST", "/pair-setup", tlvBytes(0, []byte{0}, 6, []byte{3}, 3, cs.PublicKey, 4, cs.Proof))
	if r.panicked != nil {
		return fmt.Errorf("M3 panicked: %v", r.panicked)
	}
	if r.code != 200 {
		return fmt.Errorf("M3 status %d", r.code)
	}
	m4, _ := util.NewTLV8ContainerFromReader(bytes.NewReader(r.body))
	if ec := m4.GetByte(pair.TagErrCode); ec != 0 {
		return fmt.Errorf("M4 error code %d", ec)
	}
	if !cs.IsServerProofValid(m4.GetBytes(pair.TagProof)) {
		return fmt.Errorf("M4 proof invalid")
	}
	cs.SetupEncryptionKey([]byte("Pair-Setup-Encrypt-Salt"), []byte("Pair-Setup-Encrypt-Info"))
	hash, _ := hkdf.Sha512(cs.PrivateKey, []byte("Pair-Setup-Controller-Sign-Salt"), []byte("Pair-Setup-Controller-Sign-Info"))
	var m []byte
	m = append(m, hash[:]...)
	m = append(m, client.Name()...)
	m = append(m, client.PublicKey()...)
	sig, _ := crypto.ED25519Signature(client.PrivateKey(), m)
	plain := tlvBytes(1, []byte(client.Name()), 3, client.PublicKey(), 10, sig)
	enc, mac, _ := chacha20poly1305.EncryptAndSeal(cs.EncryptionKey[:], []byte("PS-Msg05"), plain, nil)
	r = e.do(addr, "POST", "/pair-setup", tlvBytes(0, []byte{0}, 6, []byte{5}, 5, append(enc, mac[:]...)))
	if r.panicked != nil {
		return fmt.Errorf("M5 panicked: %v", r.panicked)
	}
	if r.code != 200 {
		return fmt.Errorf("M5 status %d", r.code)
	}
	m6, _ := util.NewTLV8ContainerFromReader(bytes.NewReader(r.body))
	if ec := m6.GetByte(pair.TagErrCode); ec != 0 {
		return fmt.Errorf("M6 error code %d", ec)
	}
	data := m6.GetBytes(pair.TagEncryptedData)
	if len(data) < 16 {
		return fmt.Errorf("M6 without data")
	}
	var tag [16]byte
	copy(tag[:], data[len(data)-16:])
	dec, err := chacha20poly1305.DecryptAndVerify(cs.EncryptionKey[:], []byte("PS-Msg06"), data[:len(data)-16], tag, nil)
	if err != nil {
		return fmt.Errorf("M6 decrypt: %v", err)
	}
	in, err := util.NewTLV8ContainerFromReader(bytes.NewReader(dec))
	if err != nil {
		return err
	}
	cdb.SaveEntity(db.NewEntity(in.GetString(pair.TagUsername), in.GetBytes(pair.TagPublicKey), nil))
	if _, err := e.db.EntityWithName(client.Name()); err != nil {
		return fmt.Errorf("pairing not stored: %v", err)
	}
	// remember the first paired client as "the" controller
	if _, err := e.clientDB.EntityWithName(e.device.Name()); err != nil {
		e.client = client
		e.clientDB = cdb
	}
	return nil
}

// pairDirect stores the harness client as a paired controller without running pair-setup.
func (e *huntEnv) pairDirect() {
	e.db.SaveEntity(db.NewEntity(e.client.Name(), e.client.PublicKey(), nil))
	e.clientDB.SaveEntity(db.NewEntity(e.device.Name(), e.device.PublicKey(), nil))
}

// honestVerify runs a correct pair-verify on addr.
func (e *huntEnv) honestVerify(addr string, allowRejected int) error {
	vc := pair.NewVerifyClientController(e.client, e.clientDB)
	var r huntResp
	for i := 0; ; i++ {
		b, _ := ioutil.ReadAll(vc.InitialKeyVerifyRequest())
		r = e.do(addr, "POST", "/pair-verify", b)
		if r.panicked != nil {
			return fmt.Errorf("verify M1 panicked: %v", r.panicked)
		}
		if r.code == 200 {
			break
		}
		if i >= allowRejected {
			return fmt.Errorf("verify M1 rejected %d time(s), status %d", i+1, r.code)
		}
	}
	next, err := pair.HandleReaderForHandler(bytes.NewReader(r.body), vc)
	if err != nil {
		return fmt.Errorf("verify client M2: %v", err)
	}
	b, _ := ioutil.ReadAll(next)
	r = e.do(addr, "POST", "/pair-verify", b)
	if r.panicked != nil {
		return fmt.Errorf("verify M3 panicked: %v", r.panicked)
	}
	if r.code != 200 {
		return fmt.Errorf("verify M3 status %d", r.code)
	}
	c, err := util.NewTLV8ContainerFromReader(bytes.NewReader(r.body))
	if err != nil {
		return err
	}
	if ec := c.GetByte(pair.TagErrCode); ec != 0 {
		return fmt.Errorf("verify M4 error code %d", ec)
	}
	sess := e.ctx.Get(addr).(hap.Session)
	if sess.Encrypter() == nil {
		return fmt.Errorf("session not encrypted after verify")
	}
	return nil
}

func tlvBytes(items ...interface{}) []byte {
	// items: tag(byte-ish int), value([]byte), ...
	var b bytes.Buffer
	for i := 0; i+1 < len(items); i += 2 {
		tag := byte(items[i].(int))
		val := items[i+1].([]byte)
		for {
			n := len(val)
			if n > 255 {
				n = 255
			}
			b.WriteByte(tag)
			b.WriteByte(byte(n))
			b.Write(val[:n])
			val = val[n:]
			if len(val) == 0 && n < 255 {
				break
			}
			if len(val) == 0 {
				break
			}
		}
	}
	return b.Bytes()
}

var _ = gohttp.StatusOK

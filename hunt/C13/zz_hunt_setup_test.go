package http

import (
	"bytes"
	"fmt"
	"math/rand"
	"testing"

	"github.com/brutella/hc/crypto"
	"github.com/brutella/hc/crypto/chacha20poly1305"
	"github.com/brutella/hc/crypto/hkdf"
	"github.com/brutella/hc/db"
	"github.com/brutella/hc/hap"
	"github.com/brutella/hc/hap/pair"
	"github.com/brutella/hc/util"
)

func TestHuntBaseline(t *testing.T) {
	e := newHuntEnv(t)
	a := e.newConn()
	if err := e.honestSetup(a, 0); err != nil {
		t.Fatal(err)
	}
	b := e.newConn()
	if err := e.honestVerify(b, 0); err != nil {
		t.Fatal(err)
	}
	r := e.do(b, "GET", "/accessories", nil)
	if r.code != 200 || r.panicked != nil {
		t.Fatal(r.code, r.panicked)
	}
}

// garbage bodies for a tlv8 endpoint
func huntGarbage() [][]byte {
	rnd := rand.New(rand.NewSource(1))
	var out [][]byte
	out = append(out, nil, []byte{}, []byte{0}, []byte{6}, []byte{6, 1}, []byte{6, 5, 1}, []byte{6, 0}, []byte{6, 255},
		[]byte{6, 1, 1, 6, 1, 1}, []byte{0, 1, 0, 6, 1, 9}, []byte{0, 1, 7, 6, 1, 1}, []byte{0, 1, 1, 6, 1, 1},
		[]byte{6, 1, 0}, []byte{6, 1, 2}, []byte{6, 1, 3}, []byte{6, 1, 4}, []byte{6, 1, 5}, []byte{6, 1, 6}, []byte{6, 1, 255},
		[]byte{6, 2, 1, 1}, []byte("{\"a\":1}"), bytes.Repeat([]byte{0xff}, 5000), bytes.Repeat([]byte{6, 1, 1}, 3000))
	for i := 0; i < 40; i++ {
		b := make([]byte, rnd.Intn(600))
		rnd.Read(b)
		out = append(out, b)
	}
	return out
}

// drive pair-setup on addr up to (not including) step `upto` (1 = nothing sent, 3 = M1/M2 done, 5 = M1..M4 done)
func (e *huntEnv) setupPrefix(addr string, upto int) error {
	if upto <= 1 {
		return nil
	}
	if upto <= 3 {
		r := e.do(addr, "POST", "/pair-setup", tlvBytes(0, []byte{0}, 6, []byte{1}))
		if r.code != 200 {
			return fmt.Errorf("prefix M1 status %d", r.code)
		}
		return nil
	}
	_, _, _, err := e.setupToM4(addr)
	return err
}

// Probe 1: garbage at every pair-setup state; afterwards honest handshake on same + new connection.
func TestHuntSetupGarbageEveryState(t *testing.T) {
	e := newHuntEnv(t)
	for _, upto := range []int{1, 3, 5} {
		for i, g := range huntGarbage() {
			addr := e.newConn()
			if err := e.setupPrefix(addr, upto); err != nil {
				t.Fatal(err)
			}
			r := e.do(addr, "POST", "/pair-setup", g)
			e.mustNoPanic(fmt.Sprintf("state %d garbage %d %x", upto, i, trunc(g)), r)
			if r.code != 200 && r.code != 500 {
				t.Errorf("state %d garbage %d: status %d", upto, i, r.code)
			}
			if err := e.honestSetup(addr, 1); err != nil {
				t.Errorf("state %d garbage %d (%x): honest setup on same connection: %v", upto, i, trunc(g), err)
			}
			n := e.newConn()
			if err := e.honestSetup(n, 0); err != nil {
				t.Errorf("state %d garbage %d: honest setup on new connection: %v", upto, i, err)
			}
		}
	}
}

func trunc(b []byte) []byte {
	if len(b) > 24 {
		return b[:24]
	}
	return b
}

// Probe 2: M3 with strange A / proof.
func TestHuntSetupM3Variants(t *testing.T) {
	e := newHuntEnv(t)
	N := make([]byte, 384) // not N, but any multiple handled below
	variants := map[string][]byte{
		"noA":        tlvBytes(6, []byte{3}, 4, bytes.Repeat([]byte{1}, 64)),
		"emptyA":     tlvBytes(6, []byte{3}, 3, []byte{}, 4, bytes.Repeat([]byte{1}, 64)),
		"zeroA":      tlvBytes(6, []byte{3}, 3, N, 4, bytes.Repeat([]byte{1}, 64)),
		"oneA":       tlvBytes(6, []byte{3}, 3, []byte{1}, 4, bytes.Repeat([]byte{1}, 64)),
		"hugeA":      tlvBytes(6, []byte{3}, 3, bytes.Repeat([]byte{0xff}, 4000), 4, bytes.Repeat([]byte{1}, 64)),
		"noProof":    tlvBytes(6, []byte{3}, 3, bytes.Repeat([]byte{2}, 384)),
		"emptyProof": tlvBytes(6, []byte{3}, 3, bytes.Repeat([]byte{2}, 384), 4, []byte{}),
		"longProof":  tlvBytes(6, []byte{3}, 3, bytes.Repeat([]byte{2}, 384), 4, bytes.Repeat([]byte{1}, 1000)),
		"dupSeq":     tlvBytes(6, []byte{3}, 6, []byte{1}, 3, bytes.Repeat([]byte{2}, 384), 4, bytes.Repeat([]byte{1}, 64)),
	}
	for name, body := range variants {
		addr := e.newConn()
		if err := e.setupPrefix(addr, 3); err != nil {
			t.Fatal(err)
		}
		r := e.do(addr, "POST", "/pair-setup", body)
		e.mustNoPanic(name, r)
		if err := e.honestSetup(addr, 1); err != nil {
			t.Errorf("%s: honest setup on same connection: %v", name, err)
		}
		if err := e.honestSetup(e.newConn(), 0); err != nil {
			t.Errorf("%s: honest setup on new connection: %v", name, err)
		}
	}
}

// Probe 3: M5 variants. The client knows the PIN (did M1-M4 correctly), then sends a bad M5.
func TestHuntSetupM5Variants(t *testing.T) {
	e := newHuntEnv(t)

	type mk func(key [32]byte, srpKey []byte, client hap.Device) []byte
	seal := func(key [32]byte, plain []byte) []byte {
		enc, mac, _ := chacha20poly1305.EncryptAndSeal(key[:], []byte("PS-Msg05"), plain, nil)
		return tlvBytes(6, []byte{5}, 5, append(enc, mac[:]...))
	}
	signed := func(srpKey []byte, name string, ltpk, ltsk []byte) (sig []byte) {
		hash, _ := hkdf.Sha512(srpKey, []byte("Pair-Setup-Controller-Sign-Salt"), []byte("Pair-Setup-Controller-Sign-Info"))
		var m []byte
		m = append(m, hash[:]...)
		m = append(m, name...)
		m = append(m, ltpk...)
		sig, _ = crypto.ED25519Signature(ltsk, m)
		return
	}
	variants := map[string]mk{
		"noData":   func(k [32]byte, s []byte, c hap.Device) []byte { return tlvBytes(6, []byte{5}) },
		"short15":  func(k [32]byte, s []byte, c hap.Device) []byte { return tlvBytes(6, []byte{5}, 5, make([]byte, 15)) },
		"exact16":  func(k [32]byte, s []byte, c hap.Device) []byte { return tlvBytes(6, []byte{5}, 5, make([]byte, 16)) },
		"wrongTag": func(k [32]byte, s []byte, c hap.Device) []byte { return tlvBytes(6, []byte{5}, 5, make([]byte, 100)) },
		"validEmptyPlain": func(k [32]byte, s []byte, c hap.Device) []byte {
			return seal(k, nil)
		},
		"validTruncatedTLV": func(k [32]byte, s []byte, c hap.Device) []byte {
			return seal(k, []byte{1, 200, 1, 2, 3})
		},
		"validTagOnly": func(k [32]byte, s []byte, c hap.Device) []byte {
			return seal(k, []byte{1})
		},
		"shortLTPK": func(k [32]byte, s []byte, c hap.Device) []byte {
			return seal(k, tlvBytes(1, []byte("x"), 3, make([]byte, 31), 10, make([]byte, 64)))
		},
		"longLTPK": func(k [32]byte, s []byte, c hap.Device) []byte {
			return seal(k, tlvBytes(1, []byte("x"), 3, make([]byte, 33), 10, make([]byte, 64)))
		},
		"noLTPK": func(k [32]byte, s []byte, c hap.Device) []byte {
			return seal(k, tlvBytes(1, []byte("x"), 10, make([]byte, 64)))
		},
		"shortSig": func(k [32]byte, s []byte, c hap.Device) []byte {
			return seal(k, tlvBytes(1, []byte("x"), 3, c.PublicKey(), 10, make([]byte, 63)))
		},
		"noSig": func(k [32]byte, s []byte, c hap.Device) []byte {
			return seal(k, tlvBytes(1, []byte("x"), 3, c.PublicKey()))
		},
		"emptyUsernameValidSig": func(k [32]byte, s []byte, c hap.Device) []byte {
			return seal(k, tlvBytes(3, c.PublicKey(), 10, signed(s, "", c.PublicKey(), c.PrivateKey())))
		},
		"longUsernameValidSig": func(k [32]byte, s []byte, c hap.Device) []byte {
			n := string(bytes.Repeat([]byte("u"), 300))
			return seal(k, tlvBytes(1, []byte(n), 3, c.PublicKey(), 10, signed(s, n, c.PublicKey(), c.PrivateKey())))
		},
		"slashUsernameValidSig": func(k [32]byte, s []byte, c hap.Device) []byte {
			n := "../../x\x00y"
			return seal(k, tlvBytes(1, []byte(n), 3, c.PublicKey(), 10, signed(s, n, c.PublicKey(), c.PrivateKey())))
		},
	}
	for name, f := range variants {
		addr := e.newConn()
		key, srpKey, client, err := e.setupToM4(addr)
		if err != nil {
			t.Fatal(err)
		}
		body := f(key, srpKey, client)
		r := e.do(addr, "POST", "/pair-setup", body)
		e.mustNoPanic(name, r)
		t.Logf("%s -> %d %x", name, r.code, r.body)
		if r.code != 200 && r.code != 500 {
			t.Errorf("%s: status %d", name, r.code)
		}
		if err := e.honestSetup(addr, 1); err != nil {
			t.Errorf("%s: honest setup on same connection: %v", name, err)
		}
		if err := e.honestSetup(e.newConn(), 0); err != nil {
			t.Errorf("%s: honest setup on new connection: %v", name, err)
		}
	}
}

var _ = util.NewTLV8Container

// setupToM4 performs M1..M4 correctly with the exported client session and returns K, S and the client device.
func (e *huntEnv) setupToM4(addr string) (key [32]byte, srpKey []byte, client hap.Device, err error) {
	cdb, _ := db.NewTempDatabase()
	client, _ = hap.NewDevice("M5Client", cdb)
	cs := pair.NewSetupClientSession("Pair-Setup", huntPin)
	r := e.do(addr, "POST", "/pair-setup", tlvBytes(0, []byte{0}, 6, []byte{1}))
	if r.code != 200 {
		return key, nil, nil, fmt.Errorf("M1 status %d", r.code)
	}
	m2, _ := util.NewTLV8ContainerFromReader(bytes.NewReader(r.body))
	if err = cs.GenerateKeys(m2.GetBytes(pair.TagSalt), m2.GetBytes(pair.TagPublicKey)); err != nil {
		return
	}
	r = e.do(addr, "POST", "/pair-setup", tlvBytes(0, []byte{0}, 6, []byte{3}, 3, cs.PublicKey, 4, cs.Proof))
	if r.code != 200 {
		return key, nil, nil, fmt.Errorf("M3 status %d", r.code)
	}
	m4, _ := util.NewTLV8ContainerFromReader(bytes.NewReader(r.body))
	if !cs.IsServerProofValid(m4.GetBytes(pair.TagProof)) {
		return key, nil, nil, fmt.Errorf("M4 proof invalid / err %d", m4.GetByte(pair.TagErrCode))
	}
	cs.SetupEncryptionKey([]byte("Pair-Setup-Encrypt-Salt"), []byte("Pair-Setup-Encrypt-Info"))
	return cs.EncryptionKey, cs.PrivateKey, client, nil
}

package http

import (
	"bufio"
	"bytes"
	"fmt"
	"io"
	"io/ioutil"
	"net"
	gohttp "net/http"
	"sync"
	"syscall"
	"testing"
	"time"

	"github.com/brutella/hc/accessory"
	"github.com/brutella/hc/crypto"
	"github.com/brutella/hc/crypto/chacha20poly1305"
	"github.com/brutella/hc/crypto/curve25519"
	"github.com/brutella/hc/crypto/hkdf"
	"github.com/brutella/hc/db"
	"github.com/brutella/hc/event"
	"github.com/brutella/hc/hap"
	"github.com/brutella/hc/hap/pair"
	"github.com/brutella/hc/util"
)

type wireEnv struct {
	t      *testing.T
	srv    *Server
	addr   string
	mu     sync.Mutex
	panics []string
	db     db.Database
	device hap.SecuredDevice
	stop   func()
}

// newWireEnv starts the real server (own listener, hap connections, sessions) on loopback.
// The only addition is a recover wrapper around the mux which records handler panics
// and re-panics so that net/http behaves as in production.
func newWireEnv(t *testing.T) *wireEnv {
	storage, err := util.NewTempFileStorage()
	if err != nil {
		t.Fatal(err)
	}
	database := db.NewDatabaseWithStorage(storage)
	device, err := hap.NewSecuredDevice("Wire Bridge", huntPin, database)
	if err != nil {
		t.Fatal(err)
	}
	ctx := hap.NewContextForSecuredDevice(device)
	container := accessory.NewContainer()
	container.AddAccessory(accessory.NewSwitch(accessory.Info{Name: "sw"}).Accessory)
	srv := NewServer(Config{Port: "127.0.0.1:0", Context: ctx, Database: database, Container: container, Device: device, Mutex: &sync.Mutex{}, Emitter: event.NewEmitter()})
	w := &wireEnv{t: t, srv: srv, db: database, device: device}
	w.addr = srv.listener.Addr().String()
	handler := gohttp.HandlerFunc(func(rw gohttp.ResponseWriter, r *gohttp.Request) {
		defer func() {
			if p := recover(); p != nil {
				w.mu.Lock()
				w.panics = append(w.panics, fmt.Sprintf("%s %s from %s: %v", r.Method, r.URL.Path, r.RemoteAddr, p))
				w.mu.Unlock()
				panic(p)
			}
		}()
		srv.Mux.ServeHTTP(rw, r)
	})
	hs := &gohttp.Server{Handler: handler, ErrorLog: nil}
	go hs.Serve(srv)
	w.stop = func() { hs.Close() }
	return w
}

func (w *wireEnv) panicList() []string {
	w.mu.Lock()
	defer w.mu.Unlock()
	return append([]string(nil), w.panics...)
}

// dialFrom connects from a fixed local port; Close() on the result sends RST (linger 0).
func dialFrom(addr string, port int) (*net.TCPConn, error) {
	d := net.Dialer{
		Timeout:   2 * time.Second,
		LocalAddr: &net.TCPAddr{IP: net.IPv4(127, 0, 0, 1), Port: port},
		Control: func(network, address string, c syscall.RawConn) error {
			var e error
			c.Control(func(fd uintptr) {
				e = syscall.SetsockoptInt(int(fd), syscall.SOL_SOCKET, syscall.SO_REUSEADDR, 1)
			})
			return e
		},
	}
	c, err := d.Dial("tcp", addr)
	if err != nil {
		return nil, err
	}
	tc := c.(*net.TCPConn)
	tc.SetLinger(0)
	return tc, nil
}

func rawPost(c net.Conn, path string, body []byte) (*gohttp.Response, []byte, error) {
	req := fmt.Sprintf("POST %s HTTP/1.1\r\nHost: x\r\nContent-Type: application/pairing+tlv8\r\nContent-Length: %d\r\n\r\n", path, len(body))
	if _, err := c.Write(append([]byte(req), body...)); err != nil {
		return nil, nil, err
	}
	c.SetReadDeadline(time.Now().Add(5 * time.Second))
	resp, err := gohttp.ReadResponse(bufio.NewReader(c), nil)
	if err != nil {
		return nil, nil, err
	}
	b, _ := ioutil.ReadAll(resp.Body)
	return resp, b, nil
}

// W-A: a peer resets a connection while its request is still being handled and reconnects
// from the same source port. When the server finally closes the first connection it removes
// the session of the second one; the next request on the second connection makes the handler panic.
func TestHuntWireSamePortReconnect(t *testing.T) {
	w := newWireEnv(t)
	defer w.stop()

	// find a free local port
	l, _ := net.Listen("tcp", "127.0.0.1:0")
	port := l.Addr().(*net.TCPAddr).Port
	l.Close()

	c1, err := dialFrom(w.addr, port)
	if err != nil {
		t.Fatal(err)
	}
	// M1 on connection 1
	resp, m2, err := rawPost(c1, "/pair-setup", tlvBytes(0, []byte{0}, 6, []byte{1}))
	if err != nil || resp.StatusCode != 200 {
		t.Fatal(err, resp)
	}
	_ = m2
	// M3 with an arbitrary A and proof: the server is busy with SRP for some milliseconds
	m3 := tlvBytes(0, []byte{0}, 6, []byte{3}, 3, bytes.Repeat([]byte{7}, 384), 4, bytes.Repeat([]byte{1}, 64))
	req := fmt.Sprintf("POST /pair-setup HTTP/1.1\r\nHost: x\r\nContent-Length: %d\r\n\r\n", len(m3))
	c1.Write(append([]byte(req), m3...))
	time.Sleep(2 * time.Millisecond)
	c1.Close() // RST

	// connection 2 from the same source port
	var c2 *net.TCPConn
	for i := 0; i < 50; i++ {
		c2, err = dialFrom(w.addr, port)
		if err == nil {
			break
		}
		time.Sleep(time.Millisecond)
	}
	if err != nil {
		t.Skip("could not reconnect from the same port:", err)
	}
	defer c2.Close()
	// give the server time to finish M3 on connection 1 and close it
	time.Sleep(300 * time.Millisecond)

	resp, body, err := rawPost(c2, "/pair-setup", tlvBytes(0, []byte{0}, 6, []byte{1}))
	if err != nil {
		t.Errorf("correct M1 on the second connection got no response: %v", err)
	} else if resp.StatusCode != 200 {
		t.Errorf("correct M1 on the second connection: status %d %x", resp.StatusCode, body)
	}
	for _, p := range w.panicList() {
		t.Errorf("handler panicked: %s", p)
	}
}

// ---- wire level: encrypted session ----

type wireClient struct {
	c   net.Conn
	sec interface {
		Encrypt(r io.Reader) (io.Reader, error)
		Decrypt(r io.Reader) (io.Reader, error)
	}
	br *bufio.Reader
}

func (w *wireEnv) verifiedClient(client hap.Device) (*wireClient, error) {
	c, err := net.DialTimeout("tcp", w.addr, 2*time.Second)
	if err != nil {
		return nil, err
	}
	priv := curve25519.GeneratePrivateKey()
	pub := curve25519.PublicKey(priv)
	resp, body, err := rawPost(c, "/pair-verify", tlvBytes(6, []byte{1}, 3, pub[:]))
	if err != nil || resp.StatusCode != 200 {
		return nil, fmt.Errorf("verify M1: %v %v", err, resp)
	}
	m2, _ := util.NewTLV8ContainerFromReader(bytes.NewReader(body))
	var other [32]byte
	copy(other[:], m2.GetBytes(pair.TagPublicKey))
	shared := curve25519.SharedSecret(priv, other)
	key, _ := hkdf.Sha512(shared[:], []byte("Pair-Verify-Encrypt-Salt"), []byte("Pair-Verify-Encrypt-Info"))
	var m []byte
	m = append(m, pub[:]...)
	m = append(m, client.Name()...)
	m = append(m, other[:]...)
	sig, _ := crypto.ED25519Signature(client.PrivateKey(), m)
	enc, mac, _ := chacha20poly1305.EncryptAndSeal(key[:], []byte("PV-Msg03"), tlvBytes(1, []byte(client.Name()), 10, sig), nil)
	resp, body, err = rawPost(c, "/pair-verify", tlvBytes(6, []byte{3}, 5, append(enc, mac[:]...)))
	if err != nil || resp.StatusCode != 200 {
		return nil, fmt.Errorf("verify M3: %v %v", err, resp)
	}
	m4, _ := util.NewTLV8ContainerFromReader(bytes.NewReader(body))
	if ec := m4.GetByte(pair.TagErrCode); ec != 0 {
		return nil, fmt.Errorf("verify M4 error %d", ec)
	}
	sec, err := crypto.NewSecureClientSessionFromSharedKey(shared)
	if err != nil {
		return nil, err
	}
	return &wireClient{c: c, sec: sec, br: bufio.NewReader(c)}, nil
}

// request sends one encrypted HTTP request and returns the decrypted response
func (wc *wireClient) request(raw string) (*gohttp.Response, []byte, error) {
	enc, err := wc.sec.Encrypt(bytes.NewBufferString(raw))
	if err != nil {
		return nil, nil, err
	}
	b, _ := ioutil.ReadAll(enc)
	if _, err := wc.c.Write(b); err != nil {
		return nil, nil, err
	}
	wc.c.SetReadDeadline(time.Now().Add(5 * time.Second))
	var plain bytes.Buffer
	for {
		dec, err := wc.sec.Decrypt(wc.br)
		if err != nil {
			return nil, nil, err
		}
		d, _ := ioutil.ReadAll(dec)
		plain.Write(d)
		resp, err := gohttp.ReadResponse(bufio.NewReader(bytes.NewReader(plain.Bytes())), nil)
		if err == nil {
			body, err := ioutil.ReadAll(resp.Body)
			if err == nil {
				return resp, body, nil
			}
		}
		if len(d) == 0 {
			return nil, nil, fmt.Errorf("empty frame")
		}
	}
}

// W-B: garbage / wrong tags / odd lengths inside the encrypted session; afterwards a new
// connection verifies and is served.
func TestHuntWireEncryptedGarbage(t *testing.T) {
	w := newWireEnv(t)
	defer w.stop()
	cdb, _ := db.NewTempDatabase()
	client, _ := hap.NewDevice("WireClient", cdb)
	w.db.SaveEntity(db.NewEntity(client.Name(), client.PublicKey(), nil))

	garbage := [][]byte{
		{0}, {0, 0}, {5, 0, 1, 2, 3}, {0xff, 0xff}, bytes.Repeat([]byte{0xff}, 70000), make([]byte, 18), make([]byte, 17),
		[]byte("GET /accessories HTTP/1.1\r\nHost: x\r\n\r\n"), append([]byte{0, 4}, make([]byte, 1024+16)...),
	}
	for i, g := range garbage {
		wc, err := w.verifiedClient(client)
		if err != nil {
			t.Fatalf("garbage %d: verify: %v", i, err)
		}
		resp, body, err := wc.request("GET /accessories HTTP/1.1\r\nHost: x\r\n\r\n")
		if err != nil || resp.StatusCode != 200 || !bytes.Contains(body, []byte("accessories")) {
			t.Fatalf("garbage %d: first request: %v %v", i, err, resp)
		}
		wc.c.Write(g)
		wc.c.SetReadDeadline(time.Now().Add(300 * time.Millisecond))
		ioutil.ReadAll(wc.c)
		wc.c.Close()
	}
	// valid frames with odd content
	odd := []string{
		"", "\r\n", "GARBAGE\r\n\r\n", "GET /accessories HTTP/9.9\r\n\r\n", "PUT /characteristics HTTP/1.1\r\nHost: x\r\nContent-Length: 5\r\n\r\n{",
		"PUT /characteristics HTTP/1.1\r\nHost: x\r\nTransfer-Encoding: chunked\r\n\r\nzz\r\n", "POST /pairings HTTP/1.1\r\nHost: x\r\nContent-Length: 3\r\n\r\n\x00\x01",
		"GET /characteristics?id=1.9 HTTP/1.1\r\nHost: x\r\n\r\nGET /characteristics?id=1.9 HTTP/1.1\r\nHost: x\r\n\r\n",
		"POST /pair-verify HTTP/1.1\r\nHost: x\r\nContent-Length: 3\r\n\r\n\x06\x01\x03",
		"POST /pair-setup HTTP/1.1\r\nHost: x\r\nContent-Length: 3\r\n\r\n\x06\x01\x05",
	}
	for i, o := range odd {
		wc, err := w.verifiedClient(client)
		if err != nil {
			t.Fatalf("odd %d: verify: %v", i, err)
		}
		enc, _ := wc.sec.Encrypt(bytes.NewBufferString(o))
		b, _ := ioutil.ReadAll(enc)
		wc.c.Write(b)
		wc.c.SetReadDeadline(time.Now().Add(300 * time.Millisecond))
		ioutil.ReadAll(wc.c)
		wc.c.Close()
	}
	wc, err := w.verifiedClient(client)
	if err != nil {
		t.Fatalf("final verify: %v", err)
	}
	resp, body, err := wc.request("GET /accessories HTTP/1.1\r\nHost: x\r\n\r\n")
	if err != nil || resp.StatusCode != 200 || !bytes.Contains(body, []byte("accessories")) {
		t.Errorf("final request: %v %v", err, resp)
	}
	for _, p := range w.panicList() {
		t.Errorf("handler panicked: %s", p)
	}
}

// W-C: raw HTTP oddities on the unencrypted pairing endpoints
func TestHuntWireRawHTTP(t *testing.T) {
	w := newWireEnv(t)
	defer w.stop()
	raws := []string{
		"POST /pair-setup HTTP/1.1\r\nHost: x\r\nContent-Length: 10\r\n\r\n\x06\x01", // short body, then half close
		"POST /pair-setup HTTP/1.1\r\nHost: x\r\nTransfer-Encoding: chunked\r\n\r\n3\r\n\x06\x01\x01\r\n0\r\n\r\n",
		"POST /pair-setup HTTP/1.1\r\nHost: x\r\nTransfer-Encoding: chunked\r\n\r\nzz\r\n",
		"POST /pair-setup HTTP/1.1\r\nHost: x\r\nExpect: 100-continue\r\nContent-Length: 3\r\n\r\n",
		"POST /pair-setup HTTP/1.0\r\n\r\n",
		"POST /pair-verify HTTP/1.1\r\nHost: x\r\nContent-Length: 0\r\n\r\n",
		"GET /pair-verify HTTP/1.1\r\nHost: x\r\n\r\n",
		"POST /pair-setup HTTP/1.1\r\nHost: x\r\nContent-Length: -1\r\n\r\n",
		"POST /pair-setup HTTP/1.1\r\nHost: x\r\nContent-Length: 99999999999999999999\r\n\r\n",
		"\x00\x01\x02\x03\r\n\r\n",
		"POST /identify HTTP/1.1\r\nHost: x\r\nContent-Length: 0\r\n\r\n",
		"POST /pair-setup HTTP/1.1\r\nHost: x\r\nContent-Length: 3\r\n\r\n\x06\x01\x01POST /pair-setup HTTP/1.1\r\nHost: x\r\nContent-Length: 3\r\n\r\n\x06\x01\x01",
	}
	for i, raw := range raws {
		c, err := net.DialTimeout("tcp", w.addr, 2*time.Second)
		if err != nil {
			t.Fatal(err)
		}
		c.Write([]byte(raw))
		c.(*net.TCPConn).CloseWrite()
		c.SetReadDeadline(time.Now().Add(2 * time.Second))
		b, _ := ioutil.ReadAll(c)
		c.Close()
		t.Logf("raw %d -> %q", i, trunc(b))
		if len(b) == 0 {
			t.Errorf("raw %d (%q): connection dropped without any response", i, raw)
		}
	}
	for _, p := range w.panicList() {
		t.Errorf("handler panicked: %s", p)
	}
	// afterwards: honest M1 works
	c, _ := net.DialTimeout("tcp", w.addr, 2*time.Second)
	resp, _, err := rawPost(c, "/pair-setup", tlvBytes(0, []byte{0}, 6, []byte{1}))
	if err != nil || resp.StatusCode != 200 {
		t.Errorf("honest M1 afterwards: %v %v", err, resp)
	}
}

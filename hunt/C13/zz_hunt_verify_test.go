package http

import (
	"bytes"
	"fmt"
	"testing"

	"github.com/brutella/hc/crypto"
	"github.com/brutella/hc/crypto/chacha20poly1305"
	"github.com/brutella/hc/crypto/curve25519"
	"github.com/brutella/hc/crypto/hkdf"
	"github.com/brutella/hc/db"
	"github.com/brutella/hc/hap"
	"github.com/brutella/hc/hap/pair"
	"github.com/brutella/hc/util"
)

// verifyToM2 sends a correct verify start and returns the session encryption key and both public keys.
func (e *huntEnv) verifyToM2(addr string) (key [32]byte, myPub, otherPub [32]byte, err error) {
	priv := curve25519.GeneratePrivateKey()
	myPub = curve25519.PublicKey(priv)
	r := e.do(addr, "POST", "/pair-verify", tlvBytes(6, []byte{1}, 3, myPub[:]))
	if r.panicked != nil || r.code != 200 {
		return key, myPub, otherPub, fmt.Errorf("verify M1: %d %v", r.code, r.panicked)
	}
	m2, _ := util.NewTLV8ContainerFromReader(bytes.NewReader(r.body))
	copy(otherPub[:], m2.GetBytes(pair.TagPublicKey))
	shared := curve25519.SharedSecret(priv, otherPub)
	key, _ = hkdf.Sha512(shared[:], []byte("Pair-Verify-Encrypt-Salt"), []byte("Pair-Verify-Encrypt-Info"))
	return
}

func (e *huntEnv) checkVerifyAfter(t *testing.T, what, addr string) {
	t.Helper()
	if err := e.honestVerify(addr, 1); err != nil {
		t.Errorf("%s: honest verify on same connection: %v", what, err)
	}
	n := e.newConn()
	if err := e.honestVerify(n, 0); err != nil {
		t.Errorf("%s: honest verify on new connection: %v", what, err)
	}
	r := e.do(n, "GET", "/accessories", nil)
	if r.code != 200 || r.panicked != nil {
		t.Errorf("%s: GET /accessories after verify: %d %v", what, r.code, r.panicked)
	}
}

// Probe 4: garbage at every pair-verify state
func TestHuntVerifyGarbageEveryState(t *testing.T) {
	e := newHuntEnv(t)
	e.pairDirect()
	for _, upto := range []int{1, 3} {
		for i, g := range huntGarbage() {
			addr := e.newConn()
			if upto == 3 {
				if _, _, _, err := e.verifyToM2(addr); err != nil {
					t.Fatal(err)
				}
			}
			r := e.do(addr, "POST", "/pair-verify", g)
			what := fmt.Sprintf("state %d garbage %d (%x)", upto, i, trunc(g))
			e.mustNoPanic(what, r)
			if r.code != 200 && r.code != 500 {
				t.Errorf("%s: status %d", what, r.code)
			}
			if s := e.ctx.Get(addr).(hap.Session); s.Encrypter() != nil {
				t.Errorf("%s: session became encrypted", what)
			}
			e.checkVerifyAfter(t, what, addr)
		}
	}
}

// Probe 5: M1 variants (key lengths, low-order points, duplicates)
func TestHuntVerifyM1Variants(t *testing.T) {
	e := newHuntEnv(t)
	e.pairDirect()
	variants := map[string][]byte{
		"noKey":    tlvBytes(6, []byte{1}),
		"emptyKey": tlvBytes(6, []byte{1}, 3, []byte{}),
		"key31":    tlvBytes(6, []byte{1}, 3, make([]byte, 31)),
		"key33":    tlvBytes(6, []byte{1}, 3, make([]byte, 33)),
		"key64dup": tlvBytes(6, []byte{1}, 3, make([]byte, 32), 3, make([]byte, 32)),
		"zeroKey":  tlvBytes(6, []byte{1}, 3, make([]byte, 32)),
		"onesKey":  tlvBytes(6, []byte{1}, 3, bytes.Repeat([]byte{0xff}, 32)),
		"key1":     tlvBytes(6, []byte{1}, 3, append([]byte{1}, make([]byte, 31)...)),
		"method1":  tlvBytes(0, []byte{1}, 6, []byte{1}, 3, make([]byte, 32)),
		"seq0":     tlvBytes(6, []byte{0}, 3, make([]byte, 32)),
		"seq2":     tlvBytes(6, []byte{2}, 3, make([]byte, 32)),
		"seq4":     tlvBytes(6, []byte{4}, 3, make([]byte, 32)),
	}
	for name, body := range variants {
		addr := e.newConn()
		r := e.do(addr, "POST", "/pair-verify", body)
		e.mustNoPanic(name, r)
		t.Logf("%s -> %d %x", name, r.code, trunc(r.body))
		// a (zero key) start may succeed: then send garbage finish
		if r.code == 200 {
			r = e.do(addr, "POST", "/pair-verify", tlvBytes(6, []byte{3}, 5, make([]byte, 40)))
			e.mustNoPanic(name+" finish", r)
		}
		e.checkVerifyAfter(t, name, addr)
	}
}

// Probe 6: M3 variants with correct session key
func TestHuntVerifyM3Variants(t *testing.T) {
	e := newHuntEnv(t)
	e.pairDirect()
	// entities with odd public keys
	e.db.SaveEntity(db.NewEntity("shortkey", make([]byte, 5), nil))
	e.db.SaveEntity(db.NewEntity("emptykey", nil, nil))
	e.db.SaveEntity(db.NewEntity("longkey", make([]byte, 64), nil))

	seal := func(key [32]byte, plain []byte) []byte {
		enc, mac, _ := chacha20poly1305.EncryptAndSeal(key[:], []byte("PV-Msg03"), plain, nil)
		return tlvBytes(6, []byte{3}, 5, append(enc, mac[:]...))
	}
	type mk func(key [32]byte, my, other [32]byte) []byte
	sign := func(name string, my, other [32]byte) []byte {
		var m []byte
		m = append(m, my[:]...)
		m = append(m, name...)
		m = append(m, other[:]...)
		s, _ := crypto.ED25519Signature(e.client.PrivateKey(), m)
		return s
	}
	variants := map[string]mk{
		"noData":     func(k [32]byte, a, b [32]byte) []byte { return tlvBytes(6, []byte{3}) },
		"short15":    func(k [32]byte, a, b [32]byte) []byte { return tlvBytes(6, []byte{3}, 5, make([]byte, 15)) },
		"exact16":    func(k [32]byte, a, b [32]byte) []byte { return tlvBytes(6, []byte{3}, 5, make([]byte, 16)) },
		"wrongTag":   func(k [32]byte, a, b [32]byte) []byte { return tlvBytes(6, []byte{3}, 5, make([]byte, 120)) },
		"emptyPlain": func(k [32]byte, a, b [32]byte) []byte { return seal(k, nil) },
		"truncTLV":   func(k [32]byte, a, b [32]byte) []byte { return seal(k, []byte{1, 99, 1}) },
		"tagOnly":    func(k [32]byte, a, b [32]byte) []byte { return seal(k, []byte{1}) },
		"unknownUser": func(k [32]byte, a, b [32]byte) []byte {
			return seal(k, tlvBytes(1, []byte("nobody"), 10, make([]byte, 64)))
		},
		"longUser": func(k [32]byte, a, b [32]byte) []byte {
			return seal(k, tlvBytes(1, bytes.Repeat([]byte("n"), 400), 10, make([]byte, 64)))
		},
		"shortkeyUser": func(k [32]byte, a, b [32]byte) []byte {
			return seal(k, tlvBytes(1, []byte("shortkey"), 10, make([]byte, 64)))
		},
		"emptykeyUser": func(k [32]byte, a, b [32]byte) []byte {
			return seal(k, tlvBytes(1, []byte("emptykey"), 10, make([]byte, 64)))
		},
		"longkeyUser": func(k [32]byte, a, b [32]byte) []byte {
			return seal(k, tlvBytes(1, []byte("longkey"), 10, make([]byte, 64)))
		},
		"shortSig": func(k [32]byte, a, b [32]byte) []byte {
			return seal(k, tlvBytes(1, []byte(e.client.Name()), 10, make([]byte, 63)))
		},
		"noSig": func(k [32]byte, a, b [32]byte) []byte {
			return seal(k, tlvBytes(1, []byte(e.client.Name())))
		},
		"wrongSig": func(k [32]byte, a, b [32]byte) []byte {
			return seal(k, tlvBytes(1, []byte(e.client.Name()), 10, make([]byte, 64)))
		},
		"bridgeAsUser": func(k [32]byte, a, b [32]byte) []byte {
			return seal(k, tlvBytes(1, []byte(e.device.Name()), 10, make([]byte, 64)))
		},
		"validTwice": func(k [32]byte, a, b [32]byte) []byte {
			return seal(k, tlvBytes(1, []byte(e.client.Name()), 10, sign(e.client.Name(), a, b)))
		},
	}
	for name, f := range variants {
		addr := e.newConn()
		key, my, other, err := e.verifyToM2(addr)
		if err != nil {
			t.Fatal(err)
		}
		body := f(key, my, other)
		r := e.do(addr, "POST", "/pair-verify", body)
		e.mustNoPanic(name, r)
		t.Logf("%s -> %d %x", name, r.code, r.body)
		if r.code != 200 && r.code != 500 {
			t.Errorf("%s: status %d", name, r.code)
		}
		if name == "validTwice" {
			// replay the same M3 on the now verified connection
			r = e.do(addr, "POST", "/pair-verify", body)
			e.mustNoPanic(name+" replay", r)
			t.Logf("%s replay -> %d %x", name, r.code, r.body)
			r = e.do(addr, "GET", "/accessories", nil)
			if r.code != 200 || r.panicked != nil {
				t.Errorf("verified connection unusable after replayed M3: %d %v", r.code, r.panicked)
			}
		} else if s := e.ctx.Get(addr).(hap.Session); s.Encrypter() != nil {
			t.Errorf("%s: session became encrypted", name)
		}
		e.checkVerifyAfter(t, name, addr)
	}
}

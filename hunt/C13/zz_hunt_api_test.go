package http

import (
	"bytes"
	"encoding/json"
	"fmt"
	"image"
	"strings"
	"testing"

	"github.com/brutella/hc/hap/endpoint"
)

func (e *huntEnv) verified(t *testing.T) string {
	t.Helper()
	if _, err := e.db.EntityWithName(e.client.Name()); err != nil {
		e.pairDirect()
	}
	a := e.newConn()
	if err := e.honestVerify(a, 0); err != nil {
		t.Fatal(err)
	}
	return a
}

func (e *huntEnv) checkServing(t *testing.T, what string, addr string) {
	t.Helper()
	r := e.do(addr, "GET", "/accessories", nil)
	if r.panicked != nil || r.code != 200 {
		t.Errorf("%s: GET /accessories afterwards: %d panic=%v", what, r.code, r.panicked)
		return
	}
	var v interface{}
	if err := json.Unmarshal(r.body, &v); err != nil {
		t.Errorf("%s: GET /accessories afterwards is not JSON: %v", what, err)
	}
	// all characteristics readable
	var ids []string
	for _, a := range e.accs {
		for _, s := range a.Services {
			for _, c := range s.Characteristics {
				ids = append(ids, fmt.Sprintf("%d.%d", a.ID, c.ID))
			}
		}
	}
	r = e.do(addr, "GET", "/characteristics?id="+strings.Join(ids, ","), nil)
	if r.panicked != nil || (r.code != 200 && r.code != 207) {
		t.Errorf("%s: GET /characteristics afterwards: %d panic=%v", what, r.code, r.panicked)
		return
	}
	if err := json.Unmarshal(r.body, &v); err != nil {
		t.Errorf("%s: GET /characteristics afterwards is not JSON: %v (%s)", what, err, trunc(r.body))
	}
}

// Probe 7: PUT /characteristics with every kind of JSON value on every characteristic, twice
func TestHuntPutCharacteristicsValues(t *testing.T) {
	e := newHuntEnv(t)
	addr := e.verified(t)
	values := []string{
		`null`, `true`, `false`, `0`, `1`, `-1`, `1.5`, `-1.5`, `255`, `256`, `65536`, `4294967296`, `18446744073709551615`, `18446744073709551616`,
		`-9223372036854775809`, `1e308`, `-1e308`, `1e-320`, `1e19`, `-1e19`, `9007199254740993`,
		`""`, `"abc"`, `"NaN"`, `"Inf"`, `"-Inf"`, `"+Inf"`, `"infinity"`, `"1e400"`, `"0x10"`, `"true"`, `"1"`, `"-5"`, `"\u0000"`, `"` + strings.Repeat("A", 70000) + `"`,
		`[]`, `[1,2]`, `{}`, `{"a":1}`, `{"a":{"b":[1,{"c":null}]}}`, `[[[[[[]]]]]]`,
	}
	for _, a := range e.accs {
		for _, s := range a.Services {
			for _, c := range s.Characteristics {
				for _, v := range values {
					for _, ev := range []string{``, `,"ev":true`, `,"ev":"yes"`, `,"ev":{}`, `,"ev":1`, `,"ev":null`} {
						body := fmt.Sprintf(`{"characteristics":[{"aid":%d,"iid":%d,"value":%s%s}]}`, a.ID, c.ID, v, ev)
						for rep := 0; rep < 2; rep++ {
							r := e.do(addr, "PUT", "/characteristics", []byte(body))
							what := fmt.Sprintf("PUT %s format=%s value=%s%s", c.Type, c.Format, trunc([]byte(v)), ev)
							e.mustNoPanic(what, r)
							if r.code != 204 && r.code != 200 && r.code != 207 && r.code != 500 && r.code != 400 {
								t.Errorf("%s: status %d", what, r.code)
							}
						}
					}
				}
			}
		}
	}
	e.checkServing(t, "after value fuzz", addr)
	e.checkServing(t, "after value fuzz (new connection)", e.verified(t))
}

// Probe 8: PUT /characteristics with malformed / odd documents
func TestHuntPutCharacteristicsDocuments(t *testing.T) {
	e := newHuntEnv(t)
	addr := e.verified(t)
	deep := strings.Repeat("[", 100000) + strings.Repeat("]", 100000)
	deepObj := strings.Repeat(`{"a":`, 20000) + "1" + strings.Repeat("}", 20000)
	docs := []string{
		``, ` `, `null`, `1`, `"x"`, `[]`, `{}`, `{`, `{"characteristics":`, `{"characteristics":null}`, `{"characteristics":{}}`, `{"characteristics":1}`,
		`{"characteristics":[]}`, `{"characteristics":[null]}`, `{"characteristics":[1]}`, `{"characteristics":[[]]}`, `{"characteristics":[{}]}`,
		`{"characteristics":[{"aid":-1,"iid":1,"value":1}]}`, `{"characteristics":[{"aid":1.5,"iid":1,"value":1}]}`,
		`{"characteristics":[{"aid":"1","iid":"9","value":1}]}`, `{"characteristics":[{"aid":1e400,"iid":9,"value":1}]}`,
		`{"characteristics":[{"aid":18446744073709551616,"iid":9,"value":1}]}`, `{"characteristics":[{"aid":1,"iid":9,"value":1e400}]}`,
		`{"characteristics":[{"aid":1,"iid":9,"value":` + deep + `}]}`, `{"characteristics":[{"aid":1,"iid":9,"value":` + deepObj + `}]}`,
		deep, deepObj,
		`{"characteristics":[{"aid":1,"iid":9,"ev":true},{"aid":1,"iid":9,"ev":false},{"aid":1,"iid":9,"ev":true}]}`,
		`{"characteristics":[{"aid":1,"iid":2,"ev":true}]}`, // identify: not observable
		`{"characteristics":[{"aid":1,"iid":2,"value":true}]}`,
		`{"CHARACTERISTICS":[{"AID":1,"IID":9,"VALUE":true}]}`,
		`{"characteristics":[{"aid":1,"iid":9,"value":true}]}{"characteristics":[{"aid":1,"iid":9,"value":false}]}`,
		`{"characteristics":[{"aid":1,"iid":9,"value":true}]} trailing garbage`,
		"\xff\xfe\x00", string(bytes.Repeat([]byte{0}, 1000)),
		`{"characteristics":[` + strings.Repeat(`{"aid":1,"iid":9,"value":true},`, 20000) + `{"aid":1,"iid":9,"value":false}]}`,
	}
	for i, d := range docs {
		for _, m := range []string{"PUT", "POST", "DELETE", "PATCH", "GET", "HEAD", "OPTIONS", "FOO"} {
			r := e.do(addr, m, "/characteristics", []byte(d))
			what := fmt.Sprintf("%s doc %d %q", m, i, trunc([]byte(d)))
			e.mustNoPanic(what, r)
			if m == "PUT" {
				t.Logf("%s -> %d %q", what, r.code, trunc(r.body))
			}
		}
	}
	e.checkServing(t, "after doc fuzz", addr)
}

// Probe 9: GET /characteristics with odd queries
func TestHuntGetCharacteristicsQueries(t *testing.T) {
	e := newHuntEnv(t)
	addr := e.verified(t)
	qs := []string{
		``, `?`, `?id`, `?id=`, `?id=,`, `?id=.`, `?id=1`, `?id=1.`, `?id=.1`, `?id=1.2.3`, `?id=a.b`, `?id=-1.-1`, `?id=1.9,`, `?id=1.9,,1.9`,
		`?id=99999999999999999999.1`, `?id=1e3.1`, `?id=1.9&id=1.10`, `?id=%zz`, `?id=1.9;x`, `?id=` + strings.Repeat("1.9,", 20000) + "1.9",
		`?id=1.9&meta=1&perms=1&type=1&ev=1`, `?id=%00.%00`, `?id=1.9%2C1.10`, `?ID=1.9`, `?id=+1.+9`, `?id=0x1.0x9`, `?id= 1.9`,
		`?id=18446744073709551615.18446744073709551615`,
	}
	for _, q := range qs {
		var r huntResp
		func() {
			defer func() {
				if p := recover(); p != nil {
					// httptest.NewRequest itself panics on unparsable targets; not the library
					r.panicked = nil
				}
			}()
			r = e.do(addr, "GET", "/characteristics"+q, nil)
		}()
		e.mustNoPanic("GET "+string(trunc([]byte(q))), r)
		t.Logf("GET %s -> %d %q", trunc([]byte(q)), r.code, trunc(r.body))
	}
	e.checkServing(t, "after query fuzz", addr)
}

// Probe 10: /pairings bodies (verified and not), /accessories, /identify, /resource with all methods
func TestHuntOtherEndpoints(t *testing.T) {
	e := newHuntEnv(t)
	e.srv.Mux.Handle("/resource", e.srv.Authenticate(endpoint.NewResource(e.ctx, func(w, h uint) (*image.Image, error) {
		if w > 4000 || h > 4000 {
			return nil, fmt.Errorf("too large")
		}
		var img image.Image = image.NewRGBA(image.Rect(0, 0, int(w), int(h)))
		return &img, nil
	})))
	addr := e.verified(t)
	plain := e.newConn()

	pairingBodies := [][]byte{
		nil, {0}, {0, 1}, {0, 1, 3}, {0, 1, 4}, {0, 1, 5}, {0, 1, 0}, {0, 1, 9}, {6, 1, 1, 0, 1, 3},
		tlvBytes(0, []byte{3}, 1, []byte{}, 3, []byte{}),
		tlvBytes(0, []byte{3}, 1, []byte("x"), 3, make([]byte, 5), 11, []byte{9}),
		tlvBytes(0, []byte{3}, 1, bytes.Repeat([]byte("x"), 500), 3, make([]byte, 32), 11, []byte{1}),
		tlvBytes(0, []byte{3}, 1, []byte("../../../etc/passwd"), 3, make([]byte, 32), 11, []byte{1}),
		tlvBytes(0, []byte{3}, 1, []byte("a\x00b"), 3, make([]byte, 32), 11, []byte{1}),
		tlvBytes(0, []byte{4}, 1, []byte("nobody")),
		tlvBytes(0, []byte{4}, 1, bytes.Repeat([]byte("x"), 500)),
		tlvBytes(0, []byte{4}),
		tlvBytes(0, []byte{4}, 1, []byte("x")),
		tlvBytes(0, []byte{5}),
	}
	pairingBodies = append(pairingBodies, huntGarbage()...)
	for i, b := range pairingBodies {
		for _, m := range []string{"POST", "GET", "PUT", "DELETE"} {
			for _, a := range []string{addr, plain} {
				r := e.do(a, m, "/pairings", b)
				what := fmt.Sprintf("%s /pairings body %d %x verified=%v", m, i, trunc(b), a == addr)
				e.mustNoPanic(what, r)
				if a == plain && r.code != 470 {
					t.Errorf("%s: unverified got %d", what, r.code)
				}
			}
		}
	}
	if _, err := e.db.Entities(); err != nil {
		t.Errorf("Entities() fails after /pairings fuzz: %v", err)
	}

	resBodies := []string{
		``, `null`, `{}`, `[]`, `{"resource-type":"image"}`, `{"resource-type":"image","image-width":-1,"image-height":1}`,
		`{"resource-type":"image","image-width":1.5,"image-height":1}`, `{"resource-type":"image","image-width":"1","image-height":1}`,
		`{"resource-type":"image","image-width":0,"image-height":0}`, `{"resource-type":"image","image-width":1,"image-height":1}`,
		`{"resource-type":"image","image-width":100000,"image-height":100000}`, `{"resource-type":"image","image-width":18446744073709551615,"image-height":18446744073709551615}`,
		`{"resource-type":"image","image-width":18446744073709551616,"image-height":1}`, `{"resource-type":1}`, `{"resource-type":"video"}`,
		`{"resource-type":"image","image-width":65536,"image-height":1}`, `{"resource-type":"image","image-width":1,"image-height":65536}`,
	}
	for _, b := range resBodies {
		for _, m := range []string{"POST", "GET", "PUT"} {
			for _, a := range []string{addr, plain} {
				r := e.do(a, m, "/resource", []byte(b))
				what := fmt.Sprintf("%s /resource %s verified=%v", m, b, a == addr)
				e.mustNoPanic(what, r)
				if a == addr && m == "POST" {
					t.Logf("%s -> %d (%d bytes)", what, r.code, len(r.body))
				}
			}
		}
	}

	for _, p := range []string{"/accessories", "/identify", "/pair-setup", "/pair-verify", "/", "/nothing", "/characteristics/", "/accessories?x=%zz"} {
		for _, m := range []string{"POST", "GET", "PUT", "DELETE", "HEAD", "OPTIONS", "CONNECT", "TRACE", "X"} {
			for _, a := range []string{addr, plain} {
				var r huntResp
				func() {
					defer func() { recover() }()
					r = e.do(a, m, p, []byte("hello"))
				}()
				e.mustNoPanic(fmt.Sprintf("%s %s verified=%v", m, p, a == addr), r)
			}
		}
	}
	e.checkServing(t, "after endpoint fuzz", addr)
	if err := e.honestSetup(plain, 1); err != nil {
		t.Errorf("honest setup on the plain connection: %v", err)
	}
	if err := e.honestVerify(plain, 1); err != nil {
		t.Errorf("honest verify on the plain connection: %v", err)
	}
}

package http

import (
	"bytes"
	"sync"
	"testing"

	"github.com/brutella/hc/accessory"
	"github.com/brutella/hc/crypto"
	"github.com/brutella/hc/crypto/chacha20poly1305"
	"github.com/brutella/hc/crypto/hkdf"
	"github.com/brutella/hc/event"
	"github.com/brutella/hc/hap"
	"github.com/brutella/hc/hap/pair"
	"github.com/brutella/hc/util"
)

// m5For builds a correctly encrypted and signed M5 for an arbitrary identifier.
func m5For(key [32]byte, srpKey []byte, name string, client hap.Device) []byte {
	hash, _ := hkdf.Sha512(srpKey, []byte("Pair-Setup-Controller-Sign-Salt"), []byte("Pair-Setup-Controller-Sign-Info"))
	var m []byte
	m = append(m, hash[:]...)
	m = append(m, name...)
	m = append(m, client.PublicKey()...)
	sig, _ := crypto.ED25519Signature(client.PrivateKey(), m)
	plain := tlvBytes(1, []byte(name), 3, client.PublicKey(), 10, sig)
	enc, mac, _ := chacha20poly1305.EncryptAndSeal(key[:], []byte("PS-Msg05"), plain, nil)
	return tlvBytes(0, []byte{0}, 6, []byte{5}, 5, append(enc, mac[:]...))
}

// An M5 whose identifier is too long to be stored (>= 123 bytes: hex file name > 255)
// cannot be processed; the answer must then be an error, not M6 "paired".
func TestHuntSetupOverlongIdentifierAnsweredAsSuccess(t *testing.T) {
	e := newHuntEnv(t)
	addr := e.newConn()
	key, srpKey, client, err := e.setupToM4(addr)
	if err != nil {
		t.Fatal(err)
	}
	name := string(bytes.Repeat([]byte("u"), 200)) // one TLV item, < 255
	r := e.do(addr, "POST", "/pair-setup", m5For(key, srpKey, name, client))
	e.mustNoPanic("overlong identifier", r)
	out, _ := util.NewTLV8ContainerFromReader(bytes.NewReader(r.body))
	answeredOK := r.code == 200 && out.GetByte(pair.TagErrCode) == 0 && len(out.GetBytes(pair.TagEncryptedData)) > 0
	_, lookupErr := e.db.EntityWithName(name)
	t.Logf("status %d, error code %d, M6 data %d bytes, stored: %v", r.code, out.GetByte(pair.TagErrCode), len(out.GetBytes(pair.TagEncryptedData)), lookupErr == nil)
	if answeredOK && lookupErr != nil {
		t.Errorf("M5 could not be processed (pairing not stored: %v) but was answered with a successful M6", lookupErr)
	}
}

// restart builds a new device/context/server over the same database, as a process restart does.
func (e *huntEnv) restart(t *testing.T) *huntEnv {
	device, err := hap.NewSecuredDevice(e.device.Name(), huntPin, e.db)
	if err != nil {
		t.Fatal(err)
	}
	ctx := hap.NewContextForSecuredDevice(device)
	container := accessory.NewContainer()
	container.AddAccessory(accessory.NewSwitch(accessory.Info{Name: "sw"}).Accessory)
	srv := testable(Config{Context: ctx, Database: e.db, Container: container, Device: device, Mutex: &sync.Mutex{}, Emitter: event.NewEmitter()})
	return &huntEnv{t: t, srv: srv, ctx: ctx, db: e.db, device: device, clientDB: e.clientDB, client: e.client, nconn: e.nconn + 1000}
}

// A peer that knows the setup code sends an M5 whose identifier is the accessory's own id.
// The accessory's key record is replaced by one without private key. In the running process
// nothing happens, but after a restart every pair-setup request panics and every pair-verify fails.
func TestHuntSetupIdentifierOfAccessoryBricksAfterRestart(t *testing.T) {
	e := newHuntEnv(t)
	// a legitimate controller is paired first
	if err := e.honestSetup(e.newConn(), 0); err != nil {
		t.Fatal(err)
	}
	addr := e.newConn()
	key, srpKey, client, err := e.setupToM4(addr)
	if err != nil {
		t.Fatal(err)
	}
	r := e.do(addr, "POST", "/pair-setup", m5For(key, srpKey, e.device.Name(), client))
	e.mustNoPanic("M5 with accessory id", r)
	t.Logf("M5 with accessory id -> %d", r.code)

	// same process: still fine
	if err := e.honestVerify(e.newConn(), 0); err != nil {
		t.Errorf("same process, verify: %v", err)
	}

	e2 := e.restart(t)
	r = e2.do(e2.newConn(), "POST", "/pair-setup", tlvBytes(0, []byte{0}, 6, []byte{1}))
	if r.panicked != nil {
		t.Errorf("after restart: correct pair-setup M1 makes the handler panic: %v", r.panicked)
	} else if r.code != 200 {
		t.Errorf("after restart: correct pair-setup M1 -> %d", r.code)
	}
	if err := e2.honestVerify(e2.newConn(), 0); err != nil {
		t.Errorf("after restart: verify of the legitimately paired controller: %v", err)
	}
}

// Same through /pairings (any verified controller).
func TestHuntPairingsAddAccessoryIdBricksAfterRestart(t *testing.T) {
	e := newHuntEnv(t)
	addr := e.verified(t)
	r := e.do(addr, "POST", "/pairings", tlvBytes(0, []byte{3}, 6, []byte{1}, 1, []byte(e.device.Name()), 3, make([]byte, 32), 11, []byte{0}))
	e.mustNoPanic("pairings add", r)
	t.Logf("/pairings add accessory id -> %d %x", r.code, r.body)
	e2 := e.restart(t)
	r = e2.do(e2.newConn(), "POST", "/pair-setup", tlvBytes(0, []byte{0}, 6, []byte{1}))
	if r.panicked != nil {
		t.Errorf("after restart: correct pair-setup M1 makes the handler panic: %v", r.panicked)
	}
	if err := e2.honestVerify(e2.newConn(), 0); err != nil {
		t.Errorf("after restart: verify of the paired controller: %v", err)
	}
}

package http

import (
	"testing"

	"github.com/brutella/hc/accessory"
)

// A paired controller verifies on fresh connections. Every pair-verify must
// complete: the answer to the finish request (M4) is sent in the clear, the
// encrypted session starts with the next request.
func TestHuntVerifyRace(t *testing.T) {
	a := accessory.NewSwitch(accessory.Info{Name: "sw"})
	e := newHuntEnv(t, a.Accessory)
	fails := 0
	const N = 300
	for i := 0; i < N; i++ {
		c, err := e.tryVerified()
		if err != nil {
			fails++
			if fails <= 5 {
				t.Logf("connection %d: %v", i, err)
			}
			continue
		}
		c.conn.Close()
	}
	if fails > 0 {
		t.Errorf("%d of %d pair-verify exchanges of a paired controller failed", fails, N)
	}
}

package http

import (
	"bytes"
	"encoding/base64"
	"encoding/json"
	"fmt"
	"math/rand"
	"testing"

	"github.com/brutella/hc/accessory"
	"github.com/brutella/hc/characteristic"
	"github.com/brutella/hc/service"
)

// A freshly constructed readable characteristic is answered with a value.
func TestHuntFreshValues(t *testing.T) {
	ctors := huntAllCtors()
	a := accessory.New(accessory.Info{Name: "all"}, accessory.TypeOther)
	svc := service.New("FFFF")
	for _, k := range ctors {
		svc.AddCharacteristic(k.c)
	}
	a.AddService(svc)
	e := newHuntEnv(t, a)
	c := e.verified()
	for _, k := range ctors {
		r := c.get(fmt.Sprintf("/characteristics?id=1.%d", k.c.ID))
		cs := parseChars(t, r.body)
		if len(cs) != 1 {
			t.Errorf("%s: %s", k.name, r.body)
			continue
		}
		_, hasV := cs[0]["value"]
		_, hasS := cs[0]["status"]
		if k.c.IsReadable() && (!hasV || r.code != 200) {
			t.Errorf("%s: readable, answered %d %s", k.name, r.code, r.body)
		}
		if !k.c.IsReadable() && (hasV || !hasS || r.code != 207) {
			t.Errorf("%s: not readable, answered %d %s", k.name, r.code, r.body)
		}
	}
}

// The application provides the value on demand (OnValueRemoteGet).
func TestHuntRemoteGet(t *testing.T) {
	a := accessory.NewTemperatureSensor(accessory.Info{Name: "t"}, 20, -50, 100, 0.1)
	e := newHuntEnv(t, a.Accessory)
	c := e.verified()
	cur := 20.0
	ct := a.TempSensor.CurrentTemperature
	ct.OnValueRemoteGet(func() float64 { return cur })
	for _, v := range []float64{21.5, -3, 99.9} {
		cur = v
		r := c.get("/accessories")
		var got float64 = -1000
		var db struct {
			Accessories []struct {
				Services []struct {
					Characteristics []map[string]json.RawMessage `json:"characteristics"`
				} `json:"services"`
			} `json:"accessories"`
		}
		json.Unmarshal(r.body, &db)
		for _, s := range db.Accessories[0].Services {
			for _, ch := range s.Characteristics {
				if uint64(huntNum(ch["iid"])) == ct.ID {
					json.Unmarshal(ch["value"], &got)
				}
			}
		}
		if got != v {
			t.Errorf("application value %v, /accessories carries %v", v, got)
		}
		r = c.get(fmt.Sprintf("/characteristics?id=1.%d", ct.ID))
		cs := parseChars(t, r.body)
		var f float64
		json.Unmarshal(cs[0]["value"], &f)
		if f != v {
			t.Errorf("application value %v, /characteristics carries %v", v, f)
		}
	}
}

// The request after a refused one, on the same connection.
func TestHuntAfterError(t *testing.T) {
	a := accessory.NewColoredLightbulb(accessory.Info{Name: "lamp"})
	e := newHuntEnv(t, a.Accessory)
	c := e.verified()
	br := a.Lightbulb.Brightness
	br.SetValue(12)
	check := func(when string) {
		r := c.get(fmt.Sprintf("/characteristics?id=1.%d", br.ID))
		if r.code != 200 {
			t.Fatalf("%s: %d", when, r.code)
		}
		cs := parseChars(t, r.body)
		if huntNum(cs[0]["value"]) != int64(br.GetValue()) {
			t.Errorf("%s: %s", when, r.body)
		}
	}
	for _, target := range []string{"/characteristics?id=", "/characteristics", "/characteristics?id=1", "/characteristics?id=1.2.3", fmt.Sprintf("/characteristics?id=1.%d,", br.ID), "/characteristics?id=a.b", "/nothing"} {
		r := c.get(target)
		t.Logf("GET %s -> %d %q", target, r.code, r.body)
		check("after GET " + target)
	}
	for _, body := range []string{"", "{", `{"characteristics":[{"aid":1,"iid":"x","value":1}]}`, `{"characteristics":{}}`, `[]`, `{"characteristics":[{"aid":-1,"iid":1,"value":1}]}`} {
		r := c.put(body)
		t.Logf("PUT %q -> %d %q", body, r.code, r.body)
		check("after PUT " + body)
	}
	// a write with one bad and one good entry
	r := c.put(fmt.Sprintf(`{"characteristics":[{"aid":1,"iid":%d,"value":"abc"}]}`, br.ID))
	t.Logf("PUT string into int -> %d %q, app has %d", r.code, r.body, br.GetValue())
	check("after string into int")
}

// Two controllers: what one writes, the other one and the application read.
func TestHuntTwoControllers(t *testing.T) {
	a := accessory.NewColoredLightbulb(accessory.Info{Name: "lamp"})
	e := newHuntEnv(t, a.Accessory)
	c1 := e.verified()
	c2 := e.verified()
	br := a.Lightbulb.Brightness
	var cb []int
	br.OnValueRemoteUpdate(func(v int) { cb = append(cb, v) })
	rnd := rand.New(rand.NewSource(2))
	prev := br.GetValue()
	for i := 0; i < 200; i++ {
		w, rd := c1, c2
		if i%2 == 1 {
			w, rd = c2, c1
		}
		v := rnd.Intn(101)
		cb = nil
		if r := w.put(fmt.Sprintf(`{"characteristics":[{"aid":1,"iid":%d,"value":%d}]}`, br.ID, v)); r.code != 204 {
			t.Fatalf("put %d", r.code)
		}
		if br.GetValue() != v {
			t.Fatalf("app has %d, written %d", br.GetValue(), v)
		}
		if v != prev && (len(cb) != 1 || cb[0] != v) {
			t.Fatalf("callback %v, written %d", cb, v)
		}
		prev = v
		r := rd.get(fmt.Sprintf("/characteristics?id=1.%d", br.ID))
		cs := parseChars(t, r.body)
		if huntNum(cs[0]["value"]) != int64(v) {
			t.Fatalf("other controller reads %s, written %d", r.body, v)
		}
	}
}

// Typed byte characteristics with payloads of several frames.
func TestHuntBytes(t *testing.T) {
	a := accessory.NewSwitch(accessory.Info{Name: "sw"})
	ch := characteristic.NewBytes("F002")
	ch.Perms = characteristic.PermsAll()
	ch.SetValue([]byte{})
	svc := service.New("F000")
	svc.AddCharacteristic(ch.Characteristic)
	a.AddService(svc)
	e := newHuntEnv(t, a.Accessory)
	c := e.verified()
	var cb [][]byte
	ch.OnValueRemoteUpdate(func(b []byte) { cb = append(cb, b) })
	rnd := rand.New(rand.NewSource(3))
	for _, n := range []int{1, 2, 3, 255, 256, 700, 767, 768, 769, 1023, 1024, 1025, 1536, 2048, 3000, 3072, 5000} {
		p := make([]byte, n)
		rnd.Read(p)
		ch.SetValue(p)
		r := c.get(fmt.Sprintf("/characteristics?id=1.%d", ch.ID))
		cs := parseChars(t, r.body)
		var s string
		json.Unmarshal(cs[0]["value"], &s)
		got, err := base64.StdEncoding.DecodeString(s)
		if err != nil || !bytes.Equal(got, p) {
			t.Errorf("n=%d: controller reads other bytes (%v)", n, err)
		}
		q := make([]byte, n)
		rnd.Read(q)
		cb = nil
		r = c.put(fmt.Sprintf(`{"characteristics":[{"aid":1,"iid":%d,"value":%q}]}`, ch.ID, base64.StdEncoding.EncodeToString(q)))
		if r.code != 204 || !bytes.Equal(ch.GetValue(), q) {
			t.Errorf("n=%d: app reads other bytes than written", n)
		}
		if len(cb) != 1 || !bytes.Equal(cb[0], q) {
			t.Errorf("n=%d: callback got other bytes", n)
		}
	}
}

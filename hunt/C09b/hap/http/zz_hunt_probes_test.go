package http

import (
	"bytes"
	"encoding/json"
	"fmt"
	"io/ioutil"
	"math/rand"
	"strings"
	"testing"

	"github.com/brutella/hc/accessory"
	"github.com/brutella/hc/characteristic"
	"github.com/brutella/hc/service"
)

func huntNum(raw json.RawMessage) int64 {
	var n json.Number
	json.Unmarshal(raw, &n)
	i, _ := n.Int64()
	return i
}

// Lists of existing, non-existing, write-only and repeated ids: one answer per id, in order.
func TestHuntGetLists(t *testing.T) {
	a := accessory.NewColoredLightbulb(accessory.Info{Name: "lamp"})
	b := accessory.NewSwitch(accessory.Info{Name: "sw"})
	e := newHuntEnv(t, a.Accessory, b.Accessory)
	c := e.verified()
	a.Lightbulb.On.SetValue(true)
	a.Lightbulb.Brightness.SetValue(42)

	ident := a.Info.Identify.ID
	on := a.Lightbulb.On.ID
	br := a.Lightbulb.Brightness.ID
	type id struct{ aid, iid uint64 }
	lists := [][]id{
		{{1, on}},
		{{1, on}, {1, br}},
		{{1, br}, {1, on}},
		{{1, on}, {1, on}},
		{{1, on}, {1, 999}, {1, br}},
		{{1, 999}},
		{{7, on}, {1, on}},
		{{1, ident}, {1, on}},
		{{1, on}, {1, ident}},
		{{2, b.Switch.On.ID}, {1, on}, {2, 1}, {1, br}},
		{{1, 0}, {0, 1}, {18446744073709551615, 18446744073709551615}},
	}
	for _, l := range lists {
		var parts []string
		for _, x := range l {
			parts = append(parts, fmt.Sprintf("%d.%d", x.aid, x.iid))
		}
		r := c.get("/characteristics?id=" + strings.Join(parts, ","))
		if r.code != 200 && r.code != 207 {
			t.Errorf("%v: HTTP %d", parts, r.code)
			continue
		}
		var resp struct {
			Characteristics []map[string]json.RawMessage `json:"characteristics"`
		}
		dec := json.NewDecoder(bytes.NewReader(r.body))
		dec.UseNumber()
		if err := dec.Decode(&resp); err != nil {
			t.Errorf("%v: %v", parts, err)
			continue
		}
		cs := resp.Characteristics
		if len(cs) != len(l) {
			t.Errorf("%v: %d answers: %s", parts, len(cs), r.body)
			continue
		}
		anyErr := false
		for i, x := range l {
			var aid, iid json.Number
			json.Unmarshal(cs[i]["aid"], &aid)
			json.Unmarshal(cs[i]["iid"], &iid)
			if aid.String() != fmt.Sprint(x.aid) || iid.String() != fmt.Sprint(x.iid) {
				t.Errorf("%v: answer %d is for %s.%s", parts, i, aid, iid)
			}
			_, hasV := cs[i]["value"]
			st, hasS := cs[i]["status"]
			if !hasV && !(hasS && huntNum(st) != 0) {
				t.Errorf("%v: answer %d has neither value nor error status: %s", parts, i, r.body)
			}
			if hasV && hasS && huntNum(st) != 0 {
				t.Errorf("%v: answer %d has value and error: %s", parts, i, r.body)
			}
			if hasS && huntNum(st) != 0 {
				anyErr = true
			}
		}
		if anyErr != (r.code == 207) {
			t.Errorf("%v: code %d, anyErr %v", parts, r.code, anyErr)
		}
		if r.code == 207 {
			for i := range cs {
				if _, ok := cs[i]["status"]; !ok {
					t.Errorf("%v: 207 entry %d without status", parts, i)
				}
			}
		}
	}
}

// Response bodies of every size around the chunk and frame limits.
func TestHuntSizeSweepGet(t *testing.T) {
	a := accessory.NewSwitch(accessory.Info{Name: "sw"})
	e := newHuntEnv(t, a.Accessory)
	c := e.verified()
	name := a.Info.Name
	for n := 0; n < 4400; n++ {
		v := strings.Repeat("x", n)
		name.SetValue(v)
		r := c.get(fmt.Sprintf("/characteristics?id=1.%d", name.ID))
		cs := parseChars(t, r.body)
		var s string
		json.Unmarshal(cs[0]["value"], &s)
		if s != v {
			t.Fatalf("len %d: got len %d", n, len(s))
		}
	}
}

// Request bodies of every size around the frame limit, written by the controller,
// with the request cut into frames at arbitrary places.
func TestHuntSizeSweepPut(t *testing.T) {
	a := accessory.NewSwitch(accessory.Info{Name: "sw"})
	e := newHuntEnv(t, a.Accessory)
	c := e.verified()
	ch := characteristic.NewString("F001")
	ch.Perms = characteristic.PermsAll()
	ch.SetValue("")
	svc := service.New("F000")
	svc.AddCharacteristic(ch.Characteristic)
	a.AddService(svc)
	rnd := rand.New(rand.NewSource(1))
	for n := 1; n < 3300; n++ {
		v := strings.Repeat("y", n-1) + fmt.Sprint(n%10)
		body := fmt.Sprintf(`{"characteristics":[{"aid":1,"iid":%d,"value":%q}]}`, ch.ID, v)
		raw := c.rawRequest("PUT", "/characteristics", "application/hap+json", []byte(body))
		if n%3 == 0 {
			// cut into frames at random places
			for len(raw) > 0 {
				k := 1 + rnd.Intn(1024)
				if k > len(raw) {
					k = len(raw)
				}
				enc, _ := c.crypt.Encrypt(bytes.NewReader(raw[:k]))
				b, _ := ioutil.ReadAll(enc)
				c.conn.Write(b)
				raw = raw[k:]
			}
		} else {
			c.send(raw)
		}
		r := c.recv("PUT")
		if r.code != 204 {
			t.Fatalf("len %d: HTTP %d", n, r.code)
		}
		if got := ch.GetValue(); got != v {
			t.Fatalf("len %d: app has len %d", n, len(got))
		}
	}
}

// Requests sent back to back without waiting for the answers.
func TestHuntPipelined(t *testing.T) {
	a := accessory.NewColoredLightbulb(accessory.Info{Name: "lamp"})
	e := newHuntEnv(t, a.Accessory)
	c := e.verified()
	br := a.Lightbulb.Brightness
	for round := 0; round < 50; round++ {
		var raw []byte
		for i := 0; i < 5; i++ {
			body := fmt.Sprintf(`{"characteristics":[{"aid":1,"iid":%d,"value":%d}]}`, br.ID, (round+i)%101)
			raw = append(raw, c.rawRequest("PUT", "/characteristics", "application/hap+json", []byte(body))...)
			raw = append(raw, c.rawRequest("GET", fmt.Sprintf("/characteristics?id=1.%d", br.ID), "", nil)...)
		}
		c.send(raw)
		for i := 0; i < 5; i++ {
			if r := c.recv("PUT"); r.code != 204 {
				t.Fatalf("PUT %d", r.code)
			}
			r := c.recv("GET")
			cs := parseChars(t, r.body)
			if got := huntNum(cs[0]["value"]); got != int64((round+i)%101) {
				t.Fatalf("round %d/%d: read %d", round, i, got)
			}
		}
	}
}

// A large bridge: /accessories spans many chunks and frames, and a long id list.
func TestHuntLargeBridge(t *testing.T) {
	var accs []*accessory.Accessory
	var bulbs []*accessory.ColoredLightbulb
	bridge := accessory.NewBridge(accessory.Info{Name: "bridge"})
	accs = append(accs, bridge.Accessory)
	for i := 0; i < 150; i++ {
		l := accessory.NewColoredLightbulb(accessory.Info{Name: fmt.Sprintf("lamp <%d> \"é\U0001F600\"", i), SerialNumber: strings.Repeat("s", i)})
		l.Lightbulb.Brightness.SetValue(i % 101)
		l.Lightbulb.On.SetValue(i%2 == 0)
		bulbs = append(bulbs, l)
		accs = append(accs, l.Accessory)
	}
	e := newHuntEnv(t, accs...)
	c := e.verified()
	r := c.get("/accessories")
	var db struct {
		Accessories []struct {
			Aid      uint64 `json:"aid"`
			Services []struct {
				Characteristics []map[string]json.RawMessage `json:"characteristics"`
			} `json:"services"`
		} `json:"accessories"`
	}
	if err := json.Unmarshal(r.body, &db); err != nil {
		t.Fatalf("%v (len %d)", err, len(r.body))
	}
	t.Logf("/accessories %d bytes", len(r.body))
	if len(db.Accessories) != 151 {
		t.Fatalf("%d accessories", len(db.Accessories))
	}
	for i, l := range bulbs {
		acc := db.Accessories[i+1]
		if acc.Aid != l.ID {
			t.Fatalf("aid %d vs %d", acc.Aid, l.ID)
		}
		found := 0
		for _, s := range acc.Services {
			for _, ch := range s.Characteristics {
				iid := uint64(huntNum(ch["iid"]))
				switch iid {
				case l.Lightbulb.Brightness.ID:
					found++
					if huntNum(ch["value"]) != int64(i%101) {
						t.Errorf("acc %d brightness %s", i, ch["value"])
					}
				case l.Info.Name.ID:
					found++
					var s string
					json.Unmarshal(ch["value"], &s)
					if s != l.Info.Name.GetValue() {
						t.Errorf("acc %d name %q", i, s)
					}
				case l.Info.SerialNumber.ID:
					found++
					var s string
					json.Unmarshal(ch["value"], &s)
					if s != l.Info.SerialNumber.GetValue() {
						t.Errorf("acc %d serial %q", i, s)
					}
				}
			}
		}
		if found != 3 {
			t.Errorf("acc %d: found %d", i, found)
		}
	}
	// long id list
	var parts []string
	for _, l := range bulbs {
		parts = append(parts, fmt.Sprintf("%d.%d", l.ID, l.Lightbulb.Brightness.ID), fmt.Sprintf("%d.%d", l.ID, l.Info.Name.ID))
	}
	r = c.get("/characteristics?id=" + strings.Join(parts, ","))
	cs := parseChars(t, r.body)
	if r.code != 200 || len(cs) != len(parts) {
		t.Fatalf("code %d, %d answers for %d ids", r.code, len(cs), len(parts))
	}
	for i, l := range bulbs {
		if huntNum(cs[2*i]["aid"]) != int64(l.ID) || huntNum(cs[2*i]["value"]) != int64(i%101) {
			t.Errorf("entry %d: %v", 2*i, cs[2*i])
		}
		var s string
		json.Unmarshal(cs[2*i+1]["value"], &s)
		if s != l.Info.Name.GetValue() {
			t.Errorf("entry %d: %q", 2*i+1, s)
		}
	}
	// multi write
	var ws []string
	for i, l := range bulbs {
		ws = append(ws, fmt.Sprintf(`{"aid":%d,"iid":%d,"value":%d}`, l.ID, l.Lightbulb.Brightness.ID, (i+7)%101))
	}
	if r := c.put(`{"characteristics":[` + strings.Join(ws, ",") + `]}`); r.code != 204 {
		t.Fatalf("multi write %d %s", r.code, r.body)
	}
	for i, l := range bulbs {
		if l.Lightbulb.Brightness.GetValue() != (i+7)%101 {
			t.Errorf("bulb %d has %d", i, l.Lightbulb.Brightness.GetValue())
		}
	}
}

// JSON forms a controller may use for the same value.
func TestHuntWriteForms(t *testing.T) {
	a := accessory.NewColoredLightbulb(accessory.Info{Name: "lamp"})
	th := accessory.NewThermostat(accessory.Info{Name: "th"}, 20, 10, 38, 0.1)
	e := newHuntEnv(t, a.Accessory, th.Accessory)
	c := e.verified()
	on := a.Lightbulb.On
	var got []bool
	on.OnValueRemoteUpdate(func(b bool) { got = append(got, b) })
	for _, w := range []struct {
		js   string
		want bool
	}{{"1", true}, {"0", false}, {"true", true}, {"false", false}, {"1", true}} {
		r := c.put(fmt.Sprintf(`{"characteristics":[{"aid":1,"iid":%d,"value":%s}]}`, on.ID, w.js))
		if r.code != 204 || on.GetValue() != w.want {
			t.Errorf("On <- %s: code %d, app has %v", w.js, r.code, on.GetValue())
		}
	}
	if fmt.Sprint(got) != "[true false true false true]" {
		t.Errorf("callbacks %v", got)
	}
	br := a.Lightbulb.Brightness
	for _, w := range []struct {
		js   string
		want int
	}{{"50", 50}, {"50.0", 50}, {"1e2", 100}, {"0", 0}} {
		r := c.put(fmt.Sprintf(`{"characteristics":[{"aid":1,"iid":%d,"value":%s}]}`, br.ID, w.js))
		if r.code != 204 || br.GetValue() != w.want {
			t.Errorf("Brightness <- %s: code %d, app has %v", w.js, r.code, br.GetValue())
		}
	}
	tt := th.Thermostat.TargetTemperature
	for _, w := range []struct {
		js   string
		want float64
	}{{"21", 21}, {"21.5", 21.5}, {"10", 10}, {"38", 38}, {"2.15e1", 21.5}, {"10.1", 10.1}} {
		r := c.put(fmt.Sprintf(`{"characteristics":[{"aid":%d,"iid":%d,"value":%s}]}`, th.ID, tt.ID, w.js))
		if r.code != 204 || tt.GetValue() != w.want {
			t.Errorf("TargetTemperature <- %s: code %d, app has %v", w.js, r.code, tt.GetValue())
		}
	}
}

// Mixed writes: what does the controller learn about each entry.
func TestHuntPutMixed(t *testing.T) {
	a := accessory.NewColoredLightbulb(accessory.Info{Name: "lamp"})
	e := newHuntEnv(t, a.Accessory)
	c := e.verified()
	on, br := a.Lightbulb.On, a.Lightbulb.Brightness
	name := a.Info.Name
	r := c.put(fmt.Sprintf(`{"characteristics":[{"aid":1,"iid":%d,"value":true},{"aid":1,"iid":999,"value":1},{"aid":1,"iid":%d,"value":33}]}`, on.ID, br.ID))
	t.Logf("write with unknown id: %d %q", r.code, r.body)
	if !on.GetValue() || br.GetValue() != 33 {
		t.Errorf("valid writes lost: %v %v", on.GetValue(), br.GetValue())
	}
	r = c.put(fmt.Sprintf(`{"characteristics":[{"aid":1,"iid":%d,"value":"hacked"}]}`, name.ID))
	t.Logf("write to read-only: %d %q, name %q", r.code, r.body, name.GetValue())
	r = c.put(fmt.Sprintf(`{"characteristics":[{"aid":1,"iid":%d,"value":false},{"aid":1,"iid":%d,"ev":true},{"aid":1,"iid":%d,"value":34}]}`, on.ID, name.ID, br.ID))
	t.Logf("write with ev on non-observable: %d %q", r.code, r.body)
}

package http

import (
	"bytes"
	"fmt"
	"io/ioutil"
	"testing"
	"time"

	"github.com/brutella/hc/accessory"
)

// The frames of a request arrive in pieces, also while the previous request is still answered.
func TestHuntPartialFrames(t *testing.T) {
	a := accessory.NewColoredLightbulb(accessory.Info{Name: "lamp"})
	e := newHuntEnv(t, a.Accessory)
	c := e.verified()
	br := a.Lightbulb.Brightness
	enc := func(raw []byte) []byte {
		r, _ := c.crypt.Encrypt(bytes.NewReader(raw))
		b, _ := ioutil.ReadAll(r)
		return b
	}
	for _, cut := range []int{1, 2, 3, 17, 18, 19, 40} {
		for round := 0; round < 3; round++ {
			v1, v2 := (cut+round)%101, (cut+round+50)%101
			get := c.rawRequest("GET", fmt.Sprintf("/characteristics?id=1.%d", br.ID), "", nil)
			put := func(v int) []byte {
				return c.rawRequest("PUT", "/characteristics", "application/hap+json", []byte(fmt.Sprintf(`{"characteristics":[{"aid":1,"iid":%d,"value":%d}]}`, br.ID, v)))
			}
			f1 := enc(put(v1))
			f2 := enc(get)
			f3 := enc(put(v2))
			f4 := enc(get)
			// first request and the head of the second
			c.conn.Write(append(append([]byte{}, f1...), f2[:cut]...))
			if r := c.recv("PUT"); r.code != 204 {
				t.Fatalf("cut %d: put %d", cut, r.code)
			}
			time.Sleep(5 * time.Millisecond)
			// rest of second, third, and head of fourth with only its tail missing
			rest := append(append(append([]byte{}, f2[cut:]...), f3...), f4[:len(f4)-cut]...)
			c.conn.Write(rest)
			r := c.recv("GET")
			cs := parseChars(t, r.body)
			if huntNum(cs[0]["value"]) != int64(v1) {
				t.Fatalf("cut %d: read %s want %d", cut, r.body, v1)
			}
			if r := c.recv("PUT"); r.code != 204 {
				t.Fatalf("cut %d: put2 %d", cut, r.code)
			}
			time.Sleep(5 * time.Millisecond)
			c.conn.Write(f4[len(f4)-cut:])
			r = c.recv("GET")
			cs = parseChars(t, r.body)
			if huntNum(cs[0]["value"]) != int64(v2) || br.GetValue() != v2 {
				t.Fatalf("cut %d: read %s want %d", cut, r.body, v2)
			}
		}
	}
}

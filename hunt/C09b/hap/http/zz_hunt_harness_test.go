package http

import (
	"bufio"
	"bytes"
	"context"
	"encoding/binary"
	"encoding/json"
	"fmt"
	"io"
	"io/ioutil"
	"net"
	gohttp "net/http"
	"sync"
	"testing"
	"time"

	"github.com/brutella/hc/accessory"
	"github.com/brutella/hc/crypto"
	"github.com/brutella/hc/db"
	"github.com/brutella/hc/event"
	"github.com/brutella/hc/hap"
	"github.com/brutella/hc/hap/pair"
	"github.com/brutella/hc/util"
)

// huntEnv is a running accessory server with a paired controller identity.
type huntEnv struct {
	t         *testing.T
	srv       *Server
	ctx       hap.Context
	database  db.Database
	clientDB  db.Database
	client    hap.Device
	container *accessory.Container
	cancel    context.CancelFunc
	addr      string
}

func newHuntEnv(t *testing.T, accs ...*accessory.Accessory) *huntEnv {
	storage, err := util.NewTempFileStorage()
	if err != nil {
		t.Fatal(err)
	}
	database := db.NewDatabaseWithStorage(storage)
	dev, err := hap.NewSecuredDevice("Hunt Bridge", "001-02-003", database)
	if err != nil {
		t.Fatal(err)
	}
	hctx := hap.NewContextForSecuredDevice(dev)

	clientDB, _ := db.NewTempDatabase()
	if err := clientDB.SaveEntity(db.NewEntity(dev.Name(), dev.PublicKey(), nil)); err != nil {
		t.Fatal(err)
	}
	client, _ := hap.NewDevice("Hunt Controller", clientDB)
	if err := database.SaveEntity(db.NewEntity(client.Name(), client.PublicKey(), nil)); err != nil {
		t.Fatal(err)
	}

	cont := accessory.NewContainer()
	for _, a := range accs {
		if err := cont.AddAccessory(a); err != nil {
			t.Fatal(err)
		}
	}

	srv := NewServer(Config{
		Port:      "127.0.0.1:0",
		Context:   hctx,
		Database:  database,
		Container: cont,
		Device:    dev,
		Mutex:     &sync.Mutex{},
		Emitter:   event.NewEmitter(),
	})
	cctx, cancel := context.WithCancel(context.Background())
	go srv.ListenAndServe(cctx)

	e := &huntEnv{t: t, srv: srv, ctx: hctx, database: database, clientDB: clientDB, client: client, container: cont, cancel: cancel,
		addr: "127.0.0.1:" + srv.Port()}
	t.Cleanup(func() { cancel() })
	return e
}

// huntClient is a reference controller on one TCP connection.
type huntClient struct {
	t     *testing.T
	conn  net.Conn
	crypt crypto.Cryptographer
	br    *bufio.Reader // decrypted (or plain) stream
}

type frameReader struct {
	c   *huntClient
	buf bytes.Buffer
}

func (f *frameReader) Read(p []byte) (int, error) {
	if f.c.crypt == nil {
		return f.c.conn.Read(p)
	}
	for f.buf.Len() == 0 {
		var hdr [2]byte
		if _, err := io.ReadFull(f.c.conn, hdr[:]); err != nil {
			return 0, err
		}
		n := int(binary.LittleEndian.Uint16(hdr[:]))
		if n > 1024 {
			return 0, fmt.Errorf("frame of %d bytes > 1024", n)
		}
		rest := make([]byte, n+16)
		if _, err := io.ReadFull(f.c.conn, rest); err != nil {
			return 0, err
		}
		frame := append(hdr[:], rest...)
		dec, err := f.c.crypt.Decrypt(bytes.NewReader(frame))
		if err != nil {
			return 0, err
		}
		b, _ := ioutil.ReadAll(dec)
		f.buf.Write(b)
		if n == 0 {
			break
		}
	}
	return f.buf.Read(p)
}

func (e *huntEnv) dial() *huntClient {
	conn, err := net.Dial("tcp", e.addr)
	if err != nil {
		e.t.Fatal(err)
	}
	c := &huntClient{t: e.t, conn: conn}
	c.br = bufio.NewReader(&frameReader{c: c})
	e.t.Cleanup(func() { conn.Close() })
	conn.SetDeadline(time.Now().Add(5 * time.Second))
	return c
}

// verified returns a controller connection on which pair-verify has completed.
// The switch to the encrypted session is racy on the accessory side (see
// zz_hunt_verifyrace_test.go); this helper retries and then waits a moment so
// that the probes of the value path are not disturbed by it.
func (e *huntEnv) verified() *huntClient {
	for i := 0; i < 50; i++ {
		c, err := e.tryVerified()
		if err == nil {
			time.Sleep(20 * time.Millisecond)
			return c
		}
		e.t.Logf("pair-verify attempt %d: %v", i, err)
	}
	e.t.Fatal("pair-verify failed 50 times")
	return nil
}

// rawExchange sends a plain request and returns the raw bytes of a plain answer.
func (c *huntClient) rawExchange(raw []byte) (huntResp, error) {
	if _, err := c.conn.Write(raw); err != nil {
		return huntResp{}, err
	}
	first, err := c.br.Peek(9)
	if err != nil {
		return huntResp{}, fmt.Errorf("no answer: %v", err)
	}
	if string(first) != "HTTP/1.1 " {
		return huntResp{}, fmt.Errorf("answer is not plain HTTP, it starts with % x", first)
	}
	req, _ := gohttp.NewRequest("POST", "http://hunt.local/", nil)
	resp, err := gohttp.ReadResponse(c.br, req)
	if err != nil {
		return huntResp{}, err
	}
	body, err := ioutil.ReadAll(resp.Body)
	if err != nil {
		return huntResp{}, err
	}
	return huntResp{code: resp.StatusCode, header: resp.Header, body: body}, nil
}

func (e *huntEnv) tryVerified() (*huntClient, error) {
	c := e.dial()
	cc := pair.NewVerifyClientController(e.client, e.clientDB)
	body, _ := ioutil.ReadAll(cc.InitialKeyVerifyRequest())
	resp, err := c.rawExchange(c.rawRequest("POST", "/pair-verify", hap.HTTPContentTypePairingTLV8, body))
	if err != nil {
		c.conn.Close()
		return nil, fmt.Errorf("M2: %v", err)
	}
	if resp.code != 200 {
		e.t.Fatalf("pair-verify 1: %d", resp.code)
	}
	out, err := pair.HandleReaderForHandler(bytes.NewReader(resp.body), cc)
	if err != nil {
		e.t.Fatal(err)
	}
	body, _ = ioutil.ReadAll(out)
	resp, err = c.rawExchange(c.rawRequest("POST", "/pair-verify", hap.HTTPContentTypePairingTLV8, body))
	if err != nil {
		c.conn.Close()
		return nil, fmt.Errorf("M4: %v", err)
	}
	if resp.code != 200 {
		e.t.Fatalf("pair-verify 2: %d", resp.code)
	}
	if _, err := pair.HandleReaderForHandler(bytes.NewReader(resp.body), cc); err != nil {
		e.t.Fatal(err)
	}
	// the shared secret of the exchange, taken from the accessory side of this very connection
	var key [32]byte
	found := false
	for _, sc := range e.ctx.ActiveConnections() {
		if sc.RemoteAddr().String() == c.conn.LocalAddr().String() {
			s := e.ctx.GetSessionForConnection(sc)
			key = s.PairVerifyHandler().SharedKey()
			found = true
		}
	}
	if !found {
		e.t.Fatal("no server session")
	}
	crypt, err := crypto.NewSecureClientSessionFromSharedKey(key)
	if err != nil {
		e.t.Fatal(err)
	}
	c.crypt = crypt
	return c, nil
}

type huntResp struct {
	code   int
	header gohttp.Header
	body   []byte
	te     []string
}

func (c *huntClient) rawRequest(method, target, ctype string, body []byte) []byte {
	var b bytes.Buffer
	fmt.Fprintf(&b, "%s %s HTTP/1.1\r\nHost: hunt.local\r\n", method, target)
	if body != nil {
		fmt.Fprintf(&b, "Content-Type: %s\r\nContent-Length: %d\r\n", ctype, len(body))
	}
	b.WriteString("\r\n")
	b.Write(body)
	return b.Bytes()
}

func (c *huntClient) send(raw []byte) {
	if c.crypt == nil {
		if _, err := c.conn.Write(raw); err != nil {
			c.t.Fatal(err)
		}
		return
	}
	enc, err := c.crypt.Encrypt(bytes.NewReader(raw))
	if err != nil {
		c.t.Fatal(err)
	}
	b, _ := ioutil.ReadAll(enc)
	if _, err := c.conn.Write(b); err != nil {
		c.t.Fatal(err)
	}
}

func (c *huntClient) recv(method string) huntResp {
	req, _ := gohttp.NewRequest(method, "http://hunt.local/", nil)
	resp, err := gohttp.ReadResponse(c.br, req)
	if err != nil {
		c.t.Fatalf("reading response: %v", err)
	}
	body, err := ioutil.ReadAll(resp.Body)
	if err != nil {
		c.t.Fatalf("reading body: %v", err)
	}
	resp.Body.Close()
	return huntResp{code: resp.StatusCode, header: resp.Header, body: body, te: resp.TransferEncoding}
}

func (c *huntClient) do(method, target, ctype string, body []byte) huntResp {
	c.send(c.rawRequest(method, target, ctype, body))
	return c.recv(method)
}

func (c *huntClient) get(target string) huntResp {
	return c.do("GET", target, "", nil)
}

func (c *huntClient) put(body string) huntResp {
	return c.do("PUT", "/characteristics", hap.HTTPContentTypeHAPJson, []byte(body))
}

type huntCharResp struct {
	Characteristics []map[string]json.RawMessage `json:"characteristics"`
}

func parseChars(t *testing.T, b []byte) []map[string]json.RawMessage {
	var r huntCharResp
	dec := json.NewDecoder(bytes.NewReader(b))
	if err := dec.Decode(&r); err != nil {
		t.Fatalf("body is not JSON: %v: %q", err, b)
	}
	return r.Characteristics
}

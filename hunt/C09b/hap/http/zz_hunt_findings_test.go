package http

import (
	"encoding/json"
	"fmt"
	"testing"

	"github.com/brutella/hc/accessory"
)

// F1: the initial value the application passes to NewTemperatureSensor / NewThermostat,
// inside the bounds it passes in the same call, is what a controller reads.
func TestHuntFindingInitialValueClampedByDefaultBounds(t *testing.T) {
	ts := accessory.NewTemperatureSensor(accessory.Info{Name: "outdoor"}, -10, -50, 100, 0.1)
	th := accessory.NewThermostat(accessory.Info{Name: "room"}, 5, 0, 40, 0.5)
	e := newHuntEnv(t, ts.Accessory, th.Accessory)
	c := e.verified()

	read := func(aid, iid uint64) float64 {
		r := c.get(fmt.Sprintf("/characteristics?id=%d.%d", aid, iid))
		cs := parseChars(t, r.body)
		var f float64 = -9999
		json.Unmarshal(cs[0]["value"], &f)
		return f
	}
	if got := read(ts.ID, ts.TempSensor.CurrentTemperature.ID); got != -10 {
		t.Errorf("NewTemperatureSensor(temp=-10, min=-50, max=100): controller reads %v (application getter %v)", got, ts.TempSensor.CurrentTemperature.GetValue())
	}
	if got := read(th.ID, th.Thermostat.CurrentTemperature.ID); got != 5 {
		t.Errorf("NewThermostat(temp=5, min=0, max=40): controller reads current temperature %v", got)
	}
	if got := read(th.ID, th.Thermostat.TargetTemperature.ID); got != 5 {
		t.Errorf("NewThermostat(temp=5, min=0, max=40): controller reads target temperature %v", got)
	}
	// the same value set after construction is kept
	ts.TempSensor.CurrentTemperature.SetValue(-10)
	if got := read(ts.ID, ts.TempSensor.CurrentTemperature.ID); got != -10 {
		t.Errorf("after SetValue(-10): controller reads %v", got)
	}
}

// F2: a write request with several entries of which one fails: the answer is a
// multi-status answer with a status for every entry; a write to an id that does
// not exist, or to a characteristic that cannot be written, is answered with an
// error status and not with "204 No Content".
func TestHuntFindingWriteAnswers(t *testing.T) {
	a := accessory.NewColoredLightbulb(accessory.Info{Name: "lamp"})
	e := newHuntEnv(t, a.Accessory)
	c := e.verified()
	on, br, name := a.Lightbulb.On, a.Lightbulb.Brightness, a.Info.Name

	// (a) ok, failing (events on a characteristic without events), ok
	r := c.put(fmt.Sprintf(`{"characteristics":[{"aid":1,"iid":%d,"value":true},{"aid":1,"iid":%d,"ev":true},{"aid":1,"iid":%d,"value":34}]}`, on.ID, name.ID, br.ID))
	if r.code != 207 {
		t.Errorf("(a) partly failed write: HTTP %d, want 207; body %s", r.code, r.body)
	}
	cs := parseChars(t, r.body)
	if len(cs) != 3 {
		t.Errorf("(a) partly failed write of 3 entries: %d entries answered: %s", len(cs), r.body)
	}
	for i := range cs {
		if _, ok := cs[i]["status"]; !ok {
			t.Errorf("(a) entry %d without status", i)
		}
	}

	// (b) unknown id between two good ones
	r = c.put(fmt.Sprintf(`{"characteristics":[{"aid":1,"iid":%d,"value":false},{"aid":1,"iid":999,"value":1},{"aid":1,"iid":%d,"value":35}]}`, on.ID, br.ID))
	if r.code == 204 {
		t.Errorf("(b) write to 1.999 which does not exist: HTTP 204 No Content, the controller is told that all three writes succeeded")
	}

	// (c) read-only characteristic
	r = c.put(fmt.Sprintf(`{"characteristics":[{"aid":1,"iid":%d,"value":"renamed"}]}`, name.ID))
	if r.code == 204 && name.GetValue() != "renamed" {
		t.Errorf("(c) write to the read-only Name: HTTP 204 No Content, but the application getter returns %q", name.GetValue())
	}
}

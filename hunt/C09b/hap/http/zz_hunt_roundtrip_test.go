package http

import (
	"encoding/json"
	"fmt"
	"net"
	"reflect"
	"strings"
	"testing"

	"github.com/brutella/hc/accessory"
	"github.com/brutella/hc/characteristic"
	"github.com/brutella/hc/service"
)

func huntHas(perms []string, p string) bool {
	for _, x := range perms {
		if x == p {
			return true
		}
	}
	return false
}

// huntValues returns valid values of a characteristic, in the Go type the typed setters use.
func huntValues(c *characteristic.Characteristic) []interface{} {
	switch c.Format {
	case characteristic.FormatBool:
		return []interface{}{true, false, true}
	case characteristic.FormatFloat:
		min, okmin := c.MinValue.(float64)
		max, okmax := c.MaxValue.(float64)
		if !okmin {
			min = -1000
		}
		if !okmax {
			max = 1000
		}
		step, _ := c.StepValue.(float64)
		vs := []interface{}{min, max}
		if step > 0 {
			vs = append(vs, min+step, max-step, min+3*step)
		} else {
			vs = append(vs, (min+max)/2, min+0.1)
		}
		if min <= 0 && max >= 0 {
			vs = append(vs, float64(0))
		}
		return vs
	case characteristic.FormatUInt8, characteristic.FormatUInt16, characteristic.FormatUInt32, characteristic.FormatUInt64, characteristic.FormatInt32:
		min, okmin := c.MinValue.(int)
		max, okmax := c.MaxValue.(int)
		if !okmin {
			min = 0
			if c.Format == characteristic.FormatInt32 {
				min = -2147483648
			}
		}
		if !okmax {
			switch c.Format {
			case characteristic.FormatUInt8:
				max = 255
			case characteristic.FormatUInt16:
				max = 65535
			case characteristic.FormatUInt32:
				max = 4294967295
			case characteristic.FormatInt32:
				max = 2147483647
			default:
				max = 1<<53 - 1
			}
		}
		vs := []interface{}{max, min, min + (max-min)/2}
		if min <= 0 && max >= 0 {
			vs = append(vs, 0)
		}
		if min < -1 {
			vs = append(vs, -1)
		}
		return vs
	case characteristic.FormatString:
		return []interface{}{"plain", "", "q\"uo\\te <a href='x'>&amp;</a>   \U0001F600 \t\n end", strings.Repeat("é", 30)}
	case characteristic.FormatTLV8, characteristic.FormatData:
		return []interface{}{"AQID", "", strings.Repeat("QUJD", 1500) /* 6000 bytes: several frames */, "AQIDBA=="}
	}
	return nil
}

func huntJSONEqual(t *testing.T, raw json.RawMessage, want interface{}) bool {
	if raw == nil {
		return false
	}
	switch w := want.(type) {
	case bool:
		var v interface{}
		if err := json.Unmarshal(raw, &v); err != nil {
			return false
		}
		// HAP allows 0/1 for booleans
		if b, ok := v.(bool); ok {
			return b == w
		}
		if f, ok := v.(float64); ok {
			return (f == 1) == w && (f == 0 || f == 1)
		}
		return false
	case int:
		var n json.Number
		if err := json.Unmarshal(raw, &n); err != nil {
			return false
		}
		i, err := n.Int64()
		return err == nil && i == int64(w)
	case float64:
		var f float64
		if err := json.Unmarshal(raw, &f); err != nil {
			return false
		}
		return f == w
	case string:
		var s string
		if err := json.Unmarshal(raw, &s); err != nil {
			return false
		}
		return s == w
	}
	return false
}

// Every constructor, every kind of valid value: application -> controller.
func TestHuntAppToController(t *testing.T) {
	ctors := huntAllCtors()
	a := accessory.New(accessory.Info{Name: "all"}, accessory.TypeOther)
	svc := service.New("FFFF")
	for _, k := range ctors {
		svc.AddCharacteristic(k.c)
	}
	a.AddService(svc)
	e := newHuntEnv(t, a)
	c := e.verified()

	bad := 0
	for _, k := range ctors {
		ch := k.c
		if !ch.IsReadable() {
			continue
		}
		vals := huntValues(ch)
		if vals == nil {
			t.Errorf("%s: no values for format %q", k.name, ch.Format)
			continue
		}
		for _, v := range vals {
			ch.UpdateValue(v)
			// the application's own getter
			if got := ch.GetValue(); !reflect.DeepEqual(got, v) {
				t.Errorf("%s: app set %#v, app reads %#v", k.name, v, got)
				bad++
				continue
			}
			r := c.get(fmt.Sprintf("/characteristics?id=%d.%d", a.ID, ch.ID))
			if r.code != 200 {
				t.Errorf("%s: GET -> %d %s", k.name, r.code, r.body)
				bad++
				continue
			}
			cs := parseChars(t, r.body)
			if len(cs) != 1 {
				t.Errorf("%s: %d entries", k.name, len(cs))
				continue
			}
			if !huntJSONEqual(t, cs[0]["value"], v) {
				s := fmt.Sprintf("%.80s", cs[0]["value"])
				t.Errorf("%s (%s): app set %.80v, controller reads %s (body %.120s)", k.name, ch.Format, v, s, r.body)
				bad++
			}
		}
	}

	// and the same values in /accessories
	for _, k := range ctors {
		if vals := huntValues(k.c); k.c.IsReadable() && vals != nil {
			k.c.UpdateValue(vals[0])
		}
	}
	r := c.get("/accessories")
	if r.code != 200 {
		t.Fatalf("/accessories -> %d", r.code)
	}
	t.Logf("/accessories body %d bytes, TE %v", len(r.body), r.te)
	var db struct {
		Accessories []struct {
			Aid      uint64 `json:"aid"`
			Services []struct {
				Iid             uint64                       `json:"iid"`
				Characteristics []map[string]json.RawMessage `json:"characteristics"`
			} `json:"services"`
		} `json:"accessories"`
	}
	if err := json.Unmarshal(r.body, &db); err != nil {
		t.Fatalf("accessories JSON: %v", err)
	}
	byIid := map[uint64]map[string]json.RawMessage{}
	for _, s := range db.Accessories[0].Services {
		for _, ch := range s.Characteristics {
			var iid uint64
			json.Unmarshal(ch["iid"], &iid)
			if _, dup := byIid[iid]; dup {
				t.Errorf("duplicate iid %d", iid)
			}
			byIid[iid] = ch
		}
	}
	for _, k := range ctors {
		ent, ok := byIid[k.c.ID]
		if !ok {
			t.Errorf("%s: iid %d not in /accessories", k.name, k.c.ID)
			continue
		}
		if !k.c.IsReadable() {
			if v, has := ent["value"]; has {
				t.Errorf("%s: not readable but /accessories carries value %s", k.name, v)
			}
			continue
		}
		vals := huntValues(k.c)
		if vals == nil {
			continue
		}
		if !huntJSONEqual(t, ent["value"], vals[0]) {
			t.Errorf("%s: /accessories value %.80s, app set %.80v", k.name, ent["value"], vals[0])
		}
	}
}

// Every writable constructor: controller -> application getter and remote-update callback.
func TestHuntControllerToApp(t *testing.T) {
	ctors := huntAllCtors()
	a := accessory.New(accessory.Info{Name: "all"}, accessory.TypeOther)
	svc := service.New("FFFF")
	for _, k := range ctors {
		svc.AddCharacteristic(k.c)
	}
	a.AddService(svc)
	e := newHuntEnv(t, a)
	c := e.verified()

	for _, k := range ctors {
		ch := k.c
		if !ch.IsWritable() {
			continue
		}
		vals := huntValues(ch)
		var cb []interface{}
		ch.OnValueUpdateFromConn(func(conn net.Conn, c *characteristic.Characteristic, n, o interface{}) {
			cb = append(cb, n)
		})
		for _, v := range vals {
			cb = nil
			before := ch.Value
			jv, _ := json.Marshal(v)
			body := fmt.Sprintf(`{"characteristics":[{"aid":%d,"iid":%d,"value":%s}]}`, a.ID, ch.ID, jv)
			r := c.put(body)
			if r.code != 204 {
				t.Errorf("%s: PUT %.60s -> %d %s", k.name, jv, r.code, r.body)
				continue
			}
			if ch.IsReadable() {
				if got := ch.GetValue(); !reflect.DeepEqual(got, v) {
					t.Errorf("%s (%s): controller wrote %.60s, app getter returns %.60v", k.name, ch.Format, jv, got)
				}
				// read back by the controller
				rr := c.get(fmt.Sprintf("/characteristics?id=%d.%d", a.ID, ch.ID))
				cs := parseChars(t, rr.body)
				if len(cs) != 1 || !huntJSONEqual(t, cs[0]["value"], v) {
					t.Errorf("%s: controller wrote %.60s, reads back %.80s", k.name, jv, rr.body)
				}
			}
			changed := !reflect.DeepEqual(before, v)
			if changed {
				if len(cb) != 1 || !reflect.DeepEqual(cb[0], v) {
					t.Errorf("%s (%s): controller wrote %.60s (before %.60v), callback received %.80v", k.name, ch.Format, jv, before, cb)
				}
			}
		}
	}
}

package hc

import (
	"encoding/json"
	"testing"

	"github.com/brutella/hc/accessory"
)

// A bridge whose application gives one accessory a fixed id and leaves the
// others to the library. The ids the application chose are unique, so every
// accessory has to be in the database a controller reads.
func TestHuntAutoIdCollidesWithExplicitId(t *testing.T) {
	bridge := accessory.NewBridge(accessory.Info{Name: "bridge"})
	fixed := accessory.NewSwitch(accessory.Info{Name: "fixed", ID: 3})
	a := accessory.NewSwitch(accessory.Info{Name: "auto-a"})
	b := accessory.NewSwitch(accessory.Info{Name: "auto-b"})

	dir := t.TempDir()
	tr, err := NewIPTransport(Config{StoragePath: dir}, bridge.Accessory, fixed.Accessory, a.Accessory, b.Accessory)
	if err != nil {
		t.Fatal(err)
	}
	b.Switch.On.SetValue(true)

	js, _ := json.Marshal(tr.container)
	var db struct {
		Accessories []struct {
			Aid uint64 `json:"aid"`
		} `json:"accessories"`
	}
	json.Unmarshal(js, &db)
	var aids []uint64
	for _, x := range db.Accessories {
		aids = append(aids, x.Aid)
	}
	t.Logf("ids in the accessory database: %v; auto-b has id %d", aids, b.ID)
	if len(db.Accessories) != 4 {
		t.Errorf("NewIPTransport returned no error, but the database has %d of 4 accessories", len(db.Accessories))
	}
	found := false
	for _, x := range tr.container.Accessories {
		if x == b.Accessory {
			found = true
		}
	}
	if !found {
		t.Errorf("accessory auto-b is not served: the value the application set on it cannot be read by any controller")
	}
}

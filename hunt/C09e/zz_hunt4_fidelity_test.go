package hc

import (
	"bytes"
	"encoding/base64"
	"encoding/json"
	"fmt"
	"math"
	"math/rand"
	"net"
	"strings"
	"testing"

	"github.com/brutella/hc/accessory"
	"github.com/brutella/hc/characteristic"
	"github.com/brutella/hc/service"
)

var zzStrings = []string{"", "a", `q"uo\te`, "<b>&amp;'</b>", "  ", "😀𝄞", "tab\tnl\nnul\x00", "ünïcödé", strings.Repeat("x", 300), "\\u0041", "null", "true", "1"}

func zzRandValue(r *rand.Rand, c *characteristic.Characteristic) interface{} {
	switch c.Format {
	case characteristic.FormatBool:
		return r.Intn(2) == 1
	case characteristic.FormatString:
		return zzStrings[r.Intn(len(zzStrings))]
	case characteristic.FormatTLV8, characteristic.FormatData:
		n := []int{0, 1, 2, 3, 100, 1000, 3000}[r.Intn(7)]
		b := make([]byte, n)
		r.Read(b)
		return base64.StdEncoding.EncodeToString(b)
	case characteristic.FormatFloat:
		mn, ok1 := c.MinValue.(float64)
		mx, ok2 := c.MaxValue.(float64)
		if !ok1 {
			mn = -1e6
		}
		if !ok2 {
			mx = 1e6
		}
		switch r.Intn(4) {
		case 0:
			return mn
		case 1:
			return mx
		}
		return mn + r.Float64()*(mx-mn)
	default:
		mn, ok1 := c.MinValue.(int)
		mx, ok2 := c.MaxValue.(int)
		if !ok1 {
			mn = 0
			if c.Format == characteristic.FormatInt32 {
				mn = math.MinInt32
			}
		}
		if !ok2 {
			switch c.Format {
			case characteristic.FormatUInt8:
				mx = 255
			case characteristic.FormatUInt16:
				mx = 65535
			case characteristic.FormatUInt32:
				mx = zzCap(math.MaxUint32)
			case characteristic.FormatInt32:
				mx = math.MaxInt32
			default:
				mx = zzCap(1 << 50)
			}
		}
		switch r.Intn(4) {
		case 0:
			return mn
		case 1:
			return mx
		}
		return mn + int(r.Int63n(int64(mx-mn)+1))
	}
}

func zzCap(v int64) int {
	if m := int64(^uint(0) >> 1); v > m {
		return int(m)
	}
	return int(v)
}

func zzSame(want interface{}, got interface{}) bool {
	switch w := want.(type) {
	case bool:
		g, ok := got.(bool)
		return ok && g == w
	case string:
		g, ok := got.(string)
		return ok && g == w
	case int:
		g, ok := got.(json.Number)
		return ok && g.String() == fmt.Sprint(w)
	case float64:
		g, ok := got.(json.Number)
		if !ok {
			return false
		}
		f, err := g.Float64()
		return err == nil && f == w
	}
	return false
}

type zzEntry struct {
	Aid    uint64      `json:"aid"`
	Iid    uint64      `json:"iid"`
	Value  interface{} `json:"value"`
	Status *int        `json:"status"`
}

func zzDecode(t *testing.T, b []byte, v interface{}) {
	d := json.NewDecoder(bytes.NewReader(b))
	d.UseNumber()
	if err := d.Decode(v); err != nil {
		t.Fatalf("decode: %v: %s", err, zzShort(b))
	}
}

func TestZZFidelity(t *testing.T) {
	r := rand.New(rand.NewSource(7))
	bridge := accessory.NewBridge(accessory.Info{Name: "bridge"})
	var as []*accessory.Accessory
	for i, sv := range zzAllServices() {
		a := accessory.New(accessory.Info{Name: fmt.Sprintf("acc %d %s", i, sv.name)}, accessory.TypeOther)
		a.AddService(sv.s)
		as = append(as, a)
	}
	// every characteristic constructor, in services of 10
	chrs := zzAllChars()
	for i := 0; i < len(chrs); i += 10 {
		a := accessory.New(accessory.Info{Name: fmt.Sprintf("chars %d", i)}, accessory.TypeOther)
		sv := service.New("FFFF")
		for j := i; j < i+10 && j < len(chrs); j++ {
			sv.AddCharacteristic(chrs[j].c)
		}
		a.AddService(sv)
		as = append(as, a)
	}
	s := zzStart(t, bridge.Accessory, as...)
	c := s.dial(t)

	type key struct{ aid, iid uint64 }
	all := map[key]*characteristic.Characteristic{}
	var keys []key
	type upd struct{ v interface{} }
	remote := map[key][]interface{}{}
	for _, a := range s.t.container.Accessories {
		for _, sv := range a.Services {
			for _, ch := range sv.Characteristics {
				k := key{a.ID, ch.ID}
				if all[k] != nil {
					t.Fatalf("duplicate %v", k)
				}
				all[k] = ch
				keys = append(keys, k)
				ch.OnValueUpdateFromConn(func(conn net.Conn, c *characteristic.Characteristic, n, o interface{}) {
					remote[k] = append(remote[k], n)
				})
			}
		}
	}
	t.Logf("%d accessories, %d characteristics", len(s.t.container.Accessories), len(keys))

	for round := 0; round < 6; round++ {
		// application sets
		want := map[key]interface{}{}
		for _, k := range keys {
			ch := all[k]
			v := zzRandValue(r, ch)
			ch.UpdateValue(v)
			want[k] = v
		}
		// /accessories
		resp := c.do(t, "GET", "/accessories", "")
		var db struct {
			Accessories []struct {
				Aid      uint64 `json:"aid"`
				Services []struct {
					Iid             uint64 `json:"iid"`
					Characteristics []struct {
						Iid   uint64      `json:"iid"`
						Value interface{} `json:"value"`
						Perms []string    `json:"perms"`
					} `json:"characteristics"`
				} `json:"services"`
			} `json:"accessories"`
		}
		zzDecode(t, resp.Body, &db)
		n := 0
		for _, a := range db.Accessories {
			for _, sv := range a.Services {
				for _, ch := range sv.Characteristics {
					k := key{a.Aid, ch.Iid}
					n++
					if all[k] == nil {
						t.Errorf("unknown %v", k)
						continue
					}
					if !all[k].IsReadable() {
						if ch.Value != nil {
							t.Errorf("/accessories: %v not readable has value %v", k, ch.Value)
						}
						continue
					}
					if !zzSame(want[k], ch.Value) {
						t.Errorf("/accessories: %v (%s %s): set %#v read %#v", k, all[k].Type, all[k].Format, want[k], ch.Value)
					}
				}
			}
		}
		if n != len(keys) {
			t.Errorf("/accessories has %d characteristics, want %d", n, len(keys))
		}
		t.Logf("round %d /accessories %d bytes frames %d", round, len(resp.Body), 0)

		// /characteristics with random lists
		for q := 0; q < 20; q++ {
			m := 1 + r.Intn(60)
			var ids []string
			var ks []key
			for i := 0; i < m; i++ {
				k := keys[r.Intn(len(keys))]
				if r.Intn(10) == 0 {
					k = key{uint64(r.Intn(80)), uint64(200 + r.Intn(100))}
				}
				ks = append(ks, k)
				ids = append(ids, fmt.Sprintf("%d.%d", k.aid, k.iid))
			}
			resp := c.do(t, "GET", "/characteristics?id="+strings.Join(ids, ","), "")
			var cr struct {
				Characteristics []zzEntry `json:"characteristics"`
			}
			zzDecode(t, resp.Body, &cr)
			if len(cr.Characteristics) != len(ks) {
				t.Fatalf("asked %d got %d", len(ks), len(cr.Characteristics))
			}
			multi := resp.Status == 207
			for i, e := range cr.Characteristics {
				k := ks[i]
				if e.Aid != k.aid || e.Iid != k.iid {
					t.Errorf("entry %d is %d.%d want %v", i, e.Aid, e.Iid, k)
				}
				ch := all[k]
				if multi && e.Status == nil {
					t.Errorf("207 entry without status: %v", k)
				}
				if ch == nil || !ch.IsReadable() {
					if e.Status == nil || *e.Status == 0 || e.Value != nil {
						t.Errorf("entry %v: want error status, got %+v", k, e)
					}
					continue
				}
				if e.Status != nil && *e.Status != 0 {
					t.Errorf("entry %v: status %d", k, *e.Status)
				}
				if !zzSame(want[k], e.Value) {
					t.Errorf("/characteristics: %v (%s %s): set %#v read %#v", k, ch.Type, ch.Format, want[k], e.Value)
				}
			}
		}

		// controller writes
		for q := 0; q < 20; q++ {
			m := 1 + r.Intn(30)
			type w struct {
				Aid   uint64      `json:"aid"`
				Iid   uint64      `json:"iid"`
				Value interface{} `json:"value"`
			}
			var ws []w
			seen := map[key]bool{}
			for k := range remote {
				delete(remote, k)
			}
			before := map[key]interface{}{}
			for i := 0; i < m; i++ {
				k := keys[r.Intn(len(keys))]
				ch := all[k]
				if !ch.IsWritable() || seen[k] {
					continue
				}
				seen[k] = true
				before[k] = ch.Value
				ws = append(ws, w{k.aid, k.iid, zzRandValue(r, ch)})
			}
			if len(ws) == 0 {
				continue
			}
			body, _ := json.Marshal(map[string]interface{}{"characteristics": ws})
			resp := c.do(t, "PUT", "/characteristics", string(body))
			if resp.Status != 204 {
				t.Errorf("PUT: %d %s", resp.Status, zzShort(resp.Body))
			}
			for _, x := range ws {
				k := key{x.Aid, x.Iid}
				ch := all[k]
				if ch.IsReadable() {
					if ch.GetValue() != x.Value {
						t.Errorf("PUT %v (%s %s): wrote %#v getter %#v", k, ch.Type, ch.Format, x.Value, ch.GetValue())
					}
				}
				changed := before[k] != x.Value
				if changed {
					if len(remote[k]) != 1 || remote[k][0] != x.Value {
						t.Errorf("PUT %v (%s %s): wrote %#v (before %#v) callback got %#v", k, ch.Type, ch.Format, x.Value, before[k], remote[k])
					}
				} else if len(remote[k]) != 0 && ch.Type != characteristic.TypeProgrammableSwitchEvent {
					t.Errorf("PUT %v: unchanged, callback got %#v", k, remote[k])
				}
			}
		}
	}
}

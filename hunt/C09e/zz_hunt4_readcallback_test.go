package hc

import (
	"fmt"
	"testing"

	"github.com/brutella/hc/accessory"
)

// Clause of C09: "the value a verified controller writes is exactly what the
// application's getter then returns and, when it changes the value, what the
// remote-update callback receives".
//
// History: the application of a thermostat installs both hooks of the target
// temperature: OnValueRemoteGet (ask the device) and OnValueRemoteUpdate (send
// the controller's wish to the device). A verified controller only READS the
// characteristic. The remote-update callback is called with the value of the
// application's own getter: it receives a value which no controller wrote.
// A later real write of that same value is then NOT delivered to the callback.
func TestZZHunt4ReadCallsRemoteUpdateCallback(t *testing.T) {
	a := accessory.NewThermostat(accessory.Info{Name: "th"}, 20, 10, 38, 0.1)
	s := zzStart(t, a.Accessory)
	c := s.dial(t)

	target := a.Thermostat.TargetTemperature
	device := 21.5 // what the device reports
	target.OnValueRemoteGet(func() float64 { return device })
	var written []float64
	target.OnValueRemoteUpdate(func(v float64) { written = append(written, v) })

	r := c.do(t, "GET", fmt.Sprintf("/characteristics?id=%d.%d", a.ID, target.ID), "")
	if r.Status != 200 {
		t.Fatalf("GET: %d %s", r.Status, r.Body)
	}
	t.Logf("GET -> %s", r.Body)
	if len(written) != 0 {
		t.Errorf("the controller wrote nothing, the remote-update callback received %v", written)
	}
}

package characteristic

import (
	"encoding/json"
	"testing"
)

func TestZZScan(t *testing.T) {
	for _, e := range zzAll() {
		c := e.c
		b, _ := json.Marshal(c)
		if c.Value == nil && c.IsReadable() {
			t.Logf("NILVALUE readable %s fmt=%s perms=%v %s", e.name, c.Format, c.Perms, b)
		}
		if c.Value != nil && !c.IsReadable() {
			t.Logf("VALUE not readable %s", e.name)
		}
		switch c.Format {
		case FormatFloat:
			if _, ok := c.Value.(float64); !ok && c.Value != nil {
				t.Logf("TYPE %s %T", e.name, c.Value)
			}
			for _, v := range []interface{}{c.MinValue, c.MaxValue, c.StepValue} {
				if _, ok := v.(float64); !ok && v != nil {
					t.Logf("BOUNDTYPE %s %T", e.name, v)
				}
			}
			if v, ok := c.Value.(float64); ok {
				if mn, ok := c.MinValue.(float64); ok && v < mn {
					t.Logf("BELOWMIN %s %v<%v", e.name, v, mn)
				}
				if mx, ok := c.MaxValue.(float64); ok && v > mx {
					t.Logf("ABOVEMAX %s", e.name)
				}
			}
		case FormatUInt8, FormatUInt16, FormatUInt32, FormatUInt64, FormatInt32:
			if _, ok := c.Value.(int); !ok && c.Value != nil {
				t.Logf("TYPE %s %T", e.name, c.Value)
			}
			for _, v := range []interface{}{c.MinValue, c.MaxValue, c.StepValue} {
				if _, ok := v.(int); !ok && v != nil {
					t.Logf("BOUNDTYPE %s %T", e.name, v)
				}
			}
			if v, ok := c.Value.(int); ok {
				if mn, ok := c.MinValue.(int); ok && v < mn {
					t.Logf("BELOWMIN %s %v<%v", e.name, v, mn)
				}
				if mx, ok := c.MaxValue.(int); ok && v > mx {
					t.Logf("ABOVEMAX %s", e.name)
				}
			}
		case FormatBool:
			if _, ok := c.Value.(bool); !ok && c.Value != nil {
				t.Logf("TYPE %s %T", e.name, c.Value)
			}
		case FormatString, FormatTLV8, FormatData:
			if _, ok := c.Value.(string); !ok && c.Value != nil {
				t.Logf("TYPE %s %T", e.name, c.Value)
			}
		default:
			t.Logf("FORMAT %s %q", e.name, c.Format)
		}
	}
}

package hc

import (
	"fmt"
	"net"
	"testing"

	"github.com/brutella/hc/accessory"
	"github.com/brutella/hc/characteristic"
)

func TestZZProbeJSON(t *testing.T) {
	a := accessory.NewColoredLightbulb(accessory.Info{Name: "lb"})
	s := zzStart(t, a.Accessory)
	c := s.dial(t)
	lb := a.Lightbulb
	chars := map[string]*characteristic.Characteristic{"on": lb.On.Characteristic, "bri": lb.Brightness.Characteristic, "hue": lb.Hue.Characteristic, "name": a.Info.Name.Characteristic}
	var log []string
	for n, ch := range chars {
		n := n
		ch.OnValueUpdateFromConn(func(conn net.Conn, c *characteristic.Characteristic, nv, ov interface{}) {
			log = append(log, fmt.Sprintf("%s:%#v", n, nv))
		})
	}
	t.Logf("on=%d bri=%d hue=%d", lb.On.ID, lb.Brightness.ID, lb.Hue.ID)
	put := func(body string) {
		log = nil
		r := c.do(t, "PUT", "/characteristics", body)
		t.Logf("%s\n   -> %d %s | on=%v bri=%v hue=%v | cb=%v", body, r.Status, r.Body, lb.On.Characteristic.Value, lb.Brightness.Characteristic.Value, lb.Hue.Characteristic.Value, log)
	}
	on, bri, hue := lb.On.ID, lb.Brightness.ID, lb.Hue.ID
	put(fmt.Sprintf(`{"characteristics":[{"aid":1,"iid":%d,"value":1}]}`, on))
	put(fmt.Sprintf(`{"characteristics":[{"aid":1,"iid":%d,"value":0}]}`, on))
	put(fmt.Sprintf(`{"characteristics":[{"aid":1,"iid":%d,"value":1.0}]}`, on))
	put(fmt.Sprintf(`{"characteristics":[{"aid":1,"iid":%d,"value":0.0}]}`, on))
	put(fmt.Sprintf(`{"characteristics":[{"aid":1,"iid":%d,"value":1e0}]}`, on))
	put(fmt.Sprintf(`{"characteristics":[{"aid":1,"iid":%d,"value":-0}]}`, on))
	put(fmt.Sprintf(`{"characteristics":[{"aid":1,"iid":%d,"value":true},{"aid":1,"iid":%d,"value":false},{"aid":1,"iid":%d,"value":true}]}`, on, on, on))
	put(fmt.Sprintf(`{"characteristics":[{"aid":1,"iid":%d,"value":false,"value":true}]}`, on))
	put(fmt.Sprintf(`{"characteristics":[{"aid":1,"iid":%d,"value":50}]}`, bri))
	put(fmt.Sprintf(`{"characteristics":[{"aid":1,"iid":%d,"value":5e1}]}`, bri))
	put(fmt.Sprintf(`{"characteristics":[{"aid":1,"iid":%d,"value":51.0}]}`, bri))
	put(fmt.Sprintf(`{"characteristics":[{"aid":1,"iid":%d,"value":-0}]}`, bri))
	put(fmt.Sprintf(`{"characteristics":[{"aid":1,"iid":%d,"value":-0.0}]}`, hue))
	put(fmt.Sprintf(`{"characteristics":[{"aid":1,"iid":%d,"value":0}]}`, hue))
	put(fmt.Sprintf(`{"characteristics":[{"aid":1,"iid":%d,"value":360}]}`, hue))
	put(fmt.Sprintf(`{"characteristics":[{"aid":1,"iid":%d,"value":3.6e2}]}`, hue))
	put(fmt.Sprintf(`{"characteristics":[{"aid":1,"iid":%d,"value":1e-320}]}`, hue))
	put(fmt.Sprintf(`{"characteristics":[{"aid":1,"iid":%d,"value":12.5,"ev":true, "authData":"xx", "remote":false, "r":true}], "pid": 5}`, hue))
	put(fmt.Sprintf(`{"characteristics":[{"aid":1,"iid":%d,"value":null}]}`, hue))
	put(`{"characteristics":[]}`)
	put(`{}`)
	put(fmt.Sprintf(`{"CHARACTERISTICS":[{"AID":1,"IID":%d,"VALUE":13.5}]}`, hue))
	put(fmt.Sprintf("\xef\xbb\xbf"+`{"characteristics":[{"aid":1,"iid":%d,"value":14.5}]}`, hue))
	put(fmt.Sprintf(`{"characteristics":[{"aid":1,"iid":%d,"value":15.5}]} trailing`, hue))
	put(fmt.Sprintf(`{"characteristics":[{"aid":1,"iid":%d,"value":16.5}]}{"characteristics":[{"aid":1,"iid":%d,"value":17.5}]}`, hue, hue))
	r := c.do(t, "GET", fmt.Sprintf("/characteristics?id=1.%d", hue), "")
	t.Logf("%s", r.Body)
}

package hc

import (
	"encoding/base64"
	"fmt"
	"math/rand"
	"testing"

	"github.com/brutella/hc/accessory"
	"github.com/brutella/hc/characteristic"
	"github.com/brutella/hc/service"
)

func TestZZProbeFrames(t *testing.T) {
	a := accessory.NewSwitch(accessory.Info{Name: "sw"})
	sv := service.New("FFFF")
	d := characteristic.NewBytes("FFF1")
	d.SetValue([]byte{1})
	sv.AddCharacteristic(d.Characteristic)
	a.AddService(sv)
	s := zzStart(t, a.Accessory)
	c := s.dial(t)
	var got [][]byte
	d.OnValueRemoteUpdate(func(b []byte) { got = append(got, b) })
	r := rand.New(rand.NewSource(1))
	for _, n := range []int{0, 1, 700, 1024, 5000, 100000, 1000000} {
		for _, frame := range []int{1024, 1, 7, 1023} {
			if frame < 7 && n > 5000 {
				continue
			}
			b := make([]byte, n)
			r.Read(b)
			body := fmt.Sprintf(`{"characteristics":[{"aid":1,"iid":%d,"value":"%s"}]}`, d.ID, base64.StdEncoding.EncodeToString(b))
			req := []byte(fmt.Sprintf("PUT /characteristics HTTP/1.1\r\nHost: x\r\nContent-Length: %d\r\n\r\n%s", len(body), body))
			got = nil
			for len(req) > 0 {
				k := frame
				if k > len(req) {
					k = len(req)
				}
				if err := c.send(req[:k]); err != nil {
					t.Fatal(err)
				}
				req = req[k:]
			}
			resp, err := c.recv("PUT")
			if err != nil {
				t.Fatalf("n=%d frame=%d: %v", n, frame, err)
			}
			if resp.Status != 204 {
				t.Errorf("n=%d frame=%d: %d %s", n, frame, resp.Status, resp.Body)
			}
			if string(d.GetValue()) != string(b) {
				t.Errorf("n=%d frame=%d: getter differs (%d bytes)", n, frame, len(d.GetValue()))
			}
			if n > 0 && (len(got) != 1 || string(got[0]) != string(b)) {
				t.Errorf("n=%d frame=%d: callback %d", n, frame, len(got))
			}
			// read back
			for _, p := range []string{fmt.Sprintf("/characteristics?id=1.%d", d.ID), "/accessories"} {
				resp := c.do(t, "GET", p, "")
				want := base64.StdEncoding.EncodeToString(b)
				if n > 0 && !contains(resp.Body, want) {
					t.Errorf("n=%d %s: value not in response (%d bytes, %v)", n, p, len(resp.Body), resp.Header)
				}
			}
		}
	}
	// HTTP/1.0 and close with a big body
	for _, req := range []string{"GET /accessories HTTP/1.0\r\n\r\n", "GET /accessories HTTP/1.1\r\nHost: x\r\nConnection: close\r\n\r\n"} {
		c := s.dial(t)
		c.send([]byte(req))
		resp, err := c.recv("GET")
		if err != nil {
			t.Errorf("%q: %v", req, err)
			continue
		}
		t.Logf("%s %d %v %d", resp.Proto, resp.Status, resp.Header, len(resp.Body))
		if !contains(resp.Body, base64.StdEncoding.EncodeToString(d.GetValue())) || resp.Body[len(resp.Body)-2] != '}' {
			t.Errorf("%q: truncated", req)
		}
	}
}

func contains(b []byte, s string) bool {
	return len(s) == 0 || (len(b) >= len(s) && indexOf(string(b), s) >= 0)
}

func indexOf(a, b string) int {
	for i := 0; i+len(b) <= len(a); i++ {
		if a[i:i+len(b)] == b {
			return i
		}
	}
	return -1
}

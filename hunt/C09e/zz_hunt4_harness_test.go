package hc

import (
	"bufio"
	"bytes"
	"context"
	"encoding/binary"
	"fmt"
	"io"
	"io/ioutil"
	"net"
	nethttp "net/http"
	"os"
	"sync"
	"testing"
	"time"

	"github.com/brutella/hc/accessory"
	"github.com/brutella/hc/crypto"
	"github.com/brutella/hc/crypto/chacha20poly1305"
	"github.com/brutella/hc/db"
	"github.com/brutella/hc/hap"
	"github.com/brutella/hc/hap/http"
	"github.com/brutella/hc/hap/pair"
	"github.com/brutella/hc/util"
)

// zzServer runs the HTTP server of a transport (without mDNS).
type zzServer struct {
	t      *ipTransport
	srv    *http.Server
	cancel context.CancelFunc
	client hap.Device
}

func zzStart(tb testing.TB, a *accessory.Accessory, as ...*accessory.Accessory) *zzServer {
	dir, err := ioutil.TempDir("", "zzhunt")
	if err != nil {
		tb.Fatal(err)
	}
	tb.Cleanup(func() { os.RemoveAll(dir) })
	t, err := NewIPTransport(Config{StoragePath: dir, Port: "127.0.0.1:0"}, a, as...)
	if err != nil {
		tb.Fatal(err)
	}
	cfg := http.Config{Port: "127.0.0.1:0", Context: t.context, Database: t.database, Container: t.container, Device: t.device, Mutex: t.mutex, Emitter: t.emitter}
	s := http.NewServer(cfg)
	t.server = s
	ctx, cancel := context.WithCancel(context.Background())
	go s.ListenAndServe(ctx)
	tb.Cleanup(cancel)

	cdb, _ := db.NewTempDatabase()
	client, err := hap.NewDevice("zz-controller", cdb)
	if err != nil {
		tb.Fatal(err)
	}
	if err := t.database.SaveEntity(db.NewEntity(client.Name(), client.PublicKey(), nil)); err != nil {
		tb.Fatal(err)
	}
	return &zzServer{t: t, srv: s, cancel: cancel, client: client}
}

// zzCtrl is a reference controller: a pair-verified, encrypted connection.
type zzCtrl struct {
	conn net.Conn
	cr   crypto.Cryptographer
	br   *bufio.Reader // decrypted stream
	mu   sync.Mutex
}

type zzFrameReader struct {
	conn net.Conn
	cr   crypto.Cryptographer
	buf  bytes.Buffer
	raw  *bufio.Reader
	// frames records the plaintext sizes of the frames received
	frames []int
}

func (f *zzFrameReader) Read(p []byte) (int, error) {
	for f.buf.Len() == 0 {
		var hdr [2]byte
		if _, err := io.ReadFull(f.raw, hdr[:]); err != nil {
			return 0, err
		}
		n := int(binary.LittleEndian.Uint16(hdr[:]))
		body := make([]byte, n+16)
		if _, err := io.ReadFull(f.raw, body); err != nil {
			return 0, err
		}
		// decrypt frame by frame; a frame of 1024 makes Decrypt look for another, so feed it one frame and EOF
		r, err := f.cr.Decrypt(bytes.NewReader(append(hdr[:], body...)))
		if err != nil {
			return 0, err
		}
		b, _ := ioutil.ReadAll(r)
		f.frames = append(f.frames, len(b))
		f.buf.Write(b)
	}
	return f.buf.Read(p)
}

func (s *zzServer) addr() string { return "127.0.0.1:" + s.srv.Port() }

func (s *zzServer) dial(tb testing.TB) *zzCtrl {
	conn, err := net.Dial("tcp", s.addr())
	if err != nil {
		tb.Fatal(err)
	}
	tb.Cleanup(func() { conn.Close() })
	raw := bufio.NewReader(conn)

	post := func(body []byte) util.Container {
		req := fmt.Sprintf("POST /pair-verify HTTP/1.1\r\nHost: x\r\nContent-Type: application/pairing+tlv8\r\nContent-Length: %d\r\n\r\n", len(body))
		if _, err := conn.Write(append([]byte(req), body...)); err != nil {
			tb.Fatal(err)
		}
		resp, err := nethttp.ReadResponse(raw, nil)
		if err != nil {
			tb.Fatal("pair-verify response:", err)
		}
		b, _ := ioutil.ReadAll(resp.Body)
		resp.Body.Close()
		c, err := util.NewTLV8ContainerFromReader(bytes.NewReader(b))
		if err != nil {
			tb.Fatal(err)
		}
		return c
	}

	vs := pair.NewVerifySession()
	out := util.NewTLV8Container()
	out.SetByte(pair.TagSequence, pair.VerifyStepStartRequest.Byte())
	out.SetBytes(pair.TagPublicKey, vs.PublicKey[:])
	in := post(out.BytesBuffer().Bytes())
	var other [32]byte
	copy(other[:], in.GetBytes(pair.TagPublicKey))
	vs.GenerateSharedKeyWithOtherPublicKey(other)
	vs.SetupEncryptionKey([]byte("Pair-Verify-Encrypt-Salt"), []byte("Pair-Verify-Encrypt-Info"))

	var material []byte
	material = append(material, vs.PublicKey[:]...)
	material = append(material, s.client.Name()...)
	material = append(material, vs.OtherPublicKey[:]...)
	sig, err := crypto.ED25519Signature(s.client.PrivateKey(), material)
	if err != nil {
		tb.Fatal(err)
	}
	enc := util.NewTLV8Container()
	enc.SetString(pair.TagUsername, s.client.Name())
	enc.SetBytes(pair.TagSignature, sig)
	eb, mac, _ := chacha20poly1305.EncryptAndSeal(vs.EncryptionKey[:], []byte("PV-Msg03"), enc.BytesBuffer().Bytes(), nil)
	out = util.NewTLV8Container()
	out.SetByte(pair.TagSequence, pair.VerifyStepFinishRequest.Byte())
	out.SetBytes(pair.TagEncryptedData, append(eb, mac[:]...))

	// M4 may (known race) arrive encrypted; retry the whole dial in that case
	body := out.BytesBuffer().Bytes()
	req := fmt.Sprintf("POST /pair-verify HTTP/1.1\r\nHost: x\r\nContent-Type: application/pairing+tlv8\r\nContent-Length: %d\r\n\r\n", len(body))
	conn.Write(append([]byte(req), body...))
	peek, err := raw.Peek(5)
	if err != nil {
		tb.Fatal(err)
	}
	if string(peek) != "HTTP/" {
		conn.Close()
		return s.dial(tb)
	}
	resp, err := nethttp.ReadResponse(raw, nil)
	if err != nil {
		tb.Fatal(err)
	}
	b, _ := ioutil.ReadAll(resp.Body)
	resp.Body.Close()
	c, _ := util.NewTLV8ContainerFromReader(bytes.NewReader(b))
	if c.GetByte(pair.TagErrCode) != 0 || c.GetByte(pair.TagSequence) != pair.VerifyStepFinishResponse.Byte() {
		tb.Fatalf("pair-verify failed: %v", b)
	}
	// give the accessory the time to install its keys (known: not ordered)
	time.Sleep(20 * time.Millisecond)

	cr, err := crypto.NewSecureClientSessionFromSharedKey(vs.SharedKey)
	if err != nil {
		tb.Fatal(err)
	}
	fr := &zzFrameReader{conn: conn, cr: cr, raw: raw}
	return &zzCtrl{conn: conn, cr: cr, br: bufio.NewReader(fr)}
}

// send encrypts and sends raw bytes (frames of at most 1024 bytes).
func (c *zzCtrl) send(b []byte) error {
	r, err := c.cr.Encrypt(bytes.NewReader(b))
	if err != nil {
		return err
	}
	eb, _ := ioutil.ReadAll(r)
	_, err = c.conn.Write(eb)
	return err
}

type zzResp struct {
	Status int
	Header nethttp.Header
	Body   []byte
	Proto  string
}

// recv reads one HTTP response from the decrypted stream.
func (c *zzCtrl) recv(method string) (*zzResp, error) {
	c.conn.SetReadDeadline(time.Now().Add(5 * time.Second))
	resp, err := nethttp.ReadResponse(c.br, &nethttp.Request{Method: method})
	if err != nil {
		return nil, err
	}
	b, err := ioutil.ReadAll(resp.Body)
	resp.Body.Close()
	if err != nil {
		return nil, err
	}
	return &zzResp{Status: resp.StatusCode, Header: resp.Header, Body: b, Proto: resp.Proto}, nil
}

func (c *zzCtrl) do(tb testing.TB, method, path string, body string) *zzResp {
	req := fmt.Sprintf("%s %s HTTP/1.1\r\nHost: x\r\n", method, path)
	if body != "" || method == "PUT" || method == "POST" {
		req += fmt.Sprintf("Content-Type: application/hap+json\r\nContent-Length: %d\r\n", len(body))
	}
	req += "\r\n" + body
	if err := c.send([]byte(req)); err != nil {
		tb.Fatal(err)
	}
	r, err := c.recv(method)
	if err != nil {
		tb.Fatalf("%s %s: %v", method, path, err)
	}
	return r
}

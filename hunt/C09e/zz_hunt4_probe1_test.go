package hc

import (
	"fmt"
	"strings"
	"testing"

	"github.com/brutella/hc/accessory"
)

func zzShort(b []byte) string {
	if len(b) > 300 {
		return string(b[:300]) + "..."
	}
	return string(b)
}

func TestZZProbeHTTP(t *testing.T) {
	a := accessory.NewSwitch(accessory.Info{Name: "sw"})
	s := zzStart(t, a.Accessory)
	var got []bool
	a.Switch.On.OnValueRemoteUpdate(func(v bool) { got = append(got, v) })

	raw := func(name, req string, method string, n int) {
		c := s.dial(t)
		if err := c.send([]byte(req)); err != nil {
			t.Fatal(err)
		}
		for i := 0; i < n; i++ {
			r, err := c.recv(method)
			if err != nil {
				t.Logf("%s: resp %d: ERR %v", name, i, err)
				return
			}
			t.Logf("%s: resp %d: %s %d %v %s", name, i, r.Proto, r.Status, r.Header, zzShort(r.Body))
		}
	}
	raw("pipelined", "GET /characteristics?id=1.9 HTTP/1.1\r\nHost: x\r\n\r\nGET /characteristics?id=1.5 HTTP/1.1\r\nHost: x\r\n\r\n", "GET", 2)
	body := `{"characteristics":[{"aid":1,"iid":9,"value":true}]}`
	raw("expect", fmt.Sprintf("PUT /characteristics HTTP/1.1\r\nHost: x\r\nExpect: 100-continue\r\nContent-Length: %d\r\n\r\n%s", len(body), body), "PUT", 2)
	t.Log(got, a.Switch.On.GetValue())
	body = `{"characteristics":[{"aid":1,"iid":9,"value":false}]}`
	raw("chunked", fmt.Sprintf("PUT /characteristics HTTP/1.1\r\nHost: x\r\nTransfer-Encoding: chunked\r\n\r\n%x\r\n%s\r\n%x\r\n%s\r\n0\r\n\r\n", 10, body[:10], len(body)-10, body[10:]), "PUT", 1)
	t.Log(got, a.Switch.On.GetValue())
	raw("http10", "GET /characteristics?id=1.9 HTTP/1.0\r\n\r\n", "GET", 2)
	raw("close", "GET /characteristics?id=1.9 HTTP/1.1\r\nHost: x\r\nConnection: close\r\n\r\n", "GET", 2)
	raw("head", "HEAD /characteristics?id=1.9 HTTP/1.1\r\nHost: x\r\n\r\n", "HEAD", 1)
	raw("options", "OPTIONS /characteristics?id=1.9 HTTP/1.1\r\nHost: x\r\n\r\n", "OPTIONS", 1)
	raw("post", "POST /characteristics?id=1.9 HTTP/1.1\r\nHost: x\r\nContent-Length: 0\r\n\r\n", "POST", 1)
	raw("trailing comma", "GET /characteristics?id=1.9, HTTP/1.1\r\nHost: x\r\n\r\n", "GET", 1)
	raw("empty", "GET /characteristics?id= HTTP/1.1\r\nHost: x\r\n\r\n", "GET", 1)
	raw("dups", "GET /characteristics?id=1.9,1.9,01.09,1.%39,+1.9,1.+9,%201.9,1.9%20,1.18446744073709551625,1.-9,1.9.0 HTTP/1.1\r\nHost: x\r\n\r\n", "GET", 1)
	raw("dups2", "GET /characteristics?id=1.9,1.9,01.09,1.%39,+1.9,1.+9,%201.9,1.9%20,1.18446744073709551625,1.-9,1.0x9,1.9e0 HTTP/1.1\r\nHost: x\r\n\r\n", "GET", 1)
	raw("two id params", "GET /characteristics?id=1.9&id=1.5 HTTP/1.1\r\nHost: x\r\n\r\n", "GET", 1)
	raw("meta", "GET /characteristics?id=1.9&meta=1&perms=1&type=1&ev=1 HTTP/1.1\r\nHost: x\r\n\r\n", "GET", 1)
	raw("path slash", "GET /characteristics/?id=1.9 HTTP/1.1\r\nHost: x\r\n\r\n", "GET", 1)
	raw("abs uri", "GET http://x/characteristics?id=1.9 HTTP/1.1\r\nHost: x\r\n\r\n", "GET", 1)
	raw("get with body", "GET /characteristics?id=1.9 HTTP/1.1\r\nHost: x\r\nContent-Length: 4\r\n\r\nabcdGET /characteristics?id=1.5 HTTP/1.1\r\nHost: x\r\n\r\n", "GET", 2)
	raw("get form body", "GET /characteristics HTTP/1.1\r\nHost: x\r\nContent-Type: application/x-www-form-urlencoded\r\nContent-Length: 6\r\n\r\nid=1.9", "GET", 1)
	ids := []string{}
	for i := 0; i < 3000; i++ {
		ids = append(ids, fmt.Sprintf("1.%d", 2+i%8))
	}
	raw("long", "GET /characteristics?id="+strings.Join(ids, ",")+" HTTP/1.1\r\nHost: x\r\n\r\n", "GET", 1)
}

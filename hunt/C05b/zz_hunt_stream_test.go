package crypto

import (
	"bytes"
	"errors"
	"fmt"
	"io"
	"io/ioutil"
	"testing"
)

func zzKey(seed byte) [32]byte {
	var k [32]byte
	for i := range k {
		k[i] = seed + byte(i)*7
	}
	return k
}

func zzPair(t *testing.T, seed byte) (srv, cli *secureSession) {
	k := zzKey(seed)
	s, err := NewSecureSessionFromSharedKey(k)
	if err != nil {
		t.Fatal(err)
	}
	c, err := NewSecureClientSessionFromSharedKey(k)
	if err != nil {
		t.Fatal(err)
	}
	return s.(*secureSession), c.(*secureSession)
}

func zzPlain(n int, seed byte) []byte {
	b := make([]byte, n)
	for i := range b {
		b[i] = byte(i*31) ^ seed
	}
	return b
}

func zzEnc(t *testing.T, s *secureSession, p []byte) []byte {
	r, err := s.Encrypt(bytes.NewReader(p))
	if err != nil {
		t.Fatal(err)
	}
	b, _ := ioutil.ReadAll(r)
	return b
}

// splits a ciphertext stream in frames
func zzFrames(b []byte) [][]byte {
	var out [][]byte
	for len(b) > 0 {
		l := int(b[0]) | int(b[1])<<8
		n := 2 + l + 16
		out = append(out, b[:n])
		b = b[n:]
	}
	return out
}

// plaintext of the frames (in 1024 chunks) of a message
func zzChunks(p []byte) [][]byte {
	var out [][]byte
	for len(p) > 0 {
		n := 1024
		if len(p) < n {
			n = len(p)
		}
		out = append(out, p[:n])
		p = p[n:]
	}
	return out
}

// drains the decrypter on a stream: calls Decrypt until error or the stream is empty.
// returns everything released, and the first error
func zzDrain(c *secureSession, stream []byte) (released []byte, err error) {
	r := bytes.NewReader(stream)
	for i := 0; i < 100; i++ {
		before := r.Len()
		out, e := c.Decrypt(r)
		if e != nil {
			if out != nil {
				b, _ := ioutil.ReadAll(out)
				if len(b) > 0 {
					released = append(released, b...)
				}
			}
			return released, e
		}
		b, _ := ioutil.ReadAll(out)
		released = append(released, b...)
		if r.Len() == 0 {
			return released, nil
		}
		if r.Len() == before {
			return released, errors.New("no progress")
		}
	}
	return released, errors.New("too many")
}

// is released a prefix of plain at frame granularity, given frame plaintexts?
func zzIsFramePrefix(released []byte, chunks [][]byte) (int, bool) {
	off := 0
	for i := 0; ; i++ {
		if off == len(released) {
			return i, true
		}
		if i >= len(chunks) {
			return i, false
		}
		c := chunks[i]
		if off+len(c) > len(released) || !bytes.Equal(released[off:off+len(c)], c) {
			return i, false
		}
		off += len(c)
	}
}

// P1: every single bit flip, sizes 0..several frames
func TestZZHuntBitFlips(t *testing.T) {
	for _, size := range []int{1, 3, 1023, 1024, 1025, 2048, 2049} {
		for _, ctr := range []uint64{0, 1, 255, 256, 1 << 32, ^uint64(0) - 5} {
			srv, _ := zzPair(t, 1)
			srv.encryptCount = ctr
			plain := zzPlain(size, 9)
			stream := zzEnc(t, srv, plain)
			chunks := zzChunks(plain)
			frames := zzFrames(stream)
			step := 1
			if size > 1025 {
				step = 7 // bounded
			}
			for bit := 0; bit < len(stream)*8; bit += step {
				_, cli := zzPair(t, 1)
				cli.decryptCount = ctr
				mod := append([]byte{}, stream...)
				mod[bit/8] ^= 1 << uint(bit%8)
				// which frame is altered
				fi, off := 0, 0
				for i, f := range frames {
					if bit/8 < off+len(f) {
						fi = i
						break
					}
					off += len(f)
				}
				released, err := zzDrain(cli, mod)
				if err == nil {
					t.Fatalf("size %d ctr %d bit %d: no error; released %d bytes", size, ctr, bit, len(released))
				}
				n, ok := zzIsFramePrefix(released, chunks)
				if !ok {
					t.Fatalf("size %d ctr %d bit %d: released is not a frame prefix", size, ctr, bit)
				}
				if n > fi {
					t.Fatalf("size %d ctr %d bit %d: released %d frames but frame %d altered", size, ctr, bit, n, fi)
				}
				// after the error: nothing any more
				out, err2 := cli.Decrypt(bytes.NewReader(stream))
				if err2 == nil {
					b, _ := ioutil.ReadAll(out)
					if len(b) > 0 {
						t.Fatalf("size %d bit %d: after error Decrypt released %d bytes", size, bit, len(b))
					}
				}
			}
		}
	}
}

func zzPerms(n int, k int) [][]int {
	// all sequences of length 0..k over 0..n-1
	var out [][]int
	var rec func(cur []int)
	rec = func(cur []int) {
		out = append(out, append([]int{}, cur...))
		if len(cur) == k {
			return
		}
		for i := 0; i < n; i++ {
			rec(append(cur, i))
		}
	}
	rec(nil)
	return out
}

// P2/P3: every sequence (permutation, duplication, deletion) of frames, short-frame messages and full-frame messages
func TestZZHuntFrameSequences(t *testing.T) {
	for _, shape := range [][]int{{5, 6, 7, 8}, {1024, 1024, 3}, {1024, 5, 1024, 1024}, {2048, 1, 1024}, {2053, 1024 + 1024}} {
		srv, _ := zzPair(t, 3)
		var frames [][]byte
		var chunks [][]byte
		for i, sz := range shape {
			p := zzPlain(sz, byte(i+1))
			st := zzEnc(t, srv, p)
			frames = append(frames, zzFrames(st)...)
			chunks = append(chunks, zzChunks(p)...)
		}
		nf := len(frames)
		for _, seq := range zzPerms(nf, 4) {
			_, cli := zzPair(t, 3)
			var stream []byte
			for _, i := range seq {
				stream = append(stream, frames[i]...)
			}
			// honest prefix length
			honest := 0
			for honest < len(seq) && seq[honest] == honest {
				honest++
			}
			released, err := zzDrain(cli, stream)
			n, ok := zzIsFramePrefix(released, chunks)
			if !ok {
				t.Fatalf("shape %v seq %v: released is not a prefix of what was sent", shape, seq)
			}
			if n > honest {
				t.Fatalf("shape %v seq %v: released %d frames, honest prefix %d", shape, seq, n, honest)
			}
			if honest < len(seq) && err == nil {
				t.Fatalf("shape %v seq %v: no error although frame %d is out of place (released %d frames)", shape, seq, honest, n)
			}
			if honest == len(seq) && (err != nil || n != honest) {
				t.Fatalf("shape %v seq %v: honest stream: err %v released %d frames", shape, seq, err, n)
			}
		}
	}
}

// P4: truncation at every byte
func TestZZHuntTruncation(t *testing.T) {
	for _, size := range []int{0, 1, 5, 1024, 1030, 2048, 2050} {
		srv, _ := zzPair(t, 4)
		plain := zzPlain(size, 1)
		stream := zzEnc(t, srv, plain)
		chunks := zzChunks(plain)
		frames := zzFrames(stream)
		for cut := 0; cut <= len(stream); cut++ {
			_, cli := zzPair(t, 4)
			released, err := zzDrain(cli, stream[:cut])
			n, ok := zzIsFramePrefix(released, chunks)
			if !ok {
				t.Fatalf("size %d cut %d: not a prefix", size, cut)
			}
			// complete frames in the cut
			complete, off := 0, 0
			for _, f := range frames {
				if off+len(f) <= cut {
					complete++
					off += len(f)
				}
			}
			if n > complete {
				t.Fatalf("size %d cut %d: released %d frames of %d complete", size, cut, n, complete)
			}
			if off != cut && err == nil {
				t.Fatalf("size %d cut %d: cut inside a frame but no error", size, cut)
			}
		}
	}
}

// P5/P6: reflection and cross-session
func TestZZHuntReflectionCrossSession(t *testing.T) {
	srv, cli := zzPair(t, 5)
	st := zzEnc(t, srv, zzPlain(10, 1))
	if out, err := srv.Decrypt(bytes.NewReader(st)); err == nil {
		b, _ := ioutil.ReadAll(out)
		t.Fatalf("reflection accepted: %x", b)
	}
	_, cli2 := zzPair(t, 6)
	if out, err := cli2.Decrypt(bytes.NewReader(st)); err == nil {
		b, _ := ioutil.ReadAll(out)
		t.Fatalf("cross-session accepted: %x", b)
	}
	st2 := zzEnc(t, cli, zzPlain(10, 1))
	if out, err := cli.Decrypt(bytes.NewReader(st2)); err == nil {
		b, _ := ioutil.ReadAll(out)
		t.Fatalf("client reflection accepted: %x", b)
	}
	if srv.encryptKey == srv.decryptKey {
		t.Fatal("keys equal")
	}
	// all-zero shared key
	var z [32]byte
	a, _ := NewSecureSessionFromSharedKey(z)
	if a.(*secureSession).encryptKey == a.(*secureSession).decryptKey {
		t.Fatal("keys equal for zero key")
	}
}

type zzFaultReader struct {
	data  []byte
	pos   int
	fault map[int]bool // positions at which the next Read returns an error (once)
}

type zzTimeout struct{}

func (zzTimeout) Error() string   { return "i/o timeout" }
func (zzTimeout) Timeout() bool   { return true }
func (zzTimeout) Temporary() bool { return true }

func (r *zzFaultReader) Read(p []byte) (int, error) {
	if r.fault[r.pos] {
		delete(r.fault, r.pos)
		return 0, zzTimeout{}
	}
	if r.pos >= len(r.data) {
		return 0, io.EOF
	}
	n := 0
	for n < len(p) && r.pos < len(r.data) {
		p[n] = r.data[r.pos]
		n++
		r.pos++
		if r.fault[r.pos] {
			break
		}
	}
	return n, nil
}

// P8: a transient read error at every position (one and two), the caller calls Decrypt again
func TestZZHuntFaultSequences(t *testing.T) {
	for _, shape := range [][]int{{5, 6}, {1024, 3}, {1024, 1024, 2}, {2048}, {1030, 1024}} {
		srv, _ := zzPair(t, 8)
		var stream []byte
		var chunks [][]byte
		for i, sz := range shape {
			p := zzPlain(sz, byte(i+1))
			stream = append(stream, zzEnc(t, srv, p)...)
			chunks = append(chunks, zzChunks(p)...)
		}
		total := 0
		for _, c := range chunks {
			total += len(c)
		}
		bounds := map[int]bool{0: true}
		off := 0
		for _, f := range zzFrames(stream) {
			off += len(f)
			bounds[off] = true
		}
		for p1 := 0; p1 <= len(stream); p1++ {
			step := 1
			if len(stream) > 1200 {
				step = 97
			}
			for p2 := p1; p2 <= len(stream); p2 += step {
				_, cli := zzPair(t, 8)
				r := &zzFaultReader{data: stream, fault: map[int]bool{p1: true, p2: true}}
				var released []byte
				var firstErr error
				sawFinal := false
				for i := 0; i < 20; i++ {
					out, err := cli.Decrypt(r)
					if err != nil {
						if firstErr == nil {
							firstErr = err
						}
						if out != nil {
							t.Fatal("out and err")
						}
						if cli.decryptErr != nil {
							sawFinal = true
							break
						}
						continue
					}
					b, _ := ioutil.ReadAll(out)
					released = append(released, b...)
					if r.pos >= len(stream) && len(r.fault) == 0 {
						break
					}
				}
				n, ok := zzIsFramePrefix(released, chunks)
				if !ok {
					t.Fatalf("shape %v faults %d,%d: released %d bytes is not a frame prefix (n=%d)", shape, p1, p2, len(released), n)
				}
				if !sawFinal && bounds[p1] && bounds[p2] && len(released) != total {
					t.Fatalf("shape %v faults %d,%d (frame boundaries): released %d of %d, err %v", shape, p1, p2, len(released), total, firstErr)
				}
			}
			if len(stream) > 1200 && p1%53 != 0 && !bounds[p1+1] && !bounds[p1] {
				p1 += 52 - p1%53
			}
		}
	}
}

// P7: wrong counter, counter near wrap, after error a valid frame is not accepted
func TestZZHuntCounter(t *testing.T) {
	srv, cli := zzPair(t, 9)
	f0 := zzEnc(t, srv, []byte("zero"))
	f1 := zzEnc(t, srv, []byte("one"))
	// f1 first
	if _, err := cli.Decrypt(bytes.NewReader(f1)); err == nil {
		t.Fatal("frame 1 accepted as frame 0")
	}
	if out, err := cli.Decrypt(bytes.NewReader(f0)); err == nil {
		b, _ := ioutil.ReadAll(out)
		t.Fatalf("after an error frame 0 accepted: %q", b)
	}
	fmt.Sprint(f0)
}

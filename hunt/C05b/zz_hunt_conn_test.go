package hap

import (
	"bytes"
	"io/ioutil"
	"net"
	"sync"
	"testing"
	"time"

	"github.com/brutella/hc/crypto"
)

func zzCtx() Context {
	return &context{storage: map[interface{}]interface{}{}, mutex: &sync.Mutex{}}
}

func zzKey(seed byte) [32]byte {
	var k [32]byte
	for i := range k {
		k[i] = seed + byte(i)*3
	}
	return k
}

func zzPlain(n int, seed byte) []byte {
	b := make([]byte, n)
	for i := range b {
		b[i] = byte(i*13) ^ seed
	}
	return b
}

func zzFrames(b []byte) [][]byte {
	var out [][]byte
	for len(b) > 0 {
		l := int(b[0]) | int(b[1])<<8
		n := 2 + l + 16
		out = append(out, b[:n])
		b = b[n:]
	}
	return out
}

func zzChunks(p []byte) [][]byte {
	var out [][]byte
	for len(p) > 0 {
		n := 1024
		if len(p) < n {
			n = len(p)
		}
		out = append(out, p[:n])
		p = p[n:]
	}
	return out
}

type zzLink struct {
	ln      net.Listener
	raw     net.Conn // adversary / peer side
	con     *Connection
	ctx     Context
	cliSess crypto.Cryptographer
}

func zzNewLink(t *testing.T, seed byte) *zzLink {
	ln, err := net.Listen("tcp", "127.0.0.1:0")
	if err != nil {
		t.Fatal(err)
	}
	raw, err := net.Dial("tcp", ln.Addr().String())
	if err != nil {
		t.Fatal(err)
	}
	srvRaw, err := ln.Accept()
	if err != nil {
		t.Fatal(err)
	}
	ctx := zzCtx()
	con := NewConnection(srvRaw, ctx)
	srv, _ := crypto.NewSecureSessionFromSharedKey(zzKey(seed))
	cli, _ := crypto.NewSecureClientSessionFromSharedKey(zzKey(seed))
	ctx.GetSessionForConnection(srvRaw).SetCryptographer(srv)
	return &zzLink{ln: ln, raw: raw, con: con, ctx: ctx, cliSess: cli}
}

func (l *zzLink) close() {
	l.raw.Close()
	l.con.Close()
	l.ln.Close()
}

func (l *zzLink) enc(t *testing.T, p []byte) []byte {
	r, err := l.cliSess.Encrypt(bytes.NewReader(p))
	if err != nil {
		t.Fatal(err)
	}
	b, _ := ioutil.ReadAll(r)
	return b
}

// reads from the connection until `idle` consecutive timeouts / errors; keeps reading after errors
// returns what was released, the index (in released bytes) at which the first non-timeout error was seen (-1: none)
func (l *zzLink) readAll(bufSize int, wait time.Duration, tries int) (released []byte, errAt int, firstErr error) {
	errAt = -1
	buf := make([]byte, bufSize)
	idle := 0
	for idle < tries {
		l.con.SetReadDeadline(time.Now().Add(wait))
		n, err := l.con.Read(buf)
		if n > 0 {
			released = append(released, buf[:n]...)
			idle = 0
		}
		if err != nil {
			if ne, ok := err.(net.Error); ok && ne.Timeout() {
				idle++
				continue
			}
			if errAt < 0 {
				errAt = len(released)
				firstErr = err
			}
			idle++
		} else if n == 0 {
			idle++
		}
	}
	return
}

func zzIsFramePrefix(released []byte, chunks [][]byte) (int, bool) {
	off := 0
	for i := 0; ; i++ {
		if off == len(released) {
			return i, true
		}
		if i >= len(chunks) {
			return i, false
		}
		c := chunks[i]
		if off+len(c) > len(released) || !bytes.Equal(released[off:off+len(c)], c) {
			return i, false
		}
		off += len(c)
	}
}

func zzSeqs(n, k int) [][]int {
	var out [][]int
	var rec func(cur []int)
	rec = func(cur []int) {
		out = append(out, append([]int{}, cur...))
		if len(cur) == k {
			return
		}
		for i := 0; i < n; i++ {
			rec(append(cur, i))
		}
	}
	rec(nil)
	return out
}

// C1: every sequence of up to 3 frames out of 3..4, through Connection.Read, several buffer sizes
func TestZZHuntConnFrameSequences(t *testing.T) {
	for _, shape := range [][]int{{5, 6, 7}, {1024, 1024, 3}, {1024, 2, 1024}} {
		for _, bs := range []int{1, 700, 4096} {
			if bs == 1 && shape[0] == 1024 {
				bs = 333
			}
			for _, seq := range zzSeqs(len(shape)+0, 3) {
				l := zzNewLink(t, 1)
				var frames, chunks [][]byte
				for i, sz := range shape {
					p := zzPlain(sz, byte(i+1))
					frames = append(frames, zzFrames(l.enc(t, p))...)
					chunks = append(chunks, zzChunks(p)...)
				}
				var stream []byte
				for _, i := range seq {
					stream = append(stream, frames[i]...)
				}
				honest := 0
				for honest < len(seq) && seq[honest] == honest {
					honest++
				}
				l.raw.Write(stream)
				released, errAt, err := l.readAll(bs, 20*time.Millisecond, 3)
				n, ok := zzIsFramePrefix(released, chunks)
				if !ok || n > honest {
					t.Fatalf("shape %v seq %v bs %d: released %d bytes = %d frames (prefix %v), honest prefix %d", shape, seq, bs, len(released), n, ok, honest)
				}
				if honest < len(seq) {
					if err == nil {
						t.Fatalf("shape %v seq %v bs %d: no error", shape, seq, bs)
					}
					if errAt != len(released) {
						t.Fatalf("shape %v seq %v: released bytes after the error (%d, %d)", shape, seq, errAt, len(released))
					}
				} else if n != honest || err != nil {
					t.Fatalf("shape %v seq %v bs %d: honest stream: %d frames, err %v", shape, seq, bs, n, err)
				}
				l.close()
			}
		}
	}
}

// C2: every bit flip of the length field and a sample of the others of the 2nd frame of 3; valid frames follow
func TestZZHuntConnBitFlips(t *testing.T) {
	for _, shape := range [][]int{{5, 6, 7}, {1024, 1024, 9}} {
		l0 := zzNewLink(t, 2)
		l0.close()
		var bits []int
		for b := 0; b < 16; b++ {
			bits = append(bits, b)
		}
		for b := 16; b < (2+shape[1]+16)*8; b += 37 {
			bits = append(bits, b)
		}
		for b := (2 + shape[1]) * 8; b < (2+shape[1]+16)*8; b += 5 {
			bits = append(bits, b)
		}
		for _, target := range []int{0, 1, 2} {
			for _, bit := range bits {
				l := zzNewLink(t, 2)
				var frames, chunks [][]byte
				for i, sz := range shape {
					p := zzPlain(sz, byte(i+1))
					frames = append(frames, zzFrames(l.enc(t, p))...)
					chunks = append(chunks, zzChunks(p)...)
				}
				if bit >= len(frames[target])*8 {
					l.close()
					continue
				}
				// more valid traffic afterwards (so that a longer length can be filled)
				for i := 0; i < 6; i++ {
					p := zzPlain(1000, byte(i+10))
					frames = append(frames, zzFrames(l.enc(t, p))...)
					chunks = append(chunks, zzChunks(p)...)
				}
				var stream []byte
				for i, f := range frames {
					f = append([]byte{}, f...)
					if i == target {
						f[bit/8] ^= 1 << uint(bit%8)
					}
					stream = append(stream, f...)
				}
				l.raw.Write(stream)
				released, errAt, err := l.readAll(512, 20*time.Millisecond, 3)
				n, ok := zzIsFramePrefix(released, chunks)
				if !ok || n > target {
					t.Fatalf("shape %v target %d bit %d: released %d bytes = %d frames (prefix %v)", shape, target, bit, len(released), n, ok)
				}
				if err == nil {
					t.Fatalf("shape %v target %d bit %d: no error (released %d frames)", shape, target, bit, n)
				}
				if errAt != len(released) {
					t.Fatalf("released after error")
				}
				l.close()
			}
		}
	}
}

// C3: the stream arrives in two or three pieces with read time-outs in between (every cut position
// for small frames); then one altered frame. Honest part has to be released completely, nothing else.
func TestZZHuntConnPiecesAndTimeouts(t *testing.T) {
	shape := []int{5, 1024, 6}
	for cut1 := 0; cut1 < 1100; cut1 += 13 {
		for _, d := range []int{1, 2, 17, 30} {
			cut2 := cut1 + d
			l := zzNewLink(t, 3)
			var frames, chunks [][]byte
			for i, sz := range shape {
				p := zzPlain(sz, byte(i+1))
				frames = append(frames, zzFrames(l.enc(t, p))...)
				chunks = append(chunks, zzChunks(p)...)
			}
			var stream []byte
			for _, f := range frames {
				stream = append(stream, f...)
			}
			// replay of frame 0 at the end
			stream = append(stream, frames[0]...)
			if cut2 > len(stream) {
				cut2 = len(stream)
			}
			var released []byte
			var firstErr error
			read := func() {
				r, _, err := l.readAll(300, 15*time.Millisecond, 2)
				released = append(released, r...)
				if err != nil && firstErr == nil {
					firstErr = err
				}
			}
			l.raw.Write(stream[:cut1])
			read()
			l.raw.Write(stream[cut1:cut2])
			read()
			l.raw.Write(stream[cut2:])
			read()
			n, ok := zzIsFramePrefix(released, chunks)
			if !ok || n != 3 {
				t.Fatalf("cuts %d,%d: released %d bytes = %d frames (prefix %v) err %v", cut1, cut2, len(released), n, ok, firstErr)
			}
			if firstErr == nil {
				t.Fatalf("cuts %d,%d: replayed frame: no error", cut1, cut2)
			}
			l.close()
		}
	}
}

// C4: truncation (connection closed by the adversary) at every byte of a small stream
func TestZZHuntConnTruncation(t *testing.T) {
	shape := []int{5, 6}
	for cut := 0; cut <= 2*18+11; cut++ {
		l := zzNewLink(t, 4)
		var frames, chunks [][]byte
		for i, sz := range shape {
			p := zzPlain(sz, byte(i+1))
			frames = append(frames, zzFrames(l.enc(t, p))...)
			chunks = append(chunks, zzChunks(p)...)
		}
		var stream []byte
		for _, f := range frames {
			stream = append(stream, f...)
		}
		l.raw.Write(stream[:cut])
		l.raw.Close()
		released, _, err := l.readAll(300, 15*time.Millisecond, 2)
		n, ok := zzIsFramePrefix(released, chunks)
		complete := 0
		if cut >= len(frames[0]) {
			complete++
		}
		if cut >= len(stream) {
			complete++
		}
		if !ok || n != complete {
			t.Fatalf("cut %d: released %d frames, complete %d", cut, n, complete)
		}
		if err == nil {
			t.Fatalf("cut %d: no error at all", cut)
		}
		l.close()
	}
}

// C5: the accessory's own frames reflected, and frames of another session (same peer, other key)
func TestZZHuntConnReflection(t *testing.T) {
	l := zzNewLink(t, 5)
	defer l.close()
	// make the session take the cryptographer
	f0 := l.enc(t, []byte("hello"))
	l.raw.Write(f0)
	rel, _, err := l.readAll(100, 15*time.Millisecond, 2)
	if string(rel) != "hello" || err != nil {
		t.Fatal(string(rel), err)
	}
	go l.con.Write([]byte("from the accessory"))
	buf := make([]byte, 200)
	l.raw.SetReadDeadline(time.Now().Add(time.Second))
	n, _ := l.raw.Read(buf)
	if n != 2+18+16 {
		t.Fatal(n)
	}
	l.raw.Write(buf[:n])
	l.raw.Write(l.enc(t, []byte("second")))
	rel, _, err = l.readAll(100, 15*time.Millisecond, 2)
	if len(rel) != 0 || err == nil {
		t.Fatalf("reflected frame: released %q err %v", rel, err)
	}
}

// C6: after a re-key on the same connection (second pair-verify) frames of the old key are replayed
func TestZZHuntConnReplayAfterRekey(t *testing.T) {
	l := zzNewLink(t, 6)
	defer l.close()
	old0 := l.enc(t, []byte("old-0"))
	l.raw.Write(old0)
	rel, _, err := l.readAll(100, 15*time.Millisecond, 2)
	if string(rel) != "old-0" || err != nil {
		t.Fatal(string(rel), err)
	}
	srv, _ := crypto.NewSecureSessionFromSharedKey(zzKey(77))
	l.ctx.GetSessionForConnection(l.con.connection).SetCryptographer(srv)
	l.raw.Write(old0)
	rel, _, err = l.readAll(100, 15*time.Millisecond, 2)
	if len(rel) != 0 || err == nil {
		t.Fatalf("old frame accepted after re-key: %q %v", rel, err)
	}
}

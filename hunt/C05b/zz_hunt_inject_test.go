package http

import (
	"bufio"
	"bytes"
	"context"
	"fmt"
	"io/ioutil"
	"net"
	"net/http"
	"sync"
	"testing"
	"time"

	"github.com/brutella/hc/accessory"
	"github.com/brutella/hc/db"
	"github.com/brutella/hc/event"
	"github.com/brutella/hc/hap"
	"github.com/brutella/hc/hap/pair"
	"github.com/brutella/hc/util"
)

type zzEnv struct {
	srv      *Server
	sw       *accessory.Switch
	clientC  *pair.VerifyClientController
	cancel   func()
	remoteOn chan bool
}

func zzSetup(t *testing.T) *zzEnv {
	storage, err := util.NewTempFileStorage()
	if err != nil {
		t.Fatal(err)
	}
	database := db.NewDatabaseWithStorage(storage)
	bridge, err := hap.NewSecuredDevice("Bridge", "001-02-003", database)
	if err != nil {
		t.Fatal(err)
	}
	hctx := hap.NewContextForSecuredDevice(bridge)

	clientDatabase, _ := db.NewTempDatabase()
	if err := clientDatabase.SaveEntity(db.NewEntity(bridge.Name(), bridge.PublicKey(), nil)); err != nil {
		t.Fatal(err)
	}
	client, _ := hap.NewDevice("Controller", clientDatabase)
	if err := database.SaveEntity(db.NewEntity(client.Name(), client.PublicKey(), nil)); err != nil {
		t.Fatal(err)
	}

	sw := accessory.NewSwitch(accessory.Info{Name: "Lock"})
	container := accessory.NewContainer()
	if err := container.AddAccessory(sw.Accessory); err != nil {
		t.Fatal(err)
	}
	remoteOn := make(chan bool, 10)
	sw.Switch.On.OnValueRemoteUpdate(func(on bool) { remoteOn <- on })

	s := NewServer(Config{
		Port:      "127.0.0.1:0",
		Context:   hctx,
		Database:  database,
		Container: container,
		Device:    bridge,
		Mutex:     &sync.Mutex{},
		Emitter:   event.NewEmitter(),
	})
	ctx, cancel := context.WithCancel(context.Background())
	go s.listenAndServe("", s.Mux, hctx)
	go func() { <-ctx.Done(); s.listener.Close() }()

	return &zzEnv{srv: s, sw: sw, clientC: pair.NewVerifyClientController(client, clientDatabase), cancel: cancel, remoteOn: remoteOn}
}

func zzPost(path string, ctype string, body []byte) []byte {
	var b bytes.Buffer
	fmt.Fprintf(&b, "POST %s HTTP/1.1\r\nHost: acc\r\nContent-Type: %s\r\nContent-Length: %d\r\n\r\n", path, ctype, len(body))
	b.Write(body)
	return b.Bytes()
}

func zzPut(path string, body []byte) []byte {
	var b bytes.Buffer
	fmt.Fprintf(&b, "PUT %s HTTP/1.1\r\nHost: acc\r\nContent-Type: application/hap+json\r\nContent-Length: %d\r\n\r\n", path, len(body))
	b.Write(body)
	return b.Bytes()
}

// The honest controller sends M1, waits for M2, sends M3 and from then on only encrypted frames.
// The on-path adversary appends two cleartext requests right behind the M3 request, i.e. at the very
// beginning of the controller's encrypted stream. The accessory must not hand these bytes to the
// HTTP layer of the verified session: they were never sent by the peer.
func TestZZHuntCleartextInjectedAtStartOfEncryptedStream(t *testing.T) {
	env := zzSetup(t)
	defer env.cancel()

	addr := env.srv.listener.Addr().String()
	c, err := net.Dial("tcp", addr)
	if err != nil {
		t.Fatal(err)
	}
	defer c.Close()
	br := bufio.NewReader(c)

	put := zzPut("/characteristics", []byte(fmt.Sprintf(`{"characteristics":[{"aid":%d,"iid":%d,"value":true}]}`, env.sw.ID, env.sw.Switch.On.ID)))

	// control: the same request on a connection that is not verified is refused
	{
		c0, err := net.Dial("tcp", addr)
		if err != nil {
			t.Fatal(err)
		}
		c0.Write(put)
		c0.SetReadDeadline(time.Now().Add(2 * time.Second))
		resp, err := http.ReadResponse(bufio.NewReader(c0), nil)
		if err != nil {
			t.Fatal(err)
		}
		if resp.StatusCode != 470 {
			t.Fatalf("control: unverified PUT got status %d", resp.StatusCode)
		}
		c0.Close()
		if env.sw.Switch.On.GetValue() {
			t.Fatal("control: value changed by unverified request")
		}
	}

	// M1
	m1, _ := ioutil.ReadAll(env.clientC.InitialKeyVerifyRequest())
	c.Write(zzPost("/pair-verify", hap.HTTPContentTypePairingTLV8, m1))
	c.SetReadDeadline(time.Now().Add(2 * time.Second))
	resp, err := http.ReadResponse(br, nil)
	if err != nil {
		t.Fatal(err)
	}
	m2, _ := ioutil.ReadAll(resp.Body)
	resp.Body.Close()

	// M3 of the honest controller
	m3c, err := pair.HandleReaderForHandler(bytes.NewReader(m2), env.clientC)
	if err != nil {
		t.Fatal(err)
	}
	m3, _ := ioutil.ReadAll(m3c)
	honest := zzPost("/pair-verify", hap.HTTPContentTypePairingTLV8, m3)

	// adversary: appends cleartext behind the unmodified M3 request (same segment)
	injected := append([]byte("GET /accessories HTTP/1.1\r\nHost: acc\r\n\r\n"), put...)
	c.Write(append(append([]byte{}, honest...), injected...))

	// M4 arrives in clear text and reports success
	c.SetReadDeadline(time.Now().Add(2 * time.Second))
	resp, err = http.ReadResponse(br, nil)
	if err != nil {
		t.Fatal(err)
	}
	m4, _ := ioutil.ReadAll(resp.Body)
	resp.Body.Close()
	m4c, err := util.NewTLV8ContainerFromReader(bytes.NewReader(m4))
	if err != nil {
		t.Fatal(err)
	}
	if m4c.GetByte(pair.TagSequence) != pair.VerifyStepFinishResponse.Byte() || m4c.GetByte(pair.TagErrCode) != pair.ErrCodeNo.Byte() {
		t.Fatalf("pair-verify did not succeed: %x", m4)
	}

	// From here on the honest controller has sent NOTHING. Was anything executed?
	select {
	case on := <-env.remoteOn:
		t.Fatalf("VIOLATION: the accessory executed a cleartext request which the verified controller never sent (remote update On=%v, value now %v)", on, env.sw.Switch.On.GetValue())
	case <-time.After(1 * time.Second):
	}
	if env.sw.Switch.On.GetValue() {
		t.Fatal("VIOLATION: value changed")
	}
}

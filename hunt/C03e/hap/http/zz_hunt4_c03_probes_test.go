package http_test

import (
	"bytes"
	"crypto/ed25519"
	"fmt"
	"testing"

	"github.com/brutella/hc/db"
)

// DEMONSTRATION (borderline, needs the accessory's own private key).
// Clause: "Any other outcome (unknown name, ... naming ... the accessory itself) is answered with an
// error and does not verify the connection"; "the long-term key stored for the claimed CONTROLLER name".
// The finish names the accessory itself and is signed with the accessory's own long-term key: the
// entity of the accessory is stored in the same database as the controllers, EntityWithName finds it,
// and the connection is verified although no such controller is in the pairing set (it is not listed
// by /pairings, not counted by isPaired, and cannot be removed through /pairings).
func TestZZHunt4C03ProbeSelfNameOwnKey(t *testing.T) {
	e := h4newEnv(t, "ctrl-A")
	p := e.dial()
	resp, out, err := p.start(nil, -1)
	if err != nil || resp.StatusCode != 200 {
		t.Fatal(err, resp)
	}
	p.accepted(nil, out)
	an := e.device.Name()
	sig := ed25519.Sign(ed25519.PrivateKey(e.device.PrivateKey()), p.material(an))
	resp, out, err = p.finishRaw(h4sealed(p.encKey, "PV-Msg03", an, sig))
	if err != nil {
		// the answer is not plain text: the connection was verified and the (known) hand-over race encrypted M4
		t.Fatalf("finish naming the accessory itself verified the connection (answer already encrypted): %v", err)
	}
	t.Logf("status %d err code %d", resp.StatusCode, out.GetByte(0x07))
	if resp.StatusCode == 200 && out.GetByte(0x07) == 0 {
		if err := p.probeVerified(); err == nil {
			t.Errorf("finish naming the accessory itself: answered without error, and GET /accessories is served (200) under the keys of this exchange")
		}
		return
	}
	if err := p.probeUnverified(); err != nil {
		t.Errorf("finish naming the accessory itself verified the connection: %v", err)
	}
}

// Probe: start on one connection, finish on another one (same address).
func TestZZHunt4C03ProbeCrossConnection(t *testing.T) {
	e := h4newEnv(t, "ctrl-A")
	p1 := e.dial()
	p2 := e.dial()
	resp, out, err := p1.start(nil, -1)
	if err != nil || resp.StatusCode != 200 {
		t.Fatal(err, resp)
	}
	p1.accepted(nil, out)
	p2.pub, p2.priv, p2.accPub, p2.shared, p2.encKey = p1.pub, p1.priv, p1.accPub, p1.shared, p1.encKey
	resp, out, err = p2.finishRaw(p1.genuine(e.ctrls[0]))
	if err != nil {
		t.Fatal(err)
	}
	if resp.StatusCode == 200 && out.GetByte(0x07) == 0 {
		t.Errorf("finish on another connection accepted")
	}
	if err := p2.probeUnverified(); err != nil {
		t.Error(err)
	}
	// the first is still open and can finish
	resp, out, err = p1.finishRaw(p1.genuine(e.ctrls[0]))
	if err != nil {
		t.Skip("known race", err)
	}
	if err := p1.probeVerified(); err != nil {
		t.Error(err)
	}
}

// Probe: HTTP-level variants of the finish request.
func TestZZHunt4C03ProbeHTTPVariants(t *testing.T) {
	e := h4newEnv(t, "ctrl-A")
	type variant struct {
		name string
		mk   func(body []byte) []byte
	}
	chunked := func(body []byte) []byte {
		var b bytes.Buffer
		fmt.Fprintf(&b, "POST /pair-verify HTTP/1.1\r\nHost: x\r\nTransfer-Encoding: chunked\r\n\r\n")
		for i := 0; i < len(body); i += 7 {
			j := i + 7
			if j > len(body) {
				j = len(body)
			}
			fmt.Fprintf(&b, "%x\r\n", j-i)
			b.Write(body[i:j])
			b.WriteString("\r\n")
		}
		b.WriteString("0\r\n\r\n")
		return b.Bytes()
	}
	vs := []variant{
		{"chunked", chunked},
		{"get", func(body []byte) []byte {
			return []byte(fmt.Sprintf("GET /pair-verify HTTP/1.1\r\nHost: x\r\nContent-Length: %d\r\n\r\n%s", len(body), body))
		}},
		{"query", func(body []byte) []byte {
			return []byte(fmt.Sprintf("POST /pair-verify?a=b HTTP/1.1\r\nHost: x\r\nContent-Length: %d\r\n\r\n%s", len(body), body))
		}},
		{"http10-keepalive", func(body []byte) []byte {
			return []byte(fmt.Sprintf("POST /pair-verify HTTP/1.0\r\nConnection: keep-alive\r\nContent-Length: %d\r\n\r\n%s", len(body), body))
		}},
	}
	for _, v := range vs {
		for _, good := range []bool{false, true} {
			p := e.dial()
			resp, out, err := p.start(nil, -1)
			if err != nil || resp.StatusCode != 200 {
				t.Fatal(err, resp)
			}
			p.accepted(nil, out)
			c := e.ctrls[0]
			var d []byte
			if good {
				d = p.genuine(c)
			} else {
				d = h4sealed(p.encKey, "PV-Msg03", c.name, ed25519.Sign(e.stranger.priv, p.material(c.name)))
			}
			body := append([]byte{0x06, 1, 3, 0x05, byte(len(d))}, d...)
			resp, rb, err := p.plain(v.mk(body))
			if err != nil {
				t.Logf("%s good=%v: %v (known race if good)", v.name, good, err)
				continue
			}
			t.Logf("%s good=%v: %d %x", v.name, good, resp.StatusCode, rb)
			if good {
				if err := p.probeVerified(); err != nil {
					t.Errorf("%s: %v", v.name, err)
				}
			} else {
				if err := p.probeUnverified(); err != nil {
					t.Errorf("%s: %v", v.name, err)
				}
			}
			p.conn.Close()
		}
	}
}

// Probe: the pairing is removed / replaced between start and finish.
func TestZZHunt4C03ProbePairingChangedInBetween(t *testing.T) {
	e := h4newEnv(t, "ctrl-A")
	p := e.dial()
	resp, out, err := p.start(nil, -1)
	if err != nil || resp.StatusCode != 200 {
		t.Fatal(err, resp)
	}
	p.accepted(nil, out)
	other := h4newCtrl("ctrl-A")
	e.database.SaveEntity(db.NewEntity("ctrl-A", other.pub, nil))
	resp, out, err = p.finishRaw(p.genuine(e.ctrls[0])) // signed with the key that is not stored any more
	if err != nil {
		t.Fatal(err)
	}
	if err := p.probeUnverified(); err != nil {
		t.Error(err)
	}
}

// DEMONSTRATION (borderline: needs a pairing set that holds a degenerate key).
// Clause: "only when the finish message carries a valid Ed25519 signature, MADE WITH the long-term key
// stored for the claimed controller name"; quantifier: "for every stored pairing set", "signed by a wrong key".
// A stored pairing whose public key is a small-order point (the neutral element).
// Nobody holds a private key for it; the signature (R = neutral element, S = 0) fits any message.
func TestZZHunt4C03ProbeSmallOrderStoredKey(t *testing.T) {
	e := h4newEnv(t, "ctrl-A")
	neutral := make([]byte, 32)
	neutral[0] = 1
	e.database.SaveEntity(db.NewEntity("weak", neutral, nil))
	p := e.dial()
	resp, out, err := p.start(nil, -1)
	if err != nil || resp.StatusCode != 200 {
		t.Fatal(err, resp)
	}
	p.accepted(nil, out)
	sig := make([]byte, 64)
	sig[0] = 1
	resp, out, err = p.finishRaw(h4sealed(p.encKey, "PV-Msg03", "weak", sig))
	if err != nil {
		t.Fatalf("a constant signature verified the connection (answer already encrypted): %v", err)
	}
	t.Logf("status %d err code %d", resp.StatusCode, out.GetByte(0x07))
	if resp.StatusCode == 200 && out.GetByte(0x07) == 0 {
		if err := p.probeVerified(); err == nil {
			t.Errorf("constant signature (no private key involved): answered without error, and GET /accessories is served (200) under the keys of this exchange")
		}
		return
	}
	if err := p.probeUnverified(); err != nil {
		t.Errorf("a constant signature verified the connection: %v", err)
	}
}

package http_test

// Hunt 4, property C03: harness. A real server (hap/http.Server on loopback), a reference
// peer for pair-verify and a reference model of the verify step.

import (
	"bufio"
	"bytes"
	"context"
	"crypto/ed25519"
	"crypto/rand"
	"encoding/binary"
	"fmt"
	"io"
	"io/ioutil"
	mrand "math/rand"
	"net"
	nethttp "net/http"
	"os"
	"sync"
	"testing"
	"time"

	"github.com/brutella/hc/accessory"
	"github.com/brutella/hc/crypto"
	"github.com/brutella/hc/crypto/chacha20poly1305"
	"github.com/brutella/hc/crypto/hkdf"
	"github.com/brutella/hc/db"
	"github.com/brutella/hc/event"
	"github.com/brutella/hc/hap"
	hchttp "github.com/brutella/hc/hap/http"
	"github.com/brutella/hc/util"
	"golang.org/x/crypto/curve25519"
)

type h4ctrl struct {
	name string
	pub  ed25519.PublicKey
	priv ed25519.PrivateKey
}

type h4env struct {
	t        testing.TB
	addr     string
	database db.Database
	device   hap.SecuredDevice
	context  hap.Context
	cancel   context.CancelFunc
	ctrls    []h4ctrl
	stranger h4ctrl
}

func h4newCtrl(name string) h4ctrl {
	pub, priv, _ := ed25519.GenerateKey(rand.Reader)
	return h4ctrl{name, pub, priv}
}

func h4newEnv(t testing.TB, names ...string) *h4env {
	dir, err := ioutil.TempDir("", "h4c03")
	if err != nil {
		t.Fatal(err)
	}
	storage, err := util.NewFileStorage(dir)
	if err != nil {
		t.Fatal(err)
	}
	database := db.NewDatabaseWithStorage(storage)
	device, err := hap.NewSecuredDevice("AA:BB:CC:DD:EE:FF", "00102003", database)
	if err != nil {
		t.Fatal(err)
	}
	e := &h4env{t: t, database: database, device: device}
	for _, n := range names {
		c := h4newCtrl(n)
		if err := database.SaveEntity(db.NewEntity(c.name, c.pub, nil)); err != nil {
			t.Fatal(err)
		}
		e.ctrls = append(e.ctrls, c)
	}
	e.stranger = h4newCtrl("stranger")
	e.context = hap.NewContextForSecuredDevice(device)
	cont := accessory.NewContainer()
	a := accessory.New(accessory.Info{Name: "acc"}, accessory.TypeLightbulb)
	cont.AddAccessory(a)
	s := hchttp.NewServer(hchttp.Config{
		Port:      "127.0.0.1:0",
		Context:   e.context,
		Database:  database,
		Container: cont,
		Device:    device,
		Mutex:     &sync.Mutex{},
		Emitter:   event.NewEmitter(),
	})
	ctx, cancel := context.WithCancel(context.Background())
	e.cancel = cancel
	e.addr = "127.0.0.1:" + s.Port()
	go s.ListenAndServe(ctx)
	t.Cleanup(func() { cancel(); os.RemoveAll(dir) })
	return e
}

// peer is one TCP connection of a controller.
type h4peer struct {
	e    *h4env
	conn net.Conn
	br   *bufio.Reader

	// state of the exchange as the peer sees it
	priv, pub  [32]byte // ephemeral of the last start sent
	accPub     [32]byte
	shared     [32]byte
	encKey     [32]byte
	havePrev   bool
	prevPub    [32]byte
	prevAccPub [32]byte

	sec crypto.Cryptographer // set once the peer thinks it is verified
}

func (e *h4env) dial() *h4peer {
	c, err := net.Dial("tcp", e.addr)
	if err != nil {
		e.t.Fatal(err)
	}
	return &h4peer{e: e, conn: c, br: bufio.NewReader(c)}
}

func h4req(path string, body []byte) []byte {
	var b bytes.Buffer
	fmt.Fprintf(&b, "POST %s HTTP/1.1\r\nHost: x\r\nContent-Type: application/pairing+tlv8\r\nContent-Length: %d\r\n\r\n", path, len(body))
	b.Write(body)
	return b.Bytes()
}

// plain sends a request in plain text and reads a plain-text response. An
// error means: the bytes that came back are not an HTTP response.
func (p *h4peer) plain(raw []byte) (*nethttp.Response, []byte, error) {
	p.conn.SetDeadline(time.Now().Add(3 * time.Second))
	if _, err := p.conn.Write(raw); err != nil {
		return nil, nil, err
	}
	resp, err := nethttp.ReadResponse(p.br, nil)
	if err != nil {
		return nil, nil, err
	}
	body, err := ioutil.ReadAll(resp.Body)
	return resp, body, err
}

func (p *h4peer) tlv(c util.Container) (*nethttp.Response, util.Container, error) {
	resp, body, err := p.plain(h4req("/pair-verify", c.BytesBuffer().Bytes()))
	if err != nil {
		return nil, nil, err
	}
	out, err := util.NewTLV8ContainerFromReader(bytes.NewReader(body))
	return resp, out, err
}

// secured sends a request under the keys of p.sec and returns the decrypted response bytes.
func (p *h4peer) secured(raw []byte) ([]byte, error) {
	p.conn.SetDeadline(time.Now().Add(3 * time.Second))
	enc, err := p.sec.Encrypt(bytes.NewReader(raw))
	if err != nil {
		return nil, err
	}
	b, _ := ioutil.ReadAll(enc)
	if _, err := p.conn.Write(b); err != nil {
		return nil, err
	}
	var all bytes.Buffer
	for {
		var hdr [2]byte
		if _, err := io.ReadFull(p.br, hdr[:]); err != nil {
			return all.Bytes(), err
		}
		n := int(binary.LittleEndian.Uint16(hdr[:]))
		frame := make([]byte, 2+n+16)
		copy(frame, hdr[:])
		if _, err := io.ReadFull(p.br, frame[2:]); err != nil {
			return all.Bytes(), err
		}
		dec, err := p.sec.Decrypt(bytes.NewReader(frame))
		if err != nil {
			return all.Bytes(), err
		}
		d, _ := ioutil.ReadAll(dec)
		all.Write(d)
		if resp, err := nethttp.ReadResponse(bufio.NewReader(bytes.NewReader(all.Bytes())), nil); err == nil {
			if _, err := ioutil.ReadAll(resp.Body); err == nil {
				return all.Bytes(), nil
			}
		}
	}
}

// start sends a start request with the given public key bytes (any length). When key
// is nil a fresh ephemeral pair is made.
func (p *h4peer) start(key []byte, method int) (*nethttp.Response, util.Container, error) {
	if key == nil {
		rand.Read(p.priv[:])
		curve25519.ScalarBaseMult(&p.pub, &p.priv)
		key = p.pub[:]
	}
	c := util.NewTLV8Container()
	if method >= 0 {
		c.SetByte(0x00, byte(method))
	}
	c.SetByte(0x06, 1)
	c.SetBytes(0x03, key)
	return p.tlv(c)
}

// accepted records the server's answer to an accepted start.
func (p *h4peer) accepted(key []byte, out util.Container) {
	if p.accPub != ([32]byte{}) {
		p.havePrev = true
		p.prevAccPub = p.accPub
		p.prevPub = p.pub
	}
	copy(p.accPub[:], out.GetBytes(0x03))
	if key != nil {
		// a key we have no private key for: only the all-zero point gives a known secret
		copy(p.pub[:], key)
		p.shared = [32]byte{}
	} else {
		curve25519.ScalarMult(&p.shared, &p.priv, &p.accPub)
	}
	p.encKey, _ = hkdf.Sha512(p.shared[:], []byte("Pair-Verify-Encrypt-Salt"), []byte("Pair-Verify-Encrypt-Info"))
}

func h4sealed(key [32]byte, nonce string, name string, sig []byte) []byte {
	inner := util.NewTLV8Container()
	inner.SetString(0x01, name)
	inner.SetBytes(0x0A, sig)
	enc, mac, _ := chacha20poly1305.EncryptAndSeal(key[:], []byte(nonce), inner.BytesBuffer().Bytes(), nil)
	return append(enc, mac[:]...)
}

func (p *h4peer) finishRaw(data []byte) (*nethttp.Response, util.Container, error) {
	c := util.NewTLV8Container()
	c.SetByte(0x06, 3)
	c.SetBytes(0x05, data)
	return p.tlv(c)
}

func (p *h4peer) material(name string) []byte {
	var m []byte
	m = append(m, p.pub[:]...)
	m = append(m, name...)
	m = append(m, p.accPub[:]...)
	return m
}

func (p *h4peer) genuine(c h4ctrl) []byte {
	return h4sealed(p.encKey, "PV-Msg03", c.name, ed25519.Sign(c.priv, p.material(c.name)))
}

// probeUnverified: a plain-text request to a protected route must be answered in plain text with 470.
func (p *h4peer) probeUnverified() error {
	resp, _, err := p.plain([]byte("GET /accessories HTTP/1.1\r\nHost: x\r\n\r\n"))
	if err != nil {
		return fmt.Errorf("plain-text request not answered in plain text: %v", err)
	}
	if resp.StatusCode != 470 {
		return fmt.Errorf("plain-text request to /accessories answered with %d", resp.StatusCode)
	}
	return nil
}

func (p *h4peer) probeVerified() error {
	sec, _ := crypto.NewSecureClientSessionFromSharedKey(p.shared)
	p.sec = sec
	b, err := p.secured([]byte("GET /accessories HTTP/1.1\r\nHost: x\r\n\r\n"))
	if err != nil {
		return fmt.Errorf("no ciphertext under the exchange's keys: %v (%q)", err, b)
	}
	if !bytes.HasPrefix(b, []byte("HTTP/1.1 200")) {
		return fmt.Errorf("verified request answered %q", b)
	}
	return nil
}

// ---------------------------------------------------------------------------
// randomised histories against the model

func TestZZHunt4C03RandomHistories(t *testing.T) {
	e := h4newEnv(t, "ctrl-A", "ctrl-B", "")
	seed := time.Now().UnixNano()
	if s := os.Getenv("H4SEED"); s != "" {
		fmt.Sscan(s, &seed)
	}
	t.Logf("seed %d", seed)
	rng := mrand.New(mrand.NewSource(seed))

	knownRace := 0
	defer func() { t.Logf("known race (M4 encrypted): %d", knownRace) }()
	var replay []byte // a genuine finish of an earlier exchange

	for h := 0; h < 300; h++ {
		p := e.dial()
		open := false // model: exchange open
		var hist []string
		verified := false
		skip := false
		n := 1 + rng.Intn(8)
		for i := 0; i < n && !verified; i++ {
			k := rng.Intn(20)
			var resp *nethttp.Response
			var out util.Container
			var err error
			expectOK := false     // 200 without error code
			expectVerify := false // becomes verified
			name := ""
			switch k {
			case 0, 1, 2: // valid start
				name = "S"
				resp, out, err = p.start(nil, rng.Intn(2)-1)
				if err == nil && !open && resp.StatusCode == 200 && out.GetByte(0x07) == 0 {
					p.accepted(nil, out)
				}
				expectOK = !open
				open = !open
			case 3: // zero key
				name = "S0"
				z := make([]byte, 32)
				resp, out, err = p.start(z, -1)
				if err == nil && !open && resp.StatusCode == 200 {
					p.accepted(z, out)
				}
				expectOK = !open
				open = !open
			case 4: // wrong length
				name = "Slen"
				l := []int{0, 1, 31, 33, 64, 300}[rng.Intn(6)]
				resp, out, err = p.start(make([]byte, l), -1)
				open = false
			case 5: // method 1
				name = "Smethod"
				resp, out, err = p.start(append([]byte{}, p.pub[:]...), 1)
				// rejected before the step is looked at: nothing changes
			case 6, 7: // genuine
				name = "Fgen"
				c := e.ctrls[rng.Intn(len(e.ctrls))]
				d := p.genuine(c)
				resp, out, err = p.finishRaw(d)
				expectOK, expectVerify = open, open
				if open {
					replay = d
				}
				open = false
			case 8: // wrong key
				name = "Fwrongkey"
				c := e.ctrls[0]
				resp, out, err = p.finishRaw(h4sealed(p.encKey, "PV-Msg03", c.name, ed25519.Sign(e.stranger.priv, p.material(c.name))))
				open = false
			case 9: // other paired controller's key
				name = "Fother"
				resp, out, err = p.finishRaw(h4sealed(p.encKey, "PV-Msg03", e.ctrls[0].name, ed25519.Sign(e.ctrls[1].priv, p.material(e.ctrls[0].name))))
				open = false
			case 10: // reordered
				name = "Freorder"
				c := e.ctrls[0]
				var m []byte
				m = append(m, p.accPub[:]...)
				m = append(m, c.name...)
				m = append(m, p.pub[:]...)
				resp, out, err = p.finishRaw(h4sealed(p.encKey, "PV-Msg03", c.name, ed25519.Sign(c.priv, m)))
				open = false
			case 11: // stale material
				name = "Fstale"
				c := e.ctrls[0]
				var m []byte
				m = append(m, p.prevPub[:]...)
				m = append(m, c.name...)
				m = append(m, p.prevAccPub[:]...)
				resp, out, err = p.finishRaw(h4sealed(p.encKey, "PV-Msg03", c.name, ed25519.Sign(c.priv, m)))
				open = false
			case 12: // replay
				name = "Freplay"
				d := replay
				if d == nil {
					d = make([]byte, 40)
				}
				resp, out, err = p.finishRaw(d)
				open = false
			case 13: // unknown
				name = "Funknown"
				resp, out, err = p.finishRaw(h4sealed(p.encKey, "PV-Msg03", e.stranger.name, ed25519.Sign(e.stranger.priv, p.material(e.stranger.name))))
				open = false
			case 14: // accessory's name, stranger's key
				name = "Fself"
				an := e.device.Name()
				resp, out, err = p.finishRaw(h4sealed(p.encKey, "PV-Msg03", an, ed25519.Sign(e.stranger.priv, p.material(an))))
				open = false
			case 15: // wrong seal
				name = "Fseal"
				var k2 [32]byte
				rand.Read(k2[:])
				c := e.ctrls[0]
				nonce := "PV-Msg03"
				if rng.Intn(2) == 0 {
					k2 = p.encKey
					nonce = "PV-Msg02"
				}
				resp, out, err = p.finishRaw(h4sealed(k2, nonce, c.name, ed25519.Sign(c.priv, p.material(c.name))))
				open = false
			case 16: // short
				name = "Fshort"
				resp, out, err = p.finishRaw(make([]byte, rng.Intn(16)))
				open = false
			case 17: // malformed inner tlv
				name = "Fmalformed"
				enc, mac, _ := chacha20poly1305.EncryptAndSeal(p.encKey[:], []byte("PV-Msg03"), []byte{0x01, 0x20, 'a'}, nil)
				resp, out, err = p.finishRaw(append(enc, mac[:]...))
				open = false
			case 18: // sig truncated / extended
				name = "Fsiglen"
				c := e.ctrls[0]
				sig := ed25519.Sign(c.priv, p.material(c.name))
				if rng.Intn(2) == 0 {
					sig = sig[:63]
				} else {
					sig = append(sig, 0)
				}
				resp, out, err = p.finishRaw(h4sealed(p.encKey, "PV-Msg03", c.name, sig))
				open = false
			case 19: // other step numbers
				name = "Gstep"
				c := util.NewTLV8Container()
				c.SetByte(0x06, []byte{0, 2, 4, 5, 255}[rng.Intn(5)])
				c.SetBytes(0x05, p.genuine(e.ctrls[0]))
				resp, out, err = p.tlv(c)
				// neither start nor finish: the step is not changed
			}
			hist = append(hist, name)
			if err != nil && expectVerify {
				knownRace++
				verified = true
				skip = true
				break
			}
			if err != nil {
				t.Fatalf("seed %d history %v: %v", seed, hist, err)
			}
			ok := resp.StatusCode == 200 && out.GetByte(0x07) == 0
			if ok != expectOK {
				t.Fatalf("seed %d history %v: status %d err code %d, model expects ok=%v", seed, hist, resp.StatusCode, out.GetByte(0x07), expectOK)
			}
			if expectVerify {
				verified = true
			}
		}
		if skip {
			p.conn.Close()
			continue
		}
		if verified {
			if err := p.probeVerified(); err != nil {
				t.Fatalf("seed %d history %v: %v", seed, hist, err)
			}
		} else {
			if err := p.probeUnverified(); err != nil {
				t.Fatalf("seed %d history %v: %v", seed, hist, err)
			}
		}
		p.conn.Close()
	}
}

package hc

import (
	"fmt"
	"net"
	"strings"
	"sync"
	"testing"
	"time"

	"github.com/brutella/hc/accessory"
)

// many characteristics subscribed in one multi-frame PUT, many events in a row
func TestHunt5C10ProbeBigSubscribe(t *testing.T) {
	bridge := accessory.NewBridge(accessory.Info{Name: "H5Bridge"})
	var bulbs []*accessory.ColoredLightbulb
	var as []*accessory.Accessory
	for i := 0; i < 100; i++ {
		b := accessory.NewColoredLightbulb(accessory.Info{Name: fmt.Sprintf("Bulb%d", i)})
		bulbs = append(bulbs, b)
		as = append(as, b.Accessory)
	}
	env := h5Start(t, bridge.Accessory, as...)
	defer env.stop()
	c1 := env.connect("c1")
	c2 := env.connect("c2")
	c3 := env.connect("c3")
	var parts []string
	for _, b := range bulbs {
		parts = append(parts, fmt.Sprintf(`{"aid":%d,"iid":%d,"ev":true}`, b.ID, b.Lightbulb.On.ID))
		parts = append(parts, fmt.Sprintf(`{"aid":%d,"iid":%d,"ev":true}`, b.ID, b.Lightbulb.Brightness.ID))
	}
	body := `{"characteristics":[` + strings.Join(parts, ",") + `]}`
	t.Logf("subscribe body %d bytes", len(body))
	if m, _ := c1.put(body); m.status != 204 {
		t.Fatalf("subscribe: %d %s", m.status, m.body)
	}
	for _, b := range bulbs {
		b.Lightbulb.On.SetValue(true)
		b.Lightbulb.Brightness.SetValue(33)
	}
	evs := h5Events(t, c1.barrier())
	if len(evs) != 200 {
		t.Errorf("c1 got %d events, want 200", len(evs))
	}
	if e := c2.barrier(); len(e) != 0 {
		t.Errorf("c2 got %d", len(e))
	}
	// c2 writes all in one PUT
	parts = nil
	for _, b := range bulbs {
		parts = append(parts, fmt.Sprintf(`{"aid":%d,"iid":%d,"value":false}`, b.ID, b.Lightbulb.On.ID))
		parts = append(parts, fmt.Sprintf(`{"aid":%d,"iid":%d,"value":44}`, b.ID, b.Lightbulb.Brightness.ID))
	}
	body = `{"characteristics":[` + strings.Join(parts, ",") + `]}`
	m, e2 := c2.put(body)
	if m.status != 204 || len(e2) != 0 {
		t.Errorf("c2 write: %d, %d events", m.status, len(e2))
	}
	evs = h5Events(t, c1.barrier())
	if len(evs) != 200 {
		t.Errorf("c1 got %d events after remote write, want 200", len(evs))
	}
	for i, b := range bulbs {
		if i*2+1 < len(evs) {
			if evs[i*2].Aid != b.ID || evs[i*2].Value != false || evs[i*2+1].Value != float64(44) {
				t.Errorf("event %d: %+v %+v", i, evs[i*2], evs[i*2+1])
				break
			}
		}
	}
	if e := c3.barrier(); len(e) != 0 {
		t.Errorf("c3 got %d", len(e))
	}
}

// a controller that reconnects from the same local port (RST close) keeps no subscription
func TestHunt5C10ProbeSameTuple(t *testing.T) {
	bridge := accessory.NewBridge(accessory.Info{Name: "H5Bridge"})
	sw := accessory.NewSwitch(accessory.Info{Name: "Sw"})
	env := h5Start(t, bridge.Accessory, sw.Accessory)
	defer env.stop()
	other := env.connect("other")
	sub := fmt.Sprintf(`{"characteristics":[{"aid":%d,"iid":%d,"ev":true}]}`, sw.ID, sw.Switch.On.ID)
	other.put(sub)
	val := false
	for round := 0; round < 30; round++ {
		c1 := env.connect("c1")
		laddr := c1.conn.LocalAddr().(*net.TCPAddr)
		if m, _ := c1.put(sub); m.status != 204 {
			t.Fatal(m.status)
		}
		c1.conn.(*net.TCPConn).SetLinger(0)
		c1.conn.Close()
		var c2 *h5Ctl
		var err error
		for i := 0; i < 200; i++ {
			c2, err = env.tryConnectCtl("c2", laddr)
			if err == nil {
				break
			}
			time.Sleep(time.Millisecond)
		}
		if err != nil {
			t.Skipf("cannot reuse port: %v", err)
		}
		// c2 never subscribed
		val = !val
		sw.Switch.On.SetValue(val)
		if e := c2.barrier(); len(e) != 0 {
			t.Errorf("round %d: new connection on the old 4-tuple got %d events without subscribing", round, len(e))
		}
		if e := other.barrier(); len(e) != 1 {
			t.Errorf("round %d: other got %d events", round, len(e))
		}
		// and it can subscribe and gets events
		c2.put(sub)
		val = !val
		sw.Switch.On.SetValue(val)
		if e := c2.barrier(); len(e) != 1 {
			t.Errorf("round %d: c2 subscribed got %d events", round, len(e))
		}
		other.barrier()
		c2.close()
		for k := 0; k < 2000 && len(env.tr.context.ActiveConnections()) != 1; k++ {
			sleepMs(1)
		}
		if n := len(env.tr.context.ActiveConnections()); n != 1 {
			t.Errorf("round %d: %d active connections", round, n)
		}
	}
}

func (e *h5Env) tryConnectCtl(name string, laddr *net.TCPAddr) (*h5Ctl, error) {
	return e.tryConnect(name, laddr)
}

// Stop, then a new transport with the same accessories on the same storage
func TestHunt5C10ProbeRestart(t *testing.T) {
	bridge := accessory.NewBridge(accessory.Info{Name: "H5Bridge"})
	sw := accessory.NewSwitch(accessory.Info{Name: "Sw"})
	env := h5Start(t, bridge.Accessory, sw.Accessory)
	sub := fmt.Sprintf(`{"characteristics":[{"aid":%d,"iid":%d,"ev":true}]}`, sw.ID, sw.Switch.On.ID)
	c1 := env.connect("c1")
	c1.put(sub)
	sw.Switch.On.SetValue(true)
	if e := c1.barrier(); len(e) != 1 {
		t.Fatalf("got %d", len(e))
	}
	select {
	case <-env.tr.Stop():
	case <-time.After(5 * time.Second):
		t.Fatal("stop")
	}
	if n := len(env.tr.context.ActiveConnections()); n != 0 {
		t.Errorf("%d active connections after Stop", n)
	}
	env2 := h5StartAt(t, env.dir, bridge.Accessory, sw.Accessory)
	defer env2.stop()
	d1 := env2.connect("d1")
	d2 := env2.connect("d2")
	d1.put(sub)
	sw.Switch.On.SetValue(false)
	if e := h5Events(t, d1.barrier()); len(e) != 1 {
		t.Errorf("d1 got %d events: %+v", len(e), e)
	}
	if e := d2.barrier(); len(e) != 0 {
		t.Errorf("d2 got %d", len(e))
	}
	m, _ := d2.put(fmt.Sprintf(`{"characteristics":[{"aid":%d,"iid":%d,"value":true}]}`, sw.ID, sw.Switch.On.ID))
	if m.status != 204 {
		t.Error(m.status)
	}
	if e := h5Events(t, d1.barrier()); len(e) != 1 {
		t.Errorf("d1 got %d events after remote write: %+v", len(e), e)
	}
}

// concurrent application goroutines on different characteristics, controllers subscribing and leaving
func TestHunt5C10ProbeConcurrent(t *testing.T) {
	bridge := accessory.NewBridge(accessory.Info{Name: "H5Bridge"})
	var sws []*accessory.Switch
	var as []*accessory.Accessory
	for i := 0; i < 4; i++ {
		s := accessory.NewSwitch(accessory.Info{Name: fmt.Sprintf("Sw%d", i)})
		sws = append(sws, s)
		as = append(as, s.Accessory)
	}
	env := h5Start(t, bridge.Accessory, as...)
	defer env.stop()
	var parts []string
	for _, s := range sws {
		parts = append(parts, fmt.Sprintf(`{"aid":%d,"iid":%d,"ev":true}`, s.ID, s.Switch.On.ID))
	}
	sub := `{"characteristics":[` + strings.Join(parts, ",") + `]}`
	stable := env.connect("stable")
	stable.put(sub)
	const N = 200
	var wg sync.WaitGroup
	for i, s := range sws {
		wg.Add(1)
		go func(i int, s *accessory.Switch) {
			defer wg.Done()
			v := false
			for k := 0; k < N; k++ {
				v = !v
				s.Switch.On.SetValue(v)
			}
		}(i, s)
	}
	// churn: connections that subscribe and leave
	stopChurn := make(chan struct{})
	var cw sync.WaitGroup
	for g := 0; g < 2; g++ {
		cw.Add(1)
		go func(g int) {
			defer cw.Done()
			for {
				select {
				case <-stopChurn:
					return
				default:
				}
				c, err := env.tryConnect(fmt.Sprintf("churn%d", g), nil)
				if err != nil {
					continue
				}
				c.put(sub)
				c.close()
			}
		}(g)
	}
	wg.Wait()
	close(stopChurn)
	cw.Wait()
	evs := h5Events(t, stable.barrier())
	per := map[uint64]int{}
	for _, e := range evs {
		per[e.Aid]++
	}
	for _, s := range sws {
		if per[s.ID] != N {
			t.Errorf("accessory %d: stable subscriber got %d events for %d changes", s.ID, per[s.ID], N)
		}
	}
}

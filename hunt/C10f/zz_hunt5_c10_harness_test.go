package hc

// Harness of the fifth hunt for property C10: a reference HAP controller written
// from the protocol description (pair-verify, framing, EVENT parsing) and helpers
// to run a transport on a loopback port.

import (
	"bufio"
	"bytes"
	"encoding/binary"
	"encoding/json"
	"fmt"
	"io"
	"net"
	"net/http"
	"os"
	"strings"
	"sync"
	"syscall"
	"testing"
	"time"

	"github.com/brutella/hc/accessory"
	"github.com/brutella/hc/crypto"
	"github.com/brutella/hc/crypto/chacha20poly1305"
	"github.com/brutella/hc/db"
	"github.com/brutella/hc/hap/pair"
	"github.com/brutella/hc/log"
	"github.com/brutella/hc/util"
)

var _ = log.Debug

type h5Msg struct {
	event  bool
	status int
	body   []byte
}

type h5Ctl struct {
	t      testing.TB
	name   string
	conn   net.Conn
	sec    crypto.Cryptographer
	wmu    sync.Mutex
	msgs   chan h5Msg // every message in the order of arrival
	closed chan struct{}
	pw     *io.PipeWriter
}

type h5Env struct {
	t    testing.TB
	tr   *ipTransport
	port string
	dir  string
	pub  []byte
	priv []byte
	name string
}

func h5FreePort(t testing.TB) string {
	ln, err := net.Listen("tcp", "127.0.0.1:0")
	if err != nil {
		t.Fatal(err)
	}
	_, port, _ := net.SplitHostPort(ln.Addr().String())
	ln.Close()
	return port
}

func h5Start(t testing.TB, a *accessory.Accessory, as ...*accessory.Accessory) *h5Env {
	dir, err := os.MkdirTemp("", "h5c10")
	if err != nil {
		t.Fatal(err)
	}
	return h5StartAt(t, dir, a, as...)
}

func h5StartAt(t testing.TB, dir string, a *accessory.Accessory, as ...*accessory.Accessory) *h5Env {
	port := h5FreePort(t)
	tr, err := NewIPTransport(Config{StoragePath: dir, Port: port}, a, as...)
	if err != nil {
		t.Fatal(err)
	}
	e := &h5Env{t: t, tr: tr, port: port, dir: dir, name: "h5-controller"}
	e.pub, e.priv, err = crypto.ED25519GenerateKey("h5-controller")
	if err != nil {
		t.Fatal(err)
	}
	if err := tr.database.SaveEntity(db.NewEntity(e.name, e.pub, nil)); err != nil {
		t.Fatal(err)
	}
	go tr.Start()
	// wait until the port accepts
	for i := 0; ; i++ {
		c, err := net.Dial("tcp", "127.0.0.1:"+port)
		if err == nil {
			c.Close()
			break
		}
		if i > 500 {
			t.Fatal("transport does not listen")
		}
		time.Sleep(5 * time.Millisecond)
	}
	return e
}

func (e *h5Env) stop() {
	select {
	case <-e.tr.Stop():
	case <-time.After(5 * time.Second):
		e.t.Log("Stop did not complete in 5s")
	}
	os.RemoveAll(e.dir)
}

func h5PlainPost(conn net.Conn, br *bufio.Reader, path string, body []byte) ([]byte, error) {
	req := fmt.Sprintf("POST %s HTTP/1.1\r\nHost: x\r\nContent-Type: application/pairing+tlv8\r\nContent-Length: %d\r\n\r\n", path, len(body))
	if _, err := conn.Write(append([]byte(req), body...)); err != nil {
		return nil, err
	}
	resp, err := http.ReadResponse(br, nil)
	if err != nil {
		return nil, err
	}
	defer resp.Body.Close()
	return io.ReadAll(resp.Body)
}

// connect dials and pair-verifies a new controller connection.
func (e *h5Env) connect(name string) *h5Ctl {
	for attempt := 0; attempt < 20; attempt++ {
		c, err := e.tryConnect(name, nil)
		if err == nil {
			return c
		}
		e.t.Logf("connect %s: %v (retry)", name, err)
	}
	e.t.Fatal("cannot connect")
	return nil
}

func (e *h5Env) tryConnect(name string, laddr *net.TCPAddr) (*h5Ctl, error) {
	d := net.Dialer{Control: h5Control}
	if laddr != nil {
		d.LocalAddr = laddr
	}
	conn, err := d.Dial("tcp", "127.0.0.1:"+e.port)
	if err != nil {
		return nil, err
	}
	br := bufio.NewReader(conn)
	vs := pair.NewVerifySession()

	out := util.NewTLV8Container()
	out.SetByte(pair.TagSequence, pair.VerifyStepStartRequest.Byte())
	out.SetBytes(pair.TagPublicKey, vs.PublicKey[:])
	b, err := h5PlainPost(conn, br, "/pair-verify", out.BytesBuffer().Bytes())
	if err != nil {
		conn.Close()
		return nil, err
	}
	in, err := util.NewTLV8ContainerFromReader(bytes.NewReader(b))
	if err != nil {
		conn.Close()
		return nil, err
	}
	spk := in.GetBytes(pair.TagPublicKey)
	if len(spk) != 32 {
		conn.Close()
		return nil, fmt.Errorf("M2 without key: %x", b)
	}
	var other [32]byte
	copy(other[:], spk)
	vs.GenerateSharedKeyWithOtherPublicKey(other)
	vs.SetupEncryptionKey([]byte("Pair-Verify-Encrypt-Salt"), []byte("Pair-Verify-Encrypt-Info"))

	var material []byte
	material = append(material, vs.PublicKey[:]...)
	material = append(material, e.name...)
	material = append(material, vs.OtherPublicKey[:]...)
	sig, err := crypto.ED25519Signature(e.priv, material)
	if err != nil {
		conn.Close()
		return nil, err
	}
	enc := util.NewTLV8Container()
	enc.SetString(pair.TagUsername, e.name)
	enc.SetBytes(pair.TagSignature, sig)
	eb, mac, _ := chacha20poly1305.EncryptAndSeal(vs.EncryptionKey[:], []byte("PV-Msg03"), enc.BytesBuffer().Bytes(), nil)
	out = util.NewTLV8Container()
	out.SetByte(pair.TagSequence, pair.VerifyStepFinishRequest.Byte())
	out.SetBytes(pair.TagEncryptedData, append(eb, mac[:]...))
	body := out.BytesBuffer().Bytes()
	req := fmt.Sprintf("POST /pair-verify HTTP/1.1\r\nHost: x\r\nContent-Type: application/pairing+tlv8\r\nContent-Length: %d\r\n\r\n", len(body))
	if _, err := conn.Write(append([]byte(req), body...)); err != nil {
		conn.Close()
		return nil, err
	}
	sec, err := crypto.NewSecureClientSessionFromSharedKey(vs.SharedKey)
	if err != nil {
		conn.Close()
		return nil, err
	}
	conn.SetReadDeadline(time.Now().Add(5 * time.Second))
	head, err := br.Peek(5)
	if err != nil {
		conn.Close()
		return nil, err
	}
	m4encrypted := string(head) != "HTTP/"
	if !m4encrypted {
		resp, err := http.ReadResponse(br, nil)
		if err != nil {
			conn.Close()
			return nil, err
		}
		rb, _ := io.ReadAll(resp.Body)
		resp.Body.Close()
		in, err := util.NewTLV8ContainerFromReader(bytes.NewReader(rb))
		if err != nil || in.GetByte(pair.TagErrCode) != 0 || in.GetByte(pair.TagSequence) != 4 {
			conn.Close()
			return nil, fmt.Errorf("M4: %x %v", rb, err)
		}
	}
	conn.SetReadDeadline(time.Time{})

	pr, pw := io.Pipe()
	ctl := &h5Ctl{t: e.t, name: name, conn: conn, sec: sec, msgs: make(chan h5Msg, 4096), closed: make(chan struct{}), pw: pw}
	// frame reader
	go func() {
		for {
			var hdr [2]byte
			if _, err := io.ReadFull(br, hdr[:]); err != nil {
				pw.CloseWithError(err)
				return
			}
			n := int(binary.LittleEndian.Uint16(hdr[:]))
			frame := make([]byte, 2+n+16)
			copy(frame, hdr[:])
			if _, err := io.ReadFull(br, frame[2:]); err != nil {
				pw.CloseWithError(err)
				return
			}
			dec, err := sec.Decrypt(bytes.NewReader(frame))
			if err != nil {
				pw.CloseWithError(fmt.Errorf("decrypt: %v", err))
				return
			}
			plain, _ := io.ReadAll(dec)
			pw.Write(plain)
		}
	}()
	// message parser
	go func() {
		defer close(ctl.closed)
		pbr := bufio.NewReader(pr)
		for {
			line, err := pbr.Peek(9)
			if err != nil {
				return
			}
			ev := string(line) == "EVENT/1.0"
			var rd *bufio.Reader
			if ev {
				// rewrite the status line for the standard parser
				l, err := pbr.ReadString('\n')
				if err != nil {
					return
				}
				rd = bufio.NewReader(io.MultiReader(strings.NewReader("HTTP/1.0"+l[9:]), pbr))
				// must not read ahead beyond this message: read headers by hand instead
				_ = rd
				m, err := h5ReadMessage(pbr, "HTTP/1.0"+l[9:])
				if err != nil {
					ctl.t.Logf("%s: bad event: %v", name, err)
					return
				}
				m.event = true
				ctl.msgs <- m
				continue
			}
			l, err := pbr.ReadString('\n')
			if err != nil {
				return
			}
			m, err := h5ReadMessage(pbr, l)
			if err != nil {
				ctl.t.Logf("%s: bad response: %v (%q)", name, err, l)
				return
			}
			ctl.msgs <- m
		}
	}()
	if m4encrypted {
		select {
		case m := <-ctl.msgs:
			if m.event || m.status != 200 {
				conn.Close()
				return nil, fmt.Errorf("encrypted M4 unexpected: %+v", m)
			}
		case <-time.After(5 * time.Second):
			conn.Close()
			return nil, fmt.Errorf("no M4")
		}
	}
	return ctl, nil
}

// h5ReadMessage reads headers and body (Content-Length or chunked) after the status line.
func h5ReadMessage(br *bufio.Reader, statusLine string) (h5Msg, error) {
	var m h5Msg
	parts := strings.SplitN(strings.TrimSpace(statusLine), " ", 3)
	if len(parts) < 2 {
		return m, fmt.Errorf("status line %q", statusLine)
	}
	fmt.Sscanf(parts[1], "%d", &m.status)
	cl := -1
	chunked := false
	for {
		l, err := br.ReadString('\n')
		if err != nil {
			return m, err
		}
		l = strings.TrimRight(l, "\r\n")
		if l == "" {
			break
		}
		kv := strings.SplitN(l, ":", 2)
		if len(kv) != 2 {
			return m, fmt.Errorf("header %q", l)
		}
		k := strings.ToLower(strings.TrimSpace(kv[0]))
		v := strings.TrimSpace(kv[1])
		if k == "content-length" {
			fmt.Sscanf(v, "%d", &cl)
		}
		if k == "transfer-encoding" && strings.Contains(v, "chunked") {
			chunked = true
		}
	}
	if chunked {
		for {
			l, err := br.ReadString('\n')
			if err != nil {
				return m, err
			}
			var n int
			fmt.Sscanf(strings.TrimSpace(l), "%x", &n)
			if n == 0 {
				br.ReadString('\n')
				break
			}
			b := make([]byte, n)
			if _, err := io.ReadFull(br, b); err != nil {
				return m, err
			}
			m.body = append(m.body, b...)
			br.ReadString('\n')
		}
		return m, nil
	}
	if m.status == 204 || cl <= 0 {
		return m, nil
	}
	m.body = make([]byte, cl)
	_, err := io.ReadFull(br, m.body)
	return m, err
}

func (c *h5Ctl) send(raw string) {
	c.wmu.Lock()
	defer c.wmu.Unlock()
	enc, err := c.sec.Encrypt(strings.NewReader(raw))
	if err != nil {
		c.t.Fatal(err)
	}
	b, _ := io.ReadAll(enc)
	c.conn.Write(b)
}

// request sends a request and returns the response and the events that arrived before it.
func (c *h5Ctl) request(method, path, body string) (h5Msg, []h5Msg) {
	raw := fmt.Sprintf("%s %s HTTP/1.1\r\nHost: x\r\n", method, path)
	if body != "" {
		raw += fmt.Sprintf("Content-Type: application/hap+json\r\nContent-Length: %d\r\n", len(body))
	}
	raw += "\r\n" + body
	c.send(raw)
	var evs []h5Msg
	for {
		select {
		case m := <-c.msgs:
			if m.event {
				evs = append(evs, m)
				continue
			}
			return m, evs
		case <-c.closed:
			// drain
			for {
				select {
				case m := <-c.msgs:
					if m.event {
						evs = append(evs, m)
						continue
					}
					return m, evs
				default:
					return h5Msg{status: -1}, evs
				}
			}
		case <-time.After(5 * time.Second):
			c.t.Logf("%s: no response to %s %s %s", c.name, method, path, body)
			return h5Msg{status: -2}, evs
		}
	}
}

func (c *h5Ctl) put(body string) (h5Msg, []h5Msg) {
	return c.request("PUT", "/characteristics", body)
}

// barrier returns the events which arrived before the response of a harmless request.
func (c *h5Ctl) barrier() []h5Msg {
	m, evs := c.request("GET", "/characteristics?id=1.2", "")
	if m.status != 200 && m.status != 207 {
		c.t.Logf("%s: barrier status %d %s", c.name, m.status, m.body)
	}
	return evs
}

func (c *h5Ctl) close() {
	c.conn.Close()
	<-c.closed
}

type h5Ev struct {
	Aid   uint64      `json:"aid"`
	Iid   uint64      `json:"iid"`
	Value interface{} `json:"value"`
}

func h5Parse(t testing.TB, m h5Msg) []h5Ev {
	var v struct {
		Characteristics []h5Ev `json:"characteristics"`
	}
	if err := json.Unmarshal(m.body, &v); err != nil {
		t.Errorf("event body %q: %v", m.body, err)
	}
	return v.Characteristics
}

func h5Events(t testing.TB, ms []h5Msg) []h5Ev {
	var out []h5Ev
	for _, m := range ms {
		if m.status != 200 {
			t.Errorf("event with status %d", m.status)
		}
		out = append(out, h5Parse(t, m)...)
	}
	return out
}

var h5Control = func(network, address string, c syscall.RawConn) error {
	var serr error
	c.Control(func(fd uintptr) {
		serr = syscall.SetsockoptInt(int(fd), syscall.SOL_SOCKET, syscall.SO_REUSEADDR, 1)
	})
	return serr
}

func sleepMs(n int) { time.Sleep(time.Duration(n) * time.Millisecond) }

package hc

import (
	"encoding/json"
	"fmt"
	"strings"
	"testing"

	"github.com/brutella/hc/accessory"
	"github.com/brutella/hc/characteristic"
	"github.com/brutella/hc/service"
)

func h5AllServices() map[string]*service.Service {
	return map[string]*service.Service{
		"NewAccessoryInformation": service.NewAccessoryInformation().Service,
		"NewAirPurifier": service.NewAirPurifier().Service,
		"NewAirQualitySensor": service.NewAirQualitySensor().Service,
		"NewBatteryService": service.NewBatteryService().Service,
		"NewBridgeConfiguration": service.NewBridgeConfiguration().Service,
		"NewBridgingState": service.NewBridgingState().Service,
		"NewCameraControl": service.NewCameraControl().Service,
		"NewCameraRecordingManagement": service.NewCameraRecordingManagement().Service,
		"NewCameraRTPStreamManagement": service.NewCameraRTPStreamManagement().Service,
		"NewCarbonDioxideSensor": service.NewCarbonDioxideSensor().Service,
		"NewCarbonMonoxideSensor": service.NewCarbonMonoxideSensor().Service,
		"NewColoredLightbulb": service.NewColoredLightbulb().Service,
		"NewContactSensor": service.NewContactSensor().Service,
		"NewCooler": service.NewCooler().Service,
		"NewDoor": service.NewDoor().Service,
		"NewDoorbell": service.NewDoorbell().Service,
		"NewFan": service.NewFan().Service,
		"NewFanV2": service.NewFanV2().Service,
		"NewFaucet": service.NewFaucet().Service,
		"NewFilterMaintenance": service.NewFilterMaintenance().Service,
		"NewGarageDoorOpener": service.NewGarageDoorOpener().Service,
		"NewHeater": service.NewHeater().Service,
		"NewHeaterCooler": service.NewHeaterCooler().Service,
		"NewHumidifierDehumidifier": service.NewHumidifierDehumidifier().Service,
		"NewHumiditySensor": service.NewHumiditySensor().Service,
		"NewInputSource": service.NewInputSource().Service,
		"NewIrrigationSystem": service.NewIrrigationSystem().Service,
		"NewLeakSensor": service.NewLeakSensor().Service,
		"NewLightSensor": service.NewLightSensor().Service,
		"NewLightbulb": service.NewLightbulb().Service,
		"NewLockManagement": service.NewLockManagement().Service,
		"NewLockMechanism": service.NewLockMechanism().Service,
		"NewMicrophone": service.NewMicrophone().Service,
		"NewMotionSensor": service.NewMotionSensor().Service,
		"NewOccupancySensor": service.NewOccupancySensor().Service,
		"NewOutlet": service.NewOutlet().Service,
		"NewSecuritySystem": service.NewSecuritySystem().Service,
		"NewServiceLabel": service.NewServiceLabel().Service,
		"NewSlat": service.NewSlat().Service,
		"NewSmokeSensor": service.NewSmokeSensor().Service,
		"NewSpeaker": service.NewSpeaker().Service,
		"NewStatefulProgrammableSwitch": service.NewStatefulProgrammableSwitch().Service,
		"NewStatelessProgrammableSwitch": service.NewStatelessProgrammableSwitch().Service,
		"NewSwitch": service.NewSwitch().Service,
		"NewTelevision": service.NewTelevision().Service,
		"NewTemperatureSensor": service.NewTemperatureSensor().Service,
		"NewThermostat": service.NewThermostat().Service,
		"NewTimeInformation": service.NewTimeInformation().Service,
		"NewTunneledBTLEAccessoryService": service.NewTunneledBTLEAccessoryService().Service,
		"NewValve": service.NewValve().Service,
		"NewWifiTransport": service.NewWifiTransport().Service,
		"NewWindow": service.NewWindow().Service,
		"NewWindowCovering": service.NewWindowCovering().Service,
	}
}

func h5AllAccessories() []*accessory.Accessory {
	i := func(n string) accessory.Info { return accessory.Info{Name: n} }
	return []*accessory.Accessory{
		accessory.NewCamera(i("cam")).Accessory,
		accessory.NewColoredLightbulb(i("clb")).Accessory,
		accessory.NewLightbulb(i("lb")).Accessory,
		accessory.NewOutlet(i("outlet")).Accessory,
		accessory.NewSwitch(i("switch")).Accessory,
		accessory.NewTelevision(i("tv")).Accessory,
		accessory.NewTemperatureSensor(i("temp"), 20, -10, 50, 0.1).Accessory,
		accessory.NewThermostat(i("thermo"), 20, 10, 30, 0.5).Accessory,
		accessory.NewWindow(i("window"), 1).Accessory,
	}
}

// another value the characteristic can hold
func h5OtherValue(c *characteristic.Characteristic, k int) interface{} {
	switch c.Format {
	case characteristic.FormatBool:
		b, _ := c.Value.(bool)
		return !b
	case characteristic.FormatFloat:
		f, _ := c.Value.(float64)
		min, okMin := c.MinValue.(float64)
		max, okMax := c.MaxValue.(float64)
		if okMin && okMax {
			if f != max {
				return max
			}
			return min
		}
		return f + 1
	case characteristic.FormatString:
		cur, _ := c.Value.(string)
		return cur + "x"
	case characteristic.FormatTLV8, characteristic.FormatData:
		if cur, _ := c.Value.(string); cur == "AQEA" {
			return "AQEB"
		}
		return "AQEA"
	default:
		v, _ := c.Value.(int)
		min, okMin := c.MinValue.(int)
		max, okMax := c.MaxValue.(int)
		if okMin && okMax {
			if v != max {
				return max
			}
			return min
		}
		return v + 1
	}
}

func TestHunt5C10ProbeEveryConstructor(t *testing.T) {
	bridge := accessory.NewBridge(accessory.Info{Name: "H5Bridge"})
	as := h5AllAccessories()
	for name, s := range h5AllServices() {
		a := accessory.New(accessory.Info{Name: name}, accessory.TypeOther)
		a.AddService(s)
		as = append(as, a)
	}
	env := h5Start(t, bridge.Accessory, as...)
	defer env.stop()
	c1 := env.connect("c1")
	c2 := env.connect("c2")
	type item struct {
		a *accessory.Accessory
		c *characteristic.Characteristic
	}
	var items []item
	var parts []string
	for _, a := range append([]*accessory.Accessory{bridge.Accessory}, as...) {
		for _, s := range a.Services {
			for _, c := range s.Characteristics {
				if c.IsObservable() {
					items = append(items, item{a, c})
					parts = append(parts, fmt.Sprintf(`{"aid":%d,"iid":%d,"ev":true}`, a.ID, c.ID))
				}
			}
		}
	}
	t.Logf("%d observable characteristics", len(items))
	for i := 0; i < len(parts); i += 100 {
		j := i + 100
		if j > len(parts) {
			j = len(parts)
		}
		if m, _ := c1.put(`{"characteristics":[` + strings.Join(parts[i:j], ",") + `]}`); m.status != 204 {
			t.Fatalf("subscribe: %d %s", m.status, m.body)
		}
	}
	for k := 0; k < 2; k++ {
		for _, it := range items {
			old := it.c.Value
			v := h5OtherValue(it.c, k)
			// local
			it.c.UpdateValue(v)
			evs := h5Events(t, c1.barrier())
			if len(evs) != 1 || evs[0].Aid != it.a.ID || evs[0].Iid != it.c.ID {
				t.Errorf("local set of %d.%d (type %s, %v -> %v): subscriber got %+v", it.a.ID, it.c.ID, it.c.Type, old, v, evs)
			} else {
				want, _ := json.Marshal(it.c.Value)
				got, _ := json.Marshal(evs[0].Value)
				if string(want) != string(got) {
					t.Errorf("local set of %d.%d: event carries %s, value is %s", it.a.ID, it.c.ID, got, want)
				}
			}
			if e := c2.barrier(); len(e) != 0 {
				t.Errorf("c2 got %d events", len(e))
			}
			if !it.c.IsWritable() {
				continue
			}
			// remote
			old = it.c.Value
			v = h5OtherValue(it.c, k+7)
			jb, _ := json.Marshal(v)
			m, e2 := c2.put(fmt.Sprintf(`{"characteristics":[{"aid":%d,"iid":%d,"value":%s}]}`, it.a.ID, it.c.ID, jb))
			if m.status != 204 || len(e2) != 0 {
				t.Errorf("remote write of %d.%d: status %d, %d events to the writer", it.a.ID, it.c.ID, m.status, len(e2))
			}
			evs = h5Events(t, c1.barrier())
			if len(evs) != 1 || evs[0].Aid != it.a.ID || evs[0].Iid != it.c.ID {
				t.Errorf("remote write of %d.%d (type %s, %v -> %v): subscriber got %+v", it.a.ID, it.c.ID, it.c.Type, old, v, evs)
			} else {
				want, _ := json.Marshal(it.c.Value)
				got, _ := json.Marshal(evs[0].Value)
				if string(want) != string(got) || string(want) != string(jb) {
					t.Errorf("remote write of %d.%d: wrote %s, event carries %s, value is %s", it.a.ID, it.c.ID, jb, got, want)
				}
			}
		}
	}
}

package hc

import (
	"encoding/json"
	"fmt"
	"math"
	"math/rand"
	"os"
	"strconv"
	"testing"

	"github.com/brutella/hc/accessory"
	"github.com/brutella/hc/characteristic"
	"github.com/brutella/hc/service"
)

// reference model of one characteristic, written from the HAP notion of its format
type h5Char struct {
	aid, iid uint64
	c        *characteristic.Characteristic
	kind     string // bool, int, float, string
	min, max float64
	hasRange bool
	val      interface{} // bool, int64, float64, string
	readable bool
	writable bool
	events   bool
	local    func(v interface{})
}

func (m *h5Char) conv(v interface{}) interface{} {
	switch m.kind {
	case "bool":
		switch x := v.(type) {
		case bool:
			return x
		case int:
			return x != 0
		}
	case "int":
		var f float64
		switch x := v.(type) {
		case int:
			f = float64(x)
		case float64:
			f = math.Trunc(x)
		}
		if m.hasRange {
			if f > m.max {
				f = m.max
			}
			if f < m.min {
				f = m.min
			}
		}
		return int64(f)
	case "float":
		var f float64
		switch x := v.(type) {
		case int:
			f = float64(x)
		case float64:
			f = x
		}
		if m.hasRange {
			if f > m.max {
				f = m.max
			}
			if f < m.min {
				f = m.min
			}
		}
		return f
	case "string":
		return v.(string)
	}
	panic("conv")
}

func h5Same(model interface{}, wire interface{}) bool {
	switch x := model.(type) {
	case bool:
		b, ok := wire.(bool)
		return ok && b == x
	case int64:
		f, ok := wire.(float64)
		return ok && f == float64(x)
	case float64:
		f, ok := wire.(float64)
		return ok && f == x
	case string:
		s, ok := wire.(string)
		return ok && s == x
	}
	return false
}

type h5World struct {
	env   *h5Env
	chars []*h5Char
}

func h5BuildWorld(t testing.TB) *h5World {
	bridge := accessory.NewBridge(accessory.Info{Name: "H5Bridge"})
	lamp := accessory.NewColoredLightbulb(accessory.Info{Name: "Lamp"})
	thermo := accessory.NewThermostat(accessory.Info{Name: "Thermo"}, 20, 10, 35, 0.5)
	sw := accessory.NewSwitch(accessory.Info{Name: "Sw"})
	outlet := accessory.NewOutlet(accessory.Info{Name: "Outlet"})
	// a custom string characteristic with all permissions
	label := characteristic.NewString("F0000001-0000-1000-8000-0026BB765291")
	label.Perms = characteristic.PermsAll()
	label.SetValue("a")
	svc := service.New("F0000002-0000-1000-8000-0026BB765291")
	svc.AddCharacteristic(label.Characteristic)
	sw.AddService(svc)

	env := h5Start(t, bridge.Accessory, lamp.Accessory, thermo.Accessory, sw.Accessory, outlet.Accessory)
	w := &h5World{env: env}
	add := func(a *accessory.Accessory, c *characteristic.Characteristic, kind string, local func(v interface{})) {
		m := &h5Char{aid: a.ID, iid: c.ID, c: c, kind: kind, local: local,
			readable: c.IsReadable(), writable: c.IsWritable(), events: c.IsObservable()}
		if kind == "int" {
			if mn, ok := c.MinValue.(int); ok {
				m.hasRange = true
				m.min = float64(mn)
				m.max = float64(c.MaxValue.(int))
			}
			m.val = int64(c.Value.(int))
		}
		if kind == "float" {
			if mn, ok := c.MinValue.(float64); ok {
				m.hasRange = true
				m.min = mn
				m.max = c.MaxValue.(float64)
			}
			m.val = c.Value.(float64)
		}
		if kind == "bool" {
			m.val = c.Value.(bool)
		}
		if kind == "string" {
			m.val = c.Value.(string)
		}
		w.chars = append(w.chars, m)
	}
	add(lamp.Accessory, lamp.Lightbulb.On.Characteristic, "bool", func(v interface{}) { lamp.Lightbulb.On.SetValue(v.(bool)) })
	add(lamp.Accessory, lamp.Lightbulb.Brightness.Characteristic, "int", func(v interface{}) { lamp.Lightbulb.Brightness.SetValue(v.(int)) })
	add(lamp.Accessory, lamp.Lightbulb.Hue.Characteristic, "float", func(v interface{}) { lamp.Lightbulb.Hue.SetValue(v.(float64)) })
	add(thermo.Accessory, thermo.Thermostat.TargetTemperature.Characteristic, "float", func(v interface{}) { thermo.Thermostat.TargetTemperature.SetValue(v.(float64)) })
	add(thermo.Accessory, thermo.Thermostat.CurrentTemperature.Characteristic, "float", func(v interface{}) { thermo.Thermostat.CurrentTemperature.SetValue(v.(float64)) })
	add(thermo.Accessory, thermo.Thermostat.TargetHeatingCoolingState.Characteristic, "int", func(v interface{}) { thermo.Thermostat.TargetHeatingCoolingState.SetValue(v.(int)) })
	add(sw.Accessory, sw.Switch.On.Characteristic, "bool", func(v interface{}) { sw.Switch.On.SetValue(v.(bool)) })
	add(sw.Accessory, label.Characteristic, "string", func(v interface{}) { label.SetValue(v.(string)) })
	add(outlet.Accessory, outlet.Outlet.On.Characteristic, "bool", func(v interface{}) { outlet.Outlet.On.SetValue(v.(bool)) })
	add(outlet.Accessory, outlet.Outlet.OutletInUse.Characteristic, "bool", func(v interface{}) { outlet.Outlet.OutletInUse.SetValue(v.(bool)) })
	add(sw.Accessory, sw.Info.Name.Characteristic, "string", func(v interface{}) { sw.Info.Name.SetValue(v.(string)) })
	return w
}

func (m *h5Char) randValue(r *rand.Rand) interface{} {
	switch m.kind {
	case "bool":
		switch r.Intn(4) {
		case 0:
			return true
		case 1:
			return false
		case 2:
			return 1
		default:
			return 0
		}
	case "int":
		if r.Intn(4) == 0 {
			return float64(r.Intn(8)) + 0.5
		}
		return r.Intn(8) - 1 + r.Intn(2)*100
	case "float":
		switch r.Intn(3) {
		case 0:
			return r.Intn(50)
		case 1:
			return float64(r.Intn(100)) / 2
		default:
			return float64(r.Intn(400)) + 0.1
		}
	default:
		return []string{"a", "b", "", "<x&y>", "HTTP/1.0 EVENT"}[r.Intn(5)]
	}
}

var h5Total int

type h5ModelConn struct {
	ctl  *h5Ctl
	subs map[*h5Char]bool
	id   int
}

func h5RunHistory(t *testing.T, seed int64, steps int) (failed bool) {
	r := rand.New(rand.NewSource(seed))
	w := h5BuildWorld(t)
	defer w.env.stop()
	var conns []*h5ModelConn
	nextID := 0
	newConn := func() {
		c := &h5ModelConn{ctl: w.env.connect(fmt.Sprintf("c%d", nextID)), subs: map[*h5Char]bool{}, id: nextID}
		nextID++
		// random position: order of establishment vs. order in the list must not matter
		conns = append(conns, c)
	}
	for i := 0; i < 3; i++ {
		newConn()
	}
	var trace []string
	fail := func(format string, args ...interface{}) {
		failed = true
		t.Errorf("seed %d: "+format, append([]interface{}{seed}, args...)...)
		n := len(trace)
		if n > 12 {
			trace = trace[n-12:]
		}
		for _, l := range trace {
			t.Log("   ", l)
		}
	}
	for step := 0; step < steps && !failed; step++ {
		expected := map[*h5ModelConn][]string{}
		got := map[*h5ModelConn][]h5Ev{}
		expect := func(origin *h5ModelConn, m *h5Char) {
			for _, c := range conns {
				if c != origin && c.subs[m] && m.events {
					expected[c] = append(expected[c], fmt.Sprintf("%d.%d", m.aid, m.iid))
				}
			}
		}
		_ = expect
		type exp struct {
			m *h5Char
			v interface{}
		}
		exps := map[*h5ModelConn][]exp{}
		expectV := func(origin *h5ModelConn, m *h5Char) {
			for _, c := range conns {
				if c != origin && c.subs[m] && m.events {
					exps[c] = append(exps[c], exp{m, m.val})
				}
			}
		}
		op := r.Intn(100)
		switch {
		case op < 20 && len(conns) > 0: // subscribe / unsubscribe, possibly several, possibly with a value
			c := conns[r.Intn(len(conns))]
			n := 1 + r.Intn(3)
			body := `{"characteristics":[`
			for i := 0; i < n; i++ {
				m := w.chars[r.Intn(len(w.chars))]
				ev := r.Intn(3) != 0
				if i > 0 {
					body += ","
				}
				body += fmt.Sprintf(`{"aid":%d,"iid":%d,"ev":%v`, m.aid, m.iid, ev)
				if r.Intn(4) == 0 && m.writable {
					v := m.randValue(r)
					jb, _ := json.Marshal(v)
					body += `,"value":` + string(jb)
					nv := m.conv(v)
					if nv != m.val {
						m.val = nv
						expectV(c, m)
					}
				}
				body += "}"
				if m.events {
					c.subs[m] = ev
				}
			}
			body += "]}"
			trace = append(trace, fmt.Sprintf("c%d PUT %s", c.id, body))
			resp, evs := c.ctl.put(body)
			got[c] = append(got[c], h5Events(t, evs)...)
			if resp.status != 204 && resp.status != 207 && resp.status != 200 {
				fail("PUT status %d %s", resp.status, resp.body)
			}
		case op < 50: // local set
			m := w.chars[r.Intn(len(w.chars))]
			v := m.randValue(r)
			switch m.kind {
			case "bool":
				if i, ok := v.(int); ok {
					v = i != 0
				}
			case "int":
				if f, ok := v.(float64); ok {
					v = int(f)
				}
			case "float":
				if i, ok := v.(int); ok {
					v = float64(i)
				}
			}
			trace = append(trace, fmt.Sprintf("local %d.%d = %v", m.aid, m.iid, v))
			nv := m.conv(v)
			if nv != m.val {
				m.val = nv
				expectV(nil, m)
			}
			m.local(v)
		case op < 80 && len(conns) > 0: // remote write of 1..3 characteristics
			c := conns[r.Intn(len(conns))]
			n := 1 + r.Intn(3)
			body := `{"characteristics":[`
			for i := 0; i < n; i++ {
				m := w.chars[r.Intn(len(w.chars))]
				v := m.randValue(r)
				jb, _ := json.Marshal(v)
				if i > 0 {
					body += ","
				}
				body += fmt.Sprintf(`{"aid":%d,"iid":%d,"value":%s}`, m.aid, m.iid, jb)
				if m.writable {
					nv := m.conv(v)
					if nv != m.val {
						m.val = nv
						expectV(c, m)
					}
				}
			}
			body += "]}"
			trace = append(trace, fmt.Sprintf("c%d PUT %s", c.id, body))
			resp, evs := c.ctl.put(body)
			got[c] = append(got[c], h5Events(t, evs)...)
			if resp.status != 204 && resp.status != 207 && resp.status != 200 {
				fail("PUT status %d %s", resp.status, resp.body)
			}
		case op < 88 && len(conns) > 1: // close
			i := r.Intn(len(conns))
			c := conns[i]
			trace = append(trace, fmt.Sprintf("c%d close", c.id))
			c.ctl.close()
			conns = append(conns[:i], conns[i+1:]...)
			// the server notices asynchronously; wait until the session is gone
			for k := 0; k < 2000; k++ {
				if len(w.env.tr.context.ActiveConnections()) == len(conns) {
					break
				}
				sleepMs(1)
			}
		case op < 96 && len(conns) < 6: // connect
			newConn()
			trace = append(trace, fmt.Sprintf("c%d connect", conns[len(conns)-1].id))
		default: // GET by a controller (no change)
			if len(conns) == 0 {
				continue
			}
			c := conns[r.Intn(len(conns))]
			m := w.chars[r.Intn(len(w.chars))]
			trace = append(trace, fmt.Sprintf("c%d GET %d.%d", c.id, m.aid, m.iid))
			resp, evs := c.ctl.request("GET", fmt.Sprintf("/characteristics?id=%d.%d", m.aid, m.iid), "")
			got[c] = append(got[c], h5Events(t, evs)...)
			if resp.status == 200 {
				pe := h5Parse(t, resp)
				if len(pe) != 1 || !h5Same(m.val, pe[0].Value) {
					fail("GET %d.%d answered %s, model %v", m.aid, m.iid, resp.body, m.val)
				}
			}
		}
		for _, c := range conns {
			got[c] = append(got[c], h5Events(t, c.ctl.barrier())...)
			e := exps[c]
			g := got[c]
			h5Total += len(g)
			ok := len(e) == len(g)
			if ok {
				for i := range e {
					if e[i].m.aid != g[i].Aid || e[i].m.iid != g[i].Iid || !h5Same(e[i].v, g[i].Value) {
						ok = false
					}
				}
			}
			if !ok {
				var es []string
				for _, x := range e {
					es = append(es, fmt.Sprintf("%d.%d=%v", x.m.aid, x.m.iid, x.v))
				}
				fail("step %d: connection c%d expected events %v, got %+v", step, c.id, es, g)
			}
		}
	}
	for _, c := range conns {
		c.ctl.close()
	}
	t.Logf("seed %d: %d events checked", seed, h5Total)
	return
}

func TestHunt5C10Differential(t *testing.T) {
	seeds := 5
	steps := 300
	if s := os.Getenv("H5_SEEDS"); s != "" {
		seeds, _ = strconv.Atoi(s)
	}
	if s := os.Getenv("H5_STEPS"); s != "" {
		steps, _ = strconv.Atoi(s)
	}
	base := int64(1)
	if s := os.Getenv("H5_BASE"); s != "" {
		b, _ := strconv.Atoi(s)
		base = int64(b)
	}
	for s := base; s < base+int64(seeds); s++ {
		if h5RunHistory(t, s, steps) {
			break
		}
	}
}

package hc

import (
	"fmt"
	"testing"
	"time"

	"github.com/brutella/hc/accessory"
)

func (c *h5Ctl) nextMsg(d time.Duration) (h5Msg, bool) {
	select {
	case m := <-c.msgs:
		return m, true
	case <-time.After(d):
		return h5Msg{}, false
	}
}

func TestHunt5C10ProbeHTTPVariants(t *testing.T) {
	bridge := accessory.NewBridge(accessory.Info{Name: "H5Bridge"})
	sw := accessory.NewSwitch(accessory.Info{Name: "Sw"})
	env := h5Start(t, bridge.Accessory, sw.Accessory)
	defer env.stop()
	sub := fmt.Sprintf(`{"characteristics":[{"aid":%d,"iid":%d,"ev":true}]}`, sw.ID, sw.Switch.On.ID)
	val := false
	toggle := func() { val = !val; sw.Switch.On.SetValue(val) }
	put := func(extra, body string) string {
		return fmt.Sprintf("PUT /characteristics HTTP/1.1\r\nHost: x\r\n%sContent-Length: %d\r\n\r\n%s", extra, len(body), body)
	}

	// 1. pipelined subscribe + GET in one frame
	c := env.connect("pipe")
	c.send(put("", sub) + "GET /characteristics?id=1.2 HTTP/1.1\r\nHost: x\r\n\r\n")
	m1, ok1 := c.nextMsg(2 * time.Second)
	m2, ok2 := c.nextMsg(2 * time.Second)
	if !ok1 || !ok2 || m1.status != 204 || (m2.status != 200 && m2.status != 207) {
		t.Errorf("pipelined: %v %+v %v %+v", ok1, m1, ok2, m2)
	}
	toggle()
	if e := c.barrier(); len(e) != 1 {
		t.Errorf("pipelined subscriber got %d events", len(e))
	}
	c.close()

	// 2. Expect: 100-continue
	c = env.connect("expect")
	c.send(put("Expect: 100-continue\r\n", sub))
	m1, ok1 = c.nextMsg(2 * time.Second)
	if ok1 && m1.status == 100 {
		m1, ok1 = c.nextMsg(2 * time.Second)
	}
	if !ok1 || m1.status != 204 {
		t.Errorf("expect: %v %+v", ok1, m1)
	}
	toggle()
	if e := c.barrier(); len(e) != 1 {
		t.Errorf("expect subscriber got %d events", len(e))
	}
	c.close()

	// 3. chunked request body
	c = env.connect("chunked")
	c.send(fmt.Sprintf("PUT /characteristics HTTP/1.1\r\nHost: x\r\nTransfer-Encoding: chunked\r\n\r\n%x\r\n%s\r\n0\r\n\r\n", len(sub), sub))
	m1, ok1 = c.nextMsg(2 * time.Second)
	if !ok1 || m1.status != 204 {
		t.Errorf("chunked: %v %+v", ok1, m1)
	}
	toggle()
	if e := c.barrier(); len(e) != 1 {
		t.Errorf("chunked subscriber got %d events", len(e))
	}
	c.close()

	// 4. request split over several frames, in the middle of the JSON and of the header
	c = env.connect("split")
	raw := put("", sub)
	for i := 0; i < len(raw); i += 7 {
		j := i + 7
		if j > len(raw) {
			j = len(raw)
		}
		c.send(raw[i:j])
	}
	m1, ok1 = c.nextMsg(2 * time.Second)
	if !ok1 || m1.status != 204 {
		t.Errorf("split: %v %+v", ok1, m1)
	}
	toggle()
	if e := c.barrier(); len(e) != 1 {
		t.Errorf("split subscriber got %d events", len(e))
	}
	c.close()

	// 5. Connection: close on the subscribing request: the server closes, the session goes away
	for k := 0; k < 2000 && len(env.tr.context.ActiveConnections()) != 0; k++ {
		sleepMs(1)
	}
	c = env.connect("connclose")
	c.send(put("Connection: close\r\n", sub))
	m1, ok1 = c.nextMsg(2 * time.Second)
	if !ok1 || m1.status != 204 {
		t.Errorf("connclose: %v %+v", ok1, m1)
	}
	select {
	case <-c.closed:
	case <-time.After(2 * time.Second):
		t.Errorf("server did not close after Connection: close")
	}
	for k := 0; k < 2000 && len(env.tr.context.ActiveConnections()) != 0; k++ {
		sleepMs(1)
	}
	if n := len(env.tr.context.ActiveConnections()); n != 0 {
		t.Errorf("%d sessions left", n)
	}

	// 6. HTTP/1.0 subscriber with keep-alive
	c = env.connect("http10")
	c.send(fmt.Sprintf("PUT /characteristics HTTP/1.0\r\nHost: x\r\nConnection: keep-alive\r\nContent-Length: %d\r\n\r\n%s", len(sub), sub))
	m1, ok1 = c.nextMsg(2 * time.Second)
	if !ok1 || m1.status != 204 {
		t.Errorf("http10: %v %+v", ok1, m1)
	}
	toggle()
	if e := c.barrier(); len(e) != 1 {
		t.Errorf("http10 subscriber got %d events", len(e))
	}
	c.close()

	// 7. ev given as 1 (the value member accepts 0/1 for booleans)
	c = env.connect("ev1")
	m1, _ = c.put(fmt.Sprintf(`{"characteristics":[{"aid":%d,"iid":%d,"ev":1}]}`, sw.ID, sw.Switch.On.ID))
	toggle()
	e := c.barrier()
	t.Logf("ev:1 answered %d %s, then %d events", m1.status, m1.body, len(e))
	c.close()
}

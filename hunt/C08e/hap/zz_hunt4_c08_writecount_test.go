package hap

import (
	"net"
	"testing"

	"github.com/brutella/hc/crypto"
	"github.com/brutella/hc/db"
)

// Borderline (io.Writer contract, single writer): Write on an encrypted
// connection returns the number of ciphertext bytes, which is larger than len(b).
func TestZZHunt4C08WriteReturnsMoreThanLen(t *testing.T) {
	database, _ := db.NewTempDatabase()
	dev, err := NewSecuredDevice("acc", "00102003", database)
	if err != nil {
		t.Fatal(err)
	}
	ctx := NewContextForSecuredDevice(dev)
	a, b := net.Pipe()
	go func() {
		buf := make([]byte, 1<<16)
		for {
			if _, err := b.Read(buf); err != nil {
				return
			}
		}
	}()
	con := NewConnection(a, ctx)
	sec, _ := crypto.NewSecureSessionFromSharedKey([32]byte{1})
	s := ctx.GetSessionForConnection(con)
	s.SetCryptographer(sec)
	s.Decrypter()
	n, err := con.Write(make([]byte, 5000))
	if err != nil || n != 5000 {
		t.Fatalf("Write(5000 bytes) = %d, %v; io.Writer promises 0 <= n <= len(b)", n, err)
	}
}

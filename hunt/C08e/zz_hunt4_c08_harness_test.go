package hc

// Harness for the C08 hunt: a reference peer for the encrypted stream.

import (
	"bufio"
	"bytes"
	"crypto/rand"
	"encoding/binary"
	"fmt"
	"io"
	"net"
	"net/http"
	"strings"
	"sync"
	"syscall"
	"testing"
	"time"

	"github.com/brutella/hc/accessory"
	"github.com/brutella/hc/crypto"
	"github.com/brutella/hc/crypto/hkdf"
	"github.com/brutella/hc/hap"
	"golang.org/x/crypto/chacha20poly1305"
)

type zzPeer struct {
	t       testing.TB
	c       net.Conn
	encKey  [32]byte // controller -> accessory
	decKey  [32]byte // accessory -> controller
	encCnt  uint64
	wmu     sync.Mutex

	mu      sync.Mutex
	decCnt  uint64
	plain   bytes.Buffer // decrypted stream
	frames  []int        // plaintext length of each frame
	decErr  error
	done    chan struct{}
	cond    *sync.Cond
}

func zzSeal(key [32]byte, cnt uint64, p []byte) []byte {
	aead, _ := chacha20poly1305.New(key[:])
	var nonce [12]byte
	binary.LittleEndian.PutUint64(nonce[4:], cnt)
	var l [2]byte
	binary.LittleEndian.PutUint16(l[:], uint16(len(p)))
	out := append([]byte{}, l[:]...)
	return aead.Seal(out, nonce[:], p, l[:])
}

func (p *zzPeer) send(b []byte) {
	p.wmu.Lock()
	defer p.wmu.Unlock()
	var out []byte
	for len(b) > 0 {
		n := len(b)
		if n > 1024 {
			n = 1024
		}
		out = append(out, zzSeal(p.encKey, p.encCnt, b[:n])...)
		p.encCnt++
		b = b[n:]
	}
	p.c.Write(out)
}

// readLoop decrypts frame after frame with the reference implementation
func (p *zzPeer) readLoop() {
	defer close(p.done)
	r := bufio.NewReaderSize(p.c, 1<<16)
	aead, _ := chacha20poly1305.New(p.decKey[:])
	for {
		var l [2]byte
		if _, err := io.ReadFull(r, l[:]); err != nil {
			p.mu.Lock()
			p.cond.Broadcast()
			p.mu.Unlock()
			return
		}
		n := int(binary.LittleEndian.Uint16(l[:]))
		buf := make([]byte, n+16)
		if _, err := io.ReadFull(r, buf); err != nil {
			p.mu.Lock()
			p.decErr = fmt.Errorf("stream ends inside a frame (length field %d): %v", n, err)
			p.cond.Broadcast()
			p.mu.Unlock()
			return
		}
		var nonce [12]byte
		p.mu.Lock()
		binary.LittleEndian.PutUint64(nonce[4:], p.decCnt)
		pt, err := aead.Open(nil, nonce[:], buf, l[:])
		if err != nil {
			p.decErr = fmt.Errorf("frame #%d (length field %d) does not decrypt with counter %d; header bytes %q", len(p.frames), n, p.decCnt, append(l[:], buf[:zzmin(len(buf), 40)]...))
			p.cond.Broadcast()
			p.mu.Unlock()
			return
		}
		p.decCnt++
		p.frames = append(p.frames, len(pt))
		p.plain.Write(pt)
		p.cond.Broadcast()
		p.mu.Unlock()
	}
}

func zzmin(a, b int) int {
	if a < b {
		return a
	}
	return b
}

// waitFor waits until the plaintext stream contains n bytes or pred is true
func (p *zzPeer) waitPlain(pred func(s []byte) bool, d time.Duration) bool {
	deadline := time.Now().Add(d)
	p.mu.Lock()
	defer p.mu.Unlock()
	for !pred(p.plain.Bytes()) {
		if p.decErr != nil || time.Now().After(deadline) {
			return false
		}
		p.mu.Unlock()
		time.Sleep(2 * time.Millisecond)
		p.mu.Lock()
	}
	return true
}

func (p *zzPeer) snapshot() ([]byte, error) {
	p.mu.Lock()
	defer p.mu.Unlock()
	return append([]byte{}, p.plain.Bytes()...), p.decErr
}

// zzMessage is one message of the plaintext stream
type zzMessage struct {
	proto  string
	status int
	body   []byte
}

// zzParse parses the plaintext stream into HTTP/EVENT messages; error if it is not a sequence of well-formed messages
func zzParse(stream []byte) ([]zzMessage, error) {
	var msgs []zzMessage
	rest := stream
	for len(rest) > 0 {
		proto := "HTTP"
		b := rest
		if bytes.HasPrefix(b, []byte("EVENT/1.0")) {
			proto = "EVENT"
			b = append([]byte("HTTP/1.0"), b[len("EVENT/1.0"):]...)
		} else if !bytes.HasPrefix(b, []byte("HTTP/1.")) {
			return msgs, fmt.Errorf("message %d does not start with a status line: %q", len(msgs), b[:zzmin(len(b), 60)])
		}
		br := bufio.NewReader(bytes.NewReader(b))
		resp, err := http.ReadResponse(br, &http.Request{Method: "GET"})
		if err != nil {
			return msgs, fmt.Errorf("message %d: %v (%q)", len(msgs), err, b[:zzmin(len(b), 80)])
		}
		if proto == "EVENT" && resp.ContentLength < 0 {
			return msgs, fmt.Errorf("event without length")
		}
		if resp.ContentLength < 0 && len(resp.TransferEncoding) == 0 {
			return msgs, fmt.Errorf("message %d is neither chunked nor has a length", len(msgs))
		}
		body, err := io.ReadAll(resp.Body)
		if err != nil {
			return msgs, fmt.Errorf("message %d body: %v (%q)", len(msgs), err, b[:zzmin(len(b), 200)])
		}
		msgs = append(msgs, zzMessage{proto, resp.StatusCode, body})
		// how much was consumed
		consumed := len(b) - br.Buffered()
		// bufio may have consumed all of the underlying reader; compute from the remaining unread
		remaining, _ := io.ReadAll(br)
		_ = consumed
		used := len(b) - len(remaining)
		if proto == "EVENT" {
			used += len("EVENT/1.0") - len("HTTP/1.0")
		}
		rest = rest[used:]
	}
	return msgs, nil
}

func zzReuse(network, address string, c syscall.RawConn) error {
	return c.Control(func(fd uintptr) { syscall.SetsockoptInt(int(fd), syscall.SOL_SOCKET, syscall.SO_REUSEADDR, 1) })
}

type zzRig struct {
	t   testing.TB
	tr  *ipTransport
	acc []*accessory.Lightbulb
	seen map[hap.Session]bool
}

func zzStart(t testing.TB, n int) *zzRig {
	var accs []*accessory.Lightbulb
	for i := 0; i < n; i++ {
		accs = append(accs, accessory.NewLightbulb(accessory.Info{Name: fmt.Sprintf("Lamp %d", i), Manufacturer: strings.Repeat("m", 40)}))
	}
	var rest []*accessory.Accessory
	for _, a := range accs[1:] {
		rest = append(rest, a.Accessory)
	}
	tr, err := NewIPTransport(Config{StoragePath: t.TempDir(), Port: "0"}, accs[0].Accessory, rest...)
	if err != nil {
		t.Fatal(err)
	}
	go tr.Start()
	for i := 0; i < 500 && tr.server == nil; i++ {
		time.Sleep(5 * time.Millisecond)
	}
	time.Sleep(50 * time.Millisecond)
	r := &zzRig{t: t, tr: tr, acc: accs, seen: map[hap.Session]bool{}}
	t.Cleanup(func() {
		select {
		case <-tr.Stop():
		case <-time.After(3 * time.Second):
		}
	})
	return r
}

// zzDial connects and installs an encrypted session on both sides (the state after pair-verify)
func (r *zzRig) dial() *zzPeer { return r.dialFrom(0) }

// dialFrom connects from a given local port (0: any)
func (r *zzRig) dialFrom(port int) *zzPeer {
	d := net.Dialer{LocalAddr: &net.TCPAddr{IP: net.IPv4(127, 0, 0, 1), Port: port}, Control: zzReuse}
	var c net.Conn
	var err error
	for i := 0; i < 200; i++ {
		c, err = d.Dial("tcp", "127.0.0.1:"+r.tr.server.Port())
		if err == nil {
			break
		}
		time.Sleep(10 * time.Millisecond)
	}
	if err != nil {
		r.t.Fatal(err)
	}
	var shared [32]byte
	rand.Read(shared[:])
	// the accessory's connection for this peer
	var sess hap.Session
	for i := 0; i < 500; i++ {
		for _, sc := range r.tr.context.ActiveConnections() {
			if sc.RemoteAddr().String() == c.LocalAddr().String() {
				if x := r.tr.context.GetSessionForConnection(sc); x != nil && !r.seen[x] {
					sess = x
				}
			}
		}
		if sess != nil {
			break
		}
		time.Sleep(2 * time.Millisecond)
	}
	if sess == nil {
		r.t.Fatal("no session")
	}
	r.seen[sess] = true
	sec, _ := crypto.NewSecureSessionFromSharedKey(shared)
	sess.SetCryptographer(sec)
	sess.Decrypter() // what the read after M4 does

	p := &zzPeer{t: r.t, c: c, done: make(chan struct{})}
	p.cond = sync.NewCond(&p.mu)
	p.encKey, _ = hkdf.Sha512(shared[:], []byte("Control-Salt"), []byte("Control-Write-Encryption-Key"))
	p.decKey, _ = hkdf.Sha512(shared[:], []byte("Control-Salt"), []byte("Control-Read-Encryption-Key"))
	go p.readLoop()
	return p
}

func (r *zzRig) serverConn(p *zzPeer) net.Conn {
	for _, sc := range r.tr.context.ActiveConnections() {
		if sc.RemoteAddr().String() == p.c.LocalAddr().String() {
			return sc
		}
	}
	return nil
}

func TestZZHarnessSane(t *testing.T) {
	r := zzStart(t, 3)
	p := r.dial()
	p.send([]byte("GET /accessories HTTP/1.1\r\nHost: x\r\n\r\n"))
	ok := p.waitPlain(func(s []byte) bool { return bytes.HasSuffix(s, []byte("}\n")) }, 2*time.Second)
	s, err := p.snapshot()
	if !ok || err != nil {
		t.Fatalf("ok=%v err=%v %q", ok, err, s)
	}
	msgs, err := zzParse(s)
	if err != nil || len(msgs) != 1 {
		t.Fatalf("%v %v", msgs, err)
	}
	t.Logf("%d bytes body, frames %v", len(msgs[0].body), p.frames)
}

package hc

import (
	"bytes"
	"context"
	"fmt"
	"sync"
	"testing"
	"time"

	"github.com/brutella/hc/hap"
)

func (p *zzPeer) quiesce(d time.Duration) ([]byte, error) {
	last := -1
	for {
		s, err := p.snapshot()
		if err != nil {
			return s, err
		}
		if len(s) == last {
			return s, nil
		}
		last = len(s)
		time.Sleep(d)
	}
}

func (p *zzPeer) subscribe(aid, iid int) {
	body := fmt.Sprintf(`{"characteristics":[{"aid":%d,"iid":%d,"ev":true}]}`, aid, iid)
	p.send([]byte(fmt.Sprintf("PUT /characteristics HTTP/1.1\r\nHost: x\r\nContent-Length: %d\r\n\r\n%s", len(body), body)))
}

// E1: responses (small), events from several application goroutines, keep-alives, events caused by another connection
func TestZZE1Storm(t *testing.T) {
	r := zzStart(t, 4)
	p := r.dial()
	q := r.dial()
	for i := range r.acc {
		p.subscribe(i+1, 9)
		q.subscribe(i+1, 9)
	}
	p.quiesce(100 * time.Millisecond)

	ctx, cancel := context.WithCancel(context.Background())
	ka := hap.NewKeepAlive(time.Millisecond, r.tr.context)
	go ka.Start(ctx)

	var wg sync.WaitGroup
	for g := 0; g < 4; g++ {
		wg.Add(1)
		go func(g int) {
			defer wg.Done()
			for i := 0; i < 300; i++ {
				r.acc[g].Lightbulb.On.SetValue(i%2 == 0)
			}
		}(g)
	}
	wg.Add(1)
	go func() {
		defer wg.Done()
		for i := 0; i < 200; i++ {
			p.send([]byte("GET /characteristics?id=1.9,2.9,3.9 HTTP/1.1\r\nHost: x\r\n\r\n"))
			body := fmt.Sprintf(`{"characteristics":[{"aid":4,"iid":9,"value":%v}]}`, i%2 == 0)
			q.send([]byte(fmt.Sprintf("PUT /characteristics HTTP/1.1\r\nHost: x\r\nContent-Length: %d\r\n\r\n%s", len(body), body)))
			time.Sleep(time.Millisecond)
		}
	}()
	wg.Wait()
	cancel()
	for _, x := range []*zzPeer{p, q} {
		s, err := x.quiesce(200 * time.Millisecond)
		if err != nil {
			t.Fatal(err)
		}
		msgs, err := zzParse(s)
		if err != nil {
			t.Fatal(err)
		}
		ev, resp := 0, 0
		for _, m := range msgs {
			if m.proto == "EVENT" {
				ev++
			} else {
				resp++
			}
		}
		t.Logf("frames %d, events %d, responses %d", len(x.frames), ev, resp)
	}
	_ = bytes.MinRead
}

package hc

import (
	"net"
	"testing"
	"time"
)

// C08, clauses "the peer can decrypt every frame in the order it arrives" and
// "no frame counter is ... emitted out of order".
//
// History: a controller's request is still being handled (the application's
// remote-update callback is slow) when the controller drops the connection and
// connects again from the same address and port. The new connection takes the
// context entry of the old one (same key). When the old request's handler
// finishes, net/http writes its response through the OLD hap.Connection, and
// the old connection looks its encrypter up by address: it finds the NEW
// connection's session, seals a frame with the new session's counter and writes
// it to the dead old socket. The write to the old connection and the next
// response on the new connection are two writers of one session; the new peer
// never sees the frame with the counter taken by the old connection, and cannot
// decrypt anything that follows.
func TestZZHunt4C08ReconnectSameAddressStaleWriterTakesCounter(t *testing.T) {
	r := zzStart(t, 1)
	entered := make(chan struct{}, 1)
	release := make(chan struct{})
	r.acc[0].Lightbulb.On.OnValueRemoteUpdate(func(on bool) {
		entered <- struct{}{}
		<-release
	})

	old := r.dial()
	port := old.c.LocalAddr().(*net.TCPAddr).Port
	body := `{"characteristics":[{"aid":1,"iid":9,"value":true}]}`
	old.send([]byte("PUT /characteristics HTTP/1.1\r\nHost: x\r\nContent-Length: 52\r\n\r\n" + body))
	if len(body) != 52 {
		t.Fatal(len(body))
	}
	select {
	case <-entered:
	case <-time.After(2 * time.Second):
		t.Fatal("callback not called")
	}

	// the controller goes away and comes back from the same address
	old.c.(*net.TCPConn).SetLinger(0)
	old.c.Close()
	nu := r.dialFrom(port)
	if nu.c.LocalAddr().String() != old.c.LocalAddr().String() {
		t.Fatal("not the same address")
	}

	get := []byte("GET /characteristics?id=1.9 HTTP/1.1\r\nHost: x\r\n\r\n")
	nu.send(get)
	s, err := nu.quiesce(100 * time.Millisecond)
	if err != nil {
		t.Fatalf("first response on the new connection: %v", err)
	}
	if m, err := zzParse(s); err != nil || len(m) != 1 {
		t.Fatalf("first response on the new connection: %v %q", err, s)
	}

	// the old request completes now
	close(release)
	time.Sleep(200 * time.Millisecond)

	nu.send(get)
	s, err = nu.quiesce(100 * time.Millisecond)
	if err != nil {
		t.Fatalf("the new connection's peer cannot decrypt the accessory's next frame: %v", err)
	}
	if m, err := zzParse(s); err != nil || len(m) != 2 {
		t.Fatalf("expected two responses on the new connection, got %d (%v): %q", len(m), err, s)
	}
}

package pair

// Hunt 4, property C02: randomised histories over the pair-setup alphabet on
// one or two interleaved controllers (= connections) which share a database,
// checked against a reference model after every message.

import (
	"bytes"
	"crypto/ed25519"
	"crypto/rand"
	"crypto/sha512"
	"fmt"
	"math/big"
	mrand "math/rand"
	"os"
	"sort"
	"strconv"
	"testing"

	"github.com/brutella/hc/crypto/chacha20poly1305"
	"github.com/brutella/hc/crypto/hkdf"
	"github.com/brutella/hc/db"
	"github.com/brutella/hc/hap"
	"github.com/brutella/hc/util"
	"github.com/tadglines/go-pkgs/crypto/srp"
)

type h4Conn struct {
	ctrl *SetupServerController

	// what the peer knows
	salt, B []byte
	cs      *srp.ClientSession
	S       []byte   // shared secret of the last verify sent with the right code
	K       [32]byte // key derived from it
	haveK   bool

	// model
	mStep    int  // 0 waiting, 2 start answered, 4 proof accepted, 6 done
	mProofOK bool // S/K above belong to the exchange which is open in the model
}

type h4World struct {
	t      *testing.T
	dbase  db.Database
	device hap.SecuredDevice
	pin    string
	conns  []*h4Conn
	want   map[string]string // name -> hex key
	// recorded genuine M5 bodies of earlier exchanges
	recorded [][]byte
	log      []string
}

func h4NewWorld(t *testing.T, pin string, nconn int) *h4World {
	storage, err := util.NewTempFileStorage()
	if err != nil {
		t.Fatal(err)
	}
	database := db.NewDatabaseWithStorage(storage)
	device, err := hap.NewSecuredDevice("AA:BB:CC:DD:EE:FF", pin, database)
	if err != nil {
		t.Fatal(err)
	}
	w := &h4World{t: t, dbase: database, device: device, pin: pin, want: map[string]string{}}
	for i := 0; i < nconn; i++ {
		c, err := NewSetupServerController(device, database)
		if err != nil {
			t.Fatal(err)
		}
		w.conns = append(w.conns, &h4Conn{ctrl: c})
	}
	return w
}

func (w *h4World) stored() map[string]string {
	es, err := w.dbase.Entities()
	if err != nil {
		w.t.Fatal(err)
	}
	m := map[string]string{}
	for _, e := range es {
		if len(e.PrivateKey) != 0 {
			continue // the accessory itself
		}
		m[e.Name] = fmt.Sprintf("%x", e.PublicKey)
	}
	return m
}

func (w *h4World) check(what string) {
	got := w.stored()
	if fmt.Sprint(h4sorted(got)) != fmt.Sprint(h4sorted(w.want)) {
		w.t.Fatalf("after %s\nhistory: %v\nstored:   %v\nexpected: %v", what, w.log, h4sorted(got), h4sorted(w.want))
	}
}

func h4sorted(m map[string]string) []string {
	var r []string
	for k, v := range m {
		r = append(r, fmt.Sprintf("%q=%s", k, v))
	}
	sort.Strings(r)
	return r
}

func (w *h4World) send(ci int, name string, in util.Container) (util.Container, error) {
	w.log = append(w.log, fmt.Sprintf("c%d:%s", ci, name))
	var out util.Container
	var err error
	func() {
		defer func() {
			if r := recover(); r != nil {
				err = fmt.Errorf("panic: %v", r)
				w.log = append(w.log, "PANIC")
			}
		}()
		// through bytes, as on the wire
		rd, e := HandleReaderForHandler(in.BytesBuffer(), w.conns[ci].ctrl)
		err = e
		if e == nil && rd != nil {
			out, err = util.NewTLV8ContainerFromReader(rd)
		}
	}()
	return out, err
}

func (w *h4World) start(ci int) {
	c := w.conns[ci]
	in := util.NewTLV8Container()
	in.SetByte(TagPairingMethod, 0)
	in.SetByte(TagSequence, 1)
	out, err := w.send(ci, "start", in)
	if c.mStep == 0 {
		if err != nil {
			w.t.Fatalf("start refused in waiting state: %v %v", err, w.log)
		}
		c.salt = out.GetBytes(TagSalt)
		c.B = out.GetBytes(TagPublicKey)
		c.mStep = 2
		c.mProofOK = false
	} else {
		c.mStep = 0
		c.mProofOK = false
	}
	w.check("start")
}

func (w *h4World) newClient(pin string) *srp.ClientSession {
	rp, _ := srp.NewSRP(SRPGroup, sha512.New, KeyDerivativeFuncRFC2945(sha512.New, []byte("Pair-Setup")))
	return rp.NewClientSession([]byte("Pair-Setup"), []byte(pin))
}

// kind: right, wrong, a0, aN, a2N, noA, noProof, emptyProof, truncProof
func (w *h4World) verify(ci int, kind string) {
	c := w.conns[ci]
	in := util.NewTLV8Container()
	in.SetByte(TagPairingMethod, 0)
	in.SetByte(TagSequence, 3)
	var S []byte
	right := false
	if c.salt == nil {
		// never started: nothing to compute from
		c.salt = make([]byte, 16)
		c.B = []byte{5}
	}
	grp, _ := srp.NewSRP(SRPGroup, sha512.New, nil)
	N := grp.Group.Prime
	switch kind {
	case "right", "wrong", "noProof", "truncProof", "noA":
		pin := w.pin
		if kind == "wrong" {
			pin = "999-99-998"
		}
		cs := w.newClient(pin)
		key, err := cs.ComputeKey(c.salt, c.B)
		if err != nil {
			// B from a fake start; send junk
			in.SetBytes(TagPublicKey, []byte{2})
			in.SetBytes(TagProof, make([]byte, 64))
			break
		}
		proof := cs.ComputeAuthenticator()
		if kind != "noA" {
			in.SetBytes(TagPublicKey, cs.GetA())
		}
		switch kind {
		case "right":
			in.SetBytes(TagProof, proof)
			S = key
			right = true
		case "wrong", "noA":
			in.SetBytes(TagProof, proof)
		case "truncProof":
			in.SetBytes(TagProof, proof[:63])
		}
	case "a0":
		in.SetBytes(TagPublicKey, []byte{0})
		in.SetBytes(TagProof, make([]byte, 64))
	case "aN":
		in.SetBytes(TagPublicKey, N.Bytes())
		in.SetBytes(TagProof, make([]byte, 64))
	case "a2N":
		in.SetBytes(TagPublicKey, new(big.Int).Lsh(N, 1).Bytes())
		in.SetBytes(TagProof, make([]byte, 64))
	case "a1":
		in.SetBytes(TagPublicKey, []byte{1})
		h := sha512.Sum512([]byte{1})
		in.SetBytes(TagProof, h[:])
	case "aNm1":
		in.SetBytes(TagPublicKey, new(big.Int).Sub(N, big.NewInt(1)).Bytes())
		in.SetBytes(TagProof, make([]byte, 64))
	}
	out, err := w.send(ci, "verify-"+kind, in)
	if c.mStep == 2 {
		if right {
			if err != nil || len(out.GetBytes(TagErrCode)) != 0 || len(out.GetBytes(TagProof)) == 0 {
				w.t.Fatalf("right proof refused: %v %v", err, w.log)
			}
			c.mStep = 4
			c.mProofOK = true
			c.S = S
			c.K, _ = hkdf.Sha512(S, []byte("Pair-Setup-Encrypt-Salt"), []byte("Pair-Setup-Encrypt-Info"))
			c.haveK = true
		} else {
			if err == nil && out != nil && len(out.GetBytes(TagProof)) != 0 {
				w.t.Errorf("server proof handed out for %s: %v", kind, w.log)
			}
			c.mStep = 0
			c.mProofOK = false
		}
	} else {
		c.mStep = 0
		c.mProofOK = false
	}
	w.check("verify-" + kind)
}

func h4seal(key []byte, nonce string, msg []byte) []byte {
	enc, mac, err := chacha20poly1305.EncryptAndSeal(key, []byte(nonce), msg, nil)
	if err != nil {
		panic(err)
	}
	return append(enc, mac[:]...)
}

func (w *h4World) m5body(S []byte, name string, pub ed25519.PublicKey, priv ed25519.PrivateKey) []byte {
	hash, _ := hkdf.Sha512(S, []byte("Pair-Setup-Controller-Sign-Salt"), []byte("Pair-Setup-Controller-Sign-Info"))
	var material []byte
	material = append(material, hash[:]...)
	material = append(material, []byte(name)...)
	material = append(material, pub...)
	sig := ed25519.Sign(priv, material)
	inner := util.NewTLV8Container()
	inner.SetString(TagUsername, name)
	inner.SetBytes(TagPublicKey, pub)
	inner.SetBytes(TagSignature, sig)
	return inner.BytesBuffer().Bytes()
}

// kind: genuine, tampered, short, zeroKey, randKey, guessKey (key from empty secret), replay, badSig, devName, staleK, truncInner, empty
func (w *h4World) keyx(ci int, kind string, rnd *mrand.Rand) {
	c := w.conns[ci]
	in := util.NewTLV8Container()
	in.SetByte(TagPairingMethod, 0)
	in.SetByte(TagSequence, 5)
	pub, priv, _ := ed25519.GenerateKey(rand.Reader)
	name := "ctl-" + strconv.Itoa(rnd.Intn(4))
	if rnd.Intn(8) == 0 {
		name = ""
	}
	if rnd.Intn(8) == 0 {
		name = string([]byte{0xff, 0xfe, 0x00, 0x2f})
	}
	if rnd.Intn(10) == 0 {
		name = string(bytes.Repeat([]byte("n"), 100+rnd.Intn(40)))
	}
	S := c.S
	K := c.K
	genuine := false
	var data []byte
	switch kind {
	case "genuine":
		if !c.haveK {
			S = nil
			K = [32]byte{}
		}
		data = h4seal(K[:], "PS-Msg05", w.m5body(S, name, pub, priv))
		genuine = c.mProofOK && c.mStep == 4
		if genuine {
			w.recorded = append(w.recorded, data)
		}
	case "tampered":
		if !c.haveK {
			K = [32]byte{}
		}
		data = h4seal(K[:], "PS-Msg05", w.m5body(S, name, pub, priv))
		data[rnd.Intn(len(data))] ^= 1 << uint(rnd.Intn(8))
	case "short":
		data = make([]byte, rnd.Intn(16))
	case "empty":
		data = nil
	case "zeroKey":
		var z [32]byte
		data = h4seal(z[:], "PS-Msg05", w.m5body(nil, name, pub, priv))
	case "zeroKeyS":
		var z [32]byte
		data = h4seal(z[:], "PS-Msg05", w.m5body(S, name, pub, priv))
	case "guessKey":
		k, _ := hkdf.Sha512(nil, []byte("Pair-Setup-Encrypt-Salt"), []byte("Pair-Setup-Encrypt-Info"))
		data = h4seal(k[:], "PS-Msg05", w.m5body(nil, name, pub, priv))
	case "randKey":
		k := make([]byte, 32)
		rand.Read(k)
		data = h4seal(k, "PS-Msg05", w.m5body(S, name, pub, priv))
	case "replay":
		if len(w.recorded) == 0 {
			data = make([]byte, 40)
		} else {
			data = w.recorded[rnd.Intn(len(w.recorded))]
			// a replay of the M5 of the exchange that is still open cannot happen: genuine closes it
		}
	case "badSig":
		if !c.haveK {
			K = [32]byte{}
		}
		body := w.m5body(append([]byte{1}, S...), name, pub, priv)
		data = h4seal(K[:], "PS-Msg05", body)
	case "otherKeySig":
		// signed by another key than the one delivered
		if !c.haveK {
			K = [32]byte{}
		}
		pub2, _, _ := ed25519.GenerateKey(rand.Reader)
		body := w.m5body(S, name, pub, priv)
		body = bytes.Replace(body, pub, pub2, 1)
		data = h4seal(K[:], "PS-Msg05", body)
	case "devName":
		name = w.device.Name()
		if !c.haveK {
			K = [32]byte{}
		}
		data = h4seal(K[:], "PS-Msg05", w.m5body(S, name, pub, priv))
	case "truncInner":
		if !c.haveK {
			K = [32]byte{}
		}
		body := w.m5body(S, name, pub, priv)
		data = h4seal(K[:], "PS-Msg05", body[:len(body)-3])
	case "wrongNonce":
		if !c.haveK {
			K = [32]byte{}
		}
		data = h4seal(K[:], "PS-Msg06", w.m5body(S, name, pub, priv))
	}
	in.SetBytes(TagEncryptedData, data)
	out, err := w.send(ci, "keyx-"+kind+fmt.Sprintf("(%q)", name), in)
	if c.mStep == 4 {
		if genuine {
			if len(hexName(name)) <= 255 {
				if err != nil || len(out.GetBytes(TagErrCode)) != 0 {
					w.t.Fatalf("genuine key exchange refused: %v %v", err, w.log)
				}
				w.want[name] = fmt.Sprintf("%x", []byte(pub))
				c.mStep = 6
			} else {
				c.mStep = 0
			}
		} else if kind == "truncInner" {
			c.mStep = 6
		} else {
			c.mStep = 0
		}
	} else {
		c.mStep = 0
	}
	c.mProofOK = false
	w.check("keyx-" + kind)
}

func hexName(n string) string { return fmt.Sprintf("%x.entity", n) }

func (w *h4World) unknown(ci int, kind string, rnd *mrand.Rand) {
	in := util.NewTLV8Container()
	switch kind {
	case "step":
		in.SetByte(TagPairingMethod, 0)
		in.SetByte(TagSequence, []byte{0, 2, 4, 6, 7, 255}[rnd.Intn(6)])
	case "method":
		in.SetByte(TagPairingMethod, []byte{1, 3, 4, 5, 255}[rnd.Intn(5)])
		in.SetByte(TagSequence, []byte{1, 3, 5}[rnd.Intn(3)])
	case "nothing":
	}
	w.send(ci, "unknown-"+kind, in)
	// the model: no change of state
	w.check("unknown-" + kind)
}

func TestZZHunt4C02RandomHistories(t *testing.T) {
	seed := int64(1)
	if s := os.Getenv("H4SEED"); s != "" {
		seed, _ = strconv.ParseInt(s, 10, 64)
	}
	n := 150
	if s := os.Getenv("H4N"); s != "" {
		n, _ = strconv.Atoi(s)
	}
	rnd := mrand.New(mrand.NewSource(seed))
	verifyKinds := []string{"right", "right", "right", "wrong", "a0", "aN", "a2N", "noA", "noProof", "truncProof", "a1", "aNm1"}
	keyxKinds := []string{"genuine", "genuine", "genuine", "tampered", "short", "empty", "zeroKey", "zeroKeyS", "guessKey", "randKey", "replay", "badSig", "otherKeySig", "devName", "truncInner", "wrongNonce"}
	total := 0
	defer func() { t.Logf("stored pairings over all histories: %d", total) }()
	for h := 0; h < n; h++ {
		w := h4NewWorld(t, "001-02-003", 1+rnd.Intn(2))
		l := 3 + rnd.Intn(12)
		for i := 0; i < l; i++ {
			ci := rnd.Intn(len(w.conns))
			c := w.conns[ci]
			// bias towards progress
			if rnd.Intn(10) < 6 {
				switch c.mStep {
				case 0, 6:
					w.start(ci)
				case 2:
					w.verify(ci, "right")
				case 4:
					w.keyx(ci, keyxKinds[rnd.Intn(len(keyxKinds))], rnd)
				}
				continue
			}
			r := rnd.Intn(10)
			switch {
			case r < 3:
				w.start(ci)
			case r < 6:
				k := verifyKinds[rnd.Intn(len(verifyKinds))]
				if c.mStep != 2 && rnd.Intn(3) > 0 {
					w.start(ci)
					continue
				}
				w.verify(ci, k)
			case r < 9:
				w.keyx(ci, keyxKinds[rnd.Intn(len(keyxKinds))], rnd)
			default:
				w.unknown(ci, []string{"step", "method", "nothing"}[rnd.Intn(3)], rnd)
			}
		}
		total += len(w.want)
	}
}

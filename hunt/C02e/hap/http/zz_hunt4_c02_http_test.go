package http

// Hunt 4, property C02 at the HTTP level: the real server on loopback, raw
// sockets as the peer.

import (
	"bufio"
	"bytes"
	"context"
	"crypto/ed25519"
	"crypto/rand"
	"crypto/sha512"
	"fmt"
	"io"
	"net"
	nethttp "net/http"
	"sort"
	"sync"
	"testing"
	"time"

	"github.com/brutella/hc/accessory"
	"github.com/brutella/hc/crypto/chacha20poly1305"
	"github.com/brutella/hc/crypto/hkdf"
	"github.com/brutella/hc/db"
	"github.com/brutella/hc/event"
	"github.com/brutella/hc/hap"
	"github.com/brutella/hc/hap/pair"
	"github.com/brutella/hc/util"
	"github.com/tadglines/go-pkgs/crypto/srp"
)

const h4pin = "001-02-003"

type h4srv struct {
	t      *testing.T
	dbase  db.Database
	srv    *Server
	cancel context.CancelFunc
	addr   string
}

func h4start(t *testing.T) *h4srv {
	storage, err := util.NewTempFileStorage()
	if err != nil {
		t.Fatal(err)
	}
	database := db.NewDatabaseWithStorage(storage)
	device, err := hap.NewSecuredDevice("AA:BB:CC:DD:EE:FF", h4pin, database)
	if err != nil {
		t.Fatal(err)
	}
	a := accessory.New(accessory.Info{Name: "x"}, accessory.TypeOther)
	cont := accessory.NewContainer()
	cont.AddAccessory(a)
	cfg := Config{
		Port:      "127.0.0.1:0",
		Context:   hap.NewContextForSecuredDevice(device),
		Database:  database,
		Container: cont,
		Device:    device,
		Mutex:     &sync.Mutex{},
		Emitter:   event.NewEmitter(),
	}
	s := NewServer(cfg)
	ctx, cancel := context.WithCancel(context.Background())
	go s.ListenAndServe(ctx)
	return &h4srv{t: t, dbase: database, srv: s, cancel: cancel, addr: "127.0.0.1:" + s.Port()}
}

func (s *h4srv) pairings() []string {
	es, err := s.dbase.Entities()
	if err != nil {
		s.t.Fatal(err)
	}
	var r []string
	for _, e := range es {
		if len(e.PrivateKey) == 0 {
			r = append(r, fmt.Sprintf("%q=%x", e.Name, e.PublicKey))
		}
	}
	sort.Strings(r)
	return r
}

type h4peer struct {
	t    *testing.T
	c    net.Conn
	r    *bufio.Reader
	salt []byte
	B    []byte
	S    []byte
	K    [32]byte
}

func h4dial(t *testing.T, addr string) *h4peer {
	c, err := net.Dial("tcp", addr)
	if err != nil {
		t.Fatal(err)
	}
	return &h4peer{t: t, c: c, r: bufio.NewReader(c)}
}

func h4req(body []byte) []byte {
	return []byte(fmt.Sprintf("POST /pair-setup HTTP/1.1\r\nHost: x\r\nContent-Type: application/pairing+tlv8\r\nContent-Length: %d\r\n\r\n%s", len(body), body))
}

func h4chunked(body []byte, extra string) []byte {
	var b bytes.Buffer
	b.WriteString("POST /pair-setup HTTP/1.1\r\nHost: x\r\nTransfer-Encoding: chunked\r\n" + extra + "\r\n")
	for len(body) > 0 {
		n := 7
		if n > len(body) {
			n = len(body)
		}
		fmt.Fprintf(&b, "%x\r\n", n)
		b.Write(body[:n])
		b.WriteString("\r\n")
		body = body[n:]
	}
	b.WriteString("0\r\n\r\n")
	return b.Bytes()
}

func (p *h4peer) resp() (int, util.Container) {
	p.c.SetReadDeadline(time.Now().Add(3 * time.Second))
	res, err := nethttp.ReadResponse(p.r, nil)
	if err != nil {
		return -1, nil
	}
	body, _ := io.ReadAll(res.Body)
	res.Body.Close()
	if res.StatusCode == 100 {
		return p.resp()
	}
	c, _ := util.NewTLV8ContainerFromReader(bytes.NewReader(body))
	return res.StatusCode, c
}

func h4m1() []byte {
	in := util.NewTLV8Container()
	in.SetByte(pair.TagPairingMethod, 0)
	in.SetByte(pair.TagSequence, 1)
	return in.BytesBuffer().Bytes()
}

func (p *h4peer) takeM2(c util.Container) {
	p.salt = c.GetBytes(pair.TagSalt)
	p.B = c.GetBytes(pair.TagPublicKey)
}

func (p *h4peer) m3(pin string) []byte {
	rp, _ := srp.NewSRP(pair.SRPGroup, sha512.New, pair.KeyDerivativeFuncRFC2945(sha512.New, []byte("Pair-Setup")))
	cs := rp.NewClientSession([]byte("Pair-Setup"), []byte(pin))
	key, err := cs.ComputeKey(p.salt, p.B)
	if err != nil {
		p.t.Fatal(err)
	}
	p.S = key
	p.K, _ = hkdf.Sha512(key, []byte("Pair-Setup-Encrypt-Salt"), []byte("Pair-Setup-Encrypt-Info"))
	in := util.NewTLV8Container()
	in.SetByte(pair.TagPairingMethod, 0)
	in.SetByte(pair.TagSequence, 3)
	in.SetBytes(pair.TagPublicKey, cs.GetA())
	in.SetBytes(pair.TagProof, cs.ComputeAuthenticator())
	return in.BytesBuffer().Bytes()
}

func h4m3raw(A, proof []byte) []byte {
	in := util.NewTLV8Container()
	in.SetByte(pair.TagPairingMethod, 0)
	in.SetByte(pair.TagSequence, 3)
	if A != nil {
		in.SetBytes(pair.TagPublicKey, A)
	}
	if proof != nil {
		in.SetBytes(pair.TagProof, proof)
	}
	return in.BytesBuffer().Bytes()
}

func h4m5(S []byte, K []byte, name string) ([]byte, ed25519.PublicKey) {
	pub, priv, _ := ed25519.GenerateKey(rand.Reader)
	hash, _ := hkdf.Sha512(S, []byte("Pair-Setup-Controller-Sign-Salt"), []byte("Pair-Setup-Controller-Sign-Info"))
	var material []byte
	material = append(material, hash[:]...)
	material = append(material, []byte(name)...)
	material = append(material, pub...)
	sig := ed25519.Sign(priv, material)
	inner := util.NewTLV8Container()
	inner.SetString(pair.TagUsername, name)
	inner.SetBytes(pair.TagPublicKey, pub)
	inner.SetBytes(pair.TagSignature, sig)
	enc, mac, _ := chacha20poly1305.EncryptAndSeal(K, []byte("PS-Msg05"), inner.BytesBuffer().Bytes(), nil)
	in := util.NewTLV8Container()
	in.SetByte(pair.TagPairingMethod, 0)
	in.SetByte(pair.TagSequence, 5)
	in.SetBytes(pair.TagEncryptedData, append(enc, mac[:]...))
	return in.BytesBuffer().Bytes(), pub
}

func h4zeroM5(name string) []byte {
	var z [32]byte
	b, _ := h4m5(nil, z[:], name)
	return b
}

func h4guessM5(name string) []byte {
	k, _ := hkdf.Sha512(nil, []byte("Pair-Setup-Encrypt-Salt"), []byte("Pair-Setup-Encrypt-Info"))
	b, _ := h4m5(nil, k[:], name)
	return b
}

// every three-message attack, sequentially and pipelined, plain and chunked
func TestZZHunt4C02HTTPForgedHistories(t *testing.T) {
	s := h4start(t)
	defer s.cancel()
	grp, _ := srp.NewSRP(pair.SRPGroup, sha512.New, nil)
	N := grp.Group.Prime.Bytes()
	zero64 := make([]byte, 64)
	m3s := map[string][]byte{
		"A=0":       h4m3raw([]byte{0}, zero64),
		"A=N":       h4m3raw(N, zero64),
		"noA":       h4m3raw(nil, zero64),
		"noProof":   h4m3raw([]byte{2}, nil),
		"A=1":       h4m3raw([]byte{1}, zero64),
		"empty A":   h4m3raw([]byte{}, []byte{}),
		"truncated": h4m3raw([]byte{2}, zero64)[:20],
	}
	for name, m3 := range m3s {
		for _, mode := range []string{"seq", "pipe", "chunked", "expect", "http10"} {
			for _, m5 := range [][]byte{h4zeroM5("evil"), h4guessM5("evil")} {
				p := h4dial(t, s.addr)
				enc := h4req
				switch mode {
				case "chunked":
					enc = func(b []byte) []byte { return h4chunked(b, "") }
				case "expect":
					enc = func(b []byte) []byte { return h4chunked(b, "Expect: 100-continue\r\n") }
				case "http10":
					enc = func(b []byte) []byte {
						return []byte(fmt.Sprintf("POST /pair-setup HTTP/1.0\r\nConnection: keep-alive\r\nContent-Length: %d\r\n\r\n%s", len(b), b))
					}
				}
				if mode == "pipe" {
					var all []byte
					all = append(all, h4req(h4m1())...)
					all = append(all, h4req(m3)...)
					all = append(all, h4req(m5)...)
					p.c.Write(all)
					p.resp()
					p.resp()
					p.resp()
				} else {
					p.c.Write(enc(h4m1()))
					p.resp()
					p.c.Write(enc(m3))
					p.resp()
					p.c.Write(enc(m5))
					p.resp()
				}
				p.c.Close()
				if got := s.pairings(); len(got) != 0 {
					t.Fatalf("%s/%s: stored %v", name, mode, got)
				}
			}
		}
	}
}

// the proof on one connection, the key exchange on another
func TestZZHunt4C02HTTPCrossConnection(t *testing.T) {
	s := h4start(t)
	defer s.cancel()
	a := h4dial(t, s.addr)
	b := h4dial(t, s.addr)
	a.c.Write(h4req(h4m1()))
	_, m2 := a.resp()
	a.takeM2(m2)
	b.c.Write(h4req(h4m1()))
	b.resp()
	a.c.Write(h4req(a.m3(h4pin)))
	st, m4 := a.resp()
	if st != 200 || len(m4.GetBytes(pair.TagProof)) == 0 {
		t.Fatal("honest proof refused")
	}
	// b: wrong proof
	b.c.Write(h4req(h4m3raw([]byte{2}, make([]byte, 64))))
	b.resp()
	m5, _ := h4m5(a.S, a.K[:], "cross")
	b.c.Write(h4req(m5))
	b.resp()
	if got := s.pairings(); len(got) != 0 {
		t.Fatalf("stored %v", got)
	}
	// and the genuine one still works on a, exactly once
	m5, pub := h4m5(a.S, a.K[:], "good")
	a.c.Write(h4chunked(m5, ""))
	st, m6 := a.resp()
	if st != 200 || len(m6.GetBytes(pair.TagErrCode)) != 0 {
		t.Fatalf("genuine refused %d", st)
	}
	want := fmt.Sprintf("%q=%x", "good", []byte(pub))
	if got := s.pairings(); len(got) != 1 || got[0] != want {
		t.Fatalf("stored %v want %v", got, want)
	}
	// replay of the same M5 on a, and on b after a start
	a.c.Write(h4req(m5))
	a.resp()
	m5b, _ := h4m5(a.S, a.K[:], "again")
	a.c.Write(h4req(m5b))
	a.resp()
	b.c.Write(h4req(h4m1()))
	b.resp()
	b.c.Write(h4req(m5b))
	b.resp()
	if got := s.pairings(); len(got) != 1 || got[0] != want {
		t.Fatalf("stored %v want %v", got, want)
	}
}

// genuine and forged exchanges at the same time on many connections
func TestZZHunt4C02HTTPConcurrent(t *testing.T) {
	s := h4start(t)
	defer s.cancel()
	var wg sync.WaitGroup
	var mu sync.Mutex
	var want []string
	for g := 0; g < 6; g++ {
		wg.Add(2)
		go func(g int) {
			defer wg.Done()
			for i := 0; i < 5; i++ {
				a := h4dial(t, s.addr)
				a.c.Write(h4req(h4m1()))
				_, m2 := a.resp()
				a.takeM2(m2)
				a.c.Write(h4req(a.m3(h4pin)))
				st, m4 := a.resp()
				if st != 200 || len(m4.GetBytes(pair.TagProof)) == 0 {
					// B or A with a leading zero byte: known
					a.c.Close()
					continue
				}
				name := fmt.Sprintf("ctl-%d-%d", g, i)
				m5, pub := h4m5(a.S, a.K[:], name)
				a.c.Write(h4req(m5))
				st, m6 := a.resp()
				if st != 200 || len(m6.GetBytes(pair.TagErrCode)) != 0 {
					t.Errorf("genuine refused %d", st)
				}
				mu.Lock()
				want = append(want, fmt.Sprintf("%q=%x", name, []byte(pub)))
				mu.Unlock()
				a.c.Close()
			}
		}(g)
		go func(g int) {
			defer wg.Done()
			for i := 0; i < 10; i++ {
				p := h4dial(t, s.addr)
				p.c.Write(h4req(h4m1()))
				_, m2 := p.resp()
				p.takeM2(m2)
				p.c.Write(h4req(p.m3("999-99-998")))
				p.resp()
				m5, _ := h4m5(p.S, p.K[:], fmt.Sprintf("evil-%d-%d", g, i))
				p.c.Write(h4req(m5))
				p.resp()
				p.c.Write(h4req(h4zeroM5("evil")))
				p.resp()
				p.c.Close()
			}
		}(g)
	}
	wg.Wait()
	sort.Strings(want)
	if got := s.pairings(); fmt.Sprint(got) != fmt.Sprint(want) {
		t.Fatalf("stored %v\nwant %v", got, want)
	}
}

package hap

import (
	"bufio"
	"bytes"
	"crypto/sha256"
	"encoding/binary"
	"fmt"
	"io"
	"io/ioutil"
	"math/rand"
	"net"
	"net/http"
	"testing"
	"time"

	"github.com/brutella/hc/crypto"
	"github.com/brutella/hc/crypto/chacha20poly1305"
	"github.com/brutella/hc/crypto/hkdf"
)

type h5listener struct {
	net.Listener
	ctx    Context
	shared [32]byte
}

func (l *h5listener) Accept() (net.Conn, error) {
	c, err := l.Listener.Accept()
	if err != nil {
		return nil, err
	}
	con := NewConnection(c, l.ctx)
	cr, _ := crypto.NewSecureSessionFromSharedKey(l.shared)
	l.ctx.GetSessionForConnection(c).SetCryptographer(cr)
	return con, nil
}

// peer-side decrypting reader
type h5dec struct {
	r     io.Reader
	key   [32]byte
	count uint64
	buf   bytes.Buffer
}

func (d *h5dec) Read(p []byte) (int, error) {
	for d.buf.Len() == 0 {
		var hdr [2]byte
		if _, err := io.ReadFull(d.r, hdr[:]); err != nil {
			return 0, err
		}
		l := int(binary.LittleEndian.Uint16(hdr[:]))
		body := make([]byte, l+16)
		if _, err := io.ReadFull(d.r, body); err != nil {
			return 0, err
		}
		var mac [16]byte
		copy(mac[:], body[l:])
		var nonce [8]byte
		binary.LittleEndian.PutUint64(nonce[:], d.count)
		d.count++
		pt, err := chacha20poly1305.DecryptAndVerify(d.key[:], nonce[:], body[:l], mac, hdr[:])
		if err != nil {
			return 0, fmt.Errorf("peer: response frame %d does not authenticate: %v", d.count-1, err)
		}
		d.buf.Write(pt)
	}
	return d.buf.Read(p)
}

func TestH5HTTPOverEncryptedConnection(t *testing.T) {
	var shared [32]byte
	for i := range shared {
		shared[i] = byte(i*3 + 1)
	}
	ln, err := net.Listen("tcp", "127.0.0.1:0")
	if err != nil {
		t.Fatal(err)
	}
	ctx := NewContextForSecuredDevice(nil)
	hl := &h5listener{Listener: ln, ctx: ctx, shared: shared}
	srv := &http.Server{Handler: http.HandlerFunc(func(w http.ResponseWriter, r *http.Request) {
		b, err := ioutil.ReadAll(r.Body)
		if err != nil {
			w.WriteHeader(500)
			fmt.Fprintf(w, "body error %v", err)
			return
		}
		fmt.Fprintf(w, "%s %d %x", r.URL.Path, len(b), sha256.Sum256(b))
	})}
	go srv.Serve(hl)
	defer srv.Close()

	conns := 8
	errs := make(chan error, conns)
	for ci := 0; ci < conns; ci++ {
		go func(ci int) {
			errs <- h5client(ln.Addr().String(), shared, int64(ci), 150)
		}(ci)
	}
	for ci := 0; ci < conns; ci++ {
		if err := <-errs; err != nil {
			t.Error(err)
		}
	}
}

func h5client(addr string, shared [32]byte, seed int64, nreq int) error {
	rnd := rand.New(rand.NewSource(seed))
	c, err := net.Dial("tcp", addr)
	if err != nil {
		return err
	}
	defer c.Close()
	c.(*net.TCPConn).SetNoDelay(true)
	peer := newH5Peer(shared)
	rk, _ := hkdf.Sha512(shared[:], []byte("Control-Salt"), []byte("Control-Read-Encryption-Key"))
	br := bufio.NewReader(&h5dec{r: c, key: rk})

	for i := 0; i < nreq; {
		pipe := 1
		if rnd.Intn(3) == 0 {
			pipe = 2 + rnd.Intn(3)
		}
		var cipher []byte
		var expect []string
		for k := 0; k < pipe; k++ {
			l := h5lens[rnd.Intn(len(h5lens))]
			if rnd.Intn(3) == 0 {
				l = 0
			}
			body := make([]byte, l)
			rnd.Read(body)
			path := fmt.Sprintf("/r%d_%d", seed, i)
			var req []byte
			if l == 0 && rnd.Intn(2) == 0 {
				req = []byte(fmt.Sprintf("GET %s HTTP/1.1\r\nHost: a\r\n\r\n", path))
			} else {
				req = append([]byte(fmt.Sprintf("POST %s HTTP/1.1\r\nHost: a\r\nContent-Length: %d\r\n\r\n", path, l)), body...)
			}
			expect = append(expect, fmt.Sprintf("%s %d %x", path, l, sha256.Sum256(body)))
			switch rnd.Intn(3) {
			case 0:
				cipher = append(cipher, peer.message(req)...)
			case 1: // head and body as separate messages
				hl := bytes.Index(req, []byte("\r\n\r\n")) + 4
				cipher = append(cipher, peer.message(req[:hl])...)
				cipher = append(cipher, peer.message(req[hl:])...)
			case 2: // arbitrary frame sizes
				for len(req) > 0 {
					n := 1 + rnd.Intn(1024)
					if n > len(req) {
						n = len(req)
					}
					cipher = append(cipher, peer.frame(req[:n])...)
					req = req[n:]
				}
			}
			i++
		}
		mode := rnd.Intn(4)
		for len(cipher) > 0 {
			var n int
			switch mode {
			case 0:
				n = len(cipher)
			case 1:
				n = 1 + rnd.Intn(len(cipher))
			case 2:
				n = 1 + rnd.Intn(1500)
			case 3:
				n = []int{1, 2, 17, 18, 19, 1041, 1042, 1043, 4095, 4096, 4097}[rnd.Intn(11)]
			}
			if n > len(cipher) {
				n = len(cipher)
			}
			if _, err := c.Write(cipher[:n]); err != nil {
				return fmt.Errorf("conn %d req %d: write: %v", seed, i, err)
			}
			cipher = cipher[n:]
			if rnd.Intn(3) == 0 {
				time.Sleep(time.Duration(rnd.Intn(300)) * time.Microsecond)
			}
		}
		for _, e := range expect {
			c.SetReadDeadline(time.Now().Add(5 * time.Second))
			resp, err := http.ReadResponse(br, nil)
			if err != nil {
				return fmt.Errorf("conn %d before req %d: reading response for %q: %v", seed, i, e, err)
			}
			b, _ := ioutil.ReadAll(resp.Body)
			resp.Body.Close()
			if resp.StatusCode != 200 || string(b) != e {
				return fmt.Errorf("conn %d before req %d: status %d body %q want %q", seed, i, resp.StatusCode, b, e)
			}
		}
	}
	return nil
}

package hap

import (
	"bytes"
	"encoding/binary"
	"fmt"
	"io"
	"math/rand"
	"net"
	"testing"
	"time"

	"github.com/brutella/hc/crypto"
	"github.com/brutella/hc/crypto/chacha20poly1305"
	"github.com/brutella/hc/crypto/hkdf"
)

// ---- independent reference peer ----

type h5peer struct {
	key   [32]byte
	count uint64
}

func newH5Peer(shared [32]byte) *h5peer {
	k, err := hkdf.Sha512(shared[:], []byte("Control-Salt"), []byte("Control-Write-Encryption-Key"))
	if err != nil {
		panic(err)
	}
	return &h5peer{key: k}
}

// frame encrypts one frame with plaintext p (len <= 1024)
func (p *h5peer) frame(pt []byte) []byte {
	var nonce [8]byte
	binary.LittleEndian.PutUint64(nonce[:], p.count)
	p.count++
	l := make([]byte, 2)
	binary.LittleEndian.PutUint16(l, uint16(len(pt)))
	enc, mac, err := chacha20poly1305.EncryptAndSeal(p.key[:], nonce[:], pt, l)
	if err != nil {
		panic(err)
	}
	out := append([]byte{}, l...)
	out = append(out, enc...)
	out = append(out, mac[:]...)
	return out
}

// message splits msg into frames of at most 1024 bytes, as the spec says
func (p *h5peer) message(msg []byte) []byte {
	var out []byte
	for len(msg) > 0 {
		n := len(msg)
		if n > 1024 {
			n = 1024
		}
		out = append(out, p.frame(msg[:n])...)
		msg = msg[n:]
	}
	return out
}

// ---- scripted conn ----

type h5timeout struct{}

func (h5timeout) Error() string   { return "i/o timeout (scripted)" }
func (h5timeout) Timeout() bool   { return true }
func (h5timeout) Temporary() bool { return true }

type h5event struct {
	data    []byte // nil: timeout
	timeout bool
}

type h5addr string

func (a h5addr) Network() string { return "tcp" }
func (a h5addr) String() string  { return string(a) }

type h5conn struct {
	script    []h5event
	delivered int // ciphertext bytes delivered so far
	reads     int
	local     string
	remote    string
	closed    bool
	written   bytes.Buffer
}

func (c *h5conn) Read(p []byte) (int, error) {
	c.reads++
	if c.closed {
		return 0, fmt.Errorf("use of closed connection")
	}
	if len(c.script) == 0 {
		// nothing more: the peer is connected and idle
		return 0, h5timeout{}
	}
	ev := &c.script[0]
	if ev.timeout {
		c.script = c.script[1:]
		return 0, h5timeout{}
	}
	n := copy(p, ev.data)
	ev.data = ev.data[n:]
	if len(ev.data) == 0 {
		c.script = c.script[1:]
	}
	c.delivered += n
	return n, nil
}
func (c *h5conn) Write(p []byte) (int, error)        { return c.written.Write(p) }
func (c *h5conn) Close() error                       { c.closed = true; return nil }
func (c *h5conn) LocalAddr() net.Addr                { return h5addr(c.local) }
func (c *h5conn) RemoteAddr() net.Addr               { return h5addr(c.remote) }
func (c *h5conn) SetDeadline(t time.Time) error      { return nil }
func (c *h5conn) SetReadDeadline(t time.Time) error  { return nil }
func (c *h5conn) SetWriteDeadline(t time.Time) error { return nil }

func h5setup(script []h5event) (*Connection, *h5conn, *h5peer) {
	var shared [32]byte
	for i := range shared {
		shared[i] = byte(i * 7)
	}
	ctx := NewContextForSecuredDevice(nil)
	raw := &h5conn{script: script, local: "1.1.1.1:1", remote: "2.2.2.2:2"}
	con := NewConnection(raw, ctx)
	c, err := crypto.NewSecureSessionFromSharedKey(shared)
	if err != nil {
		panic(err)
	}
	ctx.GetSessionForConnection(raw).SetCryptographer(c)
	return con, raw, newH5Peer(shared)
}

var h5lens = []int{1, 1, 2, 3, 15, 16, 17, 254, 255, 256, 511, 512, 1005, 1006, 1007, 1022, 1023, 1024, 1025, 1026, 2047, 2048, 2049, 3072, 3071, 3073, 4096, 4095, 4097, 5000, 8192}
var h5bufs = []int{1, 1, 2, 3, 16, 512, 1023, 1024, 1025, 2048, 4096, 4097, 8192, 65536}

type h5case struct {
	msgs    [][]byte
	frames  [][]byte // frame plaintexts (alternative to msgs)
	segs    []int    // segment sizes (cycled); 0 = timeout
	bufs    []int    // cycled
	desc    string
}

// run returns "" or a description of the violation
func h5run(t *testing.T, seed int64) string {
	rnd := rand.New(rand.NewSource(seed))
	_, _, peer := h5setup(nil)

	var plain []byte
	var cipher []byte
	var frameEnds []int // ciphertext offsets at which frames end
	var plainEnds []int // plaintext offset complete at that frame end
	nmsg := 1 + rnd.Intn(6)
	arbitrary := rnd.Intn(2) == 0
	desc := ""
	for i := 0; i < nmsg; i++ {
		if arbitrary {
			// well-formed frames of arbitrary sizes 1..1024
			l := 1 + rnd.Intn(1024)
			if rnd.Intn(3) == 0 {
				l = []int{1, 2, 1023, 1024, 1024, 1024}[rnd.Intn(6)]
			}
			pt := make([]byte, l)
			rnd.Read(pt)
			plain = append(plain, pt...)
			cipher = append(cipher, peer.frame(pt)...)
			frameEnds = append(frameEnds, len(cipher))
			plainEnds = append(plainEnds, len(plain))
			desc += fmt.Sprintf("F%d ", l)
		} else {
			l := h5lens[rnd.Intn(len(h5lens))]
			if rnd.Intn(4) == 0 {
				l = 1 + rnd.Intn(5000)
			}
			pt := make([]byte, l)
			rnd.Read(pt)
			desc += fmt.Sprintf("M%d ", l)
			for len(pt) > 0 {
				n := len(pt)
				if n > 1024 {
					n = 1024
				}
				plain = append(plain, pt[:n]...)
				cipher = append(cipher, peer.frame(pt[:n])...)
				frameEnds = append(frameEnds, len(cipher))
				plainEnds = append(plainEnds, len(plain))
				pt = pt[n:]
			}
		}
	}

	// segmentation
	var script []h5event
	rest := cipher
	mode := rnd.Intn(5)
	desc += "| segs "
	for len(rest) > 0 {
		var n int
		switch mode {
		case 0:
			n = 1 + rnd.Intn(len(rest))
		case 1:
			n = 1 + rnd.Intn(3)
		case 2:
			n = 1 + rnd.Intn(1500)
		case 3:
			n = len(rest)
		case 4:
			n = []int{1, 2, 17, 18, 19, 1041, 1042, 1043, 4095, 4096, 4097}[rnd.Intn(11)]
		}
		if n > len(rest) {
			n = len(rest)
		}
		if rnd.Intn(4) == 0 {
			script = append(script, h5event{timeout: true})
			desc += "T "
		}
		script = append(script, h5event{data: append([]byte{}, rest[:n]...)})
		desc += fmt.Sprintf("%d ", n)
		rest = rest[n:]
	}

	con, raw, _ := h5setup(script)
	var got []byte
	desc += "| reads "
	bufmode := rnd.Intn(3)
	fixed := h5bufs[rnd.Intn(len(h5bufs))]
	idle := 0
	for step := 0; step < 100000; step++ {
		var bs int
		switch bufmode {
		case 0:
			bs = fixed
		case 1:
			bs = h5bufs[rnd.Intn(len(h5bufs))]
		case 2:
			bs = 1 + rnd.Intn(2100)
		}
		b := make([]byte, bs)
		for i := range b {
			b[i] = 0xEE
		}
		n, err := con.Read(b)
		desc += fmt.Sprintf("%d->(%d,%v) ", bs, n, err)
		if n < 0 || n > bs {
			return desc + "n out of range"
		}
		got = append(got, b[:n]...)
		if !bytes.HasPrefix(plain, got) {
			return desc + fmt.Sprintf("BYTES DIFFER at read %d", step)
		}
		// available plaintext given delivered ciphertext
		avail := 0
		for i, fe := range frameEnds {
			if fe <= raw.delivered {
				avail = plainEnds[i]
			}
		}
		if err != nil {
			if ne, ok := err.(net.Error); ok && ne.Timeout() {
				if n != 0 {
					return desc + "data with timeout"
				}
				if avail > len(got) {
					return desc + fmt.Sprintf("TIMEOUT although %d plaintext bytes of complete frames are pending", avail-len(got))
				}
				if len(raw.script) == 0 {
					idle++
					if idle > 2 {
						break
					}
				}
				continue
			}
			return desc + fmt.Sprintf("ERROR %v", err)
		}
		if n == 0 {
			return desc + "(0,nil)"
		}
		if len(got) > avail {
			return desc + "more than available?!"
		}
	}
	if !bytes.Equal(got, plain) {
		return desc + fmt.Sprintf("LOST: got %d of %d bytes", len(got), len(plain))
	}
	return ""
}

func TestH5Differential(t *testing.T) {
	fails := 0
	for seed := int64(0); seed < 2000; seed++ {
		if r := h5run(t, seed); r != "" {
			if len(r) > 1500 {
				r = r[:700] + " ... " + r[len(r)-700:]
			}
			t.Errorf("seed %d: %s", seed, r)
			fails++
			if fails > 5 {
				return
			}
		}
	}
}

var _ = io.EOF

package hap

import (
	"testing"

	"github.com/brutella/hc/crypto"
)

// h5closingConn delivers the rest of a frame and, before the reader gets the
// processor back, the server closes the connection from another goroutine
// (ListenAndServe does that for every active connection when its context is
// cancelled; modelled here by calling Close inside the Read, i.e. ordered after
// the bytes left the kernel and before Connection looks at them).
type h5closingConn struct {
	*h5conn
	onLast func()
}

func (c *h5closingConn) Read(p []byte) (int, error) {
	n, err := c.h5conn.Read(p)
	if len(c.h5conn.script) == 0 && c.onLast != nil {
		f := c.onLast
		c.onLast = nil
		f()
	}
	return n, err
}

// Clause: a read "never signals ... a decryption error while the peer is
// connected and sending well-formed frames" - here it does worse: the read
// panics with a nil pointer dereference (decryptFrame calls
// con.getDecrypter().Decrypt without looking at what getDecrypter returned,
// connection.go decryptFrame) when the connection is closed locally between the
// arrival of the frame and its decryption. EncryptedWrite got that check in
// "fix: hap: EncryptedWrite returns an error when the session of the connection
// is gone"; the read side did not. net/http calls Read from its background-read
// goroutine, which has no recover: the process dies.
func TestH5ReadWhileLocalClosePanics(t *testing.T) {
	var shared [32]byte
	ctx := NewContextForSecuredDevice(nil)
	peer := newH5Peer(shared)
	f := peer.frame([]byte("GET /accessories HTTP/1.1\r\n\r\n"))
	raw := &h5conn{script: []h5event{{data: f[:10]}, {data: f[10:]}}, local: "1.1.1.1:1", remote: "2.2.2.2:2"}
	cc := &h5closingConn{h5conn: raw}
	con := NewConnection(cc, ctx)
	c, _ := crypto.NewSecureSessionFromSharedKey(shared)
	ctx.GetSessionForConnection(cc).SetCryptographer(c)
	cc.onLast = func() { con.Close() }

	defer func() {
		if r := recover(); r != nil {
			t.Fatalf("Connection.Read panicked: %v", r)
		}
	}()
	b := make([]byte, 4096)
	n, err := con.Read(b)
	t.Logf("Read -> (%d, %v)", n, err)
	if err == nil && n == 0 {
		t.Errorf("(0, nil)")
	}
}

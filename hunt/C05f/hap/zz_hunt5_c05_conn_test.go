package hap

import (
	"bytes"
	"crypto/sha512"
	"encoding/binary"
	"fmt"
	"io"
	"math/rand"
	"net"
	"testing"
	"time"

	"github.com/brutella/hc/crypto"
	xaead "golang.org/x/crypto/chacha20poly1305"
	xhkdf "golang.org/x/crypto/hkdf"
)

type h5Peer struct {
	key   []byte
	count uint64
}

func h5Key(shared [32]byte, info string) []byte {
	k := make([]byte, 32)
	io.ReadFull(xhkdf.New(sha512.New, shared[:], []byte("Control-Salt"), []byte(info)), k)
	return k
}

func (p *h5Peer) seal(msg []byte) (frames [][]byte, plains [][]byte) {
	for len(msg) > 0 {
		n := len(msg)
		if n > 1024 {
			n = 1024
		}
		frames = append(frames, p.sealFrame(msg[:n]))
		plains = append(plains, msg[:n])
		msg = msg[n:]
	}
	return
}

func (p *h5Peer) sealFrame(chunk []byte) []byte {
	a, _ := xaead.New(p.key)
	var nonce [12]byte
	binary.LittleEndian.PutUint64(nonce[4:], p.count)
	p.count++
	var hdr [2]byte
	binary.LittleEndian.PutUint16(hdr[:], uint16(len(chunk)))
	out := append([]byte{}, hdr[:]...)
	return a.Seal(out, nonce[:], chunk, hdr[:])
}

type h5Timeout struct{}

func (h5Timeout) Error() string   { return "i/o timeout" }
func (h5Timeout) Timeout() bool   { return true }
func (h5Timeout) Temporary() bool { return true }

type h5Addr string

func (a h5Addr) Network() string { return "tcp" }
func (a h5Addr) String() string  { return string(a) }

// h5Conn delivers a fixed byte stream in random pieces, with time-outs in between, then io.EOF
type h5Conn struct {
	rng     *rand.Rand
	data    []byte
	closed  bool
	written bytes.Buffer
	noTO    bool
}

func (c *h5Conn) Read(b []byte) (int, error) {
	if c.closed {
		return 0, fmt.Errorf("use of closed network connection")
	}
	if !c.noTO && c.rng.Intn(4) == 0 {
		return 0, h5Timeout{}
	}
	if len(c.data) == 0 {
		return 0, io.EOF
	}
	n := len(b)
	if n > len(c.data) {
		n = len(c.data)
	}
	if n > 1 {
		switch c.rng.Intn(3) {
		case 0:
			n = 1 + c.rng.Intn(n)
		case 1:
			n = 1 + c.rng.Intn(2)
		}
	}
	copy(b, c.data[:n])
	c.data = c.data[n:]
	return n, nil
}
func (c *h5Conn) Write(b []byte) (int, error)        { return c.written.Write(b) }
func (c *h5Conn) Close() error                       { c.closed = true; return nil }
func (c *h5Conn) LocalAddr() net.Addr                { return h5Addr("1.1.1.1:1") }
func (c *h5Conn) RemoteAddr() net.Addr               { return h5Addr("2.2.2.2:2") }
func (c *h5Conn) SetDeadline(t time.Time) error      { return nil }
func (c *h5Conn) SetReadDeadline(t time.Time) error  { return nil }
func (c *h5Conn) SetWriteDeadline(t time.Time) error { return nil }

type h5Case struct {
	stream  []byte
	good    int
	plains  [][]byte
	frames  [][]byte
	altered bool
	goodLen int
	descr   string
}

var h5Sizes = []int{1, 2, 3, 15, 16, 17, 100, 254, 255, 256, 1023, 1024, 1025, 2047, 2048, 2049, 3000, 3072, 4096, 5000}

func h5Build(rng *rand.Rand, shared [32]byte, other [32]byte) h5Case {
	peer := &h5Peer{key: h5Key(shared, "Control-Write-Encryption-Key")}
	var frames, plains [][]byte
	nmsg := 1 + rng.Intn(5)
	for i := 0; i < nmsg; i++ {
		sz := h5Sizes[rng.Intn(len(h5Sizes))]
		if rng.Intn(3) == 0 {
			sz = 1 + rng.Intn(2100)
		}
		msg := make([]byte, sz)
		rng.Read(msg)
		f, p := peer.seal(msg)
		frames = append(frames, f...)
		plains = append(plains, p...)
	}
	c := h5Case{plains: plains, frames: frames}
	deliv := make([][]byte, len(frames))
	for i := range frames {
		deliv[i] = append([]byte{}, frames[i]...)
	}
	switch rng.Intn(12) {
	case 0:
		c.descr = "none"
	case 1, 2:
		i := rng.Intn(len(deliv))
		pos := rng.Intn(len(deliv[i]))
		if rng.Intn(3) == 0 {
			pos = rng.Intn(2)
		}
		bit := uint(rng.Intn(8))
		deliv[i][pos] ^= 1 << bit
		c.descr = fmt.Sprintf("flip frame %d byte %d bit %d", i, pos, bit)
	case 3:
		i := rng.Intn(len(deliv))
		deliv = append(deliv[:i], deliv[i+1:]...)
		c.descr = fmt.Sprintf("drop frame %d", i)
	case 4:
		i := rng.Intn(len(deliv))
		d := append([][]byte{}, deliv[:i+1]...)
		d = append(d, deliv[i])
		d = append(d, deliv[i+1:]...)
		deliv = d
		c.descr = fmt.Sprintf("dup frame %d", i)
	case 5:
		i, j := rng.Intn(len(deliv)), rng.Intn(len(deliv))
		deliv[i], deliv[j] = deliv[j], deliv[i]
		c.descr = fmt.Sprintf("swap %d %d", i, j)
	case 6:
		i := rng.Intn(len(deliv))
		deliv = append(deliv, deliv[i])
		c.descr = fmt.Sprintf("replay frame %d at end", i)
	case 7:
		i := rng.Intn(len(deliv) + 1)
		acc := &h5Peer{key: h5Key(shared, "Control-Read-Encryption-Key"), count: uint64(i)}
		if rng.Intn(2) == 0 {
			acc.count = 0
		}
		var body []byte
		if i < len(plains) {
			body = plains[i]
		} else {
			body = []byte("HTTP/1.1 204 No Content\r\n\r\n")
		}
		f := acc.sealFrame(body)
		d := append([][]byte{}, deliv[:i]...)
		d = append(d, f)
		d = append(d, deliv[i:]...)
		deliv = d
		c.descr = fmt.Sprintf("reflect at %d", i)
	case 8:
		i := rng.Intn(len(deliv))
		o := &h5Peer{key: h5Key(other, "Control-Write-Encryption-Key"), count: uint64(i)}
		deliv[i] = o.sealFrame(plains[i])
		c.descr = fmt.Sprintf("cross-session at %d", i)
	case 9:
		all := bytes.Join(deliv, nil)
		cut := rng.Intn(len(all))
		deliv = [][]byte{all[:cut]}
		c.descr = fmt.Sprintf("truncate at %d of %d", cut, len(all))
	case 10:
		i := rng.Intn(len(deliv))
		vals := []uint16{0, 1, 1023, 1024, 1025, 4078, 4079, 65535, uint16(len(plains[i]) + 16), uint16(len(plains[i]) - 1), uint16(len(plains[i]) + 1)}
		binary.LittleEndian.PutUint16(deliv[i][:2], vals[rng.Intn(len(vals))])
		c.descr = fmt.Sprintf("length of frame %d := %d", i, binary.LittleEndian.Uint16(deliv[i][:2]))
	case 11:
		all := bytes.Join(deliv, nil)
		pos := rng.Intn(len(all))
		if rng.Intn(2) == 0 {
			all = append(append(append([]byte{}, all[:pos]...), byte(rng.Intn(256))), all[pos:]...)
			c.descr = fmt.Sprintf("insert byte at %d", pos)
		} else {
			all = append(append([]byte{}, all[:pos]...), all[pos+1:]...)
			c.descr = fmt.Sprintf("delete byte at %d", pos)
		}
		deliv = [][]byte{all}
	}
	c.stream = bytes.Join(deliv, nil)
	off := 0
	for c.good < len(frames) && bytes.HasPrefix(c.stream[off:], frames[c.good]) {
		off += len(frames[c.good])
		c.good++
	}
	c.goodLen = off
	c.altered = off != len(c.stream)
	return c
}

// the plaintext of the unmodified leading frames
func (c *h5Case) goodPlain() []byte {
	var acc []byte
	for i := 0; i < c.good; i++ {
		acc = append(acc, c.plains[i]...)
	}
	return acc
}

func TestZZHunt5C05DiffConnection(t *testing.T) {
	fails := 0
	for seed := int64(0); seed < 20000 && fails < 10; seed++ {
		rng := rand.New(rand.NewSource(seed))
		var shared, other [32]byte
		rng.Read(shared[:])
		rng.Read(other[:])
		c := h5Build(rng, shared, other)

		fc := &h5Conn{rng: rng, data: append([]byte{}, c.stream...), noTO: rng.Intn(3) == 0}
		ctx := NewContextForSecuredDevice(nil)
		con := NewConnection(fc, ctx)
		s, _ := crypto.NewSecureSessionFromSharedKey(shared)
		ctx.GetSessionForConnection(fc).SetCryptographer(s)

		var released []byte
		var finalErr error
		sawErrAt := -1
		for i := 0; i < 100000; i++ {
			sz := 1
			switch rng.Intn(4) {
			case 0:
				sz = 1
			case 1:
				sz = 1 + rng.Intn(64)
			case 2:
				sz = 4096
			case 3:
				sz = 1 + rng.Intn(5000)
			}
			b := make([]byte, sz)
			n, err := con.Read(b)
			released = append(released, b[:n]...)
			if err != nil {
				if ne, ok := err.(net.Error); ok && ne.Timeout() {
					continue
				}
				if sawErrAt < 0 {
					sawErrAt = len(released)
					finalErr = err
				}
				// keep reading a few times after the error: nothing more may come
				if i > 0 && rng.Intn(3) == 0 {
					break
				}
			}
		}
		good := c.goodPlain()
		if !bytes.HasPrefix(good, released) {
			fails++
			t.Errorf("seed %d (%s): released %d bytes, not a prefix of the %d good bytes", seed, c.descr, len(released), len(good))
			continue
		}
		if sawErrAt >= 0 && len(released) != sawErrAt {
			fails++
			t.Errorf("seed %d (%s): %d bytes released after the error %v", seed, c.descr, len(released)-sawErrAt, finalErr)
		}
		if c.altered && (finalErr == nil) {
			fails++
			t.Errorf("seed %d (%s): altered, no error", seed, c.descr)
		}
		if c.altered && finalErr == io.EOF && len(c.stream)-c.goodLen >= 2 {
			// truncation inside a frame reported as io.EOF is known; anything else is not
			n := 2 + int(binary.LittleEndian.Uint16(c.stream[c.goodLen:])) + 16
			if len(c.stream)-c.goodLen >= n {
				fails++
				t.Errorf("seed %d (%s): complete altered frame, plain EOF", seed, c.descr)
			}
		}
		if !c.altered && finalErr != io.EOF {
			big := false
			for _, p := range c.plains {
				if len(p) > 4078 {
					big = true
				}
			}
			if !big {
				t.Logf("seed %d (%s): untouched stream: %v", seed, c.descr, finalErr)
			}
		}
		if !c.altered && len(released) != len(good) {
			t.Logf("seed %d (%s): untouched stream: released only %d of %d (err %v)", seed, c.descr, len(released), len(good), finalErr)
		}
	}
}

package http

import (
	"bytes"
	"context"
	"crypto/sha512"
	"encoding/binary"
	"fmt"
	"io"
	"math/rand"
	"net"
	"strings"
	"sync"
	"testing"
	"time"

	"github.com/brutella/hc/accessory"
	"github.com/brutella/hc/crypto"
	"github.com/brutella/hc/db"
	"github.com/brutella/hc/event"
	"github.com/brutella/hc/hap"
	xaead "golang.org/x/crypto/chacha20poly1305"
	xhkdf "golang.org/x/crypto/hkdf"
)

type h5Peer struct {
	key   []byte
	count uint64
}

func h5Key(shared [32]byte, info string) []byte {
	k := make([]byte, 32)
	io.ReadFull(xhkdf.New(sha512.New, shared[:], []byte("Control-Salt"), []byte(info)), k)
	return k
}

func (p *h5Peer) seal(msg []byte) (frames [][]byte) {
	for len(msg) > 0 {
		n := len(msg)
		if n > 1024 {
			n = 1024
		}
		frames = append(frames, p.sealFrame(msg[:n]))
		msg = msg[n:]
	}
	return
}

func (p *h5Peer) sealFrame(chunk []byte) []byte {
	a, _ := xaead.New(p.key)
	var nonce [12]byte
	binary.LittleEndian.PutUint64(nonce[4:], p.count)
	p.count++
	var hdr [2]byte
	binary.LittleEndian.PutUint16(hdr[:], uint16(len(chunk)))
	out := append([]byte{}, hdr[:]...)
	return a.Seal(out, nonce[:], chunk, hdr[:])
}

// TestZZHunt5C05EndToEnd drives the real server (net/http on top of hap.Connection) with
// altered frame streams. Request i sets the brightness to i; the sequence of values the
// accessory sees must be 1..j where all frames of requests 1..j are in the unmodified
// leading part of the delivered stream.
func TestZZHunt5C05EndToEnd(t *testing.T) {
	database, _ := db.NewTempDatabase()
	device, err := hap.NewSecuredDevice("h5", "00011222", database)
	if err != nil {
		t.Fatal(err)
	}
	ctx := hap.NewContextForSecuredDevice(device)
	bulb := accessory.NewColoredLightbulb(accessory.Info{Name: "l"})
	cont := accessory.NewContainer()
	cont.AddAccessory(bulb.Accessory)
	var mu sync.Mutex
	var seen []int
	bulb.Lightbulb.Brightness.OnValueRemoteUpdate(func(v int) {
		mu.Lock()
		seen = append(seen, v)
		mu.Unlock()
	})
	srv := NewServer(Config{Port: "127.0.0.1:0", Context: ctx, Database: database, Container: cont, Device: device, Mutex: &sync.Mutex{}, Emitter: event.NewEmitter()})
	c, cancel := context.WithCancel(context.Background())
	defer cancel()
	go srv.ListenAndServe(c)
	addr := "127.0.0.1:" + srv.Port()
	aid, iid := bulb.Accessory.ID, bulb.Lightbulb.Brightness.ID

	fails := 0
	for seed := int64(0); seed < 400 && fails < 5; seed++ {
		rng := rand.New(rand.NewSource(seed))
		var shared [32]byte
		rng.Read(shared[:])
		conn, err := net.Dial("tcp", addr)
		if err != nil {
			t.Fatal(err)
		}
		// wait for the session of the accepted connection, install the keys as pair-verify would
		var sess hap.Session
		key := conn.LocalAddr().String() + "|" + conn.RemoteAddr().String()
		for i := 0; i < 2000; i++ {
			if s, ok := ctx.Get(key).(hap.Session); ok {
				sess = s
				break
			}
			time.Sleep(time.Millisecond)
		}
		if sess == nil {
			t.Fatal("no session")
		}
		cs, _ := crypto.NewSecureSessionFromSharedKey(shared)
		sess.SetCryptographer(cs)
		sess.Decrypter()

		mu.Lock()
		seen = nil
		mu.Unlock()
		bulb.Lightbulb.Brightness.SetValue(0)

		peer := &h5Peer{key: h5Key(shared, "Control-Write-Encryption-Key")}
		k := 3 + rng.Intn(4)
		var frames [][]byte
		var reqOfFrame []int
		for i := 1; i <= k; i++ {
			pad := ""
			if rng.Intn(2) == 0 {
				pad = strings.Repeat(" ", rng.Intn(2500))
			}
			body := fmt.Sprintf(`{"characteristics":[{"aid":%d,"iid":%d,"value":%d%s}]}`, aid, iid, i, pad)
			req := fmt.Sprintf("PUT /characteristics HTTP/1.1\r\nHost: h\r\nContent-Length: %d\r\n\r\n%s", len(body), body)
			f := peer.seal([]byte(req))
			for range f {
				reqOfFrame = append(reqOfFrame, i)
			}
			frames = append(frames, f...)
		}
		deliv := make([][]byte, len(frames))
		for i := range frames {
			deliv[i] = append([]byte{}, frames[i]...)
		}
		descr := ""
		switch rng.Intn(8) {
		case 0:
			descr = "none"
		case 1:
			i := rng.Intn(len(deliv))
			pos := rng.Intn(len(deliv[i]))
			deliv[i][pos] ^= 1 << uint(rng.Intn(8))
			descr = fmt.Sprintf("flip frame %d byte %d", i, pos)
		case 2:
			i := rng.Intn(len(deliv))
			deliv = append(deliv[:i], deliv[i+1:]...)
			descr = fmt.Sprintf("drop %d", i)
		case 3:
			i := rng.Intn(len(deliv))
			d := append([][]byte{}, deliv[:i+1]...)
			d = append(d, deliv[i])
			deliv = append(d, deliv[i+1:]...)
			descr = fmt.Sprintf("dup %d", i)
		case 4:
			i, j := rng.Intn(len(deliv)), rng.Intn(len(deliv))
			deliv[i], deliv[j] = deliv[j], deliv[i]
			descr = fmt.Sprintf("swap %d %d", i, j)
		case 5:
			// replay a whole earlier request at the end
			r := 1 + rng.Intn(k)
			for i := range frames {
				if reqOfFrame[i] == r {
					deliv = append(deliv, frames[i])
				}
			}
			descr = fmt.Sprintf("replay request %d", r)
		case 6:
			// a request sealed with the accessory's write key (reflection) at the right counter
			i := rng.Intn(len(deliv) + 1)
			acc := &h5Peer{key: h5Key(shared, "Control-Read-Encryption-Key"), count: uint64(i)}
			body := fmt.Sprintf(`{"characteristics":[{"aid":%d,"iid":%d,"value":99}]}`, aid, iid)
			req := fmt.Sprintf("PUT /characteristics HTTP/1.1\r\nHost: h\r\nContent-Length: %d\r\n\r\n%s", len(body), body)
			d := append([][]byte{}, deliv[:i]...)
			d = append(d, acc.sealFrame([]byte(req)))
			deliv = append(d, deliv[i:]...)
			descr = fmt.Sprintf("reflect at %d", i)
		case 7:
			i := rng.Intn(len(deliv))
			binary.LittleEndian.PutUint16(deliv[i][:2], uint16(rng.Intn(1100)))
			descr = fmt.Sprintf("length of frame %d rewritten", i)
		}
		stream := bytes.Join(deliv, nil)
		good, off := 0, 0
		for good < len(frames) && bytes.HasPrefix(stream[off:], frames[good]) {
			off += len(frames[good])
			good++
		}
		// requests completely inside the good part
		maxReq := 0
		if good > 0 {
			maxReq = reqOfFrame[good-1]
			if good < len(frames) && reqOfFrame[good] == maxReq {
				maxReq--
			}
		}
		// deliver: everything at once or in pieces
		go func() {
			if rng.Intn(2) == 0 {
				conn.Write(stream)
			} else {
				s := stream
				for len(s) > 0 {
					n := 1 + rng.Intn(1500)
					if n > len(s) {
						n = len(s)
					}
					conn.Write(s[:n])
					s = s[n:]
					time.Sleep(time.Duration(rng.Intn(300)) * time.Microsecond)
				}
			}
		}()
		// read whatever comes back until the server closes or goes quiet
		conn.SetReadDeadline(time.Now().Add(150 * time.Millisecond))
		io.Copy(io.Discard, conn)
		conn.Close()
		time.Sleep(5 * time.Millisecond)
		mu.Lock()
		got := append([]int{}, seen...)
		mu.Unlock()
		ok := len(got) <= maxReq
		for i, v := range got {
			if v != i+1 {
				ok = false
			}
		}
		if !ok {
			fails++
			t.Errorf("seed %d (%s): the accessory saw %v, at most requests 1..%d are unmodified (k=%d good frames %d of %d)", seed, descr, got, maxReq, k, good, len(frames))
		}
		if off == len(stream) && len(got) != maxReq {
			t.Logf("seed %d (%s): untouched prefix, saw %v of %d", seed, descr, got, maxReq)
		}
	}
}

package crypto

import (
	"bytes"
	"crypto/sha512"
	"encoding/binary"
	"fmt"
	"io"
	"io/ioutil"
	"math/rand"
	"testing"

	xaead "golang.org/x/crypto/chacha20poly1305"
	xhkdf "golang.org/x/crypto/hkdf"
)

// ---- independent reference of the peer ----

type h5Peer struct {
	key   []byte
	count uint64
}

func h5Key(shared [32]byte, info string) []byte {
	k := make([]byte, 32)
	io.ReadFull(xhkdf.New(sha512.New, shared[:], []byte("Control-Salt"), []byte(info)), k)
	return k
}

// frames of one message
func (p *h5Peer) seal(msg []byte) (frames [][]byte, plains [][]byte) {
	for len(msg) > 0 {
		n := len(msg)
		if n > 1024 {
			n = 1024
		}
		frames = append(frames, p.sealFrame(msg[:n]))
		plains = append(plains, msg[:n])
		msg = msg[n:]
	}
	return
}

func (p *h5Peer) sealFrame(chunk []byte) []byte {
	a, _ := xaead.New(p.key)
	var nonce [12]byte
	binary.LittleEndian.PutUint64(nonce[4:], p.count)
	p.count++
	var hdr [2]byte
	binary.LittleEndian.PutUint16(hdr[:], uint16(len(chunk)))
	out := append([]byte{}, hdr[:]...)
	return a.Seal(out, nonce[:], chunk, hdr[:])
}

type h5Case struct {
	stream   []byte   // what the adversary delivers
	good     int      // number of leading frames that are unmodified
	plains   [][]byte // plaintext of the frames the peer sent
	frames   [][]byte
	altered  bool // stream is not a frame-granular prefix of what was sent
	goodLen  int  // bytes of the unmodified frame prefix
	descr    string
}

var h5Sizes = []int{1, 2, 3, 15, 16, 17, 100, 254, 255, 256, 1023, 1024, 1025, 2047, 2048, 2049, 3000, 3072}

func h5Build(rng *rand.Rand, shared [32]byte, other [32]byte) h5Case {
	peer := &h5Peer{key: h5Key(shared, "Control-Write-Encryption-Key")}
	var frames, plains [][]byte
	nmsg := 1 + rng.Intn(4)
	for i := 0; i < nmsg; i++ {
		sz := h5Sizes[rng.Intn(len(h5Sizes))]
		if rng.Intn(3) == 0 {
			sz = 1 + rng.Intn(2100)
		}
		msg := make([]byte, sz)
		rng.Read(msg)
		f, p := peer.seal(msg)
		frames = append(frames, f...)
		plains = append(plains, p...)
	}
	c := h5Case{plains: plains, frames: frames}
	deliv := make([][]byte, len(frames))
	for i := range frames {
		deliv[i] = append([]byte{}, frames[i]...)
	}
	op := rng.Intn(12)
	switch op {
	case 0:
		c.descr = "none"
	case 1, 2:
		// single bit flip anywhere
		i := rng.Intn(len(deliv))
		pos := rng.Intn(len(deliv[i]))
		if rng.Intn(3) == 0 {
			pos = rng.Intn(2)
		}
		bit := uint(rng.Intn(8))
		deliv[i][pos] ^= 1 << bit
		c.descr = fmt.Sprintf("flip frame %d byte %d bit %d", i, pos, bit)
	case 3:
		i := rng.Intn(len(deliv))
		deliv = append(deliv[:i], deliv[i+1:]...)
		c.descr = fmt.Sprintf("drop frame %d", i)
	case 4:
		i := rng.Intn(len(deliv))
		d := append([][]byte{}, deliv[:i+1]...)
		d = append(d, deliv[i])
		d = append(d, deliv[i+1:]...)
		deliv = d
		c.descr = fmt.Sprintf("dup frame %d", i)
	case 5:
		i, j := rng.Intn(len(deliv)), rng.Intn(len(deliv))
		deliv[i], deliv[j] = deliv[j], deliv[i]
		c.descr = fmt.Sprintf("swap %d %d", i, j)
	case 6:
		i := rng.Intn(len(deliv))
		deliv = append(deliv, deliv[i])
		c.descr = fmt.Sprintf("replay frame %d at end", i)
	case 7:
		// reflect: a frame the accessory itself produced, with the counter of the position
		i := rng.Intn(len(deliv) + 1)
		acc := &h5Peer{key: h5Key(shared, "Control-Read-Encryption-Key"), count: uint64(i)}
		if rng.Intn(2) == 0 {
			acc.count = 0
		}
		var body []byte
		if i < len(plains) {
			body = plains[i]
		} else {
			body = []byte("HTTP/1.1 204 No Content\r\n\r\n")
		}
		f := acc.sealFrame(body)
		d := append([][]byte{}, deliv[:i]...)
		d = append(d, f)
		d = append(d, deliv[i:]...)
		deliv = d
		c.descr = fmt.Sprintf("reflect at %d", i)
	case 8:
		// cross session: same position, other session's key
		i := rng.Intn(len(deliv))
		o := &h5Peer{key: h5Key(other, "Control-Write-Encryption-Key"), count: uint64(i)}
		deliv[i] = o.sealFrame(plains[i])
		c.descr = fmt.Sprintf("cross-session at %d", i)
	case 9:
		// truncate the byte stream
		all := bytes.Join(deliv, nil)
		cut := rng.Intn(len(all))
		deliv = [][]byte{all[:cut]}
		c.descr = fmt.Sprintf("truncate at %d of %d", cut, len(all))
	case 10:
		// length field rewritten to a chosen value
		i := rng.Intn(len(deliv))
		vals := []uint16{0, 1, 1023, 1024, 1025, 65535, uint16(len(plains[i]) + 16), uint16(len(plains[i]) - 1), uint16(len(plains[i]) + 1)}
		binary.LittleEndian.PutUint16(deliv[i][:2], vals[rng.Intn(len(vals))])
		c.descr = fmt.Sprintf("length of frame %d := %d", i, binary.LittleEndian.Uint16(deliv[i][:2]))
	case 11:
		// insert / delete a byte
		all := bytes.Join(deliv, nil)
		pos := rng.Intn(len(all))
		if rng.Intn(2) == 0 {
			all = append(append(append([]byte{}, all[:pos]...), byte(rng.Intn(256))), all[pos:]...)
			c.descr = fmt.Sprintf("insert byte at %d", pos)
		} else {
			all = append(append([]byte{}, all[:pos]...), all[pos+1:]...)
			c.descr = fmt.Sprintf("delete byte at %d", pos)
		}
		deliv = [][]byte{all}
	}
	c.stream = bytes.Join(deliv, nil)
	// leading unmodified frames
	off := 0
	for c.good < len(frames) && bytes.HasPrefix(c.stream[off:], frames[c.good]) {
		off += len(frames[c.good])
		c.good++
	}
	c.goodLen = off
	c.altered = off != len(c.stream)
	return c
}

// allowed reports whether released is a frame granular prefix of the first good frames
func (c *h5Case) allowed(released []byte) bool {
	if len(released) == 0 {
		return true
	}
	var acc []byte
	for i := 0; i < c.good; i++ {
		acc = append(acc, c.plains[i]...)
		if bytes.Equal(acc, released) {
			return true
		}
		if len(acc) > len(released) {
			return false
		}
	}
	return false
}

// split the delivered stream the way the wire layer does: by the length fields it carries
func h5SplitByHeader(s []byte) [][]byte {
	var out [][]byte
	for len(s) > 0 {
		if len(s) < 2 {
			out = append(out, s)
			break
		}
		n := 2 + int(binary.LittleEndian.Uint16(s)) + 16
		if n > len(s) {
			n = len(s)
		}
		out = append(out, s[:n])
		s = s[n:]
	}
	return out
}

func TestZZHunt5C05DiffDecrypt(t *testing.T) {
	fails := 0
	for seed := int64(0); seed < 30000 && fails < 10; seed++ {
		rng := rand.New(rand.NewSource(seed))
		var shared, other [32]byte
		rng.Read(shared[:])
		rng.Read(other[:])
		c := h5Build(rng, shared, other)
		mode := rng.Intn(3)

		s, _ := NewSecureSessionFromSharedKey(shared)
		var released []byte
		var gotErr error
		switch mode {
		case 0: // whole stream, one call
			r, err := s.Decrypt(bytes.NewReader(c.stream))
			if err != nil {
				gotErr = err
			} else {
				b, _ := ioutil.ReadAll(r)
				released = b
				// a second call to see the rest
				rd := bytes.NewReader(c.stream)
				_ = rd
			}
		case 1: // frame by frame as delimited by the headers on the wire
			for _, f := range h5SplitByHeader(c.stream) {
				r, err := s.Decrypt(bytes.NewReader(f))
				if err != nil {
					gotErr = err
					break
				}
				b, _ := ioutil.ReadAll(r)
				released = append(released, b...)
			}
		case 2: // one reader, repeated calls
			rd := bytes.NewReader(c.stream)
			for i := 0; i < 50; i++ {
				before := rd.Len()
				r, err := s.Decrypt(rd)
				if err != nil {
					gotErr = err
					break
				}
				b, _ := ioutil.ReadAll(r)
				released = append(released, b...)
				if rd.Len() == 0 && before == 0 {
					break
				}
			}
		}
		if !c.allowed(released) {
			fails++
			t.Errorf("seed %d mode %d (%s): released %d bytes which is not an unmodified frame prefix (good frames %d)", seed, mode, c.descr, len(released), c.good)
			continue
		}
		if c.altered && mode != 0 && gotErr == nil {
			fails++
			t.Errorf("seed %d mode %d (%s): altered stream, no error; released %d", seed, mode, c.descr, len(released))
		}
		if c.altered && mode == 0 && gotErr == nil {
			// one call stops after the first short frame; an error is only due when the call reached the alteration
			consumedAll := len(released) > 0 && false
			_ = consumedAll
		}
		if !c.altered && gotErr != nil {
			t.Logf("seed %d mode %d (%s): untouched stream but error %v", seed, mode, c.descr, gotErr)
		}
	}
}

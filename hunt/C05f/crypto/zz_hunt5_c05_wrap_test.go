package crypto

import (
	"bytes"
	"io/ioutil"
	"math"
	"testing"
)

// BORDERLINE. Clause: "replaying frames ... the receiving side never releases plaintext other
// than an unmodified prefix of what the peer sent"; quantifier: "all frame counters".
// The decrypt counter is a uint64 which wraps silently (secure_session.go:128-129): after frame
// number 2^64-1 the nonce 0 is used again under the same key, so the frame the adversary recorded
// as the very first one of the session is accepted a second time. (Needs 2^64 frames on one
// session; the counters are set from the test. Upstream's TestCryptoMaxPacketCount asserts the wrap.)
func TestZZHunt5C05CounterWrapReplay(t *testing.T) {
	var key [32]byte
	key[0] = 7
	acc, _ := NewSecureSessionFromSharedKey(key)
	ctl, _ := NewSecureClientSessionFromSharedKey(key)

	first, _ := ctl.Encrypt(bytes.NewReader([]byte("PUT /characteristics unlock")))
	recorded, _ := ioutil.ReadAll(first) // frame number 0 as seen on the wire
	r, err := acc.Decrypt(bytes.NewReader(recorded))
	if err != nil {
		t.Fatal(err)
	}
	ioutil.ReadAll(r)

	// ... 2^64-2 frames later
	ctl.(*secureSession).encryptCount = math.MaxUint64
	acc.(*secureSession).decryptCount = math.MaxUint64
	last, _ := ctl.Encrypt(bytes.NewReader([]byte("last")))
	if _, err := acc.Decrypt(last); err != nil {
		t.Fatal(err)
	}

	// the adversary replays frame number 0; the peer has not sent it again
	r, err = acc.Decrypt(bytes.NewReader(recorded))
	if err == nil {
		b, _ := ioutil.ReadAll(r)
		t.Fatalf("replayed first frame of the session accepted after the counter wrapped: %q", b)
	}
}

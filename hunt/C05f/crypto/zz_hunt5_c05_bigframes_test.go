package crypto

import (
	"bytes"
	"fmt"
	"io/ioutil"
	"math/rand"
	"testing"
)

// frames of any size a peer may choose (0 .. 65535), altered; Decrypt fed frame by frame and as one stream
func TestZZHunt5C05DiffBigFrames(t *testing.T) {
	sizes := []int{0, 1, 2, 1023, 1024, 1025, 4078, 4079, 65534, 65535}
	fails := 0
	for seed := int64(0); seed < 4000 && fails < 10; seed++ {
		rng := rand.New(rand.NewSource(seed))
		var shared [32]byte
		rng.Read(shared[:])
		peer := &h5Peer{key: h5Key(shared, "Control-Write-Encryption-Key")}
		k := 1 + rng.Intn(5)
		var frames, plains [][]byte
		for i := 0; i < k; i++ {
			sz := sizes[rng.Intn(len(sizes))]
			if rng.Intn(2) == 0 {
				sz = rng.Intn(3000)
			}
			p := make([]byte, sz)
			rng.Read(p)
			plains = append(plains, p)
			frames = append(frames, peer.sealFrame(p))
		}
		deliv := make([][]byte, k)
		for i := range frames {
			deliv[i] = append([]byte{}, frames[i]...)
		}
		descr := "none"
		switch rng.Intn(6) {
		case 1:
			i := rng.Intn(k)
			pos := rng.Intn(len(deliv[i]))
			if rng.Intn(2) == 0 {
				pos = rng.Intn(2)
			}
			deliv[i][pos] ^= 1 << uint(rng.Intn(8))
			descr = fmt.Sprintf("flip %d/%d", i, pos)
		case 2:
			i := rng.Intn(k)
			deliv = append(deliv[:i], deliv[i+1:]...)
			descr = fmt.Sprintf("drop %d", i)
		case 3:
			i := rng.Intn(k)
			deliv = append(deliv, deliv[i])
			descr = fmt.Sprintf("replay %d", i)
		case 4:
			i, j := rng.Intn(k), rng.Intn(k)
			deliv[i], deliv[j] = deliv[j], deliv[i]
			descr = fmt.Sprintf("swap %d %d", i, j)
		case 5:
			all := bytes.Join(deliv, nil)
			deliv = [][]byte{all[:rng.Intn(len(all))]}
			descr = "truncate"
		}
		stream := bytes.Join(deliv, nil)
		c := h5Case{plains: plains, frames: frames, stream: stream}
		off := 0
		for c.good < k && bytes.HasPrefix(stream[off:], frames[c.good]) {
			off += len(frames[c.good])
			c.good++
		}
		c.altered = off != len(stream)

		s, _ := NewSecureSessionFromSharedKey(shared)
		var released []byte
		var gotErr error
		if rng.Intn(2) == 0 {
			for _, f := range h5SplitByHeader(stream) {
				r, err := s.Decrypt(bytes.NewReader(f))
				if err != nil {
					gotErr = err
					break
				}
				b, _ := ioutil.ReadAll(r)
				released = append(released, b...)
			}
		} else {
			rd := bytes.NewReader(stream)
			for i := 0; i < 20; i++ {
				before := rd.Len()
				r, err := s.Decrypt(rd)
				if err != nil {
					gotErr = err
					break
				}
				b, _ := ioutil.ReadAll(r)
				released = append(released, b...)
				if before == 0 {
					break
				}
			}
		}
		if !bytes.HasPrefix(func() []byte { var a []byte; for i := 0; i < c.good; i++ { a = append(a, plains[i]...) }; return a }(), released) {
			fails++
			t.Errorf("seed %d (%s): released %d bytes, not a prefix", seed, descr, len(released))
		}
		if c.altered && gotErr == nil {
			fails++
			t.Errorf("seed %d (%s): altered, no error (released %d)", seed, descr, len(released))
		}
		if !c.altered && gotErr != nil {
			t.Logf("seed %d (%s): untouched but %v", seed, descr, gotErr)
		}
	}
}

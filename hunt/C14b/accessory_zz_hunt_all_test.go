package accessory

import (
	"encoding/json"
	"fmt"
	"math/rand"
	"testing"

	"github.com/brutella/hc/service"
)

var zzSvcCtors = []func() *service.Service{
	func() *service.Service { return service.NewAccessoryInformation().Service },
	func() *service.Service { return service.NewAirPurifier().Service },
	func() *service.Service { return service.NewAirQualitySensor().Service },
	func() *service.Service { return service.NewBatteryService().Service },
	func() *service.Service { return service.NewBridgeConfiguration().Service },
	func() *service.Service { return service.NewBridgingState().Service },
	func() *service.Service { return service.NewCameraControl().Service },
	func() *service.Service { return service.NewCameraRecordingManagement().Service },
	func() *service.Service { return service.NewCameraRTPStreamManagement().Service },
	func() *service.Service { return service.NewCarbonDioxideSensor().Service },
	func() *service.Service { return service.NewCarbonMonoxideSensor().Service },
	func() *service.Service { return service.NewColoredLightbulb().Service },
	func() *service.Service { return service.NewContactSensor().Service },
	func() *service.Service { return service.NewCooler().Service },
	func() *service.Service { return service.NewDoor().Service },
	func() *service.Service { return service.NewDoorbell().Service },
	func() *service.Service { return service.NewFan().Service },
	func() *service.Service { return service.NewFanV2().Service },
	func() *service.Service { return service.NewFaucet().Service },
	func() *service.Service { return service.NewFilterMaintenance().Service },
	func() *service.Service { return service.NewGarageDoorOpener().Service },
	func() *service.Service { return service.NewHeater().Service },
	func() *service.Service { return service.NewHeaterCooler().Service },
	func() *service.Service { return service.NewHumidifierDehumidifier().Service },
	func() *service.Service { return service.NewHumiditySensor().Service },
	func() *service.Service { return service.NewInputSource().Service },
	func() *service.Service { return service.NewIrrigationSystem().Service },
	func() *service.Service { return service.NewLeakSensor().Service },
	func() *service.Service { return service.NewLightSensor().Service },
	func() *service.Service { return service.NewLightbulb().Service },
	func() *service.Service { return service.NewLockManagement().Service },
	func() *service.Service { return service.NewLockMechanism().Service },
	func() *service.Service { return service.NewMicrophone().Service },
	func() *service.Service { return service.NewMotionSensor().Service },
	func() *service.Service { return service.NewOccupancySensor().Service },
	func() *service.Service { return service.NewOutlet().Service },
	func() *service.Service { return service.NewSecuritySystem().Service },
	func() *service.Service { return service.NewServiceLabel().Service },
	func() *service.Service { return service.NewSlat().Service },
	func() *service.Service { return service.NewSmokeSensor().Service },
	func() *service.Service { return service.NewSpeaker().Service },
	func() *service.Service { return service.NewStatefulProgrammableSwitch().Service },
	func() *service.Service { return service.NewStatelessProgrammableSwitch().Service },
	func() *service.Service { return service.NewSwitch().Service },
	func() *service.Service { return service.NewTelevision().Service },
	func() *service.Service { return service.NewTemperatureSensor().Service },
	func() *service.Service { return service.NewThermostat().Service },
	func() *service.Service { return service.NewTimeInformation().Service },
	func() *service.Service { return service.NewTunneledBTLEAccessoryService().Service },
	func() *service.Service { return service.NewValve().Service },
	func() *service.Service { return service.NewWifiTransport().Service },
	func() *service.Service { return service.NewWindow().Service },
	func() *service.Service { return service.NewWindowCovering().Service },
}

// zzCheck validates the property on the Go objects and on the JSON.
func zzCheck(t *testing.T, label string, c *Container) string {
	t.Helper()
	aids := map[uint64]bool{}
	for _, a := range c.Accessories {
		if a.ID == 0 {
			t.Errorf("%s: accessory id 0", label)
		}
		if aids[a.ID] {
			t.Errorf("%s: duplicate aid %d", label, a.ID)
		}
		aids[a.ID] = true
		iids := map[uint64]string{}
		for si, s := range a.Services {
			if s.ID == 0 {
				t.Errorf("%s: aid %d service #%d (%s) iid 0", label, a.ID, si, s.Type)
			}
			if w, ok := iids[s.ID]; ok {
				t.Errorf("%s: aid %d service #%d iid %d duplicates %s", label, a.ID, si, s.ID, w)
			}
			iids[s.ID] = fmt.Sprintf("service #%d", si)
			for ci, ch := range s.Characteristics {
				if ch.ID == 0 {
					t.Errorf("%s: aid %d service #%d char #%d (%s) iid 0", label, a.ID, si, ci, ch.Type)
				}
				if w, ok := iids[ch.ID]; ok {
					t.Errorf("%s: aid %d service #%d char #%d iid %d duplicates %s", label, a.ID, si, ci, ch.ID, w)
				}
				iids[ch.ID] = fmt.Sprintf("service #%d char #%d", si, ci)
			}
		}
	}
	b, err := json.Marshal(c)
	if err != nil {
		t.Errorf("%s: marshal %v", label, err)
		return ""
	}
	var doc struct {
		Accessories []map[string]json.RawMessage `json:"accessories"`
	}
	if err := json.Unmarshal(b, &doc); err != nil {
		t.Errorf("%s: unmarshal %v", label, err)
		return ""
	}
	if len(doc.Accessories) != len(c.Accessories) {
		t.Errorf("%s: accessory count", label)
	}
	jaids := map[uint64]bool{}
	for _, a := range doc.Accessories {
		var aid uint64
		if raw, ok := a["aid"]; !ok || json.Unmarshal(raw, &aid) != nil || aid == 0 {
			t.Errorf("%s: JSON aid missing/zero: %s", label, a["aid"])
		}
		if jaids[aid] {
			t.Errorf("%s: JSON dup aid %d", label, aid)
		}
		jaids[aid] = true
		var svcs []map[string]json.RawMessage
		if err := json.Unmarshal(a["services"], &svcs); err != nil {
			t.Errorf("%s: JSON services: %v", label, err)
		}
		jiids := map[uint64]bool{}
		svcIDs := map[uint64]bool{}
		take := func(what string, raw json.RawMessage, ok bool) uint64 {
			var iid uint64
			if !ok || json.Unmarshal(raw, &iid) != nil || iid == 0 {
				t.Errorf("%s: JSON aid %d %s iid missing/zero: %s", label, aid, what, raw)
				return 0
			}
			if jiids[iid] {
				t.Errorf("%s: JSON aid %d %s dup iid %d", label, aid, what, iid)
			}
			jiids[iid] = true
			return iid
		}
		for _, s := range svcs {
			raw, ok := s["iid"]
			svcIDs[take("service", raw, ok)] = true
			var typ string
			if json.Unmarshal(s["type"], &typ) != nil || typ == "" {
				t.Errorf("%s: JSON service type missing", label)
			}
			var chars []map[string]json.RawMessage
			if err := json.Unmarshal(s["characteristics"], &chars); err != nil {
				t.Errorf("%s: JSON chars: %v (%s)", label, err, s["characteristics"])
			}
			for _, ch := range chars {
				raw, ok := ch["iid"]
				take("char", raw, ok)
				var ctyp, format string
				var perms []string
				if json.Unmarshal(ch["type"], &ctyp) != nil || ctyp == "" {
					t.Errorf("%s: JSON char type missing", label)
				}
				if json.Unmarshal(ch["format"], &format) != nil || format == "" {
					t.Errorf("%s: JSON char format missing (type %s)", label, ctyp)
				}
				if json.Unmarshal(ch["perms"], &perms) != nil || len(perms) == 0 {
					t.Errorf("%s: JSON char perms missing (type %s): %s", label, ctyp, ch["perms"])
				}
			}
		}
		for _, s := range svcs {
			if raw, ok := s["linked"]; ok {
				var linked []uint64
				if err := json.Unmarshal(raw, &linked); err != nil {
					t.Errorf("%s: linked: %v", label, err)
				}
				for _, l := range linked {
					if !svcIDs[l] {
						t.Errorf("%s: aid %d linked id %d is not a service of the accessory", label, aid, l)
					}
				}
			}
		}
	}
	return string(b)
}

func TestZZHuntAllServicesOneAccessory(t *testing.T) {
	build := func() *Container {
		a := New(Info{Name: "x"}, TypeOther)
		for _, f := range zzSvcCtors {
			a.AddService(f())
		}
		c := NewContainer()
		if err := c.AddAccessory(a); err != nil {
			t.Fatal(err)
		}
		return c
	}
	j1 := zzCheck(t, "all-1", build())
	j2 := zzCheck(t, "all-2", build())
	if j1 != j2 {
		t.Errorf("rebuild differs")
	}
}

func zzCtorAccessories(id uint64) []*Accessory {
	info := Info{Name: "n", ID: id}
	return []*Accessory{
		New(info, TypeOther),
		NewBridge(info).Accessory,
		NewCamera(info).Accessory,
		NewColoredLightbulb(info).Accessory,
		NewLightbulb(info).Accessory,
		NewOutlet(info).Accessory,
		NewSwitch(info).Accessory,
		NewTelevision(info).Accessory,
		NewTemperatureSensor(info, 20, 0, 100, 1).Accessory,
		NewThermostat(info, 20, 0, 100, 1).Accessory,
		NewWindow(info, 0).Accessory,
	}
}

func TestZZHuntAccessoryConstructors(t *testing.T) {
	build := func() *Container {
		c := NewContainer()
		for _, a := range zzCtorAccessories(0) {
			if err := c.AddAccessory(a); err != nil {
				t.Fatal(err)
			}
		}
		return c
	}
	j1 := zzCheck(t, "ctors-1", build())
	j2 := zzCheck(t, "ctors-2", build())
	if j1 != j2 {
		t.Errorf("rebuild differs")
	}
	// before adding to a container the instance ids are already there
	for i, a := range zzCtorAccessories(7) {
		c := &Container{Accessories: []*Accessory{a}}
		zzCheck(t, fmt.Sprintf("ctor-nocontainer-%d", i), c)
	}
}

func TestZZHuntRandomCompositions(t *testing.T) {
	for seed := int64(0); seed < 300; seed++ {
		build := func() (*Container, []error) {
			r := rand.New(rand.NewSource(seed))
			c := NewContainer()
			var errs []error
			n := 1 + r.Intn(40)
			nextExplicit := uint64(1000)
			for i := 0; i < n; i++ {
				info := Info{Name: fmt.Sprint("a", i)}
				if r.Intn(3) == 0 {
					info.ID = nextExplicit
					nextExplicit += uint64(1 + r.Intn(5))
				}
				a := New(info, TypeOther)
				var svcs []*service.Service
				k := r.Intn(8)
				for j := 0; j < k; j++ {
					s := zzSvcCtors[r.Intn(len(zzSvcCtors))]()
					s.Hidden = r.Intn(4) == 0
					s.Primary = r.Intn(4) == 0
					if len(svcs) > 0 && r.Intn(2) == 0 {
						// link before or after adding
						svcs[r.Intn(len(svcs))].AddLinkedService(s)
					}
					svcs = append(svcs, s)
				}
				// add in random phase: some before container, some after
				split := 0
				if k > 0 {
					split = r.Intn(k + 1)
				}
				for _, s := range svcs[:split] {
					a.AddService(s)
				}
				errs = append(errs, c.AddAccessory(a))
				for _, s := range svcs[split:] {
					a.AddService(s)
				}
			}
			return c, errs
		}
		c1, e1 := build()
		c2, _ := build()
		for _, e := range e1 {
			if e != nil {
				t.Errorf("seed %d: %v", seed, e)
			}
		}
		j1 := zzCheck(t, fmt.Sprint("rand-", seed), c1)
		j2 := zzCheck(t, fmt.Sprint("rand-", seed, "-b"), c2)
		if j1 != j2 {
			t.Errorf("seed %d: rebuild differs", seed)
		}
		if t.Failed() {
			return
		}
	}
}

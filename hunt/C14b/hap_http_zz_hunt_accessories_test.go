package http

import (
	"encoding/json"
	"net/http/httptest"
	"sync"
	"testing"

	"github.com/brutella/hc/accessory"
	"github.com/brutella/hc/characteristic"
	"github.com/brutella/hc/service"
)

type zzChar struct {
	IID  uint64 `json:"iid"`
	Type string `json:"type"`
}
type zzSvc struct {
	IID    uint64   `json:"iid"`
	Type   string   `json:"type"`
	Chars  []zzChar `json:"characteristics"`
	Linked []uint64 `json:"linked"`
}
type zzAcc struct {
	AID  uint64  `json:"aid"`
	Svcs []zzSvc `json:"services"`
}
type zzDoc struct {
	Accessories []zzAcc `json:"accessories"`
}

func zzGetAccessories(t *testing.T, c *accessory.Container) zzDoc {
	srv := testable(Config{Container: c, Mutex: &sync.Mutex{}})
	w := httptest.NewRecorder()
	r := httptest.NewRequest("GET", "/accessories", nil)
	srv.Accessories(w, r)
	var doc zzDoc
	if err := json.Unmarshal(w.Body.Bytes(), &doc); err != nil {
		t.Fatalf("body is not JSON: %v\n%s", err, w.Body.String())
	}
	return doc
}

func zzCheckDoc(t *testing.T, doc zzDoc) {
	for _, a := range doc.Accessories {
		seen := map[uint64]string{}
		for _, s := range a.Svcs {
			if s.IID == 0 {
				t.Errorf("aid %d: service type %s served with iid 0", a.AID, s.Type)
			}
			if w, ok := seen[s.IID]; ok {
				t.Errorf("aid %d: service type %s iid %d already used by %s", a.AID, s.Type, s.IID, w)
			}
			seen[s.IID] = "service " + s.Type
			for _, c := range s.Chars {
				if c.IID == 0 {
					t.Errorf("aid %d: characteristic type %s (service %s) served with iid 0", a.AID, c.Type, s.Type)
				}
				if w, ok := seen[c.IID]; ok {
					t.Errorf("aid %d: characteristic type %s iid %d already used by %s", a.AID, c.Type, c.IID, w)
				}
				seen[c.IID] = "characteristic " + c.Type
			}
		}
	}
}

// The television example of the library adds services after the transport (and
// so the container) exists; commit 8975ca3 made that flow number the services.
// The same flow with a characteristic: a service that already belongs to an
// accessory gets an optional characteristic.
func TestZZHuntLateCharacteristicServed(t *testing.T) {
	lamp := accessory.NewLightbulb(accessory.Info{Name: "lamp"})
	c := accessory.NewContainer()
	if err := c.AddAccessory(lamp.Accessory); err != nil {
		t.Fatal(err)
	}

	lamp.Lightbulb.AddCharacteristic(characteristic.NewBrightness().Characteristic)
	lamp.Lightbulb.AddCharacteristic(characteristic.NewHue().Characteristic)

	zzCheckDoc(t, zzGetAccessories(t, c))
}

// Variant: the service itself is added late (numbered by AddService, the repaired flow) and then completed.
func TestZZHuntLateCharacteristicOnAddedService(t *testing.T) {
	tv := accessory.NewTelevision(accessory.Info{Name: "tv"})
	c := accessory.NewContainer()
	if err := c.AddAccessory(tv.Accessory); err != nil {
		t.Fatal(err)
	}
	sp := service.NewSpeaker()
	tv.AddService(sp.Service) // numbered here
	sp.AddCharacteristic(characteristic.NewVolume().Characteristic)
	zzCheckDoc(t, zzGetAccessories(t, c))
}

func TestZZHuntLargeDatabaseServed(t *testing.T) {
	c := accessory.NewContainer()
	c.AddAccessory(accessory.NewBridge(accessory.Info{Name: "bridge <&>  "}).Accessory)
	for i := 0; i < 60; i++ {
		tv := accessory.NewTelevision(accessory.Info{Name: "tv"})
		c.AddAccessory(tv.Accessory)
		for j := 0; j < 5; j++ {
			in := service.NewInputSource()
			in.Hidden = j%2 == 0
			in.Primary = j == 1
			tv.AddService(in.Service)
			tv.Television.AddLinkedService(in.Service)
		}
		c.AddAccessory(accessory.NewThermostat(accessory.Info{Name: "th", ID: uint64(1000 + i)}, 20, 10, 30, 0.1).Accessory)
	}
	doc := zzGetAccessories(t, c)
	if len(doc.Accessories) != 121 {
		t.Errorf("served %d accessories", len(doc.Accessories))
	}
	aids := map[uint64]bool{}
	for _, a := range doc.Accessories {
		if a.AID == 0 || aids[a.AID] {
			t.Errorf("aid %d zero or duplicate", a.AID)
		}
		aids[a.AID] = true
		svc := map[uint64]bool{}
		for _, s := range a.Svcs {
			svc[s.IID] = true
		}
		for _, s := range a.Svcs {
			for _, l := range s.Linked {
				if !svc[l] {
					t.Errorf("aid %d linked %d unknown", a.AID, l)
				}
			}
		}
	}
	zzCheckDoc(t, doc)
}
